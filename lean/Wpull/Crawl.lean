/-
Model of the crawl loop that properties C01, C03 (and the request accounting of
C18/C20) are anchored in:

* `wpull/database/sqltable.py`   add_many (insert-or-ignore), check_out, check_in, release
* `wpull/pipeline/session.py`    ItemSession (per-item child batch, set_status / skip / finish),
                                 URLItemSource.get_item (todo first, then error)
* `wpull/pipeline/pipeline.py`   producer / N workers: any number of items in flight
* `wpull/processor/web.py`       one visit = filter verdict, request hops, scrape, status
* `wpull/application/tasks/database.py`  start-up: release(), insert-or-ignore of the start URLs

URLs are abstract identifiers (`Nat`): the harness numbers the *normalised* URL
strings, so "same URL" in the model is "same string after `URLInfo.parse(..).url`"
in the code.  What a visit of a row does (requests issued, final status,
children offered to the table) is the parameter `Cfg.visit`: it packages the
site, the filters (C02), redirect following (C18) and scraping.  The theorems
hold for every `visit`; the trace-acceptance check instantiates it with what
the real run did.

The transition system has exactly the granularity of the database
transactions of the real code, so a `crash` may be placed between any two.
-/
import Wpull.Py.Basic
namespace Wpull.Crawl

abbrev Url := Nat

inductive Status | todo | inProgress | done | error | skipped
  deriving DecidableEq, Repr, Inhabited

def Status.final : Status → Bool
  | .done | .skipped => true
  | _ => false

structure Row where
  url : Url
  status : Status
  level : Nat
  inline : Option Nat
  tries : Nat
  deriving DecidableEq, Repr, Inhabited

/-- a link offered to the table by a finished page -/
structure Child where
  url : Url
  inline : Bool
  deriving DecidableEq, Repr

/-- what one visit of a checked-out row does -/
structure Visit where
  /-- request lines sent, in order (first hop, redirect hops) -/
  requests : List Url
  /-- status written at the end: done, skipped or error -/
  status : Status
  /-- links that passed the scrape-time filter, in scrape order -/
  children : List Child
  deriving Repr

structure Cfg where
  visit : Row → Visit

/-- phases of an item in flight (one per database transaction) -/
inductive Phase
  | running (pending : List Url)   -- requests still to be issued
  | flushed                        -- children inserted, status not yet written
  deriving DecidableEq, Repr

structure Item where
  row : Row
  phase : Phase
  deriving Repr

structure St where
  /-- persistent: the URL table, in insertion (id) order -/
  table : List Row
  /-- volatile: items checked out by this process -/
  inflight : List Item
  /-- history: every request line seen by the servers, newest last -/
  log : List Url
  /-- history: every row handed out by check_out (as handed out), newest last -/
  outs : List Row
  /-- the process is dead (after `crash`, before `restart`) -/
  down : Bool
  deriving Repr

/-! ### table operations (the transactions of sqltable.py) -/

def hasUrl (t : List Row) (u : Url) : Bool := t.any (·.url == u)

/-- `add_many`: insert-or-ignore, batch-internal duplicates included; returns the
new table and the URLs actually inserted. -/
def addMany (t : List Row) : List Row → List Row × List Url
  | [] => (t, [])
  | r :: rest =>
    if hasUrl t r.url then addMany t rest
    else
      let (t', ins) := addMany (t ++ [r]) rest
      (t', r.url :: ins)

/-- first row with the given status (by id) -/
def firstWith (t : List Row) (s : Status) : Option Row := t.find? (·.status == s)

def setStatus (t : List Row) (u : Url) (s : Status) (inc : Bool) : List Row :=
  t.map fun r => if r.url == u then { r with status := s, tries := if inc then r.tries + 1 else r.tries } else r

/-- `release`: every in-progress row, and nothing else, back to to-do -/
def release (t : List Row) : List Row :=
  t.map fun r => if r.status == .inProgress then { r with status := .todo } else r

/-- `URLItemSource.get_item`: to-do first, then error -/
def nextRow (t : List Row) : Option Row :=
  match firstWith t .todo with
  | some r => some r
  | none => firstWith t .error

def childRow (parent : Row) (c : Child) : Row :=
  { url := c.url, status := .todo, level := parent.level + 1,
    inline := if c.inline then some (parent.inline.getD 0 + 1) else none, tries := 0 }

def startRow (u : Url) : Row := { url := u, status := .todo, level := 0, inline := none, tries := 0 }

/-! ### transitions -/

inductive Ev
  /-- producer: `check_out`; `none` = nothing to do and nothing handed out -/
  | checkOut
  /-- item `u` sends its next request -/
  | request (u : Url)
  /-- item `u`: children batch inserted (`add_many`) — before the status write -/
  | flush (u : Url)
  /-- item `u`: `check_in` with the visit's status, try count + 1 -/
  | checkIn (u : Url)
  /-- the process dies: volatile state is gone -/
  | crash
  /-- the same command again: `release()` + insert-or-ignore of the start URLs -/
  | restart
  deriving DecidableEq, Repr

def findItem (l : List Item) (u : Url) : Option Item := l.find? (·.row.url == u)
def dropItem (l : List Item) (u : Url) : List Item := l.filter (·.row.url != u)
def putItem (l : List Item) (it : Item) : List Item :=
  l.map fun x => if x.row.url == it.row.url then it else x

/-- One step; `none` = the event is not enabled in this state.
`conc` = number of workers + the producer's look-ahead (bound on items in flight);
`starts` = the start URLs of the command line. -/
def step (c : Cfg) (conc : Nat) (starts : List Url) (s : St) : Ev → Option St
  | .checkOut =>
    if !s.down && s.inflight.length < conc then
      match nextRow s.table with
      | none => none
      | some r =>
        let r' := { r with status := .inProgress }
        some { s with table := setStatus s.table r.url .inProgress false,
                      inflight := s.inflight ++ [⟨r', .running (c.visit r').requests⟩],
                      outs := s.outs ++ [r'] }
    else none
  | .request u =>
    if s.down then none else
    match findItem s.inflight u with
    | some ⟨r, .running (v :: rest)⟩ =>
      some { s with inflight := putItem s.inflight ⟨r, .running rest⟩, log := s.log ++ [v] }
    | _ => none
  | .flush u =>
    if s.down then none else
    match findItem s.inflight u with
    | some ⟨r, .running []⟩ =>
      let kids := (c.visit r).children.map (childRow r)
      some { s with table := (addMany s.table kids).1, inflight := putItem s.inflight ⟨r, .flushed⟩ }
    | _ => none
  | .checkIn u =>
    if s.down then none else
    match findItem s.inflight u with
    | some ⟨r, .flushed⟩ =>
      some { s with table := setStatus s.table u (c.visit r).status true,
                    inflight := dropItem s.inflight u }
    | _ => none
  | .crash => if s.down then none else some { s with inflight := [], down := true }
  | .restart =>
    if s.down then
      some { s with table := (addMany (release s.table) (starts.map startRow)).1, down := false }
    else none

/-- state after start-up of a fresh database -/
def init (starts : List Url) : St :=
  { table := (addMany [] (starts.map startRow)).1, inflight := [], log := [], outs := [], down := false }

def run (c : Cfg) (conc : Nat) (starts : List Url) : St → List Ev → Option St
  | s, [] => some s
  | s, e :: es =>
    match step c conc starts s e with
    | none => none
    | some s' => run c conc starts s' es

/-- nothing left to do: no item in flight and no to-do / error row -/
def quiescent (s : St) : Bool := !s.down && s.inflight.isEmpty && (nextRow s.table).isNone

end Wpull.Crawl
