/-
Model of `wpull/network/pool.py` (`ConnectionPool` + `HostPool`) with the client protocol of
`wpull/protocol/abstract/client.py` (`BaseSession`: every connection taken is released once,
after `abort()` on error / cancellation), as a small-step transition system.

A step = one run of a task from one suspension point to the next, exactly as the asyncio event
loop of Python 3.12 executes it.  The suspension points of the (repaired) code are:
  * task start,
  * `_process_no_wait_releases`: `yield from asyncio.shield(release_task)` on a release task
    that has not run yet                                                 (`PC.drain r`),
  * `HostPool.acquire`: `yield from self._condition.wait()`               (`PC.cwait k`),
  * the client's own use of the connection                               (`PC.holding k n`).
Everything between two of them is atomic: `asyncio.Lock.acquire` on a free lock without waiters
does not suspend (fast path), the host lock and the pools lock are never held across a
suspension (`Condition.wait` releases the lock before it suspends and re-acquires it on the
fast path, also when cancelled), so a lock is free whenever a task starts a step.  The model
therefore has no lock state; the co-simulation checks at every step that the real locks are
unlocked and have no waiters.

Resolved nondeterminism: `set.pop()` of `_release_tasks` and of `HostPool.ready` is arbitrary;
the action carries the logged choices (`pops`, `g`) and `step` returns `none` for an illegal one.
Connections are named `(k, n)`: the `n`-th connection made by the factory of host key `k`.
Core Lean only.
-/
namespace Wpull.Pool

/-- pointwise update -/
def upd {α : Type} (f : Nat → α) (i : Nat) (v : α) : Nat → α := fun x => if x = i then v else f x

@[simp] theorem upd_same {α} (f : Nat → α) (i : Nat) (v : α) : upd f i v i = v := by simp [upd]
@[simp] theorem upd_other {α} (f : Nat → α) (i j : Nat) (v : α) (h : j ≠ i) : upd f i v j = f j := by
  simp [upd, h]

/-- One `HostPool` plus its entry in `_host_pool_waiters`. -/
structure Host where
  ready : List Nat := []
  busy : List Nat := []
  /-- `Condition._waiters`: (task, future already has a result = notified) -/
  cond : List (Nat × Bool) := []
  /-- `ConnectionPool._host_pool_waiters[key]` -/
  waiters : Nat := 0
  /-- number of connections the factory of this key has made so far (naming only) -/
  next : Nat := 0

inductive PC
  | start
  | drain (r : Nat)
  | cwait (k : Nat)
  | holding (k n : Nat)
  | done
  | cancelled
  deriving DecidableEq, Repr, Inhabited

/-- One session of a client: host key, "the connection ends up closed", "`yield from release`". -/
structure Round where
  key : Nat
  close : Bool
  direct : Bool
  deriving DecidableEq, Repr

structure St where
  M : Nat
  maxCount : Nat
  nkeys : Nat
  /-- keys of `_host_pools` in dict order -/
  present : List Nat
  host : Nat → Host
  nclients : Nat
  pc : Nat → PC
  prog : Nat → List Round
  /-- `task.cancel()` was called and not delivered yet -/
  creq : Nat → Bool
  nrels : Nat
  relConn : Nat → Nat × Nat
  relDone : Nat → Bool
  /-- `_release_tasks` -/
  pending : List Nat
  closed : Nat → Nat → Bool
  /-- ghost (never read by a transition): the peer closed connection `(k, n)` after the last
  `ConnectionPool.clean` sweep -/
  dirty : Nat → Nat → Bool
  /-- a `KeyError` the real code would raise (`busy.remove`, `_host_pools[key]`) -/
  err : Bool
  /-- events of the last step (co-simulation only) -/
  evs : List String

inductive Act
  | client (t : Nat) (pops : List Nat) (g : Option Nat)
  | rel (r : Nat)
  | cancel (t : Nat)
  | rclose (k n : Nat)
  deriving Repr

def init (M maxCount nkeys : Nat) (progs : List (List Round)) : St :=
  { M := M, maxCount := maxCount, nkeys := nkeys, present := [], host := fun _ => {},
    nclients := progs.length,
    pc := fun t => if t < progs.length then .start else .done,
    prog := fun t => progs.getD t [],
    creq := fun _ => false, nrels := 0, relConn := fun _ => (0, 0), relDone := fun _ => true,
    pending := [], closed := fun _ _ => true, dirty := fun _ _ => false, err := false, evs := [] }

def setHost (s : St) (k : Nat) (h : Host) : St := { s with host := upd s.host k h }

/-- `Condition.notify()`: the first waiter whose future is not done gets a result.  A future is
done when it was notified before (`b`) or cancelled (`task.cancel()` on a waiter that was not
notified yet cancels its future at once: `creq t ∧ ¬b`). -/
def notify (creq : Nat → Bool) : List (Nat × Bool) → List (Nat × Bool)
  | [] => []
  | (t, b) :: rest => if b || creq t then (t, b) :: notify creq rest else (t, true) :: rest

/-- the waiter's `finally: self._waiters.remove(fut)` -/
def dropTask (t : Nat) : List (Nat × Bool) → List (Nat × Bool)
  | [] => []
  | e :: rest => if e.1 = t then dropTask t rest else e :: dropTask t rest

def ev2 (tag : String) (a k n : Nat) : String := s!"{tag}{a},{k}-{n}"

/-- `connection = self.ready.pop()` (the logged choice `n`), `busy.add`, `waiters -= 1`. -/
def grantReady (s : St) (t k n : Nat) : St :=
  let h := s.host k
  { setHost s k { h with ready := h.ready.erase n, busy := n :: h.busy, waiters := h.waiters - 1 } with
    pc := upd s.pc t (.holding k n), evs := s.evs ++ [ev2 "G" t k n] }

/-- `connection = self._connection_factory()` (a new, unconnected wrapper), `busy.add`, `waiters -= 1`. -/
def grantFresh (s : St) (t k : Nat) : St :=
  let h := s.host k
  { setHost s k { h with busy := h.next :: h.busy, waiters := h.waiters - 1, next := h.next + 1 } with
    pc := upd s.pc t (.holding k h.next), closed := upd s.closed k (upd (s.closed k) h.next true),
    evs := s.evs ++ [ev2 "G" t k h.next] }

/-- `yield from self._condition.wait()`: release the lock, queue a future, suspend. -/
def waitOn (s : St) (t k : Nat) : St :=
  let h := s.host k
  { setHost s k { h with cond := h.cond ++ [(t, false)] } with pc := upd s.pc t (.cwait k) }

/-- The `while True` loop of `HostPool.acquire` (lock held) up to its next suspension, followed —
when a connection was obtained — by the rest of `ConnectionPool.acquire` (`waiters -= 1`). -/
def hostAcquire (s : St) (t k : Nat) (g : Option Nat) : Option St :=
  if (s.host k).ready ≠ [] then
    match g with
    | some n => if n ∈ (s.host k).ready then some (grantReady s t k n) else none
    | none => none
  else if (s.host k).busy.length < s.M then
    if g = some (s.host k).next then some (grantFresh s t k) else none
  else
    match g with
    | none => some (waitOn s t k)
    | some _ => none

/-- `ConnectionPool.acquire` after the drain: look up / create the host pool, count as waiter. -/
def acquire (s : St) (t k : Nat) (g : Option Nat) : Option St :=
  let s1 :=
    if k ∈ s.present then setHost s k { s.host k with waiters := (s.host k).waiters + 1 }
    else { setHost s k { ready := [], busy := [], cond := [], waiters := 1, next := (s.host k).next } with
           present := s.present ++ [k] }
  hostAcquire s1 t k g

/-- `_process_no_wait_releases`: pop release tasks; a finished one is skipped, an unfinished one
is awaited (through `shield`).  Result: the state and the task waited for, if any. -/
def drainGo (s : St) : List Nat → Option (St × Option Nat)
  | [] => if s.pending = [] then some (s, none) else none
  | r :: rest =>
    if r ∈ s.pending then
      let s1 := { s with pending := s.pending.erase r }
      if s.relDone r then drainGo s1 rest
      else if rest = [] then some (s1, some r) else none
    else none

/-- Start (or continue) the current round of client `t`: drain, then acquire. -/
def beginRound (s : St) (t : Nat) (pops : List Nat) (g : Option Nat) : Option St :=
  match s.prog t with
  | [] => if pops = [] ∧ g = none then some { s with pc := upd s.pc t .done } else none
  | rd :: _ =>
    match drainGo s pops with
    | none => none
    | some (s1, some r) => if g = none then some { s1 with pc := upd s1.pc t (.drain r) } else none
    | some (s1, none) => acquire s1 t rd.key g

def count (s : St) : Nat :=
  (s.present.map (fun k => (s.host k).ready.length + (s.host k).busy.length)).sum

def hostEmptyIdle (h : Host) : Bool := h.waiters == 0 && h.ready.isEmpty && h.busy.isEmpty

/-- `ConnectionPool.clean(force)`: per host drop closed (or, forced, all) idle connections, then
drop every host pool without waiter and without connection. -/
def cleanAll (s : St) (force : Bool) : St :=
  let host' : Nat → Host := fun k =>
    { s.host k with ready :=
        if k ∈ s.present then (if force then [] else (s.host k).ready.filter (fun n => !s.closed k n))
        else (s.host k).ready }
  let closed' : Nat → Nat → Bool := fun k n =>
    if force && decide (k ∈ s.present) && decide (n ∈ (s.host k).ready) then true else s.closed k n
  { s with host := host', closed := closed', dirty := fun _ _ => false,
           present := s.present.filter (fun k => !hostEmptyIdle (host' k)) }

/-- `HostPool.release` (busy -> ready, notify). -/
def hostRelease (s : St) (k n : Nat) : St :=
  let h := s.host k
  setHost s k { h with busy := h.busy.erase n,
                       ready := if n ∈ h.ready then h.ready else n :: h.ready,
                       cond := notify s.creq h.cond }

/-- `ConnectionPool.release(connection)`. -/
def releaseOp (s : St) (k n : Nat) : St :=
  let s0 := if k ∈ s.present ∧ n ∈ (s.host k).busy then s else { s with err := true }
  let s1 := hostRelease s0 k n
  cleanAll s1 (decide (count s1 > s1.maxCount))

/-- `no_wait_release(connection)`: a new release task. -/
def spawnRel (s : St) (k n : Nat) : St :=
  { s with nrels := s.nrels + 1, relConn := upd s.relConn s.nrels (k, n),
           relDone := upd s.relDone s.nrels false, pending := s.pending ++ [s.nrels],
           evs := s.evs ++ [ev2 "N" s.nrels k n] }

/-- The client resumes from its use of connection `(k, n)`: reconnect if closed (fails when the
round says so: `NetworkError` -> `abort()`), close if the round says so, give the connection back. -/
def endRound (s : St) (t k n : Nat) (rd : Round) (rest : List Round) : St :=
  let failed := s.closed k n && rd.close
  let s1 := { s with closed := upd s.closed k (upd (s.closed k) n rd.close), prog := upd s.prog t rest,
                     pc := upd s.pc t .start }
  if rd.direct && !failed then releaseOp s1 k n else spawnRel s1 k n

/-- `CancelledError` inside `Condition.wait`: leave the waiter list, (lock re-acquired,) pass the
wake-up on, release the lock; `ConnectionPool.acquire` then undoes the waiter count and drops the
host pool if nothing keeps it. -/
def cancelWait (s : St) (t k : Nat) : St :=
  let h := s.host k
  let h' := { h with cond := notify s.creq (dropTask t h.cond), waiters := h.waiters - 1 }
  let s1 := { setHost s k h' with pc := upd s.pc t .cancelled }
  if hostEmptyIdle h' then { s1 with present := s1.present.filter (fun x => x ≠ k) } else s1

def deliverCancel (s : St) (t : Nat) : St :=
  match s.pc t with
  | .cwait k => cancelWait s t k
  | .holding k n =>
    spawnRel { s with closed := upd s.closed k (upd (s.closed k) n true), pc := upd s.pc t .cancelled } k n
  | _ => { s with pc := upd s.pc t .cancelled }

def clientEnabled (s : St) (t : Nat) : Bool :=
  match s.pc t with
  | .start => true
  | .holding _ _ => true
  | .drain r => s.relDone r || s.creq t
  | .cwait k => (s.host k).cond.contains (t, true) || s.creq t
  | .done => false
  | .cancelled => false

def relEnabled (s : St) (r : Nat) : Bool := decide (r < s.nrels) && !s.relDone r

def stepClient (s : St) (t : Nat) (pops : List Nat) (g : Option Nat) : Option St :=
  if !clientEnabled s t then none
  else if s.creq t then
    if pops = [] ∧ g = none then some (deliverCancel { s with creq := upd s.creq t false } t) else none
  else
    match s.pc t with
    | .start => beginRound s t pops g
    | .drain _ => beginRound { s with pc := upd s.pc t .start } t pops g
    | .cwait k =>
      if pops = [] then
        hostAcquire { setHost s k { s.host k with cond := dropTask t (s.host k).cond } with pc := upd s.pc t .start } t k g
      else none
    | .holding k n =>
      match s.prog t with
      | [] => none
      | rd :: rest => beginRound (endRound s t k n rd rest) t pops g
    | .done => none
    | .cancelled => none

def step (s : St) (a : Act) : Option St :=
  let s := { s with evs := [] }
  match a with
  | .client t pops g => stepClient s t pops g
  | .rel r => if relEnabled s r then some (releaseOp { s with relDone := upd s.relDone r true } (s.relConn r).1 (s.relConn r).2) else none
  | .cancel t =>
    match s.pc t with
    | .done => some s
    | .cancelled => some s
    | _ => some { s with creq := upd s.creq t true }
  | .rclose k n => some { s with closed := upd s.closed k (upd (s.closed k) n true),
                                  dirty := upd s.dirty k (upd (s.dirty k) n true) }

/-- Run a schedule. -/
def run (s : St) : List Act → Option St
  | [] => some s
  | a :: rest => match step s a with
    | some s' => run s' rest
    | none => none

/-- Nothing can run: the event loop has gone dry. -/
def quiescent (s : St) : Prop :=
  (∀ t, clientEnabled s t = false) ∧ (∀ r, relEnabled s r = false)

def clientFinished (s : St) (t : Nat) : Prop := s.pc t = .done ∨ s.pc t = .cancelled

/-- All clients have finished and every deferred release has run. -/
def allDone (s : St) : Prop := (∀ t, clientFinished s t) ∧ (∀ r, s.relDone r = true)

end Wpull.Pool
