/-
Driver for the `Table` engine (property C14).  One request = one whole session:

  table run  <T|F> <op> <op> …      concrete machine `step` (T = on-disk table)
  table srun <T|F> <op> <op> …      reference machine `sstep`

reply: one token `<out>#<state>` per op, separated by spaces; `<state>` is the canonical
`get_all()` after the step, or `=` when it equals the state before the step.

An op is one token, fields separated by `,` (strings as in `Wpull.Proto`: `-` or dotted hex;
an optional value is `N` or `=<value>`; naturals decimal; Status / LinkType by index):
  A[,<entry>;…]      entry = <url>:<props>:<data>:<parse>
                     props = N | P<parent>|<root>|<status>|<try>|<level>|<inline>|<link>|<prio>
                     data  = N | D<optstr>          parse = X | H<optstr>
  O,<status>,<optnat>                     check_out
  I,<url>,<status>,<T|F>,<res>            check_in; res = N | R<optnat>|<optstr>
  U,<url>[,<assign>;…]                    update_one; assign = s=<i> t=<n> l=<n> p=<n> i<optnat>
                                          k<optlink> d<optstr> c<optnat> f<optstr>
  R  release      X[,<url>;…] remove_many      V[,<url>:<id>:<digest>;…] add_visits
  G,<url>,<digest> get_revisit_id     C count    L get_all    1,<url> get_one
  Q,<url> contains      H get_hostnames      Z close + reopen
-/
import Wpull.Table
import Wpull.Proto
namespace Wpull.Table
open Wpull Wpull.Proto

/-! decoding -/

def decOpt? {α : Type} (f : String → Option α) (s : String) : Option (Option α) :=
  if s == "N" then some none
  else if s.startsWith "=" then (f (s.drop 1).toString).map some
  else none

def decNat? (s : String) : Option Nat := s.toNat?

def statusOfIdx? : Nat → Option Status
  | 0 => some .todo | 1 => some .in_progress | 2 => some .done | 3 => some .error
  | 4 => some .skipped | _ => none

def linkOfIdx? : Nat → Option LinkType
  | 0 => some .html | 1 => some .css | 2 => some .javascript | 3 => some .media
  | 4 => some .sitemap | 5 => some .file | 6 => some .directory | _ => none

def decStatus? (s : String) : Option Status := (decNat? s).bind statusOfIdx?
def decLink? (s : String) : Option LinkType := (decNat? s).bind linkOfIdx?

def decProps? (s : String) : Option (Option Props) :=
  if s == "N" then some none
  else if s.startsWith "P" then
    match (s.drop 1).toString.splitOn "|" with
    | [a, b, c, d, e, f, g, h] => do
      let parent ← decOpt? decList? a
      let root ← decOpt? decList? b
      let status ← decOpt? decStatus? c
      let tryCount ← decOpt? decNat? d
      let level ← decOpt? decNat? e
      let inlineLevel ← decOpt? decNat? f
      let linkType ← decOpt? decLink? g
      let priority ← decOpt? decNat? h
      pure (some { parent, root, status, tryCount, level, inlineLevel, linkType, priority })
    | _ => none
  else none

def decEntry? (s : String) : Option Entry :=
  match s.splitOn ":" with
  | [u, p, d, h] => do
    let url ← decList? u
    let props ← decProps? p
    let data ← if d == "N" then some none
      else if d.startsWith "D" then (decOpt? decList? (d.drop 1).toString).map some else none
    let parse ← if h == "X" then some none
      else if h.startsWith "H" then (decOpt? decList? (h.drop 1).toString).map some else none
    pure { url, props, data, parse }
  | _ => none

def decAssign? (s : String) : Option Assign :=
  let v := (s.drop 1).toString
  match s.front with
  | 's' => (decOpt? decStatus? v).bind (·.map .status)
  | 't' => (decOpt? decNat? v).bind (·.map .tryCount)
  | 'l' => (decOpt? decNat? v).bind (·.map .level)
  | 'p' => (decOpt? decNat? v).bind (·.map .priority)
  | 'i' => (decOpt? decNat? v).map .inlineLevel
  | 'k' => (decOpt? decLink? v).map .linkType
  | 'd' => (decOpt? decList? v).map .postData
  | 'c' => (decOpt? decNat? v).map .statusCode
  | 'f' => (decOpt? decList? v).map .filename
  | _ => none

def decVisit? (s : String) : Option Visit :=
  match s.splitOn ":" with
  | [u, i, d] => do
    let url ← decList? u
    let warcId ← decList? i
    let digest ← decList? d
    pure { url, warcId, digest }
  | _ => none

def decMany? {α : Type} (f : String → Option α) (s : String) : Option (List α) :=
  (s.splitOn ";").mapM f

def decOp? (tok : String) : Option Op :=
  match tok.splitOn "," with
  | ["A"] => some (.addMany [])
  | ["A", es] => (decMany? decEntry? es).map .addMany
  | ["O", st, lv] => do
    let st ← decStatus? st
    let lv ← decOpt? decNat? lv
    pure (.checkOut st lv)
  | ["I", u, st, inc, r] => do
    let u ← decList? u
    let st ← decStatus? st
    let r ← if r == "N" then some none
      else if r.startsWith "R" then
        match (r.drop 1).toString.splitOn "|" with
        | [c, f] => do
          let statusCode ← decOpt? decNat? c
          let filename ← decOpt? decList? f
          pure (some { statusCode, filename : Result })
        | _ => none
      else none
    pure (.checkIn u st (inc == "T") r)
  | ["U", u] => (decList? u).map (fun u => .updateOne u [])
  | ["U", u, kw] => do
    let u ← decList? u
    let kw ← decMany? decAssign? kw
    pure (.updateOne u kw)
  | ["R"] => some .release
  | ["X"] => some (.removeMany [])
  | ["X", us] => (decMany? decList? us).map .removeMany
  | ["V"] => some (.addVisits [])
  | ["V", vs] => (decMany? decVisit? vs).map .addVisits
  | ["G", u, d] => do
    let u ← decList? u
    let d ← decList? d
    pure (.getRevisitId u d)
  | ["C"] => some .count
  | ["L"] => some .getAll
  | ["1", u] => (decList? u).map .getOne
  | ["Q", u] => (decList? u).map .contains
  | ["H"] => some .getHostnames
  | ["Z"] => some .reopen
  | _ => none

/-! encoding -/

def encO {α : Type} (f : α → String) : Option α → String
  | none => "N"
  | some a => "=" ++ f a

def Status.idx : Status → Nat
  | .todo => 0 | .in_progress => 1 | .done => 2 | .error => 3 | .skipped => 4

def LinkType.idx : LinkType → Nat
  | .html => 0 | .css => 1 | .javascript => 2 | .media => 3 | .sitemap => 4 | .file => 5
  | .directory => 6

def encRec (r : Rec) : String :=
  "|".intercalate [encList r.url, encO encList r.parent, encO encList r.root,
    toString r.cols.status.idx, toString r.cols.tryCount, toString r.cols.level,
    encO toString r.cols.inlineLevel, encO (fun l => toString l.idx) r.cols.linkType,
    toString r.cols.priority, encO encList r.cols.postData, encO toString r.cols.statusCode,
    encO encList r.cols.filename]

def encRecs (l : List Rec) : String :=
  if l.isEmpty then "~" else ";".intercalate (l.map encRec)

def Exc.name : Exc → String
  | .NotFound => "NotFound" | .UnicodeEncodeError => "UnicodeEncodeError"
  | .OverflowError => "OverflowError" | .StatementError => "StatementError"
  | .ValueError => "ValueError" | .OperationalError => "OperationalError"

def encOut : Out → String
  | .none => "none"
  | .urls l => "urls:" ++ encLists l
  | .record r => "rec:" ++ encRec r
  | .recs l => "recs:" ++ encRecs l
  | .nat n => "n:" ++ toString n
  | .bool b => "b:" ++ encBool b
  | .optStr o => "os:" ++ encO encList o
  | .strs l => "strs:" ++ encLists l
  | .exc e => "exc:" ++ e.name

/-- run a session on a machine given by its step function and its view -/
def session {S : Type} (stp : S → Op → S × Out) (view : S → String) :
    S → String → List Op → List String
  | _, _, [] => []
  | s, prev, op :: ops =>
    let (s', o) := stp s op
    let v := view s'
    (encOut o ++ "#" ++ (if v == prev then "=" else v)) :: session stp view s' v ops

def handle : List String → String
  | mode :: disk :: toks =>
    match toks.mapM decOp? with
    | none => "bad-arg"
    | some ops =>
      let d := disk == "T"
      if mode == "run" then
        " ".intercalate (session (step d) (fun t => encRecs (t.rows.map (res t.strings)))
          Table.empty "~" ops)
      else if mode == "srun" then
        " ".intercalate (session (sstep d) (fun s => encRecs s.rows) Spec.empty "~" ops)
      else "bad-op"
  | _ => "bad-op"

end Wpull.Table
