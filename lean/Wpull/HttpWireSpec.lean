/-
Specification of HTTP/1.1 response delimiting, written over the *flat* byte string the
peer sends for one exchange: no reads, no schedule, no connection object.  The body is
cut out of the stream with `take`/`drop` according to the framing rule
(chunked before Content-Length before read-until-close; none where the protocol
forbids one).  `Proofs/C08.lean` shows that the reader of `Wpull.HttpWire` computes
exactly this for every schedule.
-/
import Wpull.HttpWire
namespace Wpull.HttpWire
open Wpull Wpull.Ftp

/-! ## header block -/

inductive HeadS where
  | ok (block notified rest : Bytes)
  | exc (e : PyExc)
  | stall
  deriving DecidableEq, Repr

def specHead : Nat → Bytes → Bool → List Bytes → Nat → HeadS
  | 0, _, _, _, _ => .exc .RecursionError
  | fuel + 1, r, eof, ls, nread =>
    match readlineFlat r eof with
    | .tooLong => .exc .ProtocolError
    | .stall => .stall
    | .line l r' =>
      if l.getLast? != some 10 then .exc .NetworkError
      else if l == [13, 10] || l == [10] then
        (if ls.isEmpty then .exc .ProtocolError else .ok (flatRev ls) (flatRev (l :: ls)) r')
      else if nread + l.length > 32768 then .exc .ProtocolError
      else specHead fuel r' eof (l :: ls) (nread + l.length)

/-! ## body -/

/-- outcome of delimiting a body: accumulated listener/body state and the unread rest -/
inductive BodyS (D : Type) where
  | ok (a : Acc D) (rest : Bytes)
  | exc (e : PyExc)
  | stall

/-- feed a slice to listeners and decoder, then continue -/
def feedThen {D} (dc : Decoder D) (a : Acc D) (d : Bytes) (k : Acc D → BodyS D) : BodyS D :=
  match a.data dc d with
  | .ok a' => k a'
  | .error e => .exc e

/-- Content-Length framing: exactly `n` bytes; fewer and then EOF is an error -/
def specLength {D} (dc : Decoder D) (n : Nat) (r : Bytes) (eof : Bool) (a : Acc D) : BodyS D :=
  if n ≤ r.length then feedThen dc a (r.take n) (fun a' => .ok a' (r.drop n))
  else feedThen dc a r (fun _ => if eof then .exc .NetworkError else .stall)

/-- read-until-close framing: everything up to EOF -/
def specClose {D} (dc : Decoder D) (r : Bytes) (eof : Bool) (a : Acc D) : BodyS D :=
  feedThen dc a r (fun a' => if eof then .ok a' [] else .stall)

inductive TrailerS where
  | ok (t rest : Bytes)
  | exc (e : PyExc)
  | stall
  deriving DecidableEq, Repr

def specTrailer : Nat → Bytes → Bool → Bytes → TrailerS
  | 0, _, _, _ => .exc .RecursionError
  | fuel + 1, r, eof, acc =>
    match readlineFlat r eof with
    | .tooLong => .exc .ProtocolError
    | .stall => .stall
    | .line l r' =>
      if l.getLast? != some 10 then .exc .NetworkError
      else if (bytesStrip l).isEmpty then .ok (acc ++ l) r'
      else specTrailer fuel r' eof (acc ++ l)

inductive ChunksS (D : Type) where
  | ok (a : Acc D) (trailer rest : Bytes)
  | exc (e : PyExc)
  | stall

/-- chunked framing: size line, that many bytes, line end; last-chunk, trailer section -/
def specChunked {D} (dc : Decoder D) (fuel0 : Nat) : Nat → Bytes → Bool → Acc D → ChunksS D
  | 0, _, _, _ => .exc .RecursionError
  | fuel + 1, r, eof, a =>
    match readlineFlat r eof with
    | .tooLong => .exc .ProtocolError
    | .stall => .stall
    | .line l r1 =>
      if l.getLast? != some 10 then .exc .NetworkError
      else match chunkSize? l with
        | none => .exc .ProtocolError
        | some size =>
          let a1 := a.note l
          if size = 0 then
            match a1.flush dc with
            | .error e => .exc e
            | .ok a2 =>
              match specTrailer fuel0 r1 eof [] with
              | .exc e => .exc e
              | .stall => .stall
              | .ok t r2 => .ok (a2.note t) t r2
          else if size ≤ r1.length then
            match a1.data dc (r1.take size) with
            | .error e => .exc e
            | .ok a2 =>
              match readlineFlat (r1.drop size) eof with
              | .tooLong => .exc .ProtocolError
              | .stall => .stall
              | .line nl r3 =>
                if nl.length > 2 then .exc .ProtocolError
                else specChunked dc fuel0 fuel r3 eof (a2.note nl)
          else
            -- the stream ends inside the chunk data
            match a1.data dc r1 with
            | .error e => .exc e
            | .ok _ => if eof then .exc .NetworkError else .stall

/-! ## one message -/

/-- what the framing rules say about the byte string `w.bytes` -/
structure Spec where
  outcome : Outcome
  /-- length of the message (head + framed body) when the outcome is `ok` -/
  length : Nat
  /-- the bytes of the message, as listeners must see them, when the outcome is `ok` -/
  notified : Bytes
  /-- what follows the message in `w.bytes` (surplus), when the outcome is `ok` -/
  rest : Bytes
  /-- the connection is not to be reused (`Connection: close`, HTTP/1.0, no keep-alive) -/
  close : Bool
  deriving DecidableEq, Repr

def specOf (w : Wire) (o : Outcome) (nt rest : Bytes) (close : Bool) : Spec :=
  { outcome := o, length := w.bytes.length - rest.length, notified := nt, rest := rest, close := close }

def finishSpec {D} (dc : Decoder D) (w : Wire) (st : Status) (f : Fields) (sc : Bool) (b : BodyS D) : Spec :=
  match b with
  | .exc e => specOf w (.exc e) [] [] true
  | .stall => specOf w .stalled [] [] false
  | .ok a r' =>
    match a.flush dc with
    | .error e => specOf w (.exc e) [] [] true
    | .ok a' => specOf w (.ok st f a'.body) a'.notified r' sc

def finishChunkedSpec {D} (w : Wire) (st : Status) (f : Fields) (sc : Bool) (b : ChunksS D) : Spec :=
  match b with
  | .exc e => specOf w (.exc e) [] [] true
  | .stall => specOf w .stalled [] [] false
  | .ok a t r' =>
    match parseFields false f t with
    | none => specOf w (.exc .ValueError) [] [] true
    | some f' => specOf w (.ok st f' a.body) a.notified r' sc

def specBody {D} (dc : Decoder D) (cfg : StreamCfg) (req : ReqInfo) (fuel : Nat)
    (st : Status) (f : Fields) (r : Bytes) (nt : Bytes) (w : Wire) : Spec :=
  let a0 : Acc D := { notified := nt, body := [], dec := (decKind f).map dc.init }
  let sc := !cfg.keepAlive || shouldClose req.version (f.get? sConnection)
  match bodyStrategy cfg f with
  | .chunked => finishChunkedSpec w st f sc (specChunked dc fuel fuel r w.eof a0)
  | .length =>
    match contentLength? ((f.get? sContentLength).getD []) with
    | none => finishSpec dc w st f sc (specClose dc r w.eof a0)
    | some n => finishSpec dc w st f sc (specLength dc n r w.eof a0)
  | .close => finishSpec dc w st f sc (specClose dc r w.eof a0)

/-- The specification: outcome, message length, message bytes — no notion of reads. -/
def rfc {D} (dc : Decoder D) (cfg : StreamCfg) (req : ReqInfo) (w : Wire) : Spec :=
  let fuel := w.bytes.length + 2
  match specHead fuel w.bytes w.eof [] 0 with
  | .exc e => specOf w (.exc e) [] [] true
  | .stall => specOf w .stalled [] [] false
  | .ok block nt r =>
    match parseResponse block with
    | .error e => specOf w (.exc e) [] [] true
    | .ok (st, f) =>
      if isNoBody req st then specOf w (.ok st f []) nt r false
      else specBody dc cfg req fuel st f r nt w

end Wpull.HttpWire
