/-
Line protocol of the model driver.  One request per line:
  `<engine> <op> <arg>*`     arguments separated by single spaces.
A list-of-naturals argument (str / bytes) is `-` when empty, otherwise
dot-separated lower-case hex numbers (`68.74.74.70`).
-/
import Wpull.Py.Basic
namespace Wpull.Proto

def hexDigitVal? (c : Char) : Option Nat :=
  if '0' ≤ c ∧ c ≤ '9' then some (c.toNat - 48)
  else if 'a' ≤ c ∧ c ≤ 'f' then some (c.toNat - 87)
  else if 'A' ≤ c ∧ c ≤ 'F' then some (c.toNat - 55)
  else none

def parseHex? (s : String) : Option Nat :=
  if s.isEmpty then none
  else s.toList.foldl (fun acc c => do
    let a ← acc
    let d ← hexDigitVal? c
    pure (a * 16 + d)) (some 0)

def decList? (s : String) : Option (List Nat) :=
  if s == "-" then some []
  else (s.splitOn ".").mapM parseHex?

def hexDigits : Array Char := #['0','1','2','3','4','5','6','7','8','9','a','b','c','d','e','f']

def toHex (n : Nat) : String :=
  if n == 0 then "0" else String.ofList (go n [] (n + 1))
where
  go (n : Nat) (acc : List Char) : Nat → List Char
    | 0 => acc
    | fuel + 1 => if n == 0 then acc else go (n / 16) (hexDigits[n % 16]! :: acc) fuel

def encList (l : List Nat) : String :=
  if l.isEmpty then "-" else ".".intercalate (l.map toHex)

def encOpt (o : Option (List Nat)) : String :=
  match o with
  | none => "None"
  | some l => "=" ++ encList l

def encBool (b : Bool) : String := if b then "T" else "F"

def encExcept (r : Except PyExc String) : String :=
  match r with
  | .ok s => "ok " ++ s
  | .error e => "exc " ++ e.name

end Wpull.Proto

namespace Wpull.Proto

/-- list of lists: `~` when empty, otherwise `/`-separated `encList` tokens -/
def decLists? (s : String) : Option (List (List Nat)) :=
  if s == "~" then some [] else (s.splitOn "/").mapM decList?

def encLists (l : List (List Nat)) : String :=
  if l.isEmpty then "~" else "/".intercalate (l.map encList)

def encOptNat (o : Option Nat) : String :=
  match o with
  | none => "None"
  | some n => toString n

end Wpull.Proto
