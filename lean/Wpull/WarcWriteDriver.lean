import Wpull.WarcWrite
import Wpull.Proto
namespace Wpull.WarcWrite
open Wpull Wpull.Proto

def decOut? (s : String) : Option Out :=
  match s.toList with
  | ['o', 'k'] => some .ok
  | 'f' :: r => (String.ofList r).toNat?.map .fail
  | 'd' :: r => (String.ofList r).toNat?.map .die
  | _ => none

def decOuts? (s : String) : Option (List Out) :=
  if s == "~" then some [] else (s.splitOn ",").mapM decOut?

def decOptBytes? (s : String) : Option (Option Bytes) :=
  match s.toList with
  | ['N', 'o', 'n', 'e'] => some none
  | '=' :: r => (decList? (String.ofList r)).map some
  | _ => none

def encTag : Tag → String
  | .ok => "ok" | .fail k => "f" ++ toString k | .die k => "d" ++ toString k | .enoent => "enoent"

def encPrim : Prim → String
  | .getsize => "getsize" | .jopen => "jopen" | .jwrite d => "jwrite=" ++ encList d
  | .jclose => "jclose" | .junlink => "junlink" | .aopen => "aopen"
  | .awrite d => "awrite#" ++ toString d.length | .aclose => "aclose"
  | .ropen => "ropen" | .rtrunc n => "rtrunc=" ++ toString n | .rclose => "rclose"
  | .unlink => "unlink" | .topen => "topen" | .tclose => "tclose"

def encTrace (t : Trace) : String :=
  if t.isEmpty then "~" else ",".intercalate (t.map fun (p, g) => encPrim p ++ ":" ++ encTag g)

def encStatus : Status → String
  | .done => "done" | .raised => "raised" | .died => "died"

def zipOuts : List Bytes → List Out → Option (List (Bytes × Out))
  | [], [] => some []
  | d :: ds, o :: os => (zipOuts ds os).map ((d, o) :: ·)
  | _, _ => none

def decSched? : List String → Option Sched
  | [getsize, jopen, jwrite, jretry, jclose, junlink, aopen, adata, aouts, srcFail, aclose, ropen, rtrunc,
      rclose, unlink] => do
    let getsize ← decOut? getsize
    let jopen ← decOut? jopen
    let jwrite ← decOut? jwrite
    let jretry ← decOut? jretry
    let jclose ← decOut? jclose
    let junlink ← decOut? junlink
    let aopen ← decOut? aopen
    let adata ← decLists? adata
    let aouts ← decOuts? aouts
    let aclose ← decOut? aclose
    let ropen ← decOut? ropen
    let rtrunc ← decOut? rtrunc
    let rclose ← decOut? rclose
    let unlink ← decOut? unlink
    let aw ← zipOuts adata aouts
    pure { getsize, jopen, jwrite, jretry, jclose, junlink, aopen, awrites := aw,
           srcFail := srcFail == "T", aclose, ropen, rtrunc, rclose, unlink }
  | _ => none

def decErr? : String → Option IOErr
  | "enospc" => some .enospc | "eio" => some .eio | "eacces" => some .eacces | "eperm" => some .eperm
  | "enoent" => some .enoent | "eintr" => some .eintr | "eagain" => some .eagain
  | "etimedout" => some .etimedout | "ioerror" => some .ioerror
  | "enametoolong" => some .enametoolong | "enotdir" => some .enotdir | "erofs" => some .erofs
  | "eloop" => some .eloop
  | "kbint" => some .keyboardInterrupt | "cancelled" => some .cancelled | "sysexit" => some .systemExit
  | "memory" => some .memoryError | "exception" => some .exception
  | _ => none

def decKind? : String → Option StepKind
  | "startTrunc" => some .startTrunc
  | "startKeep" => some .startKeep
  | "append" => some .append
  | _ => none

/-- `<kind> <target> <error class> <topen> <tclose> <15 schedule tokens>` per step -/
def decSteps? : Nat → List String → Option (List Step)
  | 0, [] => some []
  | 0, _ => none
  | n + 1, kind :: target :: err :: topen :: tclose :: rest => do
    let kind ← decKind? kind
    let target ← decList? target
    let err ← decErr? err
    let topen ← decOut? topen
    let tclose ← decOut? tclose
    let sched ← decSched? (rest.take 15)
    let more ← decSteps? n (rest.drop 15)
    pure ({ kind, target, topen, tclose, sched, err } :: more)
  | _, _ => none

/-- `<name> <content>` pairs -/
def decFiles? : Nat → List String → Option (List (Str × Option Bytes) × List String)
  | 0, rest => some ([], rest)
  | n + 1, name :: content :: rest => do
    let name ← decList? name
    let content ← decOptBytes? content
    let (more, rest') ← decFiles? n rest
    pure ((name, content) :: more, rest')
  | _, _ => none

def encNTrace (t : NTrace) : String :=
  if t.isEmpty then "~" else
    ",".intercalate (t.map fun (f, p, g) => encList f ++ "|" ++ encPrim p ++ ":" ++ encTag g)

def handleLife (toks : List String) : String :=
  match toks with
  | pre :: nf :: rest =>
    match decList? pre, nf.toNat? with
    | some pre, some nf =>
      match decFiles? nf rest with
      | some (files, ns :: rest') =>
        match ns.toNat? with
        | some ns =>
          match decSteps? ns rest' with
          | some steps =>
            let r := startLife pre (files.map Prod.fst) (Dir.ofList files) steps
            encStatus r.st ++ " " ++ encNTrace r.tr ++ " " ++
              ";".intercalate (files.map fun (n, _) => encList n ++ "=" ++ encOpt (r.dir n))
          | none => "bad-steps"
        | none => "bad-arg"
      | _ => "bad-files"
    | _, _ => "bad-arg"
  | _ => "bad-arg"

def handle : List String → String
  | "life" :: toks => handleLife toks
  | "runE" :: cls :: toks =>
    match decErr? cls, toks with
    | some e, arch :: jour :: rest =>
      match decOptBytes? arch, decOptBytes? jour, decSched? rest with
      | some arch, some jour, some s =>
        let r := writeRecordE e ⟨arch, jour⟩ s
        encStatus r.status ++ " " ++ encTrace r.tr ++ " " ++ encOpt r.fs.archive ++ " " ++ encOpt r.fs.journal
      | _, _, _ => "bad-arg"
    | _, _ => "bad-arg"
  | ["run", arch, jour, getsize, jopen, jwrite, jretry, jclose, junlink, aopen, adata, aouts, srcFail,
      aclose, ropen, rtrunc, rclose, unlink] =>
    match decOptBytes? arch, decOptBytes? jour, decOut? getsize, decOut? jopen, decOut? jwrite,
          decOut? jretry, decOut? jclose, decOut? junlink, decOut? aopen with
    | some arch, some jour, some getsize, some jopen, some jwrite, some jretry, some jclose, some junlink, some aopen =>
      match decLists? adata, decOuts? aouts, decOut? aclose, decOut? ropen, decOut? rtrunc,
            decOut? rclose, decOut? unlink with
      | some adata, some aouts, some aclose, some ropen, some rtrunc, some rclose, some unlink =>
        match zipOuts adata aouts with
        | some aw =>
          let s : Sched := { getsize, jopen, jwrite, jretry, jclose, junlink, aopen, awrites := aw,
                             srcFail := srcFail == "T", aclose, ropen, rtrunc, rclose, unlink }
          let r := writeRecord ⟨arch, jour⟩ s
          encStatus r.status ++ " " ++ encTrace r.tr ++ " " ++ encOpt r.fs.archive ++ " " ++ encOpt r.fs.journal
        | none => "bad-arg"
      | _, _, _, _, _, _, _ => "bad-arg"
    | _, _, _, _, _, _, _, _, _ => "bad-arg"
  | ["startup", pre, listing] =>
    match decList? pre, decLists? listing with
    | some pre, some listing => encBool (startupRefuses pre listing)
    | _, _ => "bad-arg"
  | ["journal", n] =>
    match n.toNat? with
    | some n => encList (journalText n) ++ " " ++ encOptNat (journalOffset? (journalText n))
    | none => "bad-arg"
  | ["offset", j] =>
    match decList? j with
    | some j => encOptNat (journalOffset? j)
    | none => "bad-arg"
  | _ => "bad-op"

end Wpull.WarcWrite
