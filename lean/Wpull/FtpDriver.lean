import Wpull.Ftp
import Wpull.Proto
namespace Wpull.Ftp
open Wpull Wpull.Proto

def encReply (r : Reply) : String :=
  encOptNat r.code ++ " " ++ encOpt r.text

def handle : List String → String
  | ["cmd", n, a] =>
    match decList? n, decList? a with
    | some n, some a =>
      match commandToBytes n a with
      | .ok b => "ok " ++ encList b
      | .error e => "exc " ++ e.name
    | _, _ => "bad-arg"
  | ["readline", segs] =>
    match decLists? segs with
    | some segs =>
      let (line, rest) := readlineSegs [] segs
      if lineTooLong line then "exc ValueError" else encList line ++ " " ++ encList rest.flatten
    | none => "bad-arg"
  | ["reply", segs] =>
    match decLists? segs with
    | some segs =>
      match readReplySegs (segs.flatten.length + 1) segs with
      | .ok r rest seen => "ok " ++ encReply r ++ " " ++ encList rest.flatten ++ " " ++ encLists seen
      | .err e => "exc " ++ e.name
      | .fuel => "fuel"
    | none => "bad-arg"
  | ["transfer", dsegs, eof, csegs] =>
    match decLists? dsegs, decLists? csegs with
    | some d, some c =>
      match readStream d (if eof == "T" then .closed else if eof == "R" then .reset else .stillOpen) (c.flatten.length + 1) c with
      | .complete body r => "complete " ++ encList body ++ " " ++ encReply r
      | .stalled => "stalled"
      | .err e => "exc " ++ e.name
    | _, _ => "bad-arg"
  | ["pasv", nums] =>
    match (nums.splitOn ",").mapM String.toNat? with
    | some ns =>
      match parseAddress ns with
      | .ok (host, port) => "ok " ++ ".".intercalate (host.map toString) ++ " " ++ toString port
      | .error e => "exc " ++ e.name
    | none => "bad-arg"
  | ["fetches", exits] =>
    -- exits: one letter per fetch, N = left normally (all replies read), R = left by an exception;
    -- answer: one letter per fetch, T = opens a fresh control connection, F = reuses the pooled one
    let fs : List Fetch := exits.toList.map fun c =>
      if c == 'N' then ⟨[150, 226], 2, .normal⟩ else ⟨[150, 226], 1, .raised⟩
    String.ofList ((runFetches none fs).map fun p => if p.1 then 'T' else 'F')
  | _ => "bad-op"

end Wpull.Ftp
