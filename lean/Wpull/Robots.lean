/-
Model of the robots.txt gate that property C20 is anchored in:

* `wpull/robotstxt.py`               RobotsTxtPool (parsers keyed by scheme, host, port)
* `wpull/protocol/http/robots.py`    RobotsTxtChecker.can_fetch / fetch_robots_txt (fetch on miss,
                                     status handling: 5xx -> ServerError, other non-200 -> blank, 200 -> parse)
* `wpull/processor/rule.py`          check_initial_web_request: a negative robots verdict overrides the filters
* `wpull/thirdparty/robotexclusionrulesparser.py`  the matcher: first rule set whose agent matches
                                     (non-default sets first), first matching rule wins, GYM2008 `*` / `$`

Tokenising a robots.txt file into rule sets is modelled separately in
`Wpull/RobotsParse.lean` (theorems in `Proofs/C20Parse.lean`); for the matcher the
harness passes the parsed rule sets (names lower-cased, paths already percent-decoded
as the parser stores them) and the decoded target string.
-/
import Wpull.Py.Basic
namespace Wpull.Robots
open Wpull

/-! ### the matcher -/

structure Rule where
  allow : Bool
  path : Str
  deriving DecidableEq, Repr

structure RuleSet where
  /-- robot names, lower-cased; `[42]` is `*` -/
  names : List Str
  rules : List Rule
  deriving DecidableEq, Repr

/-- `needle in hay` -/
def isInfix (needle hay : Str) : Bool := (findSub hay needle).isSome

/-- `_Ruleset.does_user_agent_match` (arguments already lower-cased) -/
def uaMatch (rs : RuleSet) (ua : Str) : Bool :=
  rs.names.any fun n => n == [42] || isInfix n ua

/-- Does `s` contain `part` somewhere, and what is left after its first occurrence?
(leftmost occurrence: complete for `.*`-joined literals) -/
def afterFirst (part s : Str) : Option Str :=
  match findSub s part with
  | none => none
  | some i => some (s.drop (i + part.length))

/-- `re.match('.*'.join(escape(p) for p in parts) + ('$' if anchored else ''), s)` for the
parts after the first one: each must occur, in order; when anchored the last must end the string. -/
def restMatch (anchored : Bool) : List Str → Str → Bool
  | [], s => !anchored || s.isEmpty
  | [p], s =>
    if anchored then
      -- the last literal must be a suffix of what is left (`.*` absorbs the gap)
      p.length ≤ s.length && s.drop (s.length - p.length) == p
    else (afterFirst p s).isSome
  | p :: q :: ps, s =>
    match afterFirst p s with
    | none => false
    | some s' => restMatch anchored (q :: ps) s'

/-- GYM2008 pattern match: `parts` = the rule path split at `*` -/
def globMatch (anchored : Bool) (parts : List Str) (s : Str) : Bool :=
  match parts with
  | [] => !anchored || s.isEmpty
  | p :: ps =>
    if startsWith s p then
      match ps with
      | [] => !anchored || s.length == p.length
      | _ => restMatch anchored ps (s.drop p.length)
    else false

/-- does one rule apply to the (decoded) target, and with which verdict -/
def ruleVerdict (r : Rule) (target : Str) : Option Bool :=
  let hasStar := r.path.contains 42
  let endsDollar := r.path.getLast? == some 36
  if hasStar || endsDollar then
    let p := if endsDollar then r.path.dropLast else r.path
    if globMatch endsDollar (splitOn1 p 42) target then some r.allow else none
  else if startsWith target r.path then
    -- a blank path means "nothing": it negates the verdict
    some (if r.path.isEmpty then !r.allow else r.allow)
  else none

/-- `_Ruleset.is_url_allowed`: first applicable rule wins; none applicable = allowed -/
def rulesAllow : List Rule → Str → Bool
  | [], _ => true
  | r :: rest, t =>
    match ruleVerdict r t with
    | some v => v
    | none => rulesAllow rest t

/-- `RobotExclusionRulesParser.is_allowed`: first rule set whose agent matches decides -/
def isAllowed : List RuleSet → Str → Str → Bool
  | [], _, _ => true
  | rs :: rest, ua, t => if uaMatch rs ua then rulesAllow rs.rules t else isAllowed rest ua t

/-! ### the gate -/

abbrev Origin := Nat
abbrev ItemId := Nat

/-- what the server answers for /robots.txt (after following its redirects) -/
inductive RobotsAnswer
  | rules (rs : List RuleSet)   -- 200: parsed
  | blank                       -- other non-5xx status, or a protocol error: allow everything
  | serverError                 -- 5xx: the URL is postponed
  | netError                    -- connection failure: the URL is postponed
  deriving Repr

inductive PC
  | idle            -- item handed to the processor, nothing done yet
  | waiting         -- robots.txt of its origin requested by this item, answer outstanding
  | allowed         -- gate passed
  | denied          -- robots verdict negative: item skipped, never requested
  | postponed       -- robots.txt fetch failed: item marked error, never requested in this visit
  | requested       -- page request sent
  deriving DecidableEq, Repr

structure Item where
  id : ItemId
  origin : Origin
  /-- decoded target string the matcher sees -/
  target : Str
  pc : PC
  /-- ghost: the rule sets the gate verdict of this item was computed from -/
  decided : Option (List RuleSet) := none
  deriving Repr

inductive Req
  | robots (o : Origin) (by_ : ItemId)
  | page (i : ItemId) (o : Origin)
  /-- ghost: the pool obtained (loaded) the robots.txt of `o` -/
  | loaded (o : Origin)
  deriving DecidableEq, Repr

structure St where
  /-- origin ↦ rule sets of the robots.txt obtained last -/
  pool : List (Origin × List RuleSet)
  items : List Item
  log : List Req
  deriving Repr

def poolGet (p : List (Origin × List RuleSet)) (o : Origin) : Option (List RuleSet) :=
  (p.find? (·.1 == o)).map (·.2)

def poolPut (p : List (Origin × List RuleSet)) (o : Origin) (rs : List RuleSet) : List (Origin × List RuleSet) :=
  (o, rs) :: p.filter (·.1 != o)

inductive Ev
  /-- the processor starts on item `i`: `can_fetch` consults the pool, fetches on a miss -/
  | begin (i : ItemId)
  /-- the robots.txt fetch issued by item `i` completes -/
  | answer (i : ItemId) (a : RobotsAnswer)
  /-- item `i` sends its page request -/
  | request (i : ItemId)
  deriving Repr

def getItem (l : List Item) (i : ItemId) : Option Item := l.find? (·.id == i)
def setPC (l : List Item) (i : ItemId) (pc : PC) (d : Option (List RuleSet) := none) : List Item :=
  l.map fun it => if it.id == i then { it with pc := pc, decided := if d.isSome then d else it.decided } else it

def verdictPC (rs : List RuleSet) (ua target : Str) : PC := if isAllowed rs ua target then .allowed else .denied

/-- one step of the gate for user agent `ua`; `none` = not enabled -/
def step (ua : Str) (s : St) : Ev → Option St
  | .begin i =>
    match getItem s.items i with
    | some it =>
      if it.pc != .idle then none else
      match poolGet s.pool it.origin with
      | some rs => some { s with items := setPC s.items i (verdictPC rs ua it.target) (some rs) }
      | none => some { s with items := setPC s.items i .waiting, log := s.log ++ [.robots it.origin i] }
    | none => none
  | .answer i a =>
    match getItem s.items i with
    | some it =>
      if it.pc != .waiting then none else
      match a with
      | .rules rs =>
        some { s with pool := poolPut s.pool it.origin rs,
                      items := setPC s.items i (verdictPC rs ua it.target) (some rs),
                      log := s.log ++ [.loaded it.origin] }
      | .blank => some { s with pool := poolPut s.pool it.origin [], items := setPC s.items i .allowed (some []),
                                log := s.log ++ [.loaded it.origin] }
      | .serverError => some { s with items := setPC s.items i .postponed }
      | .netError => some { s with items := setPC s.items i .postponed }
    | none => none
  | .request i =>
    match getItem s.items i with
    | some it =>
      if it.pc != .allowed then none else
      some { s with items := setPC s.items i .requested, log := s.log ++ [.page i it.origin] }
    | none => none

def run (ua : Str) : St → List Ev → Option St
  | s, [] => some s
  | s, e :: es =>
    match step ua s e with
    | none => none
    | some s' => run ua s' es

/-! ### `<meta name="robots" content="nofollow">` in the HTML scraper
(`wpull/scraper/html.py`: `HTMLScraper.scrape`, `_process_elements`, `ElementWalker.robots_cannot_follow`)

The HTML parser and the element walker (which attributes of which tags are links, and whether a link is
`inline` / `linked`) are not modelled: an element is what they report for it. -/

structure LinkCtx where
  url : Nat
  inline : Bool
  linked : Bool
  deriving DecidableEq, Repr

structure Elem where
  /-- `robots_cannot_follow(element)`: a `meta name=robots` whose content holds `nofollow` -/
  nofollow : Bool
  /-- link contexts the walker yields for the element (already joined, cleaned and accepted) -/
  links : List LinkCtx
  deriving Repr

/-- `_process_elements`: one pass; the directive is remembered wherever it occurs -/
def processElements (robots : Bool) : List Elem → List LinkCtx × Bool
  | [] => ([], false)
  | e :: es =>
    let (cs, nf) := processElements robots es
    (e.links ++ cs, (robots && e.nofollow) || nf)

/-- `HTMLScraper.scrape`: with the directive seen, every context with `linked` set is dropped
(`link_contexts.difference_update(...)`), page requisites stay -/
def scrapeLinks (robots : Bool) (es : List Elem) : List LinkCtx :=
  let (cs, nf) := processElements robots es
  if nf then cs.filter (fun c => !c.linked) else cs

def allLinks (es : List Elem) : List LinkCtx := es.flatMap (·.links)

end Wpull.Robots
