/-
Model of wpull's streaming content decoding (property C19):
  wpull/decompression.py        SimpleGzipDecompressor, GzipDecompressor,
                                DeflateDecompressor, is_zlib_header
  wpull/protocol/http/stream.py _setup_decompressor, _decompress_data,
                                _flush_decompressor and the per-read loop of the
                                three body readers
zlib itself is NOT modelled: it is the abstract streaming `Inflater` below.
The wrappers around it (gzip magic sniffing on the first piece, the 2-byte zlib
header test with buffering, raw-deflate fallback, the eof test at flush, the
conversion of zlib.error to ProtocolError, identity passthrough) are concrete.
The model mirrors the code after the two `fix:` commits of C19 (63916c2, d1ba173).
Core Lean only.
-/
import Wpull.Py.Basic
namespace Wpull.Decomp
open Wpull

/-- The `wbits` a `zlib.decompressobj` is created with:
`16 + MAX_WBITS` (gzip), default (zlib wrapper), `-MAX_WBITS` (raw deflate). -/
inductive Mode
  | gzip | zlib | raw
  deriving DecidableEq, Repr, Inhabited

/-- An abstract streaming inflater = what a `zlib.decompressobj` is to the
wrappers.  Python objects are mutated even when a call raises, so every call
returns the new state together with the result or the exception. -/
structure Inflater where
  σ : Type
  /-- `zlib.decompressobj(wbits)` -/
  init : Mode → σ
  /-- `obj.decompress(value)` -/
  feed : σ → Bytes → σ × Except PyExc Bytes
  /-- `obj.flush()` -/
  flush : σ → σ × Except PyExc Bytes
  /-- `obj.eof` -/
  eof : σ → Bool

variable (I : Inflater)

/-! ### wpull/decompression.py -/

/-- `SimpleGzipDecompressor.flush` (after fix d1ba173): flush the object, then
raise `zlib.error` unless the end of the compressed stream was reached. -/
def simpleFlush (s : I.σ) : I.σ × Except PyExc Bytes :=
  match I.flush s with
  | (s', .error e) => (s', .error e)
  | (s', .ok out) => if I.eof s' then (s', .ok out) else (s', .error .ZlibError)

/-- State of a `GzipDecompressor`.  `isOk` is the truthiness of `self.is_ok`
(`None` and `False` are not distinguished by the code). -/
structure GzipSt where
  obj : I.σ
  checked : Bool
  isOk : Bool

def GzipSt.new : GzipSt I := ⟨I.init .gzip, false, false⟩

/-- `GzipDecompressor.decompress`: the first call looks at `value[:1]`. -/
def gzipDecompress (g : GzipSt I) (value : Bytes) : GzipSt I × Except PyExc Bytes :=
  if g.checked then
    if g.isOk then
      let r := I.feed g.obj value
      ({ g with obj := r.1 }, r.2)
    else (g, .ok value)
  else if value.take 1 == [0x1f] then
    let r := I.feed g.obj value
    (⟨r.1, true, true⟩, r.2)
  else
    (⟨g.obj, true, false⟩, .ok value)

/-- `GzipDecompressor.flush` -/
def gzipFlush (g : GzipSt I) : GzipSt I × Except PyExc Bytes :=
  if g.isOk then
    let r := simpleFlush I g.obj
    ({ g with obj := r.1 }, r.2)
  else (g, .ok [])

/-- `is_zlib_header(data)` (RFC 1950): CM = 8, CINFO ≤ 7, FCHECK makes the
16-bit value a multiple of 31, FDICT clear.  `false` on fewer than 2 bytes. -/
def isZlibHeader : Bytes → Bool
  | cmf :: flg :: _ =>
    cmf % 16 == 8 && decide (cmf / 16 ≤ 7) && (cmf * 256 + flg) % 31 == 0 && (flg / 32) % 2 == 0
  | _ => false

/-- State of a `DeflateDecompressor`: `self.decompressobj` (None until the
format is decided) and `self.pending`. -/
structure DeflSt where
  obj : Option I.σ
  pending : Bytes

def DeflSt.new : DeflSt I := ⟨none, []⟩

/-- the `wbits` chosen from the first two bytes -/
def sniffMode (v : Bytes) : Mode := if isZlibHeader v then .zlib else .raw

/-- `DeflateDecompressor.decompress` (after fix 63916c2): buffer until two
bytes are there, then choose zlib or raw deflate from the header. -/
def deflDecompress (d : DeflSt I) (value : Bytes) : DeflSt I × Except PyExc Bytes :=
  match d.obj with
  | some s =>
    let r := I.feed s value
    (⟨some r.1, d.pending⟩, r.2)
  | none =>
    let v := d.pending ++ value
    if v.length < 2 then (⟨none, v⟩, .ok [])
    else
      let r := I.feed (I.init (sniffMode v)) v
      (⟨some r.1, []⟩, r.2)

/-- `DeflateDecompressor.flush`: a body of one byte is decoded as raw deflate. -/
def deflFlush (d : DeflSt I) : DeflSt I × Except PyExc Bytes :=
  match d.obj with
  | some s =>
    let r := simpleFlush I s
    (⟨some r.1, d.pending⟩, r.2)
  | none =>
    if d.pending.isEmpty then (d, .ok [])
    else
      match I.feed (I.init .raw) d.pending with
      | (s, .error e) => (⟨some s, []⟩, .error e)
      | (s, .ok o1) =>
        match simpleFlush I s with
        | (s', .error e) => (⟨some s', []⟩, .error e)
        | (s', .ok o2) => (⟨some s', []⟩, .ok (o1 ++ o2))

/-! ### wpull/protocol/http/stream.py -/

/-- what `_setup_decompressor` selects -/
inductive Coding
  | gzip | deflate | identity
  deriving DecidableEq, Repr, Inhabited

/-- `response.fields.get('Content-Encoding', '').lower()` compared with
`'gzip'` / `'deflate'`.  No non-ASCII character lower-cases to one of the ASCII
letters involved, so ASCII lower-casing decides the comparison exactly. -/
def codingOf (enc : Str) : Coding :=
  let l := enc.map asciiLower
  if l == lit "gzip" then .gzip else if l == lit "deflate" then .deflate else .identity

/-- `Stream._decompressor` -/
inductive Dec
  | none
  | gzip (g : GzipSt I)
  | deflate (d : DeflSt I)

/-- `_setup_decompressor` -/
def setup : Coding → Dec I
  | .gzip => .gzip (GzipSt.new I)
  | .deflate => .deflate (DeflSt.new I)
  | .identity => .none

/-- `except zlib.error as error: raise ProtocolError(...)`; nothing else is caught. -/
def excToProtocol (e : PyExc) : PyExc := if e = .ZlibError then .ProtocolError else e

def toProtocol : Except PyExc Bytes → Except PyExc Bytes
  | .error e => .error (excToProtocol e)
  | .ok b => .ok b

/-- `Stream._decompress_data` -/
def decompressData (d : Dec I) (data : Bytes) : Dec I × Except PyExc Bytes :=
  match d with
  | .none => (.none, .ok data)
  | .gzip g => let r := gzipDecompress I g data; (.gzip r.1, toProtocol r.2)
  | .deflate s => let r := deflDecompress I s data; (.deflate r.1, toProtocol r.2)

/-- `Stream._flush_decompressor` -/
def flushDecompressor (d : Dec I) : Dec I × Except PyExc Bytes :=
  match d with
  | .none => (.none, .ok [])
  | .gzip g => let r := gzipFlush I g; (.gzip r.1, toProtocol r.2)
  | .deflate s => let r := deflFlush I s; (.deflate r.1, toProtocol r.2)

/-- What a body reader leaves behind: the `content_data` written to the file
per call (one entry per piece, then one for the final flush) up to the first
exception, the exception, and the decoder state. -/
structure Outcome where
  outs : List Bytes
  err : Option PyExc
  final : Dec I

/-- The decode loop common to `_read_body_until_close`, `_read_body_by_length`
and `_read_body_by_chunk`: every piece read goes through `_decompress_data`
and is written; at the end of the body `_flush_decompressor` is written.  An
exception ends the loop (and the download). -/
def readBodyFrom (d : Dec I) : List Bytes → Outcome I
  | [] =>
    match flushDecompressor I d with
    | (d', .ok out) => ⟨[out], none, d'⟩
    | (d', .error e) => ⟨[], some e, d'⟩
  | p :: ps =>
    match decompressData I d p with
    | (d', .error e) => ⟨[], some e, d'⟩
    | (d', .ok out) =>
      let o := readBodyFrom d' ps
      { o with outs := out :: o.outs }

/-- the observable result: the file content, or the exception -/
def Outcome.result (o : Outcome I) : Except PyExc Bytes :=
  match o.err with
  | none => .ok o.outs.flatten
  | some e => .error e

/-- What the caller of `read_body(..., file=…)` observes.  Every body reader
computes `_decompress_data` / `_flush_decompressor` unconditionally and only
guards the *write* with `if file:`; with `file=None` (`keep = false`) the
content is discarded but the exception is not. -/
def Outcome.observed (o : Outcome I) (keep : Bool) : Except PyExc Bytes :=
  if keep then o.result else o.result.map (fun _ => [])

/-- Decode a body that arrives in `pieces` under content coding `c`. -/
def readBody (c : Coding) (pieces : List Bytes) : Except PyExc Bytes :=
  (readBodyFrom I (setup I c) pieces).result

/-- `_setup_decompressor(response)` seen as an update of the Stream object: the
decoder is chosen from this response's Content-Encoding (`none` = header absent
= `fields.get('Content-Encoding', '')`) in *every* branch, so whatever decoder
an earlier response on the same Stream left behind is replaced. -/
def setupDecompressor (_prev : Dec I) (enc : Option Str) : Dec I :=
  setup I (codingOf (enc.getD []))

/-- One Stream object reading a sequence of responses (Content-Encoding value,
pieces of the body): the decoder state is carried in the object from one
response to the next and `_setup_decompressor` runs at the start of each body. -/
def readSeqFrom (d : Dec I) : List (Option Str × List Bytes) → List (Except PyExc Bytes)
  | [] => []
  | (enc, ps) :: rest =>
    let o := readBodyFrom I (setupDecompressor I d enc) ps
    o.result :: readSeqFrom o.final rest

/-! ### which body reader runs -/

/-- what `Stream.get_read_strategy` answers from the response header -/
inductive Framing
  | chunked | length | close
  deriving DecidableEq, Repr, Inhabited

/-- The reader that really consumes the body: `read_body` replaces `length` by
`close` under `ignore_length` (only `length`: a chunked body stays chunked, its
framing never reaches the decoder), and `_read_body_by_length` falls back to
`_read_body_until_close` when the Content-Length does not parse. -/
def effectiveFraming (ignoreLength lengthParses : Bool) : Framing → Framing
  | .length => if ignoreLength || !lengthParses then .close else .length
  | f => f

/-! ### Content-Length framing: which pieces reach the decoder -/

/-- The read loop of `Stream._read_body_by_length`: `reads` are the byte strings
the successive `connection.read(4096)` calls return, `left` is `bytes_left`.
Each read is handed on whole while it fits; the read that overruns the declared
length is cut to the bytes still allowed (`data[:bytes_left]` with the already
decremented, negative `bytes_left`) and ends the loop; an empty read ends it too
(the code then raises NetworkError when bytes are still missing — C08's subject). -/
def lengthPieces : Nat → List Bytes → List Bytes
  | _, [] => []
  | left, r :: rs =>
    if left = 0 ∨ r = [] then []
    else if r.length ≤ left then r :: lengthPieces (left - r.length) rs
    else [r.take left]

/-! ### the layer above the Stream: `Session.download` and `WebSession.download` -/

/-- the parameters of `Session.download(file, raw, rewind, duration_timeout)`
(`wpull/protocol/http/client.py`); the timeout in milliseconds -/
structure DownloadArgs where
  keepFile : Bool
  raw : Bool
  rewind : Bool
  durationTimeout : Option Nat
  deriving DecidableEq, Repr

/-- `WebSession.download(file, duration_timeout)` (`wpull/protocol/http/web.py`)
calls `self._current_session.download(file, duration_timeout=duration_timeout)`:
the timeout travels by keyword, `raw` and `rewind` keep their defaults. -/
def webDownloadArgs (keepFile : Bool) (timeout : Option Nat) : DownloadArgs :=
  { keepFile := keepFile, raw := false, rewind := true, durationTimeout := timeout }

/-- `Session.download` → `Stream.read_body(request, response, file=file, raw=raw)`
on the session's own fresh Stream: `if not raw: self._setup_decompressor(response)`.
(The timeout only bounds the duration; a body that arrives is not affected.) -/
def sessionDownloadOutcome (a : DownloadArgs) (enc : Option Str) (pieces : List Bytes) : Outcome I :=
  readBodyFrom I (if a.raw then Dec.none else setupDecompressor I .none enc) pieces

def sessionDownload (a : DownloadArgs) (enc : Option Str) (pieces : List Bytes) : Except PyExc Bytes :=
  (sessionDownloadOutcome I a enc pieces).observed I a.keepFile

/-- what the crawler's fetch (`WebSession.download`) yields for a response body -/
def webDownload (keepFile : Bool) (timeout : Option Nat) (enc : Option Str) (pieces : List Bytes) :
    Except PyExc Bytes :=
  sessionDownload I (webDownloadArgs keepFile timeout) enc pieces

/-- The parts of a response (and its request) that a decoding heuristic could
look at.  `_setup_decompressor` reads `Content-Encoding` and nothing else. -/
structure ResponseInfo where
  contentEncoding : Option Str
  contentType : Option Str
  contentDisposition : Option Str
  url : Str

/-- `_setup_decompressor(response)` with the whole header block in view -/
def setupFromResponse (prev : Dec I) (r : ResponseInfo) : Dec I :=
  setupDecompressor I prev r.contentEncoding

/-! ### histories over several decoder objects

Decoder objects are values: an operation on one object takes that object's
state and returns its new state; there is no state shared between objects
(no class-level or module-level buffer). -/

/-- one call on a decoder object -/
inductive HOp
  | feed (data : Bytes)
  | flush
  deriving Repr

/-- `Stream._decompress_data` / `_flush_decompressor` on the Stream's decoder -/
def Dec.step (d : Dec I) : HOp → Dec I × Except PyExc Bytes
  | .feed data => decompressData I d data
  | .flush => flushDecompressor I d

/-- `decompress` / `flush` on a wrapper object used directly (zlib.error not converted) -/
def Dec.stepRaw (d : Dec I) : HOp → Dec I × Except PyExc Bytes
  | .feed data =>
    match d with
    | .none => (.none, .ok data)
    | .gzip g => let r := gzipDecompress I g data; (.gzip r.1, r.2)
    | .deflate s => let r := deflDecompress I s data; (.deflate r.1, r.2)
  | .flush =>
    match d with
    | .none => (.none, .ok [])
    | .gzip g => let r := gzipFlush I g; (.gzip r.1, r.2)
    | .deflate s => let r := deflFlush I s; (.deflate r.1, r.2)

/-- one decoder object on its own: the results of its calls, in order
(an exception does not end the object's life: callers may abandon it or go on) -/
def runAlone (step : Dec I → HOp → Dec I × Except PyExc Bytes) (d : Dec I) :
    List HOp → Dec I × List (Except PyExc Bytes)
  | [] => (d, [])
  | op :: ops =>
    let r := step d op
    let rest := runAlone step r.1 ops
    (rest.1, r.2 :: rest.2)

/-- Several decoder objects alive at once: `sched` says which object gets which
call, in global order; objects may be abandoned at any point (no more calls). -/
def runSchedule (step : Dec I → HOp → Dec I × Except PyExc Bytes) (pool : List (Dec I)) :
    List (Nat × HOp) → List (Nat × Except PyExc Bytes)
  | [] => []
  | (i, op) :: rest =>
    match pool[i]? with
    | none => runSchedule step pool rest
    | some d =>
      let r := step d op
      (i, r.2) :: runSchedule step (pool.set i r.1) rest

/-! ### the wrappers used on their own (`decompress`* then `flush`, zlib.error not converted) -/

def gzipRunFrom (g : GzipSt I) : List Bytes → Except PyExc Bytes
  | [] => (gzipFlush I g).2
  | p :: ps =>
    match gzipDecompress I g p with
    | (_, .error e) => .error e
    | (g', .ok out) => (gzipRunFrom g' ps).map (out ++ ·)

def deflRunFrom (d : DeflSt I) : List Bytes → Except PyExc Bytes
  | [] => (deflFlush I d).2
  | p :: ps =>
    match deflDecompress I d p with
    | (_, .error e) => .error e
    | (d', .ok out) => (deflRunFrom d' ps).map (out ++ ·)

/-! ### driving the abstract inflater directly (what "one-shot zlib" means) -/

/-- feed all pieces, concatenating the output -/
def feedAll (s : I.σ) : List Bytes → I.σ × Except PyExc Bytes
  | [] => (s, .ok [])
  | p :: ps =>
    match I.feed s p with
    | (s', .error e) => (s', .error e)
    | (s', .ok out) =>
      match feedAll s' ps with
      | (s'', .error e) => (s'', .error e)
      | (s'', .ok out') => (s'', .ok (out ++ out'))

/-- Feed all pieces from state `s`, flush, read `eof`. -/
def runFrom (s : I.σ) (pieces : List Bytes) : Except PyExc (Bytes × Bool) :=
  match feedAll I s pieces with
  | (_, .error e) => .error e
  | (s', .ok out) =>
    match I.flush s' with
    | (_, .error e) => .error e
    | (s'', .ok out') => .ok (out ++ out', I.eof s'')

/-- Feed all pieces to a fresh inflater, flush, read `eof`:
the complete observable behaviour of one inflater over one input. -/
def runAll (m : Mode) (pieces : List Bytes) : Except PyExc (Bytes × Bool) :=
  runFrom I (I.init m) pieces

/-! ### logged oracle: the inflater used by the executable driver

The harness wraps `zlib.decompressobj` and logs every call of the real run.
The model replays the wrapper logic over that log: each call it makes must be
the next logged call (same object mode, same method, same argument) and gets
the logged result; anything else is `AssertionError` (a desynchronisation). -/

structure LogEntry where
  mode : Mode
  isFlush : Bool
  arg : Bytes
  res : Option Bytes      -- `none` = zlib.error
  eofAfter : Bool
  deriving Repr, Inhabited

structure LogSt where
  mode : Mode
  rest : List LogEntry
  eof : Bool
  desync : Bool

def LogSt.call (s : LogSt) (isFlush : Bool) (arg : Bytes) : LogSt × Except PyExc Bytes :=
  match s.rest with
  | e :: rest =>
    if e.mode == s.mode && e.isFlush == isFlush && e.arg == arg && !s.desync then
      match e.res with
      | none => (⟨s.mode, rest, e.eofAfter, false⟩, .error .ZlibError)
      | some o => (⟨s.mode, rest, e.eofAfter, false⟩, .ok o)
    else ({ s with desync := true }, .error .AssertionError)
  | [] => ({ s with desync := true }, .error .AssertionError)

def logged (log : List LogEntry) : Inflater where
  σ := LogSt
  init m := ⟨m, log, false, false⟩
  feed s data := s.call false data
  flush s := s.call true []
  eof s := s.eof

/-- number of logged calls the model did not make (`none` = desynchronised) -/
def remaining (log : List LogEntry) : Dec (logged log) → Option Nat
  | .none => some log.length
  | .gzip g => if g.obj.desync then none else some g.obj.rest.length
  | .deflate d =>
    match d.obj with
    | none => some log.length
    | some s => if s.desync then none else some s.rest.length

end Wpull.Decomp
