import Wpull.Pipeline
import Wpull.Proto
namespace Wpull.Pipeline
open Wpull Wpull.Proto

/-- `P`, `M`, `G`, `T<i>` (task of item i completes), `X<i>` (it raises), `S`, `C<n>` -/
def decAct? (t : String) : Option (Act ⊕ (Nat × Nat)) :=
  match t.toList with
  | 'R' :: r =>
    match (String.ofList r).splitOn "+" with
    | [k] => k.toNat?.map (fun k => Sum.inr (k, 0))
    | [k, m] => match k.toNat?, m.toNat? with
      | some k, some m => some (Sum.inr (k, m))
      | _, _ => none
    | _ => none
  | _ => (decAct1? t).map Sum.inl
where decAct1? (t : String) : Option Act :=
  match t.toList with
  | ['P'] => some .prod
  | ['M'] => some .main
  | ['G'] => some .getw
  | ['S'] => some .stop
  | 'T' :: r => (String.ofList r).toNat?.map (Act.task · true)
  | 'X' :: r => (String.ofList r).toNat?.map (Act.task · false)
  | 'C' :: r => (String.ofList r).toNat?.map Act.setConc
  | _ => none

def encEv (e : Ev) : String :=
  toString e.task ++ (if e.fin then "e" else "s") ++ toString e.item

def runIdx (l : List Ph) : List Nat :=
  (l.zipIdx.filter (fun p => isRun p.1)).map (·.2)

def enabledStr (s : St) : String :=
  (if prodReady s then "P" else "") ++ (if mainReady s then "M" else "") ++
  (if s.idleReady > 0 then "G" else "") ++
  String.join ((runIdx s.items).map (fun i => "T" ++ toString i))

def digest (s : St) : String :=
  let ps := match s.pstate with | .stopped => "o" | .running => "r" | .stopping => "s"
  let m := match s.main with | .returned => "r" | .raised => "x" | .spin => "b" | _ => "p"
  let pw := match s.prod with | .putWait false | .waitWorker false => 1 | _ => 0
  ps ++ ",".intercalate [toString s.conc, encBool s.unpaused, encBool s.prodRunning, toString s.pills,
    (match s.qitem with | some i => toString i | none => "-"), toString s.unfinished, (if s.main = .raised then "*" else toString s.wt),
    toString s.live, toString s.idleWait, toString pw, toString s.srcCalls]
  ++ ";" ++ m ++ ";" ++ enabledStr s

/-- replay the action list; one digest per action, `!` + the action index when it is not enabled -/
def replay (c : Cfg) : St → Nat → List (Act ⊕ (Nat × Nat)) → List String → List String
  | _, _, [], acc => acc.reverse
  | s, k, a :: as, acc =>
    let c := match a with | .inr (_, m) => { c with n := c.n + m } | _ => c
    match stepR c s (match a with | .inl x => .inl x | .inr (k, _) => .inr k) with
    | none => (("!" ++ toString k) :: acc).reverse
    | some s' =>
      let evs := s'.log.drop s.log.length
      replay c s' (k + 1) as ((".".intercalate (evs.map encEv) ++ ";" ++ digest s') :: acc)

def decFix? (t : String) : Option Fix :=
  match t.toList with
  | [a, b, c, d, e] => some ⟨a == 'T', b == 'T', c == 'T', d == 'T', e == 'T'⟩
  | _ => none

def handle : List String → String
  | ["run", n, k, conc, sf, fx, acts] =>
    match n.toNat?, k.toNat?, conc.toNat?, decFix? fx, (if acts == "-" then some [] else (acts.splitOn "/").mapM decAct?) with
    | some n, some k, some conc, some fx, some acts =>
      if k = 0 then "bad-arg" else
      "|".intercalate (replay ⟨n, k - 1, sf == "T", fx⟩ (initSt conc) 0 acts [])
    | _, _, _, _, _ => "bad-arg"
  | ["app", specs, sd, fi] =>
    -- specs: one letter pair per pipeline, e.g. `hn.ws.hs` (h/w = housekeeping/work, s/n = skippable/not)
    let ps := (specs.splitOn ".").map (fun t => PipeSpec.mk (t.toList.head? == some 'w') (t.toList.getLast? == some 's'))
    let dec := fun (t : String) => if t == "-" then none else t.toNat?
    ".".intercalate ((appRun ps 0 false (dec sd) (dec fi)).map toString)
  | _ => "bad-op"

end Wpull.Pipeline
