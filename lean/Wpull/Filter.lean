/-
Model of wpull's URL scope filters (property C02).

Mirrors, function by function (quirks and Python truthiness kept):
  wpull/urlfilter.py            every filter class, `DemuxURLFilter.test_info`
  wpull/url.py                  `schemes_similar`, `is_subdir`
  wpull/processor/rule.py       `FetchRule.consult_filters`, `is_only_span_hosts_failed`
  wpull/application/tasks/rule.py   `URLFiltersSetupTask._build_url_filters` +
                                `URLFiltersPostURLImportSetupTask` (span-hosts filter appended)
  wpull/processor/web.py        request-issuing skeleton of `WebProcessorSession`
  wpull/processor/ftp.py        request-issuing skeleton of `FTPProcessorSession`

Not modelled, passed in as oracles (`Oracles`): the `re` engine and `fnmatch`.
URL parsing is not modelled here either (engine `Url`): a URL enters as the
fields of its `URLInfo` (`Info`).
Core Lean only.
-/
import Wpull.Py.Basic
namespace Wpull.Filter
open Wpull

/-! ### URL info, URL record, oracles -/

/-- The `URLInfo` fields the filters read. -/
structure Info where
  scheme : Str
  hostname : Option Str          -- `None` for non-network schemes
  port : Option Nat
  path : Str
  url : Str                      -- `url_info.url` (only ever handed to `re.search`)
  deriving DecidableEq, Repr, Inhabited

/-- The `URLRecord` fields the filters read.  `parent` / `root` are `none`
exactly when `parent_url` / `root_url` is falsy (`None`); otherwise they hold
the `URLInfo.parse` of that string. -/
structure Rec where
  parent : Option Info
  root : Option Info
  level : Nat
  inlineLevel : Option Nat       -- `None` or an int; Python truthiness: `some (n+1)`
  tryCount : Nat
  deriving DecidableEq, Repr, Inhabited

/-- The parts of the Python runtime the model does not contain. -/
structure Oracles where
  /-- `bool(re.search(pattern, string))` -/
  re : Str → Str → Bool
  /-- `fnmatch.fnmatchcase(name, pat)` -/
  fnmatchcase : Str → Str → Bool
  /-- `bool(re.search(fnmatch.translate(suffix), filename))` -/
  suffix : Str → Str → Bool

/-- Python truthiness of `None | int`. -/
def truthy : Option Nat → Bool
  | some n => n != 0
  | none => false

/-! ### string helpers -/

def slash : Nat := 47

/-- `s.endswith(suf)` -/
def endsWith (s suf : Str) : Bool := startsWith s.reverse suf.reverse

/-- `s.rsplit('/', 1)[-1]` -/
def afterLastSlash (s : Str) : Str := (s.reverse.takeWhile (· != slash)).reverse

/-- `s.rsplit('/', 1)[0]` -/
def beforeLastSlash (s : Str) : Str :=
  if s.contains slash then ((s.reverse.dropWhile (· != slash)).drop 1).reverse else s

def sHttp : Str := lit "http"
def sHttps : Str := lit "https"
def sFtp : Str := lit "ftp"

/-- `wpull.url.schemes_similar` -/
def schemesSimilar (a b : Str) : Bool :=
  if a == b then true
  else if (a == sHttp || a == sHttps) && (b == sHttp || b == sHttps) then true
  else false

/-- `wpull.url.is_subdir` -/
def isSubdir (o : Oracles) (basePath testPath : Str) (trailingSlash wildcards : Bool) : Bool :=
  let base := if trailingSlash then beforeLastSlash basePath ++ [slash]
              else if endsWith basePath [slash] then basePath else basePath ++ [slash]
  let test := if trailingSlash then beforeLastSlash testPath ++ [slash]
              else if endsWith testPath [slash] then testPath else testPath ++ [slash]
  -- `fnmatch.fnmatchcase(test_path, base_path + '*')`: `base` ends in '/', anything below it is a subpath
  if wildcards then o.fnmatchcase test (base ++ [42]) else startsWith test base

/-! ### the filter classes -/

inductive Filter
  | scheme (allowed : List Str)
  | httpsOnly
  | followFtp (follow : Bool)
  | backwardDomain (accepted rejected : List Str)      -- `None` ≡ `[]` (only truthiness is read)
  | hostname (accepted rejected : List Str)
  | recursive (enabled pageRequisites : Bool)
  | level (maxDepth inlineMaxDepth : Nat)
  | tries (maxTries : Nat)
  | parent
  | spanHosts (hostnames : List Str) (enabled pageRequisites linkedPages : Bool)
  | regex (accepted rejected : Str)                     -- `None` ≡ `''`
  | directory (accepted rejected : List Str)
  | backwardFilename (accepted rejected : List Str)     -- the elements Python iterates over
  deriving DecidableEq, Repr, Inhabited

/-- `url_filter.__class__.__name__` -/
def Filter.name : Filter → String
  | .scheme _ => "SchemeFilter"
  | .httpsOnly => "HTTPSOnlyFilter"
  | .followFtp _ => "FollowFTPFilter"
  | .backwardDomain _ _ => "BackwardDomainFilter"
  | .hostname _ _ => "HostnameFilter"
  | .recursive _ _ => "RecursiveFilter"
  | .level _ _ => "LevelFilter"
  | .tries _ => "TriesFilter"
  | .parent => "ParentFilter"
  | .spanHosts _ _ _ _ => "SpanHostsFilter"
  | .regex _ _ => "RegexFilter"
  | .directory _ _ => "DirectoryFilter"
  | .backwardFilename _ _ => "BackwardFilenameFilter"

def Filter.isSpanHosts : Filter → Bool
  | .spanHosts _ _ _ _ => true
  | _ => false

/-- `x in list_of_str` where `x` may be `None` -/
def optMem (h : Option Str) (l : List Str) : Bool :=
  match h with
  | some x => l.contains x
  | none => false

/-- `BackwardDomainFilter.match` (truthiness of the result) -/
def domainMatch (domains : List Str) (testDomain : Option Str) : Bool :=
  match testDomain with
  | none => false
  | some d => if d.isEmpty then false else domains.any (fun dom => endsWith d dom)

/-- `BackwardFilenameFilter.match` (truthiness of the result) -/
def suffixMatch (o : Oracles) (suffixes : List Str) (filename : Str) : Bool :=
  if filename.isEmpty then false else suffixes.any (fun s => o.suffix s filename)

/-- `bool(url_filter.test(url_info, url_record))` -/
def Filter.test (o : Oracles) (f : Filter) (u : Info) (r : Rec) : Bool :=
  match f with
  | .scheme allowed => allowed.contains u.scheme
  | .httpsOnly => u.scheme == sHttps
  | .followFtp follow =>
    if u.scheme == sFtp then
      match r.parent with
      | some p => if p.scheme == sHttp || p.scheme == sHttps then follow else true
      | none => true
    else true
  | .backwardDomain accepted rejected =>
    if !accepted.isEmpty && !domainMatch accepted u.hostname then false
    else if !rejected.isEmpty && domainMatch rejected u.hostname then false
    else true
  | .hostname accepted rejected =>
    if !accepted.isEmpty && !optMem u.hostname accepted then false
    else if !rejected.isEmpty && optMem u.hostname rejected then false
    else true
  | .recursive enabled pageReq =>
    if r.level == 0 then true
    else if truthy r.inlineLevel then pageReq        -- falls off the end → None
    else enabled
  | .level maxDepth inlineMax =>
    if inlineMax != 0 && truthy r.inlineLevel && decide (r.inlineLevel.getD 0 > inlineMax) then false
    else if maxDepth != 0 then
      if truthy r.inlineLevel then decide (r.level ≤ maxDepth + 2) else decide (r.level ≤ maxDepth)
    else true
  | .tries maxTries =>
    if maxTries != 0 then decide (r.tryCount < maxTries) else true
  | .parent =>
    if truthy r.inlineLevel then true
    else
      let top := match r.root with
        | some t => t
        | none => u
      if schemesSimilar u.scheme top.scheme && u.hostname == top.hostname
          && (u.scheme != top.scheme || u.port == top.port) then
        isSubdir o top.path u.path true false
      else true
  | .spanHosts hostnames enabled pageReq linked =>
    if enabled then true
    else if optMem u.hostname hostnames then true
    else if pageReq && truthy r.inlineLevel then true
    else if linked then
      match r.parent with
      | some p => optMem p.hostname hostnames      -- falls off the end → None
      | none => false                               -- `URLInfo.parse(None)` is `None`: falsy
    else false
  | .regex accepted rejected =>
    if !accepted.isEmpty && !o.re accepted u.url then false
    else if !rejected.isEmpty && o.re rejected u.url then false
    else true
  | .directory accepted rejected =>
    if !accepted.isEmpty && !accepted.any (fun d => isSubdir o d u.path false true) then false
    else if !rejected.isEmpty && rejected.any (fun d => isSubdir o d u.path false true) then false
    else true
  | .backwardFilename accepted rejected =>
    let filename := afterLastSlash u.path
    if filename.isEmpty then true
    else if !accepted.isEmpty then
      if !rejected.isEmpty then suffixMatch o accepted filename && !suffixMatch o rejected filename
      else suffixMatch o accepted filename
    else if !rejected.isEmpty && suffixMatch o rejected filename then false
    else true

/-! ### `DemuxURLFilter.test_info` -/

structure TestInfo where
  verdict : Bool
  passed : List Filter
  failed : List Filter
  /-- `(class name, result)` in evaluation order; the Python dict `map` is
  `dictGet` of this list (a later assignment to the same key wins). -/
  results : List (String × Bool)
  deriving DecidableEq, Repr

/-- lookup in the dict built by assigning the pairs in order -/
def dictGet (l : List (String × Bool)) (k : String) : Option Bool :=
  (l.reverse.find? (fun e => e.1 == k)).map (·.2)

def testInfo (o : Oracles) (fs : List Filter) (u : Info) (r : Rec) : TestInfo :=
  let passed := fs.filter (fun f => f.test o u r)
  let failed := fs.filter (fun f => !f.test o u r)
  { verdict := failed.length == 0
    passed := passed
    failed := failed
    results := fs.map (fun f => (f.name, f.test o u r)) }

/-! ### `FetchRule.consult_filters` -/

/-- `FetchRule.is_only_span_hosts_failed` -/
def isOnlySpanHostsFailed (ti : TestInfo) : Bool :=
  ti.failed.length == 1 && dictGet ti.results "SpanHostsFilter" == some false

structure Consult where
  verdict : Bool
  reason : String
  info : TestInfo
  deriving DecidableEq, Repr

def consult (o : Oracles) (fs : List Filter) (u : Info) (r : Rec) (isRedirect : Bool) : Consult :=
  let ti := testInfo o fs u r
  if ti.verdict then ⟨true, "filters", ti⟩
  else if isRedirect && isOnlySpanHostsFailed ti then ⟨true, "redirect", ti⟩
  else ⟨false, "filters", ti⟩

/-- the Bool a caller branches on (`consult_filters(...)[0]`) -/
def consultOk (o : Oracles) (fs : List Filter) (u : Info) (r : Rec) (isRedirect : Bool) : Bool :=
  (consult o fs u r isRedirect).verdict

/-! ### option → filter list -/

/-- The parsed command line, as far as the filter construction reads it
(`None` lists are `[]`, `None` strings are `''`: only truthiness is read). -/
structure Options where
  httpsOnly : Bool := false
  recursive : Bool := false
  pageRequisites : Bool := false
  followFtp : Bool := false
  noParent : Bool := false
  domains : List Str := []
  excludeDomains : List Str := []
  hostnames : List Str := []
  excludeHostnames : List Str := []
  tries : Nat := 20
  level : Nat := 5
  pageRequisitesLevel : Nat := 5
  acceptRegex : Str := []
  rejectRegex : Str := []
  includeDirectories : List Str := []
  excludeDirectories : List Str := []
  accept : List Str := []
  reject : List Str := []
  spanHosts : Bool := false
  spanAllowPageRequisites : Bool := false
  spanAllowLinkedPages : Bool := false
  /-- `URLTable.get_hostnames()` when the post-import task runs -/
  tableHostnames : List Str := []
  deriving DecidableEq, Repr, Inhabited

def defaultSchemes : List Str := [sHttp, sHttps, sFtp]

/-- `if c: filters.append(f)` -/
def addIf (c : Bool) (f : Filter) (filters : List Filter) : List Filter :=
  if c then filters ++ [f] else filters

/-- `URLFiltersSetupTask._build_url_filters` followed by
`URLFiltersPostURLImportSetupTask.process` (statement by statement). -/
def buildFilters (a : Options) : List Filter :=
  let filters : List Filter := [
    (if a.httpsOnly then Filter.httpsOnly else Filter.scheme defaultSchemes),
    Filter.recursive a.recursive a.pageRequisites,
    Filter.followFtp a.followFtp ]
  let filters := addIf a.noParent Filter.parent filters
  let filters := addIf (!a.domains.isEmpty || !a.excludeDomains.isEmpty)
    (Filter.backwardDomain a.domains a.excludeDomains) filters
  let filters := addIf (!a.hostnames.isEmpty || !a.excludeHostnames.isEmpty)
    (Filter.hostname a.hostnames a.excludeHostnames) filters
  let filters := addIf (a.tries != 0) (Filter.tries a.tries) filters
  -- `args.level and args.recursive or args.page_requisites_level`
  let filters := addIf ((a.level != 0 && a.recursive) || a.pageRequisitesLevel != 0)
    (Filter.level a.level a.pageRequisitesLevel) filters
  let filters := addIf (!a.acceptRegex.isEmpty || !a.rejectRegex.isEmpty)
    (Filter.regex a.acceptRegex a.rejectRegex) filters
  let filters := addIf (!a.includeDirectories.isEmpty || !a.excludeDirectories.isEmpty)
    (Filter.directory a.includeDirectories a.excludeDirectories) filters
  let filters := addIf (!a.accept.isEmpty || !a.reject.isEmpty)
    (Filter.backwardFilename a.accept a.reject) filters
  -- URLFiltersPostURLImportSetupTask: `demux_url_filter.url_filters.append(span_hosts_filter)`
  filters ++ [Filter.spanHosts a.tableHostnames a.spanHosts
                a.spanAllowPageRequisites a.spanAllowLinkedPages]

/-! ### request-issuing skeleton of the processor sessions -/

/-- What a session does that the outside can see. -/
inductive Ev
  | robotsTxt (forUrl : Info)              -- robots.txt of the origin of `forUrl` is fetched (item URL or redirect target)
  | request (u : Info) (isRedirect : Bool)  -- a fetch of `u` is started (`isRedirect`: the flag handed to the consultation)
  | skip                                    -- `item_session.skip()`
  deriving DecidableEq, Repr

structure Cfg where
  fs : List Filter
  strongRedirects : Bool := true
  robots : Bool := false
  /-- truthiness of `item_session.is_virtual` (False for every item of a crawl; True only for the
  proxy coprocessor's pseudo items) -/
  virtual : Bool := false

/-- What the robots.txt checker does when it is asked about a URL
(`FetchRule.consult_robots_txt`). -/
inductive RobotsOutcome
  | cached (allow : Bool)      -- parser in the pool: no request
  | fetched (allow : Bool)     -- robots.txt fetched, then asked
  | error                      -- the fetch raised one of REMOTE_ERRORS
  deriving DecidableEq, Repr

/-- What the server / the rest of the client answers to one fetch. -/
inductive Resp
  /-- redirect status with a usable Location: next request is `target`; `rob` is what the
  robots.txt checker will do if it is asked about `target` -/
  | redirect (target : Info) (rob : RobotsOutcome)
  | retrySame                  -- 401 with a password at hand: same URL again, not a redirect
  | finish                     -- anything else (document, error, exit_early, too many redirects)
  deriving DecidableEq, Repr

/-- The robots.txt gate for URL `u` in front of the events `rest`: a denial skips the
item, an error ends the session, a fetch is visible as a robots.txt request for `u`'s origin. -/
def robotsGate (u : Info) (rob : RobotsOutcome) (rest : List Ev) : List Ev :=
  match rob with
  | .cached true => rest
  | .cached false => [.skip]
  | .fetched true => .robotsTxt u :: rest
  | .fetched false => [.robotsTxt u, .skip]
  | .error => [.robotsTxt u]

/-- `FetchRule.check_subsequent_web_request`: the filters, then `if item_session.is_virtual: verdict = True`. -/
def checkSubsequent (o : Oracles) (c : Cfg) (u : Info) (r : Rec) (isRedirect : Bool) : Bool :=
  if c.virtual then true else consultOk o c.fs u r isRedirect

/-- `WebProcessorSession._process_loop` with `_should_fetch_reason` inlined:
`next` = `web_client_session.next_request().url_info`,
`redir` = `redirect_tracker.is_redirect()`, `rob` = the checker's behaviour for `next`.
First the filters; for an accepted redirect target then robots.txt (if a checker is
configured); then the fetch. -/
def webLoop (o : Oracles) (c : Cfg) (r : Rec) : Info → Bool → RobotsOutcome → List Resp → List Ev
  | next, redir, rob, resps =>
    if !checkSubsequent o c next r (c.strongRedirects && redir) then [.skip]
    else
      let go : List Ev :=
        .request next (c.strongRedirects && redir) ::
          match resps with
          | [] => []
          | .redirect t rb :: rest => webLoop o c r t true rb rest
          | .retrySame :: rest => webLoop o c r next false (.cached true) rest
          | .finish :: _ => []
      if redir && c.robots then robotsGate next rob go else go

/-- `WebProcessorSession.process`: `_process_robots` (= `check_initial_web_request`), then the loop. -/
def webProcess (o : Oracles) (c : Cfg) (r : Rec) (u0 : Info) (rob : RobotsOutcome)
    (resps : List Resp) : List Ev :=
  let v := consultOk o c.fs u0 r false
  if v && c.robots then robotsGate u0 rob (webLoop o c r u0 false (.cached true) resps)
  else if !v then [.skip]
  else webLoop o c r u0 false (.cached true) resps

/-- How `FTPProcessorSession.process` gets from the item URL to the request it sends. -/
inductive FtpShape
  | glob (dir : Info)                         -- glob characters in the file name: the directory is listed
  | known                                     -- link_type known or the path ends in '/': no probe
  | probeCached (slashed : Option Info)       -- parent listing in the cache; `some s`: it is a directory, URL becomes `s`
  | probe (dir : Info) (slashed : Option Info)   -- parent directory `dir` is listed first
  deriving DecidableEq, Repr

/-- `FTPProcessorSession.process` (after the repair: every request URL that is
not the item URL itself is put to the filters first; a refused parent probe
means "assume it is a file"). `permProbe`: `_apply_unix_permissions` lists the
parent `dir` once more after the download. -/
def ftpProcess (o : Oracles) (fs : List Filter) (r : Rec) (u0 : Info) (shape : FtpShape)
    (permProbe : Option Info) : List Ev :=
  if !consultOk o fs u0 r false then [.skip]
  else
      let probeEvs : List Ev × Info :=
        match shape with
        | .glob dir => ([], dir)
        | .known => ([], u0)
        | .probeCached slashed => ([], slashed.getD u0)
        | .probe dir slashed =>
          if consultOk o fs dir r false then ([.request dir false], slashed.getD u0)
          else ([], u0)
      let final := probeEvs.2
      if !consultOk o fs final r false then probeEvs.1 ++ [.skip]
      else
        probeEvs.1 ++ [.request final false] ++
          (match permProbe with
           | some dir => if consultOk o fs dir r false then [.request dir false] else []
           | none => [])

/-! ### records of the links an FTP listing offers (`_add_listing_links` + `ItemSession.add_child_url`) -/

/-- The `level` of the record `_add_listing_links` creates for a listing entry.
`glob`: the item URL was a glob pattern (`self._glob_pattern` set), then `level = url_record.level`, else `None`;
a directory entry is added without `level` (`add_child_url` then takes `url_record.level + 1`),
a file entry with `level=level` (`add_child_url`: `url_record.level + 1 if level is None else level`). -/
def listingChildLevel (glob isDir : Bool) (itemLevel : Nat) : Nat :=
  let level : Option Nat := if glob then some itemLevel else none
  if isDir then itemLevel + 1
  else match level with
    | some l => l
    | none => itemLevel + 1

/-- One listing link: the parent item was a glob URL or not, the entry is a directory or a file, the child URL. -/
structure ListingStep where
  parentGlob : Bool
  isDir : Bool
  child : Info
  deriving DecidableEq, Repr

/-- The record `add_child_url` writes for the child of item `item` (record `r`):
parent = the item URL, root = the item's root or the item URL, not inline, never tried. -/
def childRecord (r : Rec) (item : Info) (s : ListingStep) : Rec :=
  { parent := some item
    root := match r.root with
      | some t => some t
      | none => some item
    level := listingChildLevel s.parentGlob s.isDir r.level
    inlineLevel := none
    tryCount := 0 }

/-- The record and URL of the item reached from item `u` (record `r`) along a chain of listing links. -/
def recordAlong : Rec → Info → List ListingStep → Rec × Info
  | r, u, [] => (r, u)
  | r, u, s :: rest => recordAlong (childRecord r u s) s.child rest

/-! ### records of the links an HTML/CSS document offers (`ItemSession.add_child_url`) -/

/-- One scraped link: embedded object (`inline=True`: img, iframe, frame, stylesheet, ...) or plain hyperlink. -/
structure LinkStep where
  inline : Bool
  child : Info
  deriving DecidableEq, Repr

/-- `add_child_url(url, inline=...)` with `level=None`: level + 1;
`inline_level = (url_record.inline_level or 0) + 1 if inline else None`. -/
def httpChildRecord (r : Rec) (item : Info) (s : LinkStep) : Rec :=
  { parent := some item
    root := match r.root with
      | some t => some t
      | none => some item
    level := r.level + 1
    inlineLevel := if s.inline then some (r.inlineLevel.getD 0 + 1) else none
    tryCount := 0 }

/-- The stored record and URL of the item reached from item `u` (record `r`) along a chain of scraped links. -/
def httpRecordAlong (r : Rec) (u : Info) (path : List LinkStep) : Rec × Info :=
  path.foldl (fun (p : Rec × Info) s => (httpChildRecord p.1 p.2 s, s.child)) (r, u)

/-! ### `ProcessingRule.add_extra_urls` (`--sitemaps`) -/

/-- For a command-line item (`level == 0`) with `--sitemaps`, robots.txt and sitemap.xml of the item's
origin are queued with `add_child_url`: ordinary (plain) children of the item. -/
def addExtraUrls (sitemaps : Bool) (r : Rec) (item robotsTxt sitemapXml : Info) : List (Rec × Info) :=
  if r.level == 0 && sitemaps then
    [(httpChildRecord r item ⟨false, robotsTxt⟩, robotsTxt), (httpChildRecord r item ⟨false, sitemapXml⟩, sitemapXml)]
  else []

/-! ### the try counter (`BaseSQLURLTable.check_in`) -/

/-- `check_in(url, status, increment_try_count, url_result)`: the result columns are written if a result is
given, and - independently - the counter is incremented if asked. -/
def checkInTryCount (tryCount : Nat) (hasResult increment : Bool) : Nat :=
  let _written := hasResult
  if increment then tryCount + 1 else tryCount

/-- the stored try count after `n` counted visits (`set_status` always passes a result and asks for the increment) -/
def tryCountAfter : Nat → Nat
  | 0 => 0
  | n + 1 => checkInTryCount (tryCountAfter n) true true

/-! ### comma separated option values (`AppArgumentParser.comma_list`) -/

/-- `str.isspace()` of one code point (what `str.strip()` removes) -/
def isPySpace (c : Nat) : Bool :=
  (9 ≤ c && c ≤ 13) || (28 ≤ c && c ≤ 32) || c == 0x85 || c == 0xa0 || c == 0x1680 ||
  (0x2000 ≤ c && c ≤ 0x200a) || c == 0x2028 || c == 0x2029 || c == 0x202f || c == 0x205f || c == 0x3000

/-- `s.strip()` -/
def pyStrip (s : Str) : Str := ((s.dropWhile isPySpace).reverse.dropWhile isPySpace).reverse

/-- `comma_list(string)`: split on ',', strip every item, drop the empty ones. -/
def commaList (s : Str) : List Str :=
  ((splitOn1 s 44).map pyStrip).filter (fun e => !e.isEmpty)

end Wpull.Filter
