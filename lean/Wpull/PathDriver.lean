import Wpull.Path
import Wpull.Proto
namespace Wpull.Path
open Wpull Wpull.Proto

def decOs? : String → Option OsType
  | "unix" => some .unix | "windows" => some .windows | "other" => some .other | _ => none

def decCase? : String → Option CaseMode
  | "none" => some .none | "lower" => some .lower | "upper" => some .upper | _ => none

def decB? : String → Option Bool
  | "T" => some true | "F" => some false | _ => none

def decSafeCfg? (os nc ao cs ml : String) : Option SafeCfg := do
  let os ← decOs? os
  let nc ← decB? nc
  let ao ← decB? ao
  let cs ← decCase? cs
  let ml ← ml.toInt?
  pure ⟨os, nc, ao, cs, ml⟩

/-- table token: list of lists, each `[c, image…]`; missing entries map to `[c]` -/
def decTbl? (s : String) : Option (Nat → Str) := do
  let ls ← decLists? s
  let pairs := ls.filterMap (fun l => match l with | c :: img => some (c, img) | [] => none)
  pure (fun c => (pairs.lookup c).getD [c])

def decExt? (s : String) : Option Ext :=
  match s.toList with
  | [a, b] => do
    let a ← decB? (String.singleton a)
    let b ← decB? (String.singleton b)
    pure ⟨a, b⟩
  | _ => none

def decOptStr? (s : String) : Option (Option Str) :=
  if s == "None" then some none
  else if s.startsWith "=" then (decList? (s.drop 1).toString).map some
  else none

def encExc (e : PyExc) : String := "exc " ++ e.name

def handle : List String → String
  | ["safe", os, nc, ao, cs, ml, tbl, digest, name] =>
    match decSafeCfg? os nc ao cs ml, decTbl? tbl, decList? digest, decList? name with
    | some cfg, some tbl, some d, some n =>
      match safeFilename cfg tbl (fun _ => d) n with
      | .ok r => "ok " ++ encList r
      | .error e => encExc e
    | _, _, _, _ => "bad-arg"
  | ["name", os, nc, ao, cs, ml, root, index, usedir, cut, proto, host, tbl, ext, isftp, digests, url] =>
    match decSafeCfg? os nc ao cs ml, decList? root, decList? index, decB? usedir, cut.toNat?,
          decB? proto, decB? host, decTbl? tbl, decExt? ext, decB? isftp, decLists? digests, decList? url with
    | some sc, some root, some index, some usedir, some cut, some proto, some host, some tbl, some ext,
      some isftp, some ds, some url =>
      let cfg : NamerCfg := ⟨sc, root, index, usedir, cut, proto, host⟩
      match rawParts cfg ext isftp url with
      | .error e => encExc e
      | .ok raw =>
        let rawTok := encLists (raw.map (fun o => o.getD (lit "<None>")))
        -- the logged digests, keyed by the name that was hashed
        let keys := raw.map (fun o => (o.bind (preTrunc sc)).getD [])
        let shaTbl := keys.zip ds
        let sha : Str → Str := fun x => (shaTbl.lookup x).getD []
        match components cfg tbl sha ext isftp url with
        | .error e => encExc e ++ " " ++ rawTok
        | .ok comps => "ok " ++ encList (posixJoin root comps) ++ " " ++ encLists comps ++ " " ++ rawTok
    | _, _, _, _, _, _, _, _, _, _, _, _ => "bad-arg"
  | ["unquote", s] =>
    match decList? s with
    | some s => encList (unquote s)
    | none => "bad-arg"
  | ["split", ext, url] =>
    match decExt? ext, decList? url with
    | some ext, some url =>
      match urlsplit ext url with
      | .error e => encExc e
      | .ok sp =>
        "ok " ++ encList sp.scheme ++ " " ++ encList sp.netloc ++ " " ++ encList sp.path ++ " " ++ encList sp.query
          ++ " " ++ encOpt (hostnameOf sp.netloc) ++ " " ++
          (match portOf sp.netloc with | .ok p => encOptNat p | .error e => e.name)
    | _, _ => "bad-arg"
  | ["join", root, parts] =>
    match decList? root, decLists? parts with
    | some r, some ps => encList (posixJoin r ps)
    | _, _ => "bad-arg"
  | ["dirname", p] =>
    match decList? p with
    | some p => encList (dirname p)
    | none => "bad-arg"
  | ["cd", os, nc, ao, cs, ml, tbl, digest, cur, ishttp, hashdr, m1, m2] =>
    match decSafeCfg? os nc ao cs ml, decTbl? tbl, decList? digest, decList? cur, decB? ishttp, decB? hashdr,
          decOptStr? m1, decOptStr? m2 with
    | some cfg, some tbl, some d, some cur, some ishttp, some hashdr, some m1, some m2 =>
      match renameCD cfg tbl (fun _ => d) cur ishttp hashdr m1 m2 with
      | .ok r => "ok " ++ encList r ++ " " ++ encOpt (cdName m1 m2)
      | .error e => encExc e ++ " " ++ encOpt (cdName m1 m2)
    | _, _, _, _, _, _, _, _ => "bad-arg"
  | ["opts", modes, ml, nurls, pr, rc, d] =>
    match decList? modes, ml.toInt?, nurls.toNat?, decB? pr, decB? rc with
    | some ms, some ml, some n, some pr, some rc =>
      let toMode : Nat → Option Mode := fun
        | 0 => some .windows | 1 => some .unix | 2 => some .lower | 3 => some .upper
        | 4 => some .ascii | 5 => some .nocontrol | _ => none
      let dopt : Option DirOpt := match d with
        | "unset" => some .unset | "force" => some .force | "no" => some .no | _ => none
      match ms.mapM toMode, dopt with
      | some ms, some d =>
        let c := optionsToCfg ms ml
        (match c.os with | .unix => "unix" | .windows => "windows" | .other => "other") ++ " " ++
          encBool c.noControl ++ " " ++ encBool c.asciiOnly ++ " " ++
          (match c.case with | .none => "none" | .lower => "lower" | .upper => "upper") ++ " " ++
          toString c.maxLen ++ " " ++ encBool (useDirOf n pr rc d)
      | _, _ => "bad-arg"
    | _, _, _, _, _ => "bad-arg"
  | _ => "bad-op"

end Wpull.Path
