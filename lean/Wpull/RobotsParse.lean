/-
Model of the robots.txt tokenizer, `RobotExclusionRulesParser.parse`
(`wpull/thirdparty/robotexclusionrulesparser.py`): the text (read as ISO-8859-1, so
every character is a code point below 256) is cut into lines at CR LF, CR or LF and
nowhere else; a line that holds only a comment is discarded; otherwise the comment is
cut off and a blank line ends the current record; the first directive found anywhere
in the line (`_directive_regex.findall`) decides what the line does.

What is not modelled: percent-decoding of the rule paths (`_unquote_path`): the model
keeps the path as written; the harness applies the module's own `_unquote_path` to the
model's answer before it compares it with the rule sets the real parser stores.
Sitemap and crawl-delay values are not kept (they play no part in the gate).
-/
import Wpull.Robots
namespace Wpull.Robots
open Wpull

/-- Python's `str.isspace` on the code points a robots.txt can hold (below 256):
TAB LF VT FF CR, FS GS RS US, space, NEL, NBSP -/
def isPySpace (c : Nat) : Bool := (9 ≤ c && c ≤ 13) || (28 ≤ c && c ≤ 32) || c == 133 || c == 160

def lstrip (s : Str) : Str := s.dropWhile isPySpace
def rstrip (s : Str) : Str := (s.reverse.dropWhile isPySpace).reverse
/-- `str.strip()` -/
def strip (s : Str) : Str := rstrip (lstrip s)

/-- `_end_of_line_regex.sub("\n", s).split("\n")` -/
def splitLines : Str → List Str
  | [] => [[]]
  | 13 :: 10 :: rest => [] :: splitLines rest
  | c :: rest =>
    if c = 10 ∨ c = 13 then [] :: splitLines rest
    else
      match splitLines rest with
      | [] => [[c]]
      | l :: ls => (c :: l) :: ls

inductive Field where
  | allow | disallow | userAgent | sitemap | crawlDelay
  deriving DecidableEq, Repr

/-- the alternatives of `_directive_regex`, in its order -/
def keywords : List (Str × Field) :=
  [(lit "allow", .allow), (lit "disallow", .disallow), (lit "user-agent", .userAgent), (lit "useragent", .userAgent),
   (lit "sitemap", .sitemap), (lit "crawl-delay", .crawlDelay)]

/-- does the directive pattern match at the start of `s`: keyword (any case), `:`, blanks and tabs, then the data -/
def matchAt (s : Str) : Option (Field × Str) :=
  keywords.findSome? fun kf =>
    if startsWith (s.map asciiLower) (kf.1 ++ [58]) then
      some (kf.2, (s.drop (kf.1.length + 1)).dropWhile fun c => c == 32 || c == 9)
    else none

/-- `_directive_regex.findall(line)[0]`: the leftmost match -/
def findDirective : Str → Option (Field × Str)
  | [] => none
  | c :: rest =>
    match matchAt (c :: rest) with
    | some r => some r
    | none => findDirective rest

/-- `_scrub_data`: control characters removed (tabs are among them), then `strip()` -/
def scrub (s : Str) : Str := strip (s.filter fun c => 32 ≤ c)

/-- a record while it is read: names as written, rules as written -/
structure RawSet where
  names : List Str
  rules : List (Bool × Str)
  deriving DecidableEq, Repr

def RawSet.isNotEmpty (r : RawSet) : Bool := !r.rules.isEmpty && !r.names.isEmpty
def RawSet.isDefault (r : RawSet) : Bool := r.names.contains [42]

structure PState where
  done : List RawSet
  cur : Option RawSet
  prevUA : Bool
  deriving DecidableEq, Repr

def PState.init : PState := ⟨[], none, false⟩

/-- the record read so far is kept if it has a name and a rule -/
def closeCur (st : PState) : List RawSet :=
  match st.cur with
  | some r => if r.isNotEmpty then st.done ++ [r] else st.done
  | none => st.done

/-- the part of a line before its first `#` -/
def beforeHash (s : Str) : Str := s.takeWhile fun c => c != 35

/-- one line of the file -/
def stepLine (st : PState) (line : Str) : PState :=
  let l := strip line
  if l.head? = some 35 then st          -- only a comment: no record boundary
  else
    let l := strip (beforeHash l)
    if l.isEmpty then ⟨closeCur st, none, false⟩
    else
      match findDirective l with
      | none => st                          -- "Unrecognised headers are ignored."
      | some (f, d) =>
        let d := scrub d
        match f with
        | .userAgent =>
          if st.prevUA then
            { st with cur := st.cur.map fun r => if d.isEmpty then r else { r with names := r.names ++ [d] } }
          else ⟨closeCur st, some ⟨if d.isEmpty then [] else [d], []⟩, true⟩
        | .allow => { st with prevUA := false, cur := st.cur.map fun r => { r with rules := r.rules ++ [(true, d)] } }
        | .disallow => { st with prevUA := false, cur := st.cur.map fun r => { r with rules := r.rules ++ [(false, d)] } }
        | .sitemap => { st with prevUA := false }
        | .crawlDelay => { st with prevUA := false }

def parseLines (lines : List Str) : List RawSet :=
  let all := closeCur (lines.foldl stepLine PState.init)
  all.filter (fun r => !r.isDefault) ++ all.filter (fun r => r.isDefault)

/-- `RobotExclusionRulesParser.parse(text)`: the rule sets in the order the matcher consults them -/
def parseRobots (text : Str) : List RawSet := parseLines (splitLines text)

end Wpull.Robots
