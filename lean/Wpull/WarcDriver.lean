import Wpull.Warc
import Wpull.Proto
/-! Driver glue of engine word `warc` (C05, C07).  See `harness/engines/warc_common.py`
for the request grammar. -/
namespace Wpull.Warc
open Wpull Wpull.Proto

/-- token-stream parser -/
abbrev P := StateT (List String) Option

def tok : P String := do
  match (← get) with
  | [] => failure
  | t :: r => set r; pure t

def pNat : P Nat := do (← tok).toNat?
def pList : P (List Nat) := do decList? (← tok)
def pLists : P (List (List Nat)) := do decLists? (← tok)
def pBool : P Bool := do
  match (← tok) with
  | "T" => pure true
  | "F" => pure false
  | _ => failure
def pOptList : P (Option (List Nat)) := do
  let t ← tok
  if t == "None" then pure none
  else if t.startsWith "=" then (decList? (t.drop 1).toString).map some
  else failure
def pOptNat : P (Option Nat) := do
  let t ← tok
  if t == "None" then pure none else t.toNat?.map some

def pMany {α : Type} (p : P α) : Nat → P (List α)
  | 0 => pure []
  | n + 1 => do
    let a ← p
    let r ← pMany p n
    pure (a :: r)

def pFName : P FName := do
  let t ← tok
  if t == "main" then pure .main
  else if t == "meta" then pure .metaF
  else if t.startsWith "n" then (t.drop 1).toString.toNat?.map .numbered
  else failure

def pOp : P Op := do
  match (← tok) with
  | "bq" => do let k ← pNat; let u ← pList; let i ← pList; pure (.beginRequest k u i)
  | "eq" => do let k ← pNat; let b ← pList; let o ← pNat; pure (.endRequest k b o)
  | "bp" => do let k ← pNat; pure (.beginResponse k)
  | "ep" => do let k ← pNat; let b ← pList; let r ← pOptList; pure (.endResponse k b r)
  | "cs" => pure .closeSession
  | "bc" => do let k ← pNat; let u ← pList; let i ← pList; pure (.beginControl k u i)
  | "bt" => do let k ← pNat; pure (.beginTransfer k)
  | "et" => do let k ← pNat; let b ← pList; pure (.endTransfer k b)
  | "ec" => do let k ← pNat; let b ← pList; pure (.endControl k b)
  | _ => failure

/-- the digest placeholder of the driver: `{` + 30 decimal digits of the length of
the hashed bytes + `}` (32 characters, like a base32 SHA-1) -/
def placeholderH (x : Bytes) : Str :=
  let d := decimal x.length
  [123] ++ List.replicate (30 - d.length) 48 ++ d ++ [125]

def fnameTok : FName → String
  | .main => "main"
  | .metaF => "meta"
  | .numbered n => "n" ++ toString n

def pRun : P String := do
  let compress ← pBool
  let digests ← pBool
  let cdx ← pBool
  let appending ← pBool
  let revisit ← pBool
  let maxSize ← pOptNat
  let pfx ← pList
  let software ← pList
  let wrapBuiltin ← pMany pLists 3
  let nextra ← pNat
  let extra ← pMany (do let n ← pList; let v ← pList; let w ← pLists; pure (n, v, w)) nextra
  let nexisting ← pNat
  let existing ← pMany (do let f ← pFName; let n ← pNat; pure (f, List.replicate n 0)) nexisting
  let cdxExists ← pBool
  let uuids ← pLists
  let dates ← pLists
  let tss ← pLists
  let sizes ← pList
  let logBlock ← pOptList
  let nops ← pNat
  let ops ← pMany pOp nops
  let c : Cfg := { compress, digests, cdx, appending, maxSize, revisit, pfx, software, extra, wrapBuiltin }
  let e : Env := {
    H := placeholderH
    member := fun i _ => List.replicate (sizes.getD i 0) 0
    uuid := fun i => uuids.getD i []
    date := fun i => dates.getD i []
    ts := fun d => ((dates.zip tss).find? (·.1 == d)).map (·.2) |>.getD [63] }
  let s := life c e existing ops logBlock
  let files := s.fs.map (fun p => encList (render c p.1) ++ " " ++ toString p.2.length)
  let log := s.log.map (fun en => encList (render c en.file) ++ " " ++ toString en.offset ++ " " ++
    toString en.size ++ " " ++ encList (serialize en.record))
  let bad := s.log.any (fun en => !encodable (pairsToStr en.record.fields.getAll))
  if bad then pure "exc UnicodeEncodeError" else
  pure ("ok " ++ encBool (cdxHeaderWritten c cdxExists) ++ " F " ++ toString files.length ++
    " ".intercalate ("" :: files) ++ " L " ++ toString log.length ++ " ".intercalate ("" :: log) ++
    " C " ++ toString s.cdxLines.length ++ " ".intercalate ("" :: s.cdxLines.map encList))

def pNvrOps : Nat → NVMap → P NVMap
  | 0, m => pure m
  | n + 1, m => do
    let o ← tok
    let k ← pList
    let v ← pList
    let k := normalizeName nameOverrides k
    match o with
    | "s" => pNvrOps n (m.setItem k v)
    | "a" => pNvrOps n (m.addItem k v)
    | _ => failure

def handle : List String → String
  | "run" :: rest =>
    match pRun.run rest with
    | some (r, []) => r
    | _ => "bad-arg"
  | ["offset", b] =>
    match decList? b with
    | some b => toString (payloadOffset b)
    | none => "bad-arg"
  | ["rehdr", b] =>
    match decList? b with
    | some b => encOptNat (reHeaderEnd b)
    | none => "bad-arg"
  | ["status", b] =>
    match decList? b with
    | some b => encOptNat (parseStatusLine b)
    | none => "bad-arg"
  | ["hdr", b] =>
    match decList? b with
    | some b =>
      match getHttpHeader b with
      | none => "None"
      | some (code, ct) => toString code ++ " " ++ encList ct ++ " " ++ encList (mimeOf ct)
    | none => "bad-arg"
  | ["mime", v] =>
    match decList? v with
    | some v => encList (mimeOf v)
    | none => "bad-arg"
  | ["fields", v] =>
    match decList? v with
    | some v =>
      let ps := parseFieldLines v
      encLists (ps.map (·.1)) ++ " " ++ encLists (ps.map (·.2))
    | none => "bad-arg"
  | "nvr" :: n :: rest =>
    match n.toNat? with
    | some n =>
      match (pNvrOps n []).run rest with
      | some (m, []) =>
        if encodable m.toStr then "ok " ++ encList (utf8 m.toStr) else "exc UnicodeEncodeError"
      | _ => "bad-arg"
    | none => "bad-arg"
  | ["ser", ns, vs, b] =>
    match decLists? ns, decLists? vs, decList? b with
    | some ns, some vs, some b =>
      let ps := ns.zip vs
      if encodable (pairsToStr ps) then "ok " ++ encList (serializePairs ps b) else "exc UnicodeEncodeError"
    | _, _, _ => "bad-arg"
  | ["readcdx", sep, line] =>
    match sep.toNat?, decList? line with
    | some sep, some line => encLists (readCdxLine sep line)
    | _, _ => "bad-arg"
  | ["dec", n] =>
    match n.toNat? with
    | some n => encList (decimal n) ++ " " ++ encList (pad5 n)
    | none => "bad-arg"
  | _ => "bad-op"

end Wpull.Warc
