/-
Driver of the `Url` engine (C10, C11): engine word `url`.

  url parse <ds> <enc> <url> <lowerT> <idnaT> <ipv6T> <unqT> <encT>
  url orlog <same arguments>
  url join  <base> <url> <joinT>
  url int <base> <text>          url ipv4 <text>        url flatten <T|F> <path>
  url upper <text>               url pct <set> <bytes>  url strip <text>
  url consts                     url unidb

<ds> = `None` | `=<str>`; <enc> = utf8 | latin1 | ascii | table.
A parameter table is a list of lists `k/v/k/v…` (`~` = empty); a value of an
`Except` parameter is `0 :: payload` (returned) or `[1, code]` (raised, see
`excOfCode`).  A key missing from a table answers with a marker that the real
code can never produce, i.e. a disagreement.
-/
import Wpull.Url
import Wpull.Proto
namespace Wpull.Url
open Wpull Wpull.Proto

def excCodes : List PyExc :=
  [.ValueError, .UnicodeError, .UnicodeEncodeError, .UnicodeDecodeError, .AddressValueError,
   .IndexError, .KeyError, .TypeError, .AttributeError, .AssertionError, .RecursionError, .OverflowError]

def excOfCode (n : Nat) : PyExc := excCodes.getD n .KeyError

/-- marker code point outside Unicode: "the table has no entry for this query" -/
def missingMark : Nat := 0x110001

def pairs : List (List Nat) → List (List Nat × List Nat)
  | k :: v :: r => (k, v) :: pairs r
  | _ => []

def lookupExc (t : List (List Nat × List Nat)) (k : List Nat) : Except PyExc (List Nat) :=
  match t.lookup k with
  | some (0 :: v) => .ok v
  | some [1, code] => .error (excOfCode code)
  | _ => .error .KeyError

def lookupPure (t : List (List Nat × List Nat)) (k : List Nat) : List Nat :=
  match t.lookup k with
  | some v => v
  | none => k ++ [missingMark]

/-- a stateless codec given by its per-character table; ASCII maps to itself -/
def tableEnc (t : List (List Nat × List Nat)) : Str → Except PyExc Bytes :=
  encodeBy (fun c => if c < 128 then .ok [c] else lookupExc t [c])

/-- the logged stdlib joins: key = base ++ [sep] ++ url ++ [sep, af] -/
def joinTable (t : List (List Nat × List Nat)) (af : Bool) (base url : Str) : Except PyExc Str :=
  lookupExc t (base ++ [missingMark] ++ url ++ [missingMark, if af then 1 else 0])

def decDs (s : String) : Option (Option Str) :=
  if s == "None" then some none
  else if s.startsWith "=" then (decList? (s.drop 1).toString).map some
  else none

def mkCfg (ds enc lowerT idnaT ipv6T unqT encT : String) : Option Cfg := do
  let ds ← decDs ds
  let lowerT ← decLists? lowerT
  let idnaT ← decLists? idnaT
  let ipv6T ← decLists? ipv6T
  let unqT ← decLists? unqT
  let encT ← decLists? encT
  let encode ←
    if enc == "utf8" then some utf8Enc
    else if enc == "latin1" then some latin1Enc
    else if enc == "ascii" then some asciiEnc
    else if enc == "table" then some (tableEnc (pairs encT))
    else none
  pure { defaultScheme := ds, encode := encode,
         lowerNA := lookupPure (pairs lowerT),
         idnaNA := lookupExc (pairs idnaT),
         ipv6 := lookupExc (pairs ipv6T),
         unquote := lookupPure (pairs unqT) }

def encOptBool (o : Option Bool) : String :=
  match o with
  | none => "None"
  | some b => encBool b

def encRes (r : Except PyExc Str) : String :=
  match r with
  | .ok s => "=" ++ encList s
  | .error e => "!" ++ e.name

def encQm (m : List (Str × List Str)) : String :=
  if m.isEmpty then "~"
  else ";".intercalate (m.map (fun kv => ",".intercalate ((kv.1 :: kv.2).map encList)))

def encInfo (i : URLInfo) : String :=
  " ".intercalate [
    "ok", encList i.raw, encOpt i.scheme, encOpt i.authority, encOpt i.path, encOpt i.query,
    encOpt i.fragment, encOpt i.userinfo, encOpt i.username, encOpt i.password, encOpt i.host,
    encOpt i.hostname, encOptNat i.port, encOpt i.resource,
    "U", encRes i.url,
    "Q", (match i.queryMap with
          | .ok m => encQm m
          | .error e => "!" ++ e.name),
    "H", encRes i.hostnameWithPort,
    "V6", encOptBool i.isIPv6,
    "PD", encOptBool i.isPortDefault,
    "SP", (match i.splitPath with
           | .ok (a, b) => encList a ++ " " ++ encList b
           | .error e => "!" ++ e.name)]

def setOfName (s : String) : Option (List Nat) :=
  if s == "default" then some defaultSet
  else if s == "password" then some passwordSet
  else if s == "username" then some usernameSet
  else if s == "query" then some querySet
  else if s == "fragment" then some fragmentSet
  else none

def handle : List String → String
  | ["parse", ds, enc, u, lowerT, idnaT, ipv6T, unqT, encT] =>
    match mkCfg ds enc lowerT idnaT ipv6T unqT encT, decList? u with
    | some c, some u =>
      match parse c u with
      | .ok i => encInfo i
      | .error e => "exc " ++ e.name
    | _, _ => "bad-arg"
  | ["extra", ds, enc, u, lowerT, idnaT, ipv6T, unqT, encT] =>
    -- the start URL is parsed with (ds, enc); the derived texts with the defaults of parse_url_or_log
    match mkCfg ds enc lowerT idnaT ipv6T unqT encT, mkCfg "=68.74.74.70" "utf8" lowerT idnaT ipv6T unqT encT, decList? u with
    | some c, some c', some u =>
      match parse c u with
      | .error e => "exc " ++ e.name
      | .ok i =>
        match extraUrls c' i with
        | .ok l => "ok " ++ encLists l
        | .error e => "exc " ++ e.name
    | _, _, _ => "bad-arg"
  | ["rewrite", ds, enc, u, lowerT, idnaT, ipv6T, unqT, encT] =>
    match mkCfg ds enc lowerT idnaT ipv6T unqT encT, mkCfg "=68.74.74.70" "utf8" lowerT idnaT ipv6T unqT encT, decList? u with
    | some c, some c', some u =>
      match parse c u with
      | .error e => "exc " ++ e.name
      | .ok i =>
        match rewriteEscaped c' i with
        | .ok j => "ok " ++ encRes j.url
        | .error e => "exc " ++ e.name
    | _, _, _ => "bad-arg"
  | ["orlog", ds, enc, u, lowerT, idnaT, ipv6T, unqT, encT] =>
    match mkCfg ds enc lowerT idnaT ipv6T unqT encT, decList? u with
    | some c, some u =>
      match parseOrLog c u with
      | .ok (some i) => "some " ++ encRes i.url
      | .ok none => "none"
      | .error e => "exc " ++ e.name
    | _, _ => "bad-arg"
  | ["join", af, base, u, joinT] =>
    match decList? base, decList? u, decLists? joinT with
    | some base, some u, some t =>
      match urljoinSafe (joinTable (pairs t)) (af == "T") base u with
      | .ok (some r) => "some " ++ encList r
      | .ok none => "none"
      | .error e => "exc " ++ e.name
    | _, _, _ => "bad-arg"
  | ["htmljoin", page, hrefs, codebase, link, joinT] =>
    -- hrefs: list of <base href> values; codebase: None | =<str>
    match decList? page, decLists? hrefs, decDs codebase, decList? link, decLists? joinT with
    | some page, some hrefs, some cb, some link, some t =>
      let sj := joinTable (pairs t)
      match docBase sj page hrefs none with
      | .error e => "exc " ++ e.name
      | .ok doc =>
        match elementBase sj page doc cb with
        | .error e => "exc " ++ e.name
        | .ok b =>
          match joinOnBase sj b link with
          | .ok (some r) => "base " ++ encOpt b ++ " some " ++ encList r
          | .ok none => "base " ++ encOpt b ++ " none"
          | .error e => "base " ++ encOpt b ++ " exc " ++ e.name
    | _, _, _, _, _ => "bad-arg"
  | ["int", base, t] =>
    match base.toNat?, decList? t with
    | some b, some t =>
      match pyInt b t with
      | .ok v => "ok " ++ (if v < 0 then "-" else "") ++ toHex v.natAbs
      | .error e => "exc " ++ e.name
    | _, _ => "bad-arg"
  | ["ipv4", t] =>
    match decList? t with
    | some t =>
      match normalizeIpv4 t with
      | .ok v => "ok " ++ encList v
      | .error e => "exc " ++ (if e.isa .ValueError then "ValueError" else e.name)
    | none => "bad-arg"
  | ["flatten", fs, p] =>
    match decList? p with
    | some p => encList (flattenPath (fs == "T") p)
    | none => "bad-arg"
  | ["upper", t] =>
    match decList? t with
    | some t => encList (upperPct t)
    | none => "bad-arg"
  | ["strip", t] =>
    match decList? t with
    | some t => encList (strip t)
    | none => "bad-arg"
  | ["pct", set, b] =>
    match setOfName set, decList? b with
    | some s, some b => encList (pctBytes s b)
    | _, _ => "bad-arg"
  | ["consts"] =>
    " ".intercalate [
      "ports", ";".intercalate (schemePorts.map (fun p => encList p.1 ++ ":" ++ toString p.2)),
      "default", encList defaultSet, "password", encList passwordSet, "username", encList usernameSet,
      "query", encList querySet, "fragment", encList fragmentSet, "forbidden", encList forbiddenHost]
  | ["unidb"] =>
    let all := List.range 0x110000
    "space " ++ encList (all.filter isPySpace) ++ " decimal " ++
      encList (all.filterMap (fun c => (pyDecimal c).map (fun d => c * 16 + d)))
  | _ => "bad-op"

end Wpull.Url
