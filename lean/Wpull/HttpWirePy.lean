/-
Python primitives used by the HTTP wire code (`wpull/protocol/http/*.py`,
`wpull/namevalue.py`), restricted to what that code applies them to:
header text is `bytes.decode('latin-1')`, so every code point is < 256.

* `str.strip`, `bytes.strip`, `str.splitlines`, `str.title`, `str.lower` (ASCII result test),
* `int(str)` (base 10, sign, single underscores, the 4300-digit limit of CPython ≥ 3.11),
* `int(bytes, 16)` (sign, `0x` prefix, underscores),
* the status-line regular expression of `Response.parse_status_line`.
Each is tied to the running interpreter by the `py` differential stream of the engine.
-/
import Wpull.Py.Basic
namespace Wpull.HttpWire
open Wpull

/-- `str.isspace()` for code points < 256 -/
def isStrSpace (c : Nat) : Bool :=
  (9 ≤ c && c ≤ 13) || (28 ≤ c && c ≤ 32) || c == 0x85 || c == 0xa0

/-- `bytes.isspace()` / C `isspace` -/
def isBytesSpace (c : Nat) : Bool := (9 ≤ c && c ≤ 13) || c == 32

def stripWith (p : Nat → Bool) (s : List Nat) : List Nat :=
  ((s.dropWhile p).reverse.dropWhile p).reverse

/-- `str.strip()` -/
def strStrip : Str → Str := stripWith isStrSpace
/-- `bytes.strip()` -/
def bytesStrip : Bytes → Bytes := stripWith isBytesSpace

/-- `str.splitlines()` on latin-1 text: separators `\n \r \r\n \x0b \x0c \x1c \x1d \x1e \x85`. -/
def isLineSep (c : Nat) : Bool :=
  c == 10 || c == 11 || c == 12 || c == 13 || c == 0x1c || c == 0x1d || c == 0x1e || c == 0x85

def strSplitlines : Str → List Str :=
  go []
where
  go (cur : Str) : Str → List Str
    | [] => if cur.isEmpty then [] else [cur.reverse]
    | 13 :: 10 :: t => cur.reverse :: go [] t
    | c :: t => if isLineSep c then cur.reverse :: go [] t else go (c :: cur) t

/-! ### case mapping of code points < 256 (Unicode 15, as CPython 3.12) -/

/-- `_PyUnicode_IsCased` -/
def isCased (c : Nat) : Bool :=
  isAsciiUpper c || isAsciiLower c || c == 170 || c == 181 || c == 186 ||
  (192 ≤ c && c ≤ 255 && c != 215 && c != 247)

/-- full title-case mapping of one code point -/
def titleCh (c : Nat) : Str :=
  if isAsciiLower c then [c - 32]
  else if c == 181 then [924]
  else if c == 223 then [83, 115]
  else if c == 255 then [376]
  else if 224 ≤ c && c ≤ 254 && c != 247 then [c - 32]
  else [c]

/-- full lower-case mapping of one code point -/
def lowerCh (c : Nat) : Str :=
  if isAsciiUpper c then [c + 32]
  else if 192 ≤ c && c ≤ 222 && c != 215 then [c + 32]
  else [c]

/-- `str.title()` -/
def pyTitle : Str → Str :=
  go false
where
  go (prevCased : Bool) : Str → Str
    | [] => []
    | c :: t => (if prevCased then lowerCh c else titleCh c) ++ go (isCased c) t

/-- `str.lower()` -/
def pyLower (s : Str) : Str := s.flatMap lowerCh

/-! ### integers -/

/-- digits with single underscores between them: `(value, number of digits)`.
`afterDigit = true` initially allows one leading underscore (after a `0x` prefix). -/
def digitsGo (base : Nat) (dv : Nat → Option Nat) : Nat → Nat → Bool → List Nat → Option (Nat × Nat)
  | acc, n, ad, [] => if ad && n > 0 then some (acc, n) else none
  | acc, n, ad, c :: t =>
    if c == 95 then (if ad then digitsGo base dv acc n false t else none)
    else match dv c with
      | some d => digitsGo base dv (acc * base + d) (n + 1) true t
      | none => none

def decDigit (c : Nat) : Option Nat := if isAsciiDigit c then some (c - 48) else none
def hexDigit (c : Nat) : Option Nat := if isHexDigit c then some (hexVal c) else none

/-- whitespace `int(str)` strips (non-ASCII spaces are first mapped to `' '`) -/
def isIntSpace (c : Nat) : Bool := isBytesSpace c || c == 0x85 || c == 0xa0

/-- split an optional sign: `(negative, rest)` -/
def splitSign : List Nat → Bool × List Nat
  | 43 :: t => (false, t)
  | 45 :: t => (true, t)
  | s => (false, s)

/-- `int(s)` for a latin-1 `str`, as far as the caller needs it: `none` = `ValueError`,
`some (neg, n)` = the value `±n`. -/
def pyIntDec (s : Str) : Option (Bool × Nat) :=
  let (neg, r) := splitSign (stripWith isIntSpace s)
  match digitsGo 10 decDigit 0 0 false r with
  | some (v, n) => if n > 4300 then none else some (neg, v)
  | none => none

/-- `int(b, 16)` for `bytes` -/
def pyIntHex (b : Bytes) : Option (Bool × Nat) :=
  let (neg, r) := splitSign (stripWith isBytesSpace b)
  let r' : List Nat × Bool :=
    match r with
    | 48 :: 120 :: t => (t, true)
    | 48 :: 88 :: t => (t, true)
    | _ => (r, false)
  match digitsGo 16 hexDigit 0 0 r'.2 r'.1 with
  | some (v, _) => some (neg, v)
  | none => none

/-- `body_size = int(v); if body_size < 0: raise ValueError` -/
def contentLength? (v : Str) : Option Nat :=
  match pyIntDec v with
  | some (neg, n) => if neg && n > 0 then none else some n
  | none => none

/-- `b.split(b';', 1)[0]` -/
def beforeSemi : Bytes → Bytes
  | [] => []
  | c :: t => if c == 59 then [] else c :: beforeSemi t

/-- chunk size of a chunk-size line: `int(line.split(b';', 1)[0].strip(), 16)`, negative refused -/
def chunkSize? (line : Bytes) : Option Nat :=
  match pyIntHex (bytesStrip (beforeSemi line)) with
  | some (neg, n) => if neg && n > 0 then none else some n
  | none => none

/-! ### status line -/

def takeDigits : List Nat → List Nat × List Nat
  | [] => ([], [])
  | c :: t => if isAsciiDigit c then let (d, r) := takeDigits t; (c :: d, r) else ([], c :: t)

def isSpTab (c : Nat) : Bool := c == 32 || c == 9

def digitsVal (d : List Nat) : Nat := d.foldl (fun a c => a * 10 + (c - 48)) 0

structure Status where
  version : Str
  code : Nat
  reason : Str
  deriving DecidableEq, Repr

/-- `re.match(br'(HTTP/\d+\.\d+)[ \t]+([0-9]{1,3})[ \t]*([^\r\n]*)', line)` -/
def parseStatusLine (line : Bytes) : Option Status :=
  if !startsWith line (lit "HTTP/") then none else
  let (d1, r1) := takeDigits (line.drop 5)
  if d1.isEmpty then none else
  match r1 with
  | 46 :: r2 =>
    let (d2, r3) := takeDigits r2
    if d2.isEmpty then none else
    let r4 := r3.dropWhile isSpTab
    if r4.length == r3.length then none else
    let (dc, _) := takeDigits r4
    if dc.isEmpty then none else
    let code := dc.take 3
    let r5 := (r4.drop code.length).dropWhile isSpTab
    some { version := lit "HTTP/" ++ d1 ++ [46] ++ d2, code := digitsVal code,
           reason := r5.takeWhile (fun c => c != 13 && c != 10) }
  | _ => none

end Wpull.HttpWire
