import Wpull.Pool
import Wpull.Proto
/-!
Driver of the `Pool` model (engine word `pool`).
  `pool run <M> <maxCount> <nkeys> <programs> <schedule>`
programs: clients separated by `/`, rounds by `.`, a round is `key,close,direct` (`-` = no round);
schedule: decisions separated by `/`: `s<t>[:p<r>,<r>…][:g<k>-<n>]`, `r<j>`, `x<t>`, `q<k>-<n>`.
Reply: the rendered state after every decision, separated by `#` (`ILLEGAL` where the model
refuses the logged decision).
-/
namespace Wpull.Pool

def insSorted (x : Nat) : List Nat → List Nat
  | [] => [x]
  | y :: ys => if x ≤ y then x :: y :: ys else y :: insSorted x ys

def sortNat (l : List Nat) : List Nat := l.foldr insSorted []

def dots (l : List String) : String := if l.isEmpty then "-" else ".".intercalate l

def renderHost (s : St) (k : Nat) : String :=
  let h := s.host k
  let cond := h.cond.map (fun e => toString e.1 ++ (if e.2 then "!" else if s.creq e.1 then "~" else ""))
  s!"{k}:{dots ((sortNat h.ready).map toString)}:{dots ((sortNat h.busy).map toString)}:{dots cond}:{h.waiters}:U0"

def pcStatus : PC → String
  | .done => "F"
  | .cancelled => "X"
  | _ => "P"

def render (s : St) : String :=
  let hosts := s.present.map (renderHost s)
  let H := if hosts.isEmpty then "-" else "/".intercalate hosts
  let T := String.join ((List.range s.nclients).map (fun t => pcStatus (s.pc t)))
  let R := if s.nrels == 0 then "-" else String.join ((List.range s.nrels).map (fun r => if s.relDone r then "F" else "P"))
  let S := dots ((sortNat s.pending).map toString)
  let conns := (List.range s.nkeys).flatMap (fun k =>
    (List.range (s.host k).next).map (fun n => s!"{k}-{n}" ++ (if s.closed k n then "c" else "o")))
  let E := ((List.range s.nclients).filter (clientEnabled s)).map (fun t => s!"s{t}") ++
           ((List.range s.nrels).filter (relEnabled s)).map (fun r => s!"r{r}")
  let err := if s.err then "|ERR" else ""
  ",".intercalate s.evs ++ s!";H={H}|P=U0|T={T}|R={R}|S={S}|C={dots conns}|E={dots E}" ++ err

def parseRound (tok : String) : Option Round :=
  match tok.splitOn "," with
  | [k, c, d] => do
    let k ← k.toNat?
    some { key := k, close := c == "1", direct := d == "1" }
  | _ => none

def parseProgram (tok : String) : Option (List Round) :=
  if tok == "-" then some [] else (tok.splitOn ".").mapM parseRound

def parseConn (tok : String) : Option (Nat × Nat) :=
  match tok.splitOn "-" with
  | [k, n] => do some ((← k.toNat?), (← n.toNat?))
  | _ => none

def parseAct (tok : String) : Option Act :=
  match tok.splitOn ":" with
  | [] => none
  | head :: opts =>
    let kind := (head.take 1).toString
    let arg := (head.drop 1).toString
    if kind == "s" then do
      let t ← arg.toNat?
      let mut pops : List Nat := []
      let mut g : Option Nat := none
      for o in opts do
        if (o.take 1).toString == "p" then
          pops ← ((o.drop 1).toString.splitOn ",").mapM String.toNat?
        else if (o.take 1).toString == "g" then
          let c ← parseConn (o.drop 1).toString
          g := some c.2
        else none
      some (.client t pops g)
    else if kind == "r" then do some (.rel (← arg.toNat?))
    else if kind == "x" then do some (.cancel (← arg.toNat?))
    else if kind == "q" then do
      let c ← parseConn arg
      some (.rclose c.1 c.2)
    else none

def runRender (s : St) : List Act → List String
  | [] => []
  | a :: rest =>
    match step s a with
    | some s' => render s' :: runRender s' rest
    | none => ["ILLEGAL"]

def handle : List String → String
  | ["run", m, mc, nk, progs, sch] =>
    match m.toNat?, mc.toNat?, nk.toNat?, (progs.splitOn "/").mapM parseProgram,
          (if sch == "-" then some [] else (sch.splitOn "/").mapM parseAct) with
    | some m, some mc, some nk, some progs, some acts =>
      let s0 := init m mc nk progs
      "ok " ++ "#".intercalate (render s0 :: runRender s0 acts)
    | _, _, _, _, _ => "bad-arg"
  | _ => "bad-op"

end Wpull.Pool
