/-
Model of the FTP control-connection code that property C17 is anchored in:

* `wpull/protocol/ftp/request.py`  `Command.to_bytes`, `Reply.parse`
* `wpull/protocol/ftp/stream.py`   `ControlStream.read_reply`, `DataStream.read_file`
* `wpull/protocol/ftp/command.py`  `Commander.read_stream`
* asyncio `StreamReader.readline` (mirrored: a line is cut at the first LF of the
  *concatenated* stream, EOF returns what is left, a line longer than the
  64 KiB limit raises ValueError)

Strings are lists of code points, byte strings lists of naturals < 256.
-/
import Wpull.Py.Basic
namespace Wpull.Ftp
open Wpull

/-- `chr(c).encode('utf-8', errors='surrogateescape')` -/
def utf8SE1 (c : Nat) : Except PyExc Bytes :=
  if c < 0x80 then .ok [c]
  else if c < 0x800 then .ok [0xC0 + c / 64, 0x80 + c % 64]
  else if 0xDC80 ≤ c ∧ c ≤ 0xDCFF then .ok [c - 0xDC00]
  else if 0xD800 ≤ c ∧ c ≤ 0xDFFF then .error .UnicodeEncodeError
  else if c < 0x10000 then .ok [0xE0 + c / 4096, 0x80 + c / 64 % 64, 0x80 + c % 64]
  else .ok [0xF0 + c / 262144 % 8, 0x80 + c / 4096 % 64, 0x80 + c / 64 % 64, 0x80 + c % 64]

/-- `s.encode('utf-8', errors='surrogateescape')` -/
def utf8SE : Str → Except PyExc Bytes
  | [] => .ok []
  | c :: t =>
    match utf8SE1 c with
    | .error e => .error e
    | .ok a =>
      match utf8SE t with
      | .error e => .error e
      | .ok b => .ok (a ++ b)

/-- `Command.to_bytes()`.  `name` is the stored (already upper-cased) command
name, `arg` the argument.  A line break inside the command is refused with
`ProtocolError` (the repaired code; see KNOWN_FINDINGS.txt, `fixed:` C17). -/
def commandToBytes (name arg : Str) : Except PyExc Bytes :=
  let line := name ++ [32] ++ arg
  if line.contains 13 || line.contains 10 then .error .ProtocolError
  else utf8SE (line ++ [13, 10])

/-! ### asyncio.StreamReader.readline over a segmented stream -/

/-- index of the first LF -/
def findLF : Bytes → Option Nat
  | [] => none
  | c :: t => if c = 10 then some 0 else (findLF t).map (· + 1)

/-- Spec-level `readline` on the concatenated stream: the line (including its
LF; or everything when there is no LF before EOF) and the rest. -/
def splitLF (b : Bytes) : Bytes × Bytes :=
  match findLF b with
  | some i => (b.take (i + 1), b.drop (i + 1))
  | none => (b, [])

/-- Operational `readline`: the peer's bytes arrive as segments; the reader
accumulates segments until one contains an LF, or EOF. -/
def readlineSegs : Bytes → List Bytes → Bytes × List Bytes
  | acc, [] => (acc, [])
  | acc, s :: rest =>
    match findLF s with
    | some i => (acc ++ s.take (i + 1), s.drop (i + 1) :: rest)
    | none => readlineSegs (acc ++ s) rest

/-- The 64 KiB `StreamReader` limit: the part before the LF must not exceed it. -/
def lineLimit : Nat := 65536

def lineTooLong (line : Bytes) : Bool :=
  (if line.getLast? = some 10 then line.length - 1 else line.length) > lineLimit

/-! ### Reply.parse -/

structure Reply where
  code : Option Nat
  /-- text kept as UTF-8 bytes (the code decodes with surrogateescape, which is a
  bijection onto its image; the harness re-encodes before comparing) -/
  text : Option Bytes
  deriving Repr, DecidableEq

/-- `bytes.splitlines(False)`: split at `\n`, `\r`, `\r\n`. -/
def splitlinesB : Bytes → List Bytes :=
  go []
where
  go (cur : Bytes) : Bytes → List Bytes
    | [] => if cur.isEmpty then [] else [cur.reverse]
    | 13 :: 10 :: t => cur.reverse :: go [] t
    | 13 :: t => cur.reverse :: go [] t
    | 10 :: t => cur.reverse :: go [] t
    | c :: t => go (c :: cur) t

/-- value of three ASCII digits -/
def digits3? : Bytes → Option (Nat × Bytes)
  | a :: b :: c :: t =>
    if isAsciiDigit a && isAsciiDigit b && isAsciiDigit c
    then some ((a - 48) * 100 + (b - 48) * 10 + (c - 48), t) else none
  | _ => none

/-- One line through `re.match(br'(\d{3}|^)([ -]?)(.*)', line)` and the body of
the `for` loop of `Reply.parse`. -/
def parseLine (r : Reply) (line : Bytes) : Except PyExc Reply :=
  let (g1, rest1) : Option Nat × Bytes :=
    match digits3? line with
    | some (n, t) => (some n, t)
    | none => (none, line)
  let (g2, g3) : Nat × Bytes :=
    match rest1 with
    | 32 :: t => (32, t)
    | 45 :: t => (45, t)
    | _ => (0, rest1)
  let setsCode := g1.isSome && g2 == 32
  if setsCode && r.code.isSome then .error .ProtocolError
  else
    let code := if setsCode then g1 else r.code
    let text := match r.text with
      | none => g3
      | some t => t ++ [13, 10] ++ g3
    .ok { code := code, text := some text }

/-- `Reply.parse(data)` -/
def parseData (r : Reply) (data : Bytes) : Except PyExc Reply :=
  (splitlinesB data).foldlM parseLine r

/-! ### ControlStream.read_reply, generic in the connection representation -/

inductive ReplyResult (S : Type) where
  | ok (r : Reply) (rest : S) (notified : List Bytes)
  | err (e : PyExc)
  | fuel
  deriving DecidableEq

/-- `read_reply`: `rl` is the connection's `readline`. `notified` collects the
lines handed to the read listeners (what a WARC record of the control
conversation holds). -/
def readReplyLoop {S : Type} (rl : S → Bytes × S) : Nat → Reply → List Bytes → S → ReplyResult S
  | 0, _, _, _ => .fuel
  | n + 1, r, seen, s =>
    let (line, s') := rl s
    if lineTooLong line then .err .ProtocolError
    else if line.getLast? ≠ some 10 then .err .NetworkError
    else
      match parseData r line with
      | .error e => .err e
      | .ok r' =>
        if r'.code.isSome then .ok r' s' (seen ++ [line])
        else readReplyLoop rl n r' (seen ++ [line]) s'

/-- over the segmented stream (what the code does) -/
def readReplySegs (fuel : Nat) (segs : List Bytes) : ReplyResult (List Bytes) :=
  readReplyLoop (readlineSegs []) fuel ⟨none, none⟩ [] segs

/-- over the concatenated stream (the specification: no notion of segments) -/
def readReplyFlat (fuel : Nat) (b : Bytes) : ReplyResult Bytes :=
  readReplyLoop splitLF fuel ⟨none, none⟩ [] b

/-! ### DataStream.read_file + Commander.read_stream -/

/-- successive results of `read(n)` on a buffer holding `b` (fuel = length) -/
def chunksAux (n : Nat) : Nat → Bytes → List Bytes
  | 0, _ => []
  | f + 1, b => if n = 0 ∨ b = [] then [] else b.take n :: chunksAux n f (b.drop n)

def chunks (n : Nat) (b : Bytes) : List Bytes := chunksAux n b.length b

/-- how the data connection ends, as the client's reads see it -/
inductive DataEnd
  /-- orderly close by the server: `read` returns `b''` -/
  | closed
  /-- never closed: `read` blocks (a timeout in reality) -/
  | stillOpen
  /-- connection reset / any socket error: `read` raises, `Connection.read` turns it into `NetworkError` -/
  | reset
  deriving DecidableEq, Repr

inductive TransferResult where
  /-- body written to the file, closing reply -/
  | complete (body : Bytes) (reply : Reply)
  /-- data connection never closed: `read` blocks (a timeout in reality) -/
  | stalled
  | err (e : PyExc)
  deriving Repr, DecidableEq

/-- `Commander.read_stream`: read the data connection to EOF, *then* read the
closing reply on the control connection and require code 226. -/
def readStream (dataSegs : List Bytes) (dataEnd : DataEnd) (fuel : Nat) (ctrl : List Bytes) : TransferResult :=
  match dataEnd with
  | .stillOpen => .stalled
  | .reset => .err .NetworkError
  | .closed =>
    let body := (dataSegs.flatMap (chunks 4096)).flatten
    match readReplySegs fuel ctrl with
    | .err e => .err e
    | .fuel => .err .RecursionError
    | .ok r _ _ => if r.code = some 226 then .complete body r else .err .FTPServerError

end Wpull.Ftp

namespace Wpull.Ftp

/-! ## Several fetches on one client: what a session leaves behind on the control connection -/

/-- how the `with client.session()` block of a fetch is left -/
inductive Exit
  /-- no exception: `BaseSession.__exit__` recycles the session -/
  | normal
  /-- an exception (network error, timeout, listener failure, the processor's hook break, cancellation):
  `BaseSession.__exit__` aborts the session first -/
  | raised
  deriving DecidableEq, Repr

/-- one fetch as its control connection sees it: the replies the server sends for the commands of this fetch
(ids, in order), how many replies the session had read when it left, and how it left -/
structure Fetch where
  replies : List Nat
  read : Nat
  exit : Exit
  deriving Repr

/-- `BaseSession.__exit__` + ftp `Session.abort` / `recycle`: an exception closes the control connection (what the
server still sends on it is never seen by anyone); a normal exit returns it to the pool together with whatever
is unread on it -/
def leave (wire : List Nat) (f : Fetch) : Option (List Nat) :=
  match f.exit with
  | .raised => none
  | .normal => some (wire.drop f.read)

/-- the fetches of one client, one after the other: a pooled control connection is reused, so a session reads
what is unread on it before its own replies.  Per fetch: did it open a fresh connection, and which replies did
it read -/
def runFetches : Option (List Nat) → List Fetch → List (Bool × List Nat)
  | _, [] => []
  | pooled, f :: fs =>
    let wire := pooled.getD [] ++ f.replies
    (pooled.isNone, wire.take f.read) :: runFetches (leave wire f) fs

/-- a session that is left without an exception has read the reply to every command it sent (the transfer's closing
reply included): every earlier way out of a fetch is an exception -/
def Fetch.Settled (f : Fetch) : Prop := f.exit = .normal → f.replies.length ≤ f.read

end Wpull.Ftp

namespace Wpull.Ftp

/-! ## The address of a PASV reply -/

/-- `wpull.protocol.ftp.util.parse_address` after the regular expression has found six groups of one to three
digits: numbers above 255 are no address (`ValueError`, which the commander turns into a protocol error);
otherwise the dotted host and the port `p1 * 256 + p2` -/
def parseAddress : List Nat → Except PyExc (List Nat × Nat)
  | [h1, h2, h3, h4, p1, p2] =>
    if [h1, h2, h3, h4, p1, p2].any (· > 255) then .error .ValueError
    else .ok ([h1, h2, h3, h4], p1 <<< 8 ||| p2)
  | _ => .error .ValueError

end Wpull.Ftp
