/-
Python `str` / `int()` / codec primitives used by the URL engine (C10, C11).
Additions only; `Wpull/Py/Basic.lean` is shared.

* `isPySpace`      – `str.isspace()` per character (the 29 code points of the
                     running interpreter; re-checked against it on every run by
                     the `url consts` stream)
* `strip`          – `str.strip()`
* `pyInt`          – CPython's `int(text, base)` grammar: Unicode spaces and
                     decimal digits are mapped to ASCII first, then
                     `[space]* [+-]? (0x|0o|0b)? _? digit (_? digit)* [space]*`,
                     with the 4300-digit limit for bases that are no power of two
* `utf8Enc`, `latin1Enc`, `asciiEnc` – strict encoders (lone surrogate ⇒
                     `UnicodeEncodeError`)
-/
import Wpull.Py.Basic
namespace Wpull

/-- `chr(c).isspace()` -/
def isPySpace (c : Nat) : Bool :=
  (9 ≤ c && c ≤ 13) || (28 ≤ c && c ≤ 32) || c == 0x85 || c == 0xA0 || c == 0x1680 ||
  (0x2000 ≤ c && c ≤ 0x200A) || c == 0x2028 || c == 0x2029 || c == 0x202F || c == 0x205F ||
  c == 0x3000

def lstrip (s : Str) : Str := s.dropWhile isPySpace
def rstrip (s : Str) : Str := (s.reverse.dropWhile isPySpace).reverse
/-- `s.strip()` -/
def strip (s : Str) : Str := rstrip (lstrip s)

/-- `s[a:b]` for non-negative `a`, `b` -/
def pySlice (s : List Nat) (a b : Nat) : List Nat := (s.take b).drop a

/-- `s.endswith(p)` -/
def endsWith (s p : List Nat) : Bool := startsWith s.reverse p.reverse

/-- `s.find(c)` for one character -/
def findChar (c : Nat) : List Nat → Option Nat
  | [] => none
  | x :: t => if x == c then some 0 else (findChar c t).map (· + 1)

/-- `s.partition(c)` for one character: (before, found, after); not found = (s, false, []) -/
def partition1 (c : Nat) : List Nat → List Nat × Bool × List Nat
  | [] => ([], false, [])
  | x :: t =>
    if x == c then ([], true, t)
    else
      let r := partition1 c t
      (x :: r.1, r.2.1, r.2.2)

/-- `s.rpartition(c)` for one character: (before, found, after); not found = ([], false, s) -/
def rpartition1 (c : Nat) (s : List Nat) : List Nat × Bool × List Nat :=
  let r := partition1 c s.reverse
  if r.2.1 then (r.2.2.reverse, true, r.1.reverse) else ([], false, s)

/-- `s.split(c)` for one character (structural; never empty) -/
def splitC (c : Nat) : List Nat → List (List Nat)
  | [] => [[]]
  | x :: t =>
    if x == c then [] :: splitC c t
    else
      match splitC c t with
      | h :: r => (x :: h) :: r
      | [] => [[x]]

/-- `s.replace(chr(a), chr(b))` -/
def replace1 (a b : Nat) (s : List Nat) : List Nat := s.map (fun c => if c == a then b else c)

/-! ### `int(text, base)` -/

/-- first code points of the 68 runs of ten `Nd` characters (Unicode 15.0, Python 3.12) -/
def decimalZeros : List Nat := [
  0x30, 0x660, 0x6f0, 0x7c0, 0x966, 0x9e6, 0xa66, 0xae6, 0xb66, 0xbe6, 0xc66, 0xce6, 0xd66, 0xde6,
  0xe50, 0xed0, 0xf20, 0x1040, 0x1090, 0x17e0, 0x1810, 0x1946, 0x19d0, 0x1a80, 0x1a90, 0x1b50,
  0x1bb0, 0x1c40, 0x1c50, 0xa620, 0xa8d0, 0xa900, 0xa9d0, 0xa9f0, 0xaa50, 0xabf0, 0xff10, 0x104a0,
  0x10d30, 0x11066, 0x110f0, 0x11136, 0x111d0, 0x112f0, 0x11450, 0x114d0, 0x11650, 0x116c0, 0x11730,
  0x118e0, 0x11950, 0x11c50, 0x11d50, 0x11da0, 0x11f50, 0x16a60, 0x16ac0, 0x16b50, 0x1d7ce, 0x1d7d8,
  0x1d7e2, 0x1d7ec, 0x1d7f6, 0x1e140, 0x1e2f0, 0x1e4f0, 0x1e950, 0x1fbf0]

/-- `Py_UNICODE_TODECIMAL` -/
def pyDecimal (c : Nat) : Option Nat :=
  (decimalZeros.find? (fun z => z ≤ c && c < z + 10)).map (fun z => c - z)

/-- `_PyUnicode_TransformDecimalAndSpaceToASCII`: anything else becomes `?` and ends the text -/
def asciify : Str → List Nat
  | [] => []
  | c :: t =>
    if c < 127 then c :: asciify t
    else if isPySpace c then 32 :: asciify t
    else
      match pyDecimal c with
      | some d => (48 + d) :: asciify t
      | none => [63]

/-- `Py_ISSPACE` -/
def isCSpace (c : Nat) : Bool := c == 32 || (9 ≤ c && c ≤ 13)

/-- `_PyLong_DigitValue` (37 = not a digit) -/
def digitVal (c : Nat) : Nat :=
  if isAsciiDigit c then c - 48
  else if isAsciiLower c then c - 87
  else if isAsciiUpper c then c - 55
  else 37

/-- the digit/underscore run: (value, number of digits, rest) or `none` for `__` / trailing `_` -/
def intBody (base : Nat) : List Nat → Nat → Nat → Bool → Option (Nat × Nat × List Nat)
  | [], acc, n, pu => if pu then none else some (acc, n, [])
  | c :: t, acc, n, pu =>
    if c == 95 then (if pu then none else intBody base t acc n true)
    else if digitVal c < base then intBody base t (acc * base + digitVal c) (n + 1) false
    else if pu then none else some (acc, n, c :: t)

/-- `sys.get_int_max_str_digits()` default -/
def maxStrDigits : Nat := 4300

/-- `int(s, base)` for base ∈ {2, 8, 10, 16}; every failure is a `ValueError` -/
def pyInt (base : Nat) (s : Str) : Except PyExc Int :=
  let a := (asciify s).dropWhile isCSpace
  let (neg, a) : Bool × List Nat :=
    match a with
    | 43 :: t => (false, t)
    | 45 :: t => (true, t)
    | _ => (false, a)
  let a : List Nat :=
    match a with
    | 48 :: x :: t =>
      if (base == 16 && (x == 120 || x == 88)) || (base == 8 && (x == 111 || x == 79)) ||
         (base == 2 && (x == 98 || x == 66))
      then (match t with
            | 95 :: t' => t'
            | _ => t)
      else a
    | _ => a
  match a with
  | [] => .error .ValueError
  | c :: _ =>
    if c == 95 || !(digitVal c < base) then .error .ValueError
    else
      match intBody base a 0 0 false with
      | none => .error .ValueError
      | some (v, n, rest) =>
        if !(rest.dropWhile isCSpace).isEmpty then .error .ValueError
        else if base == 10 && n > maxStrDigits then .error .ValueError
        else .ok (if neg then -(Int.ofNat v) else Int.ofNat v)

/-! ### decimal output (`str(n)`, `'{}'.format(n)`) -/

def natDecAux : Nat → Nat → List Nat → List Nat
  | 0, _, acc => acc
  | f + 1, n, acc => if n < 10 then (48 + n) :: acc else natDecAux f (n / 10) ((48 + n % 10) :: acc)

/-- `str(n)` for a natural number -/
def natDec (n : Nat) : Str := natDecAux (n + 1) n []

/-! ### strict encoders -/

def utf8Enc1 (c : Nat) : Except PyExc Bytes :=
  if c < 0x80 then .ok [c]
  else if c < 0x800 then .ok [0xC0 + c / 64, 0x80 + c % 64]
  else if 0xD800 ≤ c ∧ c ≤ 0xDFFF then .error .UnicodeEncodeError
  else if c < 0x10000 then .ok [0xE0 + c / 4096, 0x80 + c / 64 % 64, 0x80 + c % 64]
  else .ok [0xF0 + c / 262144 % 8, 0x80 + c / 4096 % 64, 0x80 + c / 64 % 64, 0x80 + c % 64]

/-- encode character by character; the first failing character decides -/
def encodeBy (f : Nat → Except PyExc Bytes) : Str → Except PyExc Bytes
  | [] => .ok []
  | c :: t =>
    match f c with
    | .error e => .error e
    | .ok a =>
      match encodeBy f t with
      | .error e => .error e
      | .ok b => .ok (a ++ b)

/-- `s.encode('utf-8')` -/
def utf8Enc : Str → Except PyExc Bytes := encodeBy utf8Enc1
/-- `s.encode('latin-1')` -/
def latin1Enc : Str → Except PyExc Bytes :=
  encodeBy (fun c => if c < 256 then .ok [c] else .error .UnicodeEncodeError)
/-- `s.encode('ascii')` -/
def asciiEnc : Str → Except PyExc Bytes :=
  encodeBy (fun c => if c < 128 then .ok [c] else .error .UnicodeEncodeError)

end Wpull
