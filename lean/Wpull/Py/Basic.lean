/-
Python primitive semantics shared by all engines.
`Str` is a Python `str` as a list of code points (lone surrogates exist),
`Bytes` a Python `bytes` as a list of naturals < 256.
Core Lean only: no Mathlib import, so the driver links as a `lean_exe`.
-/
deriving instance DecidableEq for Except

namespace Wpull

abbrev Str := List Nat
abbrev Bytes := List Nat

/-- Literal helper: the code points of a Lean string. -/
def lit (s : String) : List Nat := s.toList.map Char.toNat

/-- The exception classes the modelled code can meet. -/
inductive PyExc
  | ValueError | UnicodeError | UnicodeEncodeError | UnicodeDecodeError | AddressValueError
  | ProtocolError | ServerError | AuthenticationError | FTPServerError
  | OSError | NetworkError | ConnectionRefused | DNSNotFound | NetworkTimedOut | SSLVerificationError
  | IndexError | KeyError | AttributeError | TypeError | AssertionError | RecursionError
  | OverflowError | ZlibError | ListingError | NotFound | CancelledError
  deriving DecidableEq, Repr, Inhabited

def PyExc.name : PyExc → String
  | .ValueError => "ValueError" | .UnicodeError => "UnicodeError"
  | .UnicodeEncodeError => "UnicodeEncodeError" | .UnicodeDecodeError => "UnicodeDecodeError"
  | .AddressValueError => "AddressValueError" | .ProtocolError => "ProtocolError"
  | .ServerError => "ServerError" | .AuthenticationError => "AuthenticationError"
  | .FTPServerError => "FTPServerError" | .OSError => "OSError" | .NetworkError => "NetworkError"
  | .ConnectionRefused => "ConnectionRefused" | .DNSNotFound => "DNSNotFound"
  | .NetworkTimedOut => "NetworkTimedOut" | .SSLVerificationError => "SSLVerificationError"
  | .IndexError => "IndexError" | .KeyError => "KeyError" | .AttributeError => "AttributeError"
  | .TypeError => "TypeError" | .AssertionError => "AssertionError"
  | .RecursionError => "RecursionError" | .OverflowError => "OverflowError"
  | .ZlibError => "ZlibError" | .ListingError => "ListingError" | .NotFound => "NotFound"
  | .CancelledError => "CancelledError"

/-- Direct superclass in Python / `wpull/errors.py` (`none` = a root for our purposes). -/
def PyExc.parent : PyExc → Option PyExc
  | .UnicodeError => some .ValueError
  | .UnicodeEncodeError => some .UnicodeError
  | .UnicodeDecodeError => some .UnicodeError
  | .AddressValueError => some .ValueError
  | .ProtocolError => some .ValueError
  | .ServerError => some .ValueError
  | .AuthenticationError => some .ServerError
  | .FTPServerError => some .ServerError
  | .NetworkError => some .OSError
  | .ConnectionRefused => some .NetworkError
  | .DNSNotFound => some .NetworkError
  | .NetworkTimedOut => some .NetworkError
  | .SSLVerificationError => some .OSError
  | .ListingError => some .ValueError
  | .NotFound => some .ValueError
  | _ => none

/-- `e.isa c`: `issubclass(e, c)` (the hierarchy has depth ≤ 3). -/
def PyExc.isa (e c : PyExc) : Bool :=
  e == c ||
  match e.parent with
  | none => false
  | some p => p == c ||
    match p.parent with
    | none => false
    | some q => q == c ||
      match q.parent with
      | none => false
      | some r => r == c

/-! ### list-level string primitives -/

/-- `s.startswith(p)` -/
def startsWith : List Nat → List Nat → Bool
  | _, [] => true
  | [], _ :: _ => false
  | a :: s, b :: p => a == b && startsWith s p

/-- `s.find(sep)`: index of first occurrence. -/
def findSub (s sep : List Nat) : Option Nat :=
  go s 0
where
  go : List Nat → Nat → Option Nat
    | [], i => if sep.isEmpty then some i else none
    | c :: t, i => if startsWith (c :: t) sep then some i else go t (i + 1)

/-- `s.partition(sep)` for non-empty `sep`. -/
def partition (s sep : List Nat) : List Nat × List Nat × List Nat :=
  match findSub s sep with
  | none => (s, [], [])
  | some i => (s.take i, sep, s.drop (i + sep.length))

/-- `sep.join(parts)` -/
def joinWith (sep : List Nat) : List (List Nat) → List Nat
  | [] => []
  | [a] => a
  | a :: rest => a ++ sep ++ joinWith sep rest

/-- `s.split(sep)` for a single-character separator. -/
def splitOn1 (s : List Nat) (sep : Nat) : List (List Nat) :=
  go s []
where
  go : List Nat → List Nat → List (List Nat)
    | [], acc => [acc.reverse]
    | c :: t, acc => if c == sep then acc.reverse :: go t [] else go t (c :: acc)

def isAsciiUpper (c : Nat) : Bool := 65 ≤ c && c ≤ 90
def isAsciiLower (c : Nat) : Bool := 97 ≤ c && c ≤ 122
def isAsciiDigit (c : Nat) : Bool := 48 ≤ c && c ≤ 57
def isHexDigit (c : Nat) : Bool :=
  isAsciiDigit c || (65 ≤ c && c ≤ 70) || (97 ≤ c && c ≤ 102)
def asciiLower (c : Nat) : Nat := if isAsciiUpper c then c + 32 else c
def asciiUpper (c : Nat) : Nat := if isAsciiLower c then c - 32 else c

def hexVal (c : Nat) : Nat :=
  if isAsciiDigit c then c - 48
  else if 65 ≤ c && c ≤ 70 then c - 55
  else if 97 ≤ c && c ≤ 102 then c - 87
  else 0

/-- upper-case hex digit character for a nibble -/
def hexChar (n : Nat) : Nat := if n < 10 then 48 + n else 55 + n

end Wpull
