import Wpull.Robots
import Wpull.RobotsParse
import Wpull.Proto
/-!
Driver of the robots model.

  robots match <ua> <target> <rulesets>            -> T | F
  robots gate  <ua> <items> <events>               -> ok <log> | reject <k> <reason>
  robots nofollow <T|F robots option> <elements>   -> link contexts kept, in document order (`~` none)
  robots parse <text>                              -> rulesets as stored after parsing (paths as written)

rulesets: `~` or `|`-separated `<names>:<rules>`; names `,`-separated hex lists;
rules `,`-separated `A=<hex list>` / `D=<hex list>` (`_` when a rule set has no rules).
items: `;`-separated `id,origin,target`.   events: `;`-separated
`b<i>` begin, `a<i>=B|S|N|R<rulesets>` robots answer, `q<i>` page request.
log entries: `r<origin>,<item>` robots request, `p<item>,<origin>` page request.
-/
namespace Wpull.Robots
open Wpull Wpull.Proto

def decRule? (s : String) : Option Rule :=
  match s.splitOn "=" with
  | ["A", p] => (decList? p).map (⟨true, ·⟩)
  | ["D", p] => (decList? p).map (⟨false, ·⟩)
  | _ => none

def decRuleSet? (s : String) : Option RuleSet :=
  match s.splitOn ":" with
  | [ns, rs] =>
    match (ns.splitOn ",").mapM decList?, (if rs == "_" then some [] else (rs.splitOn ",").mapM decRule?) with
    | some ns, some rs => some ⟨ns, rs⟩
    | _, _ => none
  | _ => none

def decRuleSets? (s : String) : Option (List RuleSet) :=
  if s == "~" then some [] else (s.splitOn "|").mapM decRuleSet?

def decItem? (s : String) : Option Item :=
  match s.splitOn "," with
  | [i, o, t] =>
    match i.toNat?, o.toNat?, decList? t with
    | some i, some o, some t => some ⟨i, o, t, .idle, none⟩
    | _, _, _ => none
  | _ => none

def decEv? (s : String) : Option Ev :=
  if s.startsWith "b" then (s.drop 1).toString.toNat?.map .begin
  else if s.startsWith "q" then (s.drop 1).toString.toNat?.map .request
  else if s.startsWith "a" then
    match (s.drop 1).toString.splitOn "=" with
    | i :: rest =>
      let a := "=".intercalate rest
      match i.toNat? with
      | none => none
      | some i =>
        if a == "B" then some (.answer i .blank)
        else if a == "S" then some (.answer i .serverError)
        else if a == "N" then some (.answer i .netError)
        else if a.startsWith "R" then (decRuleSets? (a.drop 1).toString).map fun rs => .answer i (.rules rs)
        else none
    | _ => none
  else none

def encReq : Req → String
  | .robots o i => s!"r{o},{i}"
  | .page i o => s!"p{i},{o}"
  | .loaded o => s!"l{o}"

def gateLoop (ua : Str) : St → Nat → List String → String
  | s, _, [] => "ok " ++ (if s.log.isEmpty then "~" else ";".intercalate (s.log.map encReq))
  | s, k, e :: es =>
    match decEv? e with
    | none => s!"reject {k} bad-event"
    | some ev =>
      match step ua s ev with
      | some s' => gateLoop ua s' (k + 1) es
      | none =>
        let why := match ev with
          | .begin _ => "begin_not_enabled"
          | .answer _ _ => "no_robots_fetch_outstanding_for_this_item"
          | .request i =>
            match getItem s.items i with
            | some it => match it.pc with
              | .denied => "page_requested_although_robots_disallows_it"
              | .postponed => "page_requested_although_robots_fetch_failed"
              | .idle => "page_requested_before_the_robots_gate"
              | .waiting => "page_requested_before_robots_was_obtained"
              | _ => "page_requested_twice"
            | none => "unknown_item"
        s!"reject {k} {why}"

def decBool? (s : String) : Option Bool :=
  if s == "T" then some true else if s == "F" then some false else none

def decCtx? (s : String) : Option LinkCtx :=
  match s.splitOn "," with
  | [u, i, l] =>
    match u.toNat?, decBool? i, decBool? l with
    | some u, some i, some l => some ⟨u, i, l⟩
    | _, _, _ => none
  | _ => none

/-- element: `m` (meta robots nofollow) or `e`, then `:` and `|`-separated `url,inline,linked` (or `_`) -/
def decElem? (s : String) : Option Elem :=
  match s.splitOn ":" with
  | [k, ls] =>
    match (if ls == "_" then some [] else (ls.splitOn "|").mapM decCtx?) with
    | some ls => if k == "m" then some ⟨true, ls⟩ else if k == "e" then some ⟨false, ls⟩ else none
    | none => none
  | _ => none

def encCtx (c : LinkCtx) : String := s!"{c.url},{encBool c.inline},{encBool c.linked}"

def handle : List String → String
  | ["nofollow", robots, elems] =>
    match decBool? robots, (if elems == "~" then some [] else (elems.splitOn ";").mapM decElem?) with
    | some r, some es =>
      let out := scrapeLinks r es
      if out.isEmpty then "~" else "|".intercalate (out.map encCtx)
    | _, _ => "bad-arg"
  | ["parse", text] =>
    match decList? text with
    | some t =>
      let rs := parseRobots t
      if rs.isEmpty then "~"
      else "|".intercalate (rs.map fun r =>
        ",".intercalate (r.names.map encList) ++ ":" ++
          (if r.rules.isEmpty then "_" else ",".intercalate (r.rules.map fun ap => (if ap.1 then "A=" else "D=") ++ encList ap.2)))
    | none => "bad-arg"
  | ["match", ua, target, rsets] =>
    match decList? ua, decList? target, decRuleSets? rsets with
    | some ua, some t, some rs => encBool (isAllowed rs ua t)
    | _, _, _ => "bad-arg"
  | ["gate", ua, items, events] =>
    match decList? ua, (if items == "~" then some [] else (items.splitOn ";").mapM decItem?) with
    | some ua, some items =>
      gateLoop ua ⟨[], items, []⟩ 0 (if events == "~" then [] else events.splitOn ";")
    | _, _ => "bad-arg"
  | _ => "bad-op"

end Wpull.Robots
