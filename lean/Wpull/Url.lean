/-
Model of `wpull/url.py` (properties C10 and C11), following the repaired code
of the checked clone line by line:

* `URLInfo.parse` (strip, C0 test, scheme split and the `default_scheme` /
  `'.' in scheme` / `localhost` heuristics, `//` removal, the index arithmetic
  for authority / path / query / fragment including `remaining[authority_index+1:…]`),
  `parse_authority`, `parse_userinfo`, `parse_host` (`int(port)`),
  `parse_hostname` (IPv4 forms → IDNA/lower → IPv4 forms again → forbidden
  characters), `parse_ipv6_hostname` (zone identifiers refused),
  `normalize_hostname`, `parse_ipv4_int`, `normalize_ipv4_address`,
  `normalize_path/query/fragment/username/password`, `percent_encode(_plus)`,
  `uppercase_percent_encoding`, `flatten_path`, `split_query`, `query_to_map`
* the accessors `url`, `query_map`, `hostname_with_port`, `is_ipv6`,
  `is_port_default`, `split_path`, `to_dict`
* `parse_url_or_log`, `urljoin` / `urljoin_safe` around the stdlib join

Parameters (not modelled; logged from the real run and passed in per case):
`Cfg.lowerNA` (`str.lower` of a text holding a non-ASCII character),
`Cfg.idnaNA` (`str.encode('idna')` of a non-ASCII host), `Cfg.ipv6`
(`ipaddress.IPv6Address(x).compressed`), `Cfg.unquote`
(`urllib.parse.unquote(x, encoding, 'replace')` of a text holding `%`),
`Cfg.encode` for codecs other than utf-8 / latin-1 / ascii.
-/
import Wpull.Py.Str
namespace Wpull.Url
open Wpull

/-! ### constants (compared with the source on every run: `url consts`) -/

def sFtp : Str := [102, 116, 112]
def sGopher : Str := [103, 111, 112, 104, 101, 114]
def sHttp : Str := [104, 116, 116, 112]
def sHttps : Str := [104, 116, 116, 112, 115]
def sWs : Str := [119, 115]
def sWss : Str := [119, 115, 115]
def sLocalhost : Str := [108, 111, 99, 97, 108, 104, 111, 115, 116]

/-- `RELATIVE_SCHEME_DEFAULT_PORTS` -/
def schemePorts : List (Str × Nat) :=
  [(sFtp, 21), (sGopher, 70), (sHttp, 80), (sHttps, 443), (sWs, 80), (sWss, 443)]

def defaultPort? (s : Str) : Option Nat := schemePorts.lookup s

/-- `DEFAULT_ENCODE_SET = b' "#<>?`'` -/
def defaultSet : List Nat := [32, 34, 35, 60, 62, 63, 96]
/-- `PASSWORD_ENCODE_SET = DEFAULT | b'/@\\%[]'` -/
def passwordSet : List Nat := [32, 34, 35, 60, 62, 63, 96, 47, 64, 92, 37, 91, 93]
/-- `USERNAME_ENCODE_SET = PASSWORD | b':'` -/
def usernameSet : List Nat := [32, 34, 35, 60, 62, 63, 96, 47, 64, 92, 37, 91, 93, 58]
/-- `QUERY_ENCODE_SET = b'"#<>`'` -/
def querySet : List Nat := [34, 35, 60, 62, 96]
/-- `FRAGMENT_ENCODE_SET = b' "<>`'` -/
def fragmentSet : List Nat := [32, 34, 60, 62, 96]
/-- `FORBIDDEN_HOSTNAME_CHARS = '#%/:?@[\\] '` -/
def forbiddenHost : List Nat := [35, 37, 47, 58, 63, 64, 91, 92, 93, 32]

/-! ### configuration and parameters -/

structure Cfg where
  /-- `default_scheme` (`none` = `None`; an empty string is falsy as in Python) -/
  defaultScheme : Option Str
  /-- `text.encode(encoding)` -/
  encode : Str → Except PyExc Bytes
  /-- `str.lower()` of a text that holds a non-ASCII character (parameter) -/
  lowerNA : Str → Str
  /-- `str.encode('idna')` of a text that holds a non-ASCII character (parameter) -/
  idnaNA : Str → Except PyExc Bytes
  /-- `ipaddress.IPv6Address(text).compressed` (parameter) -/
  ipv6 : Str → Except PyExc Str
  /-- `urllib.parse.unquote(text, encoding, 'replace')` of a text that holds `%` (parameter) -/
  unquote : Str → Str

structure URLInfo where
  raw : Str
  scheme : Option Str
  authority : Option Str := none
  path : Option Str := none
  query : Option Str := none
  fragment : Option Str := none
  userinfo : Option Str := none
  username : Option Str := none
  password : Option Str := none
  host : Option Str := none
  hostname : Option Str := none
  port : Option Nat := none
  resource : Option Str := none
  deriving DecidableEq, Repr

/-! ### percent-encoding -/

/-- `PercentEncoderMap.__missing__` -/
def pctByte (set : List Nat) (b : Nat) : Str :=
  if b < 0x20 || b > 0x7E || set.contains b then [37, hexChar (b / 16), hexChar (b % 16)] else [b]

def pctBytes (set : List Nat) : Bytes → Str
  | [] => []
  | b :: t => pctByte set b ++ pctBytes set t

/-- `percent_encode(text, encode_set, encoding)` -/
def percentEncode (enc : Str → Except PyExc Bytes) (set : List Nat) (t : Str) : Except PyExc Str :=
  match enc t with
  | .error e => .error e
  | .ok b => .ok (pctBytes set b)

/-- `percent_encode_plus` -/
def percentEncodePlus (enc : Str → Except PyExc Bytes) (set : List Nat) (t : Str) : Except PyExc Str :=
  match percentEncode enc set t with
  | .error e => .error e
  | .ok r => .ok (if t.contains 32 then replace1 32 43 r else r)

/-- `uppercase_percent_encoding`: `re.sub(r'%[a-fA-F0-9][a-fA-F0-9]', upper)`, left to right -/
def upperPct : Str → Str
  | c :: a :: b :: t =>
    if c == 37 && isHexDigit a && isHexDigit b then c :: asciiUpper a :: asciiUpper b :: upperPct t
    else c :: upperPct (a :: b :: t)
  | [c, a] => [c, a]
  | [c] => [c]
  | [] => []

/-! ### `flatten_path` -/

/-- the `for part in parts` loop; `acc` is `new_parts` as a stack (last element first) -/
def flattenParts (fs : Bool) : List Str → List Str → List Str
  | [], acc => acc.reverse
  | p :: ps, acc =>
    if p == [46] || (fs && p.isEmpty) then flattenParts fs ps acc
    else if p != [46, 46] then flattenParts fs ps (p :: acc)
    else flattenParts fs ps acc.tail

/-- `flatten_path(path, flatten_slashes)` -/
def flattenPath (fs : Bool) (path : Str) : Str :=
  if path.isEmpty || path == [47] then [47]
  else
    let p := if path.head? == some 47 then path.tail else path
    let np := flattenParts fs (splitC 47 p) []
    let np := if (fs && endsWith p [47]) || np.isEmpty then np ++ [[]] else np
    joinWith [47] ([] :: np)

def normalizePath (c : Cfg) (path : Str) : Except PyExc Str :=
  let p := if startsWith path [47] then path else 47 :: path
  match percentEncode c.encode defaultSet (flattenPath true p) with
  | .error e => .error e
  | .ok r => .ok (upperPct r)

def normalizeQuery (c : Cfg) (t : Str) : Except PyExc Str :=
  match percentEncodePlus c.encode querySet t with
  | .error e => .error e
  | .ok r => .ok (upperPct r)

def normalizeFragment (c : Cfg) (t : Str) : Except PyExc Str :=
  match percentEncode c.encode fragmentSet t with
  | .error e => .error e
  | .ok r => .ok (upperPct r)

/-- `normalize_username(text)` — always UTF-8 (the `encoding` argument is not passed on by the code) -/
def normalizeUsername (t : Str) : Except PyExc Str :=
  match percentEncode utf8Enc usernameSet t with
  | .error e => .error e
  | .ok r => .ok (upperPct r)

def normalizePassword (t : Str) : Except PyExc Str :=
  match percentEncode utf8Enc passwordSet t with
  | .error e => .error e
  | .ok r => .ok (upperPct r)

/-- `percent_decode = urllib.parse.unquote` (its own fast path: no `%` ⇒ unchanged) -/
def percentDecode (c : Cfg) (t : Str) : Str := if t.contains 37 then c.unquote t else t

/-! ### host -/

/-- `parse_ipv4_int` -/
def parseIpv4Int (t : Str) : Except PyExc Int :=
  pyInt (if startsWith t [48, 120] then 16 else if startsWith t [48] then 8 else 10) t

/-- `IPv4Address(n).compressed` for `n < 2^32` -/
def ipv4Compressed (n : Nat) : Str :=
  natDec (n / 16777216 % 256) ++ [46] ++ natDec (n / 65536 % 256) ++ [46] ++
  natDec (n / 256 % 256) ++ [46] ++ natDec (n % 256)

/-- `ipaddress.IPv4Address(int).compressed` -/
def ipv4OfInt (v : Int) : Except PyExc Str :=
  if v < 0 || v > 4294967295 then .error .AddressValueError else .ok (ipv4Compressed v.toNat)

/-- `sum(parse_ipv4_int(part) << (24 - index * 8) for index, part in enumerate(parts))` -/
def ipv4Sum : List Str → Nat → Except PyExc Int
  | [], _ => .ok 0
  | p :: ps, idx =>
    match parseIpv4Int p with
    | .error e => .error e
    | .ok v =>
      match ipv4Sum ps (idx + 1) with
      | .error e => .error e
      | .ok r => .ok (v * (2 ^ (24 - idx * 8) : Nat) + r)

/-- `normalize_ipv4_address` -/
def normalizeIpv4 (a : Str) : Except PyExc Str :=
  let nd := a.count 46
  if nd == 0 then
    match parseIpv4Int a with
    | .error e => .error e
    | .ok v => ipv4OfInt v
  else if nd == 3 then
    match ipv4Sum (splitC 46 a) 0 with
    | .error e => .error e
    | .ok v => ipv4OfInt v
  else .error .ValueError

def isAscii (s : List Nat) : Bool := s.all (· < 128)

/-- the label-length test of the ASCII fast path of the `idna` codec -/
def idnaLabelsOk : List Str → Bool
  | [] => true
  | [l] => l.length < 64
  | l :: r => (0 < l.length && l.length < 64) && idnaLabelsOk r

/-- `text.encode('idna')` -/
def idnaEncode (c : Cfg) (h : Str) : Except PyExc Bytes :=
  if h.isEmpty then .ok []
  else if isAscii h then (if idnaLabelsOk (splitC 46 h) then .ok h else .error .UnicodeError)
  else c.idnaNA h

/-- `normalize_hostname` -/
def normalizeHostname (c : Cfg) (h : Str) : Except PyExc Str :=
  match idnaEncode c h with
  | .error e => if e.isa .UnicodeError then .error .UnicodeError else .error e
  | .ok b =>
    if !isAscii b then .error .UnicodeError      -- `.decode('ascii')`: UnicodeDecodeError, re-raised
    else
      let n := b.map asciiLower
      if h != n then
        match idnaEncode c n with
        | .error e => .error e
        | .ok _ => .ok n
      else .ok n

/-- `try: normalize_ipv4_address(h) except ValueError: h` -/
def tryIpv4 (h : Str) : Except PyExc Str :=
  match normalizeIpv4 h with
  | .ok r => .ok r
  | .error e => if e.isa .ValueError then .ok h else .error e

/-- `parse_ipv6_hostname` -/
def parseIpv6Hostname (c : Cfg) (h : Str) : Except PyExc Str :=
  if !startsWith h [91] || !endsWith h [93] then .error .ValueError
  else if h.contains 37 then .error .ValueError
  else c.ipv6 (pySlice h 1 (h.length - 1))

/-- `parse_hostname` -/
def parseHostname (c : Cfg) (h : Str) : Except PyExc Str :=
  if startsWith h [91] then parseIpv6Hostname c h
  else
    match tryIpv4 h with
    | .error e => .error e
    | .ok h1 =>
      match normalizeHostname c h1 with
      | .error e => .error e
      | .ok h2 =>
        match tryIpv4 h2 with
        | .error e => .error e
        | .ok h3 => if h3.any forbiddenHost.contains then .error .ValueError else .ok h3

/-- `parse_host` -/
def parseHost (c : Cfg) (host : Str) : Except PyExc (Str × Option Nat) :=
  if endsWith host [93] then
    match parseHostname c host with
    | .error e => .error e
    | .ok h => .ok (h, none)
  else
    let r := rpartition1 58 host
    if r.2.1 then
      match pyInt 10 r.2.2 with
      | .error e => .error e
      | .ok p =>
        if p < 0 || p > 65535 then .error .ValueError
        else
          match parseHostname c r.1 with
          | .error e => .error e
          | .ok h => .ok (h, some p.toNat)
    else
      match parseHostname c r.2.2 with
      | .error e => .error e
      | .ok h => .ok (h, none)

/-- `parse_authority`: (userinfo, host) -/
def parseAuthority (a : Str) : Str × Str :=
  let r := partition1 64 a
  if r.2.1 then (r.1, r.2.2) else ([], r.1)

/-- `parse_userinfo`: (username, password) -/
def parseUserinfo (u : Str) : Str × Str :=
  let r := partition1 58 u
  (r.1, r.2.2)

/-! ### `URLInfo.parse` -/

/-- `min(num for num in tuple if num >= 0)`, `except ValueError: dflt` -/
def minIdx (l : List (Option Nat)) (dflt : Nat) : Nat :=
  match l.filterMap id with
  | [] => dflt
  | x :: xs => xs.foldl min x

def truthy (o : Option Str) : Bool :=
  match o with
  | some d => !d.isEmpty
  | none => false

/-- `s.lower()` -/
def pyLower (c : Cfg) (s : Str) : Str := if isAscii s then s.map asciiLower else c.lowerNA s

/-- the pieces `parse` cuts out of `remaining` (after the `//` has been removed) -/
structure RemParts where
  authority : Str
  resource : Str
  /-- `remaining[authority_index + 1:path_index] or '/'` -/
  path : Str
  query : Str
  fragment : Str
  deriving DecidableEq, Repr

/-- the index arithmetic of `parse` -/
def splitRem (rem : Str) : RemParts :=
  let pi := findChar 47 rem
  let qi := findChar 63 rem
  let fi := findChar 35 rem
  let ai := minIdx [pi, qi, fi] rem.length
  let pidx := minIdx [qi, fi] rem.length
  let path0 := pySlice rem (ai + 1) pidx
  let qidx := fi.getD rem.length
  { authority := rem.take ai, resource := rem.drop ai,
    path := if path0.isEmpty then [47] else path0,
    query := pySlice rem (pidx + 1) qidx, fragment := rem.drop (qidx + 1) }

/-- the network-scheme part of `parse` (after the scheme has been decided) -/
def parseNet (c : Cfg) (url scheme rem0 : Str) (dp : Nat) : Except PyExc URLInfo :=
  let rp := splitRem (if startsWith rem0 [47, 47] then rem0.drop 2 else rem0)
  let authority := rp.authority
  let resource := rp.resource
  let path := rp.path
  let query := rp.query
  let fragment := rp.fragment
  let ua := parseAuthority authority
  match parseHost c ua.2 with
  | .error e => .error e
  | .ok (hostname, port) =>
    let up := parseUserinfo ua.1
    if hostname.isEmpty then .error .ValueError
    else
      match normalizePath c path with
      | .error e => .error e
      | .ok npath =>
        match normalizeQuery c query with
        | .error e => .error e
        | .ok nquery =>
          match normalizeFragment c fragment with
          | .error e => .error e
          | .ok nfrag =>
            let un := percentDecode c up.1
            let pw := percentDecode c up.2
            match normalizeUsername un with
            | .error e => .error e
            | .ok _ =>
              match normalizePassword pw with
              | .error e => .error e
              | .ok _ =>
                .ok { raw := url, scheme := some scheme, authority := some authority,
                      path := some npath, query := some nquery, fragment := some nfrag,
                      userinfo := some ua.1, username := some un, password := some pw,
                      host := some ua.2, hostname := some hostname,
                      port := some (match port with
                                    | some p => if p == 0 then dp else p
                                    | none => dp),
                      resource := some resource }

/-- the scheme with its default port, if it is a key of `RELATIVE_SCHEME_DEFAULT_PORTS` -/
def netScheme? (s : Option Str) : Option (Str × Nat) :=
  match s with
  | none => none
  | some x =>
    match defaultPort? x with
    | none => none
    | some dp => some (x, dp)

/-- the scheme decisions at the head of `parse`: (scheme, remaining), for a stripped, C0-free text -/
def schemeSplit (c : Cfg) (url : Str) : Except PyExc (Option Str × Str) :=
  let r := partition1 58 url
  if r.1.isEmpty then .error .ValueError
  else
    let scheme1 := pyLower c r.1
    let ds := truthy c.defaultScheme
    if !r.2.1 && !ds then .error .ValueError
    else
      -- (scheme, remaining) after the first `if`
      let s1 : Option Str × Str := if !r.2.1 then (c.defaultScheme, url) else (some scheme1, r.2.2)
      if (ds && (s1.1.getD []).contains 46) || s1.1 == some sLocalhost
      then .ok (c.defaultScheme, (s1.1.getD []) ++ [58] ++ s1.2) else .ok s1

/-- `URLInfo.parse(url, default_scheme, encoding)` -/
def parse (c : Cfg) (url0 : Str) : Except PyExc URLInfo :=
  let url := strip url0
  if url.any (· ≤ 0x1f) then .error .ValueError
  else
    match schemeSplit c url with
    | .error e => .error e
    | .ok s2 =>
      match netScheme? s2.1 with
      | none =>
        -- nothing is percent-encoded, but a lone surrogate is refused: `url.encode('utf-8')`
        match utf8Enc url with
        | .error e => .error e
        | .ok _ => .ok { raw := url, scheme := s2.1, path := some s2.2 }
      | some (s, dp) => parseNet c url s s2.2 dp

/-! ### accessors -/

/-- `is_ipv6()` (`None` when `host` is empty or `None`) -/
def URLInfo.isIPv6 (i : URLInfo) : Option Bool :=
  match i.host with
  | none => none
  | some h => if h.isEmpty then none else some (startsWith h [91])

/-- the `url` property -/
def URLInfo.url (i : URLInfo) : Except PyExc Str :=
  match netScheme? i.scheme with
  | none => .ok i.raw
  | some (sch, dp) =>
    let un := i.username.getD []
    let pw := i.password.getD []
    match (if un.isEmpty then .ok [] else normalizeUsername un) with
    | .error e => .error e
    | .ok a =>
      match (if pw.isEmpty then .ok [] else normalizePassword pw) with
      | .error e => .error e
      | .ok b =>
        let b' := if pw.isEmpty then [] else 58 :: b
        let atS := if un.isEmpty && pw.isEmpty then [] else [64]
        let hn := i.hostname.getD []
        let h := if i.isIPv6 == some true then [91] ++ hn ++ [93] else hn
        let p := if some dp != i.port then 58 :: natDec (i.port.getD 0) else []
        let q := match i.query with
          | some q => if q.isEmpty then [] else 63 :: q
          | none => []
        .ok (sch ++ [58, 47, 47] ++ a ++ b' ++ atS ++ h ++ p ++ i.path.getD [] ++ q)

/-- `is_port_default()` -/
def URLInfo.isPortDefault (i : URLInfo) : Option Bool :=
  match netScheme? i.scheme with
  | none => none
  | some (_, dp) => some (some dp == i.port)

/-- the `hostname_with_port` property (with its two `assert`s) -/
def URLInfo.hostnameWithPort (i : URLInfo) : Except PyExc Str :=
  match netScheme? i.scheme with
  | none => .ok []
  | some (_, dp) =>
    let hn := i.hostname.getD []
    if hn.contains 91 || hn.contains 93 then .error .AssertionError
    else
      let h := if i.isIPv6 == some true then [91] ++ hn ++ [93] else hn
      if some dp != i.port then .ok (h ++ [58] ++ natDec (i.port.getD 0)) else .ok h

/-- `head.rstrip('/')` -/
def rstripSlash (s : Str) : Str := (s.reverse.dropWhile (· == 47)).reverse

/-- `posixpath.split` -/
def posixSplit (p : Str) : Str × Str :=
  let r := rpartition1 47 p
  if !r.2.1 then ([], p)
  else
    let head := r.1 ++ [47]
    (if head.all (· == 47) then head else rstripSlash head, r.2.2)

/-- `split_path()`; `path` is `None` only for a value that `parse` never builds -/
def URLInfo.splitPath (i : URLInfo) : Except PyExc (Str × Str) :=
  match i.path with
  | none => .error .TypeError
  | some p => .ok (posixSplit p)

/-- insert into the insertion-ordered `dict` of lists -/
def mapAppend (k v : Str) : List (Str × List Str) → List (Str × List Str)
  | [] => [(k, [v])]
  | (k', vs) :: r => if k' == k then (k', vs ++ [v]) :: r else (k', vs) :: mapAppend k v r

/-- `query_to_map(text)` over `split_query(text, True)` -/
def queryToMap (t : Str) : List (Str × List Str) :=
  (splitC 38 t).foldl (fun m pair =>
    let r := partition1 61 pair
    -- value None (no `=`) or empty ⇒ ''
    mapAppend r.1 (replace1 43 32 r.2.2) m) []

/-- the `query_map` property: `query_to_map(self.query or '')` -/
def URLInfo.queryMap (i : URLInfo) : Except PyExc (List (Str × List Str)) :=
  .ok (queryToMap (i.query.getD []))

/-! ### callers -/

/-- `parse_url_or_log`: `except ValueError` → log, `None` -/
def parseOrLog (c : Cfg) (u : Str) : Except PyExc (Option URLInfo) :=
  match parse c u with
  | .ok i => .ok (some i)
  | .error e => if e.isa .ValueError then .ok none else .error e

/-- the loop head of `ProcessingRule._process_scrape_info` (wpull/processor/rule.py), the consumer of
the logging variant: `url_info = self.parse_url(link)`, `if not url_info: continue`; the kept results -/
def scrapeParse (c : Cfg) : List Str → Except PyExc (List URLInfo)
  | [] => .ok []
  | l :: ls =>
    match parseOrLog c l with
    | .error e => .error e
    | .ok none => scrapeParse c ls
    | .ok (some i) =>
      match scrapeParse c ls with
      | .error e => .error e
      | .ok r => .ok (i :: r)

/-- `'_escaped_fragment_='` -/
def sEscFrag : Str := [95, 101, 115, 99, 97, 112, 101, 100, 95, 102, 114, 97, 103, 109, 101, 110, 116, 95, 61]

/-- `URLRewriter.rewrite` with `hash_fragment=True`, `session_id=False` (wpull/urlrewrite.py, `--escaped-fragment`):
for an http(s) URL whose fragment starts with `!` the normal form, `?` or `&`, `_escaped_fragment_=` and the
rest of the fragment are concatenated (the URL is data, never a format string) and parsed with the logging
variant; an unparseable result keeps the original -/
def rewriteEscaped (c : Cfg) (i : URLInfo) : Except PyExc URLInfo :=
  if i.scheme == some sHttp || i.scheme == some sHttps then
    match i.fragment with
    | some (33 :: rest) =>
      match i.url with
      | .error e => .error e
      | .ok u =>
        match parseOrLog c (u ++ [if (i.query.getD []).isEmpty then 63 else 38] ++ sEscFrag ++ rest) with
        | .error e => .error e
        | .ok (some j) => .ok j
        | .ok none => .ok i
    | _ => .ok i
  else .ok i

/-- `ProcessingRule.add_extra_urls` (wpull/processor/rule.py, `--sitemaps`, level-0 URL): the two texts
`'{scheme}://{hostname_with_port}/robots.txt'` and `…/sitemap.xml` -/
def extraUrlTexts (i : URLInfo) : Except PyExc (List Str) :=
  match i.hostnameWithPort with
  | .error e => .error e
  | .ok hwp =>
    let site := (i.scheme.getD []) ++ [58, 47, 47] ++ hwp
    .ok [site ++ [47, 114, 111, 98, 111, 116, 115, 46, 116, 120, 116],
         site ++ [47, 115, 105, 116, 101, 109, 97, 112, 46, 120, 109, 108]]

/-- `url_info = self.parse_url(text)` then `url_info.url`: `None.url` is an AttributeError -/
def parsedUrlOf (c : Cfg) (t : Str) : Except PyExc Str :=
  match parseOrLog c t with
  | .error e => .error e
  | .ok none => .error .AttributeError
  | .ok (some j) => j.url

/-- the URLs `add_extra_urls` queues for the parsed start URL `i` -/
def extraUrls (c : Cfg) (i : URLInfo) : Except PyExc (List Str) :=
  match extraUrlTexts i with
  | .error e => .error e
  | .ok ts => ts.mapM (parsedUrlOf c)

/-- `wpull.url.urljoin(base, url, allow_fragments)` around the stdlib join
`stdJoin allow_fragments base url` (parameter).  A fragment-only reference joined without fragment
parsing is appended to the base document (repaired code; the stdlib would replace the last path segment). -/
def urljoin (stdJoin : Bool → Str → Str → Except PyExc Str) (af : Bool) (base url : Str) : Except PyExc Str :=
  if !af && startsWith url [35] then .ok ((partition1 35 base).1 ++ url)
  else if startsWith url [47, 47] && url.length > 2 then
    let scheme := (partition1 58 base).1
    if !scheme.isEmpty then stdJoin af base (scheme ++ [58] ++ url) else stdJoin af base url
  else stdJoin af base url

/-- `urljoin_safe`: `except ValueError` → log, `None` -/
def urljoinSafe (stdJoin : Bool → Str → Str → Except PyExc Str) (af : Bool) (base url : Str) :
    Except PyExc (Option Str) :=
  match urljoin stdJoin af base url with
  | .ok r => .ok (some r)
  | .error e => if e.isa .ValueError then .ok none else .error e

/-! ### base selection of `HTMLScraper._process_elements` (wpull/scraper/html.py) -/

/-- Python's `x or d` for an optional string (`None` and `''` are falsy) -/
def pyOr (x d : Option Str) : Option Str :=
  match x with
  | some r => if r.isEmpty then d else some r
  | none => d

/-- `doc_base_url`: the first `<base href>` whose join with the page URL is truthy
(`if not doc_base_url and element.tag == 'base': doc_base_url = urljoin_safe(base_url, href)`) -/
def docBase (stdJoin : Bool → Str → Str → Except PyExc Str) (page : Str) :
    List Str → Option Str → Except PyExc (Option Str)
  | [], cur => .ok cur
  | href :: rest, cur =>
    if (pyOr cur none).isSome then docBase stdJoin page rest cur
    else
      match urljoinSafe stdJoin true page href with
      | .error e => .error e
      | .ok r => docBase stdJoin page rest r

/-- `element_base_url`: `doc_base_url or base_url`, replaced for an element with a (cleaned, non-empty)
`codebase` by `urljoin_safe(base_url, codebase) or base_url` -/
def elementBase (stdJoin : Bool → Str → Str → Except PyExc Str) (page : Str) (doc : Option Str)
    (codebase : Option Str) : Except PyExc (Option Str) :=
  let eb := pyOr doc (some page)
  match codebase with
  | none => .ok eb
  | some cb =>
    if cb.isEmpty then .ok eb
    else
      match urljoinSafe stdJoin true page cb with
      | .error e => .error e
      | .ok r => .ok (pyOr r (some page))

/-- `urljoin_safe(element_base_url, link, allow_fragments=False)` for a base that Python would also
let be `None`: `None.partition` raises AttributeError on the two branches of `wpull.url.urljoin` that
look at the base, the stdlib returns the link itself for a falsy base -/
def joinOnBase (stdJoin : Bool → Str → Str → Except PyExc Str) (b : Option Str) (link : Str) :
    Except PyExc (Option Str) :=
  match b with
  | none =>
    if startsWith link [35] || (startsWith link [47, 47] && link.length > 2) then .error .AttributeError
    else .ok (some link)
  | some base => urljoinSafe stdJoin false base link

/-- one scraped link of one element: base selection, then the join -/
def scrapeLink (stdJoin : Bool → Str → Str → Except PyExc Str) (page : Str) (doc : Option Str)
    (codebase : Option Str) (link : Str) : Except PyExc (Option Str) :=
  match elementBase stdJoin page doc codebase with
  | .error e => .error e
  | .ok b => joinOnBase stdJoin b link

end Wpull.Url
