/-
Line protocol of engine `filter` (property C02).

  filter similar <a> <b>
  filter subdir <base> <test> <T|F trailing> <T|F wildcards> <tables>
  filter test <filters> <info> <rec> <T|F isRedirect> <tables>
  filter build <22 option tokens>
  filter checkin <try count> <T|F url_result given> <T|F increment_try_count>     -> try count after check_in
  filter web <filters> <T|F strong> <T|F robots> <T|F item.is_virtual truthy> <rec> <info> <robots outcome> <resps> <tables>
      (resps: `;`-separated `A` | `F` | `D:<info>@<robots outcome for that target>`)
  filter ftp <filters> <rec> <info> <shape> <perm probe> <tables>
  filter httpchild <item inline level None|n> <item level> <T|F link is inline>    -> `<level> <inline level>` of the child record
  filter commalist <str>                                                          -> the list comma_list returns
  filter ftpchild <T|F item is a glob> <T|F entry is a directory> <item level>     -> level of the child record

str = dot-separated hex (`-` empty); list of str = `/`-separated (`~` empty);
info = `scheme,hostname,port,path,url` (hostname `None|=str`, port `None|n`), `None` for no info;
rec = `parent|root|level|inline|tries` (`|`-separated; parent/root an info or `None`);
filters = `;`-separated, `~` when empty (see `decFilter?`);
tables = `re|fn|sfx`, each `;`-separated `a,b,T|F` entries or `~`.
The oracles answer from the tables (the calls the real code made, logged by
the harness).  Every request is evaluated twice, with unlogged queries
answered `false` and `true`; if that changes the reply the model asked
something the real code did not, and the reply is `miss`.
-/
import Wpull.Filter
import Wpull.Proto
namespace Wpull.Filter
open Wpull Wpull.Proto

def decBool? (s : String) : Option Bool :=
  if s == "T" then some true else if s == "F" then some false else none

def decOptStr? (s : String) : Option (Option Str) :=
  if s == "None" then some none
  else if s.startsWith "=" then (decList? (s.drop 1).toString).map some
  else none

def decOptNat? (s : String) : Option (Option Nat) :=
  if s == "None" then some none else s.toNat?.map some

def decInfo? (s : String) : Option Info :=
  match s.splitOn "," with
  | [sc, h, p, pa, u] => do
    let sc ← decList? sc
    let h ← decOptStr? h
    let p ← decOptNat? p
    let pa ← decList? pa
    let u ← decList? u
    pure ⟨sc, h, p, pa, u⟩
  | _ => none

def decOptInfo? (s : String) : Option (Option Info) :=
  if s == "None" then some none else (decInfo? s).map some

def decRec? (s : String) : Option Rec :=
  match s.splitOn "|" with
  | [p, ro, l, il, t] => do
    let p ← decOptInfo? p
    let ro ← decOptInfo? ro
    let l ← l.toNat?
    let il ← decOptNat? il
    let t ← t.toNat?
    pure ⟨p, ro, l, il, t⟩
  | _ => none

def decFilter? (s : String) : Option Filter :=
  match s.splitOn ":" with
  | ["scheme", a] => do pure (.scheme (← decLists? a))
  | ["https"] => some .httpsOnly
  | ["ftp", f] => do pure (.followFtp (← decBool? f))
  | ["bd", a, r] => do pure (.backwardDomain (← decLists? a) (← decLists? r))
  | ["hn", a, r] => do pure (.hostname (← decLists? a) (← decLists? r))
  | ["rec", e, p] => do pure (.recursive (← decBool? e) (← decBool? p))
  | ["lvl", d, i] => do pure (.level (← d.toNat?) (← i.toNat?))
  | ["tries", t] => do pure (.tries (← t.toNat?))
  | ["parent"] => some .parent
  | ["span", h, e, p, l] => do
    pure (.spanHosts (← decLists? h) (← decBool? e) (← decBool? p) (← decBool? l))
  | ["re", a, r] => do pure (.regex (← decList? a) (← decList? r))
  | ["dir", a, r] => do pure (.directory (← decLists? a) (← decLists? r))
  | ["bf", a, r] => do pure (.backwardFilename (← decLists? a) (← decLists? r))
  | _ => none

def decFilters? (s : String) : Option (List Filter) :=
  if s == "~" then some [] else (s.splitOn ";").mapM decFilter?

def encFilter : Filter → String
  | .scheme a => "scheme:" ++ encLists a
  | .httpsOnly => "https"
  | .followFtp f => "ftp:" ++ encBool f
  | .backwardDomain a r => "bd:" ++ encLists a ++ ":" ++ encLists r
  | .hostname a r => "hn:" ++ encLists a ++ ":" ++ encLists r
  | .recursive e p => "rec:" ++ encBool e ++ ":" ++ encBool p
  | .level d i => "lvl:" ++ toString d ++ ":" ++ toString i
  | .tries t => "tries:" ++ toString t
  | .parent => "parent"
  | .spanHosts h e p l => "span:" ++ encLists h ++ ":" ++ encBool e ++ ":" ++ encBool p ++ ":" ++ encBool l
  | .regex a r => "re:" ++ encList a ++ ":" ++ encList r
  | .directory a r => "dir:" ++ encLists a ++ ":" ++ encLists r
  | .backwardFilename a r => "bf:" ++ encLists a ++ ":" ++ encLists r

def encFilters (fs : List Filter) : String :=
  if fs.isEmpty then "~" else ";".intercalate (fs.map encFilter)

abbrev Table := List ((Str × Str) × Bool)

def decTable? (s : String) : Option Table :=
  if s == "~" then some []
  else (s.splitOn ";").mapM (fun e =>
    match e.splitOn "," with
    | [a, b, v] => do pure ((← decList? a, ← decList? b), ← decBool? v)
    | _ => none)

def decTables? (s : String) : Option (Table × Table × Table) :=
  match s.splitOn "|" with
  | [a, b, c] => do pure (← decTable? a, ← decTable? b, ← decTable? c)
  | _ => none

def tblGet (t : Table) (dflt : Bool) (a b : Str) : Bool :=
  match t.find? (fun e => e.1.1 == a && e.1.2 == b) with
  | some e => e.2
  | none => dflt

/-- `re.search(pattern, string)` / `fnmatchcase(name, pat)` / suffix(suffix, filename) from the tables -/
def mkOracles (t : Table × Table × Table) (dflt : Bool) : Oracles :=
  { re := tblGet t.1 dflt, fnmatchcase := tblGet t.2.1 dflt, suffix := tblGet t.2.2 dflt }

/-- evaluate with both defaults for unlogged oracle queries -/
def both (t : Table × Table × Table) (f : Oracles → String) : String :=
  let a := f (mkOracles t false)
  let b := f (mkOracles t true)
  if a == b then a else "miss"

def encNames (fs : List Filter) : String :=
  if fs.isEmpty then "-" else ",".intercalate (fs.map Filter.name)

/-- the dict `map` as Python prints it: keys in first-assignment order, last assigned value -/
def encResults (l : List (String × Bool)) : String :=
  if l.isEmpty then "-"
  else ",".intercalate ((l.map (·.1)).eraseDups.map (fun n => n ++ "=" ++ encBool ((dictGet l n).getD false)))

def encConsult (c : Consult) : String :=
  "ok " ++ encBool c.info.verdict ++ " " ++ encBool c.verdict ++ " " ++ c.reason ++ " "
      ++ encNames c.info.failed ++ " " ++ encNames c.info.passed ++ " " ++ encResults c.info.results

def encEv : Ev → String
  | .robotsTxt u => "B:" ++ encList u.url
  | .request u red => "R:" ++ encList u.url ++ ":" ++ encBool red
  | .skip => "S"

def encEvs (l : List Ev) : String :=
  if l.isEmpty then "-" else ";".intercalate (l.map encEv)

def decRobots? (s : String) : Option RobotsOutcome :=
  match s with
  | "CT" => some (.cached true) | "CF" => some (.cached false)
  | "FT" => some (.fetched true) | "FF" => some (.fetched false)
  | "E" => some .error
  | _ => none

/-- `A` | `F` | `D:<info>@<robots outcome>` -/
def decResp? (s : String) : Option Resp :=
  if s == "A" then some .retrySame
  else if s == "F" then some .finish
  else if s.startsWith "D:" then
    match ((s.drop 2).toString).splitOn "@" with
    | [i, rb] => do pure (.redirect (← decInfo? i) (← decRobots? rb))
    | _ => none
  else none

def decResps? (s : String) : Option (List Resp) :=
  if s == "~" then some [] else (s.splitOn ";").mapM decResp?

def decShape? (s : String) : Option FtpShape :=
  match s.splitOn "!" with
  | ["glob", d] => do pure (.glob (← decInfo? d))
  | ["known"] => some .known
  | ["cached", s] => do pure (.probeCached (← decOptInfo? s))
  | ["probe", d, s] => do pure (.probe (← decInfo? d) (← decOptInfo? s))
  | _ => none

def decOptions? (t : List String) : Option Options :=
  match t with
  | [ho, re, pr, ff, np, d, xd, h, xh, tr, lv, prl, ar, rr, idr, xdr, ac, rj, sh, sp, sl, th] => do
    pure { httpsOnly := ← decBool? ho, recursive := ← decBool? re, pageRequisites := ← decBool? pr,
           followFtp := ← decBool? ff, noParent := ← decBool? np,
           domains := ← decLists? d, excludeDomains := ← decLists? xd,
           hostnames := ← decLists? h, excludeHostnames := ← decLists? xh,
           tries := ← tr.toNat?, level := ← lv.toNat?, pageRequisitesLevel := ← prl.toNat?,
           acceptRegex := ← decList? ar, rejectRegex := ← decList? rr,
           includeDirectories := ← decLists? idr, excludeDirectories := ← decLists? xdr,
           accept := ← decLists? ac, reject := ← decLists? rj,
           spanHosts := ← decBool? sh, spanAllowPageRequisites := ← decBool? sp,
           spanAllowLinkedPages := ← decBool? sl, tableHostnames := ← decLists? th }
  | _ => none

def handle : List String → String
  | ["similar", a, b] =>
    match decList? a, decList? b with
    | some a, some b => encBool (schemesSimilar a b)
    | _, _ => "bad-arg"
  | ["subdir", b, t, ts, wc, tb] =>
    match decList? b, decList? t, decBool? ts, decBool? wc, decTables? tb with
    | some b, some t, some ts, some wc, some tb => both tb (fun o => encBool (isSubdir o b t ts wc))
    | _, _, _, _, _ => "bad-arg"
  | ["test", fs, u, r, red, tb] =>
    match decFilters? fs, decInfo? u, decRec? r, decBool? red, decTables? tb with
    | some fs, some u, some r, some red, some tb => both tb (fun o => encConsult (consult o fs u r red))
    | _, _, _, _, _ => "bad-arg"
  | "build" :: rest =>
    match decOptions? rest with
    | some a => encFilters (buildFilters a)
    | none => "bad-arg"
  | ["web", fs, strong, robots, virt, r, u, rob, resps, tb] =>
    match decFilters? fs, decBool? strong, decBool? robots, decBool? virt, decRec? r, decInfo? u, decRobots? rob,
          decResps? resps, decTables? tb with
    | some fs, some strong, some robots, some virt, some r, some u, some rob, some resps, some tb =>
      both tb (fun o => encEvs (webProcess o ⟨fs, strong, robots, virt⟩ r u rob resps))
    | _, _, _, _, _, _, _, _, _ => "bad-arg"
  | ["checkin", tc, hr, inc] =>
    match tc.toNat?, decBool? hr, decBool? inc with
    | some tc, some hr, some inc => toString (checkInTryCount tc hr inc)
    | _, _, _ => "bad-arg"
  | ["ftp", fs, r, u, shape, perm, tb] =>
    match decFilters? fs, decRec? r, decInfo? u, decShape? shape, decOptInfo? perm, decTables? tb with
    | some fs, some r, some u, some shape, some perm, some tb =>
      both tb (fun o => encEvs (ftpProcess o fs r u shape perm))
    | _, _, _, _, _, _ => "bad-arg"
  | ["httpchild", il, l, inl] =>
    match decOptNat? il, l.toNat?, decBool? inl with
    | some il, some l, some inl =>
      let r := httpChildRecord ⟨none, none, l, il, 0⟩ default ⟨inl, default⟩
      toString r.level ++ " " ++ encOptNat r.inlineLevel
    | _, _, _ => "bad-arg"
  | ["commalist", x] =>
    match decList? x with
    | some x => encLists (commaList x)
    | none => "bad-arg"
  | ["ftpchild", g, d, l] =>
    match decBool? g, decBool? d, l.toNat? with
    | some g, some d, some l => toString (listingChildLevel g d l)
    | _, _, _ => "bad-arg"
  | _ => "bad-op"

end Wpull.Filter
