import Wpull.Decomp
import Wpull.Proto
namespace Wpull.Decomp
open Wpull Wpull.Proto

/-- log entry token `<mode g|z|r><op d|f><eof T|F>:<arg>:<res>`, `res` = `!` (zlib.error) or `=<bytes>` -/
def decEntry? (tok : String) : Option LogEntry :=
  match tok.splitOn ":" with
  | [hd, arg, res] =>
    match hd.toList with
    | [m, op, e] => do
      let mode ← match m with | 'g' => some Mode.gzip | 'z' => some Mode.zlib | 'r' => some Mode.raw | _ => none
      let isFlush ← match op with | 'd' => some false | 'f' => some true | _ => none
      let eof ← match e with | 'T' => some true | 'F' => some false | _ => none
      let a ← decList? arg
      let r ← if res == "!" then some none
              else if res.startsWith "=" then (decList? (res.drop 1).toString).map some
              else none
      pure ⟨mode, isFlush, a, r, eof⟩
    | _ => none
  | _ => none

def decLog? (s : String) : Option (List LogEntry) :=
  if s == "~" then some [] else (s.splitOn ";").mapM decEntry?

def decCoding? : String → Option Coding
  | "g" => some .gzip | "d" => some .deflate | "i" => some .identity | _ => none

def encCoding : Coding → String
  | .gzip => "g" | .deflate => "d" | .identity => "i"

def encRem : Option Nat → String
  | none => "desync"
  | some n => toString n

def encRes : Except PyExc Bytes → String
  | .ok b => "ok " ++ encList b
  | .error e => "exc " ++ e.name

def handle : List String → String
  | ["body", c, pieces, log] =>
    match decCoding? c, decLists? pieces, decLog? log with
    | some c, some ps, some log =>
      let o := readBodyFrom (logged log) (setup (logged log) c) ps
      encRes o.result ++ " " ++ encLists o.outs ++ " " ++ encRem (remaining log o.final)
    | _, _, _ => "bad-arg"
  | ["resp", e, pieces, log] =>
    -- one response of a sequence read through one Stream: by `sequence_is_per_response` the
    -- decoder left by the previous response is irrelevant, so each response is replayed over its own log
    let e? : Option (Option Str) := if e == "None" then some none
      else if e.startsWith "=" then (decList? (e.drop 1).toString).map some else none
    match e?, decLists? pieces, decLog? log with
    | some enc, some ps, some log =>
      let o := readBodyFrom (logged log) (setupDecompressor (logged log) .none enc) ps
      encRes o.result ++ " " ++ encLists o.outs ++ " " ++ encRem (remaining log o.final)
    | _, _, _ => "bad-arg"
  | ["web", keep, t, e, pieces, log] =>
    -- WebSession.download(file, duration_timeout) through Session.download and Stream.read_body
    let e? : Option (Option Str) := if e == "None" then some none
      else if e.startsWith "=" then (decList? (e.drop 1).toString).map some else none
    let t? : Option (Option Nat) := if t == "None" then some none else t.toNat?.map some
    match e?, t?, decLists? pieces, decLog? log with
    | some enc, some timeout, some ps, some log =>
      let a := webDownloadArgs (keep == "T") timeout
      let o := sessionDownloadOutcome (logged log) a enc ps
      encRes (o.observed _ a.keepFile) ++ " " ++ encBool a.raw ++ " " ++ encRem (remaining log o.final)
    | _, _, _, _ => "bad-arg"
  | ["respx", e, ct, cd, url, pieces, log] =>
    -- `resp` with the rest of the header block in view (Content-Type, Content-Disposition, URL)
    let opt (t : String) : Option (Option Str) := if t == "None" then some none
      else if t.startsWith "=" then (decList? (t.drop 1).toString).map some else none
    match opt e, opt ct, opt cd, decList? url, decLists? pieces, decLog? log with
    | some enc, some ctype, some cdisp, some u, some ps, some log =>
      let o := readBodyFrom (logged log) (setupFromResponse (logged log) .none ⟨enc, ctype, cdisp, u⟩) ps
      encRes o.result ++ " " ++ encLists o.outs ++ " " ++ encRem (remaining log o.final)
    | _, _, _, _, _, _ => "bad-arg"
  | ["steps", level, c, ops, log] =>
    -- one decoder object of a history, replayed alone over its own calls and its own zlib log
    -- (`frame_property`): ops are `/`-separated, `F` = flush, otherwise the bytes fed
    let ops? : Option (List HOp) := if ops == "~" then some [] else
      (ops.splitOn "/").mapM (fun t => if t == "F" then some HOp.flush else (decList? t).map HOp.feed)
    match decCoding? c, ops?, decLog? log with
    | some c, some ops, some log =>
      let r := if level == "s" then runAlone (logged log) (Dec.step (logged log)) (setup (logged log) c) ops
               else runAlone (logged log) (Dec.stepRaw (logged log)) (setup (logged log) c) ops
      let outs := r.2.map (fun x => match x with | .ok b => "ok:" ++ encList b | .error e => "exc:" ++ e.name)
      (if outs.isEmpty then "~" else "/".intercalate outs) ++ " " ++ encRem (remaining log r.1)
    | _, _, _ => "bad-arg"
  | ["framing", il, lp, f] =>
    let f? : Option Framing := match f with
      | "x" => some .chunked | "l" => some .length | "c" => some .close | _ => none
    match f? with
    | some f =>
      match effectiveFraming (il == "T") (lp == "T") f with
      | .chunked => "x" | .length => "l" | .close => "c"
    | none => "bad-arg"
  | ["lenpieces", n, reads] =>
    match n.toNat?, decLists? reads with
    | some n, some rs => encLists (lengthPieces n rs)
    | _, _ => "bad-arg"
  | ["gzipw", pieces, log] =>
    match decLists? pieces, decLog? log with
    | some ps, some log => encRes (gzipRunFrom (logged log) (GzipSt.new _) ps)
    | _, _ => "bad-arg"
  | ["deflw", pieces, log] =>
    match decLists? pieces, decLog? log with
    | some ps, some log => encRes (deflRunFrom (logged log) (DeflSt.new _) ps)
    | _, _ => "bad-arg"
  | ["hdr", b] =>
    match decList? b with
    | some b => encBool (isZlibHeader b)
    | none => "bad-arg"
  | ["coding", s] =>
    match decList? s with
    | some s => encCoding (codingOf s)
    | none => "bad-arg"
  | _ => "bad-op"

end Wpull.Decomp
