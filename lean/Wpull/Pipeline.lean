/-
Model of `wpull/pipeline/pipeline.py` (ItemQueue, Producer, Worker, Pipeline) as a
small-step transition system.  One step = one atomic segment of a coroutine between
two suspension points (asyncio tasks on Python 3.12).  Core Lean only.

What a step is
  * `prod`   the producer task runs to its next suspension (start → get_item;
             delivered item → put_item / wait; woken from the condition; cancelled)
  * `main`   the `Pipeline.process()` coroutine runs to its next suspension
  * `getw`   an idle worker task (freshly created, or woken from `queue.get`) runs:
             it (re)tries `queue.get`
  * `task i ok`  the task the worker of item `i` is suspended in completes
             (`ok`) or raises (`¬ok`) and that worker runs to its next suspension
  * `stop`, `setConc c`   control calls made from outside between two steps

Abstractions (all checked by the co-simulation, see notes/C13.md)
  * items are their index in the source (0,1,2,…); the source supplies `n` items and
    then `None` forever (or raises once when `srcFail`)
  * worker tasks are anonymous: a busy worker is identified by the item it holds, idle
    workers are counted (`idleReady` will call/retry `queue.get`, `idleWait` are parked
    getters).  A fresh worker and a woken getter run the same code (`Queue.get` re-checks
    `empty()`), so they are one class.
  * the queue never holds more than one item (`put_item` only puts when `qsize() == 0`):
    it is `pills` poison pills (higher priority) and `qitem`
  * the condition's lock is never held across a suspension, so acquire/notify/release
    is atomic and check-then-wait cannot lose a notification
  * the completion callbacks of `asyncio.wait` are run eagerly (fused into the step
    that ends the worker task); completing a parked future and running the task it
    wakes are one step (`task i ok`, and `prod` at `getPark`)
-/
namespace Wpull.Pipeline

/-- Which of the repairs made to the code are present (all `true` = the repaired tree). -/
structure Fix where
  wakeOnStop : Bool      -- `stop()` sets `_unpaused_event`
  cancelProducer : Bool  -- shutdown cancels a producer that is still pending
  startGuard : Bool      -- the producer wrapper does not start a producer after `stop()`
  pauseAtStart : Bool    -- `process()` leaves `_unpaused_event` clear when concurrency is 0
  reapOnShutdown : Bool  -- shutdown re-raises the exception of a failed worker task
  deriving DecidableEq, Repr

def Fix.all : Fix := ⟨true, true, true, true, true⟩
def Fix.legacy : Fix := ⟨false, false, false, false, false⟩

structure Cfg where
  n : Nat           -- items the source supplies
  K : Nat           -- number of tasks - 1  (the pipeline has `K+1 ≥ 1` tasks)
  srcFail : Bool    -- after `n` items `get_item` raises (once) instead of returning `None`
  fx : Fix
  deriving DecidableEq, Repr

/-- where an item that was taken from the source is -/
inductive Ph
  | held             -- the producer holds it (waiting in `put_item`, or dropped on cancel)
  | queued
  | run (k : Nat)    -- a worker is suspended inside task `k`
  | done
  | failed (k : Nat) -- task `k` raised
  deriving DecidableEq, Repr

inductive PPC
  | none | start | getPark
  | putWait (notified : Bool) | waitWorker (notified : Bool)
  | finished | failed | cancelReq | cancelled
  deriving DecidableEq, Repr

inductive MPC
  | init
  | waitAny (woken : Bool) | waitUnpaused (woken : Bool)
  | shutWorkers (woken : Bool) | waitProd (woken : Bool)
  | returned | raised
  | spin            -- `while running: event.wait()` with the event set: a busy loop that never yields
  deriving DecidableEq, Repr

inductive PS | stopped | running | stopping
  deriving DecidableEq, Repr

structure Ev where
  task : Nat
  item : Nat
  fin : Bool   -- false = start, true = end
  deriving DecidableEq, Repr

structure St where
  items : List Ph := []       -- phase of every item taken so far (index = item)
  prod : PPC := .none
  prodRunning : Bool := false -- Producer._running
  pills : Nat := 0
  qitem : Option Nat := none
  unfinished : Nat := 0       -- ItemQueue._unfinished_items
  idleReady : Nat := 0
  idleWait : Nat := 0
  busy : Nat := 0             -- workers suspended inside a task
  exited : Nat := 0           -- finished worker tasks still in `_worker_tasks`
  failedW : Nat := 0          -- failed worker tasks still in `_worker_tasks`
  main : MPC := .init
  pstate : PS := .stopped
  conc : Nat := 1
  unpaused : Bool := false
  log : List Ev := []
  -- history (ghost) variables
  stopReq : Bool := false     -- `stop()` was called from outside
  srcCalls : Nat := 0         -- calls of `get_item`
  callsAtStop : Nat := 0      -- `srcCalls` when `stop()` first took effect
  failedItems : Nat := 0      -- items whose task raised
  srcFailed : Bool := false   -- `get_item` raised
  deriving DecidableEq, Repr

inductive Act
  | prod | main | getw | task (i : Nat) (ok : Bool) | stop | setConc (c : Nat)
  deriving DecidableEq, Repr

def St.qi (s : St) : Nat := if s.qitem.isSome then 1 else 0
def St.qsize (s : St) : Nat := s.pills + s.qi
def St.live (s : St) : Nat := s.idleReady + s.idleWait + s.busy
def St.wt (s : St) : Nat := s.live + s.exited + s.failedW   -- len(_worker_tasks)

def initSt (conc : Nat) : St := { conc := conc }

/-! ### shared pieces -/

/-- `Condition.notify_all()`: only the producer ever waits on the condition -/
def notifyPC : PPC → PPC
  | .putWait false => .putWait true
  | .waitWorker false => .waitWorker true
  | p => p

def notifyProd (s : St) : St := { s with prod := notifyPC s.prod }

/-- `PriorityQueue.put_nowait` of `k` entries wakes up to `k` parked getters -/
def wakeGetters (s : St) (k : Nat) : St :=
  { s with idleWait := s.idleWait - min s.idleWait k, idleReady := s.idleReady + min s.idleWait k }

def putPills (s : St) (k : Nat) : St :=
  wakeGetters { s with pills := s.pills + k } k

/-- `Event.set()` wakes `_unpaused_event.wait()` -/
def unpauseMC : MPC → MPC
  | .waitUnpaused false => .waitUnpaused true
  | m => m

def setUnpaused (s : St) : St := { s with unpaused := true, main := unpauseMC s.main }

/-- `Pipeline.stop()` -/
def doStop (c : Cfg) (s : St) : St :=
  if s.pstate = .running then
    let s := { s with pstate := .stopping, prodRunning := false, callsAtStop := s.srcCalls }
    let s := putPills s s.wt
    if c.fx.wakeOnStop then setUnpaused s else s
  else s

/-- the concurrency setter -/
def doSetConc (s : St) (n : Nat) : St :=
  let old := s.conc
  let s := { s with conc := n }
  if s.pstate ≠ .running then s else
  let s := if n < old then putPills s (old - n) else if old < n then putPills s 1 else s
  if n > 0 then setUnpaused s else { s with unpaused := false }

/-- a worker task ended (returned or raised): the `asyncio.wait` callbacks run -/
def goneMC (m : MPC) (live : Nat) : MPC :=
  match m with
  | .waitAny false => .waitAny true
  | .shutWorkers false => if live = 0 then .shutWorkers true else .shutWorkers false
  | m => m

def workerGone (s : St) : St := { s with main := goneMC s.main s.live }

/-- the producer task ended: wakes `yield from self._producer_task` -/
def pgoneMC : MPC → MPC
  | .waitProd false => .waitProd true
  | m => m

def prodGone (s : St) : St := { s with main := pgoneMC s.main }

/-! ### workers -/

/-- `ItemQueue.get()` and what follows, for a worker that is not counted in any idle class:
empty → park; pill → exit; item → start task 0 -/
def getStep (s : St) : St :=
  if s.pills > 0 then
    workerGone (notifyProd { s with pills := s.pills - 1, exited := s.exited + 1 })
  else match s.qitem with
    | some i =>
      notifyProd { s with qitem := none, items := s.items.set i (.run 0), busy := s.busy + 1,
                          log := s.log ++ [Ev.mk 0 i false] }
    | none => { s with idleWait := s.idleWait + 1 }

def stepGetw (s : St) : Option St :=
  if s.idleReady > 0 then some (getStep { s with idleReady := s.idleReady - 1 }) else none

def stepTask (c : Cfg) (s : St) (i : Nat) (ok : Bool) : Option St :=
  match s.items[i]? with
  | some (.run k) =>
    if ok then
      let s := { s with log := s.log ++ [Ev.mk k i true] }
      if k < c.K then
        some { s with items := s.items.set i (.run (k + 1)), log := s.log ++ [Ev.mk (k + 1) i false] }
      else
        -- last task: item_done(), then the worker loop calls get() again
        let s := notifyProd { s with items := s.items.set i .done, busy := s.busy - 1,
                                     unfinished := s.unfinished - 1 }
        some (getStep s)
    else
      some (workerGone { s with items := s.items.set i (.failed k), busy := s.busy - 1,
                                failedW := s.failedW + 1, failedItems := s.failedItems + 1 })
  | _ => none

/-! ### producer -/

/-- `_run_producer_wrapper`: the producer coroutine returned → `self.stop()` -/
def prodFinish (c : Cfg) (s : St) : St :=
  prodGone { doStop c s with prod := .finished }

/-- top of `while self._running:` in `Producer.process` -/
def prodLoop (c : Cfg) (s : St) : St :=
  if s.prodRunning then { s with prod := .getPark, srcCalls := s.srcCalls + 1 }
  else prodFinish c s

/-- the body of `put_item` once `qsize() == 0` -/
def putNow (s : St) (i : Nat) : St :=
  wakeGetters { s with unfinished := s.unfinished + 1, qitem := some i,
                       items := s.items.set i .queued } 1

def stepProd (c : Cfg) (s : St) : Option St :=
  match s.prod with
  | .cancelReq => some (prodGone { s with prod := .cancelled })
  | .start =>
    if c.fx.startGuard && s.pstate != .running then some (prodFinish c s)
    else some (prodLoop c { s with prodRunning := true })
  | .getPark =>
    let i := s.items.length
    if i < c.n then
      let s := { s with items := s.items ++ [.held] }
      if s.qsize = 0 then some (prodLoop c (putNow s i))
      else some { s with prod := .putWait false }
    else if c.srcFail then
      some (prodGone { doStop c s with prod := .failed, srcFailed := true })
    else if s.unfinished = 0 then
      some (prodFinish c { s with prodRunning := false })
    else some { s with prod := .waitWorker false }
  | .putWait true =>
    if s.qsize = 0 then some (prodLoop c (putNow s (s.items.length - 1)))
    else some { s with prod := .putWait false }
  | .waitWorker true => some (prodLoop c s)
  | _ => none

/-! ### `Pipeline.process()` -/

/-- `yield from self._producer_task` and the end of `_shutdown_processing` -/
def awaitProd (s : St) : St :=
  match s.prod with
  | .failed => { s with main := .raised }
  | .finished | .cancelled => { s with main := .returned, pstate := .stopped }
  | _ => { s with main := .waitProd false }

/-- `_shutdown_processing` after the workers are gone -/
def shutProd (c : Cfg) (s : St) : St :=
  if c.fx.reapOnShutdown && s.failedW > 0 then { s with main := .raised } else
  let s := { s with exited := 0, failedW := 0 }
  match s.prod with
  | .failed | .finished | .cancelled => awaitProd s
  | _ => if c.fx.cancelProducer then { s with prod := .cancelReq, main := .waitProd false }
         else { s with main := .waitProd false }

def shutdown (c : Cfg) (s : St) : St :=
  if s.wt > 0 then { s with main := .shutWorkers (s.live = 0) } else shutProd c s

/-- `while self._state == running: _process_one_worker()` up to the next suspension -/
def mainLoop (c : Cfg) (s : St) : St :=
  if s.pstate = .running then
    let s := if s.wt < s.conc then { s with idleReady := s.idleReady + (s.conc - s.wt) } else s
    if s.wt > 0 then { s with main := .waitAny false }
    else if s.unpaused then { s with main := .spin }
    else { s with main := .waitUnpaused false }
  else shutdown c s

def stepMain (c : Cfg) (s : St) : Option St :=
  match s.main with
  | .init =>
    let s := { s with pstate := .running, prod := .start,
                      unpaused := if c.fx.pauseAtStart then decide (s.conc > 0) else true }
    some (mainLoop c s)
  | .waitAny true =>
    if s.failedW > 0 then some { s with main := .raised }
    else some (mainLoop c { s with exited := 0 })
  | .waitUnpaused true => some (mainLoop c s)
  | .shutWorkers true => some (shutProd c s)
  | .waitProd true => some (awaitProd s)
  | _ => none

def step (c : Cfg) (s : St) : Act → Option St
  | .prod => stepProd c s
  | .main => stepMain c s
  | .getw => stepGetw s
  | .task i ok => stepTask c s i ok
  | .stop => if s.main = .init then none else some (doStop c { s with stopReq := true })
  | .setConc n => if s.main = .init then none else some (doSetConc s n)

def runActs (c : Cfg) (s : St) : List Act → Option St
  | [] => some s
  | a :: as => match step c s a with
    | some s' => runActs c s' as
    | none => none

/-- is an internal step (not `stop` / `setConc`) possible? -/
def prodReady (s : St) : Bool :=
  match s.prod with
  | .start | .getPark | .putWait true | .waitWorker true | .cancelReq => true
  | _ => false

def mainReady (s : St) : Bool :=
  match s.main with
  | .init | .waitAny true | .waitUnpaused true | .shutWorkers true | .waitProd true => true
  | _ => false

def isRun : Ph → Bool
  | .run _ => true
  | _ => false

def quiescent (s : St) : Bool :=
  !prodReady s && !mainReady s && s.idleReady == 0 && !s.items.any isRun

def mainDone (s : St) : Bool :=
  match s.main with
  | .returned | .raised => true
  | _ => false


/-! ### a second `process()` on the same `Pipeline` object

`pipeline.concurrency = k` (state `stopped`: only the number is stored) followed by the first step of a new
`process()` call on the object a finished run left behind: the queue (left-over pills / item), the unfinished
count and `Producer._running` are what they were; a new producer task is created. -/

def restartSt (c : Cfg) (k : Nat) (s : St) : St :=
  mainLoop c { s with conc := k, pstate := .running, prod := .start, stopReq := false,
                      unpaused := if c.fx.pauseAtStart then decide (k > 0) else (decide (k > 0) || s.unpaused) }

/-- steps of a history with several runs: `none` = process() again with concurrency `k` -/
def stepR (c : Cfg) (s : St) : Act ⊕ Nat → Option St
  | .inl a => step c s a
  | .inr k => if s.main = .returned then some (restartSt c k s) else none

/-! ### `Application.run()` over the pipeline series (`wpull/application/app.py`)

```
for pipeline in self._pipeline_series.pipelines:
    if self._state == stopping and pipeline.skippable: continue
    try: yield from pipeline.process()
    except Exception: … break
```
`stopDuring = some j`: `Application.stop()` is called while pipeline `j` runs (state := stopping, the
running pipeline is stopped); `failIn = some j`: `pipeline j .process()` raises. -/

structure PipeSpec where
  work : Bool        -- the pipeline's source hands out work items (not the one-shot housekeeping `AppSource`)
  skippable : Bool
  deriving DecidableEq, Repr

/-- indexes of the pipelines that are started, in order -/
def appRun : List PipeSpec → Nat → Bool → Option Nat → Option Nat → List Nat
  | [], _, _, _, _ => []
  | p :: ps, i, stopping, sd, fi =>
    if stopping && p.skippable then appRun ps (i + 1) stopping sd fi
    else if fi == some i then [i]
    else i :: appRun ps (i + 1) (stopping || sd == some i) sd fi

/-- where, relative to pipeline `j`, `Application.stop()` is called: from a `pipeline_begin` listener (after the
skippable test, before `process()`), while `process()` runs (a task, a signal — also in the steps in which the
pipeline is already `stopping` / `stopped` but `process()` has not returned), or from a `pipeline_end` listener -/
inductive StopAt | begin | during | «end»
  deriving DecidableEq, Repr

/-- `Application.run()` with the stop point made explicit; `Application.stop()` sets the application state to
`stopping` whatever the state of the current pipeline is -/
def appRunP : List PipeSpec → Nat → Bool → Option (StopAt × Nat) → Option Nat → List Nat
  | [], _, _, _, _ => []
  | p :: ps, i, stopping, sp, fi =>
    if stopping && p.skippable then appRunP ps (i + 1) stopping sp fi
    else
      let s1 := stopping || sp == some (.begin, i)      -- pipeline_begin listeners
      let s2 := s1 || sp == some (.during, i)           -- process()
      if fi == some i then [i]
      else i :: appRunP ps (i + 1) (s2 || sp == some (.end, i)) sp fi   -- pipeline_end listeners

/-- the series `Builder._build_pipelines` builds: start-up, download, download-stop, link conversion, shutdown -/
def wpullSeries : List PipeSpec :=
  [⟨false, false⟩, ⟨true, true⟩, ⟨false, true⟩, ⟨true, true⟩, ⟨false, false⟩]

end Wpull.Pipeline
