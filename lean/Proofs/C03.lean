/-
C03 — A killed crawl resumes from its database without loss or refetch.

Property theorems over `Wpull.Crawl` with the `crash` event (the process dies
between any two database transactions: the volatile state — items in flight,
their scraped link batches — is gone, the table stays) and the `restart` event
(`release()` + insert-or-ignore of the start URLs).  `Reach … true` = all runs
with any number of crashes and restarts at any position.
-/
import Proofs.C01
namespace Wpull.Crawl

variable {c : Cfg} {conc : Nat} {starts : List Url} {s s' : St}

/-- later states of a run -/
inductive Steps (c : Cfg) (conc : Nat) (starts : List Url) : St → St → Prop
  | refl {s : St} : Steps c conc starts s s
  | step {s s' s'' : St} {e : Ev} : Steps c conc starts s s' → step c conc starts s' e = some s'' →
      Steps c conc starts s s''

theorem Steps.reach {k : Bool} (hk : k = true) (h0 : Reach c conc starts k s) (h : Steps c conc starts s s') :
    Reach c conc starts k s' := by
  induction h with
  | refl => exact h0
  | step _ hs ih => exact .step ih (by intro hf; rw [hk] at hf; cases hf) hs

/-! ## Property theorems -/

/-- **C03 (nothing stuck)** Right after a restart no URL is left in progress. -/
theorem nothing_stuck (h : step c conc starts s .restart = some s') :
    ∀ r ∈ s'.table, r.status ≠ .inProgress := by
  obtain ⟨_, rfl⟩ := step_restart h
  intro x hx
  rcases addMany_mem _ _ x hx with hx | hx
  · exact release_no_inProgress _ _ hx
  · rw [startRows_todo starts x hx.1]; simp

/-- **C03 (nothing lost — every crash point)** In every reachable state — in
particular in the state a kill leaves behind, wherever it strikes, and after
any restart — for every URL recorded with a final or error status, all links
its visit offered are recorded in the table, and all its requests were made.
(The repaired order: children are stored *before* the status is written.) -/
theorem nothing_lost (hw : c.WF) (h : Reach c conc starts true s) :
    ∀ o ∈ s.outs, ∀ r ∈ s.table, r.url = o.url →
      (r.status = .done ∨ r.status = .skipped ∨ r.status = .error) →
      (∀ k ∈ (c.visit o).children, k.url ∈ urls s.table) ∧ (∀ v ∈ (c.visit o).requests, v ∈ s.log) := by
  have ha := reach_invA hw h
  have hb := reach_invB hw h
  intro o ho r hr hu hs
  rcases hb.kids o ho with hk | ⟨y, hy, h1, _, _, _, h5⟩
  · exact hk
  · have : y = r := row_unique ha.nodup hy hr (by rw [h1, hu])
    subst this
    rcases hs with h | h | h <;> rcases h5 with h' | h' <;> rw [h] at h' <;> cases h'

/-- one step never un-does a `done` row and never hands it out again -/
theorem done_stable_step (hw : c.WF) (ha : InvA s) {e : Ev} (hs : step c conc starts s e = some s')
    (r : Row) (hr : r ∈ s.table) (hd : r.status = .done) :
    r ∈ s'.table ∧ (∀ o ∈ s'.outs, o.url = r.url → o ∈ s.outs) := by
  cases e with
  | checkOut =>
    obtain ⟨x, _, _, hx, rfl⟩ := step_checkOut hs
    have hxm := nextRow_some hx
    have hne : r.url ≠ x.url := by
      intro e
      have : r = x := row_unique ha.nodup hr hxm.1 e
      subst this
      rcases hxm.2 with h | h <;> rw [hd] at h <;> cases h
    refine ⟨setStatus_mem_other _ _ _ _ _ hr hne, ?_⟩
    intro o ho hu
    rcases List.mem_append.mp ho with ho | ho
    · exact ho
    · simp only [List.mem_singleton] at ho; subst ho; exact absurd hu.symm hne
  | request u => obtain ⟨_, _, _, _, _, rfl⟩ := step_request hs; exact ⟨hr, fun o ho _ => ho⟩
  | flush u => obtain ⟨_, _, _, rfl⟩ := step_flush hs; exact ⟨addMany_old _ _ _ hr, fun o ho _ => ho⟩
  | checkIn u =>
    obtain ⟨x, _, hf, rfl⟩ := step_checkIn hs
    have hf' := findItem_some hf
    have hrow := ha.itemRow _ hf'.1
    have hne : r.url ≠ u := by
      intro e
      have : r = x := row_unique ha.nodup hr hrow.1 (by rw [e, hf'.2])
      subst this
      have := hrow.2; rw [hd] at this; cases this
    exact ⟨setStatus_mem_other _ _ _ _ _ hr hne, fun o ho _ => ho⟩
  | crash => obtain ⟨_, rfl⟩ := step_crash hs; exact ⟨hr, fun o ho _ => ho⟩
  | restart =>
    obtain ⟨_, rfl⟩ := step_restart hs
    have := mem_release_of s.table r hr
    simp only [hd] at this
    exact ⟨addMany_old _ _ _ (by simpa using this), fun o ho _ => ho⟩

/-- **C03 (no refetch of done)** A URL recorded as done — e.g. before a kill —
stays done through every later event (crash, restart, any schedule) and is
never handed to a worker again. -/
theorem no_refetch_of_done (hw : c.WF) (h0 : Reach c conc starts true s) (h : Steps c conc starts s s')
    (r : Row) (hr : r ∈ s.table) (hd : r.status = .done) :
    r ∈ s'.table ∧ (∀ o ∈ s'.outs, o.url = r.url → o ∈ s.outs) := by
  induction h with
  | refl => exact ⟨hr, fun o ho _ => ho⟩
  | @step s' s'' e hst hs ih =>
    have ha := reach_invA hw (hst.reach rfl h0)
    have := done_stable_step hw ha hs r ih.1 hd
    exact ⟨this.1, fun o ho hu => ih.2 o (this.2 o ho hu) hu⟩

/-- **C03 (the runs together are complete)** For a level-free scope: however
often the crawl is killed and rerun, once a run comes to its end the table
holds exactly the discoverable URLs, all final, and every accepted discoverable
URL — everything an uninterrupted crawl requests (`complete_exactly_once`) —
has been requested by one of the runs. -/
theorem union_complete {acc : Url → Bool} {links : Url → List Child} (hs : Simple c acc links)
    (h : Reach c conc starts true s) (hq : quiescent s = true) :
    (∀ u, u ∈ urls s.table ↔ Disc starts acc links u) ∧
    (∀ r ∈ s.table, r.status = .done ∨ r.status = .skipped) ∧
    (∀ u, Disc starts acc links u → acc u = true → u ∈ s.log) := by
  have hw := hs.noFail.wf
  have hb := reach_invB hw h
  have hfin := all_final hw h hq
  refine ⟨fun u => ⟨table_sub_disc hs h u, disc_sub_table hs h hq u⟩, hfin, ?_⟩
  intro u hd hacc
  obtain ⟨x, hx, e⟩ := mem_urls.mp (disc_sub_table hs h hq u hd)
  have hxs := hfin x hx
  obtain ⟨o, ho, eo⟩ := hb.notTodoOut x hx (by rcases hxs with h | h <;> rw [h] <;> simp)
  have := (nothing_lost hw h o ho x hx eo.symm (by rcases hxs with h | h <;> simp [h])).2
  have hao : acc o.url = true := by rw [eo, e]; exact hacc
  rw [hs.visit_acc o hao] at this
  have := this o.url (by simp)
  rwa [eo, e] at this

/-- a kill during start-up (before the start URLs are committed) leaves the empty database;
starting again from it is exactly `init` -/
theorem boot_restart (c : Cfg) (conc : Nat) (starts : List Url) :
    step c conc starts { table := [], inflight := [], log := [], outs := [], down := true } .restart
      = some (init starts) := by
  simp [step, init, release]

/-! ## Non-vacuity: a kill between the children insert and the status write, then a rerun -/

example : (run demoCfg 4 [0] (init [0])
    [.checkOut, .request 0, .flush 0, .crash, .restart, .checkOut, .request 0, .flush 0, .checkIn 0,
     .checkOut, .request 1, .flush 1, .checkIn 1, .checkOut, .request 2, .flush 2, .checkIn 2,
     .checkOut, .request 3, .flush 3, .checkIn 3, .checkOut, .flush 4, .checkIn 4]).map
      (fun s => (quiescent s, s.log)) = some (true, [0, 0, 1, 2, 3]) := by
  decide

/-- **C03 (the runs together, record-dependent scopes)** For a scope that depends on depth / requisite-ness
(`Scoped`): however often the crawl is killed and rerun, once a run comes to its end every row is final,
the table is closed under the links of its accepted stored records, every row has its provenance, and
every URL whose stored record is in scope has been requested by one of the runs. -/
theorem records_closed_after_any_kills {acc : Row → Bool} {links : Row → List Child} (hs : Scoped c acc links)
    (h : Reach c conc starts true s) (hq : quiescent s = true) :
    (∀ r ∈ s.table, r.status = .done ∨ r.status = .skipped) ∧
    (∀ u ∈ starts, u ∈ urls s.table) ∧
    (∀ x ∈ s.table, acc x = true → ∀ k ∈ links x, k.url ∈ urls s.table) ∧
    (∀ x ∈ s.table, (x.url ∈ starts ∧ x.level = 0 ∧ x.inline = none) ∨
        ∃ p ∈ s.table, acc p = true ∧ ∃ k ∈ links p, keyEq x (childRow p k)) ∧
    (∀ x ∈ s.table, acc x = true → x.url ∈ s.log) := by
  have hw := hs.noFail.wf
  have ha := reach_invA hw h
  have hb := reach_invB hw h
  have hc := reach_invC hw h
  have hfin := all_final hw h hq
  have hkids : ∀ x ∈ s.table, acc x = true →
      (∀ k ∈ links x, k.url ∈ urls s.table) ∧ x.url ∈ s.log := by
    intro x hx hacc
    obtain ⟨o, ho, hko⟩ := out_of_final_row hw h hx (hfin x hx)
    have hacco : acc o = true := by rw [← hs.key_acc x o hko]; exact hacc
    rcases hb.kids o ho with hk' | ⟨y, hy, h1, _, _, _, h5⟩
    · rw [hs.visit_acc o hacco] at hk'
      refine ⟨fun k hk => hk'.1 k (by rw [← hs.key_links x o hko]; exact hk), ?_⟩
      rw [hko.1]; exact hk'.2 o.url (by simp)
    · have : y = x := row_unique ha.nodup hy hx (h1.trans hko.1.symm)
      subst this
      rcases hfin y hy with h | h <;> rcases h5 with h' | h' <;> rw [h] at h' <;> cases h'
  refine ⟨hfin, hb.startsIn, fun x hx hacc => (hkids x hx hacc).1, ?_, fun x hx hacc => (hkids x hx hacc).2⟩
  intro x hx
  rcases hc.prov x hx with hp | ⟨o, ho, k, hk, hkx⟩
  · exact Or.inl hp
  · right
    obtain ⟨p, hp, hkp⟩ := hc.outKey o ho
    cases hacco : acc o
    · rw [hs.visit_rej o hacco] at hk; cases hk
    · rw [hs.visit_acc o hacco] at hk
      refine ⟨p, hp, by rw [hs.key_acc p o hkp]; exact hacco, k, ?_, hkx.trans (keyEq_childRow hkp k).symm⟩
      rw [hs.key_links p o hkp]; exact hk

end Wpull.Crawl
