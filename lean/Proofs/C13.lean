/-
C13 — The pipeline runs every item through every task once, and always finishes.
Property theorems over the model `Wpull.Pipeline` (repaired code: `Fix.all`).
-/
import Proofs.Lemmas.PipelineBase
import Proofs.Lemmas.PipelineInvA
import Proofs.Lemmas.PipelineInvB
import Proofs.Lemmas.PipelineInvC
import Proofs.Lemmas.PipelineLog
import Proofs.Lemmas.PipelineInvR2
import Proofs.Lemmas.PipelineTerm
import Proofs.Lemmas.PipelineInvE
import Proofs.Lemmas.PipelineInvQ
namespace Wpull.Pipeline

/-! ## helper lemmas -/

theorem invN_step {c : Cfg} (hfx : c.fx = Fix.all) {s s' : St} {a : Act} (h : InvN s)
    (hs : step c s a = some s') : InvN s' := by
  cases a with
  | prod => exact invN_prod hfx h hs
  | main => exact invN_main hfx h hs
  | getw => exact invN_getw h hs
  | task i ok => exact invN_task h hs
  | stop => exact invN_stop hfx h hs
  | setConc n => exact invN_setConc h hs

theorem invN_reach {c : Cfg} (hfx : c.fx = Fix.all) {conc0 : Nat} {s : St} (hr : Reach c conc0 s) : InvN s := by
  induction hr with
  | init => exact invN_init conc0
  | step a _ hs ih => exact invN_step hfx ih hs

theorem countRun_zero {l : List Ph} (h : l.any isRun = false) : countRun l = 0 := by
  induction l with
  | nil => rfl
  | cons a l ih => simp at h; simp [countRun, h.1, ih (by simpa using h.2)]

theorem inv_reach {c : Cfg} (hfx : c.fx = Fix.all) {conc0 : Nat} {s : St} (hr : Reach c conc0 s) :
    InvN s ∧ InvLs c s ∧ InvR c s := by
  induction hr with
  | init => exact ⟨invN_init conc0, invL_init c.n c.K, invR_init c conc0⟩
  | step a _ hs ih => exact ⟨invN_step hfx ih.1 hs, invL_step ih.1 ih.2.1 hs, invR_step hfx ih.1 ih.2.2 hs⟩

theorem pre_prefix (k d : Nat) : pre k <+: pre (k + d) := by
  induction d with
  | zero => exact List.prefix_refl _
  | succ d ih =>
    show pre k <+: pre (k + d) ++ [(k + d, false), (k + d, true)]
    exact ih.trans (List.prefix_append _ _)

theorem expected_prefix {K : Nat} {p : Ph} (h : phaseOk K p) : expected K p <+: pre (K + 1) := by
  have hrun : ∀ k, k ≤ K → pre k ++ [(k, false)] <+: pre (K + 1) := by
    intro k hk
    have h1 : pre k ++ [(k, false)] <+: pre (k + 1) := by
      show pre k ++ [(k, false)] <+: pre k ++ [(k, false), (k, true)]
      exact (List.prefix_append_right_inj _).mpr ⟨[(k, true)], rfl⟩
    have h2 := pre_prefix (k + 1) (K - k)
    rw [show k + 1 + (K - k) = K + 1 by omega] at h2
    exact h1.trans h2
  cases p with
  | held => exact List.nil_prefix
  | queued => exact List.nil_prefix
  | run k => exact hrun k h
  | done => exact List.prefix_refl _
  | failed k => exact hrun k h

/-- the pipeline is paused on purpose: running with concurrency 0 -/
def paused (s : St) : Prop := s.pstate = .running ∧ s.conc = 0

/-! ## Property theorems -/

theorem no_hang_of_inv {s : St} (h : InvN s) (hq : quiescent s = true) (hp : ¬ paused s) : mainDone s = true := by
  obtain_inv h
  simp only [quiescent, Bool.and_eq_true, Bool.not_eq_true', beq_iff_eq] at hq
  obtain ⟨⟨⟨hq1, hq2⟩, hq3⟩, hq4⟩ := hq
  have hb := countRun_zero hq4
  simp only [paused] at hp
  destruct_st s
  simp only [St.qi, St.qsize, St.live, St.wt] at *
  rcases main with _ | w | w | w | w | _ | _ | _
  all_goals (try rcases w with _ | _)
  all_goals (try simp [mainReady, mainDone] at hq2 ⊢)
  all_goals (rcases prod with _ | _ | _ | b | b | _ | _ | _ | _)
  all_goals (try rcases b with _ | _)
  all_goals (try simp [prodReady] at hq1)
  all_goals grind

/-- **No hang.**  In every reachable state of the repaired pipeline in which no coroutine can make a
step and no task / `get_item` call is outstanding (`quiescent`), `process()` has completed —
unless the pipeline is paused on purpose (running with concurrency 0, where it waits to be
unpaused).  This is the "always finishes" half of C13 for all item counts, task counts,
concurrency values, schedules, stops, concurrency changes and failures. -/
theorem no_hang {c : Cfg} (hfx : c.fx = Fix.all) {conc0 : Nat} {s : St} (hr : Reach c conc0 s)
    (hq : quiescent s = true) (hp : ¬ paused s) : mainDone s = true :=
  no_hang_of_inv (invN_reach hfx hr) hq hp


/-- **Only source items.**  Every (task, item) event in the log is about an item the source
supplied: its index is below the number of items the source has, and it was taken before. -/
theorem only_source_items {c : Cfg} (hfx : c.fx = Fix.all) {conc0 : Nat} {s : St} (hr : Reach c conc0 s)
    (e : Ev) (he : e ∈ s.log) : e.item < c.n ∧ e.item < s.items.length := by
  obtain ⟨_, hl, _⟩ := inv_reach hfx hr
  have hlt : e.item < s.items.length := by
    rcases Nat.lt_or_ge e.item s.items.length with h | h
    · exact h
    · have := hl.hout e.item h
      simp only [proj, List.map_eq_nil_iff, List.filter_eq_nil_iff] at this
      exact absurd (by simp) (this e he)
  exact ⟨Nat.lt_of_lt_of_le hlt hl.hlen, hlt⟩

/-- **Tasks in order, at most once.**  For every item, its events in the log (in log order) are a
prefix of `start 0, end 0, start 1, end 1, …, start K, end K`: the item passes the tasks in order,
each task at most once, never two at a time — in every reachable state, whatever the schedule,
the concurrency changes, the stops and the failures. -/
theorem tasks_in_order_at_most_once {c : Cfg} (hfx : c.fx = Fix.all) {conc0 : Nat} {s : St}
    (hr : Reach c conc0 s) (i : Nat) : proj i s.log <+: pre (c.K + 1) := by
  obtain ⟨_, hl, _⟩ := inv_reach hfx hr
  rcases Nat.lt_or_ge i s.items.length with h | h
  · have hp : s.items[i]? = some s.items[i] := List.getElem?_eq_getElem h
    obtain ⟨h1, h2⟩ := hl.hin i _ hp
    rw [h1]; exact expected_prefix h2
  · rw [hl.hout i h]; exact List.nil_prefix

theorem all_done_of_counts {l : List Ph} (hu : cnt isU l = 0) (hh : cnt isH l = 0) : ∀ p ∈ l, p = .done := by
  intro p hp
  have h1 := cnt_zero hu p hp
  have h2 := cnt_zero hh p hp
  cases p <;> simp [isU, isH] at h1 h2 ⊢

/-- **Exactly once without a stop.**  If `process()` returned and no `stop()` was requested from
outside, the source was exhausted and every one of its `n` items went through all tasks in order
exactly once (its events are exactly `start 0, end 0, …, start K, end K`). -/
theorem exactly_once_without_stop {c : Cfg} (hfx : c.fx = Fix.all) {conc0 : Nat} {s : St}
    (hr : Reach c conc0 s) (hret : s.main = .returned) (hns : s.stopReq = false) :
    s.items.length = c.n ∧ ∀ i, i < c.n → proj i s.log = pre (c.K + 1) := by
  obtain ⟨hn, hl, hR⟩ := inv_reach hfx hr
  have hps : s.pstate ≠ .running := by
    intro h
    have := hn.hpd
    rcases hR.e7 hret with h1 | h1 <;> exact this (by simp [h1]) h
  have hfin : s.prod = .finished := by
    rcases hR.r1 hns hps (by simp [hret]) with h | h
    · exact h
    · rcases hR.e7 hret with h1 | h1 <;> simp [h] at h1
  obtain ⟨hlen, hunf⟩ := hR.r3 hns hfin
  have hu : cnt isU s.items = 0 := by rw [← hR.r5]; exact hunf
  have hh : cnt isH s.items = 0 := hR.r6 (by simp [hfin]) (by simp [hfin]) (by simp [hfin])
  refine ⟨hlen, fun i hi => ?_⟩
  have hi' : i < s.items.length := by omega
  have hp : s.items[i]? = some s.items[i] := List.getElem?_eq_getElem hi'
  have hd : s.items[i] = .done := all_done_of_counts hu hh _ (List.getElem_mem hi')
  rw [hd] at hp
  exact (hl.hin i _ hp).1

/-- **Returns when exhausted.**  Without a stop request and without a failure, every complete run
(nothing can move, nothing is outstanding) that is not paused on purpose has ended with
`process()` returned and all `n` items through all tasks exactly once. -/
theorem returns_when_exhausted {c : Cfg} (hfx : c.fx = Fix.all) {conc0 : Nat} {s : St}
    (hr : Reach c conc0 s) (hq : quiescent s = true) (hp : ¬ paused s)
    (hns : s.stopReq = false) (hnf : s.failedItems = 0) (hsf : s.srcFailed = false) :
    s.main = .returned ∧ s.items.length = c.n ∧ ∀ i, i < c.n → proj i s.log = pre (c.K + 1) := by
  have hd := no_hang hfx hr hq hp
  obtain ⟨_, _, hR⟩ := inv_reach hfx hr
  have hret : s.main = .returned := by
    cases hm : s.main <;> simp [mainDone, hm] at hd
    · rfl
    · rcases hR.e5 hm with h | h
      · omega
      · simp [hsf] at h
  exact ⟨hret, exactly_once_without_stop hfx hr hret hns⟩

theorem failure_raised_if_done {c : Cfg} (hfx : c.fx = Fix.all) {conc0 : Nat} {s : St}
    (hr : Reach c conc0 s) (hd : mainDone s = true)
    (hf : 0 < s.failedItems ∨ s.srcFailed = true) : s.main = .raised := by
  obtain ⟨hn, _, hR⟩ := inv_reach hfx hr
  cases hm : s.main <;> simp [mainDone, hm] at hd
  · exfalso
    rcases hf with h | h
    · rcases hn.hfail h with h1 | h1
      · have := (hR.e4c hm).2; omega
      · simp [hm] at h1
    · have h1 := hR.e1.mp h
      rcases hR.e7 hm with h2 | h2 <;> simp [h1] at h2
  · rfl

/-- **Errors surface.**  If a task or the source raised, every complete run (that is not paused on
purpose) has ended with `process()` raising — it neither hangs nor returns normally; and
`process()` raises only if something failed. -/
theorem error_surfaces {c : Cfg} (hfx : c.fx = Fix.all) {conc0 : Nat} {s : St}
    (hr : Reach c conc0 s) (hq : quiescent s = true) (hp : ¬ paused s)
    (hf : 0 < s.failedItems ∨ s.srcFailed = true) : s.main = .raised :=
  failure_raised_if_done hfx hr (no_hang hfx hr hq hp) hf

/-- A quiescent paused state with `process()` pending is the idle pause and nothing else: `process()`
sleeps on the unpause event, there is no worker task left at all (in flight, finished or failed and
unobserved), no task has ever raised and the source has not raised. -/
theorem paused_pending_is_idle {c : Cfg} (hfx : c.fx = Fix.all) {conc0 : Nat} {s : St}
    (hr : Reach c conc0 s) (hq : quiescent s = true) (hp : paused s) (hd : mainDone s = false) :
    s.main = .waitUnpaused false ∧ s.wt = 0 ∧ s.failedItems = 0 ∧ s.srcFailed = false := by
  obtain ⟨h, _, hR⟩ := inv_reach hfx hr
  have e1 := hR.e1
  obtain_inv h
  simp only [quiescent, Bool.and_eq_true, Bool.not_eq_true', beq_iff_eq] at hq
  obtain ⟨⟨⟨hq1, hq2⟩, hq3⟩, hq4⟩ := hq
  have hb := countRun_zero hq4
  simp only [paused] at hp
  destruct_st s
  simp only [St.qi, St.qsize, St.live, St.wt] at *
  rcases main with _ | w | w | w | w | _ | _ | _
  all_goals (try rcases w with _ | _)
  all_goals (try simp [mainReady, mainDone] at hq2 hd ⊢)
  all_goals (rcases prod with _ | _ | _ | b | b | _ | _ | _ | _)
  all_goals (try rcases b with _ | _)
  all_goals (try simp [prodReady] at hq1)
  all_goals grind

/-- **A failure always surfaces — paused or not.**  If a task or the source raised, then in EVERY
reachable state in which nothing can move and nothing is outstanding, `process()` has raised:
pausing (concurrency set to 0 while items are in flight, one of which then raises) is no exception,
because `process()` keeps watching the worker tasks that are still in flight and goes to sleep on
the unpause event only when no worker task is left.  (Safety form: no reachable quiescent state has a
failed, unobserved worker task while `process()` is pending.) -/
theorem failure_surfaces_paused_or_not {c : Cfg} (hfx : c.fx = Fix.all) {conc0 : Nat} {s : St}
    (hr : Reach c conc0 s) (hq : quiescent s = true)
    (hf : 0 < s.failedItems ∨ s.srcFailed = true) : s.main = .raised := by
  by_cases hp : paused s
  · cases hd : mainDone s
    · obtain ⟨_, _, h3, h4⟩ := paused_pending_is_idle hfx hr hq hp hd
      rcases hf with h | h
      · omega
      · simp [h4] at h
    · exact failure_raised_if_done hfx hr hd hf
  · exact error_surfaces hfx hr hq hp hf

/-- no reachable quiescent state with `process()` pending holds a failed worker task that nobody observed -/
theorem no_unobserved_failed_worker {c : Cfg} (hfx : c.fx = Fix.all) {conc0 : Nat} {s : St}
    (hr : Reach c conc0 s) (hq : quiescent s = true) (hd : mainDone s = false) : s.failedW = 0 := by
  rcases Nat.eq_zero_or_pos s.failedW with h | h
  · exact h
  · exfalso
    have hfi : 0 < s.failedItems := Nat.lt_of_lt_of_le h (inv_reach hfx hr).2.2.e6
    have := failure_surfaces_paused_or_not hfx hr hq (Or.inl hfi)
    simp [mainDone, this] at hd

theorem raised_only_on_failure {c : Cfg} (hfx : c.fx = Fix.all) {conc0 : Nat} {s : St}
    (hr : Reach c conc0 s) (hm : s.main = .raised) : 0 < s.failedItems ∨ s.srcFailed = true :=
  (inv_reach hfx hr).2.2.e5 hm


/-! ### after a stop request -/

/-- number of items whose first task has started -/
def startsIn (l : List Ev) : Nat := (l.filter (fun e => e.task == 0 && !e.fin)).length

theorem startsIn_append (l1 l2 : List Ev) : startsIn (l1 ++ l2) = startsIn l1 + startsIn l2 := by
  simp [startsIn]

theorem starts_getw {c : Cfg} {s s' : St} (h : InvN s) (hr : InvR c s) (hps : s.pstate ≠ .running)
    (hs : stepGetw s = some s') : s'.log = s.log := by
  obtain_inv h
  obtain_invR hr
  destruct_st s
  simp only [stepGetw] at hs
  split at hs <;> try contradiction
  cases hs
  simp only [St.qi, St.qsize, St.live, St.wt] at *
  simp only [getStep, notifyProd, workerGone]
  split
  · rfl
  · cases hqi : qitem with
    | none => rfl
    | some i => exfalso; grind

/-- **After a stop: no further work is taken.**  In every step taken from a state in which the
pipeline is no longer `running` (a `stop()` took effect), `get_item` is not called again and no
item is started: the number of `get_item` calls and the number of "task 0 started" events stay
what they were. -/
theorem no_work_after_stop {c : Cfg} (hfx : c.fx = Fix.all) {conc0 : Nat} {s s' : St} {a : Act}
    (hr : Reach c conc0 s) (hps : s.pstate ≠ .running) (hm : s.main ≠ .init) (hs : step c s a = some s') :
    s'.srcCalls = s.srcCalls ∧ startsIn s'.log = startsIn s.log := by
  obtain ⟨hn, _, hR⟩ := inv_reach hfx hr
  have hrun := hR.s2 hps
  cases a with
  | prod =>
    refine ⟨?_, by rw [same_prod_log hs]⟩
    destruct_st s
    simp only at hps hrun hm
    simp only [step, stepProd, prodLoop, prodFinish, putNow, doStop, hfx, Fix.all, putPills, wakeGetters,
      setUnpaused, prodGone, hrun, hps, if_true, Bool.true_and, bne_iff_ne, ne_eq, not_false_eq_true,
      if_false, decide_true] at hs
    repeat' split at hs
    all_goals first
      | contradiction
      | (cases hs; rfl)
      | (cases hs; simp_all)
  | main =>
    have := same_main hs
    refine ⟨?_, by rw [this.2]⟩
    simp only [step, stepMain, mainLoop, shutdown, shutProd, awaitProd] at hs
    repeat' split at hs
    all_goals first
      | contradiction
      | (cases hs; rfl)
  | getw =>
    have hl := starts_getw hn hR hps hs
    refine ⟨?_, by rw [hl]⟩
    simp only [step, stepGetw, getStep, notifyProd, workerGone] at hs
    repeat' split at hs
    all_goals first
      | contradiction
      | (cases hs; rfl)
  | task i ok =>
    simp only [step, stepTask] at hs
    split at hs
    · rename_i k hrunk
      split at hs
      · split at hs
        · cases hs
          refine ⟨rfl, ?_⟩
          simp [startsIn]
        · have hmid : stepGetw (midSt s i k) = some s' := by
            cases hs; simp [stepGetw, notifyProd, midSt]
          have hl := starts_getw (invN_midSt hn hrunk) (invR_midSt hn hR hrunk) (by simpa [midSt, notifyProd] using hps) hmid
          constructor
          · simp only [stepGetw, getStep, notifyProd, workerGone] at hmid
            repeat' split at hmid
            all_goals first
              | contradiction
              | (cases hmid; rfl)
          · rw [hl]; simp [midSt, notifyProd, startsIn]
      · cases hs; exact ⟨rfl, rfl⟩
    · contradiction
  | stop =>
    have := same_stop hs
    refine ⟨?_, by rw [this.2]⟩
    simp only [step, doStop, hps] at hs
    repeat' split at hs
    all_goals first
      | contradiction
      | (cases hs; rfl)
  | setConc n =>
    have := same_setConc hs
    refine ⟨?_, by rw [this.2]⟩
    simp only [step, doSetConc, putPills, wakeGetters, setUnpaused] at hs
    repeat' split at hs
    all_goals first
      | contradiction
      | (cases hs; rfl)

theorem getStep_stopReq (s : St) : (getStep s).stopReq = s.stopReq := by
  simp only [getStep, notifyProd, workerGone]; repeat' split
  all_goals rfl

theorem doStop_stopReq (c : Cfg) (s : St) : (doStop c s).stopReq = s.stopReq := by
  simp only [doStop, putPills, wakeGetters, setUnpaused]; repeat' split
  all_goals rfl

theorem prodLoop_stopReq (c : Cfg) (s : St) : (prodLoop c s).stopReq = s.stopReq := by
  simp only [prodLoop, prodFinish, prodGone]; split <;> simp [doStop_stopReq]

/-- a stop request is never forgotten -/
theorem stopReq_mono {c : Cfg} {s s' : St} {a : Act} (hs : step c s a = some s') (h : s.stopReq = true) :
    s'.stopReq = true := by
  cases a with
  | prod =>
    simp only [step, stepProd] at hs
    repeat' split at hs
    all_goals first
      | contradiction
      | (cases hs; simp [prodLoop_stopReq, prodFinish, prodGone, doStop_stopReq, putNow, wakeGetters, h])
  | main =>
    simp only [step, stepMain, mainLoop, shutdown, shutProd, awaitProd] at hs
    repeat' split at hs
    all_goals first
      | contradiction
      | (cases hs; simp [h])
  | getw =>
    simp only [step, stepGetw] at hs
    split at hs
    · cases hs; rw [getStep_stopReq]; exact h
    · contradiction
  | task i ok =>
    simp only [step, stepTask] at hs
    repeat' split at hs
    all_goals first
      | contradiction
      | (cases hs; simp [getStep_stopReq, notifyProd, workerGone, h])
  | stop =>
    simp only [step] at hs
    split at hs
    · contradiction
    · cases hs; rw [doStop_stopReq]
  | setConc n =>
    simp only [step, doSetConc, putPills, wakeGetters, setUnpaused] at hs
    repeat' split at hs
    all_goals first
      | contradiction
      | (cases hs; simp [h])

/-- **After a stop request no item begins.**  From the moment `stop()` has been requested, along EVERY
continuation of the run (any further steps, completions, failures, concurrency changes, further stops):
no item begins its first task — the number of "task 0 started" events never grows, so an item that
was merely queued (or held by the producer) when the stop came is never processed, only the items
already inside a task finish — and `get_item` is never called again.  (The queue hands out poison pills
before any queued item, and `stop()` inserts one pill per worker task.) -/
theorem no_item_begins_after_stop_request {c : Cfg} (hfx : c.fx = Fix.all) {conc0 : Nat} :
    ∀ (acts : List Act) (s s' : St), Reach c conc0 s → s.stopReq = true → runActs c s acts = some s' →
      startsIn s'.log = startsIn s.log ∧ s'.srcCalls = s.srcCalls
  | [], s, s', _, _, h => by simp [runActs] at h; subst h; exact ⟨rfl, rfl⟩
  | a :: as, s, s', hr, hstop, h => by
    simp only [runActs] at h
    split at h
    · rename_i s1 hs1
      have hR := (inv_reach hfx hr).2.2
      have hps := hR.r0 hstop
      have hm : s.main ≠ .init := fun e => by have := hR.rinit e; simp [hstop] at this
      have h1 := no_work_after_stop hfx hr hps hm hs1
      have h2 := no_item_begins_after_stop_request hfx as s1 s' (Reach.step a hr hs1) (stopReq_mono hs1 hstop) h
      exact ⟨h2.1.trans h1.2, h2.2.trans h1.1⟩
    · contradiction

/-- **Returned means nothing is in flight.**  When `process()` has returned no worker task is alive and
no item is inside a task: every item that began has either passed every task or its failure was raised. -/
theorem returned_nothing_in_flight {c : Cfg} (hfx : c.fx = Fix.all) {conc0 : Nat} {s : St}
    (hr : Reach c conc0 s) (hret : s.main = .returned) :
    s.live = 0 ∧ s.failedItems = 0 ∧ ∀ (i k : Nat), s.items[i]? ≠ some (Ph.run k) := by
  obtain ⟨hn, _, hR⟩ := inv_reach hfx hr
  have hl := (hR.e4c hret).1
  have hf : s.failedItems = 0 := by
    rcases Nat.eq_zero_or_pos s.failedItems with h | h
    · exact h
    · rcases hn.hfail h with h1 | h1
      · have := (hR.e4c hret).2; omega
      · simp [hret] at h1
  refine ⟨hl, hf, fun i k hik => ?_⟩
  have := countRun_pos hik
  have hb := hn.hbusy
  simp only [St.live] at hl
  omega

/-- **Returns after a stop.**  Once `stop()` has been requested, every complete run has ended with
`process()` completed (returned, or raised if something failed): together with
`no_work_after_stop` — no further `get_item`, no further item started, so only the items in
flight finish — this is the stop clause of C13. -/
theorem returns_after_stop {c : Cfg} (hfx : c.fx = Fix.all) {conc0 : Nat} {s : St}
    (hr : Reach c conc0 s) (hstop : s.stopReq = true) (hq : quiescent s = true) :
    s.pstate ≠ .running ∧ mainDone s = true := by
  have hps := (inv_reach hfx hr).2.2.r0 hstop
  exact ⟨hps, no_hang hfx hr hq (fun h => hps h.1)⟩


/-! ### termination -/

/-- `IStep s' s`: `s` is reachable and `s'` is the result of one internal step (a step of the
producer, of `process()`, of a worker, or a task completing/raising — not `stop()` / `concurrency = n`). -/
def IStep (c : Cfg) (conc0 : Nat) (s' s : St) : Prop :=
  Reach c conc0 s ∧ ∃ a, a.internal = true ∧ step c s a = some s'

/-- **No livelock (termination by a measure).**  The internal-step relation on reachable states is
well founded: the pair (rank, potential) — rank: not started > running > stopping/stopped; potential:
remaining source items, item phases, producer pc, pills, idle workers, unreaped workers, main pc,
workers still to be created — decreases lexicographically on every internal step. -/
theorem terminates {c : Cfg} (hfx : c.fx = Fix.all) (conc0 : Nat) : WellFounded (IStep c conc0) := by
  have hwf : WellFounded (InvImage (Prod.Lex (· < ·) (· < ·)) (fun s : St => (rank s, phi c s))) :=
    InvImage.wf _ (Prod.lex Nat.lt_wfRel Nat.lt_wfRel).wf
  refine Subrelation.wf ?_ hwf
  intro s' s ⟨hr, a, ha, hs⟩
  have hd := decr_step hfx (inv_reach hfx hr).1 ha hs
  simp only [InvImage]
  rcases hd with h | ⟨h1, h2⟩
  · exact Prod.Lex.left _ _ h
  · rw [h1]; exact Prod.Lex.right _ h2

/-- **Always finishes.**  There is no infinite run of internal steps: between two control calls
(`stop()`, `concurrency = n`) the pipeline makes finitely many steps, and with `no_hang` the state in
which it comes to rest has `process()` completed (or is paused on purpose). -/
theorem no_infinite_internal_run {c : Cfg} (hfx : c.fx = Fix.all) {conc0 : Nat} (f : Nat → St)
    (h0 : Reach c conc0 (f 0)) : ¬ ∀ i, ∃ a, a.internal = true ∧ step c (f i) a = some (f (i + 1)) := by
  intro hall
  have hreach : ∀ i, Reach c conc0 (f i) := by
    intro i
    induction i with
    | zero => exact h0
    | succ i ih => obtain ⟨a, _, hs⟩ := hall i; exact Reach.step a ih hs
  have key : ∀ s, Acc (IStep c conc0) s → ∀ i, f i = s → False := by
    intro s hacc
    induction hacc with
    | intro s _ ih =>
      intro i hi
      obtain ⟨a, ha, hs⟩ := hall i
      exact ih (f (i + 1)) ⟨hi ▸ hreach i, a, ha, hi ▸ hs⟩ (i + 1) rfl
  exact key (f 0) ((terminates hfx conc0).apply (f 0)) 0 rfl

/-! ### a second `process()` on the same object -/

/-- reachability over histories with several runs: `restart k m` = the source gets `m` fresh items,
`concurrency = k`, and `process()` is called again on the object that a returned run left behind -/
inductive ReachR (conc0 : Nat) : Cfg → St → Prop
  | init (c : Cfg) : ReachR conc0 c (initSt conc0)
  | step {c : Cfg} {s s' : St} (a : Act) : ReachR conc0 c s → step c s a = some s' → ReachR conc0 c s'
  | restart {c : Cfg} {s : St} (k m : Nat) : ReachR conc0 c s → s.main = .returned →
      ReachR conc0 { c with n := c.n + m } (restartSt c k s)

theorem restartSt_items_log (c : Cfg) (k : Nat) (s : St) :
    (restartSt c k s).items = s.items ∧ (restartSt c k s).log = s.log := by
  simp only [restartSt, mainLoop, shutdown, shutProd, awaitProd]
  repeat' split
  all_goals exact ⟨rfl, rfl⟩

theorem invL_mono_n {n n' K : Nat} {items : List Ph} {log : List Ev} (h : InvL n K items log) (hn : n ≤ n') :
    InvL n' K items log := ⟨h.hin, h.hout, Nat.le_trans h.hlen hn⟩

theorem inv_reachR {conc0 : Nat} {c : Cfg} {s : St} (hr : ReachR conc0 c s) (hfx : c.fx = Fix.all) :
    InvN s ∧ InvLs c s ∧ InvE s ∧ InvQ c s := by
  induction hr with
  | init c => exact ⟨invN_init conc0, invL_init c.n c.K, invE_init conc0, invQ_init c conc0⟩
  | step a _ hs ih =>
    have ih := ih hfx
    exact ⟨invN_step hfx ih.1 hs, invL_step ih.1 ih.2.1 hs, invE_step hfx ih.1 ih.2.2.1 hs,
      invQ_step hfx ih.1 ih.2.2.2 hs⟩
  | @restart c0 s0 k m _ hret ih =>
    have hfx0 : c0.fx = Fix.all := hfx
    have ih := ih hfx0
    have h := inv_restart hfx0 k ih.1 ih.2.2.1 hret
    have hil := restartSt_items_log c0 k s0
    refine ⟨h.1, ?_, h.2, invQ_restart hfx0 k m ih.2.2.2 hret⟩
    simp only [InvLs, hil.1, hil.2]
    exact invL_mono_n ih.2.1 (Nat.le_add_right _ _)

/-- **The state a finished run leaves behind is a valid initial state.**  When `process()` has returned — after
any history of runs on this object — no worker task is alive, `_worker_tasks` is empty, the producer task has
ended, no item is inside a task, the pipeline state is `stopped`; and `process()` may be called again with any
concurrency `k`: the control invariant and the run-end invariant hold again at the start of the new run (so
everything derived from them — absence of hangs, tasks in order at most once — holds for the new run as well),
and the new run does not start in the busy loop.  (The condition lock is free in every state of the model: it is
never held across a suspension; the harness checks `Condition.locked()` after every returned run.) -/
theorem run_end_is_valid_start {c : Cfg} (hfx : c.fx = Fix.all) {conc0 : Nat} {s : St} (hr : ReachR conc0 c s)
    (hret : s.main = .returned) :
    (s.live = 0 ∧ s.exited = 0 ∧ s.failedW = 0 ∧ s.pstate = .stopped ∧ (s.prod = .finished ∨ s.prod = .cancelled) ∧
      ∀ (i k : Nat), s.items[i]? ≠ some (Ph.run k)) ∧
    ∀ k, InvN (restartSt c k s) ∧ InvE (restartSt c k s) ∧ (restartSt c k s).main ≠ .spin ∧
      ((restartSt c k s).pstate = .running ∧ ((restartSt c k s).unpaused = true ↔ 0 < k)) := by
  obtain ⟨hn, _, he, _⟩ := inv_reachR hr hfx
  obtain ⟨h1, h2, h3, h4, h5⟩ := he.e_ret hret
  refine ⟨⟨h1, h2, h3, h4, h5, fun i k hik => ?_⟩, fun k => ?_⟩
  · have := countRun_pos hik
    have hb := hn.hbusy
    simp only [St.live] at h1
    omega
  · have h := inv_restart hfx k hn he hret
    refine ⟨h.1, h.2, h.1.hspin, ?_⟩
    have hrun : (restartSt c k s).pstate = .running := by
      simp only [restartSt, mainLoop, shutdown, shutProd, awaitProd]
      repeat' split
      all_goals first | rfl | (rename_i hc; simp at hc)
    refine ⟨hrun, ?_⟩
    have hc : (restartSt c k s).conc = k := by
      simp only [restartSt, mainLoop, shutdown, shutProd, awaitProd]
      repeat' split
      all_goals rfl
    have := h.1.hpause hrun
    rw [hc] at this
    exact this

/-- **No hang in any run.**  `no_hang` for histories with any number of runs on the same object. -/
theorem no_hang_any_run {c : Cfg} (hfx : c.fx = Fix.all) {conc0 : Nat} {s : St} (hr : ReachR conc0 c s)
    (hq : quiescent s = true) (hp : ¬ paused s) : mainDone s = true :=
  no_hang_of_inv (inv_reachR hr hfx).1 hq hp

/-- **Tasks in order, at most once — across runs.**  Over the whole history of an object (several runs), every
item's events are a prefix of start 0, end 0, …, start K, end K: an item left in the queue by a stopped run and
processed by the next run is still processed once. -/
theorem tasks_in_order_at_most_once_any_run {c : Cfg} (hfx : c.fx = Fix.all) {conc0 : Nat} {s : St}
    (hr : ReachR conc0 c s) (i : Nat) : proj i s.log <+: pre (c.K + 1) := by
  obtain ⟨_, hl, _⟩ := inv_reachR hr hfx
  rcases Nat.lt_or_ge i s.items.length with h | h
  · have hp : s.items[i]? = some s.items[i] := List.getElem?_eq_getElem h
    obtain ⟨h1, h2⟩ := hl.hin i _ hp
    rw [h1]; exact expected_prefix h2
  · rw [hl.hout i h]; exact List.nil_prefix

/-- **A run that is not stopped ends only by exhaustion — in every run.**  Over histories with any number of
`process()` calls on one object (the source possibly refilled between them): if the current run has returned and
no `stop()` was requested during it, then the source has been polled until it had nothing left (every item it
holds has been taken), nothing is unfinished, and every item ever taken has passed every task exactly once
(its events are start 0, end 0, …, start K, end K) — except an item a cancelled producer of an earlier, stopped run
was holding (phase `held`: dropped; in wpull the URL stays `in_progress` until the next start). -/
theorem unstopped_run_exhausts_source {c : Cfg} (hfx : c.fx = Fix.all) {conc0 : Nat} {s : St}
    (hr : ReachR conc0 c s) (hret : s.main = .returned) (hns : s.stopReq = false) :
    s.items.length = c.n ∧ s.unfinished = 0 ∧
    ∀ i p, s.items[i]? = some p → (p = .held ∨ (p = .done ∧ proj i s.log = pre (c.K + 1))) := by
  obtain ⟨_, hl, he, hq⟩ := inv_reachR hr hfx
  obtain ⟨_, _, _, hst, hprod⟩ := he.e_ret hret
  have hfin : s.prod = .finished := by
    rcases hq.r1 hns (by simp [hst]) (by simp [hret]) with h | h
    · exact h
    · rcases hprod with h1 | h1 <;> simp [h] at h1
  obtain ⟨hlen, hunf⟩ := hq.r3 hns hfin
  have hu : cnt isU s.items = 0 := by rw [← hq.r5]; exact hunf
  refine ⟨hlen, hunf, fun i p hp => ?_⟩
  have hmem : p ∈ s.items := List.mem_of_getElem? hp
  have h1 := cnt_zero hu p hmem
  cases p with
  | held => exact Or.inl rfl
  | done => exact Or.inr ⟨rfl, (hl.hin i _ hp).1⟩
  | queued => simp [isU] at h1
  | run k => simp [isU] at h1
  | failed k => simp [isU] at h1

def runActsR (c : Cfg) (s : St) : List (Act ⊕ Nat) → Option St
  | [] => some s
  | a :: as => match stepR c s a with
    | some s' => runActsR c s' as
    | none => none

open Act in
/-- non-vacuity: run 1 is stopped with the producer blocked behind a queued item (producer cancelled, item 1 left in
the queue, item 2 dropped), `process()` again with 2 workers: the left-over item 1 is processed by run 2 -/
example : ∃ s, runActsR ⟨3, 0, false, Fix.all⟩ (initSt 1)
      [.inl main, .inl prod, .inl prod, .inl getw, .inl prod, .inl prod, .inl stop, .inl (task 0 true), .inl main,
       .inl prod, .inl main, .inr 2, .inl getw, .inl (task 1 true)] = some s ∧
    s.pstate = .running ∧ s.items = [.done, .done, .held] ∧ proj 1 s.log = pre 1 := by
  decide

open Act in
/-- non-vacuity of `unstopped_run_exhausts_source` for a second run: run 1 ends naturally, `process()` again, the new
producer polls the source (which has nothing left), the run returns, no stop was requested, item 0 is done once.
(With `Producer._running` never set again — seeded C13-13 — the producer of run 2 would not poll the source.) -/
example : ∃ s, runActsR ⟨1, 0, false, Fix.all⟩ (initSt 1)
      [.inl main, .inl prod, .inl prod, .inl getw, .inl prod, .inl (task 0 true), .inl prod, .inl prod, .inl getw,
       .inl main, .inr 1, .inl prod, .inl prod, .inl getw, .inl main] = some s ∧
    s.main = .returned ∧ s.stopReq = false ∧ s.srcCalls = 4 ∧ s.items = [.done] ∧ proj 0 s.log = pre 1 := by
  decide

open Act in
/-- **Unrepaired code (seeded C13-10 / before fix f515763).**  When `process()` does not clear a stale
`_unpaused_event`, a second run started with concurrency 0 spins without yielding (the first run always ends in
`stop()`, which sets the event). -/
theorem restart_paused_counterexample :
    ∃ s, runActsR ⟨0, 0, false, { Fix.all with pauseAtStart := false }⟩ (initSt 1)
      [.inl main, .inl prod, .inl prod, .inl getw, .inl main, .inr 0] = some s ∧ s.main = .spin := by
  decide

/-! ### `Application.run()` over the pipeline series -/

theorem appRun_spec (sd : Nat) (fi : Option Nat) :
    ∀ (ps : List PipeSpec) (i : Nat) (stopping : Bool), (sd < i → stopping = true) →
      ∀ j ∈ appRun ps i stopping (some sd) fi, i ≤ j ∧ ∃ p, ps[j - i]? = some p ∧ (sd < j → p.skippable = false)
  | [], _, _, _, j, hj => by simp [appRun] at hj
  | p :: ps, i, stopping, hst, j, hj => by
    simp only [appRun] at hj
    split at hj
    · rename_i hskip
      have hstt : stopping = true := by simp at hskip; exact hskip.1
      obtain ⟨h1, q, h2, h3⟩ := appRun_spec sd fi ps (i + 1) stopping (fun _ => hstt) j hj
      refine ⟨by omega, q, ?_, h3⟩
      have : j - i = (j - (i + 1)) + 1 := by omega
      rw [this]; simpa using h2
    · rename_i hns
      have here : i ≤ i ∧ ∃ q, (p :: ps)[i - i]? = some q ∧ (sd < i → q.skippable = false) := by
        refine ⟨Nat.le_refl _, p, by simp, fun h => ?_⟩
        have := hst h
        cases hp : p.skippable
        · rfl
        · simp [this, hp] at hns
      split at hj
      · simp at hj; subst hj; exact here
      · rcases List.mem_cons.mp hj with rfl | hj
        · exact here
        · have hst' : sd < i + 1 → (stopping || (some sd == some i)) = true := by
            intro h
            by_cases e : sd = i
            · simp [e]
            · simp [hst (by omega)]
          obtain ⟨h1, q, h2, h3⟩ := appRun_spec sd fi ps (i + 1) _ hst' j hj
          refine ⟨by omega, q, ?_, h3⟩
          have : j - i = (j - (i + 1)) + 1 := by omega
          rw [this]; simpa using h2

/-- **After `Application.stop()` only non-skippable pipelines are started.**  If `stop()` is called while
pipeline `d` runs, every pipeline started later is one that is not flagged skippable — for every series,
every stop position and every failing pipeline. -/
theorem app_after_stop_only_nonskippable (ps : List PipeSpec) (d : Nat) (fi : Option Nat) (j : Nat)
    (hj : j ∈ appRun ps 0 false (some d) fi) (hd : d < j) : ∃ p, ps[j]? = some p ∧ p.skippable = false := by
  obtain ⟨_, p, h2, h3⟩ := appRun_spec d fi ps 0 false (by omega) j hj
  exact ⟨p, by simpa using h2, h3 hd⟩

/-- **No new work after `Application.stop()`.**  If every pipeline whose source hands out work items is
flagged skippable (the table the harness reads from the built application), then after a stop request no
pipeline that takes work items is started: only housekeeping pipelines (start-up / shutdown) still run. -/
theorem app_no_new_work_after_stop (ps : List PipeSpec) (hwf : ∀ p ∈ ps, p.work = true → p.skippable = true)
    (d : Nat) (fi : Option Nat) (j : Nat) (hj : j ∈ appRun ps 0 false (some d) fi) (hd : d < j) :
    ∃ p, ps[j]? = some p ∧ p.work = false := by
  obtain ⟨p, h1, h2⟩ := app_after_stop_only_nonskippable ps d fi j hj hd
  refine ⟨p, h1, ?_⟩
  cases hw : p.work
  · rfl
  · have := hwf p (List.mem_of_getElem? h1) hw
    simp [h2] at this

/-- the stop point within a pipeline's turn does not matter: a stop from a `pipeline_begin` listener, during
`process()` (whatever the pipeline's own state) or from a `pipeline_end` listener of pipeline `j` all make every later
pipeline subject to the skippable test — `appRunP` is `appRun` with `stopDuring = j` -/
theorem appRunP_eq (at_ : StopAt) (j : Nat) (fi : Option Nat) :
    ∀ (ps : List PipeSpec) (i : Nat) (stopping : Bool),
      appRunP ps i stopping (some (at_, j)) fi = appRun ps i stopping (some j) fi
  | [], _, _ => by simp [appRunP, appRun]
  | p :: ps, i, stopping => by
    simp only [appRunP, appRun]
    have hflag : (stopping || some (at_, j) == some (StopAt.begin, i) || some (at_, j) == some (StopAt.during, i) ||
        some (at_, j) == some (StopAt.end, i)) = (stopping || some j == some i) := by
      by_cases h : j = i
      · subst h; cases at_ <;> simp
      · have hne : ∀ x y : StopAt, ((x, j) == (y, i)) = false :=
          fun x y => beq_eq_false_iff_ne.mpr (fun e => h (Prod.mk.inj e).2)
        have hji : (j == i) = false := beq_eq_false_iff_ne.mpr h
        simp [hne, hji]
    rw [hflag, appRunP_eq at_ j fi ps (i + 1) stopping, appRunP_eq at_ j fi ps (i + 1) (stopping || some j == some i)]

/-- **A stop request is never lost between pipelines.**  Wherever in pipeline `d`'s turn `Application.stop()` is
called — from a `pipeline_begin` listener, while `process()` runs or winds down, from a `pipeline_end` listener —
every pipeline begun afterwards is one that is not flagged skippable. -/
theorem app_stop_never_lost (ps : List PipeSpec) (at_ : StopAt) (d : Nat) (fi : Option Nat) (j : Nat)
    (hj : j ∈ appRunP ps 0 false (some (at_, d)) fi) (hd : d < j) : ∃ p, ps[j]? = some p ∧ p.skippable = false := by
  rw [appRunP_eq] at hj
  exact app_after_stop_only_nonskippable ps d fi j hj hd

theorem appRun_all (ps : List PipeSpec) (i : Nat) : appRun ps i false none none = List.range' i ps.length := by
  induction ps generalizing i with
  | nil => simp [appRun]
  | cons p ps ih => simp [appRun, ih, List.range'_succ]

theorem count_range' (j : Nat) : ∀ (n i : Nat), (List.range' i n).count j = if i ≤ j ∧ j < i + n then 1 else 0 := by
  intro n
  induction n with
  | zero => intro i; simp
  | succ n ih =>
    intro i
    rw [List.range'_succ, List.count_cons, ih (i + 1)]
    by_cases h1 : i = j
    · subst h1; simp; omega
    · have : (i == j) = false := by simp [h1]
      simp only [this]
      by_cases h2 : i + 1 ≤ j ∧ j < i + 1 + n
      · have h3 : i ≤ j ∧ j < i + (n + 1) := by omega
        simp [h2, h3]
      · have h3 : ¬ (i ≤ j ∧ j < i + (n + 1)) := by omega
        simp [h2, h3]

/-- **Every pipeline of the series is processed exactly once.**  Without a stop request and without a failing
pipeline, `Application.run()` begins the pipelines `0, 1, …, n-1` of the series in this order, each exactly once —
whatever the flags of the pipelines are.  (In the model the series is a value: reading `series.pipelines` or setting
`series.concurrency` before or during the run cannot change it; the harness builds the real `PipelineSeries` from a
list, a tuple, a generator and an iterator, reads it before and during the run, and compares with this.) -/
theorem app_every_pipeline_once (ps : List PipeSpec) :
    appRun ps 0 false none none = List.range ps.length ∧
    (∀ j, j < ps.length → (appRun ps 0 false none none).count j = 1) := by
  have h : appRun ps 0 false none none = List.range ps.length := by
    rw [appRun_all, List.range_eq_range']
  refine ⟨h, fun j hj => ?_⟩
  rw [h, List.range_eq_range', count_range']
  simp [hj]

/-- wpull's own series satisfies the hypothesis, and e.g. a stop during the download pipeline (1) leaves only
the shutdown pipeline (4); a stop during start-up (0) skips the crawl; without the `skippable` flag on the link
conversion pipeline (seeded change C13-7) it would be started after the stop -/
example : (∀ p ∈ wpullSeries, p.work = true → p.skippable = true) ∧
    appRun wpullSeries 0 false (some 1) none = [0, 1, 4] ∧ appRun wpullSeries 0 false (some 0) none = [0, 4] ∧
    appRun wpullSeries 0 false none none = [0, 1, 2, 3, 4] ∧ appRun wpullSeries 0 false none (some 1) = [0, 1] ∧
    appRun [⟨false, false⟩, ⟨true, true⟩, ⟨false, true⟩, ⟨true, false⟩, ⟨false, false⟩] 0 false (some 1) none = [0, 1, 3, 4] := by
  decide

/-- **Unrepaired code.**  With the download pipeline not flagged skippable (before fix 9d8c872) a stop during
start-up still starts the download pipeline, which takes work items. -/
theorem app_stop_during_startup_counterexample :
    1 ∈ appRun [⟨false, false⟩, ⟨true, false⟩, ⟨false, true⟩, ⟨true, true⟩, ⟨false, false⟩] 0 false (some 0) none := by
  decide

/-! ### witnesses: non-vacuity, and the unrepaired code -/

theorem reach_of_runActs {c : Cfg} {conc0 : Nat} :
    ∀ (acts : List Act) (s0 s : St), Reach c conc0 s0 → runActs c s0 acts = some s → Reach c conc0 s
  | [], s0, s, h0, h => by simp [runActs] at h; exact h ▸ h0
  | a :: as, s0, s, h0, h => by
    simp only [runActs] at h
    split at h
    · rename_i s1 hs1
      exact reach_of_runActs as s1 s (Reach.step a h0 hs1) h
    · contradiction

open Act in
/-- one item, one task, one worker: a complete run (`M P P G P T0 P P G M`) -/
def demoActs : List Act := [main, prod, prod, getw, prod, task 0 true, prod, prod, getw, main]
def demoCfg : Cfg := ⟨1, 0, false, Fix.all⟩

/-- non-vacuity of `returns_when_exhausted` / `exactly_once_without_stop`: the run exists, is quiescent,
returned, and the log is exactly start 0, end 0 of item 0 -/
example : ∃ s, runActs demoCfg (initSt 1) demoActs = some s ∧ quiescent s = true ∧ s.main = .returned ∧
    s.log = [Ev.mk 0 0 false, Ev.mk 0 0 true] ∧ s.stopReq = false ∧ proj 0 s.log = pre 1 := by decide

open Act in
/-- non-vacuity of `error_surfaces`: the task raises, `process()` raises -/
example : ∃ s, runActs demoCfg (initSt 1) [main, prod, prod, getw, task 0 false, main] = some s ∧
    s.main = .raised ∧ 0 < s.failedItems := by decide

open Act in
/-- non-vacuity of `returns_after_stop` / `no_work_after_stop`: stop with the producer blocked behind a
queued item (the schedule that hangs the unrepaired code, `stop_counterexample`): the repaired
pipeline cancels the producer and returns; item 1 and 2 are never started -/
example : ∃ s, runActs ⟨3, 0, false, Fix.all⟩ (initSt 1) [main, prod, prod, prod, getw, prod, stop, task 0 true, main, prod, main] = some s ∧
    quiescent s = true ∧ s.main = .returned ∧ s.stopReq = true ∧ startsIn s.log = 1 ∧ s.prod = .cancelled := by
  decide

open Act in
/-- non-vacuity of `failure_surfaces_paused_or_not`: 2 workers, items 0 and 1 in flight, `concurrency = 0`,
item 0 finishes (its worker takes a pill and leaves, `process()` reaps it and keeps waiting for the other
worker), then item 1's task raises: `process()` raises although the pipeline is paused -/
example : ∃ s, runActs ⟨3, 0, false, Fix.all⟩ (initSt 2)
      [main, prod, prod, getw, prod, getw, setConc 0, task 0 true, main, task 1 false, main] = some s ∧
    s.pstate = .running ∧ s.conc = 0 ∧ s.main = .raised ∧ 0 < s.failedItems := by
  decide

open Act in
/-- non-vacuity of `no_item_begins_after_stop_request`: one worker busy with item 0, item 1 already in the queue,
`stop()`, item 0 finishes: its worker takes the poison pill (ahead of item 1) and leaves; item 1 stays queued and
never begins -/
example : ∃ s, runActs ⟨3, 0, false, Fix.all⟩ (initSt 1) [main, prod, prod, getw, prod, stop, task 0 true] = some s ∧
    s.stopReq = true ∧ s.qitem = some 1 ∧ s.pills = 0 ∧ s.exited = 1 ∧ startsIn s.log = 1 ∧
    s.items = [.done, .queued] := by
  decide

/-- a hang: nothing can move, nothing is outstanding, `process()` has not completed and the
pipeline is not paused on purpose -/
def Hung (s : St) : Prop :=
  quiescent s = true ∧ mainDone s = false ∧ ¬ (s.pstate = .running ∧ s.conc = 0)

instance (s : St) : Decidable (Hung s) := by unfold Hung; infer_instance

open Act in
/-- **Unrepaired code (DESIGN §7 #9).**  Without the producer cancellation, `stop()` while the producer
is blocked in `put_item` behind a queued item hangs `process()`:
3 items, 1 task, 1 worker, schedule `M P P S G P M`. -/
theorem stop_counterexample :
    ∃ s, runActs ⟨3, 0, false, { Fix.all with cancelProducer := false }⟩ (initSt 1)
      [main, prod, prod, stop, getw, prod, main] = some s ∧ Hung s := by
  decide

open Act in
/-- **Unrepaired code (DESIGN §7 #19).**  Without `stop()` setting `_unpaused_event`, concurrency set to 0
while the last item is in flight hangs `process()` although the source is exhausted and every item
finished: 1 item, schedule `M P P G C0 T0 M P`. -/
theorem pause_counterexample :
    ∃ s, runActs ⟨1, 0, false, { Fix.all with wakeOnStop := false }⟩ (initSt 1)
      [main, prod, prod, getw, setConc 0, task 0 true, main, prod] = some s ∧ Hung s ∧
      s.pstate = .stopping ∧ s.unfinished = 0 := by
  decide

open Act in
/-- **Unrepaired code.**  With concurrency 0 before `process()` the first step of `process()` never
yields (`while running: yield from event.wait()` with the event set). -/
theorem pause_at_start_counterexample :
    ∃ s, runActs ⟨1, 0, false, { Fix.all with pauseAtStart := false }⟩ (initSt 0) [main] = some s ∧
      s.main = .spin := by
  decide

open Act in
/-- **Unrepaired code.**  A `stop()` before the producer task's first step is forgotten
(`Producer.process` sets `_running = True`): `get_item` is called after the stop. -/
theorem stop_forgotten_counterexample :
    ∃ s, runActs ⟨1, 0, false, { Fix.all with startGuard := false }⟩ (initSt 1) [main, stop, prod] = some s ∧
      s.pstate = .stopping ∧ s.callsAtStop < s.srcCalls := by
  decide

open Act in
/-- **Unrepaired code.**  A task that raises while the pipeline shuts down is dropped: `process()` returns. -/
theorem error_swallowed_counterexample :
    ∃ s, runActs ⟨1, 0, false, { Fix.all with reapOnShutdown := false }⟩ (initSt 2)
      [main, prod, prod, prod, getw, stop, prod, getw, main, task 0 false, main] = some s ∧
      s.main = .returned ∧ 0 < s.failedItems := by
  decide

end Wpull.Pipeline
