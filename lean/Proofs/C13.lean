/-
C13 — The pipeline runs every item through every task once, and always finishes.
Property theorems over the model `Wpull.Pipeline` (repaired code: `Fix.all`).
-/
import Proofs.Lemmas.PipelineBase
import Proofs.Lemmas.PipelineInvA
import Proofs.Lemmas.PipelineInvB
import Proofs.Lemmas.PipelineInvC
namespace Wpull.Pipeline

/-! ## helper lemmas -/

theorem invN_step {c : Cfg} (hfx : c.fx = Fix.all) {s s' : St} {a : Act} (h : InvN s)
    (hs : step c s a = some s') : InvN s' := by
  cases a with
  | prod => exact invN_prod hfx h hs
  | main => exact invN_main hfx h hs
  | getw => exact invN_getw h hs
  | task i ok => exact invN_task h hs
  | stop => exact invN_stop hfx h hs
  | setConc n => exact invN_setConc h hs

theorem invN_reach {c : Cfg} (hfx : c.fx = Fix.all) {conc0 : Nat} {s : St} (hr : Reach c conc0 s) : InvN s := by
  induction hr with
  | init => exact invN_init conc0
  | step a _ hs ih => exact invN_step hfx ih hs

theorem countRun_zero {l : List Ph} (h : l.any isRun = false) : countRun l = 0 := by
  induction l with
  | nil => rfl
  | cons a l ih => simp at h; simp [countRun, h.1, ih (by simpa using h.2)]

/-- the pipeline is paused on purpose: running with concurrency 0 -/
def paused (s : St) : Prop := s.pstate = .running ∧ s.conc = 0

/-! ## Property theorems -/

/-- **No hang.**  In every reachable state of the repaired pipeline in which no coroutine can make a
step and no task / `get_item` call is outstanding (`quiescent`), `process()` has completed —
unless the pipeline is paused on purpose (running with concurrency 0, where it waits to be
unpaused).  This is the "always finishes" half of C13 for all item counts, task counts,
concurrency values, schedules, stops, concurrency changes and failures. -/
theorem no_hang {c : Cfg} (hfx : c.fx = Fix.all) {conc0 : Nat} {s : St} (hr : Reach c conc0 s)
    (hq : quiescent s = true) (hp : ¬ paused s) : mainDone s = true := by
  have h := invN_reach hfx hr
  obtain_inv h
  simp only [quiescent, Bool.and_eq_true, Bool.not_eq_true', beq_iff_eq] at hq
  obtain ⟨⟨⟨hq1, hq2⟩, hq3⟩, hq4⟩ := hq
  have hb := countRun_zero hq4
  simp only [paused] at hp
  destruct_st s
  simp only [St.qi, St.qsize, St.live, St.wt] at *
  rcases main with _ | w | w | w | w | _ | _ | _
  all_goals (try rcases w with _ | _)
  all_goals (try simp [mainReady, mainDone] at hq2 ⊢)
  all_goals (rcases prod with _ | _ | _ | b | b | _ | _ | _ | _)
  all_goals (try rcases b with _ | _)
  all_goals (try simp [prodReady] at hq1)
  all_goals grind

end Wpull.Pipeline
