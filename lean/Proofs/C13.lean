/-
C13 — The pipeline runs every item through every task once, and always finishes.
Property theorems over the model `Wpull.Pipeline` (repaired code: `Fix.all`).
-/
import Proofs.Lemmas.PipelineBase
import Proofs.Lemmas.PipelineInvA
import Proofs.Lemmas.PipelineInvB
import Proofs.Lemmas.PipelineInvC
namespace Wpull.Pipeline

end Wpull.Pipeline
