/-
C11 — the `--sitemaps` set-up (`ProcessingRule.add_extra_urls`): for every parsed start URL with a
network scheme the two derived texts `scheme://hostname_with_port/robots.txt` and `…/sitemap.xml`
parse again, so `add_extra_urls` never reads `None.url`.  Reuses the re-parse lemmas of
Proofs/C10Norm.lean.
-/
import Proofs.C10Norm
namespace Wpull.Url
open Wpull

theorem normalizeQuery_nil (c' : Cfg) (hs' : SegSafe c'.encode) : normalizeQuery c' [] = .ok [] := by
  unfold normalizeQuery percentEncodePlus percentEncode
  rw [segSafe_ascii hs' (s := []) (fun c hc => by cases hc)]
  rfl

def sRobots : Str := [114, 111, 98, 111, 116, 115, 46, 116, 120, 116]
def sSitemap : Str := [115, 105, 116, 101, 109, 97, 112, 46, 120, 109, 108]

/-- a path tail that normalises to itself (checked by evaluation for the two constants) -/
structure PlainTail (R : Str) : Prop where
  ne : R ≠ []
  chars : ∀ x ∈ R, 0x20 < x ∧ x < 0x80 ∧ x ≠ 63 ∧ x ≠ 35
  norm : flattenPath true (47 :: R) = 47 :: R ∧ upperPct (pctBytes defaultSet (47 :: R)) = 47 :: R ∧
    startsWith R [47] = false

theorem plain_robots : PlainTail sRobots := ⟨by decide, by decide, by decide⟩
theorem plain_sitemap : PlainTail sSitemap := ⟨by decide, by decide, by decide⟩

theorem normalizePath_plain (c' : Cfg) (hs' : SegSafe c'.encode) {R : Str} (hR : PlainTail R) :
    normalizePath c' R = .ok (47 :: R) := by
  unfold normalizePath percentEncode
  simp only [hR.norm.2.2, Bool.false_eq_true, if_false, hR.norm.1]
  rw [segSafe_ascii hs' (fun x hx => by
    simp only [List.mem_cons] at hx
    rcases hx with rfl | hx
    · omega
    · exact (hR.chars x hx).2.1)]
  simp only [hR.norm.2.1]

/-- the text `scheme://hostname_with_port/R` of a parsed network URL parses (second configuration `c'`) -/
theorem site_text_parses (c c' : Cfg) (hv : V6Params c c') (hs' : SegSafe c'.encode) (hq : PrintParams c)
    (s : Str) (i : URLInfo) (sch : Str) (dp : Nat) (hparse : parse c s = .ok i)
    (hnet : netScheme? i.scheme = some (sch, dp)) (R : Str) (hR : PlainTail R) :
    ∃ hwp, i.hostnameWithPort = .ok hwp ∧
      ∃ u, parsedUrlOf c' (sch ++ [58, 47, 47] ++ hwp ++ 47 :: R) = .ok u := by
  obtain ⟨host, hn, un, pw, p1, q1, path, query, port0, a, b, hs, hun, hpw, hhost, hhn, hport, hpath,
    hquery, hph, hne, hnp, hnq, ha, hb⟩ := parse_net_inv hparse hnet
  have hnet' : netScheme? (some sch) = some (sch, dp) := by rw [hs] at hnet; exact hnet
  have hdp := (netScheme_some hnet').2
  obtain ⟨hsne, hs58, hs46, hsloc, hsasc, hslow, hsch, hdp0, hdplt⟩ := scheme_facts hdp
  obtain ⟨arg, hharg, hv6eq, hportlt⟩ := parseHost_inv hph
  have hhne : hn ≠ [] := by intro e; subst e; simp at hne
  have hnetsome : (netScheme? i.scheme).isSome = true := by rw [hnet]; rfl
  have hhnprint := host_printable c hq s i hparse hnetsome hn hhn
  obtain ⟨port, hpv, hplt, hp0⟩ : ∃ port, effPort dp port0 = port ∧ port < 65536 ∧ port ≠ 0 := by
    cases port0 with
    | none => exact ⟨dp, rfl, hdplt, by omega⟩
    | some p =>
      by_cases e : (p == 0) = true
      · exact ⟨dp, by simp [effPort, e], hdplt, by omega⟩
      · refine ⟨p, by simp [effPort, e], hportlt p rfl, ?_⟩
        intro h0; subst h0; simp at e
  rw [hpv] at hport
  have hhp := hostpart_reparse c c' hv hharg
  simp only at hhp
  obtain ⟨hH0, hHp, hHv6, ⟨hH47, hH63, hH35, hH64⟩, hHchars, _⟩ := hhp
  generalize hHdef : (if startsWith arg [91] = true then [91] ++ hn ++ [93] else hn) = H at *
  -- hostname_with_port
  have hnb : hn.contains 91 = false ∧ hn.contains 93 = false :=
    parseHost_no_bracket (fun x y hxy => by
      obtain ⟨_, hch⟩ := hv.ipv6_chars x y hxy
      constructor
      · cases hc : y.contains 91 with
        | false => rfl
        | true => have := hch 91 (by simpa using hc); omega
      · cases hc : y.contains 93 with
        | false => rfl
        | true => have := hch 93 (by simpa using hc); omega) hph
  let P : Str := if port = dp then [] else 58 :: natDec port
  have hhwp : i.hostnameWithPort = .ok (H ++ P) := by
    unfold URLInfo.hostnameWithPort
    rw [hs, hnet']
    simp only [hhn, Option.getD_some, hnb.1, hnb.2, Bool.or_self, Bool.false_eq_true, if_false, hport,
      isIPv6_eq hhost, hv6eq, hHdef]
    by_cases e : port = dp
    · subst e; simp [P]
    · have : dp ≠ port := fun h => e h.symm
      simp [P, e, this]
  refine ⟨H ++ P, hhwp, ?_⟩
  have hP : ∀ x ∈ P, (0x20 < x ∧ x < 0x80) ∧ x ≠ 47 ∧ x ≠ 63 ∧ x ≠ 35 ∧ x ≠ 64 := by
    intro x hx
    simp only [P] at hx
    split at hx
    · cases hx
    · simp only [List.mem_cons] at hx
      rcases hx with rfl | hx
      · omega
      · have := (natDec_digits port).2 x hx; omega
  have hA : 47 ∉ H ++ P ∧ 63 ∉ H ++ P ∧ 35 ∉ H ++ P := by
    refine ⟨?_, ?_, ?_⟩ <;>
    · intro hm
      rw [List.mem_append] at hm
      rcases hm with h | h
      · first | exact hH47 h | exact hH63 h | exact hH35 h
      · have := (hP _ h).2; omega
  have h64R : 64 ∉ H ++ P := by
    intro hm
    rw [List.mem_append] at hm
    rcases hm with h | h
    · exact hH64 h
    · have := (hP _ h).2; omega
  have hR63 : 63 ∉ R ∧ 35 ∉ R :=
    ⟨fun h => (hR.chars 63 h).2.2.1 rfl, fun h => (hR.chars 35 h).2.2.2 rfl⟩
  have hRemp : R.isEmpty = false := by
    cases R with
    | nil => exact absurd rfl hR.ne
    | cons x t => rfl
  have hsplit := splitRem_noquery (H ++ P) R hA hR63
  simp only [hRemp, Bool.false_eq_true, if_false] at hsplit
  -- user info: none
  have hui := userinfo_reparse c' normalizeUsername_nil normalizePassword_nil
    (by simp [percentDecode]) (by simp [percentDecode]) (H ++ P) h64R
  simp only [List.isEmpty_nil, if_true, Bool.and_self, List.append_nil, List.nil_append] at hui
  obtain ⟨hui1, hui2, hui3⟩ := hui
  have hhostre : parseHost c' (H ++ P) = .ok (hn, if port = dp then none else some port) := by
    by_cases e : port = dp
    · simp only [P, e, if_true, List.append_nil]; exact hH0
    · simp only [P, e, if_false]; exact hHp port hplt
  let T : Str := sch ++ 58 :: (47 :: 47 :: ((H ++ P) ++ 47 :: R))
  have hT : sch ++ [58, 47, 47] ++ (H ++ P) ++ 47 :: R = T := by simp [T, List.append_assoc]
  rw [hT]
  have hrem : (if startsWith (47 :: 47 :: ((H ++ P) ++ 47 :: R)) [47, 47]
      then (47 :: 47 :: ((H ++ P) ++ 47 :: R)).drop 2 else (47 :: 47 :: ((H ++ P) ++ 47 :: R))) =
      (H ++ P) ++ 47 :: R := by simp [startsWith]
  have hpn := parseNet_of_parts c' T sch (47 :: 47 :: ((H ++ P) ++ 47 :: R)) dp
    { authority := H ++ P, resource := 47 :: R, path := R, query := [], fragment := [] }
    (by rw [hrem]; exact hsplit)
    (by rw [hui1]; exact hhostre) (by simpa using hne)
    (normalizePath_plain c' hs' hR) (normalizeQuery_nil c' hs') (normalizeFragment_nil c' hs')
    (by rw [hui2]; exact normalizeUsername_nil) (by rw [hui3]; exact normalizePassword_nil)
  simp only [hui1, hui2, hui3] at hpn
  have hTchars : ∀ x ∈ T, 0x20 < x ∧ x < 0x80 := by
    intro x hx
    simp only [T, List.mem_append, List.mem_cons] at hx
    rcases hx with h | h | h | h | (h | h) | h | h
    · have := hsch x h; omega
    · omega
    · omega
    · omega
    · have := hHchars x h; exact ⟨this.2 hhnprint, this.1⟩
    · exact (hP x h).1
    · omega
    · have := hR.chars x h; omega
  have hstrip : strip T = T := strip_id (fun x hx => isPySpace_false (hTchars x hx).1 (hTchars x hx).2)
  have hc0 : (T.any (· ≤ 0x1f)) = false := by
    cases hc : T.any (· ≤ 0x1f) with
    | false => rfl
    | true =>
      obtain ⟨x, hx, hle⟩ := List.any_eq_true.mp hc
      have := (hTchars x hx).1
      simp only [decide_eq_true_eq] at hle
      omega
  have hparse2 : parse c' T = parseNet c' T sch (47 :: 47 :: ((H ++ P) ++ 47 :: R)) dp := by
    unfold parse
    simp only [hstrip, hc0, Bool.false_eq_true, if_false]
    have : T = sch ++ 58 :: (47 :: 47 :: ((H ++ P) ++ 47 :: R)) := rfl
    conv => lhs; rw [this, schemeSplit_normal c' hdp]
    simp only [netScheme_of hdp]
    rfl
  rw [hpn] at hparse2
  unfold parsedUrlOf parseOrLog
  rw [hparse2]
  simp only
  have hportj : effPort dp (if port = dp then none else some port) = port := by
    by_cases e : port = dp
    · simp [e, effPort]
    · have : (port == 0) = false := by simpa using hp0
      simp [e, this, effPort]
  exact ⟨_, url_shape (sch := sch) (un := []) (pw := []) (host := H ++ P) (hn := hn)
      (path := 47 :: R) (query := []) (a := []) (b := []) (dp := dp) (port := port)
      rfl hdp rfl rfl rfl rfl (by rw [hportj]) rfl rfl normalizeUsername_nil normalizePassword_nil⟩

/-! ## Property theorem -/

/-- **C11, `--sitemaps` set-up.**  For every start URL the parser accepts with a network scheme,
`add_extra_urls` returns: `hostname_with_port` is readable and both derived texts
(`…/robots.txt`, `…/sitemap.xml`) parse, so no `None.url` is read.  Hypotheses: the IPv6 parameter
(`V6Params`), an ASCII-transparent codec for the second parse (the default utf-8: `utf8Enc_segSafe`),
and `PrintParams` for the first. -/
theorem extraUrls_never_raises (c c' : Cfg) (hv : V6Params c c') (hs' : SegSafe c'.encode)
    (hq : PrintParams c) (s : Str) (i : URLInfo) (hparse : parse c s = .ok i)
    (hnet : (netScheme? i.scheme).isSome = true) : ∃ l, extraUrls c' i = .ok l := by
  cases hns : netScheme? i.scheme with
  | none => rw [hns] at hnet; cases hnet
  | some p =>
    obtain ⟨sch, dp⟩ := p
    obtain ⟨hwp, hh, u1, hu1⟩ := site_text_parses c c' hv hs' hq s i sch dp hparse hns sRobots plain_robots
    obtain ⟨hwp2, hh2, u2, hu2⟩ := site_text_parses c c' hv hs' hq s i sch dp hparse hns sSitemap plain_sitemap
    have hsch : i.scheme = some sch := (netScheme_some hns).1
    rw [hh] at hh2; cases hh2
    unfold extraUrls extraUrlTexts
    rw [hh]
    simp only [hsch, Option.getD_some]
    have e1 : sch ++ [58, 47, 47] ++ hwp ++ [47, 114, 111, 98, 111, 116, 115, 46, 116, 120, 116] =
        sch ++ [58, 47, 47] ++ hwp ++ 47 :: sRobots := rfl
    have e2 : sch ++ [58, 47, 47] ++ hwp ++ [47, 115, 105, 116, 101, 109, 97, 112, 46, 120, 109, 108] =
        sch ++ [58, 47, 47] ++ hwp ++ 47 :: sSitemap := rfl
    rw [e1, e2]
    simp only [List.append_assoc, List.cons_append, List.nil_append] at hu1 hu2 ⊢
    simp [List.mapM_cons, List.mapM_nil, hu1, hu2, bind, Except.bind, pure, Except.pure]

end Wpull.Url
