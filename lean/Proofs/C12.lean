import Wpull.Pool
/-!
# C12 — the connection pool never shares, over-allocates, leaks or deadlocks

Theorems over the transition system `Wpull.Pool` (model of `wpull/network/pool.py` after the two
`fix:` commits), for every number of clients, hosts, per-host limit `M ≥ 1`, every client
program, every interleaving, every placement of `task.cancel()` and remote closes, and every
resolution of `set.pop()`: invariants proved by induction over steps.
-/
namespace Wpull.Pool

/-! ## helper lemmas: `notify`, waiter lists -/

def live (creq : Nat → Bool) (l : List (Nat × Bool)) : Prop := ∃ t, (t, false) ∈ l ∧ creq t = false

theorem notify_map_fst (c : Nat → Bool) (l : List (Nat × Bool)) :
    (notify c l).map Prod.fst = l.map Prod.fst := by
  induction l with
  | nil => rfl
  | cons e l ih =>
    obtain ⟨t, b⟩ := e
    simp only [notify]
    split <;> simp [ih]

theorem notify_length (c : Nat → Bool) (l : List (Nat × Bool)) : (notify c l).length = l.length := by
  have := congrArg List.length (notify_map_fst c l)
  simpa using this

theorem mem_notify (c : Nat → Bool) (l : List (Nat × Bool)) (t : Nat) (b : Bool) :
    (t, b) ∈ notify c l → (t, b) ∈ l ∨ (b = true ∧ (t, false) ∈ l) := by
  induction l with
  | nil => simp [notify]
  | cons e l ih =>
    obtain ⟨t', b'⟩ := e
    simp only [notify]
    split
    · intro h
      rcases List.mem_cons.mp h with h | h
      · left; simp [h]
      · rcases ih h with h | h
        · left; exact List.mem_cons_of_mem _ h
        · right; exact ⟨h.1, List.mem_cons_of_mem _ h.2⟩
    · rename_i hb
      intro h
      rcases List.mem_cons.mp h with h | h
      · right
        simp at hb
        simp only [Prod.mk.injEq] at h
        refine ⟨h.2, ?_⟩
        rw [h.1, ← hb.1]; exact List.mem_cons_self
      · left; exact List.mem_cons_of_mem _ h

theorem mem_notify_fst (c : Nat → Bool) (l : List (Nat × Bool)) (t : Nat) :
    (∃ b, (t, b) ∈ notify c l) ↔ (∃ b, (t, b) ∈ l) := by
  have h := notify_map_fst c l
  have e : ∀ l : List (Nat × Bool), (∃ b, (t, b) ∈ l) ↔ t ∈ l.map Prod.fst := by
    intro l; simp
  rw [e, e, h]

theorem live_notify (c : Nat → Bool) (l : List (Nat × Bool)) : live c (notify c l) → live c l := by
  rintro ⟨t, hm, hc⟩
  rcases mem_notify c l t false hm with h | h
  · exact ⟨t, h, hc⟩
  · simp at h

theorem countP_notify_ge (c : Nat → Bool) (l : List (Nat × Bool)) :
    l.countP (·.2) ≤ (notify c l).countP (·.2) := by
  induction l with
  | nil => simp [notify]
  | cons e l ih =>
    obtain ⟨t, b⟩ := e
    simp only [notify]
    split
    · simp only [List.countP_cons]; omega
    · simp only [List.countP_cons]; simp; split <;> omega

theorem countP_notify_live (c : Nat → Bool) (l : List (Nat × Bool)) (h : live c l) :
    (notify c l).countP (·.2) = l.countP (·.2) + 1 := by
  induction l with
  | nil => obtain ⟨t, hm, _⟩ := h; simp at hm
  | cons e l ih =>
    obtain ⟨t, b⟩ := e
    simp only [notify]
    split
    · rename_i hb
      have : live c l := by
        obtain ⟨t', hm, hc⟩ := h
        rcases List.mem_cons.mp hm with h' | h'
        · simp only [Prod.mk.injEq] at h'
          rw [← h'.1, ← h'.2] at hb
          simp [hc] at hb
        · exact ⟨t', h', hc⟩
      simp only [List.countP_cons, ih this]; omega
    · rename_i hb
      simp at hb
      simp [List.countP_cons, hb.1]

theorem mem_dropTask (t : Nat) (l : List (Nat × Bool)) (e : Nat × Bool) :
    e ∈ dropTask t l ↔ e ∈ l ∧ e.1 ≠ t := by
  induction l with
  | nil => simp [dropTask]
  | cons a l ih =>
    simp only [dropTask]
    split
    · rename_i h; rw [ih]; simp only [List.mem_cons]
      constructor
      · rintro ⟨h1, h2⟩; exact ⟨Or.inr h1, h2⟩
      · rintro ⟨h1 | h1, h2⟩
        · subst h1; exact absurd h h2
        · exact ⟨h1, h2⟩
    · rename_i h; simp only [List.mem_cons, ih]
      constructor
      · rintro (h1 | ⟨h1, h2⟩)
        · subst h1; exact ⟨Or.inl rfl, h⟩
        · exact ⟨Or.inr h1, h2⟩
      · rintro ⟨h1 | h1, h2⟩
        · exact Or.inl h1
        · exact Or.inr ⟨h1, h2⟩

theorem dropTask_eq_self (t : Nat) (l : List (Nat × Bool)) (h : t ∉ l.map Prod.fst) : dropTask t l = l := by
  induction l with
  | nil => rfl
  | cons a l ih =>
    simp only [List.map_cons, List.mem_cons, not_or] at h
    simp only [dropTask]
    rw [if_neg (fun e => h.1 e.symm), ih h.2]

theorem dropTask_nodup (t : Nat) (l : List (Nat × Bool)) (hnd : (l.map Prod.fst).Nodup) :
    ((dropTask t l).map Prod.fst).Nodup := by
  induction l with
  | nil => simp [dropTask]
  | cons a l ih =>
    simp only [List.map_cons, List.nodup_cons] at hnd
    simp only [dropTask]
    split
    · exact ih hnd.2
    · simp only [List.map_cons, List.nodup_cons]
      refine ⟨?_, ih hnd.2⟩
      intro hm
      obtain ⟨e, he, hfe⟩ := List.mem_map.mp hm
      have := (mem_dropTask t l e).mp he
      exact hnd.1 (hfe ▸ List.mem_map_of_mem this.1)

theorem countP_dropTask (l : List (Nat × Bool)) (t : Nat) (hnd : (l.map Prod.fst).Nodup) :
    l.countP (·.2) ≤ (dropTask t l).countP (·.2) + 1 := by
  induction l with
  | nil => simp [dropTask]
  | cons a l ih =>
    simp only [List.map_cons, List.nodup_cons] at hnd
    simp only [dropTask]
    split
    · rename_i h
      rw [dropTask_eq_self t l (h ▸ hnd.1)]
      simp only [List.countP_cons]; split <;> omega
    · have := ih hnd.2
      simp only [List.countP_cons]; omega

theorem length_dropTask (l : List (Nat × Bool)) (t : Nat) (hnd : (l.map Prod.fst).Nodup)
    (hm : ∃ b, (t, b) ∈ l) : (dropTask t l).length + 1 = l.length := by
  induction l with
  | nil => simp at hm
  | cons a l ih =>
    simp only [List.map_cons, List.nodup_cons] at hnd
    simp only [dropTask]
    split
    · rename_i h
      rw [dropTask_eq_self t l (h ▸ hnd.1)]; simp
    · rename_i h
      have hm' : ∃ b, (t, b) ∈ l := by
        obtain ⟨b', hb'⟩ := hm
        rcases List.mem_cons.mp hb' with h' | h'
        · exact absurd (by rw [← h']) h
        · exact ⟨b', h'⟩
      have := ih hnd.2 hm'
      simp only [List.length_cons]; omega

theorem upd2_ne (f : Nat → Nat → Bool) (k n : Nat) (v : Bool) (k' n' : Nat) (h : (k', n') ≠ (k, n)) :
    upd f k (upd (f k) n v) k' n' = f k' n' := by
  simp only [upd]
  by_cases hk : k' = k <;> by_cases hn : n' = n <;> simp_all

/-! ## the invariant -/

/-- `o`: a busy connection whose owner (holding client / pending release task) has just been
removed, in the middle of a step; `a`: a host key at which the stepping client is counted in
`_host_pool_waiters` without being in the condition's waiter list yet. `j`: see `swept`. `Inv = InvG none none none`. -/
structure InvG (o : Option (Nat × Nat)) (a : Option Nat) (j : Option (Nat × Nat)) (s : St) : Prop where
  mpos : 0 < s.M
  noerr : s.err = false
  count_le : ∀ k, (s.host k).ready.length + (s.host k).busy.length ≤ s.M
  busy_nodup : ∀ k, (s.host k).busy.Nodup
  ready_nodup : ∀ k, (s.host k).ready.Nodup
  disjoint : ∀ k n, n ∈ (s.host k).ready → n ∉ (s.host k).busy
  lt_next : ∀ k n, (n ∈ (s.host k).ready ∨ n ∈ (s.host k).busy) → n < (s.host k).next
  hold_busy : ∀ t k n, s.pc t = .holding k n → n ∈ (s.host k).busy
  rel_busy : ∀ r, s.relDone r = false → (s.relConn r).2 ∈ (s.host (s.relConn r).1).busy
  hold_inj : ∀ t t' k n, s.pc t = .holding k n → s.pc t' = .holding k n → t = t'
  rel_inj : ∀ r r', s.relDone r = false → s.relDone r' = false → s.relConn r = s.relConn r' → r = r'
  hold_rel : ∀ t k n r, s.pc t = .holding k n → s.relDone r = false → s.relConn r ≠ (k, n)
  busy_owned : ∀ k n, n ∈ (s.host k).busy →
    (∃ t, s.pc t = .holding k n) ∨ (∃ r, s.relDone r = false ∧ s.relConn r = (k, n)) ∨ o = some (k, n)
  orphan : ∀ k n, o = some (k, n) → n ∈ (s.host k).busy ∧ (∀ t, s.pc t ≠ .holding k n) ∧
    (∀ r, s.relDone r = false → s.relConn r ≠ (k, n))
  rel_ge : ∀ r, s.nrels ≤ r → s.relDone r = true
  cond_pc : ∀ k t b, (t, b) ∈ (s.host k).cond → s.pc t = .cwait k
  pc_cond : ∀ t k, s.pc t = .cwait k → ∃ b, (t, b) ∈ (s.host k).cond
  cond_nodup : ∀ k, ((s.host k).cond.map Prod.fst).Nodup
  waiters_eq : ∀ k, (s.host k).waiters = (s.host k).cond.length + (if a = some k then 1 else 0)
  notif : ∀ k, live s.creq (s.host k).cond →
    s.M - (s.host k).busy.length ≤ (s.host k).cond.countP (·.2) + (if a = some k then 1 else 0)
  kept : ∀ k, k ∈ s.present → (s.host k).ready ≠ [] ∨ (s.host k).busy ≠ [] ∨ 0 < (s.host k).waiters
  absent : ∀ k, k ∉ s.present → (s.host k).busy = [] ∧ (s.host k).cond = [] ∧ (s.host k).ready = []
  acq_present : ∀ k, a = some k → k ∈ s.present
  /-- a dead connection sitting in `ready` died after the last sweep (`j`: the connection that
  `HostPool.release` has just put back, before the sweep of the same `release` call) -/
  swept : ∀ k n, n ∈ (s.host k).ready → s.closed k n = true → s.dirty k n = true ∨ j = some (k, n)

abbrev Inv (s : St) : Prop := InvG none none none s

theorem inv_init (M mc nk : Nat) (progs : List (List Round)) (hM : 0 < M) : Inv (init M mc nk progs) := by
  constructor <;> simp [init, live, hM] <;> grind

/-! ## preservation, operation by operation -/

theorem grantReady_inv (s : St) (t k n : Nat)
    (hi : InvG none (some k) none s) (hpc : s.pc t = .start) (hn : n ∈ (s.host k).ready) :
    Inv (grantReady s t k n) := by
  obtain ⟨mpos, noerr, count_le, busy_nodup, ready_nodup, disjoint, lt_next, hold_busy, rel_busy, hold_inj,
    rel_inj, hold_rel, busy_owned, orphan, rel_ge, cond_pc, pc_cond, cond_nodup, waiters_eq, notif, kept,
    absent, acq_present, swept⟩ := hi
  constructor
  all_goals simp only [grantReady, setHost]
  all_goals try assumption
  all_goals try (simp only [upd]; grind)
  all_goals simp

theorem grantFresh_inv (s : St) (t k : Nat)
    (hi : InvG none (some k) none s) (hpc : s.pc t = .start) (hr : (s.host k).ready = [])
    (hb : (s.host k).busy.length < s.M) : Inv (grantFresh s t k) := by
  obtain ⟨mpos, noerr, count_le, busy_nodup, ready_nodup, disjoint, lt_next, hold_busy, rel_busy, hold_inj,
    rel_inj, hold_rel, busy_owned, orphan, rel_ge, cond_pc, pc_cond, cond_nodup, waiters_eq, notif, kept,
    absent, acq_present, swept⟩ := hi
  constructor
  all_goals simp only [grantFresh, setHost]
  all_goals try assumption
  all_goals try (simp only [upd]; grind)
  all_goals simp

theorem waitOn_inv (s : St) (t k : Nat)
    (hi : InvG none (some k) none s) (hpc : s.pc t = .start) (hb : ¬ (s.host k).busy.length < s.M) :
    Inv (waitOn s t k) := by
  obtain ⟨mpos, noerr, count_le, busy_nodup, ready_nodup, disjoint, lt_next, hold_busy, rel_busy, hold_inj,
    rel_inj, hold_rel, busy_owned, orphan, rel_ge, cond_pc, pc_cond, cond_nodup, waiters_eq, notif, kept,
    absent, acq_present, swept⟩ := hi
  constructor
  all_goals simp only [waitOn, setHost]
  all_goals try assumption
  all_goals try (simp only [upd]; grind)
  all_goals simp

theorem hostAcquire_inv (s s' : St) (t k : Nat) (g : Option Nat)
    (hi : InvG none (some k) none s) (hpc : s.pc t = .start) (h : hostAcquire s t k g = some s') : Inv s' := by
  unfold hostAcquire at h
  split at h
  · split at h
    · split at h
      · rename_i hn; cases h; exact grantReady_inv s t k _ hi hpc hn
      · cases h
    · cases h
  · rename_i hr
    split at h
    · rename_i hb
      split at h
      · cases h; exact grantFresh_inv s t k hi hpc (by simpa using hr) hb
      · cases h
    · rename_i hb
      split at h
      · cases h; exact waitOn_inv s t k hi hpc hb
      · cases h

/-- `ConnectionPool.acquire`: host pool lookup / creation and `waiters += 1`. -/
theorem acquire_inv (s s' : St) (t k : Nat) (g : Option Nat)
    (hi : Inv s) (hpc : s.pc t = .start) (h : acquire s t k g = some s') : Inv s' := by
  unfold acquire at h
  refine hostAcquire_inv _ s' t k g ?_ ?_ h
  · obtain ⟨mpos, noerr, count_le, busy_nodup, ready_nodup, disjoint, lt_next, hold_busy, rel_busy, hold_inj,
    rel_inj, hold_rel, busy_owned, orphan, rel_ge, cond_pc, pc_cond, cond_nodup, waiters_eq, notif, kept,
    absent, acq_present, swept⟩ := hi
    split
    · constructor
      all_goals simp only [setHost]
      all_goals try assumption
      all_goals try (simp only [upd]; grind)
      all_goals (intro k1 h1; cases h1; first | assumption | simp)
    · constructor
      all_goals simp only [setHost]
      all_goals try assumption
      all_goals try (simp only [upd]; grind)
      all_goals (intro k1 h1; cases h1; first | assumption | simp)
  · split <;> simpa [setHost] using hpc

/-- a notified waiter resumes: it leaves the condition's waiter list -/
theorem resume_inv (s : St) (t k : Nat) (hi : Inv s) (hpc : s.pc t = .cwait k)
    (hn : (t, true) ∈ (s.host k).cond) :
    InvG none (some k) none { setHost s k { s.host k with cond := dropTask t (s.host k).cond } with pc := upd s.pc t .start } := by
  obtain ⟨mpos, noerr, count_le, busy_nodup, ready_nodup, disjoint, lt_next, hold_busy, rel_busy, hold_inj,
    rel_inj, hold_rel, busy_owned, orphan, rel_ge, cond_pc, pc_cond, cond_nodup, waiters_eq, notif, kept,
    absent, acq_present, swept⟩ := hi
  have h1 := fun k => countP_dropTask (s.host k).cond t (cond_nodup k)
  have h2 := length_dropTask (s.host k).cond t (cond_nodup k) ⟨true, hn⟩
  have h3 := dropTask_nodup t (s.host k).cond (cond_nodup k)
  have h4 := mem_dropTask t (s.host k).cond
  constructor
  all_goals simp only [setHost]
  all_goals try assumption
  all_goals try (simp only [upd, live] at *; grind)
  · intro k1 hl
    simp only [upd] at hl ⊢
    by_cases hk : k1 = k
    · subst hk
      simp only [if_true] at hl ⊢
      have hl' : live s.creq (s.host k1).cond := by
        obtain ⟨t', hm, hc⟩ := hl
        exact ⟨t', ((mem_dropTask _ _ _).mp hm).1, hc⟩
      have := notif k1 hl'
      have := h1 k1
      simp at *
      omega
    · simp only [if_neg hk] at hl ⊢
      have := notif k1 hl
      simp at *
      omega

/-- A holding client gives its connection up (pc becomes `x`, not holding / waiting): the connection is orphaned
until it is released or handed to a release task within the same step. -/
theorem orphanHold_inv (s s' : St) (t k n : Nat) (x : PC) (hi : Inv s) (hpc : s.pc t = .holding k n)
    (hx : x = .start ∨ x = .cancelled)
    (e1 : s'.M = s.M) (e2 : s'.err = s.err) (e3 : s'.host = s.host) (e4 : s'.pc = upd s.pc t x)
    (e5 : s'.relDone = s.relDone) (e6 : s'.relConn = s.relConn) (e7 : s'.nrels = s.nrels)
    (e8 : s'.present = s.present) (e9 : ∀ u, u ≠ t → s'.creq u = s.creq u)
    (e10 : ∀ k' n', (k', n') ≠ (k, n) → s'.closed k' n' = s.closed k' n') (e11 : s'.dirty = s.dirty) :
    InvG (some (k, n)) none none s' := by
  obtain ⟨mpos, noerr, count_le, busy_nodup, ready_nodup, disjoint, lt_next, hold_busy, rel_busy, hold_inj,
    rel_inj, hold_rel, busy_owned, orphan, rel_ge, cond_pc, pc_cond, cond_nodup, waiters_eq, notif, kept,
    absent, acq_present, swept⟩ := hi
  have hl : ∀ k, live s'.creq (s.host k).cond → live s.creq (s.host k).cond := by
    intro k' ⟨u, hm, hc⟩
    refine ⟨u, hm, ?_⟩
    have : u ≠ t := by
      intro h; subst h; have := cond_pc k' u false hm; rw [hpc] at this; cases this
    rw [← e9 u this]; exact hc
  constructor
  all_goals simp only [e1, e2, e3, e4, e5, e6, e7, e8, e11]
  all_goals try assumption
  all_goals try (simp only [upd]; grind)
  · exact fun k' h => notif k' (hl k' h)
  · intro k' n' hm hc
    have hne : (k', n') ≠ (k, n) := by
      intro e; cases e; exact disjoint k n hm (hold_busy t k n hpc)
    rw [e10 k' n' hne] at hc
    exact swept k' n' hm hc

theorem orphanRel_inv (s : St) (r : Nat) (hi : Inv s) (hr : s.relDone r = false) :
    InvG (some (s.relConn r)) none none { s with relDone := upd s.relDone r true } := by
  obtain ⟨mpos, noerr, count_le, busy_nodup, ready_nodup, disjoint, lt_next, hold_busy, rel_busy, hold_inj,
    rel_inj, hold_rel, busy_owned, orphan, rel_ge, cond_pc, pc_cond, cond_nodup, waiters_eq, notif, kept,
    absent, acq_present, swept⟩ := hi
  constructor
  all_goals try assumption
  all_goals try (simp only [upd]; grind)

theorem spawnRel_inv (s : St) (k n : Nat) (hi : InvG (some (k, n)) none none s) : Inv (spawnRel s k n) := by
  obtain ⟨mpos, noerr, count_le, busy_nodup, ready_nodup, disjoint, lt_next, hold_busy, rel_busy, hold_inj,
    rel_inj, hold_rel, busy_owned, orphan, rel_ge, cond_pc, pc_cond, cond_nodup, waiters_eq, notif, kept,
    absent, acq_present, swept⟩ := hi
  constructor
  all_goals simp only [spawnRel]
  all_goals try assumption
  all_goals try (simp only [upd]; grind)
  · intro k1 n1 hb
    have hfresh : s.relDone s.nrels = true := rel_ge _ (Nat.le_refl _)
    rcases busy_owned k1 n1 hb with ⟨t, ht⟩ | ⟨r, hr1, hr2⟩ | ho
    · exact Or.inl ⟨t, ht⟩
    · have hne : r ≠ s.nrels := by intro h; rw [h, hfresh] at hr1; cases hr1
      exact Or.inr (Or.inl ⟨r, by simp [upd, hne, hr1], by simp [upd, hne, hr2]⟩)
    · cases ho
      exact Or.inr (Or.inl ⟨s.nrels, by simp [upd], by simp [upd]⟩)

theorem hostRelease_inv (s : St) (k n : Nat) (hi : InvG (some (k, n)) none none s) :
    InvG none none (some (k, n)) (hostRelease s k n) := by
  obtain ⟨mpos, noerr, count_le, busy_nodup, ready_nodup, disjoint, lt_next, hold_busy, rel_busy, hold_inj,
    rel_inj, hold_rel, busy_owned, orphan, rel_ge, cond_pc, pc_cond, cond_nodup, waiters_eq, notif, kept,
    absent, acq_present, swept⟩ := hi
  have n1 := fun k => notify_map_fst s.creq (s.host k).cond
  have n2 := fun k => notify_length s.creq (s.host k).cond
  have n3 := fun k => mem_notify s.creq (s.host k).cond
  have n4 := fun k => mem_notify_fst s.creq (s.host k).cond
  have n5 := fun k => live_notify s.creq (s.host k).cond
  have n6 := fun k => countP_notify_ge s.creq (s.host k).cond
  have n7 := fun k => countP_notify_live s.creq (s.host k).cond
  constructor
  all_goals simp only [hostRelease, setHost]
  all_goals try assumption
  all_goals try (simp only [upd]; grind)
  · intro t k1 h
    obtain ⟨b, hb⟩ := pc_cond t k1 h
    by_cases hk : k1 = k
    · subst hk; simp only [upd, if_true]; exact (n4 k1 t).mpr ⟨b, hb⟩
    · simp only [upd, if_neg hk]; exact ⟨b, hb⟩

theorem cleanAll_inv (s : St) (force : Bool) (j : Option (Nat × Nat)) (hi : InvG none none j s) : Inv (cleanAll s force) := by
  obtain ⟨mpos, noerr, count_le, busy_nodup, ready_nodup, disjoint, lt_next, hold_busy, rel_busy, hold_inj,
    rel_inj, hold_rel, busy_owned, orphan, rel_ge, cond_pc, pc_cond, cond_nodup, waiters_eq, notif, kept,
    absent, acq_present, swept⟩ := hi
  have hs : ∀ k, (if k ∈ s.present then if force = true then [] else List.filter (fun n => !s.closed k n) (s.host k).ready
      else (s.host k).ready).Sublist (s.host k).ready := by
    intro k
    split
    · split
      · exact List.nil_sublist _
      · exact List.filter_sublist
    · exact List.Sublist.refl _
  constructor
  all_goals simp only [cleanAll]
  all_goals try assumption
  · intro k; have := (hs k).length_le; have := count_le k; omega
  · intro k; exact (hs k).nodup (ready_nodup k)
  · intro k n h; exact disjoint k n ((hs k).subset h)
  · intro k n h
    rcases h with h | h
    · exact lt_next k n (Or.inl ((hs k).subset h))
    · exact lt_next k n (Or.inr h)
  all_goals try (simp only [hostEmptyIdle]; grind)
  · intro k n hm hc
    exfalso
    by_cases hp : k ∈ s.present
    · cases force <;> simp [hp] at hm hc
      rw [hm.2] at hc; cases hc
    · have := (absent k hp).2.2
      simp [hp, this] at hm

theorem releaseOp_inv (s : St) (k n : Nat) (hi : InvG (some (k, n)) none none s) : Inv (releaseOp s k n) := by
  unfold releaseOp
  have hb := (hi.orphan k n rfl).1
  have hp : k ∈ s.present := by
    by_cases h : k ∈ s.present
    · exact h
    · have := (hi.absent k h).1; rw [this] at hb; cases hb
  simp only [hp, hb, and_self, if_true]
  exact cleanAll_inv _ _ _ (hostRelease_inv s k n hi)

/-- `CancelledError` delivered to a waiter (repaired code): wake-up passed on, waiter count undone,
idle host pool dropped. -/
theorem cancelWait_inv (s : St) (t k : Nat) (hi : Inv s) (hpc : s.pc t = .cwait k) :
    Inv (cancelWait { s with creq := upd s.creq t false } t k) := by
  obtain ⟨mpos, noerr, count_le, busy_nodup, ready_nodup, disjoint, lt_next, hold_busy, rel_busy, hold_inj,
    rel_inj, hold_rel, busy_owned, orphan, rel_ge, cond_pc, pc_cond, cond_nodup, waiters_eq, notif, kept,
    absent, acq_present, swept⟩ := hi
  obtain ⟨bt, hbt⟩ := pc_cond t k hpc
  have h1 := countP_dropTask (s.host k).cond t (cond_nodup k)
  have h2 := length_dropTask (s.host k).cond t (cond_nodup k) ⟨bt, hbt⟩
  have h3 := dropTask_nodup t (s.host k).cond (cond_nodup k)
  have h4 := mem_dropTask t (s.host k).cond
  have n1 := notify_map_fst (upd s.creq t false) (dropTask t (s.host k).cond)
  have n2 := notify_length (upd s.creq t false) (dropTask t (s.host k).cond)
  have n3 := mem_notify (upd s.creq t false) (dropTask t (s.host k).cond)
  have n4 := mem_notify_fst (upd s.creq t false) (dropTask t (s.host k).cond)
  have n5 := live_notify (upd s.creq t false) (dropTask t (s.host k).cond)
  have n6 := countP_notify_ge (upd s.creq t false) (dropTask t (s.host k).cond)
  have n7 := countP_notify_live (upd s.creq t false) (dropTask t (s.host k).cond)
  have hlk : live (upd s.creq t false) (dropTask t (s.host k).cond) → live s.creq (s.host k).cond := by
    rintro ⟨u, hm, hc⟩
    have := (h4 (u, false)).mp hm
    exact ⟨u, this.1, by simpa [upd, this.2] using hc⟩
  have hlo : ∀ k', k' ≠ k → live (upd s.creq t false) (s.host k').cond → live s.creq (s.host k').cond := by
    rintro k' hk ⟨u, hm, hc⟩
    have : u ≠ t := by
      intro h; subst h; have := cond_pc k' u false hm; rw [hpc] at this; cases this; exact hk rfl
    exact ⟨u, hm, by simpa [upd, this] using hc⟩
  unfold cancelWait
  simp only [setHost]
  split
  · constructor
    all_goals try assumption
    all_goals try (simp only [upd, hostEmptyIdle] at *; grind)
  · constructor
    all_goals try assumption
    all_goals try (simp only [upd, hostEmptyIdle] at *; grind)
    · intro u k1 h
      simp only [upd] at h ⊢
      have hne : u ≠ t := by
        intro e; simp [e] at h
      simp only [if_neg hne] at h
      obtain ⟨b, hb⟩ := pc_cond u k1 h
      by_cases hk : k1 = k
      · subst hk
        simp only [if_true]
        exact (n4 u).mpr ⟨b, (h4 (u, b)).mpr ⟨hb, hne⟩⟩
      · simp only [if_neg hk]; exact ⟨b, hb⟩

/-- fields the invariant does not mention may change freely -/
theorem frame_inv (o : Option (Nat × Nat)) (a : Option Nat) (j : Option (Nat × Nat)) (s s' : St) (hi : InvG o a j s)
    (e1 : s'.M = s.M) (e2 : s'.err = s.err) (e3 : s'.host = s.host) (e4 : s'.pc = s.pc)
    (e5 : s'.relDone = s.relDone) (e6 : s'.relConn = s.relConn) (e7 : s'.nrels = s.nrels)
    (e8 : s'.present = s.present) (e9 : s'.creq = s.creq) (e10 : s'.closed = s.closed) (e11 : s'.dirty = s.dirty) :
    InvG o a j s' := by
  obtain ⟨mpos, noerr, count_le, busy_nodup, ready_nodup, disjoint, lt_next, hold_busy, rel_busy, hold_inj,
    rel_inj, hold_rel, busy_owned, orphan, rel_ge, cond_pc, pc_cond, cond_nodup, waiters_eq, notif, kept,
    absent, acq_present, swept⟩ := hi
  constructor
  all_goals simp only [e1, e2, e3, e4, e5, e6, e7, e8, e9, e10, e11]
  all_goals assumption

def neutral (x : PC) : Prop := x = .start ∨ x = .done ∨ x = .cancelled ∨ ∃ r, x = .drain r

/-- a client that neither holds nor waits changes its program counter to another such value -/
theorem neutral_inv (s s' : St) (t : Nat) (x : PC) (hi : Inv s) (hpc : neutral (s.pc t)) (hx : neutral x)
    (e1 : s'.M = s.M) (e2 : s'.err = s.err) (e3 : s'.host = s.host) (e4 : s'.pc = upd s.pc t x)
    (e5 : s'.relDone = s.relDone) (e6 : s'.relConn = s.relConn) (e7 : s'.nrels = s.nrels)
    (e8 : s'.present = s.present) (e9 : ∀ u, u ≠ t → s'.creq u = s.creq u)
    (e10 : s'.closed = s.closed) (e11 : s'.dirty = s.dirty) : Inv s' := by
  obtain ⟨mpos, noerr, count_le, busy_nodup, ready_nodup, disjoint, lt_next, hold_busy, rel_busy, hold_inj,
    rel_inj, hold_rel, busy_owned, orphan, rel_ge, cond_pc, pc_cond, cond_nodup, waiters_eq, notif, kept,
    absent, acq_present, swept⟩ := hi
  have hl : ∀ k, live s'.creq (s.host k).cond → live s.creq (s.host k).cond := by
    intro k' ⟨u, hm, hc⟩
    refine ⟨u, hm, ?_⟩
    have : u ≠ t := by
      intro h; subst h; have := cond_pc k' u false hm
      rw [this] at hpc
      rcases hpc with h | h | h | ⟨r, h⟩ <;> cases h
    rw [← e9 u this]; exact hc
  constructor
  all_goals simp only [e1, e2, e3, e4, e5, e6, e7, e8, e10, e11]
  all_goals try assumption
  all_goals try (simp only [upd, neutral] at *; grind)
  all_goals try exact fun k' h => notif k' (hl k' h)

/-- `task.cancel()` -/
theorem creq_inv (s : St) (t : Nat) (hi : Inv s) : Inv { s with creq := upd s.creq t true } := by
  obtain ⟨mpos, noerr, count_le, busy_nodup, ready_nodup, disjoint, lt_next, hold_busy, rel_busy, hold_inj,
    rel_inj, hold_rel, busy_owned, orphan, rel_ge, cond_pc, pc_cond, cond_nodup, waiters_eq, notif, kept,
    absent, acq_present, swept⟩ := hi
  constructor
  all_goals try assumption
  · intro k hl
    apply notif k
    obtain ⟨u, hm, hc⟩ := hl
    refine ⟨u, hm, ?_⟩
    by_cases h : u = t
    · subst h; simp [upd] at hc
    · simpa [upd, h] using hc

/-- the peer closes a connection (idle or checked out) -/
theorem rclose_inv (s : St) (k n : Nat) (hi : Inv s) :
    Inv { s with closed := upd s.closed k (upd (s.closed k) n true), dirty := upd s.dirty k (upd (s.dirty k) n true) } := by
  obtain ⟨mpos, noerr, count_le, busy_nodup, ready_nodup, disjoint, lt_next, hold_busy, rel_busy, hold_inj,
    rel_inj, hold_rel, busy_owned, orphan, rel_ge, cond_pc, pc_cond, cond_nodup, waiters_eq, notif, kept,
    absent, acq_present, swept⟩ := hi
  constructor
  all_goals try assumption
  · intro k' n' hm hc
    by_cases h : (k', n') = (k, n)
    · cases h; simp [upd]
    · simp only [upd2_ne _ _ _ _ _ _ h] at hc ⊢
      exact swept k' n' hm hc

theorem drainGo_eq (pops : List Nat) : ∀ (s s1 : St) (x : Option Nat), drainGo s pops = some (s1, x) →
    ∃ p, s1 = { s with pending := p } := by
  induction pops with
  | nil =>
    intro s s1 x h
    simp only [drainGo] at h
    split at h
    · cases h; exact ⟨s.pending, rfl⟩
    · cases h
  | cons r rest ih =>
    intro s s1 x h
    simp only [drainGo] at h
    split at h
    · split at h
      · obtain ⟨p, hp⟩ := ih _ _ _ h
        exact ⟨p, by rw [hp]⟩
      · split at h
        · cases h; exact ⟨_, rfl⟩
        · cases h
    · cases h

theorem beginRound_inv (s s' : St) (t : Nat) (pops : List Nat) (g : Option Nat)
    (hi : Inv s) (hpc : s.pc t = .start) (h : beginRound s t pops g = some s') : Inv s' := by
  unfold beginRound at h
  split at h
  · split at h
    · cases h
      exact neutral_inv s _ t .done hi (Or.inl hpc) (Or.inr (Or.inl rfl)) rfl rfl rfl rfl rfl rfl rfl rfl (fun _ _ => rfl) rfl rfl
    · cases h
  · rename_i rd rest hprog
    split at h
    · cases h
    · rename_i s1 r hd
      obtain ⟨p, hp⟩ := drainGo_eq _ _ _ _ hd
      split at h
      · cases h
        subst hp
        exact neutral_inv s _ t (.drain r) hi (Or.inl hpc) (Or.inr (Or.inr (Or.inr ⟨r, rfl⟩)))
          rfl rfl rfl rfl rfl rfl rfl rfl (fun _ _ => rfl) rfl rfl
      · cases h
    · rename_i s1 hd
      obtain ⟨p, hp⟩ := drainGo_eq _ _ _ _ hd
      subst hp
      refine acquire_inv { s with pending := p } s' t rd.key g ?_ hpc h
      exact frame_inv none none none s _ hi rfl rfl rfl rfl rfl rfl rfl rfl rfl rfl rfl

theorem endRound_inv (s : St) (t k n : Nat) (rd : Round) (rest : List Round)
    (hi : Inv s) (hpc : s.pc t = .holding k n) :
    Inv (endRound s t k n rd rest) ∧ (endRound s t k n rd rest).pc t = .start := by
  unfold endRound
  have ho : InvG (some (k, n)) none none
      { s with closed := upd s.closed k (upd (s.closed k) n rd.close), prog := upd s.prog t rest,
               pc := upd s.pc t .start } :=
    orphanHold_inv s _ t k n .start hi hpc (Or.inl rfl) rfl rfl rfl rfl rfl rfl rfl rfl (fun _ _ => rfl)
      (fun k' n' hne => upd2_ne _ _ _ _ _ _ hne) rfl
  dsimp only
  split
  · exact ⟨releaseOp_inv _ k n ho, by simp [releaseOp, cleanAll, hostRelease, setHost]; split <;> simp⟩
  · exact ⟨spawnRel_inv _ k n ho, by simp [spawnRel]⟩

theorem deliverCancel_inv (s : St) (t : Nat) (hi : Inv s) :
    Inv (deliverCancel { s with creq := upd s.creq t false } t) := by
  unfold deliverCancel
  split
  · rename_i k hpc
    exact cancelWait_inv s t k hi hpc
  · rename_i k n hpc
    apply spawnRel_inv
    exact orphanHold_inv s _ t k n .cancelled hi hpc (Or.inr rfl) rfl rfl rfl rfl rfl rfl rfl rfl
      (fun u hu => by simp [upd, hu])
      (fun k' n' hne => upd2_ne _ _ _ _ _ _ hne) rfl
  · rename_i h1 h2
    have hpc : neutral (s.pc t) := by
      simp only at h1 h2
      unfold neutral
      cases hp : s.pc t with
      | start => simp
      | drain r => simp
      | cwait k => exact absurd hp (h1 k)
      | holding k n => exact absurd hp (h2 k n)
      | done => simp
      | cancelled => simp
    exact neutral_inv s _ t .cancelled hi hpc (Or.inr (Or.inr (Or.inl rfl))) rfl rfl rfl rfl rfl rfl rfl rfl
      (fun u hu => by simp [upd, hu]) rfl rfl

theorem stepClient_inv (s s' : St) (t : Nat) (pops : List Nat) (g : Option Nat)
    (hi : Inv s) (h : stepClient s t pops g = some s') : Inv s' := by
  unfold stepClient at h
  split at h
  · cases h
  · rename_i hen
    split at h
    · split at h
      · cases h; exact deliverCancel_inv s t hi
      · cases h
    · rename_i hc
      split at h
      · rename_i hpc; exact beginRound_inv s s' t pops g hi hpc h
      · rename_i r hpc
        refine beginRound_inv _ s' t pops g ?_ (by simp) h
        exact neutral_inv s _ t .start hi (by rw [hpc]; exact Or.inr (Or.inr (Or.inr ⟨r, rfl⟩))) (Or.inl rfl)
          rfl rfl rfl rfl rfl rfl rfl rfl (fun _ _ => rfl) rfl rfl
      · rename_i k hpc
        split at h
        · have hn : (t, true) ∈ (s.host k).cond := by
            simp only [clientEnabled, hpc] at hen
            simp only [Bool.not_eq_true] at hc
            simpa [hc] using hen
          exact hostAcquire_inv _ s' t k g (resume_inv s t k hi hpc hn) (by simp [setHost]) h
        · cases h
      · rename_i k n hpc
        split at h
        · cases h
        · rename_i rd rest hprog
          have := endRound_inv s t k n rd rest hi hpc
          exact beginRound_inv _ s' t pops g this.1 this.2 h
      · cases h
      · cases h

/-- **inv_step / inv_fault**: every transition — a task step, `task.cancel()`, a remote close —
preserves the invariant. -/
theorem inv_step (s s' : St) (a : Act) (hi : Inv s) (h : step s a = some s') : Inv s' := by
  have hi0 : Inv { s with evs := [] } := frame_inv none none none s _ hi rfl rfl rfl rfl rfl rfl rfl rfl rfl rfl rfl
  unfold step at h
  dsimp only at h
  split at h
  · exact stepClient_inv _ s' _ _ _ hi0 h
  · split at h
    · cases h
      rename_i r hen
      have hr : s.relDone r = false := by
        simp only [relEnabled, Bool.and_eq_true, Bool.not_eq_true', decide_eq_true_eq] at hen
        exact hen.2
      have := orphanRel_inv _ r hi0 hr
      exact releaseOp_inv _ _ _ this
    · cases h
  · split at h
    · cases h; exact hi0
    · cases h; exact hi0
    · cases h; exact creq_inv _ _ hi0
  · cases h
    exact rclose_inv _ _ _ hi0

/-- states reachable from the initial state of any configuration by any schedule -/
inductive Reach (M mc nk : Nat) (progs : List (List Round)) : St → Prop
  | init : Reach M mc nk progs (init M mc nk progs)
  | step {s s' : St} (a : Act) : Reach M mc nk progs s → step s a = some s' → Reach M mc nk progs s'

theorem inv_reach {M mc nk : Nat} {progs : List (List Round)} (hM : 0 < M) {s : St}
    (h : Reach M mc nk progs s) : Inv s := by
  induction h with
  | init => exact inv_init M mc nk progs hM
  | step a _ hs ih => exact inv_step _ _ a ih hs

theorem reach_run {M mc nk : Nat} {progs : List (List Round)} (acts : List Act) :
    ∀ {s s' : St}, Reach M mc nk progs s → run s acts = some s' → Reach M mc nk progs s' := by
  induction acts with
  | nil => intro s s' hr h; simp only [run] at h; cases h; exact hr
  | cons a rest ih =>
    intro s s' hr h
    simp only [run] at h
    split at h
    · rename_i s1 hs; exact ih (Reach.step a hr hs) h
    · cases h

/-! ## the configured limit is constant -/

theorem hostAcquire_M (s s' : St) (t k : Nat) (g : Option Nat) (h : hostAcquire s t k g = some s') : s'.M = s.M := by
  unfold hostAcquire at h
  repeat' split at h
  all_goals first | cases h | skip
  all_goals simp [grantReady, grantFresh, waitOn, setHost]

theorem releaseOp_M (s : St) (k n : Nat) : (releaseOp s k n).M = s.M := by
  simp only [releaseOp, cleanAll, hostRelease, setHost]; split <;> rfl

theorem beginRound_M (s s' : St) (t : Nat) (pops : List Nat) (g : Option Nat)
    (h : beginRound s t pops g = some s') : s'.M = s.M := by
  unfold beginRound at h
  split at h
  · split at h
    · cases h; rfl
    · cases h
  · split at h
    · cases h
    · rename_i s1 r hd
      obtain ⟨p, hp⟩ := drainGo_eq _ _ _ _ hd
      split at h
      · cases h; subst hp; rfl
      · cases h
    · rename_i s1 hd
      obtain ⟨p, hp⟩ := drainGo_eq _ _ _ _ hd
      subst hp
      unfold acquire at h
      have := hostAcquire_M _ _ _ _ _ h
      rw [this]; split <;> rfl

theorem endRound_M (s : St) (t k n : Nat) (rd : Round) (rest : List Round) : (endRound s t k n rd rest).M = s.M := by
  unfold endRound
  dsimp only
  split
  · rw [releaseOp_M]
  · rfl

theorem deliverCancel_M (s : St) (t : Nat) : (deliverCancel s t).M = s.M := by
  unfold deliverCancel
  split
  · simp only [cancelWait, setHost]; split <;> rfl
  · rfl
  · rfl

theorem step_M (s s' : St) (a : Act) (h : step s a = some s') : s'.M = s.M := by
  unfold step at h
  dsimp only at h
  split at h
  · unfold stepClient at h
    split at h
    · cases h
    · split at h
      · split at h
        · cases h; rw [deliverCancel_M]
        · cases h
      · split at h
        · exact (beginRound_M _ _ _ _ _ h).trans rfl
        · exact (beginRound_M _ _ _ _ _ h).trans rfl
        · split at h
          · exact (hostAcquire_M _ _ _ _ _ h).trans rfl
          · cases h
        · split at h
          · cases h
          · exact ((beginRound_M _ _ _ _ _ h).trans (endRound_M _ _ _ _ _ _)).trans rfl
        · cases h
        · cases h
  · split at h
    · cases h; rw [releaseOp_M]
    · cases h
  · split at h <;> cases h <;> rfl
  · cases h; rfl

theorem reach_M {M mc nk : Nat} {progs : List (List Round)} {s : St} (h : Reach M mc nk progs s) : s.M = M := by
  induction h with
  | init => rfl
  | step a _ hs ih => rw [step_M _ _ a hs, ih]

/-! ## who closes a connection -/

/-- where the `closed` flag of `(k', n')` may differ between `s` and `s'` after a step of client `t`:
the connection `t` held when the step began, an idle pooled connection (the pool's own forced sweep),
or the brand-new connection object made for `t` in this step -/
def closedDelta (s s' : St) (t : Nat) : Prop :=
  ∀ k' n', s'.closed k' n' ≠ s.closed k' n' →
    s.pc t = .holding k' n' ∨ n' ∈ (s.host k').ready ∨ n' = (s.host k').next

theorem hostAcquire_closed (s s' : St) (t k : Nat) (g : Option Nat) (h : hostAcquire s t k g = some s') :
    ∀ k' n', s'.closed k' n' ≠ s.closed k' n' → k' = k ∧ n' = (s.host k).next := by
  unfold hostAcquire at h
  intro k' n' hne
  repeat' split at h
  all_goals first | cases h | skip
  all_goals simp only [grantReady, grantFresh, waitOn, setHost] at hne
  all_goals first | exact absurd rfl hne | skip
  by_cases hk : (k', n') = (k, (s.host k).next)
  · cases hk; exact ⟨rfl, rfl⟩
  · exact absurd (upd2_ne _ _ _ _ _ _ hk) hne

theorem acquire_closed (s s' : St) (t k : Nat) (g : Option Nat) (h : acquire s t k g = some s') :
    ∀ k' n', s'.closed k' n' ≠ s.closed k' n' → n' = (s.host k').next := by
  unfold acquire at h
  intro k' n' hne
  have := hostAcquire_closed _ _ _ _ _ h k' n' (by
    intro e; apply hne; rw [e]; split <;> rfl)
  obtain ⟨hk, hn⟩ := this
  subst hk
  rw [hn]
  split <;> simp [setHost]

theorem beginRound_closed (s s' : St) (t : Nat) (pops : List Nat) (g : Option Nat)
    (h : beginRound s t pops g = some s') :
    ∀ k' n', s'.closed k' n' ≠ s.closed k' n' → n' = (s.host k').next := by
  unfold beginRound at h
  intro k' n' hne
  split at h
  · split at h
    · cases h; exact absurd rfl hne
    · cases h
  · split at h
    · cases h
    · rename_i s1 r hd
      obtain ⟨p, hp⟩ := drainGo_eq _ _ _ _ hd
      split at h
      · cases h; subst hp; exact absurd rfl hne
      · cases h
    · rename_i s1 hd
      obtain ⟨p, hp⟩ := drainGo_eq _ _ _ _ hd
      subst hp
      exact acquire_closed _ _ _ _ _ h k' n' hne

theorem releaseOp_closed (s : St) (k n : Nat) :
    ∀ k' n', (releaseOp s k n).closed k' n' ≠ s.closed k' n' → (k', n') = (k, n) ∨ n' ∈ (s.host k').ready := by
  intro k' n' hne
  simp only [releaseOp, cleanAll, hostRelease, setHost] at hne
  by_cases hc : k' = k
  · subst hc
    by_cases hn : n' = n
    · left; rw [hn]
    · right
      revert hne
      split <;> simp [upd] <;> intro h <;> split at h <;> simp_all
  · right
    revert hne
    split <;> simp [upd, hc]
    all_goals intro _ _ h _; exact h

theorem releaseOp_next (s : St) (k n k' : Nat) : ((releaseOp s k n).host k').next = (s.host k').next := by
  simp only [releaseOp, cleanAll, hostRelease, setHost]
  split <;> simp only [upd] <;> split <;> simp_all

theorem endRound_closed (s : St) (t k n : Nat) (rd : Round) (rest : List Round) :
    (∀ k' n', (endRound s t k n rd rest).closed k' n' ≠ s.closed k' n' → (k', n') = (k, n) ∨ n' ∈ (s.host k').ready) ∧
    (∀ k', ((endRound s t k n rd rest).host k').next = (s.host k').next) := by
  unfold endRound
  dsimp only
  split
  · refine ⟨?_, fun k' => by rw [releaseOp_next]⟩
    intro k' n' hne
    by_cases hk : (k', n') = (k, n)
    · exact Or.inl hk
    · have := releaseOp_closed _ k n k' n' (by
        intro e; apply hne; rw [e]; exact upd2_ne _ _ _ _ _ _ hk)
      exact this
  · refine ⟨?_, fun k' => rfl⟩
    intro k' n' hne
    by_cases hk : (k', n') = (k, n)
    · exact Or.inl hk
    · exact absurd (upd2_ne _ _ _ _ _ _ hk) hne

/-- **closes_only_own** — session ownership: a step of client `t` changes the closed state only of
the connection `t` holds when the step begins (use, `abort()`, connect), of idle pooled connections
(the pool's own forced sweep during `t`'s direct check-in) or of the connection object just made
for `t`.  In particular a client that has given its connection back — finished, cancelled, or
waiting for its next one — never closes it: leaving the session block late (`__exit__` → `abort()`
after `recycle()`) touches nothing, whoever holds the connection by then. -/
theorem closes_only_own (s s' : St) (t : Nat) (pops : List Nat) (g : Option Nat)
    (h : step s (.client t pops g) = some s') : closedDelta s s' t := by
  unfold step at h
  dsimp only at h
  unfold stepClient at h
  intro k' n' hne
  split at h
  · cases h
  · split at h
    · split at h
      · cases h
        simp only [deliverCancel] at hne
        split at hne
        · rename_i k hpc
          simp only [cancelWait, setHost] at hne
          split at hne <;> exact absurd rfl hne
        · rename_i k n hpc
          simp only [spawnRel] at hne
          by_cases hk : (k', n') = (k, n)
          · cases hk; exact Or.inl hpc
          · exact absurd (upd2_ne _ _ _ _ _ _ hk) hne
        · exact absurd rfl hne
      · cases h
    · split at h
      · exact Or.inr (Or.inr (beginRound_closed _ _ _ _ _ h k' n' hne))
      · exact Or.inr (Or.inr (beginRound_closed _ _ _ _ _ h k' n' hne))
      · split at h
        · have := hostAcquire_closed _ _ _ _ _ h k' n' hne
          rename_i k hpc _
          obtain ⟨hk, hn⟩ := this
          subst hk
          right; right; rw [hn]; simp [setHost]
        · cases h
      · rename_i k n hpc
        split at h
        · cases h
        · rename_i rd rest hprog
          have he := endRound_closed { s with evs := [] } t k n rd rest
          by_cases hmid : (endRound { s with evs := [] } t k n rd rest).closed k' n' = s.closed k' n'
          · have := beginRound_closed _ _ _ _ _ h k' n' (by rw [hmid]; exact hne)
            right; right; rw [this, he.2]
          · rcases he.1 k' n' hmid with hk | hr
            · cases hk; exact Or.inl hpc
            · exact Or.inr (Or.inl hr)
      · cases h
      · cases h

/-- a release task (the pool's own deferred check-in) closes nothing but idle pooled connections
(forced sweep above `max_count`) -/
theorem release_task_closes_only_idle (s s' : St) (r : Nat) (h : step s (.rel r) = some s') :
    ∀ k' n', s'.closed k' n' ≠ s.closed k' n' → (k', n') = s.relConn r ∨ n' ∈ (s.host k').ready := by
  unfold step at h
  dsimp only at h
  split at h
  · cases h
    intro k' n' hne
    exact releaseOp_closed { s with evs := [], relDone := upd s.relDone r true } _ _ k' n' hne
  · cases h

/-! ## Property theorems (C12)

All for every configuration (`N` client programs of any length over any host keys, any limit
`M ≥ 1`, any `max_count`) and every schedule of task steps, cancellations and remote closes. -/

section property
variable {M mc nk : Nat} {progs : List (List Round)} {s : St}

/-- **exclusive** — "a connection is held by at most one client at a time": two clients never
hold the same connection of the same host. -/
theorem exclusive (hM : 0 < M) (hr : Reach M mc nk progs s) {t t' k n : Nat}
    (h : s.pc t = .holding k n) (h' : s.pc t' = .holding k n) : t = t' :=
  (inv_reach hM hr).hold_inj t t' k n h h'

/-- **bounded** — "no more than the configured number of connections per host are ever checked
out". Even pooled + checked out stays within the limit: the commented-out assert of `ConnectionPool.acquire` is always true. -/
theorem bounded (hM : 0 < M) (hr : Reach M mc nk progs s) (k : Nat) :
    (s.host k).busy.length ≤ M ∧ (s.host k).ready.length + (s.host k).busy.length ≤ M := by
  have := (inv_reach hM hr).count_le k
  rw [reach_M hr] at this
  exact ⟨by omega, this⟩

/-- a client's connection is checked out (in `busy`) and no deferred release is pending for it -/
theorem held_is_busy (hM : 0 < M) (hr : Reach M mc nk progs s) {t k n : Nat} (h : s.pc t = .holding k n) :
    n ∈ (s.host k).busy ∧ n ∉ (s.host k).ready ∧ ∀ r, s.relDone r = false → s.relConn r ≠ (k, n) := by
  have hi := inv_reach hM hr
  refine ⟨hi.hold_busy t k n h, ?_, fun r hr' => hi.hold_rel t k n r h hr'⟩
  intro hrdy
  exact hi.disjoint k n hrdy (hi.hold_busy t k n h)

/-- **wakeup_pending** — "a waiting client obtains a connection as soon as one is free", state by
state: whenever a (not cancelled) client waits on host `k` while a slot of `k` is free, a woken
waiter of `k` is ready to run. -/
theorem wakeup_pending (hM : 0 < M) (hr : Reach M mc nk progs s) {t k : Nat}
    (hw : (t, false) ∈ (s.host k).cond) (hc : s.creq t = false) (hfree : (s.host k).busy.length < M) :
    ∃ u, (u, true) ∈ (s.host k).cond ∧ clientEnabled s u = true := by
  rw [← reach_M hr] at hfree
  have hi := inv_reach hM hr
  have := hi.notif k ⟨t, hw, hc⟩
  simp only [reduceCtorEq, if_false, Nat.add_zero] at this
  have hpos : 0 < (s.host k).cond.countP (·.2) := by omega
  obtain ⟨e, he, hb⟩ := List.countP_pos_iff.mp hpos
  obtain ⟨u, b⟩ := e
  simp only at hb
  subst hb
  refine ⟨u, he, ?_⟩
  have := hi.cond_pc k u true he
  simp [clientEnabled, this, he]

/-- **no_lost_wakeup** — when the event loop has gone dry, a client that still waits for host `k`
waits because all `M` connections of `k` are checked out (and none is idle). -/
theorem no_lost_wakeup (hM : 0 < M) (hr : Reach M mc nk progs s) (hq : quiescent s) {t k : Nat}
    (h : s.pc t = .cwait k) : (s.host k).busy.length = M ∧ (s.host k).ready = [] := by
  rw [← reach_M hr]
  have hi := inv_reach hM hr
  obtain ⟨b, hb⟩ := hi.pc_cond t k h
  have hen := hq.1 t
  simp only [clientEnabled, h, Bool.or_eq_false_iff] at hen
  have hbf : b = false := by
    cases b with
    | false => rfl
    | true => have := hen.1; simp [hb] at this
  subst hbf
  have hfull : ¬ (s.host k).busy.length < s.M := by
    intro hfree
    obtain ⟨u, _, hu⟩ := wakeup_pending hM hr hb hen.2 (by rw [← reach_M hr]; exact hfree)
    rw [hq.1 u] at hu; cases hu
  have := hi.count_le k
  refine ⟨by omega, ?_⟩
  apply List.eq_nil_of_length_eq_zero
  omega

/-- **no_deadlock** — the loop never goes dry with work left: at quiescence every client has
finished and every deferred release has run. -/
theorem no_deadlock (hM : 0 < M) (hr : Reach M mc nk progs s) (hq : quiescent s) : allDone s := by
  have hi := inv_reach hM hr
  have hrel : ∀ r, s.relDone r = true := by
    intro r
    cases hd : s.relDone r with
    | true => rfl
    | false =>
      have hlt : r < s.nrels := by
        by_cases h : r < s.nrels
        · exact h
        · have := hi.rel_ge r (by omega); rw [hd] at this; cases this
      have := hq.2 r
      simp [relEnabled, hlt, hd] at this
  refine ⟨?_, hrel⟩
  intro t
  have hen := hq.1 t
  unfold clientFinished
  cases hp : s.pc t with
  | start => simp [clientEnabled, hp] at hen
  | holding k n => simp [clientEnabled, hp] at hen
  | drain r => simp [clientEnabled, hp, hrel r] at hen
  | done => simp
  | cancelled => simp
  | cwait k =>
    have hfull := (no_lost_wakeup hM hr hq hp).1
    have hMs : 0 < M := hM
    have hne : (s.host k).busy ≠ [] := by
      intro h; rw [h] at hfull; simp at hfull; omega
    obtain ⟨n, hn⟩ := List.exists_mem_of_ne_nil _ hne
    rcases hi.busy_owned k n hn with ⟨u, hu⟩ | ⟨r, hr1, _⟩ | ho
    · have := hq.1 u; simp [clientEnabled, hu] at this
    · rw [hrel r] at hr1; cases hr1
    · cases ho

/-- **clean_quiescence** — "once all clients have finished nothing remains checked out and per-host
bookkeeping for idle hosts is dropped": no busy connection, every waiter count 0, every host pool
still kept has a pooled connection; and no `KeyError` was ever raised on the way. -/
theorem clean_quiescence (hM : 0 < M) (hr : Reach M mc nk progs s) (hd : allDone s) :
    (∀ k, (s.host k).busy = []) ∧ (∀ k, (s.host k).waiters = 0) ∧ (∀ k, (s.host k).cond = []) ∧
    (∀ k, k ∈ s.present → (s.host k).ready ≠ []) ∧ s.err = false := by
  have hi := inv_reach hM hr
  have hbusy : ∀ k, (s.host k).busy = [] := by
    intro k
    apply List.eq_nil_iff_forall_not_mem.mpr
    intro n hn
    rcases hi.busy_owned k n hn with ⟨u, hu⟩ | ⟨r, hr1, _⟩ | ho
    · rcases hd.1 u with h | h <;> rw [hu] at h <;> cases h
    · rw [hd.2 r] at hr1; cases hr1
    · cases ho
  have hcond : ∀ k, (s.host k).cond = [] := by
    intro k
    apply List.eq_nil_iff_forall_not_mem.mpr
    rintro ⟨u, b⟩ hm
    have := hi.cond_pc k u b hm
    rcases hd.1 u with h | h <;> rw [this] at h <;> cases h
  have hw : ∀ k, (s.host k).waiters = 0 := by
    intro k; have := hi.waiters_eq k; simp [hcond k] at this; exact this
  refine ⟨hbusy, hw, hcond, ?_, hi.noerr⟩
  intro k hk
  rcases hi.kept k hk with h | h | h
  · exact h
  · exact absurd (hbusy k) h
  · rw [hw k] at h; cases h

/-- **dead_idle_is_recent** — a dead connection that sits idle in a pool died (was closed by its
peer) after the last `clean` sweep: every check-in sweeps all hosts, whatever host it is for. -/
theorem dead_idle_is_recent (hM : 0 < M) (hr : Reach M mc nk progs s) {k n : Nat}
    (h : n ∈ (s.host k).ready) (hc : s.closed k n = true) : s.dirty k n = true := by
  rcases (inv_reach hM hr).swept k n h hc with h | h
  · exact h
  · cases h

/-- **release_sweeps** — right after any deferred release has run, no pool of any host holds a dead
idle connection, and (by `kept`) no host pool without connection and waiter is left. -/
theorem release_sweeps (hM : 0 < M) (hr : Reach M mc nk progs s) {s' : St} {r : Nat}
    (hs : step s (.rel r) = some s') {k n : Nat} (h : n ∈ (s'.host k).ready) : s'.closed k n = false := by
  have hr' : Reach M mc nk progs s' := Reach.step _ hr hs
  have hd : s'.dirty k n = false := by
    unfold step at hs
    dsimp only at hs
    split at hs
    · cases hs; simp [releaseOp, cleanAll]
    · cases hs
  cases hc : s'.closed k n with
  | false => rfl
  | true => have := dead_idle_is_recent hM hr' h hc; rw [hd] at this; cases this

/-- **idle_hosts_dropped** — "per-host bookkeeping for idle hosts is dropped", idle = without live
connection: once all clients have finished, if no still-pooled connection was closed by its peer
after the last check-in, every host pool that is kept holds live idle connections only (at least
one), and `count()` is exactly the number of live idle connections. -/
theorem idle_hosts_dropped (hM : 0 < M) (hr : Reach M mc nk progs s) (hd : allDone s)
    (hclean : ∀ k n, n ∈ (s.host k).ready → s.dirty k n = false) :
    (∀ k, k ∈ s.present → (s.host k).ready ≠ [] ∧ ∀ n, n ∈ (s.host k).ready → s.closed k n = false) ∧
    count s = (s.present.map fun k => ((s.host k).ready.filter fun n => !s.closed k n).length).sum := by
  have hq := clean_quiescence hM hr hd
  have hlive : ∀ k n, n ∈ (s.host k).ready → s.closed k n = false := by
    intro k n h
    cases hc : s.closed k n with
    | false => rfl
    | true => have := dead_idle_is_recent hM hr h hc; rw [hclean k n h] at this; cases this
  refine ⟨fun k hk => ⟨hq.2.2.2.1 k hk, hlive k⟩, ?_⟩
  unfold count
  congr 1
  apply List.map_congr_left
  intro k _
  rw [hq.1 k]
  have : ((s.host k).ready.filter fun n => !s.closed k n) = (s.host k).ready := by
    apply List.filter_eq_self.mpr
    intro n hn; simp [hlive k n hn]
  rw [this]; simp

/-- no `KeyError`: `busy.remove(connection)` and `_host_pools[key]` never miss. -/
theorem no_error (hM : 0 < M) (hr : Reach M mc nk progs s) : s.err = false := (inv_reach hM hr).noerr

end property

/-! ## non-vacuity: the hypotheses of the theorems are met by concrete runs -/

/-- two clients, one host, limit 1 -/
def demoProgs : List (List Round) := [[⟨0, false, false⟩], [⟨0, false, false⟩], [⟨0, false, false⟩]]

/-- client 0 holds connection (0,0); clients 1 and 2 wait on the condition -/
def demoWait : Option St := run (init 1 100 1 demoProgs) [.client 0 [] (some 0), .client 1 [] none, .client 2 [] none]

/-- ... client 0 leaves, its release task wakes client 1, client 1 is cancelled after it was woken:
the wake-up is passed on to client 2, which gets the connection; everything finishes. -/
def demoCancel : Option St := run (init 1 100 1 demoProgs)
  [.client 0 [] (some 0), .client 1 [] none, .client 2 [] none, .client 0 [] none, .rel 0,
   .cancel 1, .client 1 [] none, .client 2 [] (some 0), .client 2 [] none, .rel 1]

-- exclusive / bounded / held_is_busy: a state with a holder and a full host
example : (demoWait.map fun s => (s.pc 0, (s.host 0).busy, (s.host 0).cond)) =
    some (.holding 0 0, [0], [(1, false), (2, false)]) := by decide
-- wakeup_pending: after the release a slot is free, client 2 still waits unnotified, client 1 is woken
example : ((run (init 1 100 1 demoProgs) [.client 0 [] (some 0), .client 1 [] none, .client 2 [] none,
    .client 0 [] none, .rel 0]).map fun s => ((s.host 0).busy, (s.host 0).cond, clientEnabled s 1)) =
    some ([], [(1, true), (2, false)], true) := by decide
-- cancellation of the woken waiter passes the wake-up on
example : ((run (init 1 100 1 demoProgs) [.client 0 [] (some 0), .client 1 [] none, .client 2 [] none,
    .client 0 [] none, .rel 0, .cancel 1, .client 1 [] none]).map fun s => ((s.host 0).cond, (s.host 0).waiters, s.pc 1)) =
    some ([(2, true)], 1, .cancelled) := by decide
-- no_deadlock / clean_quiescence: the run ends with all clients finished, nothing busy, a live pooled connection kept
example : (demoCancel.map fun s => (s.pc 0, s.pc 1, s.pc 2, s.relDone 0, s.relDone 1)) =
    some (.done, .cancelled, .done, true, true) := by decide
example : (demoCancel.map fun s => ((s.host 0).busy, (s.host 0).ready, (s.host 0).waiters, s.present, s.err)) =
    some ([], [0], 0, [0], false) := by decide
-- an idle host is dropped: the only connection was closed, the last release cleans the host pool away
example : ((run (init 1 100 1 [[⟨0, true, false⟩]]) [.client 0 [] (some 0), .client 0 [] none, .rel 0]).map
    fun s => (s.present, (s.host 0).ready, s.pc 0)) = some ([], [], .done) := by decide
-- the waiting state is reachable (hypothesis of no_lost_wakeup), with the host full
example : ∃ s, Reach 1 100 1 demoProgs s ∧ s.pc 1 = .cwait 0 ∧ (s.host 0).busy.length = 1 := by
  have h : ∃ s, demoWait = some s := by
    unfold demoWait; exact Option.isSome_iff_exists.mp (by decide)
  obtain ⟨s, hs⟩ := h
  refine ⟨s, reach_run _ Reach.init hs, ?_, ?_⟩
  · have : (demoWait.map fun s => s.pc 1) = some (.cwait 0) := by decide
    rw [hs] at this; simpa using this
  · have : (demoWait.map fun s => (s.host 0).busy.length) = some 1 := by decide
    rw [hs] at this; simpa using this

-- idle_hosts_dropped / release_sweeps: host 0's keep-alive connection is closed by the peer while idle in the
-- pool; the next check-in — of a live connection of host 1 — sweeps it and drops host 0
example : ((run (init 1 100 2 [[⟨0, false, false⟩], [⟨1, false, false⟩]])
    [.client 0 [] (some 0), .client 0 [] none, .rel 0, .rclose 0 0, .client 1 [0] (some 0), .client 1 [] none, .rel 1]).map
    fun s => (s.present, (s.host 0).ready, (s.host 1).ready, s.closed 1 0, count s)) =
    some ([1], [], [0], false, 1) := by decide
-- ... whereas a peer close after the last check-in leaves the dead connection (marked dirty) until the next one
example : ((run (init 1 100 2 [[⟨0, false, false⟩]])
    [.client 0 [] (some 0), .client 0 [] none, .rel 0, .rclose 0 0]).map
    fun s => (s.present, (s.host 0).ready, s.closed 0 0, s.dirty 0 0)) = some ([0], [0], true, true) := by decide

-- closes_only_own: the delta is inhabited — the holder's own step changes the flag of the connection it holds
-- (here: the first use connects it), and nothing else
example : ((run (init 1 100 1 [[⟨0, false, false⟩], [⟨0, false, false⟩]]) [.client 0 [] (some 0)]).bind fun s =>
    (step s (.client 0 [] none)).map fun s' => (s.pc 0, s.closed 0 0, s'.closed 0 0, s'.pc 0)) =
    some (.holding 0 0, true, false, .done) := by decide

/-! ## the defect that was repaired (DESIGN.md section 7, row 10)

Before the `fix:` commits a `CancelledError` inside `Condition.wait` left `HostPool.acquire`
without releasing the re-acquired lock, without passing a consumed wake-up on and without undoing
`_host_pool_waiters`.  The lock-free part of that behaviour is `cancelWaitOld`; already it breaks
`wakeup_pending` / `no_lost_wakeup` and the waiter accounting (the held lock, which the model does
not represent, made it a hard deadlock on the real code: corpus `cancelled_cond_waiter.json`). -/

def cancelWaitOld (s : St) (t k : Nat) : St :=
  { setHost s k { s.host k with cond := dropTask t (s.host k).cond } with pc := upd s.pc t .cancelled }

def demoBeforeCancel : Option St := run (init 1 100 1 demoProgs)
  [.client 0 [] (some 0), .client 1 [] none, .client 2 [] none, .client 0 [] none, .rel 0, .cancel 1]

/-- client 1 (woken, then cancelled) leaves the old way: client 2 keeps waiting un-notified although
the slot is free and nothing else can run, and the waiter count stays 2 with one waiter left. -/
theorem cancel_counterexample_unrepaired :
    (demoBeforeCancel.map fun s =>
      let s' := cancelWaitOld s 1 0
      ((s'.host 0).cond, (s'.host 0).busy, (s'.host 0).waiters,
       (List.range 3).map (clientEnabled s'), (List.range 2).map (relEnabled s'))) =
    some ([(2, false)], [], 2, [false, false, false], [false, false]) := by decide

end Wpull.Pool
