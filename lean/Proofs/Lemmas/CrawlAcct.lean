/-
Request accounting for crash-free runs: the request log is exactly the
requests of the visits handed out, and (when no visit fails) no URL is handed
out twice.  Helper file.
-/
import Proofs.Lemmas.CrawlInvB
namespace Wpull.Crawl

def sumOver {α : Type} (f : α → Nat) (l : List α) : Nat := (l.map f).sum

@[simp] theorem sumOver_nil {α : Type} (f : α → Nat) : sumOver f [] = 0 := rfl
@[simp] theorem sumOver_cons {α : Type} (f : α → Nat) (a : α) (l : List α) :
    sumOver f (a :: l) = f a + sumOver f l := by simp [sumOver]
@[simp] theorem sumOver_append {α : Type} (f : α → Nat) (a b : List α) :
    sumOver f (a ++ b) = sumOver f a + sumOver f b := by simp [sumOver]

theorem sumOver_putItem (f : Item → Nat) (l : List Item) (old new : Item)
    (hn : (iurls l).Nodup) (ho : old ∈ l) (hu : old.row.url = new.row.url) :
    sumOver f (putItem l new) + f old = sumOver f l + f new := by
  induction l with
  | nil => cases ho
  | cons x t ih =>
    simp only [iurls, List.map_cons, List.nodup_cons] at hn
    rcases List.mem_cons.mp ho with rfl | ho'
    · have hb : (old.row.url == new.row.url) = true := by simpa using hu
      have ht : putItem t new = t := by
        simp only [putItem]
        conv => rhs; rw [← List.map_id t]
        apply List.map_congr_left
        intro y hy
        have : y.row.url ≠ new.row.url := by
          intro e; apply hn.1; rw [hu, ← e]; exact List.mem_map.mpr ⟨y, hy, rfl⟩
        have : (y.row.url == new.row.url) = false := by simpa using this
        simp [this]
      have : putItem (old :: t) new = new :: putItem t new := by
        show (if (old.row.url == new.row.url) = true then new else old) :: putItem t new = _
        rw [if_pos hb]
      rw [this, ht]; simp only [sumOver_cons]; omega
    · have hx : x.row.url ≠ new.row.url := by
        intro e; apply hn.1; rw [e, ← hu]; exact List.mem_map.mpr ⟨old, ho', rfl⟩
      have hb : (x.row.url == new.row.url) = false := by simpa using hx
      have : putItem (x :: t) new = x :: putItem t new := by
        show (if (x.row.url == new.row.url) = true then new else x) :: putItem t new = _
        rw [hb]; rfl
      rw [this]; simp only [sumOver_cons]
      have := ih hn.2 ho'
      omega

theorem sumOver_dropItem (f : Item → Nat) (l : List Item) (old : Item) (u : Url)
    (hn : (iurls l).Nodup) (ho : old ∈ l) (hu : old.row.url = u) :
    sumOver f (dropItem l u) + f old = sumOver f l := by
  induction l with
  | nil => cases ho
  | cons x t ih =>
    simp only [iurls, List.map_cons, List.nodup_cons] at hn
    rcases List.mem_cons.mp ho with rfl | ho'
    · have ht : dropItem t u = t := by
        simp only [dropItem]
        apply List.filter_eq_self.mpr
        intro y hy
        have : y.row.url ≠ u := by
          intro e; apply hn.1; rw [hu, ← e]; exact List.mem_map.mpr ⟨y, hy, rfl⟩
        simpa using this
      have : dropItem (old :: t) u = dropItem t u := by simp [dropItem, hu]
      rw [this, ht]; simp only [sumOver_cons]; omega
    · have hx : x.row.url ≠ u := by
        intro e; apply hn.1; rw [e, ← hu]; exact List.mem_map.mpr ⟨old, ho', rfl⟩
      have : dropItem (x :: t) u = x :: dropItem t u := by simp [dropItem, hx]
      rw [this]; simp only [sumOver_cons]
      have := ih hn.2 ho'
      omega

variable {c : Cfg} {conc : Nat} {starts : List Url} {s s' : St}

/-- crash-free runs: requests seen + requests still pending = requests of all visits handed out -/
theorem reach_acct (hw : c.WF) (h : Reach c conc starts false s) (v : Url) :
    s.log.count v + sumOver (fun it => (pend it).count v) s.inflight
      = sumOver (fun o => (c.visit o).requests.count v) s.outs := by
  induction h with
  | init => simp [init]
  | @step s s' e hr hk hs ih =>
    have ha := reach_invA hw hr
    have hk' := hk rfl
    cases e with
    | checkOut =>
      obtain ⟨r, _, _, _, rfl⟩ := step_checkOut hs
      simp only [sumOver_append, sumOver_cons, sumOver_nil, pend_running]
      omega
    | request u =>
      obtain ⟨r, w, rest, _, hf, rfl⟩ := step_request hs
      have hf' := findItem_some hf
      have := sumOver_putItem (fun it => (pend it).count v) s.inflight _ ⟨r, .running rest⟩ ha.itemsNodup hf'.1 rfl
      simp only [pend_running, List.count_cons] at this
      simp only [List.count_append, List.count_cons, List.count_nil]
      omega
    | flush u =>
      obtain ⟨r, _, hf, rfl⟩ := step_flush hs
      have hf' := findItem_some hf
      have := sumOver_putItem (fun it => (pend it).count v) s.inflight _ ⟨r, .flushed⟩ ha.itemsNodup hf'.1 rfl
      simp only [pend_running, pend_flushed, List.count_nil] at this
      simp only
      omega
    | checkIn u =>
      obtain ⟨r, _, hf, rfl⟩ := step_checkIn hs
      have hf' := findItem_some hf
      have := sumOver_dropItem (fun it => (pend it).count v) s.inflight _ u ha.itemsNodup hf'.1 hf'.2
      simp only [pend_flushed, List.count_nil] at this
      simp only
      omega
    | crash => exact absurd rfl hk'.1
    | restart => exact absurd rfl hk'.2

/-- no visit ends in `error` -/
def Cfg.NoFail (c : Cfg) : Prop := ∀ r, (c.visit r).status = .done ∨ (c.visit r).status = .skipped

theorem Cfg.NoFail.wf (h : c.NoFail) : c.WF := fun r => by
  rcases h r with h | h
  · exact Or.inl h
  · exact Or.inr (Or.inl h)

/-- crash-free, failure-free runs: a handed-out URL is never to-do or error again,
and no URL is handed out twice -/
theorem reach_outs_nodup (hn : c.NoFail) (h : Reach c conc starts false s) :
    (urls s.outs).Nodup ∧ ∀ o ∈ s.outs, ∀ r ∈ s.table, r.url = o.url → r.status ≠ .todo ∧ r.status ≠ .error := by
  induction h with
  | init => simp [init]
  | @step s s' e hr hk hs ih =>
    have hw := hn.wf
    have ha := reach_invA hw hr
    have hb := reach_invB hw hr
    have hk' := hk rfl
    cases e with
    | checkOut =>
      obtain ⟨r, _, _, hnr, rfl⟩ := step_checkOut hs
      have hrm := nextRow_some hnr
      have hnot : r.url ∉ urls s.outs := by
        intro hc
        obtain ⟨o, ho, e⟩ := mem_urls.mp hc
        have := ih.2 o ho r hrm.1 e.symm
        rcases hrm.2 with h | h
        · exact this.1 h
        · exact this.2 h
      constructor
      · simp only [urls_append, urls_cons, urls_nil]
        rw [List.nodup_append]
        refine ⟨ih.1, by simp, ?_⟩
        intro a ha' b hb'; simp at hb'; subst hb'
        intro e; subst e; exact hnot ha'
      · intro o ho x hx hu
        rcases setStatus_mem _ _ _ _ _ hx with ⟨hx, hne⟩ | ⟨r0, _, _, e⟩
        · rcases List.mem_append.mp ho with ho | ho
          · exact ih.2 o ho x hx hu
          · simp only [List.mem_singleton] at ho; subst ho; exact absurd hu hne
        · subst e; simp
    | request u =>
      obtain ⟨_, _, _, _, _, rfl⟩ := step_request hs; exact ih
    | flush u =>
      obtain ⟨r, _, _, rfl⟩ := step_flush hs
      refine ⟨ih.1, ?_⟩
      intro o ho x hx hu
      rcases addMany_mem _ _ x hx with hx | hx
      · exact ih.2 o ho x hx hu
      · exact absurd (hu ▸ (hb.outsIn o ho).1) hx.2
    | checkIn u =>
      obtain ⟨r, _, _, rfl⟩ := step_checkIn hs
      refine ⟨ih.1, ?_⟩
      intro o ho x hx hu
      rcases setStatus_mem _ _ _ _ _ hx with ⟨hx, _⟩ | ⟨r0, _, _, e⟩
      · exact ih.2 o ho x hx hu
      · subst e; simp only
        rcases hn r with h | h <;> rw [h] <;> simp
    | crash => exact absurd rfl hk'.1
    | restart => exact absurd rfl hk'.2

end Wpull.Crawl
