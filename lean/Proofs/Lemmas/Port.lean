import Wpull.Url
namespace Wpull.Url
open Wpull

/-! ### `natDec` : shape -/

theorem port_aux_append (f : Nat) : ∀ (n : Nat) (acc : List Nat),
    natDecAux f n acc = natDecAux f n [] ++ acc := by
  induction f with
  | zero => intro n acc; simp [natDecAux]
  | succ f ih =>
    intro n acc
    by_cases h : n < 10
    · simp [natDecAux, h]
    · simp only [natDecAux, h, if_false]
      rw [ih (n / 10) ((48 + n % 10) :: acc), ih (n / 10) [48 + n % 10]]
      simp

theorem port_aux_succ_lt (f n : Nat) (h : n < 10) : natDecAux (f + 1) n [] = [48 + n] := by
  simp [natDecAux, h]

theorem port_aux_succ_ge (f n : Nat) (h : ¬ n < 10) :
    natDecAux (f + 1) n [] = natDecAux f (n / 10) [] ++ [48 + n % 10] := by
  simp only [natDecAux, h, if_false]
  exact port_aux_append f (n / 10) [48 + n % 10]

theorem port_aux_digits (f : Nat) : ∀ (n : Nat), ∀ c ∈ natDecAux f n [], 48 ≤ c ∧ c ≤ 57 := by
  induction f with
  | zero => intro n c hc; simp [natDecAux] at hc
  | succ f ih =>
    intro n c hc
    by_cases h : n < 10
    · rw [port_aux_succ_lt f n h] at hc
      simp at hc
      omega
    · rw [port_aux_succ_ge f n h] at hc
      simp at hc
      cases hc with
      | inl h1 => exact ih _ c h1
      | inr h1 => omega

theorem port_aux_ne_nil (f n : Nat) : natDecAux (f + 1) n [] ≠ [] := by
  by_cases h : n < 10
  · rw [port_aux_succ_lt f n h]; simp
  · rw [port_aux_succ_ge f n h]; simp

/-- `str(p)` consists of decimal digits only and is not empty -/
theorem natDec_digits (n : Nat) : natDec n ≠ [] ∧ ∀ c ∈ natDec n, 48 ≤ c ∧ c ≤ 57 :=
  ⟨port_aux_ne_nil n n, port_aux_digits (n + 1) n⟩

/-! ### `rpartition` -/

theorem port_partition1_append (c : Nat) (a b : List Nat) (ha : c ∉ a) :
    partition1 c (a ++ c :: b) = (a, true, b) := by
  induction a with
  | nil => simp [partition1]
  | cons x t ih =>
    have hx : x ≠ c := by intro e; apply ha; simp [e]
    have ht : c ∉ t := by intro e; apply ha; simp [e]
    simp [partition1, hx, ih ht]

/-- `(a + ':' + b).rpartition(':')` when b holds no colon -/
theorem rpartition1_append (a b : List Nat) (hb : 58 ∉ b) :
    rpartition1 58 (a ++ 58 :: b) = (a, true, b) := by
  have hr : 58 ∉ b.reverse := by simpa using hb
  have e : (a ++ 58 :: b).reverse = b.reverse ++ 58 :: a.reverse := by simp
  unfold rpartition1
  simp only [e, port_partition1_append 58 b.reverse a.reverse hr]
  simp

/-! ### `endswith(']')` -/

theorem port_reverse_cons (l : List Nat) (hne : l ≠ []) (hd : ∀ c ∈ l, 48 ≤ c ∧ c ≤ 57) :
    ∃ c t, l.reverse = c :: t ∧ 48 ≤ c ∧ c ≤ 57 := by
  cases hl : l.reverse with
  | nil => simp at hl; exact absurd hl hne
  | cons c t =>
    refine ⟨c, t, rfl, ?_⟩
    apply hd c
    have : c ∈ l.reverse := by rw [hl]; simp
    simpa using this

/-- a text ending in a digit string does not end with ']' -/
theorem endsWith_bracket_natDec (a : List Nat) (n : Nat) :
    endsWith (a ++ 58 :: natDec n) [93] = false := by
  obtain ⟨hne, hd⟩ := natDec_digits n
  obtain ⟨c, t, hrev, h1, h2⟩ := port_reverse_cons (natDec n) hne hd
  have e : (a ++ 58 :: natDec n).reverse = c :: (t ++ 58 :: a.reverse) := by
    simp [hrev]
  have hc : c ≠ 93 := by omega
  unfold endsWith
  rw [e]
  simp [startsWith, hc]

/-! ### `int(str(p))` -/

/-- value of a digit string read left to right -/
def portVal (acc : Nat) (ds : List Nat) : Nat := ds.foldl (fun a c => a * 10 + (c - 48)) acc

theorem port_digitVal (c : Nat) (h1 : 48 ≤ c) (h2 : c ≤ 57) : digitVal c = c - 48 := by
  have : isAsciiDigit c = true := by simp [isAsciiDigit, h1, h2]
  simp [digitVal, this]

theorem port_intBody (ds : List Nat) : ∀ (acc k : Nat), (∀ c ∈ ds, 48 ≤ c ∧ c ≤ 57) →
    intBody 10 ds acc k false = some (portVal acc ds, k + ds.length, []) := by
  induction ds with
  | nil => intro acc k _; simp [intBody, portVal]
  | cons c t ih =>
    intro acc k hd
    have hc := hd c (by simp)
    have ht : ∀ x ∈ t, 48 ≤ x ∧ x ≤ 57 := fun x hx => hd x (by simp [hx])
    have h95 : c ≠ 95 := by omega
    have hv := port_digitVal c hc.1 hc.2
    have hlt : c - 48 < 10 := by omega
    simp only [intBody, hv, hlt, if_true]
    simp only [beq_iff_eq, h95, if_false]
    rw [ih _ _ ht]
    simp [portVal]
    omega

theorem port_val_aux (f : Nat) : ∀ (n : Nat), n < 10 ^ f → portVal 0 (natDecAux f n []) = n := by
  induction f with
  | zero =>
    intro n h
    simp at h
    simp [natDecAux, portVal, h]
  | succ f ih =>
    intro n hn
    by_cases h : n < 10
    · rw [port_aux_succ_lt f n h]; simp [portVal]
    · rw [port_aux_succ_ge f n h]
      have hdiv : n / 10 < 10 ^ f := by
        rw [Nat.pow_succ] at hn
        exact (Nat.div_lt_iff_lt_mul (by decide)).mpr hn
      have := ih (n / 10) hdiv
      unfold portVal at this ⊢
      rw [List.foldl_append, this]
      simp
      omega

theorem port_len_aux (f : Nat) : ∀ (n k : Nat), n < 10 ^ (k + 1) →
    (natDecAux f n []).length ≤ k + 1 := by
  induction f with
  | zero => intro n k _; simp [natDecAux]
  | succ f ih =>
    intro n k hn
    by_cases h : n < 10
    · rw [port_aux_succ_lt f n h]; simp
    · rw [port_aux_succ_ge f n h]
      cases k with
      | zero => simp at hn; omega
      | succ k =>
        have hdiv : n / 10 < 10 ^ (k + 1) := by
          rw [Nat.pow_succ] at hn
          exact (Nat.div_lt_iff_lt_mul (by decide)).mpr hn
        have := ih (n / 10) k hdiv
        simp
        omega

theorem port_val (n : Nat) : portVal 0 (natDec n) = n := by
  apply port_val_aux
  have h1 : n < 10 ^ n := Nat.lt_pow_self (by decide)
  have h2 : 10 ^ n ≤ 10 ^ (n + 1) := Nat.pow_le_pow_right (by decide) (by omega)
  omega

theorem port_len (p : Nat) (h : p < 65536) : (natDec p).length ≤ 5 := by
  apply port_len_aux (p + 1) p 4
  omega

theorem port_asciify (ds : List Nat) (hd : ∀ c ∈ ds, c < 127) : asciify ds = ds := by
  induction ds with
  | nil => rfl
  | cons c t ih =>
    have hc := hd c (by simp)
    have ht : ∀ x ∈ t, x < 127 := fun x hx => hd x (by simp [hx])
    simp [asciify, hc, ih ht]

/-- `int(str(p)) == p` for every port number (CPython int() grammar of the model) -/
theorem pyInt_natDec (p : Nat) (h : p < 65536) : pyInt 10 (natDec p) = .ok (Int.ofNat p) := by
  obtain ⟨hne, hd⟩ := natDec_digits p
  have ha : asciify (natDec p) = natDec p :=
    port_asciify _ (fun c hc => by have := hd c hc; omega)
  have hbody := port_intBody (natDec p) 0 0 hd
  rw [port_val] at hbody
  have hlen := port_len p h
  cases hl : natDec p with
  | nil => exact absurd hl hne
  | cons c t =>
    rw [hl] at ha hbody hlen
    have hc := hd c (by rw [hl]; simp)
    have hsp : isCSpace c = false := by
      simp [isCSpace]; omega
    have hdw : (c :: t).dropWhile isCSpace = c :: t := by
      simp [List.dropWhile, hsp]
    have hv := port_digitVal c hc.1 hc.2
    unfold pyInt
    simp only [ha, hdw]
    have h43 : c ≠ 43 := by omega
    have h45 : c ≠ 45 := by omega
    simp [h43, h45]
    have h95 : c ≠ 95 := by omega
    have hlt : ¬ 10 ≤ c - 48 := by omega
    cases t with
    | nil => simp [hv, h95, hlt, hbody, maxStrDigits]
    | cons x t' =>
      by_cases h48 : c = 48
      · subst h48
        simp [hv, hbody, maxStrDigits]
        have hn : ¬ 4300 < t'.length + 1 + 1 := by simp at hlen; omega
        simp [hn]
      · simp [hv, h48, h95, hlt, hbody, maxStrDigits]
        have hn : ¬ 4300 < t'.length + 1 + 1 := by simp at hlen; omega
        simp [hn]
end Wpull.Url
