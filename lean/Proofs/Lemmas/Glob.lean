/-
Correctness of the robots.txt wildcard matcher (`Wpull.Robots.globMatch`) against a
declarative specification: the rule path split at `*` matches a target iff the target
is  part₀ ++ gap₁ ++ part₁ ++ … ++ gapₙ ++ partₙ (++ anything, unless the rule ends in `$`).
Helper file for `Proofs/C20.lean`.
-/
import Wpull.Robots
namespace Wpull.Robots
open Wpull

theorem startsWith_iff (s p : Str) : startsWith s p = true ↔ ∃ t, s = p ++ t := by
  induction p generalizing s with
  | nil => cases s <;> simp [startsWith]
  | cons b p ih =>
    cases s with
    | nil => simp [startsWith]
    | cons a s =>
      simp only [startsWith, Bool.and_eq_true, beq_iff_eq, ih, List.cons_append, List.cons.injEq]
      constructor
      · rintro ⟨rfl, t, rfl⟩; exact ⟨t, rfl, rfl⟩
      · rintro ⟨t, rfl, rfl⟩; exact ⟨rfl, t, rfl⟩

/-- `findSub.go` finds the leftmost position where `sep` starts -/
theorem findSub_go_spec (sep : Str) : ∀ (s : Str) (i : Nat),
    (∀ j, findSub.go sep s i = some j →
      ∃ g r, s = g ++ sep ++ r ∧ j = i + g.length ∧ ∀ g' r', s = g' ++ sep ++ r' → g.length ≤ g'.length) ∧
    (findSub.go sep s i = none → ∀ g r, s ≠ g ++ sep ++ r)
  | [], i => by
    constructor
    · intro j h
      simp only [findSub.go] at h
      split at h
      · rename_i he
        cases h
        have : sep = [] := by simpa using he
        subst this
        exact ⟨[], [], by simp, by simp, fun g' r' _ => Nat.zero_le _⟩
      · cases h
    · intro h g r hs
      simp only [findSub.go] at h
      split at h
      · cases h
      · rename_i he
        have : sep = [] := by
          have := congrArg List.length hs
          simp at this
          exact List.length_eq_zero_iff.mp (by omega)
        exact he (by simp [this])
  | c :: t, i => by
    have ih := findSub_go_spec sep t (i + 1)
    constructor
    · intro j h
      simp only [findSub.go] at h
      split at h
      · rename_i hsw
        cases h
        obtain ⟨r, hr⟩ := (startsWith_iff _ _).mp hsw
        exact ⟨[], r, by simpa using hr, by simp, fun g' r' _ => Nat.zero_le _⟩
      · rename_i hsw
        obtain ⟨g, r, hs, hj, hmin⟩ := ih.1 j h
        refine ⟨c :: g, r, by simp [hs], by simp [hj]; omega, ?_⟩
        intro g' r' hs'
        cases g' with
        | nil =>
          exfalso; apply hsw
          exact (startsWith_iff _ _).mpr ⟨r', by simpa using hs'⟩
        | cons a g'' =>
          simp only [List.cons_append, List.cons.injEq] at hs'
          have := hmin g'' r' hs'.2
          simp only [List.length_cons]; omega
    · intro h g r hs
      simp only [findSub.go] at h
      split at h
      · cases h
      · rename_i hsw
        cases g with
        | nil => exact hsw ((startsWith_iff _ _).mpr ⟨r, by simpa using hs⟩)
        | cons a g' =>
          simp only [List.cons_append, List.cons.injEq] at hs
          exact ih.2 h g' r hs.2

/-- `afterFirst part s`: what is left after the leftmost occurrence of `part` -/
theorem afterFirst_some {part s r : Str} (h : afterFirst part s = some r) :
    ∃ g, s = g ++ part ++ r ∧ ∀ g' r', s = g' ++ part ++ r' → g.length ≤ g'.length := by
  unfold afterFirst at h
  split at h
  · cases h
  · rename_i i hi
    cases h
    obtain ⟨g, r0, hs, hj, hmin⟩ := (findSub_go_spec part s 0).1 i hi
    refine ⟨g, ?_, hmin⟩
    have : i = g.length := by omega
    subst this
    rw [hs]
    simp [List.drop_append, List.append_assoc]

theorem afterFirst_none {part s : Str} (h : afterFirst part s = none) : ∀ g r, s ≠ g ++ part ++ r := by
  unfold afterFirst at h
  split at h
  · rename_i hi; exact (findSub_go_spec part s 0).2 hi
  · cases h

/-- the declarative meaning of the parts after the first one -/
def RestSpec (anchored : Bool) : List Str → Str → Prop
  | [], t => anchored = false ∨ t = []
  | q :: qs, t => ∃ g r, t = g ++ q ++ r ∧ RestSpec anchored qs r

/-- the declarative meaning of a whole pattern -/
def GlobSpec (anchored : Bool) : List Str → Str → Prop
  | [], s => anchored = false ∨ s = []
  | p :: ps, s => ∃ t, s = p ++ t ∧ RestSpec anchored ps t

/-- a gap can absorb extra text in front -/
theorem RestSpec.prepend {anchored : Bool} : ∀ {qs : List Str} {t : Str} (x : Str), qs ≠ [] →
    RestSpec anchored qs t → RestSpec anchored qs (x ++ t)
  | q :: qs, t, x, _, ⟨g, r, ht, hr⟩ => ⟨x ++ g, r, by simp [ht, List.append_assoc], hr⟩

theorem two_splits {a b c d : Str} (h : a ++ b = c ++ d) (hl : a.length ≤ c.length) :
    ∃ x, c = a ++ x ∧ b = x ++ d := by
  induction a generalizing c with
  | nil => exact ⟨c, by simp, by simpa using h⟩
  | cons y a ih =>
    cases c with
    | nil => simp at hl
    | cons z c =>
      simp only [List.cons_append, List.cons.injEq] at h
      obtain ⟨x, h1, h2⟩ := ih h.2 (by simpa using hl)
      exact ⟨x, by simp [h.1, h1], h2⟩

theorem restMatch_iff (anchored : Bool) : ∀ (qs : List Str) (t : Str),
    restMatch anchored qs t = true ↔ RestSpec anchored qs t
  | [], t => by
    simp only [restMatch, RestSpec, Bool.or_eq_true, Bool.not_eq_eq_eq_not, Bool.not_true, List.isEmpty_iff]
  | [q], t => by
    simp only [restMatch, RestSpec]
    cases anchored with
    | true =>
      simp only [if_true, Bool.and_eq_true, decide_eq_true_eq, beq_iff_eq, Bool.true_eq_false, false_or]
      constructor
      · rintro ⟨hl, hd⟩
        refine ⟨t.take (t.length - q.length), [], ?_, rfl⟩
        rw [List.append_nil]
        conv => lhs; rw [← List.take_append_drop (t.length - q.length) t]
        rw [hd]
      · rintro ⟨g, r, ht, rfl⟩
        subst ht
        simp
    | false =>
      simp only [Bool.false_eq_true, if_false, true_or]
      constructor
      · intro h
        cases ha : afterFirst q t with
        | none => simp [ha] at h
        | some r =>
          obtain ⟨g, hs, _⟩ := afterFirst_some ha
          exact ⟨g, r, hs, trivial⟩
      · rintro ⟨g, r, ht, _⟩
        cases ha : afterFirst q t with
        | none => exact absurd ht (afterFirst_none ha g r)
        | some r => rfl
  | q :: q' :: qs, t => by
    simp only [restMatch, RestSpec]
    constructor
    · intro h
      cases ha : afterFirst q t with
      | none => simp [ha] at h
      | some r =>
        simp only [ha] at h
        obtain ⟨g, hs, _⟩ := afterFirst_some ha
        exact ⟨g, r, hs, (restMatch_iff anchored (q' :: qs) r).mp h⟩
    · rintro ⟨g, r, ht, hr⟩
      cases ha : afterFirst q t with
      | none => exact absurd ht (afterFirst_none ha g r)
      | some r0 =>
        simp only
        obtain ⟨g0, hs0, hmin⟩ := afterFirst_some ha
        have hle := hmin g r ht
        -- the leftmost occurrence leaves at least as much: r0 = x ++ r
        have heq : g0 ++ (q ++ r0) = g ++ (q ++ r) := by
          rw [← List.append_assoc, ← List.append_assoc, ← hs0, ← ht]
        obtain ⟨x, hg, hx⟩ := two_splits heq hle
        -- q ++ r0 = x ++ q ++ r; the leftmost q sits at the front of the left side
        have : ∃ y, r0 = y ++ r := by
          have h1 : q ++ r0 = x ++ (q ++ r) := hx
          have hlen : q.length ≤ (x ++ q).length := by simp
          have h2 : q ++ r0 = (x ++ q) ++ r := by rw [h1, List.append_assoc]
          obtain ⟨y, _, hy⟩ := two_splits h2 hlen
          exact ⟨y, hy⟩
        obtain ⟨y, hy⟩ := this
        rw [hy]
        exact (restMatch_iff anchored (q' :: qs) (y ++ r)).mpr (RestSpec.prepend y (by simp) hr)

/-- **the wildcard matcher is exactly the GYM2008 meaning of the pattern** -/
theorem globMatch_iff (anchored : Bool) (parts : List Str) (s : Str) :
    globMatch anchored parts s = true ↔ GlobSpec anchored parts s := by
  cases parts with
  | nil => simp [globMatch, GlobSpec]
  | cons p ps =>
    simp only [globMatch, GlobSpec]
    by_cases hsw : startsWith s p = true
    · obtain ⟨t, ht⟩ := (startsWith_iff s p).mp hsw
      simp only [hsw, if_true]
      have hdrop : s.drop p.length = t := by rw [ht]; simp
      cases ps with
      | nil =>
        simp only [RestSpec, Bool.or_eq_true, Bool.not_eq_eq_eq_not, Bool.not_true, beq_iff_eq]
        constructor
        · intro h
          refine ⟨t, ht, ?_⟩
          rcases h with h | h
          · exact Or.inl h
          · right
            have : (p ++ t).length = p.length := by rw [← ht]; exact h
            simp at this; exact this
        · rintro ⟨t', ht', h⟩
          have : t' = t := List.append_cancel_left (ht'.symm.trans ht)
          subst this
          rcases h with h | h
          · exact Or.inl h
          · right; rw [ht, h]; simp
      | cons q qs =>
        simp only [hdrop, restMatch_iff]
        constructor
        · intro h; exact ⟨t, ht, h⟩
        · rintro ⟨t', ht', h⟩
          have : t' = t := List.append_cancel_left (ht'.symm.trans ht)
          subst this; exact h
    · have hf : startsWith s p = false := by simpa using hsw
      simp only [hf, Bool.false_eq_true, if_false, false_iff]
      rintro ⟨t, ht, _⟩
      exact hsw ((startsWith_iff s p).mpr ⟨t, ht⟩)

end Wpull.Robots
