/-
Helper lemmas for C05 / C07 over `Wpull.Warc`: the end of the HTTP header block, field map get/set,
lengths and digests, decimal and UTF-8 facts, and a strict reader of one WARC record (a specification,
not a mirror of wpull code) with its round-trip lemma.  No property statements here.
-/
import Wpull.Warc
namespace Wpull.Warc
open Wpull

/-- a line as `readline` returns it: LF-terminated, no other LF -/
def IsLine (l : Bytes) : Prop := ∃ c, l = c ++ [10] ∧ 10 ∉ c

def IsBlank (l : Bytes) : Prop := l = [10] ∨ l = [13, 10]

theorem scanOpt_content (c rest : Bytes) (h : 10 ∉ c) (hne : c ≠ []) (h13 : c ≠ [13]) (start : Bool) :
    scanOpt start (c ++ 10 :: rest) = (scanOpt true rest).map (· + (c.length + 1)) := by
  induction c generalizing start with
  | nil => exact absurd rfl hne
  | cons a t ih =>
    have ha : a ≠ 10 := by intro e; apply h; simp [e]
    have ht : 10 ∉ t := by intro e; apply h; simp [e]
    cases t with
    | nil =>
      have ha13 : a ≠ 13 := by intro e; apply h13; simp [e]
      simp [scanOpt, ha, ha13]
      cases scanOpt true rest <;> simp <;> omega
    | cons b t' =>
      have hb : b ≠ 10 := by intro e; apply ht; simp [e]
      have step : scanOpt start (a :: (b :: t' ++ 10 :: rest)) = (scanOpt false (b :: t' ++ 10 :: rest)).map (· + 1) := by
        simp [scanOpt, ha, hb]
      simp only [List.cons_append] at *
      rw [step]
      by_cases hb13 : b :: t' = [13]
      · cases hb13
        simp [scanOpt]
        cases scanOpt true rest <;> simp <;> omega
      · rw [ih ht (by simp) hb13]
        cases scanOpt true rest <;> simp <;> omega
end Wpull.Warc
namespace Wpull.Warc
open Wpull

/-- A header block as `Stream.read_response` accepts it: at least one non-blank
line, every line LF-terminated without inner LF, closed by an empty line. -/
structure WireHeader (hdr : Bytes) : Prop where
  ex : ∃ (lines : List Bytes) (blank : Bytes), hdr = lines.flatten ++ blank ∧ lines ≠ [] ∧
    (∀ l ∈ lines, IsLine l ∧ ¬ IsBlank l) ∧ IsBlank blank

theorem scanOpt_line (l rest : Bytes) (hl : IsLine l) (hb : ¬ IsBlank l) (start : Bool) :
    scanOpt start (l ++ rest) = (scanOpt true rest).map (· + l.length) := by
  obtain ⟨c, rfl, hc⟩ := hl
  have hne : c ≠ [] := by intro e; apply hb; left; simp [e]
  have h13 : c ≠ [13] := by intro e; apply hb; right; simp [e]
  have := scanOpt_content c rest hc hne h13 start
  simpa using this

theorem scanOpt_blank (b rest : Bytes) (hb : IsBlank b) : scanOpt true (b ++ rest) = some b.length := by
  rcases hb with rfl | rfl <;> simp [scanOpt]

theorem scanOpt_lines (lines : List Bytes) (blank rest : Bytes)
    (hl : ∀ l ∈ lines, IsLine l ∧ ¬ IsBlank l) (hb : IsBlank blank) (start : Bool) (hs : start = true ∨ lines ≠ []) :
    scanOpt start (lines.flatten ++ blank ++ rest) = some (lines.flatten ++ blank).length := by
  induction lines generalizing start with
  | nil =>
    rcases hs with rfl | h
    · simpa using scanOpt_blank blank rest hb
    · exact absurd rfl h
  | cons l t ih =>
    have h1 := hl l (by simp)
    simp only [List.flatten_cons, List.append_assoc]
    rw [scanOpt_line l _ h1.1 h1.2 start]
    have := ih (fun x hx => hl x (by simp [hx])) true (Or.inl rfl)
    simp only [List.append_assoc] at this
    rw [this]
    simp; omega

theorem payloadOffset_wire (hdr body : Bytes) (h : WireHeader hdr) : payloadOffset (hdr ++ body) = hdr.length := by
  obtain ⟨lines, blank, rfl, _, hl, hb⟩ := h.ex
  unfold payloadOffset
  rw [scanOpt_lines lines blank body hl hb true (Or.inl rfl)]
  simp

theorem httpHeaderBytes_wire (hdr body : Bytes) (h : WireHeader hdr) : httpHeaderBytes (hdr ++ body) = some hdr := by
  have hp := payloadOffset_wire hdr body h
  obtain ⟨lines, blank, rfl, hne, hl, hb⟩ := h.ex
  have h2 : scanOpt false (lines.flatten ++ blank) = some (lines.flatten ++ blank).length := by
    have := scanOpt_lines lines blank [] hl hb false (Or.inr hne)
    simpa using this
  unfold httpHeaderBytes reHeaderEnd
  rw [hp, List.take_left]
  simp only [h2, Option.map_some, List.take_length]
end Wpull.Warc
namespace Wpull.Warc
open Wpull

/-! ### NVMap get / set -/

theorem get_setItem_same (m : NVMap) (k v : Str) : (m.setItem k v).get? k = some v := by
  induction m with
  | nil => simp [NVMap.setItem, NVMap.get?]
  | cons p t ih =>
    obtain ⟨k', vs⟩ := p
    unfold NVMap.setItem
    split
    · rename_i h; simp [NVMap.get?, h]
    · rename_i h; simp [NVMap.get?, h, ih]

theorem get_setItem_other (m : NVMap) (k k' v : Str) (h : k' ≠ k) : (m.setItem k v).get? k' = m.get? k' := by
  induction m with
  | nil => simp [NVMap.setItem, NVMap.get?, Ne.symm h]
  | cons p t ih =>
    obtain ⟨k0, vs⟩ := p
    unfold NVMap.setItem
    split
    · rename_i h0; subst h0; simp [NVMap.get?, Ne.symm h]
    · rename_i h0
      by_cases h1 : k0 = k'
      · simp [NVMap.get?, h1]
      · simp [NVMap.get?, h1, ih]

theorem Record.get_set_same (r : Record) (k v : Str) : (r.set k v).get? k = some v := by
  simp [Record.set, Record.get?, get_setItem_same]

theorem Record.get_set_other (r : Record) (k k' v : Str)
    (h : normalizeName nameOverrides k' ≠ normalizeName nameOverrides k) : (r.set k v).get? k' = r.get? k' := by
  simp [Record.set, Record.get?, get_setItem_other _ _ _ _ h]

@[simp] theorem Record.set_block (r : Record) (k v : Str) : (r.set k v).block = r.block := rfl
@[simp] theorem Record.set_idx (r : Record) (k v : Str) : (r.set k v).idx = r.idx := rfl

/-! ### lengths and digests -/

theorem setLenChk_block (d : Bool) (H : Bytes → Str) (r : Record) (off : Option Nat) :
    (setLenChk d H r off).block = r.block := by
  unfold setLenChk computeChecksum setContentLength
  cases d <;> cases off <;> simp

theorem setLenChk_length (d : Bool) (H : Bytes → Str) (r : Record) (off : Option Nat) :
    (setLenChk d H r off).get? kLen = some (decimal r.block.length) := by
  unfold setLenChk computeChecksum setContentLength
  cases d <;> cases off <;> simp [Record.get_set_same]

theorem computeChecksum_block_digest (H : Bytes → Str) (r : Record) (off : Option Nat) :
    (computeChecksum H r off).get? kBlockDigest = some (sha1Prefix ++ H r.block) := by
  unfold computeChecksum
  cases off with
  | none =>
    simp only
    rw [Record.get_set_other _ _ _ _ (by decide), Record.get_set_same]
  | some o =>
    simp only
    rw [Record.get_set_other _ _ _ _ (by decide), Record.get_set_other _ _ _ _ (by decide), Record.get_set_same]

theorem computeChecksum_payload_digest (H : Bytes → Str) (r : Record) (o : Nat) :
    (computeChecksum H r (some o)).get? kPayloadDigest = some (sha1Prefix ++ H (r.block.drop o)) := by
  unfold computeChecksum
  simp only
  rw [Record.get_set_other _ _ _ _ (by decide), Record.set_block, Record.get_set_same]

end Wpull.Warc
namespace Wpull.Warc
open Wpull

theorem finishResponse_spec (c : Cfg) (e : Env) (r : Record) (hdr body : Bytes) (rev : Option Str)
    (hw : WireHeader hdr) (hd : c.digests = true) :
    let out := finishResponse c e r (hdr ++ body) rev
    out.get? kPayloadDigest = some (sha1Prefix ++ e.H body) ∧
    out.get? kBlockDigest = some (sha1Prefix ++ e.H out.block) ∧
    out.get? kLen = some (decimal out.block.length) ∧
    (out.block = hdr ++ body ∨ (out.block = hdr ∧ out.get? kType = some (lit "revisit"))) := by
  have hp := payloadOffset_wire hdr body hw
  simp only [finishResponse, hp, hd, setLenChk, if_true]
  have hdrop : (hdr ++ body).drop hdr.length = body := by simp
  have htake : (hdr ++ body).take hdr.length = hdr := by simp
  split
  · rename_i ref href
    split
    · -- empty id: not a revisit
      refine ⟨?_, ?_, ?_, Or.inl ?_⟩
      · rw [computeChecksum_payload_digest]; simp [hdrop]
      · rw [computeChecksum_block_digest]; simp [computeChecksum]
      · simp [computeChecksum, Record.get_set_same]
      · simp [computeChecksum]
    · refine ⟨?_, ?_, ?_, Or.inr ⟨?_, ?_⟩⟩
      · rw [Record.get_set_other _ _ _ _ (by decide), Record.get_set_other _ _ _ _ (by decide),
          Record.get_set_other _ _ _ _ (by decide), Record.get_set_other _ _ _ _ (by decide)]
        simp only [computeChecksum]
        rw [Record.get_set_other _ _ _ _ (by decide), Record.get_set_other _ _ _ _ (by decide)]
        show Record.get? (computeChecksum e.H { idx := r.idx, fields := r.fields, block := hdr ++ body } (some hdr.length)) kPayloadDigest = _
        rw [computeChecksum_payload_digest]; simp [hdrop]
      · rw [Record.get_set_other _ _ _ _ (by decide), Record.get_set_other _ _ _ _ (by decide),
          Record.get_set_other _ _ _ _ (by decide), Record.get_set_other _ _ _ _ (by decide)]
        rw [computeChecksum_block_digest]; simp [computeChecksum, htake]
      · rw [Record.get_set_other _ _ _ _ (by decide), Record.get_set_other _ _ _ _ (by decide),
          Record.get_set_other _ _ _ _ (by decide), Record.get_set_other _ _ _ _ (by decide)]
        simp [computeChecksum, Record.get_set_same, htake]
      · simp [computeChecksum, htake]
      · rw [Record.get_set_other _ _ _ _ (by decide), Record.get_set_other _ _ _ _ (by decide),
          Record.get_set_other _ _ _ _ (by decide), Record.get_set_same]
  · refine ⟨?_, ?_, ?_, Or.inl ?_⟩
    · rw [computeChecksum_payload_digest]; simp [hdrop]
    · rw [computeChecksum_block_digest]; simp [computeChecksum]
    · simp [computeChecksum, Record.get_set_same]
    · simp [computeChecksum]

end Wpull.Warc

namespace Wpull.Warc
open Wpull

/-! ### decimal -/

theorem decAux_digits (f n : Nat) (acc : List Nat) (h : ∀ d ∈ acc, isAsciiDigit d = true) :
    ∀ d ∈ decAux f n acc, isAsciiDigit d = true := by
  induction f generalizing n acc with
  | zero => simpa [decAux] using h
  | succ f ih =>
    unfold decAux
    split
    · intro d hd
      rcases List.mem_cons.mp hd with rfl | hd
      · simp [isAsciiDigit]; omega
      · exact h d hd
    · apply ih
      intro d hd
      rcases List.mem_cons.mp hd with rfl | hd
      · simp [isAsciiDigit]; omega
      · exact h d hd

theorem decAux_ne_nil (f n : Nat) (acc : List Nat) : decAux (f + 1) n acc ≠ [] := by
  induction f generalizing n acc with
  | zero => unfold decAux; split <;> simp [decAux]
  | succ f ih =>
    unfold decAux
    split
    · simp
    · exact ih _ _

def decStep (v d : Nat) : Nat := v * 10 + (d - 48)

theorem decAux_value (f n : Nat) (acc : List Nat) (hf : n < f) :
    (decAux f n acc).foldl decStep 0 = acc.foldl decStep n := by
  induction f generalizing n acc with
  | zero => omega
  | succ f ih =>
    unfold decAux
    split
    · simp [decStep]
    · rename_i h10
      rw [ih (n / 10) _ (by omega)]
      simp only [List.foldl_cons, decStep]
      congr 1
      omega

theorem decimal_digits (n : Nat) : ∀ d ∈ decimal n, isAsciiDigit d = true :=
  decAux_digits _ _ _ (by simp)

theorem decimal_ne_nil (n : Nat) : decimal n ≠ [] := decAux_ne_nil _ _ _

theorem parseDec_decimal (n : Nat) : parseDec? (decimal n) = some n := by
  unfold parseDec?
  have h1 := decimal_ne_nil n
  have h2 : (decimal n).all isAsciiDigit = true := by
    rw [List.all_eq_true]; exact decimal_digits n
  simp only [h1, h2, ne_eq, not_false_eq_true, and_self, if_true]
  have := decAux_value (n + 1) n [] (by omega)
  simp only [List.foldl_nil] at this
  exact congrArg some this

theorem decimal_no_crlf (n : Nat) : 13 ∉ decimal n ∧ 10 ∉ decimal n := by
  constructor <;> intro h <;> have := decimal_digits n _ h <;> simp [isAsciiDigit] at this

/-! ### utf8 -/

theorem utf8_append (a b : Str) : utf8 (a ++ b) = utf8 a ++ utf8 b := by simp [utf8]

theorem utf8c_ne_nil (c : Nat) : utf8c c ≠ [] := by
  unfold utf8c; repeat' split
  all_goals simp

theorem utf8_eq_nil (s : Str) : utf8 s = [] ↔ s = [] := by
  cases s with
  | nil => simp [utf8]
  | cons c t => simp [utf8, utf8c_ne_nil]

theorem utf8c_mem_lt (c x : Nat) (hx : x < 128) : x ∈ utf8c c ↔ c = x := by
  unfold utf8c
  split
  · simp; omega
  split
  · simp; omega
  split
  · simp; omega
  · simp; omega

theorem utf8_mem_lt (s : Str) (x : Nat) (hx : x < 128) : x ∈ utf8 s ↔ x ∈ s := by
  induction s with
  | nil => simp [utf8]
  | cons c t ih =>
    have : utf8 (c :: t) = utf8c c ++ utf8 t := by simp [utf8]
    rw [this, List.mem_append, ih, utf8c_mem_lt c x hx]
    simp [eq_comm]

end Wpull.Warc
namespace Wpull.Warc
open Wpull

/-! ### an independent strict reader of one WARC/1.0 record (specification) -/

/-- one CRLF-terminated line without CR or LF inside, and the rest -/
def takeLine : Bytes → Option (Bytes × Bytes)
  | [] => none
  | c :: t =>
    if c = 13 then (match t with
      | 10 :: r => some ([], r)
      | _ => none)
    else if c = 10 then none
    else (takeLine t).map (fun p => (c :: p.1, p.2))

/-- split at the first colon -/
def splitName : Bytes → Option (Bytes × Bytes)
  | [] => none
  | c :: t => if c = 58 then some ([], t) else (splitName t).map (fun p => (c :: p.1, p.2))

/-- `name: value` / `name:`; a line starting with white space (folding) is refused -/
def parseField (l : Bytes) : Option (Bytes × Bytes) :=
  match splitName l with
  | none => none
  | some (n, v) =>
    if n = [] ∨ n.head? = some 32 ∨ n.head? = some 9 then none
    else match v with
      | [] => some (n, [])
      | 32 :: v' => some (n, v')
      | _ => none

/-- named-field lines up to the empty line -/
def parseFieldsB : Nat → Bytes → Option (List (Bytes × Bytes) × Bytes)
  | 0, _ => none
  | fuel + 1, b =>
    match takeLine b with
    | none => none
    | some (l, rest) =>
      if l = [] then some ([], rest)
      else match parseField l, parseFieldsB fuel rest with
        | some p, some (ps, r) => some (p :: ps, r)
        | _, _ => none

def lenName : Bytes := utf8 kLen

/-- Strict reader: `WARC/1.0` CRLF, one line per named field, empty line, a block of
exactly Content-Length bytes (the field must occur exactly once), CRLF CRLF.
Returns the fields, the block and the bytes after the record. -/
def parseRecord (b : Bytes) : Option (List (Bytes × Bytes) × Bytes × Bytes) :=
  if b.take 10 ≠ versionLine ++ crlf then none else
  match parseFieldsB b.length (b.drop 10) with
  | none => none
  | some (ps, rest) =>
    match ps.filter (fun p => p.1 = lenName) with
    | [(_, v)] =>
      match parseDec? v with
      | none => none
      | some n =>
        if n ≤ rest.length ∧ (rest.drop n).take 4 = crlf ++ crlf then some (ps, rest.take n, rest.drop (n + 4))
        else none
    | _ => none

/-- the byte-level line of one field -/
def fieldLineB (p : Bytes × Bytes) : Bytes := if p.2 = [] then p.1 ++ [58] else p.1 ++ [58, 32] ++ p.2

theorem takeLine_line (l rest : Bytes) (h13 : 13 ∉ l) (h10 : 10 ∉ l) :
    takeLine (l ++ 13 :: 10 :: rest) = some (l, rest) := by
  induction l with
  | nil => simp [takeLine]
  | cons c t ih =>
    have hc13 : c ≠ 13 := by intro e; apply h13; simp [e]
    have hc10 : c ≠ 10 := by intro e; apply h10; simp [e]
    simp only [List.cons_append, takeLine, hc13, hc10, if_false]
    rw [ih (by intro e; apply h13; simp [e]) (by intro e; apply h10; simp [e])]
    simp

theorem splitName_name (n v : Bytes) (h : 58 ∉ n) : splitName (n ++ 58 :: v) = some (n, v) := by
  induction n with
  | nil => simp [splitName]
  | cons c t ih =>
    have hc : c ≠ 58 := by intro e; apply h; simp [e]
    simp only [List.cons_append, splitName, hc, if_false]
    rw [ih (by intro e; apply h; simp [e])]
    simp

structure NameOk (n : Bytes) : Prop where
  ne : n ≠ []
  colon : 58 ∉ n
  cr : 13 ∉ n
  lf : 10 ∉ n
  sp : n.head? ≠ some 32
  tab : n.head? ≠ some 9

theorem parseField_line (p : Bytes × Bytes) (hn : NameOk p.1) : parseField (fieldLineB p) = some p := by
  obtain ⟨n, v⟩ := p
  simp only at hn
  by_cases hv : v = []
  · subst hv
    have e : fieldLineB (n, []) = n ++ 58 :: [] := by simp [fieldLineB]
    rw [e]; unfold parseField
    rw [splitName_name n [] hn.colon]
    simp [hn.ne, hn.sp, hn.tab]
  · have e : fieldLineB (n, v) = n ++ 58 :: (32 :: v) := by simp [fieldLineB, hv]
    rw [e]; unfold parseField
    rw [splitName_name n _ hn.colon]
    simp [hn.ne, hn.sp, hn.tab]

theorem fieldLineB_no_crlf (p : Bytes × Bytes) (hn : NameOk p.1) (h13 : 13 ∉ p.2) (h10 : 10 ∉ p.2) :
    13 ∉ fieldLineB p ∧ 10 ∉ fieldLineB p ∧ fieldLineB p ≠ [] := by
  unfold fieldLineB
  split <;> simp [hn.cr, hn.lf, h13, h10, hn.ne]

theorem parseFieldsB_lines (ps : List (Bytes × Bytes)) (rest : Bytes) (fuel : Nat) (hf : ps.length < fuel)
    (hn : ∀ p ∈ ps, NameOk p.1 ∧ 13 ∉ p.2 ∧ 10 ∉ p.2) :
    parseFieldsB fuel (ps.flatMap (fun p => fieldLineB p ++ crlf) ++ crlf ++ rest) = some (ps, rest) := by
  induction ps generalizing fuel with
  | nil =>
    cases fuel with
    | zero => simp at hf
    | succ f => simp [parseFieldsB, crlf, takeLine]
  | cons p t ih =>
    cases fuel with
    | zero => simp at hf
    | succ f =>
      obtain ⟨h1, h2, h3⟩ := hn p (by simp)
      obtain ⟨a, b, c⟩ := fieldLineB_no_crlf p h1 h2 h3
      have e : (p :: t).flatMap (fun p => fieldLineB p ++ crlf) ++ crlf ++ rest =
          fieldLineB p ++ 13 :: 10 :: (t.flatMap (fun p => fieldLineB p ++ crlf) ++ crlf ++ rest) := by
        simp [crlf]
      rw [e]
      unfold parseFieldsB
      rw [takeLine_line _ _ a b]
      simp only [c, if_false]
      rw [parseField_line p h1, ih f (by simp at hf; omega) (fun q hq => hn q (by simp [hq]))]

end Wpull.Warc
namespace Wpull.Warc
open Wpull

def encPair (p : Str × Str) : Bytes × Bytes := (utf8 p.1, utf8 p.2)

theorem utf8_fieldLine (p : Str × Str) : utf8 (fieldLine p ++ crlf) = fieldLineB (encPair p) ++ crlf := by
  have h58 : utf8 [58] = [58] := by decide
  have h5832 : utf8 [58, 32] = [58, 32] := by decide
  have hcrlf : utf8 crlf = crlf := by decide
  unfold fieldLine fieldLineB encPair
  by_cases hv : p.2 = []
  · have : utf8 p.2 = [] := by rw [utf8_eq_nil]; exact hv
    rw [if_pos hv, if_pos this, utf8_append, utf8_append, h58, hcrlf]
  · have : utf8 p.2 ≠ [] := by rw [Ne, utf8_eq_nil]; exact hv
    rw [if_neg hv, if_neg this, utf8_append, utf8_append, utf8_append, h5832, hcrlf]

theorem length_flatMap_ge (ps : List (Bytes × Bytes)) :
    ps.length ≤ (ps.flatMap (fun p => fieldLineB p ++ crlf)).length := by
  induction ps with
  | nil => simp
  | cons p t ih => simp [crlf] at *; omega

theorem utf8_pairsToStr (ps : List (Str × Str)) :
    utf8 (pairsToStr ps) = (ps.map encPair).flatMap (fun p => fieldLineB p ++ crlf) := by
  induction ps with
  | nil => simp [pairsToStr, utf8]
  | cons p t ih =>
    have : pairsToStr (p :: t) = (fieldLine p ++ crlf) ++ pairsToStr t := by simp [pairsToStr]
    rw [this, utf8_append, utf8_fieldLine, ih]
    simp

/-- a field name that can stand in a header line -/
structure StrNameOk (n : Str) : Prop where
  ne : n ≠ []
  colon : 58 ∉ n
  cr : 13 ∉ n
  lf : 10 ∉ n
  sp : n.head? ≠ some 32
  tab : n.head? ≠ some 9

theorem utf8_head_lt (n : Str) (x : Nat) (hx : x < 128) (h : (utf8 n).head? = some x) : n.head? = some x := by
  cases n with
  | nil => simp [utf8] at h
  | cons c t =>
    have e : utf8 (c :: t) = utf8c c ++ utf8 t := by simp [utf8]
    rw [e] at h
    have hne := utf8c_ne_nil c
    have hmem : x ∈ utf8c c := by
      cases hu : utf8c c with
      | nil => exact absurd hu hne
      | cons a r => rw [hu] at h; simp at h; simp [h]
    have := (utf8c_mem_lt c x hx).mp hmem
    simp [this]

theorem NameOk_of_str (n : Str) (h : StrNameOk n) : NameOk (utf8 n) :=
  ⟨by rw [Ne, utf8_eq_nil]; exact h.ne,
   by rw [utf8_mem_lt _ _ (by omega)]; exact h.colon,
   by rw [utf8_mem_lt _ _ (by omega)]; exact h.cr,
   by rw [utf8_mem_lt _ _ (by omega)]; exact h.lf,
   fun e => h.sp (utf8_head_lt n 32 (by omega) e),
   fun e => h.tab (utf8_head_lt n 9 (by omega) e)⟩

/-- field pairs that serialise to one line each -/
def FieldsOk (ps : List (Str × Str)) : Prop := ∀ p ∈ ps, StrNameOk p.1 ∧ 13 ∉ p.2 ∧ 10 ∉ p.2

theorem serializePairs_parse (ps : List (Str × Str)) (block rest : Bytes) (h : FieldsOk ps)
    (hlen : (ps.map encPair).filter (fun p => p.1 = lenName) = [(lenName, utf8 (decimal block.length))]) :
    parseRecord (serializePairs ps block ++ rest) = some (ps.map encPair, block, rest) := by
  have hv : versionLine ++ crlf = [87, 65, 82, 67, 47, 49, 46, 48, 13, 10] := by decide
  have e : serializePairs ps block ++ rest =
      (versionLine ++ crlf) ++ ((ps.map encPair).flatMap (fun p => fieldLineB p ++ crlf) ++ crlf ++ (block ++ crlf ++ crlf ++ rest)) := by
    simp [serializePairs, utf8_pairsToStr]
  rw [e, hv]
  unfold parseRecord
  simp only [List.cons_append, List.nil_append, List.take_succ_cons, List.take_zero, List.drop_succ_cons, List.drop_zero, hv,
    ne_eq, not_true_eq_false, if_false]
  rw [parseFieldsB_lines (ps.map encPair) _ _ (by
    have := length_flatMap_ge (ps.map encPair)
    simp only [List.length_cons, List.length_append, List.length_map] at *; omega)]
  · simp only [hlen]
    have hd : utf8 (decimal block.length) = decimal block.length := by
      have : ∀ s : Str, (∀ d ∈ s, isAsciiDigit d = true) → utf8 s = s := by
        intro s hs
        induction s with
        | nil => simp [utf8]
        | cons c t ih =>
          have hc := hs c (by simp)
          have : c < 128 := by simp [isAsciiDigit] at hc; omega
          have e2 : utf8 (c :: t) = utf8c c ++ utf8 t := by simp [utf8]
          rw [e2, ih (fun d hd => hs d (by simp [hd]))]
          simp [utf8c, this]
      exact this _ (decimal_digits _)
    rw [hd, parseDec_decimal]
    simp [crlf]
  · intro p hp
    obtain ⟨q, hq, rfl⟩ := List.mem_map.mp hp
    obtain ⟨h1, h2, h3⟩ := h q hq
    exact ⟨NameOk_of_str _ h1, by simp only [encPair]; rw [utf8_mem_lt _ _ (by omega)]; exact h2,
      by simp only [encPair]; rw [utf8_mem_lt _ _ (by omega)]; exact h3⟩

end Wpull.Warc

namespace Wpull.Warc
open Wpull

/-! ### `read_cdx`: strip and split -/

theorem dropWhile_append_all (p : Nat → Bool) (l1 l2 : List Nat) (h : ∀ c ∈ l1, p c = true) :
    (l1 ++ l2).dropWhile p = l2.dropWhile p := by
  induction l1 with
  | nil => rfl
  | cons a t ih =>
    have ha := h a (by simp)
    simp [ha, ih (fun c hc => h c (by simp [hc]))]

theorem lstrip_append (b t : Str) : lstrip (b ++ t) = if lstrip b = [] then lstrip t else lstrip b ++ t := by
  induction b with
  | nil => simp [lstrip]
  | cons a r ih =>
    unfold lstrip at *
    by_cases ha : isSpace a = true
    · simp [ha, ih]
    · simp [ha]

theorem mem_of_mem_lstrip (s : Str) (x : Nat) (h : x ∈ lstrip s) : x ∈ s :=
  (List.dropWhile_sublist _).subset h

/-- trailing white space (a line terminator) is gone after `strip`, nothing else is added -/
theorem mem_strip_append_ws (b t : Str) (x : Nat) (ht : ∀ c ∈ t, isSpace c = true) (h : x ∈ strip (b ++ t)) : x ∈ b := by
  unfold strip at h
  rw [List.mem_reverse] at h
  rw [lstrip_append] at h
  by_cases hb : lstrip b = []
  · rw [if_pos hb] at h
    have : lstrip t = [] := by
      have := dropWhile_append_all isSpace t [] ht
      simpa [lstrip] using this
    rw [this] at h
    simp [lstrip] at h
  · rw [if_neg hb, List.reverse_append] at h
    unfold lstrip at h
    rw [dropWhile_append_all _ _ _ (fun c hc => ht c (List.mem_reverse.mp hc))] at h
    have h2 := (List.dropWhile_sublist _).subset h
    rw [List.mem_reverse] at h2
    exact (List.dropWhile_sublist _).subset h2

theorem mem_splitOn1_go (s acc : List Nat) (sep : Nat) (col : List Nat) (x : Nat)
    (hc : col ∈ splitOn1.go sep s acc) (hx : x ∈ col) : x ∈ s ∨ x ∈ acc := by
  induction s generalizing acc with
  | nil =>
    simp [splitOn1.go] at hc; subst hc
    right; simpa using hx
  | cons c t ih =>
    unfold splitOn1.go at hc
    split at hc
    · rcases List.mem_cons.mp hc with rfl | h2
      · right; simpa using hx
      · rcases ih [] h2 with h3 | h3
        · left; simp [h3]
        · simp at h3
    · rcases ih (c :: acc) hc with h3 | h3
      · left; simp [h3]
      · rcases List.mem_cons.mp h3 with rfl | h4
        · left; simp
        · right; exact h4

theorem mem_splitOn1 (s : List Nat) (sep : Nat) (col : List Nat) (x : Nat) (hc : col ∈ splitOn1 s sep) (hx : x ∈ col) :
    x ∈ s := by
  rcases mem_splitOn1_go s [] sep col x hc hx with h | h
  · exact h
  · simp at h

end Wpull.Warc
