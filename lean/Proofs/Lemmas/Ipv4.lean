import Wpull.Url
namespace Wpull.Url
open Wpull

/-- per-octet facts, as one decidable Bool -/
def octOk (k : Nat) : Bool :=
  decide (parseIpv4Int (natDec k) = .ok (Int.ofNat k)) &&
  (natDec k).all (fun c => 48 ≤ c && c ≤ 57) &&
  decide (0 < (natDec k).length) && decide ((natDec k).length ≤ 3)

set_option maxRecDepth 100000 in
theorem octOk_all : ∀ k, k < 256 → octOk k = true := by decide

theorem oct_parse {k : Nat} (h : k < 256) : parseIpv4Int (natDec k) = .ok (Int.ofNat k) := by
  have := octOk_all k h
  simp [octOk] at this
  exact this.1.1.1

theorem oct_digits {k : Nat} (h : k < 256) : ∀ c ∈ natDec k, 48 ≤ c ∧ c ≤ 57 := by
  have := octOk_all k h
  simp [octOk] at this
  exact this.1.1.2

theorem oct_len {k : Nat} (h : k < 256) : 0 < (natDec k).length ∧ (natDec k).length ≤ 3 := by
  have := octOk_all k h
  simp [octOk] at this
  exact ⟨by have := this.1.2; omega, this.2⟩

theorem oct_nodot {k : Nat} (h : k < 256) : 46 ∉ natDec k := by
  intro hm
  have := oct_digits h 46 hm
  omega

theorem splitC_nomem {d : List Nat} (h : 46 ∉ d) : splitC 46 d = [d] := by
  induction d with
  | nil => rfl
  | cons x t ih =>
    have hx : x ≠ 46 := by intro e; apply h; simp [e]
    have ht : 46 ∉ t := by intro e; apply h; simp [e]
    simp [splitC, hx, ih ht]

theorem splitC_append_dot {a : List Nat} (rest : List Nat) (h : 46 ∉ a) :
    splitC 46 (a ++ 46 :: rest) = a :: splitC 46 rest := by
  induction a with
  | nil => simp [splitC]
  | cons x t ih =>
    have hx : x ≠ 46 := by intro e; apply h; simp [e]
    have ht : 46 ∉ t := by intro e; apply h; simp [e]
    simp [splitC, hx, ih ht]

theorem splitC_four {a b c d : List Nat} (ha : 46 ∉ a) (hb : 46 ∉ b) (hc : 46 ∉ c) (hd : 46 ∉ d) :
    splitC 46 (a ++ [46] ++ b ++ [46] ++ c ++ [46] ++ d) = [a, b, c, d] := by
  have e : a ++ [46] ++ b ++ [46] ++ c ++ [46] ++ d = a ++ 46 :: (b ++ 46 :: (c ++ 46 :: d)) := by
    simp
  rw [e, splitC_append_dot _ ha, splitC_append_dot _ hb, splitC_append_dot _ hc, splitC_nomem hd]

theorem count_four {a b c d : List Nat} (ha : 46 ∉ a) (hb : 46 ∉ b) (hc : 46 ∉ c) (hd : 46 ∉ d) :
    (a ++ [46] ++ b ++ [46] ++ c ++ [46] ++ d).count 46 = 3 := by
  simp [List.count_append, List.count_eq_zero_of_not_mem ha, List.count_eq_zero_of_not_mem hb,
    List.count_eq_zero_of_not_mem hc, List.count_eq_zero_of_not_mem hd]

theorem ipv4OfInt_nat {n : Nat} (h : n < 4294967296) :
    ipv4OfInt (Int.ofNat n) = .ok (ipv4Compressed n) := by
  unfold ipv4OfInt
  have h1 : ¬ ((Int.ofNat n) < 0) := by simp only [Int.ofNat_eq_natCast]; omega
  have h2 : ¬ ((Int.ofNat n) > 4294967295) := by
    simp only [Int.ofNat_eq_natCast]; omega
  have h3 : (Int.ofNat n).toNat = n := by simp
  simp only [h1, h2, h3, decide_false, Bool.or_self, Bool.false_eq_true, if_false]

theorem ipv4OfInt_ok {v : Int} {r : Str} (h : ipv4OfInt v = .ok r) :
    ∃ n, n < 4294967296 ∧ r = ipv4Compressed n := by
  unfold ipv4OfInt at h
  split at h
  · cases h
  · rename_i hc
    simp at hc
    refine ⟨v.toNat, by omega, ?_⟩
    cases h
    rfl

/-- the canonical dotted-decimal spelling re-normalises to itself -/
theorem ipv4_canonical_reparse (n : Nat) (h : n < 4294967296) :
    normalizeIpv4 (ipv4Compressed n) = .ok (ipv4Compressed n) := by
  have hA : n / 16777216 % 256 < 256 := Nat.mod_lt _ (by decide)
  have hB : n / 65536 % 256 < 256 := Nat.mod_lt _ (by decide)
  have hC : n / 256 % 256 < 256 := Nat.mod_lt _ (by decide)
  have hD : n % 256 < 256 := Nat.mod_lt _ (by decide)
  have hcnt := count_four (oct_nodot hA) (oct_nodot hB) (oct_nodot hC) (oct_nodot hD)
  have hspl := splitC_four (oct_nodot hA) (oct_nodot hB) (oct_nodot hC) (oct_nodot hD)
  have hsum : ipv4Sum [natDec (n / 16777216 % 256), natDec (n / 65536 % 256),
      natDec (n / 256 % 256), natDec (n % 256)] 0 = .ok (Int.ofNat n) := by
    simp only [ipv4Sum, oct_parse hA, oct_parse hB, oct_parse hC, oct_parse hD]
    congr 1
    simp only [Int.ofNat_eq_natCast]
    have p0 : (2 ^ (24 - 0 * 8) : Nat) = 16777216 := by decide
    have p1 : (2 ^ (24 - (0 + 1) * 8) : Nat) = 65536 := by decide
    have p2 : (2 ^ (24 - (0 + 1 + 1) * 8) : Nat) = 256 := by decide
    have p3 : (2 ^ (24 - (0 + 1 + 1 + 1) * 8) : Nat) = 1 := by decide
    rw [p0, p1, p2, p3]
    omega
  have e : normalizeIpv4 (ipv4Compressed n) = ipv4OfInt (Int.ofNat n) := by
    unfold normalizeIpv4
    unfold ipv4Compressed
    simp only [hcnt, hspl, hsum]
    rfl
  rw [e, ipv4OfInt_nat h]

/-- its characters are digits and dots -/
theorem ipv4Compressed_chars (n : Nat) : ∀ c ∈ ipv4Compressed n, c = 46 ∨ (48 ≤ c ∧ c ≤ 57) := by
  have hA : n / 16777216 % 256 < 256 := Nat.mod_lt _ (by decide)
  have hB : n / 65536 % 256 < 256 := Nat.mod_lt _ (by decide)
  have hC : n / 256 % 256 < 256 := Nat.mod_lt _ (by decide)
  have hD : n % 256 < 256 := Nat.mod_lt _ (by decide)
  intro c hc
  unfold ipv4Compressed at hc
  simp only [List.mem_append, List.mem_singleton] at hc
  rcases hc with (((((hc | hc) | hc) | hc) | hc) | hc) | hc
  · exact Or.inr (oct_digits hA c hc)
  · exact Or.inl hc
  · exact Or.inr (oct_digits hB c hc)
  · exact Or.inl hc
  · exact Or.inr (oct_digits hC c hc)
  · exact Or.inl hc
  · exact Or.inr (oct_digits hD c hc)

/-- every result of normalize_ipv4_address is a canonical spelling -/
theorem normalizeIpv4_ok {a r : Str} (h : normalizeIpv4 a = .ok r) :
    ∃ n, n < 4294967296 ∧ r = ipv4Compressed n := by
  unfold normalizeIpv4 at h
  simp only at h
  split at h
  · split at h
    · cases h
    · exact ipv4OfInt_ok h
  · split at h
    · split at h
      · cases h
      · exact ipv4OfInt_ok h
    · cases h

/-- the idna ASCII fast path accepts it (labels of 1..3 characters) -/
theorem ipv4Compressed_labels (n : Nat) : idnaLabelsOk (splitC 46 (ipv4Compressed n)) = true := by
  have hA : n / 16777216 % 256 < 256 := Nat.mod_lt _ (by decide)
  have hB : n / 65536 % 256 < 256 := Nat.mod_lt _ (by decide)
  have hC : n / 256 % 256 < 256 := Nat.mod_lt _ (by decide)
  have hD : n % 256 < 256 := Nat.mod_lt _ (by decide)
  have hspl := splitC_four (oct_nodot hA) (oct_nodot hB) (oct_nodot hC) (oct_nodot hD)
  unfold ipv4Compressed
  rw [hspl]
  have lA := oct_len hA
  have lB := oct_len hB
  have lC := oct_len hC
  have lD := oct_len hD
  simp only [idnaLabelsOk, Bool.and_eq_true, decide_eq_true_eq]
  omega

end Wpull.Url
