/-
Inversion lemmas for `Wpull.Crawl.step` and list helpers for the in-flight items.
Helper file: no property statements here.
-/
import Proofs.Lemmas.CrawlTable
namespace Wpull.Crawl

def pend : Item → List Url
  | ⟨_, .running p⟩ => p
  | ⟨_, .flushed⟩ => []

theorem pend_running (r : Row) (p : List Url) : pend ⟨r, .running p⟩ = p := rfl
theorem pend_flushed (r : Row) : pend ⟨r, .flushed⟩ = [] := rfl

def iurls (l : List Item) : List Url := l.map (·.row.url)

theorem findItem_some {l : List Item} {u : Url} {it : Item} (h : findItem l u = some it) :
    it ∈ l ∧ it.row.url = u := by
  unfold findItem at h
  exact ⟨List.mem_of_find?_eq_some h, by simpa using List.find?_some h⟩

theorem mem_putItem {l : List Item} {it x : Item} (h : x ∈ putItem l it) :
    x = it ∨ (x ∈ l ∧ x.row.url ≠ it.row.url) := by
  simp only [putItem, List.mem_map] at h
  obtain ⟨y, hy, e⟩ := h
  by_cases hu : y.row.url = it.row.url
  · left; have : (y.row.url == it.row.url) = true := by simpa using hu
    simp [this] at e; exact e.symm
  · right; have : (y.row.url == it.row.url) = false := by simpa using hu
    simp [this] at e; subst e; exact ⟨hy, hu⟩

theorem putItem_mem_other {l : List Item} {it x : Item} (h : x ∈ l) (hu : x.row.url ≠ it.row.url) :
    x ∈ putItem l it := by
  simp only [putItem, List.mem_map]
  refine ⟨x, h, ?_⟩
  have : (x.row.url == it.row.url) = false := by simpa using hu
  simp [this]

theorem putItem_mem_self {l : List Item} {it x : Item} (h : x ∈ l) (hu : x.row.url = it.row.url) :
    it ∈ putItem l it := by
  simp only [putItem, List.mem_map]
  exact ⟨x, h, by simp [hu]⟩

@[simp] theorem iurls_putItem (l : List Item) (it : Item) : iurls (putItem l it) = iurls l := by
  simp only [iurls, putItem, List.map_map]
  apply List.map_congr_left
  intro x _
  simp only [Function.comp]
  split
  · rename_i h; simp at h; exact h.symm
  · rfl

theorem mem_dropItem {l : List Item} {u : Url} {x : Item} : x ∈ dropItem l u ↔ x ∈ l ∧ x.row.url ≠ u := by
  simp [dropItem]

theorem iurls_dropItem_sublist (l : List Item) (u : Url) : (iurls (dropItem l u)).Sublist (iurls l) := by
  simp only [iurls, dropItem]
  exact List.Sublist.map _ List.filter_sublist

theorem mem_iurls {l : List Item} {u : Url} : u ∈ iurls l ↔ ∃ it ∈ l, it.row.url = u := by
  simp [iurls]

variable {c : Cfg} {conc : Nat} {starts : List Url} {s s' : St}

theorem step_checkOut (h : step c conc starts s .checkOut = some s') :
    ∃ r, s.down = false ∧ s.inflight.length < conc ∧ nextRow s.table = some r ∧
      s' = { s with table := setStatus s.table r.url .inProgress false,
                    inflight := s.inflight ++ [⟨{ r with status := .inProgress },
                                 .running (c.visit { r with status := .inProgress }).requests⟩],
                    outs := s.outs ++ [{ r with status := .inProgress }] } := by
  simp only [step] at h
  split at h
  · rename_i hc
    split at h
    · cases h
    · rename_i r hr
      cases h
      simp only [Bool.and_eq_true, Bool.not_eq_eq_eq_not, Bool.not_true, decide_eq_true_eq] at hc
      exact ⟨r, hc.1, hc.2, hr, rfl⟩
  · cases h

theorem step_request {u : Url} (h : step c conc starts s (.request u) = some s') :
    ∃ r v rest, s.down = false ∧ findItem s.inflight u = some ⟨r, .running (v :: rest)⟩ ∧
      s' = { s with inflight := putItem s.inflight ⟨r, .running rest⟩, log := s.log ++ [v] } := by
  simp only [step] at h
  split at h
  · cases h
  · rename_i hd
    split at h
    · rename_i r v rest hf
      cases h
      exact ⟨r, v, rest, by simpa using hd, hf, rfl⟩
    · cases h

theorem step_flush {u : Url} (h : step c conc starts s (.flush u) = some s') :
    ∃ r, s.down = false ∧ findItem s.inflight u = some ⟨r, .running []⟩ ∧
      s' = { s with table := (addMany s.table ((c.visit r).children.map (childRow r))).1,
                    inflight := putItem s.inflight ⟨r, .flushed⟩ } := by
  simp only [step] at h
  split at h
  · cases h
  · rename_i hd
    split at h
    · rename_i r hf
      cases h
      exact ⟨r, by simpa using hd, hf, rfl⟩
    · cases h

theorem step_checkIn {u : Url} (h : step c conc starts s (.checkIn u) = some s') :
    ∃ r, s.down = false ∧ findItem s.inflight u = some ⟨r, .flushed⟩ ∧
      s' = { s with table := setStatus s.table u (c.visit r).status true,
                    inflight := dropItem s.inflight u } := by
  simp only [step] at h
  split at h
  · cases h
  · rename_i hd
    split at h
    · rename_i r hf
      cases h
      exact ⟨r, by simpa using hd, hf, rfl⟩
    · cases h

theorem step_crash (h : step c conc starts s .crash = some s') :
    s.down = false ∧ s' = { s with inflight := [], down := true } := by
  simp only [step] at h
  split at h
  · cases h
  · rename_i hd; cases h; exact ⟨by simpa using hd, rfl⟩

theorem step_restart (h : step c conc starts s .restart = some s') :
    s.down = true ∧ s' = { s with table := (addMany (release s.table) (starts.map startRow)).1, down := false } := by
  simp only [step] at h
  split at h
  · rename_i hd; cases h; exact ⟨hd, rfl⟩
  · cases h

end Wpull.Crawl
