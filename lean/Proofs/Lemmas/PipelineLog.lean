/- C13 helper lemmas: the (task, item, start/end) log against the phase of every item. -/
import Proofs.Lemmas.PipelineInvA
namespace Wpull.Pipeline

/-- the events of item `i`, in log order, as (task, end?) pairs -/
def proj (i : Nat) (log : List Ev) : List (Nat × Bool) :=
  (log.filter (fun e => e.item == i)).map (fun e => (e.task, e.fin))

/-- start and end of tasks `0 … k-1`, in order, once each -/
def pre : Nat → List (Nat × Bool)
  | 0 => []
  | k + 1 => pre k ++ [(k, false), (k, true)]

/-- what the log must hold for an item in phase `p` (pipeline with tasks `0..K`) -/
def expected (K : Nat) : Ph → List (Nat × Bool)
  | .held => []
  | .queued => []
  | .run k => pre k ++ [(k, false)]
  | .done => pre (K + 1)
  | .failed k => pre k ++ [(k, false)]

def phaseOk (K : Nat) : Ph → Prop
  | .run k => k ≤ K
  | .failed k => k ≤ K
  | _ => True

structure InvL (n K : Nat) (items : List Ph) (log : List Ev) : Prop where
  hin : ∀ i p, items[i]? = some p → proj i log = expected K p ∧ phaseOk K p
  hout : ∀ i, items.length ≤ i → proj i log = []
  hlen : items.length ≤ n

theorem proj_append (i : Nat) (l1 l2 : List Ev) : proj i (l1 ++ l2) = proj i l1 ++ proj i l2 := by
  simp [proj]

theorem proj_single_same (i t : Nat) (b : Bool) : proj i [Ev.mk t i b] = [(t, b)] := by
  simp [proj]

theorem proj_single_other {i j : Nat} (t : Nat) (b : Bool) (h : j ≠ i) : proj i [Ev.mk t j b] = [] := by
  simp [proj, h]

theorem invL_init (n K : Nat) : InvL n K [] [] := by
  constructor <;> simp [proj]

theorem invL_append {n K : Nat} {items : List Ph} {log : List Ev} (h : InvL n K items log) (p : Ph)
    (hp : p = .held ∨ p = .queued) (hn : items.length < n) : InvL n K (items ++ [p]) log := by
  obtain ⟨h1, h2, h3⟩ := h
  constructor
  · intro i q hq
    rw [List.getElem?_append] at hq
    split at hq
    · exact h1 i q hq
    · rename_i hlt
      have : i - items.length = 0 := by
        cases hi : i - items.length with
        | zero => rfl
        | succ m => rw [hi] at hq; simp at hq
      rw [this] at hq
      simp at hq
      subst hq
      rw [h2 i (by omega)]
      rcases hp with rfl | rfl <;> simp [expected, phaseOk]
  · intro i hi
    simp at hi
    exact h2 i (by omega)
  · simp; omega

/-- replacing the phase of item `j` and appending events of item `j` only -/
theorem invL_set {n K : Nat} {items : List Ph} {log : List Ev} (h : InvL n K items log) {j : Nat} {p q : Ph}
    (hj : items[j]? = some p) (evs : List Ev) (hev : ∀ e ∈ evs, e.item = j)
    (hexp : expected K p ++ evs.map (fun e => (e.task, e.fin)) = expected K q) (hok : phaseOk K q) :
    InvL n K (items.set j q) (log ++ evs) := by
  obtain ⟨h1, h2, h3⟩ := h
  have hproj_j : proj j evs = evs.map (fun e => (e.task, e.fin)) := by
    simp only [proj]
    congr 1
    apply List.filter_eq_self.mpr
    intro e he; simp [hev e he]
  have hproj_o : ∀ i, i ≠ j → proj i evs = [] := by
    intro i hi
    simp only [proj, List.map_eq_nil_iff, List.filter_eq_nil_iff]
    intro e he; simp [hev e he]; omega
  constructor
  · intro i r hr
    by_cases hij : i = j
    · subst hij
      have hlt : i < items.length := by
        rcases Nat.lt_or_ge i items.length with h | h
        · exact h
        · simp [List.getElem?_eq_none h] at hj
      rw [List.getElem?_set_self hlt] at hr
      cases hr
      rw [proj_append, (h1 i p hj).1, hproj_j, hexp]
      exact ⟨rfl, hok⟩
    · rw [List.getElem?_set_ne (by omega)] at hr
      rw [proj_append, hproj_o i hij, List.append_nil]
      exact h1 i r hr
  · intro i hi
    simp at hi
    have hij : i ≠ j := by
      intro e; subst e
      simp [List.getElem?_eq_none hi] at hj
    rw [proj_append, hproj_o i hij, h2 i hi]; rfl
  · simpa using h3


theorem invL_start {n K : Nat} {items : List Ph} {log : List Ev} (h : InvL n K items log) {j : Nat}
    (hj : items[j]? = some .queued) : InvL n K (items.set j (.run 0)) (log ++ [Ev.mk 0 j false]) :=
  invL_set h hj [Ev.mk 0 j false] (by simp) (by simp [expected, pre]) (by simp [phaseOk])

theorem invL_next {n K : Nat} {items : List Ph} {log : List Ev} (h : InvL n K items log) {j k : Nat}
    (hj : items[j]? = some (.run k)) (hk : k < K) :
    InvL n K (items.set j (.run (k + 1))) (log ++ [Ev.mk k j true] ++ [Ev.mk (k + 1) j false]) := by
  rw [List.append_assoc]
  exact invL_set h hj [Ev.mk k j true, Ev.mk (k + 1) j false] (by simp) (by simp [expected, pre])
    (by simp [phaseOk]; omega)

theorem invL_last {n K : Nat} {items : List Ph} {log : List Ev} (h : InvL n K items log) {j k : Nat}
    (hj : items[j]? = some (.run k)) (hk : ¬ k < K) :
    InvL n K (items.set j .done) (log ++ [Ev.mk k j true]) := by
  have hle : k ≤ K := (h.hin j _ hj).2
  have : k = K := by omega
  subst this
  exact invL_set h hj [Ev.mk k j true] (by simp) (by simp [expected, pre]) (by simp [phaseOk])

theorem invL_fail {n K : Nat} {items : List Ph} {log : List Ev} (h : InvL n K items log) {j k : Nat}
    (hj : items[j]? = some (.run k)) : InvL n K (items.set j (.failed k)) log := by
  have := invL_set h hj [] (q := .failed k) (by simp) (by simp [expected]) (h.hin j _ hj).2
  simpa using this

theorem invL_requeue {n K : Nat} {items : List Ph} {log : List Ev} (h : InvL n K items log) {j : Nat}
    (hj : items[j]? = some .held) : InvL n K (items.set j .queued) log := by
  have := invL_set h hj [] (q := .queued) (by simp) (by simp [expected]) (by simp [phaseOk])
  simpa using this

def InvLs (c : Cfg) (s : St) : Prop := InvL c.n c.K s.items s.log

theorem invL_getw {c : Cfg} {s s' : St} (hn : InvN s) (h : InvLs c s) (hs : stepGetw s = some s') : InvLs c s' := by
  have h21 := hn.hq
  destruct_st s
  simp only [stepGetw] at hs
  split at hs <;> try contradiction
  cases hs
  simp only [InvLs, getStep, notifyProd, workerGone] at *
  split
  · exact h
  · cases hqi : qitem with
    | none => exact h
    | some i => exact invL_start h (h21 i hqi)

theorem invL_task {c : Cfg} {s s' : St} {i : Nat} {ok : Bool} (hn : InvN s) (h : InvLs c s)
    (hs : stepTask c s i ok = some s') : InvLs c s' := by
  simp only [stepTask] at hs
  split at hs
  · rename_i k hrun
    split at hs
    · split at hs
      · cases hs
        exact invL_next h hrun (by assumption)
      · rename_i hk
        have hmidL : InvLs c (midSt s i k) := by
          simp only [InvLs, midSt, notifyProd]
          exact invL_last h hrun hk
        have hmidN : InvN (midSt s i k) := invN_midSt hn hrun
        apply invL_getw hmidN hmidL
        cases hs
        simp [stepGetw, notifyProd, midSt]
    · cases hs
      simp only [InvLs, workerGone]
      exact invL_fail h hrun
  · contradiction


@[simp] theorem doStop_items (c : Cfg) (s : St) : (doStop c s).items = s.items := by
  simp only [doStop, putPills, wakeGetters, setUnpaused]; repeat' split
  all_goals rfl
@[simp] theorem doStop_log (c : Cfg) (s : St) : (doStop c s).log = s.log := by
  simp only [doStop, putPills, wakeGetters, setUnpaused]; repeat' split
  all_goals rfl
@[simp] theorem prodGone_items (s : St) : (prodGone s).items = s.items := rfl
@[simp] theorem prodGone_log (s : St) : (prodGone s).log = s.log := rfl
@[simp] theorem prodFinish_items (c : Cfg) (s : St) : (prodFinish c s).items = s.items := by simp [prodFinish]
@[simp] theorem prodFinish_log (c : Cfg) (s : St) : (prodFinish c s).log = s.log := by simp [prodFinish]
@[simp] theorem prodLoop_items (c : Cfg) (s : St) : (prodLoop c s).items = s.items := by
  simp only [prodLoop]; split <;> simp
@[simp] theorem prodLoop_log (c : Cfg) (s : St) : (prodLoop c s).log = s.log := by
  simp only [prodLoop]; split <;> simp
@[simp] theorem putNow_items (s : St) (i : Nat) : (putNow s i).items = s.items.set i .queued := rfl
@[simp] theorem putNow_log (s : St) (i : Nat) : (putNow s i).log = s.log := rfl

theorem invL_prod {c : Cfg} {s s' : St} (hn : InvN s) (h : InvLs c s) (hs : stepProd c s = some s') :
    InvLs c s' := by
  have h22 := hn.hheld
  simp only [InvLs] at *
  simp only [stepProd] at hs
  repeat' split at hs
  all_goals first
    | contradiction
    | (cases hs; simp [set_last]
       first
        | exact h
        | exact invL_append h _ (Or.inl rfl) (by assumption)
        | exact invL_append h _ (Or.inr rfl) (by assumption)
        | exact invL_requeue h (h22 true (by assumption)))

theorem same_prod_log {c : Cfg} {s s' : St} (hs : stepProd c s = some s') : s'.log = s.log := by
  simp only [stepProd] at hs
  repeat' split at hs
  all_goals first
    | contradiction
    | (cases hs; simp)

theorem same_main {c : Cfg} {s s' : St} (hs : stepMain c s = some s') : s'.items = s.items ∧ s'.log = s.log := by
  simp only [stepMain, mainLoop, shutdown, shutProd, awaitProd] at hs
  repeat' split at hs
  all_goals first
    | contradiction
    | (cases hs; simp)

theorem same_stop {c : Cfg} {s s' : St} (hs : step c s .stop = some s') : s'.items = s.items ∧ s'.log = s.log := by
  simp only [step, doStop, putPills, wakeGetters, setUnpaused] at hs
  repeat' split at hs
  all_goals first
    | contradiction
    | (cases hs; simp)

theorem same_setConc {c : Cfg} {s s' : St} {n : Nat} (hs : step c s (.setConc n) = some s') :
    s'.items = s.items ∧ s'.log = s.log := by
  simp only [step, doSetConc, putPills, wakeGetters, setUnpaused] at hs
  repeat' split at hs
  all_goals first
    | contradiction
    | (cases hs; simp)

theorem invL_step {c : Cfg} {s s' : St} {a : Act} (hn : InvN s) (h : InvLs c s) (hs : step c s a = some s') :
    InvLs c s' := by
  cases a with
  | prod => exact invL_prod hn h hs
  | main => have := same_main hs; simp only [InvLs, this.1, this.2]; exact h
  | getw => exact invL_getw hn h hs
  | task i ok => exact invL_task hn h hs
  | stop => have := same_stop hs; simp only [InvLs, this.1, this.2]; exact h
  | setConc n => have := same_setConc hs; simp only [InvLs, this.1, this.2]; exact h

end Wpull.Pipeline
