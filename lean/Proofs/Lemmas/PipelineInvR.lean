/- C13 helper lemmas: the history invariant `InvR` (what a finished / failed / stopped run looks like). -/
import Proofs.Lemmas.PipelineInvA
namespace Wpull.Pipeline

def cnt (f : Ph → Bool) : List Ph → Nat
  | [] => 0
  | p :: l => (if f p then 1 else 0) + cnt f l

theorem cnt_set {f : Ph → Bool} {l : List Ph} {i : Nat} {p q : Ph} (h : l[i]? = some p) :
    cnt f (l.set i q) + (if f p then 1 else 0) = cnt f l + (if f q then 1 else 0) := by
  induction l generalizing i with
  | nil => simp at h
  | cons a l ih =>
    cases i with
    | zero => simp at h; subst h; simp [cnt]; omega
    | succ i => simp at h; have := ih h; simp [cnt]; omega

theorem cnt_append (f : Ph → Bool) (l : List Ph) (p : Ph) :
    cnt f (l ++ [p]) = cnt f l + (if f p then 1 else 0) := by
  induction l with
  | nil => simp [cnt]
  | cons a l ih => simp [cnt, ih]; omega

theorem cnt_zero {f : Ph → Bool} {l : List Ph} (h : cnt f l = 0) : ∀ p ∈ l, f p = false := by
  induction l with
  | nil => simp
  | cons a l ih =>
    simp only [cnt] at h
    intro p hp
    rcases List.mem_cons.mp hp with rfl | hp
    · cases hf : f p <;> simp [hf] at h ⊢
    · exact ih (by omega) p hp

/-- counted in `ItemQueue._unfinished_items` -/
def isU : Ph → Bool
  | .queued | .run _ | .failed _ => true
  | _ => false

def isH : Ph → Bool
  | .held => true
  | _ => false

structure InvR (c : Cfg) (s : St) : Prop where
  r0 : s.stopReq = true → s.pstate ≠ .running
  rinit : s.main = .init → s.stopReq = false
  r1 : s.stopReq = false → s.pstate ≠ .running → s.main ≠ .init → (s.prod = .finished ∨ s.prod = .failed)
  r2 : s.stopReq = false → s.prod = .getPark → s.prodRunning = true
  r2b : ∀ b, s.stopReq = false → s.prod = .putWait b → s.prodRunning = true
  r2c : ∀ b, s.stopReq = false → s.prod = .waitWorker b → s.prodRunning = true
  r3 : s.stopReq = false → s.prod = .finished → s.items.length = c.n ∧ s.unfinished = 0
  r4 : s.items.length ≤ c.n
  r5 : s.unfinished = cnt isU s.items
  r6 : (∀ b, s.prod ≠ .putWait b) → s.prod ≠ .cancelReq → s.prod ≠ .cancelled → cnt isH s.items = 0
  r7 : ∀ b, s.prod = .putWait b → cnt isH s.items = 1
  e1 : s.srcFailed = true ↔ s.prod = .failed
  e4 : s.main = .shutWorkers true → s.live = 0
  e4b : ∀ w, s.main = .waitProd w → s.live = 0 ∧ s.failedW = 0
  e4c : s.main = .returned → s.live = 0 ∧ s.failedW = 0
  e6 : s.failedW ≤ s.failedItems
  e5 : s.main = .raised → 0 < s.failedItems ∨ s.srcFailed = true
  e7 : s.main = .returned → s.prod = .finished ∨ s.prod = .cancelled
  s1 : s.pstate ≠ .running → s.srcCalls = s.callsAtStop
  s2 : s.pstate ≠ .running → s.prodRunning = false

set_option hygiene false in
macro "obtain_invR" h:ident : tactic =>
  `(tactic| obtain ⟨r0,rinit,r1,r2,r2b,r2c,r3,r4,r5,r6,r7,e1,e4,e4b,e4c,e6,e5,e7,s1,s2⟩ := $h)

macro "invR_fields" : tactic =>
  `(tactic| (constructor <;> (try simp only [St.qi, St.qsize, St.live, St.wt, set_last, cnt_append, isU, isH]) <;>
      grind [notifyPC_cases, goneMC_cases, pgoneMC_cases, unpauseMC_cases]))

theorem invR_init (c : Cfg) (n : Nat) : InvR c (initSt n) := by
  constructor <;> simp [initSt, St.live, cnt]

theorem invR_getw {c : Cfg} {s s' : St} (h : InvN s) (hr : InvR c s) (hs : stepGetw s = some s') : InvR c s' := by
  obtain_inv h
  obtain_invR hr
  destruct_st s
  simp only [stepGetw] at hs
  split at hs <;> try contradiction
  cases hs
  simp only [St.qi, St.qsize, St.live, St.wt] at *
  simp only [getStep, notifyProd, workerGone]
  split
  · invR_fields
  · cases hqi : qitem with
    | none => invR_fields
    | some i =>
      have hc1 := cnt_set (f := isU) (q := .run 0) (h21 i hqi)
      have hc2 := cnt_set (f := isH) (q := .run 0) (h21 i hqi)
      simp only [isU, isH] at hc1 hc2
      invR_fields

theorem invR_midSt {c : Cfg} {s : St} {i k : Nat} (h : InvN s) (hr : InvR c s)
    (hrun : s.items[i]? = some (.run k)) : InvR c (midSt s i k) := by
  obtain_inv h
  obtain_invR hr
  destruct_st s
  simp only [St.qi, St.qsize, St.live, St.wt] at *
  have hc1 := cnt_set (f := isU) (q := .done) hrun
  have hc2 := cnt_set (f := isH) (q := .done) hrun
  have hp := countRun_pos hrun
  simp only [isU, isH] at hc1 hc2
  simp only [midSt, notifyProd]
  invR_fields

theorem invR_task {c : Cfg} {s s' : St} {i : Nat} {ok : Bool} (h : InvN s) (hr : InvR c s)
    (hs : stepTask c s i ok = some s') : InvR c s' := by
  simp only [stepTask] at hs
  split at hs
  · rename_i k hrun
    split at hs
    · split at hs
      · cases hs
        obtain_inv h
        obtain_invR hr
        destruct_st s
        simp only [St.qi, St.qsize, St.live, St.wt] at *
        have hc1 := cnt_set (f := isU) (q := .run (k + 1)) hrun
        have hc2 := cnt_set (f := isH) (q := .run (k + 1)) hrun
        simp only [isU, isH] at hc1 hc2
        invR_fields
      · apply invR_getw (invN_midSt h hrun) (invR_midSt h hr hrun)
        cases hs
        simp [stepGetw, notifyProd, midSt]
    · cases hs
      obtain_inv h
      obtain_invR hr
      destruct_st s
      simp only [St.qi, St.qsize, St.live, St.wt] at *
      have hc1 := cnt_set (f := isU) (q := .failed k) hrun
      have hc2 := cnt_set (f := isH) (q := .failed k) hrun
      have hp := countRun_pos hrun
      simp only [isU, isH] at hc1 hc2
      simp only [workerGone]
      invR_fields
  · contradiction

theorem invR_stop {c : Cfg} (hfx : c.fx = Fix.all) {s s' : St} (h : InvN s) (hr : InvR c s)
    (hs : step c s .stop = some s') : InvR c s' := by
  simp only [step] at hs
  split at hs
  · contradiction
  · cases hs
    obtain_inv h
    obtain_invR hr
    destruct_st s
    simp only [St.qi, St.qsize, St.live, St.wt] at *
    simp only [doStop, hfx, Fix.all, putPills, wakeGetters, setUnpaused, St.live, St.wt, if_true]
    split
    · invR_fields
    · invR_fields

theorem invR_setConc {c : Cfg} {s s' : St} {n : Nat} (h : InvN s) (hr : InvR c s)
    (hs : step c s (.setConc n) = some s') : InvR c s' := by
  simp only [step] at hs
  split at hs
  · contradiction
  · cases hs
    obtain_inv h
    obtain_invR hr
    destruct_st s
    simp only [St.qi, St.qsize, St.live, St.wt] at *
    simp only [doSetConc, putPills, wakeGetters, setUnpaused]
    repeat' split
    all_goals invR_fields

end Wpull.Pipeline
