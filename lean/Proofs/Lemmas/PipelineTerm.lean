/- C13 helper lemmas: a measure that decreases on every internal step (no livelock). -/
import Proofs.Lemmas.PipelineInvA
namespace Wpull.Pipeline

def wPh (K : Nat) : Ph → Nat
  | .held => 3 * K + 9
  | .queued => 3 * K + 7
  | .run k => 3 * (K - k) + 6
  | .done => 0
  | .failed _ => 0

def wsum (K : Nat) : List Ph → Nat
  | [] => 0
  | p :: l => wPh K p + wsum K l

theorem wsum_set {K : Nat} {l : List Ph} {i : Nat} {p q : Ph} (h : l[i]? = some p) :
    wsum K (l.set i q) + wPh K p = wsum K l + wPh K q := by
  induction l generalizing i with
  | nil => simp at h
  | cons a l ih =>
    cases i with
    | zero => simp at h; subst h; simp [wsum]; omega
    | succ i => simp at h; have := ih h; simp [wsum]; omega

theorem wsum_append (K : Nat) (l : List Ph) (p : Ph) : wsum K (l ++ [p]) = wsum K l + wPh K p := by
  induction l with
  | nil => simp [wsum]
  | cons a l ih => simp [wsum, ih]; omega

def wP : PPC → Nat
  | .none => 0 | .start => 3 | .getPark => 1
  | .putWait b => if b then 2 else 0
  | .waitWorker b => if b then 2 else 0
  | .finished => 0 | .failed => 0 | .cancelReq => 3 | .cancelled => 0

def wM : MPC → Nat
  | .init => 0
  | .waitAny b => if b then 7 else 5
  | .waitUnpaused b => if b then 7 else 5
  | .shutWorkers b => if b then 6 else 4
  | .waitProd b => if b then 3 else 1
  | .returned => 0 | .raised => 0 | .spin => 0

def srcPot (K : Nat) : Nat → Nat
  | 0 => 0
  | m + 1 => srcPot K m + (3 * K + 12)

def phi (c : Cfg) (s : St) : Nat :=
  srcPot c.K (c.n - s.items.length) + wsum c.K s.items + wP s.prod + 6 * s.pills + 2 * s.idleReady + s.idleWait +
  3 * s.exited + 3 * s.failedW + wM s.main + (if s.pstate = .running then 3 * (s.conc - s.wt) else 0)

def rank (s : St) : Nat := if s.main = .init then 2 else if s.pstate = .running then 1 else 0

/-- lexicographic decrease of (rank, phi) -/
def Decr (c : Cfg) (s' s : St) : Prop := rank s' < rank s ∨ (rank s' = rank s ∧ phi c s' < phi c s)

theorem notifyPC_idem (p : PPC) : notifyPC (notifyPC p) = notifyPC p := by
  cases p <;> simp [notifyPC] <;> rename_i b <;> cases b <;> simp

theorem wP_notify (p : PPC) : wP (notifyPC p) ≤ wP p + 2 := by
  cases p <;> simp [notifyPC, wP] <;> rename_i b <;> cases b <;> simp [wP]

theorem wM_gone (m : MPC) (l : Nat) : wM (goneMC m l) ≤ wM m + 2 ∧ (goneMC m l = .init ↔ m = .init) := by
  rcases m with _ | b | b | b | b | _ | _ | _ <;> try (rcases b with _ | _)
  all_goals simp only [goneMC]
  all_goals (try split)
  all_goals simp [wM]

theorem wM_pgone (m : MPC) : wM (pgoneMC m) ≤ wM m + 2 ∧ (pgoneMC m = .init ↔ m = .init) := by
  cases m <;> simp [pgoneMC, wM] <;> rename_i b <;> cases b <;> simp [wM]

theorem unpause_init (m : MPC) : (unpauseMC m = .init ↔ m = .init) := by
  cases m <;> simp [unpauseMC] <;> rename_i b <;> cases b <;> simp

theorem wP_vals : wP .none = 0 ∧ wP .start = 3 ∧ wP .getPark = 1 ∧ wP (.putWait true) = 2 ∧ wP (.putWait false) = 0 ∧
    wP (.waitWorker true) = 2 ∧ wP (.waitWorker false) = 0 ∧ wP .finished = 0 ∧ wP .failed = 0 ∧ wP .cancelReq = 3 ∧
    wP .cancelled = 0 := by simp [wP]

theorem wM_shut_le (b : Bool) : wM (.shutWorkers b) ≤ 6 := by cases b <;> simp [wM]

theorem wM_vals : wM .init = 0 ∧ wM (.waitAny true) = 7 ∧ wM (.waitAny false) = 5 ∧ wM (.waitUnpaused true) = 7 ∧
    wM (.waitUnpaused false) = 5 ∧ wM (.shutWorkers true) = 6 ∧ wM (.shutWorkers false) = 4 ∧ wM (.waitProd true) = 3 ∧
    wM (.waitProd false) = 1 ∧ wM .returned = 0 ∧ wM .raised = 0 ∧ wM .spin = 0 := by simp [wM]

macro "decr_tac" : tactic =>
  `(tactic| (simp only [Decr, rank, phi, St.qi, St.qsize, St.live, St.wt, set_last, wsum_append, wPh, List.length_append,
      List.length_cons, List.length_nil, List.length_set] <;>
      have hwp := wP_vals <;> have hwm := wM_vals <;>
      grind [wP_notify, wM_gone, wM_pgone, wM_shut_le, unpause_init, notifyPC_cases, goneMC_cases, pgoneMC_cases]))

theorem decr_getw {c : Cfg} {s s' : St} (h : InvN s) (hs : stepGetw s = some s') : Decr c s' s := by
  obtain_inv h
  destruct_st s
  simp only [stepGetw] at hs
  split at hs <;> try contradiction
  cases hs
  simp only [St.qi, St.qsize, St.live, St.wt] at *
  simp only [getStep, notifyProd, workerGone]
  split
  · decr_tac
  · cases hqi : qitem with
    | none => decr_tac
    | some i =>
      have hc := wsum_set (K := c.K) (q := .run 0) (h21 i hqi)
      simp only [wPh] at hc
      decr_tac


theorem decr_task {c : Cfg} {s s' : St} {i : Nat} {ok : Bool} (h : InvN s)
    (hs : stepTask c s i ok = some s') : Decr c s' s := by
  simp only [stepTask] at hs
  split at hs
  · rename_i k hrun
    split at hs
    · split at hs
      · cases hs
        obtain_inv h
        destruct_st s
        simp only [St.qi, St.qsize, St.live, St.wt] at *
        have hc := wsum_set (K := c.K) (q := .run (k + 1)) hrun
        simp only [wPh] at hc
        decr_tac
      · -- last task: the worker's own get() follows in the same step
        cases hs
        obtain_inv h
        destruct_st s
        simp only [St.qi, St.qsize, St.live, St.wt] at *
        have hc := wsum_set (K := c.K) (q := .done) hrun
        simp only [wPh] at hc
        simp only [getStep, notifyProd, workerGone, notifyPC_idem]
        by_cases hpl : pills > 0
        · simp only [hpl, if_true]
          decr_tac
        · simp only [hpl, if_false]
          cases hqi : qitem with
          | none => decr_tac
          | some j =>
            have hj : (items.set i Ph.done)[j]? = some .queued := by
              rw [List.getElem?_set_ne]
              · exact h21 j hqi
              · intro e; subst e; rw [h21 _ hqi] at hrun; cases hrun
            have hc2 := wsum_set (K := c.K) (q := .run 0) hj
            simp only [wPh] at hc2
            decr_tac
    · cases hs
      obtain_inv h
      destruct_st s
      simp only [St.qi, St.qsize, St.live, St.wt] at *
      have hc := wsum_set (K := c.K) (q := .failed k) hrun
      simp only [wPh] at hc
      simp only [workerGone]
      decr_tac
  · contradiction


theorem srcPot_succ (K n len : Nat) (h : len < n) : srcPot K (n - len) = srcPot K (n - (len + 1)) + (3 * K + 12) := by
  have : n - len = (n - (len + 1)) + 1 := by omega
  rw [this]; rfl

theorem decr_prod_putWait {c : Cfg} (hfx : c.fx = Fix.all) {s s' : St} (h : InvN s)
    (hp : s.prod = .putWait true) (hs : stepProd c s = some s') : Decr c s' s := by
  obtain_inv h
  destruct_st s
  simp only at hp
  subst hp
  simp only [St.qi, St.qsize, St.live, St.wt] at *
  have hc := wsum_set (K := c.K) (q := .queued) (h22 true rfl)
  simp only [wPh] at hc
  simp only [stepProd, prodLoop, prodFinish, putNow, doStop, hfx, Fix.all, putPills, wakeGetters, setUnpaused,
    prodGone, St.qsize, St.qi, St.live, St.wt, if_true, Bool.true_and] at hs
  repeat' split at hs
  all_goals first
    | contradiction
    | (cases hs; decr_tac)

set_option maxHeartbeats 4000000 in
theorem decr_prod_other {c : Cfg} (hfx : c.fx = Fix.all) {s s' : St} (h : InvN s)
    (hp : s.prod ≠ .putWait true) (hs : stepProd c s = some s') : Decr c s' s := by
  obtain_inv h
  destruct_st s
  simp only [St.qi, St.qsize, St.live, St.wt] at *
  have hsp := srcPot_succ c.K c.n items.length
  simp only [stepProd, prodLoop, prodFinish, putNow, doStop, hfx, Fix.all, putPills, wakeGetters, setUnpaused,
    prodGone, St.qsize, St.qi, St.live, St.wt, if_true, Bool.true_and] at hs
  repeat' split at hs
  all_goals first
    | contradiction
    | (cases hs; decr_tac)

theorem decr_prod {c : Cfg} (hfx : c.fx = Fix.all) {s s' : St} (h : InvN s)
    (hs : stepProd c s = some s') : Decr c s' s := by
  by_cases hp : s.prod = .putWait true
  · exact decr_prod_putWait hfx h hp hs
  · exact decr_prod_other hfx h hp hs


set_option maxHeartbeats 4000000 in
theorem decr_main {c : Cfg} (hfx : c.fx = Fix.all) {s s' : St} (h : InvN s)
    (hs : stepMain c s = some s') : Decr c s' s := by
  obtain_inv h
  destruct_st s
  simp only [St.qi, St.qsize, St.live, St.wt] at *
  simp only [stepMain, mainLoop, shutdown, shutProd, awaitProd, hfx, Fix.all, St.qsize, St.qi, St.live, St.wt,
    if_true, Bool.true_and] at hs
  repeat' split at hs
  all_goals first
    | contradiction
    | (cases hs; decr_tac)

/-- the internal steps (everything but the control calls `stop` / `setConc`) -/
def Act.internal : Act → Bool
  | .stop | .setConc _ => false
  | _ => true

theorem decr_step {c : Cfg} (hfx : c.fx = Fix.all) {s s' : St} {a : Act} (h : InvN s) (ha : a.internal = true)
    (hs : step c s a = some s') : Decr c s' s := by
  cases a with
  | prod => exact decr_prod hfx h hs
  | main => exact decr_main hfx h hs
  | getw => exact decr_getw h hs
  | task i ok => exact decr_task h hs
  | stop => simp [Act.internal] at ha
  | setConc n => simp [Act.internal] at ha

end Wpull.Pipeline
