import Wpull.Url
import Proofs.Lemmas.Flatten
namespace Wpull.Url
open Wpull

/-- a codec that encodes character by character, maps ASCII to itself and every other
character to a non-empty byte string (bytes < 256) free of '.' and '/' -/
def SegSafe (enc : Str → Except PyExc Bytes) : Prop :=
  ∃ f : Nat → Except PyExc Bytes, enc = encodeBy f ∧ (∀ c, c < 128 → f c = .ok [c]) ∧
    (∀ c bs, 128 ≤ c → f c = .ok bs → bs ≠ [] ∧ ∀ b ∈ bs, b < 256 ∧ b ≠ 46 ∧ b ≠ 47)

theorem utf8Enc_segSafe : SegSafe utf8Enc := by
  refine ⟨utf8Enc1, rfl, ?_, ?_⟩
  · intro c hc
    have : c < 0x80 := hc
    simp [utf8Enc1, this]
  · intro c bs hc h
    unfold utf8Enc1 at h
    split at h
    · omega
    · split at h
      · simp at h
        subst h
        simp
        omega
      · split at h
        · simp at h
        · split at h
          · simp at h
            subst h
            simp
            omega
          · simp at h
            subst h
            simp
            omega

theorem latin1Enc_segSafe : SegSafe latin1Enc := by
  refine ⟨_, rfl, ?_, ?_⟩
  · intro c hc
    have : c < 256 := by omega
    simp [this]
  · intro c bs hc h
    split at h
    · simp at h
      subst h
      simp
      omega
    · simp at h

theorem asciiEnc_segSafe : SegSafe asciiEnc := by
  refine ⟨_, rfl, ?_, ?_⟩
  · intro c hc
    simp [hc]
  · intro c bs hc h
    split at h
    · omega
    · simp at h

/-! ### `encodeBy` -/

theorem penc_encodeBy_cons (f : Nat → Except PyExc Bytes) (c : Nat) (t : Str) (bs : Bytes)
    (h : encodeBy f (c :: t) = .ok bs) :
    ∃ a b, f c = .ok a ∧ encodeBy f t = .ok b ∧ bs = a ++ b := by
  unfold encodeBy at h
  split at h
  · simp at h
  · rename_i a ha
    split at h
    · simp at h
    · rename_i b hb
      simp at h
      exact ⟨a, b, ha, hb, h.symm⟩

/-- every byte such a codec produces is < 256 -/
theorem segSafe_bytes {enc : Str → Except PyExc Bytes} (h : SegSafe enc) {s : Str} {bs : Bytes}
    (he : enc s = .ok bs) : ∀ b ∈ bs, b < 256 := by
  obtain ⟨f, rfl, h1, h2⟩ := h
  induction s generalizing bs with
  | nil =>
    simp [encodeBy] at he
    subst he
    simp
  | cons c t ih =>
    obtain ⟨a, b, ha, hb, rfl⟩ := penc_encodeBy_cons f c t bs he
    intro x hx
    rcases List.mem_append.1 hx with hx | hx
    · by_cases hc : c < 128
      · rw [h1 c hc] at ha
        simp at ha
        subst ha
        simp at hx
        omega
      · exact ((h2 c a (by omega) ha).2 x hx).1
    · exact ih hb x hx

/-- on pure-ASCII text such a codec is the identity -/
theorem segSafe_ascii {enc : Str → Except PyExc Bytes} (h : SegSafe enc) {s : Str}
    (ha : ∀ c ∈ s, c < 128) : enc s = .ok s := by
  obtain ⟨f, rfl, h1, _⟩ := h
  induction s with
  | nil => simp [encodeBy]
  | cons c t ih =>
    have hc := h1 c (ha c (by simp))
    have ht := ih (fun x hx => ha x (by simp [hx]))
    simp [encodeBy, hc, ht]

/-! ### per-character expansion relation -/

/-- `u` may stand for the character `c`: either unchanged, or `c` is neither '.' nor '/'
and `u` is a non-empty string free of '.' and '/' -/
def penc_G (c : Nat) (u : Str) : Prop :=
  u = [c] ∨ (c ≠ 46 ∧ c ≠ 47 ∧ u ≠ [] ∧ 46 ∉ u ∧ 47 ∉ u)

/-- `t` arises from `s` by expanding every character according to `penc_G` -/
inductive penc_ERel : Str → Str → Prop
  | nil : penc_ERel [] []
  | cons {c : Nat} {u s t t' : Str} :
      penc_G c u → penc_ERel s t → t' = u ++ t → penc_ERel (c :: s) t'

theorem penc_G_refl (c : Nat) : penc_G c [c] := Or.inl rfl

theorem penc_G_ne_nil {c : Nat} {u : Str} (h : penc_G c u) : u ≠ [] := by
  rcases h with h | h
  · simp [h]
  · exact h.2.2.1

theorem penc_ERel_cons1 {c b : Nat} {s t : Str} (hg : penc_G c [b]) (h : penc_ERel s t) :
    penc_ERel (c :: s) (b :: t) :=
  penc_ERel.cons hg h (by simp)

theorem penc_ERel_append {a b : Str} : ∀ {t : Str}, penc_ERel (a ++ b) t →
    ∃ ta tb, t = ta ++ tb ∧ penc_ERel a ta ∧ penc_ERel b tb := by
  induction a with
  | nil =>
    intro t h
    exact ⟨[], t, by simp, penc_ERel.nil, by simpa using h⟩
  | cons c a ih =>
    intro t h
    have h' : penc_ERel (c :: (a ++ b)) t := by simpa using h
    cases h' with
    | cons hg hr ht =>
      obtain ⟨ta, tb, rfl, h1, h2⟩ := ih hr
      exact ⟨_ ++ ta, tb, by simp [ht], penc_ERel.cons hg h1 rfl, h2⟩

theorem penc_ERel_nil_left {t : Str} (h : penc_ERel [] t) : t = [] := by
  cases h
  rfl

theorem penc_ERel_nil_right {s t : Str} (h : penc_ERel s t) (ht : t = []) : s = [] := by
  cases h with
  | nil => rfl
  | cons hg hr he =>
    subst he
    simp at ht
    exact absurd ht.1 (penc_G_ne_nil hg)

theorem penc_ERel_slash {t : Str} (h : penc_ERel [47] t) : t = [47] := by
  cases h with
  | cons hg hr he =>
    have := penc_ERel_nil_left hr
    subst this
    rcases hg with hg | hg
    · simp [he, hg]
    · exact absurd rfl hg.2.1

theorem penc_ERel_free {s t : Str} (h : penc_ERel s t) (hs : 47 ∉ s) : 47 ∉ t := by
  induction h with
  | nil => simp
  | cons hg hr he ih =>
    rename_i c u s t t'
    simp at hs
    subst he
    intro hm
    rcases List.mem_append.1 hm with hm | hm
    · rcases hg with hg | hg
      · subst hg
        simp at hm
        exact hs.1 hm
      · exact hg.2.2.2.2 hm
    · exact ih hs.2 hm

theorem penc_ERel_dot {s t : Str} (h : penc_ERel s t) (ht : t = [46]) : s = [46] := by
  cases h with
  | nil => simp at ht
  | cons hg hr he =>
    rename_i c u s t
    subst he
    cases u with
    | nil => exact absurd rfl (penc_G_ne_nil hg)
    | cons x u' =>
      simp at ht
      obtain ⟨hx, hu, ht⟩ := ht
      subst hx hu
      have := penc_ERel_nil_right hr ht
      subst this
      rcases hg with hg | hg
      · simp at hg
        simp [hg]
      · exact absurd (by simp) hg.2.2.2.1

theorem penc_ERel_dotdot {s t : Str} (h : penc_ERel s t) (ht : t = [46, 46]) : s = [46, 46] := by
  cases h with
  | nil => simp at ht
  | cons hg hr he =>
    rename_i c u s t
    subst he
    cases u with
    | nil => exact absurd rfl (penc_G_ne_nil hg)
    | cons x u' =>
      simp at ht
      obtain ⟨hx, ht⟩ := ht
      subst hx
      cases u' with
      | nil =>
        simp at ht
        have := penc_ERel_dot hr ht
        subst this
        rcases hg with hg | hg
        · simp at hg
          simp [hg]
        · exact absurd (by simp) hg.2.2.2.1
      | cons y u'' =>
        rcases hg with hg | hg
        · simp at hg
        · exact absurd (by simp) hg.2.2.2.1

/-! ### transporting clean segment lists along the relation -/

theorem penc_join_rel (segs : List Str) : ∀ t, penc_ERel (joinWith [47] segs) t → segs ≠ [] →
    ∃ segs', t = joinWith [47] segs' ∧ segs' ≠ [] ∧
      (∀ s' ∈ segs', ∃ s ∈ segs, penc_ERel s s') ∧
      (∀ s' ∈ segs'.dropLast, ∃ s ∈ segs.dropLast, penc_ERel s s') := by
  induction segs with
  | nil => intro t _ h; exact absurd rfl h
  | cons a rest ih =>
    intro t h _
    cases rest with
    | nil =>
      refine ⟨[t], by simp [joinWith], by simp, ?_, by simp⟩
      intro s' hs'
      simp at hs'
      subst hs'
      exact ⟨a, by simp, by simpa [joinWith] using h⟩
    | cons b r =>
      rw [joinWith_cons_cons] at h
      obtain ⟨tab, tJ, rfl, hab, hJ⟩ := penc_ERel_append h
      obtain ⟨ta, t47, rfl, ha, h47⟩ := penc_ERel_append hab
      have := penc_ERel_slash h47
      subst this
      obtain ⟨segs', rfl, hne, hall, hdl⟩ := ih tJ hJ (by simp)
      cases segs' with
      | nil => exact absurd rfl hne
      | cons b' r' =>
        refine ⟨ta :: b' :: r', by rw [joinWith_cons_cons], by simp, ?_, ?_⟩
        · intro s' hs'
          rcases List.mem_cons.1 hs' with e | e
          · subst e
            exact ⟨a, by simp, ha⟩
          · obtain ⟨s, hs, hr⟩ := hall s' e
            exact ⟨s, List.mem_cons_of_mem _ hs, hr⟩
        · intro s' hs'
          have e1 : (ta :: b' :: r').dropLast = ta :: (b' :: r').dropLast := by simp [List.dropLast]
          have e2 : (a :: b :: r).dropLast = a :: (b :: r).dropLast := by simp [List.dropLast]
          rw [e1] at hs'
          rw [e2]
          rcases List.mem_cons.1 hs' with e | e
          · subst e
            exact ⟨a, by simp, ha⟩
          · obtain ⟨s, hs, hr⟩ := hdl s' e
            exact ⟨s, List.mem_cons_of_mem _ hs, hr⟩

theorem penc_clean_rel (segs : List Str) (hc : CleanSegs segs) (t : Str)
    (h : penc_ERel (47 :: joinWith [47] segs) t) :
    ∃ segs', CleanSegs segs' ∧ t = 47 :: joinWith [47] segs' := by
  obtain ⟨hne, hall, hdl⟩ := hc
  have h' : penc_ERel ([47] ++ joinWith [47] segs) t := by simpa using h
  obtain ⟨t47, tJ, rfl, h47, hJ⟩ := penc_ERel_append h'
  have := penc_ERel_slash h47
  subst this
  obtain ⟨segs', rfl, hne', hall', hdl'⟩ := penc_join_rel segs tJ hJ hne
  refine ⟨segs', ⟨hne', ?_, ?_⟩, by simp⟩
  · intro s' hs'
    obtain ⟨s, hs, hr⟩ := hall' s' hs'
    obtain ⟨h1, h2, h3⟩ := hall s hs
    exact ⟨penc_ERel_free hr h1, fun e => h2 (penc_ERel_dot hr e), fun e => h3 (penc_ERel_dotdot hr e)⟩
  · intro s' hs'
    obtain ⟨s, hs, hr⟩ := hdl' s' hs'
    exact fun e => hdl s hs (penc_ERel_nil_right hr e)

/-! ### `upperPct` -/

theorem penc_hex_G (a : Nat) (h : isHexDigit a = true) : penc_G a [asciiUpper a] := by
  right
  simp [isHexDigit, isAsciiDigit] at h
  unfold asciiUpper isAsciiLower
  split <;> rename_i hl <;> simp at hl <;> simp <;> omega

theorem penc_upperPct_rel (s : Str) : penc_ERel s (upperPct s) := by
  fun_induction upperPct s with
  | case1 c a b t hcond ih =>
    simp at hcond
    exact penc_ERel_cons1 (penc_G_refl c)
      (penc_ERel_cons1 (penc_hex_G a hcond.1.2) (penc_ERel_cons1 (penc_hex_G b hcond.2) ih))
  | case2 c a b t hcond ih =>
    exact penc_ERel_cons1 (penc_G_refl c) ih
  | case3 c a =>
    exact penc_ERel_cons1 (penc_G_refl c) (penc_ERel_cons1 (penc_G_refl a) penc_ERel.nil)
  | case4 c =>
    exact penc_ERel_cons1 (penc_G_refl c) penc_ERel.nil
  | case5 => exact penc_ERel.nil

/-! ### `pctBytes` -/

theorem penc_pctBytes_append (set : List Nat) (x y : Bytes) :
    pctBytes set (x ++ y) = pctBytes set x ++ pctBytes set y := by
  induction x with
  | nil => simp [pctBytes]
  | cons a t ih => simp [pctBytes, ih]

theorem penc_hexChar_ge (n : Nat) : 48 ≤ hexChar n := by
  unfold hexChar
  split <;> omega

theorem penc_pctByte_ne_nil (set : List Nat) (b : Nat) : pctByte set b ≠ [] := by
  unfold pctByte
  split <;> simp

theorem penc_pctByte_mem (set : List Nat) (b x : Nat) (h : x ∈ pctByte set b) :
    x = b ∨ (x ≠ 46 ∧ x ≠ 47) := by
  unfold pctByte at h
  split at h
  · right
    have h1 := penc_hexChar_ge (b / 16)
    have h2 := penc_hexChar_ge (b % 16)
    simp at h
    rcases h with h | h | h <;> omega
  · simp at h
    exact Or.inl h

theorem penc_pctBytes_ne_nil (set : List Nat) (bs : Bytes) (h : bs ≠ []) : pctBytes set bs ≠ [] := by
  cases bs with
  | nil => exact absurd rfl h
  | cons b t =>
    simp [pctBytes, penc_pctByte_ne_nil]

theorem penc_pctBytes_mem (set : List Nat) (bs : Bytes) (x : Nat) (h : x ∈ pctBytes set bs) :
    x ∈ bs ∨ (x ≠ 46 ∧ x ≠ 47) := by
  induction bs with
  | nil => simp [pctBytes] at h
  | cons b t ih =>
    simp [pctBytes] at h
    rcases h with h | h
    · rcases penc_pctByte_mem set b x h with e | e
      · left; simp [e]
      · exact Or.inr e
    · rcases ih h with e | e
      · left; simp [e]
      · exact Or.inr e

theorem penc_pctByte_dot : pctByte defaultSet 46 = [46] := by
  simp [pctByte, defaultSet]

theorem penc_pctByte_slash : pctByte defaultSet 47 = [47] := by
  simp [pctByte, defaultSet]

theorem penc_enc_rel (f : Nat → Except PyExc Bytes) (h1 : ∀ c, c < 128 → f c = .ok [c])
    (h2 : ∀ c bs, 128 ≤ c → f c = .ok bs → bs ≠ [] ∧ ∀ b ∈ bs, b < 256 ∧ b ≠ 46 ∧ b ≠ 47)
    (s : Str) : ∀ bs, encodeBy f s = .ok bs → penc_ERel s (pctBytes defaultSet bs) := by
  induction s with
  | nil =>
    intro bs he
    simp [encodeBy] at he
    subst he
    exact penc_ERel.nil
  | cons c t ih =>
    intro bs he
    obtain ⟨a, b, ha, hb, rfl⟩ := penc_encodeBy_cons f c t bs he
    refine penc_ERel.cons (u := pctBytes defaultSet a) ?_ (ih b hb) (penc_pctBytes_append _ _ _)
    have hgen : (∀ x ∈ a, x ≠ 46 ∧ x ≠ 47) → a ≠ [] → c ≠ 46 → c ≠ 47 →
        penc_G c (pctBytes defaultSet a) := by
      intro hx hne h46 h47
      refine Or.inr ⟨h46, h47, penc_pctBytes_ne_nil _ _ hne, ?_, ?_⟩
      · intro hm
        rcases penc_pctBytes_mem _ _ _ hm with e | e
        · exact (hx _ e).1 rfl
        · exact e.1 rfl
      · intro hm
        rcases penc_pctBytes_mem _ _ _ hm with e | e
        · exact (hx _ e).2 rfl
        · exact e.2 rfl
    by_cases hc : c < 128
    · rw [h1 c hc] at ha
      simp at ha
      subst ha
      by_cases h46 : c = 46
      · subst h46
        left
        simp [pctBytes, penc_pctByte_dot]
      · by_cases h47 : c = 47
        · subst h47
          left
          simp [pctBytes, penc_pctByte_slash]
        · apply hgen
          · intro x hx
            simp at hx
            subst hx
            exact ⟨h46, h47⟩
          · simp
          · exact h46
          · exact h47
    · have := h2 c a (by omega) ha
      apply hgen
      · intro x hx
        exact (this.2 x hx).2
      · exact this.1
      · omega
      · omega

/-! ### the normalised path -/

/-- the normalised path is '/' + '/'.join(segs) with segs clean -/
theorem path_normal_clean {enc : Str → Except PyExc Bytes} (h : SegSafe enc) (p : Str) (bs : Bytes)
    (he : enc (flattenPath true p) = .ok bs) :
    ∃ segs, CleanSegs segs ∧ upperPct (pctBytes defaultSet bs) = 47 :: joinWith [47] segs := by
  obtain ⟨f, rfl, h1, h2⟩ := h
  obtain ⟨segs, hc, hf⟩ := flattenPath_clean p
  rw [hf] at he
  obtain ⟨segs1, hc1, e1⟩ := penc_clean_rel segs hc _ (penc_enc_rel f h1 h2 _ bs he)
  rw [e1]
  exact penc_clean_rel segs1 hc1 _ (penc_upperPct_rel _)

/-- hence flattening it again changes nothing -/
theorem path_normal_flat {enc : Str → Except PyExc Bytes} (h : SegSafe enc) (p : Str) (bs : Bytes)
    (he : enc (flattenPath true p) = .ok bs) :
    flattenPath true (upperPct (pctBytes defaultSet bs)) = upperPct (pctBytes defaultSet bs) := by
  obtain ⟨segs, hc, e⟩ := path_normal_clean h p bs he
  rw [e]
  exact flattenPath_of_clean segs hc

end Wpull.Url
