/- C13 helper lemmas: the per-run history invariant `InvQ` — the part of `InvR` that survives a second
`process()` on the same object (`restartSt`, with the source possibly refilled): a run that is not stopped ends only
when the source is exhausted and nothing is unfinished. -/
import Proofs.Lemmas.PipelineInvR
namespace Wpull.Pipeline

structure InvQ (c : Cfg) (s : St) : Prop where
  r0 : s.stopReq = true → s.pstate ≠ .running
  rinit : s.main = .init → s.stopReq = false
  r1 : s.stopReq = false → s.pstate ≠ .running → s.main ≠ .init → (s.prod = .finished ∨ s.prod = .failed)
  r2 : s.stopReq = false → s.prod = .getPark → s.prodRunning = true
  r2b : ∀ b, s.stopReq = false → s.prod = .putWait b → s.prodRunning = true
  r2c : ∀ b, s.stopReq = false → s.prod = .waitWorker b → s.prodRunning = true
  r3 : s.stopReq = false → s.prod = .finished → s.items.length = c.n ∧ s.unfinished = 0
  r4 : s.items.length ≤ c.n
  r5 : s.unfinished = cnt isU s.items

set_option hygiene false in
macro "obtain_invQ" h:ident : tactic =>
  `(tactic| obtain ⟨r0,rinit,r1,r2,r2b,r2c,r3,r4,r5⟩ := $h)

theorem invQ_init (c : Cfg) (n : Nat) : InvQ c (initSt n) := by
  constructor <;> simp [initSt, cnt]

theorem invQ_getw {c : Cfg} {s s' : St} (h : InvN s) (hr : InvQ c s) (hs : stepGetw s = some s') : InvQ c s' := by
  obtain_inv h
  obtain_invQ hr
  destruct_st s
  simp only [stepGetw] at hs
  split at hs <;> try contradiction
  cases hs
  simp only [St.qi, St.qsize, St.live, St.wt] at *
  simp only [getStep, notifyProd, workerGone]
  split
  · invR_fields
  · cases hqi : qitem with
    | none => invR_fields
    | some i =>
      have hc1 := cnt_set (f := isU) (q := .run 0) (h21 i hqi)
      have hc2 := cnt_set (f := isH) (q := .run 0) (h21 i hqi)
      simp only [isU, isH] at hc1 hc2
      invR_fields

theorem invQ_midSt {c : Cfg} {s : St} {i k : Nat} (h : InvN s) (hr : InvQ c s)
    (hrun : s.items[i]? = some (.run k)) : InvQ c (midSt s i k) := by
  obtain_inv h
  obtain_invQ hr
  destruct_st s
  simp only [St.qi, St.qsize, St.live, St.wt] at *
  have hc1 := cnt_set (f := isU) (q := .done) hrun
  have hc2 := cnt_set (f := isH) (q := .done) hrun
  have hp := countRun_pos hrun
  simp only [isU, isH] at hc1 hc2
  simp only [midSt, notifyProd]
  invR_fields

theorem invQ_task {c : Cfg} {s s' : St} {i : Nat} {ok : Bool} (h : InvN s) (hr : InvQ c s)
    (hs : stepTask c s i ok = some s') : InvQ c s' := by
  simp only [stepTask] at hs
  split at hs
  · rename_i k hrun
    split at hs
    · split at hs
      · cases hs
        obtain_inv h
        obtain_invQ hr
        destruct_st s
        simp only [St.qi, St.qsize, St.live, St.wt] at *
        have hc1 := cnt_set (f := isU) (q := .run (k + 1)) hrun
        have hc2 := cnt_set (f := isH) (q := .run (k + 1)) hrun
        simp only [isU, isH] at hc1 hc2
        invR_fields
      · apply invQ_getw (invN_midSt h hrun) (invQ_midSt h hr hrun)
        cases hs
        simp [stepGetw, notifyProd, midSt]
    · cases hs
      obtain_inv h
      obtain_invQ hr
      destruct_st s
      simp only [St.qi, St.qsize, St.live, St.wt] at *
      have hc1 := cnt_set (f := isU) (q := .failed k) hrun
      have hc2 := cnt_set (f := isH) (q := .failed k) hrun
      have hp := countRun_pos hrun
      simp only [isU, isH] at hc1 hc2
      simp only [workerGone]
      invR_fields
  · contradiction

theorem invQ_stop {c : Cfg} (hfx : c.fx = Fix.all) {s s' : St} (h : InvN s) (hr : InvQ c s)
    (hs : step c s .stop = some s') : InvQ c s' := by
  simp only [step] at hs
  split at hs
  · contradiction
  · cases hs
    obtain_inv h
    obtain_invQ hr
    destruct_st s
    simp only [St.qi, St.qsize, St.live, St.wt] at *
    simp only [doStop, hfx, Fix.all, putPills, wakeGetters, setUnpaused, St.live, St.wt, if_true]
    split
    · invR_fields
    · invR_fields

theorem invQ_setConc {c : Cfg} {s s' : St} {n : Nat} (h : InvN s) (hr : InvQ c s)
    (hs : step c s (.setConc n) = some s') : InvQ c s' := by
  simp only [step] at hs
  split at hs
  · contradiction
  · cases hs
    obtain_inv h
    obtain_invQ hr
    destruct_st s
    simp only [St.qi, St.qsize, St.live, St.wt] at *
    simp only [doSetConc, putPills, wakeGetters, setUnpaused]
    repeat' split
    all_goals invR_fields



set_option maxHeartbeats 4000000 in
theorem invQ_prod_putWait {c : Cfg} (hfx : c.fx = Fix.all) {s s' : St} (h : InvN s) (hr : InvQ c s)
    (hp : s.prod = .putWait true) (hs : stepProd c s = some s') : InvQ c s' := by
  obtain_inv h
  obtain_invQ hr
  destruct_st s
  simp only at hp
  subst hp
  simp only [St.qi, St.qsize, St.live, St.wt] at *
  have hc1 := cnt_set (f := isU) (q := .queued) (h22 true rfl)
  have hc2 := cnt_set (f := isH) (q := .queued) (h22 true rfl)
  simp only [isU, isH] at hc1 hc2
  simp only [stepProd, prodLoop, prodFinish, putNow, doStop, hfx, Fix.all, putPills, wakeGetters, setUnpaused,
    prodGone, St.qsize, St.qi, St.live, St.wt, if_true, Bool.true_and] at hs
  repeat' split at hs
  all_goals first
    | contradiction
    | (cases hs; invR_fields)

set_option maxHeartbeats 8000000 in
theorem invQ_prod_other {c : Cfg} (hfx : c.fx = Fix.all) {s s' : St} (h : InvN s) (hr : InvQ c s)
    (hp : s.prod ≠ .putWait true) (hs : stepProd c s = some s') : InvQ c s' := by
  obtain_inv h
  obtain_invQ hr
  destruct_st s
  simp only [St.qi, St.qsize, St.live, St.wt] at *
  simp only [stepProd, prodLoop, prodFinish, putNow, doStop, hfx, Fix.all, putPills, wakeGetters, setUnpaused,
    prodGone, St.qsize, St.qi, St.live, St.wt, if_true, Bool.true_and] at hs
  repeat' split at hs
  all_goals first
    | contradiction
    | (cases hs; invR_fields)

theorem invQ_prod {c : Cfg} (hfx : c.fx = Fix.all) {s s' : St} (h : InvN s) (hr : InvQ c s)
    (hs : stepProd c s = some s') : InvQ c s' := by
  by_cases hp : s.prod = .putWait true
  · exact invQ_prod_putWait hfx h hr hp hs
  · exact invQ_prod_other hfx h hr hp hs

set_option maxHeartbeats 8000000 in
theorem invQ_main {c : Cfg} (hfx : c.fx = Fix.all) {s s' : St} (h : InvN s) (hr : InvQ c s)
    (hs : stepMain c s = some s') : InvQ c s' := by
  obtain_inv h
  obtain_invQ hr
  destruct_st s
  simp only [St.qi, St.qsize, St.live, St.wt] at *
  simp only [stepMain, mainLoop, shutdown, shutProd, awaitProd, hfx, Fix.all, St.qsize, St.qi, St.live, St.wt,
    if_true, Bool.true_and] at hs
  repeat' split at hs
  all_goals first
    | contradiction
    | (cases hs; invR_fields)

theorem invQ_step {c : Cfg} (hfx : c.fx = Fix.all) {s s' : St} {a : Act} (h : InvN s) (hr : InvQ c s)
    (hs : step c s a = some s') : InvQ c s' := by
  cases a with
  | prod => exact invQ_prod hfx h hr hs
  | main => exact invQ_main hfx h hr hs
  | getw => exact invQ_getw h hr hs
  | task i ok => exact invQ_task h hr hs
  | stop => exact invQ_stop hfx h hr hs
  | setConc n => exact invQ_setConc h hr hs


/-- the second `process()`, the source refilled with `m` fresh items -/
theorem invQ_restart {c : Cfg} (hfx : c.fx = Fix.all) {s : St} (k m : Nat) (hq : InvQ c s)
    (hret : s.main = .returned) : InvQ { c with n := c.n + m } (restartSt c k s) := by
  obtain_invQ hq
  destruct_st s
  simp only at hret
  subst hret
  simp only [St.qi, St.qsize, St.live, St.wt] at *
  simp only [restartSt, mainLoop, shutdown, shutProd, awaitProd, hfx, Fix.all, St.qsize, St.qi, St.live, St.wt,
    if_true, Bool.true_and]
  repeat' split
  all_goals invR_fields

end Wpull.Pipeline
