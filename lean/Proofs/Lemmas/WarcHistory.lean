/-
Helper lemmas for C05 / C07: invariants of the recorder state machine of `Wpull.Warc`
over all operation histories (no property statements here).
-/
import Proofs.Lemmas.Warc
namespace Wpull.Warc
open Wpull

/-! ### file system -/
def content (s : St) (f : FName) : Bytes := (fsGet s.fs f).getD []

theorem fsGet_fsSet_same (fs : List (FName × Bytes)) (f : FName) (b : Bytes) : fsGet (fsSet fs f b) f = some b := by
  induction fs with
  | nil => simp [fsSet, fsGet]
  | cons p t ih =>
    obtain ⟨g, x⟩ := p
    unfold fsSet
    split
    · rename_i h; simp [fsGet, h]
    · rename_i h; simp [fsGet, h, ih]

theorem fsGet_fsSet_other (fs : List (FName × Bytes)) (f f' : FName) (b : Bytes) (h : f' ≠ f) :
    fsGet (fsSet fs f b) f' = fsGet fs f' := by
  induction fs with
  | nil => simp [fsSet, fsGet, Ne.symm h]
  | cons p t ih =>
    obtain ⟨g, x⟩ := p
    unfold fsSet
    split
    · rename_i h0; subst h0; simp [fsGet, Ne.symm h]
    · rename_i h0
      by_cases h1 : g = f'
      · simp [fsGet, h1]
      · simp [fsGet, h1, ih]

theorem fsSize_eq (fs : List (FName × Bytes)) (f : FName) : fsSize fs f = ((fsGet fs f).getD []).length := by
  unfold fsSize; cases fsGet fs f <;> simp

/-- the bytes `write_record` appended for an entry -/
def encOf (c : Cfg) (e : Env) (en : Entry) : Bytes :=
  if c.compress then e.member en.record.idx (serialize en.record) else serialize en.record

/-- every logged entry's byte range holds exactly the bytes written for its record -/
def SliceOk (c : Cfg) (e : Env) (s : St) : Prop :=
  ∀ en ∈ s.log, en.offset + en.size ≤ (content s en.file).length ∧
    ((content s en.file).drop en.offset).take en.size = encOf c e en

def lineOf (c : Cfg) (e : Env) (en : Entry) : Str := cdxLine c e en.file en.record en.size en.offset

/-- the CDX lines are exactly the lines of the logged response records, in order -/
def CdxOk (c : Cfg) (e : Env) (s : St) : Prop :=
  s.cdxLines = if c.cdx then (s.log.filter (fun en => wantsCdx en.record)).map (lineOf c e) else []

/-- no logged entry lives in a file a later `_start_new_warc_file` could pick -/
def Fresh (c : Cfg) (s : St) : Prop :=
  ∀ en ∈ s.log, en.file ≠ .metaF ∧ (∀ k, en.file = .numbered k → k ≤ s.seq) ∧ (en.file = .main → c.maxSize = none)

def CurOk (c : Cfg) (s : St) : Prop := s.cur = fnameOf c false s.seq

/-! ### write_record -/

/-- the entry `write_record` logs -/
def newEntry (c : Cfg) (e : Env) (s : St) (r : Record) : Entry :=
  let r' := r.set kWarcinfoId s.winfoId
  let raw := serialize r'
  let data := if c.compress then e.member r'.idx raw else raw
  { file := s.cur, offset := (content s s.cur).length, size := data.length, record := r' }

theorem writeRecord_log (c : Cfg) (e : Env) (s : St) (r : Record) :
    (writeRecord c e s r).log = s.log ++ [newEntry c e s r] := by
  simp [writeRecord, newEntry, fsSize_eq, fsGet_fsSet_same, content]

theorem writeRecord_content (c : Cfg) (e : Env) (s : St) (r : Record) (f : FName) :
    content (writeRecord c e s r) f =
      if f = s.cur then content s s.cur ++ encOf c e (newEntry c e s r) else content s f := by
  by_cases h : f = s.cur
  · subst h; simp [writeRecord, content, fsGet_fsSet_same, encOf, newEntry]
  · simp [writeRecord, content, fsGet_fsSet_other _ _ _ _ h, h]

@[simp] theorem writeRecord_cur (c : Cfg) (e : Env) (s : St) (r : Record) : (writeRecord c e s r).cur = s.cur := rfl
@[simp] theorem writeRecord_seq (c : Cfg) (e : Env) (s : St) (r : Record) : (writeRecord c e s r).seq = s.seq := rfl
@[simp] theorem writeRecord_winfoId (c : Cfg) (e : Env) (s : St) (r : Record) : (writeRecord c e s r).winfoId = s.winfoId := rfl

theorem newEntry_size (c : Cfg) (e : Env) (s : St) (r : Record) :
    (newEntry c e s r).size = (encOf c e (newEntry c e s r)).length := by
  simp [newEntry, encOf]

theorem writeRecord_slice (c : Cfg) (e : Env) (s : St) (r : Record) (h : SliceOk c e s) :
    SliceOk c e (writeRecord c e s r) := by
  intro en hen
  rw [writeRecord_log] at hen
  rw [writeRecord_content]
  rcases List.mem_append.mp hen with hold | hnew
  · obtain ⟨hb, hs⟩ := h en hold
    by_cases hf : en.file = s.cur
    · simp only [hf, if_true]
      rw [hf] at hb hs
      refine ⟨by simp; omega, ?_⟩
      rw [List.drop_append_of_le_length (by omega), List.take_append_of_le_length (by simp; omega)]
      exact hs
    · simp only [hf, if_false]; exact ⟨hb, hs⟩
  · simp only [List.mem_singleton] at hnew
    subst hnew
    have hfile : (newEntry c e s r).file = s.cur := rfl
    have hoff : (newEntry c e s r).offset = (content s s.cur).length := rfl
    simp only [hfile, if_true, hoff, newEntry_size]
    refine ⟨by simp, ?_⟩
    simp

theorem writeRecord_cdx (c : Cfg) (e : Env) (s : St) (r : Record) (h : CdxOk c e s) :
    CdxOk c e (writeRecord c e s r) := by
  unfold CdxOk at *
  rw [writeRecord_log]
  have hl : (writeRecord c e s r).cdxLines =
      if c.cdx && wantsCdx (newEntry c e s r).record then s.cdxLines ++ [lineOf c e (newEntry c e s r)] else s.cdxLines := by
    simp [writeRecord, newEntry, lineOf, fsSize_eq, fsGet_fsSet_same, content]
  rw [hl, h]
  cases hc : c.cdx <;> cases hw : wantsCdx (newEntry c e s r).record <;> simp [List.filter_append, hw]

theorem writeRecord_fresh (c : Cfg) (s : St) (e : Env) (r : Record) (hf : Fresh c s) (hc : CurOk c s) :
    Fresh c (writeRecord c e s r) := by
  intro en hen
  rw [writeRecord_log] at hen
  rcases List.mem_append.mp hen with hold | hnew
  · exact hf en hold
  · simp only [List.mem_singleton] at hnew
    subst hnew
    have hfile : (newEntry c e s r).file = s.cur := rfl
    rw [hfile, hc]
    unfold fnameOf
    cases c.maxSize <;> simp

end Wpull.Warc
namespace Wpull.Warc
open Wpull

/-! ### _start_new_warc_file, flush_session -/

theorem skipExisting_ge (fs : List (FName × Bytes)) (fuel seq : Nat) : seq ≤ skipExisting fs fuel seq := by
  induction fuel generalizing seq with
  | zero => simp [skipExisting]
  | succ n ih =>
    unfold skipExisting
    split
    · exact Nat.le_trans (Nat.le_succ _) (ih _)
    · exact Nat.le_refl _

theorem startSeq_ge (c : Cfg) (s : St) (m : Bool) : s.seq ≤ startSeq c s m := by
  unfold startSeq; split
  · exact skipExisting_ge _ _ _
  · exact Nat.le_refl _

theorem startSeq_fresh (c : Cfg) (s : St) (m : Bool) (h : c.appending = false) : startSeq c s m = s.seq := by
  simp [startSeq, h]

@[simp] theorem startPre_log (c : Cfg) (e : Env) (s : St) (m : Bool) : (startPre c e s m).log = s.log := rfl
@[simp] theorem startPre_cdx (c : Cfg) (e : Env) (s : St) (m : Bool) : (startPre c e s m).cdxLines = s.cdxLines := rfl
@[simp] theorem startPre_cur (c : Cfg) (e : Env) (s : St) (m : Bool) :
    (startPre c e s m).cur = fnameOf c m (startSeq c s m) := rfl
@[simp] theorem startPre_seq (c : Cfg) (e : Env) (s : St) (m : Bool) : (startPre c e s m).seq = startSeq c s m := rfl

theorem startPre_content (c : Cfg) (e : Env) (s : St) (m : Bool) (f : FName)
    (hf : c.appending = false → f ≠ fnameOf c m (startSeq c s m)) :
    content (startPre c e s m) f = content s f := by
  unfold content startPre
  cases ha : c.appending
  · simp [fsGet_fsSet_other _ _ _ _ (hf ha)]
  · simp

/-- `_start_new_warc_file` keeps every logged range intact, provided that (when the
file is truncated) no logged entry lives in the file it picks -/
theorem startFile_slice (c : Cfg) (e : Env) (s : St) (m : Bool) (h : SliceOk c e s)
    (hfresh : c.appending = false → ∀ en ∈ s.log, en.file ≠ fnameOf c m (startSeq c s m)) :
    SliceOk c e (startFile c e s m) := by
  apply writeRecord_slice
  intro en hen
  simp only [startPre_log] at hen
  rw [startPre_content c e s m en.file (fun ha => hfresh ha en hen)]
  exact h en hen

theorem startFile_cdx (c : Cfg) (e : Env) (s : St) (m : Bool) (h : CdxOk c e s) : CdxOk c e (startFile c e s m) := by
  apply writeRecord_cdx
  unfold CdxOk at *
  simpa using h

theorem startFile_fresh_cur (c : Cfg) (e : Env) (s : St) (hf : Fresh c s) :
    Fresh c (startFile c e s false) ∧ CurOk c (startFile c e s false) := by
  have hc : CurOk c (startPre c e s false) := by simp [CurOk]
  refine ⟨?_, ?_⟩
  · apply writeRecord_fresh _ _ _ _ _ hc
    intro en hen
    simp only [startPre_log] at hen
    obtain ⟨h1, h2, h3⟩ := hf en hen
    exact ⟨h1, fun k hk => Nat.le_trans (h2 k hk) (startSeq_ge c s false), h3⟩
  · simp [CurOk, startFile]

/-- what a file held before this life wrote to it -/
def preOf (c : Cfg) (existing : List (FName × Bytes)) (f : FName) : Bytes :=
  if c.appending then (fsGet existing f).getD [] else []

/-- the bytes of the records this life wrote to `f`, in order -/
def flatOf (c : Cfg) (e : Env) (log : List Entry) (f : FName) : Bytes :=
  ((log.filter (fun en => en.file = f)).map (encOf c e)).flatten

def ConcatW (c : Cfg) (e : Env) (existing : List (FName × Bytes)) (s : St) : Prop :=
  ∀ f, ((∃ en ∈ s.log, en.file = f) ∨ c.appending = true) →
    content s f = preOf c existing f ++ flatOf c e s.log f

def Concat (c : Cfg) (e : Env) (existing : List (FName × Bytes)) (s : St) : Prop :=
  ∀ f, ((∃ en ∈ s.log, en.file = f) ∨ c.appending = true ∨ f = s.cur) →
    content s f = preOf c existing f ++ flatOf c e s.log f

theorem Concat.weak {c e existing s} (h : Concat c e existing s) : ConcatW c e existing s := by
  intro f hf
  apply h f
  rcases hf with h1 | h2
  · exact Or.inl h1
  · exact Or.inr (Or.inl h2)

theorem writeRecord_concat (c : Cfg) (e : Env) (existing : List (FName × Bytes)) (s : St) (r : Record)
    (h : Concat c e existing s) : Concat c e existing (writeRecord c e s r) := by
  intro f hf
  rw [writeRecord_content, writeRecord_log]
  have hfile : (newEntry c e s r).file = s.cur := rfl
  by_cases hc : f = s.cur
  · subst hc
    simp only [if_true]
    rw [h s.cur (Or.inr (Or.inr rfl))]
    simp [flatOf, List.filter_append, hfile]
  · simp only [hc, if_false]
    have hcond : (∃ en ∈ s.log, en.file = f) ∨ c.appending = true ∨ f = s.cur := by
      rcases hf with ⟨en, hen, hef⟩ | h2 | h3
      · rw [writeRecord_log] at hen
        rcases List.mem_append.mp hen with ho | hn
        · exact Or.inl ⟨en, ho, hef⟩
        · simp only [List.mem_singleton] at hn; subst hn; exact absurd (hef.symm.trans hfile) hc
      · exact Or.inr (Or.inl h2)
      · exact absurd h3 hc
    rw [h f hcond]
    have : ¬ s.cur = f := fun e => hc e.symm
    simp [flatOf, List.filter_append, hfile, this]

theorem startPre_concat (c : Cfg) (e : Env) (existing : List (FName × Bytes)) (s : St) (m : Bool)
    (h : ConcatW c e existing s)
    (hfresh : c.appending = false → ∀ en ∈ s.log, en.file ≠ fnameOf c m (startSeq c s m)) :
    Concat c e existing (startPre c e s m) := by
  intro f hf
  simp only [startPre_log, startPre_cur] at hf ⊢
  cases ha : c.appending
  · -- truncating mode
    by_cases hc : f = fnameOf c m (startSeq c s m)
    · subst hc
      have hnone : s.log.filter (fun en => en.file = fnameOf c m (startSeq c s m)) = [] := by
        rw [List.filter_eq_nil_iff]; intro en hen; simpa using hfresh ha en hen
      simp [content, startPre, ha, fsGet_fsSet_same, preOf, flatOf, hnone]
    · rw [startPre_content c e s m f (fun _ => hc)]
      apply h f
      rcases hf with h1 | h2 | h3
      · exact Or.inl h1
      · simp [ha] at h2
      · exact absurd h3 hc
  · rw [startPre_content c e s m f (fun h0 => by simp [ha] at h0)]
    exact h f (Or.inr ha)

theorem startFile_concat (c : Cfg) (e : Env) (existing : List (FName × Bytes)) (s : St) (m : Bool)
    (h : ConcatW c e existing s)
    (hfresh : c.appending = false → ∀ en ∈ s.log, en.file ≠ fnameOf c m (startSeq c s m)) :
    Concat c e existing (startFile c e s m) :=
  writeRecord_concat c e existing _ _ (startPre_concat c e existing s m h hfresh)

theorem st0_concatW (c : Cfg) (e : Env) (existing : List (FName × Bytes)) : ConcatW c e existing (st0 existing) := by
  intro f hf
  rcases hf with ⟨en, hen, _⟩ | ha
  · simp [st0] at hen
  · simp [content, st0, preOf, ha, flatOf]


/-! ### every record points at the warcinfo record at the head of its file -/

def headOf (log : List Entry) (f : FName) : Option Entry := (log.filter (fun en => en.file = f)).head?

def tWarcinfo : Str := lit "warcinfo"

/-- every logged record carries the id of the first record logged for its file, and that one is a warcinfo record -/
def WOk (s : St) : Prop :=
  ∀ en ∈ s.log, ∃ w, headOf s.log en.file = some w ∧ w.record.get? kType = some tWarcinfo ∧
    en.record.get? kWarcinfoId = w.record.get? kId

/-- the current file's head is the current warcinfo record -/
def WCur (s : St) : Prop :=
  ∃ w, headOf s.log s.cur = some w ∧ w.record.get? kType = some tWarcinfo ∧ w.record.get? kId = some s.winfoId

theorem headOf_append_some (log : List Entry) (x : Entry) (f : FName) (w : Entry) (h : headOf log f = some w) :
    headOf (log ++ [x]) f = some w := by
  unfold headOf at *
  rw [List.filter_append]
  cases hl : log.filter (fun en => en.file = f) with
  | nil => rw [hl] at h; simp at h
  | cons a t => rw [hl] at h; simpa using h

theorem headOf_append_other (log : List Entry) (x : Entry) (f : FName) (h : x.file ≠ f) :
    headOf (log ++ [x]) f = headOf log f := by
  unfold headOf; rw [List.filter_append]; simp [h]

theorem headOf_append_first (log : List Entry) (x : Entry) (h : ∀ en ∈ log, en.file ≠ x.file) :
    headOf (log ++ [x]) x.file = some x := by
  unfold headOf
  rw [List.filter_append]
  have : log.filter (fun en => en.file = x.file) = [] := by
    rw [List.filter_eq_nil_iff]; intro en hen; simpa using h en hen
  simp [this]

theorem newEntry_winfo (c : Cfg) (e : Env) (s : St) (r : Record) :
    (newEntry c e s r).record.get? kWarcinfoId = some s.winfoId := by
  simp [newEntry, Record.get_set_same]

theorem writeRecord_W (c : Cfg) (e : Env) (s : St) (r : Record) (h : WOk s) (hc : WCur s) :
    WOk (writeRecord c e s r) ∧ WCur (writeRecord c e s r) := by
  obtain ⟨w, hw, hwt, hwid⟩ := hc
  have hfile : (newEntry c e s r).file = s.cur := rfl
  refine ⟨?_, ⟨w, ?_, hwt, by simpa using hwid⟩⟩
  · intro en hen
    rw [writeRecord_log] at hen ⊢
    rcases List.mem_append.mp hen with ho | hn
    · obtain ⟨w', h1, h2, h3⟩ := h en ho
      exact ⟨w', headOf_append_some _ _ _ _ h1, h2, h3⟩
    · simp only [List.mem_singleton] at hn; subst hn
      refine ⟨w, ?_, hwt, ?_⟩
      · rw [hfile]; exact headOf_append_some _ _ _ _ hw
      · rw [newEntry_winfo, hwid]
  · rw [writeRecord_log]; simp only [writeRecord_cur]; exact headOf_append_some _ _ _ _ hw

theorem warcinfoRecord_id (c : Cfg) (e : Env) (n : Nat) :
    (warcinfoRecord c e n).get? kId = some (recordIdOf (e.uuid n)) := by
  unfold warcinfoRecord computeChecksum commonFields
  simp only
  rw [Record.get_set_other _ _ _ _ (by decide), Record.get_set_other _ _ _ _ (by decide)]
  show Record.get? (Record.set _ kId _) kId = _
  rw [Record.get_set_same]

theorem warcinfoRecord_type (c : Cfg) (e : Env) (n : Nat) :
    (warcinfoRecord c e n).get? kType = some tWarcinfo := by
  unfold warcinfoRecord computeChecksum commonFields
  simp only
  rw [Record.get_set_other _ _ _ _ (by decide), Record.get_set_other _ _ _ _ (by decide)]
  show Record.get? (Record.set (Record.set (Record.set (Record.set _ kType _) kCType _) kDate _) kId _) kType = _
  rw [Record.get_set_other _ _ _ _ (by decide), Record.get_set_other _ _ _ _ (by decide),
    Record.get_set_other _ _ _ _ (by decide), Record.get_set_same]
  rfl

theorem startFile_W (c : Cfg) (e : Env) (s : St) (m : Bool) (h : WOk s)
    (hfresh : ∀ en ∈ s.log, en.file ≠ fnameOf c m (startSeq c s m)) :
    WOk (startFile c e s m) ∧ WCur (startFile c e s m) := by
  unfold startFile
  have hfile : (newEntry c e (startPre c e s m) (warcinfoRecord c e s.next)).file = fnameOf c m (startSeq c s m) := rfl
  have hhead : headOf (s.log ++ [newEntry c e (startPre c e s m) (warcinfoRecord c e s.next)])
      (fnameOf c m (startSeq c s m)) = some (newEntry c e (startPre c e s m) (warcinfoRecord c e s.next)) := by
    have := headOf_append_first s.log (newEntry c e (startPre c e s m) (warcinfoRecord c e s.next))
      (by intro en hen; rw [hfile]; exact hfresh en hen)
    rwa [hfile] at this
  have hid : (newEntry c e (startPre c e s m) (warcinfoRecord c e s.next)).record.get? kId =
      some (recordIdOf (e.uuid s.next)) := by
    show Record.get? (Record.set _ kWarcinfoId _) kId = _
    rw [Record.get_set_other _ _ _ _ (by decide), warcinfoRecord_id]
  have hty : (newEntry c e (startPre c e s m) (warcinfoRecord c e s.next)).record.get? kType = some tWarcinfo := by
    show Record.get? (Record.set _ kWarcinfoId _) kType = _
    rw [Record.get_set_other _ _ _ _ (by decide), warcinfoRecord_type]
  refine ⟨?_, ?_⟩
  · intro en hen
    rw [writeRecord_log, startPre_log] at hen ⊢
    rcases List.mem_append.mp hen with ho | hn
    · obtain ⟨w', h1, h2, h3⟩ := h en ho
      exact ⟨w', headOf_append_some _ _ _ _ h1, h2, h3⟩
    · simp only [List.mem_singleton] at hn; subst hn
      refine ⟨_, by rw [hfile]; exact hhead, hty, ?_⟩
      rw [newEntry_winfo, hid]; rfl
  · refine ⟨_, ?_, hty, ?_⟩
    · rw [writeRecord_log, startPre_log]; simp only [writeRecord_cur, startPre_cur]; exact hhead
    · rw [hid]; rfl

/-! ### the invariant -/

/-- the invariant of a recorder between `__init__` and `close()` -/
structure Inv (c : Cfg) (e : Env) (existing : List (FName × Bytes)) (s : St) : Prop where
  slice : SliceOk c e s
  cdx : CdxOk c e s
  fresh : Fresh c s
  cur : CurOk c s
  concat : Concat c e existing s
  w : WOk s
  wcur : WCur s

/-- what still holds after `close()` -/
structure Final (c : Cfg) (e : Env) (existing : List (FName × Bytes)) (s : St) : Prop where
  slice : SliceOk c e s
  cdx : CdxOk c e s
  concat : Concat c e existing s
  w : WOk s

theorem Inv.congr {c : Cfg} {e : Env} {existing : List (FName × Bytes)} {s s' : St} (h : Inv c e existing s)
    (h1 : s'.fs = s.fs) (h2 : s'.log = s.log) (h3 : s'.cur = s.cur) (h4 : s'.seq = s.seq)
    (h5 : s'.cdxLines = s.cdxLines) (h6 : s'.winfoId = s.winfoId) : Inv c e existing s' := by
  obtain ⟨a, b, f, d, g, w, wc⟩ := h
  refine ⟨?_, ?_, ?_, ?_, ?_, ?_, ?_⟩
  · intro en hen; rw [h2] at hen; simpa [content, h1] using a en hen
  · unfold CdxOk at *; rw [h5, h2]; exact b
  · intro en hen; rw [h2] at hen; rw [h4]; exact f en hen
  · unfold CurOk at *; rw [h3, h4]; exact d
  · intro x hx; rw [h2, h3] at hx; rw [h2]; simpa [content, h1] using g x hx
  · intro en hen; rw [h2] at hen ⊢; exact w en hen
  · unfold WCur at *; rw [h2, h3, h6]; exact wc

theorem writeRecord_inv (c : Cfg) (e : Env) (existing : List (FName × Bytes)) (s : St) (r : Record)
    (h : Inv c e existing s) : Inv c e existing (writeRecord c e s r) :=
  have hw := writeRecord_W c e s r h.w h.wcur
  ⟨writeRecord_slice c e s r h.slice, writeRecord_cdx c e s r h.cdx, writeRecord_fresh c s e r h.fresh h.cur,
   by have := h.cur; simpa [CurOk] using this, writeRecord_concat c e existing s r h.concat, hw.1, hw.2⟩

/-- `_start_new_warc_file(False)` from a state whose entries all lie below the new sequence number -/
theorem startFile_inv (c : Cfg) (e : Env) (existing : List (FName × Bytes)) (s : St)
    (hs : SliceOk c e s) (hc : CdxOk c e s) (hf : Fresh c s) (hcc : ConcatW c e existing s) (hw : WOk s)
    (hfresh : ∀ en ∈ s.log, en.file ≠ fnameOf c false (startSeq c s false)) :
    Inv c e existing (startFile c e s false) := by
  have h1 := startFile_fresh_cur c e _ hf
  have h2 := startFile_W c e s false hw hfresh
  exact ⟨startFile_slice c e _ false hs (fun _ => hfresh), startFile_cdx c e _ false hc, h1.1, h1.2,
    startFile_concat c e existing s false hcc (fun _ => hfresh), h2.1, h2.2⟩

theorem initSt_inv (c : Cfg) (e : Env) (existing : List (FName × Bytes)) : Inv c e existing (initSt c e existing) := by
  unfold initSt
  apply startFile_inv
  · intro en hen; simp [st0] at hen
  · simp [CdxOk, st0]
  · intro en hen; simp [st0] at hen
  · exact st0_concatW c e existing
  · intro en hen; simp [st0] at hen
  · intro en hen; simp [st0] at hen

theorem flushSession_inv (c : Cfg) (e : Env) (existing : List (FName × Bytes)) (s : St) (h : Inv c e existing s) :
    Inv c e existing (flushSession c e s) := by
  unfold flushSession
  split
  · exact h
  · rename_i m hm
    split
    · apply startFile_inv
      · exact fun en hen => h.slice en hen
      · exact h.cdx
      · intro en hen
        obtain ⟨h1, h2, h3⟩ := h.fresh en hen
        exact ⟨h1, fun k hk => Nat.le_succ_of_le (h2 k hk), h3⟩
      · exact h.concat.weak
      · exact h.w
      · intro en hen
        obtain ⟨h1, h2, h3⟩ := h.fresh en hen
        have hge := startSeq_ge c { s with seq := s.seq + 1 } false
        simp only [fnameOf, hm]
        intro heq
        have := h2 _ heq
        simp only at hge
        omega
    · exact h

theorem slotSet_inv {c : Cfg} {e : Env} {existing : List (FName × Bytes)} {s : St} (k : Nat) (x : Slot)
    (h : Inv c e existing s) : Inv c e existing (slotSet s k x) :=
  h.congr rfl rfl rfl rfl rfl rfl

theorem next_inv {c : Cfg} {e : Env} {existing : List (FName × Bytes)} {s : St} (n : Nat) (h : Inv c e existing s) :
    Inv c e existing { s with next := n } :=
  h.congr rfl rfl rfl rfl rfl rfl

theorem step_inv (c : Cfg) (e : Env) (existing : List (FName × Bytes)) (s : St) (op : Op) (h : Inv c e existing s) :
    Inv c e existing (step c e s op) := by
  cases op with
  | beginRequest k url ip => exact slotSet_inv _ _ (next_inv _ h)
  | endRequest k block off =>
    simp only [step]
    split
    · exact slotSet_inv _ _ (writeRecord_inv _ _ _ _ _ h)
    · exact h
  | beginResponse k =>
    simp only [step]
    split
    · exact slotSet_inv _ _ (next_inv _ h)
    · exact h
  | endResponse k block rev =>
    simp only [step]
    split
    · exact writeRecord_inv _ _ _ _ _ h
    · exact h
  | closeSession => exact flushSession_inv c e existing s h
  | beginControl k url ip => exact slotSet_inv _ _ (next_inv _ h)
  | beginTransfer k =>
    simp only [step]
    split
    · exact slotSet_inv _ _ (next_inv _ h)
    · exact h
  | endTransfer k block =>
    simp only [step]
    split
    · exact writeRecord_inv _ _ _ _ _ h
    · exact h
  | endControl k block =>
    simp only [step]
    split
    · exact writeRecord_inv _ _ _ _ _ h
    · exact h

theorem run_inv (c : Cfg) (e : Env) (existing : List (FName × Bytes)) (ops : List Op) (s : St)
    (h : Inv c e existing s) : Inv c e existing (run c e s ops) := by
  induction ops generalizing s with
  | nil => exact h
  | cons op t ih => exact ih _ (step_inv c e existing s op h)

theorem Inv.final {c e existing s} (h : Inv c e existing s) : Final c e existing s := ⟨h.slice, h.cdx, h.concat, h.w⟩

theorem closeRecorder_final (c : Cfg) (e : Env) (existing : List (FName × Bytes)) (s : St) (lb : Option Bytes)
    (h : Inv c e existing s) : Final c e existing (closeRecorder c e s lb) := by
  unfold closeRecorder
  cases lb with
  | none => exact h.final
  | some b =>
    simp only
    have h1 : Inv c e existing { s with next := s.next + 1 } := next_inv _ h
    split
    · rename_i hm
      have hfresh : ∀ en ∈ ({ s with next := s.next + 1 } : St).log,
          en.file ≠ fnameOf c true (startSeq c { s with next := s.next + 1 } true) := by
        intro en hen
        obtain ⟨hne, _, _⟩ := h1.fresh en hen
        cases hms : c.maxSize with
        | none => simp [hms] at hm
        | some m => simpa [fnameOf, hms] using hne
      have hW := startFile_W c e _ true h1.w hfresh
      have hw2 := writeRecord_W c e _ (setLenChk c.digests e.H { (commonFields s.next (lit "resource") (lit "text/plain")
        (e.date s.next) (e.uuid s.next)).set kUri (lit "urn:X-wpull:log") with block := b } none) hW.1 hW.2
      exact ⟨writeRecord_slice _ _ _ _ (startFile_slice c e _ true h1.slice (fun _ => hfresh)),
             writeRecord_cdx _ _ _ _ (startFile_cdx c e _ true h1.cdx),
             writeRecord_concat _ _ _ _ _ (startFile_concat c e existing _ true h1.concat.weak (fun _ => hfresh)),
             hw2.1⟩
    · exact (writeRecord_inv _ _ _ _ _ h1).final

/-- every life of a recorder ends in a `Final` state -/
theorem life_final (c : Cfg) (e : Env) (existing : List (FName × Bytes)) (ops : List Op) (lb : Option Bytes) :
    Final c e existing (life c e existing ops lb) :=
  closeRecorder_final c e existing _ lb (run_inv c e existing ops _ (initSt_inv c e existing))

end Wpull.Warc
