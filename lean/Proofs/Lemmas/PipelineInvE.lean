/- C13 helper lemmas: the run-end invariant `InvE` (what a returned `process()` leaves behind) and the second
`process()` on the same object (`restartSt`). -/
import Proofs.Lemmas.PipelineInvA
namespace Wpull.Pipeline

structure InvE (s : St) : Prop where
  e_sw : s.main = .shutWorkers true → s.live = 0
  e_wp : ∀ w, s.main = .waitProd w → s.live = 0 ∧ s.exited = 0 ∧ s.failedW = 0
  e_ret : s.main = .returned → s.live = 0 ∧ s.exited = 0 ∧ s.failedW = 0 ∧ s.pstate = .stopped ∧
    (s.prod = .finished ∨ s.prod = .cancelled)

set_option hygiene false in
macro "obtain_invE" h:ident : tactic => `(tactic| obtain ⟨e_sw, e_wp, e_ret⟩ := $h)

macro "invE_fields" : tactic =>
  `(tactic| (constructor <;> (try simp only [St.qi, St.qsize, St.live, St.wt, set_last]) <;>
      grind [notifyPC_cases, goneMC_cases, pgoneMC_cases, unpauseMC_cases]))

theorem invE_init (n : Nat) : InvE (initSt n) := by
  constructor <;> simp [initSt]

theorem invE_getw {s s' : St} (h : InvN s) (he : InvE s) (hs : stepGetw s = some s') : InvE s' := by
  obtain_inv h
  obtain_invE he
  destruct_st s
  simp only [stepGetw] at hs
  split at hs <;> try contradiction
  cases hs
  simp only [St.qi, St.qsize, St.live, St.wt] at *
  simp only [getStep, notifyProd, workerGone]
  split
  · invE_fields
  · cases hqi : qitem with
    | none => invE_fields
    | some i => invE_fields

theorem invE_midSt {s : St} {i k : Nat} (h : InvN s) (he : InvE s)
    (hrun : s.items[i]? = some (.run k)) : InvE (midSt s i k) := by
  obtain_inv h
  obtain_invE he
  destruct_st s
  simp only [St.qi, St.qsize, St.live, St.wt] at *
  have hp := countRun_pos hrun
  simp only [midSt, notifyProd]
  invE_fields

theorem invE_task {c : Cfg} {s s' : St} {i : Nat} {ok : Bool} (h : InvN s) (he : InvE s)
    (hs : stepTask c s i ok = some s') : InvE s' := by
  simp only [stepTask] at hs
  split at hs
  · rename_i k hrun
    split at hs
    · split at hs
      · cases hs
        obtain_inv h
        obtain_invE he
        destruct_st s
        simp only [St.qi, St.qsize, St.live, St.wt] at *
        have hp := countRun_pos hrun
        invE_fields
      · apply invE_getw (invN_midSt h hrun) (invE_midSt h he hrun)
        cases hs
        simp [stepGetw, notifyProd, midSt]
    · cases hs
      obtain_inv h
      obtain_invE he
      destruct_st s
      simp only [St.qi, St.qsize, St.live, St.wt] at *
      have hp := countRun_pos hrun
      simp only [workerGone]
      invE_fields
  · contradiction

theorem invE_stop {c : Cfg} (hfx : c.fx = Fix.all) {s s' : St} (h : InvN s) (he : InvE s)
    (hs : step c s .stop = some s') : InvE s' := by
  simp only [step] at hs
  split at hs
  · contradiction
  · cases hs
    obtain_inv h
    obtain_invE he
    destruct_st s
    simp only [St.qi, St.qsize, St.live, St.wt] at *
    simp only [doStop, hfx, Fix.all, putPills, wakeGetters, setUnpaused, St.live, St.wt, if_true]
    split
    · invE_fields
    · invE_fields

theorem invE_setConc {c : Cfg} {s s' : St} {n : Nat} (h : InvN s) (he : InvE s)
    (hs : step c s (.setConc n) = some s') : InvE s' := by
  simp only [step] at hs
  split at hs
  · contradiction
  · cases hs
    obtain_inv h
    obtain_invE he
    destruct_st s
    simp only [St.qi, St.qsize, St.live, St.wt] at *
    simp only [doSetConc, putPills, wakeGetters, setUnpaused]
    repeat' split
    all_goals invE_fields

set_option maxHeartbeats 4000000 in
theorem invE_prod {c : Cfg} (hfx : c.fx = Fix.all) {s s' : St} (h : InvN s) (he : InvE s)
    (hs : stepProd c s = some s') : InvE s' := by
  obtain_inv h
  obtain_invE he
  destruct_st s
  simp only [St.qi, St.qsize, St.live, St.wt] at *
  simp only [stepProd, prodLoop, prodFinish, putNow, doStop, hfx, Fix.all, putPills, wakeGetters, setUnpaused,
    prodGone, St.qsize, St.qi, St.live, St.wt, if_true, Bool.true_and] at hs
  repeat' split at hs
  all_goals first
    | contradiction
    | (cases hs; invE_fields)

set_option maxHeartbeats 4000000 in
theorem invE_main {c : Cfg} (hfx : c.fx = Fix.all) {s s' : St} (h : InvN s) (he : InvE s)
    (hs : stepMain c s = some s') : InvE s' := by
  obtain_inv h
  obtain_invE he
  destruct_st s
  simp only [St.qi, St.qsize, St.live, St.wt] at *
  simp only [stepMain, mainLoop, shutdown, shutProd, awaitProd, hfx, Fix.all, St.qsize, St.qi, St.live, St.wt,
    if_true, Bool.true_and] at hs
  repeat' split at hs
  all_goals first
    | contradiction
    | (cases hs; invE_fields)

theorem invE_step {c : Cfg} (hfx : c.fx = Fix.all) {s s' : St} {a : Act} (h : InvN s) (he : InvE s)
    (hs : step c s a = some s') : InvE s' := by
  cases a with
  | prod => exact invE_prod hfx h he hs
  | main => exact invE_main hfx h he hs
  | getw => exact invE_getw h he hs
  | task i ok => exact invE_task h he hs
  | stop => exact invE_stop hfx h he hs
  | setConc n => exact invE_setConc h he hs

/-! ### the second `process()` -/

theorem inv_restart {c : Cfg} (hfx : c.fx = Fix.all) {s : St} (k : Nat) (h : InvN s) (he : InvE s)
    (hret : s.main = .returned) : InvN (restartSt c k s) ∧ InvE (restartSt c k s) := by
  obtain_inv h
  obtain_invE he
  destruct_st s
  simp only at hret
  subst hret
  simp only [St.qi, St.qsize, St.live, St.wt] at *
  simp only [restartSt, mainLoop, shutdown, shutProd, awaitProd, hfx, Fix.all, St.qsize, St.qi, St.live, St.wt,
    if_true, Bool.true_and]
  repeat' split
  all_goals (constructor <;> first | inv_fields | invE_fields)

end Wpull.Pipeline
