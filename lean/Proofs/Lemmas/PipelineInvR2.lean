/- C13 helper lemmas: `InvR` is preserved by producer steps and by `Pipeline.process()` steps. -/
import Proofs.Lemmas.PipelineInvR
namespace Wpull.Pipeline

set_option maxHeartbeats 4000000 in
theorem invR_prod_putWait {c : Cfg} (hfx : c.fx = Fix.all) {s s' : St} (h : InvN s) (hr : InvR c s)
    (hp : s.prod = .putWait true) (hs : stepProd c s = some s') : InvR c s' := by
  obtain_inv h
  obtain_invR hr
  destruct_st s
  simp only at hp
  subst hp
  simp only [St.qi, St.qsize, St.live, St.wt] at *
  have hc1 := cnt_set (f := isU) (q := .queued) (h22 true rfl)
  have hc2 := cnt_set (f := isH) (q := .queued) (h22 true rfl)
  simp only [isU, isH] at hc1 hc2
  simp only [stepProd, prodLoop, prodFinish, putNow, doStop, hfx, Fix.all, putPills, wakeGetters, setUnpaused,
    prodGone, St.qsize, St.qi, St.live, St.wt, if_true, Bool.true_and] at hs
  repeat' split at hs
  all_goals first
    | contradiction
    | (cases hs; invR_fields)

set_option maxHeartbeats 8000000 in
theorem invR_prod_other {c : Cfg} (hfx : c.fx = Fix.all) {s s' : St} (h : InvN s) (hr : InvR c s)
    (hp : s.prod ≠ .putWait true) (hs : stepProd c s = some s') : InvR c s' := by
  obtain_inv h
  obtain_invR hr
  destruct_st s
  simp only [St.qi, St.qsize, St.live, St.wt] at *
  simp only [stepProd, prodLoop, prodFinish, putNow, doStop, hfx, Fix.all, putPills, wakeGetters, setUnpaused,
    prodGone, St.qsize, St.qi, St.live, St.wt, if_true, Bool.true_and] at hs
  repeat' split at hs
  all_goals first
    | contradiction
    | (cases hs; invR_fields)

theorem invR_prod {c : Cfg} (hfx : c.fx = Fix.all) {s s' : St} (h : InvN s) (hr : InvR c s)
    (hs : stepProd c s = some s') : InvR c s' := by
  by_cases hp : s.prod = .putWait true
  · exact invR_prod_putWait hfx h hr hp hs
  · exact invR_prod_other hfx h hr hp hs

set_option maxHeartbeats 8000000 in
theorem invR_main {c : Cfg} (hfx : c.fx = Fix.all) {s s' : St} (h : InvN s) (hr : InvR c s)
    (hs : stepMain c s = some s') : InvR c s' := by
  obtain_inv h
  obtain_invR hr
  destruct_st s
  simp only [St.qi, St.qsize, St.live, St.wt] at *
  simp only [stepMain, mainLoop, shutdown, shutProd, awaitProd, hfx, Fix.all, St.qsize, St.qi, St.live, St.wt,
    if_true, Bool.true_and] at hs
  repeat' split at hs
  all_goals first
    | contradiction
    | (cases hs; invR_fields)

theorem invR_step {c : Cfg} (hfx : c.fx = Fix.all) {s s' : St} {a : Act} (h : InvN s) (hr : InvR c s)
    (hs : step c s a = some s') : InvR c s' := by
  cases a with
  | prod => exact invR_prod hfx h hr hs
  | main => exact invR_main hfx h hr hs
  | getw => exact invR_getw h hr hs
  | task i ok => exact invR_task h hr hs
  | stop => exact invR_stop hfx h hr hs
  | setConc n => exact invR_setConc h hr hs

end Wpull.Pipeline
