/- C13 helper lemmas: `InvN` is preserved by worker steps, `stop()` and the concurrency setter. -/
import Proofs.Lemmas.PipelineBase
namespace Wpull.Pipeline

theorem invN_getw {s s' : St} (h : InvN s) (hs : stepGetw s = some s') : InvN s' := by
  obtain ⟨h1,h2,h3,h4,h5,h6,h7,h8,h9,h10,h11,h12,h13,h14,h15,h16,h17,h18,h19,h20,h21,h22⟩ := h
  destruct_st s
  simp only [stepGetw] at hs
  split at hs <;> try contradiction
  cases hs
  simp only [St.qi, St.qsize, St.live, St.wt] at *
  simp only [getStep, notifyProd, workerGone]
  split
  · inv_fields
  · cases hqi : qitem with
    | none => inv_fields
    | some i =>
      have hc := countRun_set (q := .run 0) (h21 i hqi)
      simp only [isRun] at hc
      inv_fields



/-- the state in the middle of a worker's last-task step: `item_done()` is through, the worker is about to call `get()` -/
def midSt (s : St) (i k : Nat) : St :=
  notifyProd { s with items := s.items.set i .done, busy := s.busy - 1, unfinished := s.unfinished - 1,
                      idleReady := s.idleReady + 1, log := s.log ++ [Ev.mk k i true] }

theorem invN_midSt {s : St} {i k : Nat} (h : InvN s) (hrun : s.items[i]? = some (.run k)) :
    InvN (midSt s i k) := by
  obtain_inv h
  destruct_st s
  simp only [St.qi, St.qsize, St.live, St.wt] at *
  have hc := countRun_set (q := .done) hrun
  have hp := countRun_pos hrun
  simp only [isRun] at hc
  simp only [midSt, notifyProd]
  inv_fields

theorem invN_task {c : Cfg} {s s' : St} {i : Nat} {ok : Bool} (h : InvN s)
    (hs : stepTask c s i ok = some s') : InvN s' := by
  simp only [stepTask] at hs
  split at hs
  · rename_i k hrun
    split at hs
    · split at hs
      · -- next task of the same item
        cases hs
        obtain_inv h
        destruct_st s
        simp only [St.qi, St.qsize, St.live, St.wt] at *
        have hc := countRun_set (q := .run (k + 1)) hrun
        simp only [isRun] at hc
        inv_fields
      · -- last task: item_done, then get()
        have hmid : InvN (midSt s i k) := invN_midSt h hrun
        apply invN_getw hmid
        cases hs
        simp [stepGetw, notifyProd, midSt]
    · cases hs
      obtain_inv h
      destruct_st s
      simp only [St.qi, St.qsize, St.live, St.wt] at *
      have hc := countRun_set (q := .failed k) hrun
      have hp := countRun_pos hrun
      simp only [isRun] at hc
      simp only [workerGone]
      inv_fields
  · contradiction


theorem invN_stop {c : Cfg} (hfx : c.fx = Fix.all) {s s' : St} (h : InvN s)
    (hs : step c s .stop = some s') : InvN s' := by
  simp only [step] at hs
  split at hs
  · contradiction
  · cases hs
    obtain_inv h
    destruct_st s
    simp only [St.qi, St.qsize, St.live, St.wt] at *
    simp only [doStop, hfx, Fix.all, putPills, wakeGetters, setUnpaused, St.live, St.wt, if_true]
    split
    · inv_fields
    · inv_fields

theorem invN_setConc {c : Cfg} {s s' : St} {n : Nat} (h : InvN s)
    (hs : step c s (.setConc n) = some s') : InvN s' := by
  simp only [step] at hs
  split at hs
  · contradiction
  · cases hs
    obtain_inv h
    destruct_st s
    simp only [St.qi, St.qsize, St.live, St.wt] at *
    simp only [doSetConc, putPills, wakeGetters, setUnpaused]
    repeat' split
    all_goals inv_fields



end Wpull.Pipeline
