/- C13 helper lemmas: `InvN` is preserved by the steps of `Pipeline.process()`. -/
import Proofs.Lemmas.PipelineBase
namespace Wpull.Pipeline

set_option maxHeartbeats 4000000 in
theorem invN_main {c : Cfg} (hfx : c.fx = Fix.all) {s s' : St} (h : InvN s)
    (hs : stepMain c s = some s') : InvN s' := by
  obtain_inv h
  destruct_st s
  simp only [St.qi, St.qsize, St.live, St.wt] at *
  simp only [stepMain, mainLoop, shutdown, shutProd, awaitProd, hfx, Fix.all, St.qsize, St.qi, St.live, St.wt,
    if_true, Bool.true_and] at hs
  repeat' split at hs
  all_goals first
    | contradiction
    | (cases hs; inv_fields)

end Wpull.Pipeline
