/- C13 helper lemmas: `InvN` is preserved by producer steps. -/
import Proofs.Lemmas.PipelineBase
namespace Wpull.Pipeline

theorem invN_prod_putWait {c : Cfg} (hfx : c.fx = Fix.all) {s s' : St} (h : InvN s)
    (hp : s.prod = .putWait true) (hs : stepProd c s = some s') : InvN s' := by
  obtain_inv h
  destruct_st s
  simp only at hp
  subst hp
  simp only [St.qi, St.qsize, St.live, St.wt] at *
  have hc := countRun_set (q := .queued) (h22 true rfl)
  simp only [isRun] at hc
  simp only [stepProd, prodLoop, prodFinish, putNow, doStop, hfx, Fix.all, putPills, wakeGetters, setUnpaused,
    prodGone, St.qsize, St.qi, St.live, St.wt, if_true, Bool.true_and] at hs
  repeat' split at hs
  all_goals first
    | contradiction
    | (cases hs; inv_fields)

set_option maxHeartbeats 4000000 in
theorem invN_prod_other {c : Cfg} (hfx : c.fx = Fix.all) {s s' : St} (h : InvN s)
    (hp : s.prod ≠ .putWait true) (hs : stepProd c s = some s') : InvN s' := by
  obtain_inv h
  destruct_st s
  simp only [St.qi, St.qsize, St.live, St.wt] at *
  simp only [stepProd, prodLoop, prodFinish, putNow, doStop, hfx, Fix.all, putPills, wakeGetters, setUnpaused,
    prodGone, St.qsize, St.qi, St.live, St.wt, if_true, Bool.true_and] at hs
  repeat' split at hs
  all_goals first
    | contradiction
    | (cases hs; inv_fields)

theorem invN_prod {c : Cfg} (hfx : c.fx = Fix.all) {s s' : St} (h : InvN s)
    (hs : stepProd c s = some s') : InvN s' := by
  by_cases hp : s.prod = .putWait true
  · exact invN_prod_putWait hfx h hp hs
  · exact invN_prod_other hfx h hp hs

end Wpull.Pipeline
