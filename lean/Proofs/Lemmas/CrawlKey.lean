/-
Third invariant of the crawl system: the *record* of a row (URL, depth, requisite
depth) never changes once it is stored, every handed-out row carries the record
its table row has, and every stored row has a provenance: a start URL, or a link
offered by the visit of a handed-out row.  Helper file for the record-level
completeness theorem (`Proofs/C01.lean`, `closure_of_stored_records`).
-/
import Proofs.Lemmas.CrawlInvB
namespace Wpull.Crawl

/-- same record: URL, depth and requisite depth (status and try count may differ) -/
def keyEq (a b : Row) : Prop := a.url = b.url ∧ a.level = b.level ∧ a.inline = b.inline

theorem keyEq.refl (a : Row) : keyEq a a := ⟨rfl, rfl, rfl⟩
theorem keyEq.symm {a b : Row} (h : keyEq a b) : keyEq b a := ⟨h.1.symm, h.2.1.symm, h.2.2.symm⟩
theorem keyEq.trans {a b d : Row} (h : keyEq a b) (h' : keyEq b d) : keyEq a d :=
  ⟨h.1.trans h'.1, h.2.1.trans h'.2.1, h.2.2.trans h'.2.2⟩

theorem keyEq_childRow {p o : Row} (h : keyEq p o) (k : Child) : keyEq (childRow p k) (childRow o k) := by
  refine ⟨rfl, ?_, ?_⟩
  · simp [childRow, h.2.1]
  · simp [childRow, h.2.2]

structure InvC (c : Cfg) (starts : List Url) (s : St) : Prop where
  outKey : ∀ o ∈ s.outs, ∃ r ∈ s.table, keyEq r o
  prov : ∀ x ∈ s.table, (x.url ∈ starts ∧ x.level = 0 ∧ x.inline = none) ∨
    ∃ o ∈ s.outs, ∃ k ∈ (c.visit o).children, keyEq x (childRow o k)

variable {c : Cfg} {conc : Nat} {starts : List Url} {s s' : St}

/-- `setStatus` keeps every record: each new row has the record of an old one ... -/
theorem setStatus_key (t : List Row) (u : Url) (st : Status) (i : Bool) (r : Row)
    (h : r ∈ setStatus t u st i) : ∃ r0 ∈ t, keyEq r r0 := by
  rcases setStatus_mem t u st i r h with ⟨h, _⟩ | ⟨r0, h0, _, e⟩
  · exact ⟨r, h, keyEq.refl r⟩
  · subst e; exact ⟨r0, h0, ⟨rfl, rfl, rfl⟩⟩

/-- ... and each old row has a new row with its record -/
theorem setStatus_key' (t : List Row) (u : Url) (st : Status) (i : Bool) (r0 : Row)
    (h : r0 ∈ t) : ∃ r ∈ setStatus t u st i, keyEq r r0 := by
  by_cases hu : r0.url = u
  · exact ⟨_, setStatus_mem_self t u st i r0 h hu, ⟨rfl, rfl, rfl⟩⟩
  · exact ⟨r0, setStatus_mem_other t u st i r0 h hu, keyEq.refl r0⟩

theorem release_key (t : List Row) (r : Row) (h : r ∈ release t) : ∃ r0 ∈ t, keyEq r r0 := by
  rcases release_mem t r h with ⟨h, _⟩ | ⟨r0, h0, _, e⟩
  · exact ⟨r, h, keyEq.refl r⟩
  · subst e; exact ⟨r0, h0, ⟨rfl, rfl, rfl⟩⟩

theorem release_key' (t : List Row) (r0 : Row) (h : r0 ∈ t) : ∃ r ∈ release t, keyEq r r0 := by
  refine ⟨_, mem_release_of t r0 h, ?_⟩
  split <;> exact ⟨rfl, rfl, rfl⟩

theorem invC_init (c : Cfg) (starts : List Url) : InvC c starts (init starts) where
  outKey := by intro o h; cases h
  prov := by
    intro x hx
    left
    rcases addMany_mem [] _ x hx with h | h
    · cases h
    · obtain ⟨u, hu, e⟩ := List.mem_map.mp h.1
      subst e; exact ⟨hu, rfl, rfl⟩

theorem invC_step (hb : InvB c starts s) (hi : InvC c starts s) {e : Ev}
    (h : step c conc starts s e = some s') : InvC c starts s' := by
  cases e with
  | checkOut =>
    obtain ⟨r, _, _, hr, rfl⟩ := step_checkOut h
    have hrm := nextRow_some hr
    refine ⟨?_, ?_⟩
    · intro o ho
      rcases List.mem_append.mp ho with ho | ho
      · obtain ⟨r0, h0, hk⟩ := hi.outKey o ho
        obtain ⟨r1, h1, hk1⟩ := setStatus_key' s.table r.url .inProgress false r0 h0
        exact ⟨r1, h1, hk1.trans hk⟩
      · simp only [List.mem_singleton] at ho; subst ho
        obtain ⟨r1, h1, hk1⟩ := setStatus_key' s.table r.url .inProgress false r hrm.1
        exact ⟨r1, h1, hk1.trans ⟨rfl, rfl, rfl⟩⟩
    · intro x hx
      obtain ⟨x0, h0, hk⟩ := setStatus_key _ _ _ _ x hx
      rcases hi.prov x0 h0 with hp | ⟨o, ho, k, hkk, hk'⟩
      · left; exact ⟨hk.1 ▸ hp.1, hk.2.1 ▸ hp.2.1, hk.2.2 ▸ hp.2.2⟩
      · right; exact ⟨o, List.mem_append_left _ ho, k, hkk, hk.trans hk'⟩
  | request u =>
    obtain ⟨_, _, _, _, _, rfl⟩ := step_request h
    exact ⟨hi.outKey, hi.prov⟩
  | flush u =>
    obtain ⟨r, _, hf, rfl⟩ := step_flush h
    have hf' := findItem_some hf
    have hro : r ∈ s.outs := hb.itemOut _ hf'.1
    refine ⟨?_, ?_⟩
    · intro o ho
      obtain ⟨r0, h0, hk⟩ := hi.outKey o ho
      exact ⟨r0, addMany_old _ _ r0 h0, hk⟩
    · intro x hx
      rcases addMany_mem _ _ x hx with hx | hx
      · exact hi.prov x hx
      · obtain ⟨k, hk, e⟩ := List.mem_map.mp hx.1
        subst e
        right; exact ⟨r, hro, k, hk, keyEq.refl _⟩
  | checkIn u =>
    obtain ⟨r, _, _, rfl⟩ := step_checkIn h
    refine ⟨?_, ?_⟩
    · intro o ho
      obtain ⟨r0, h0, hk⟩ := hi.outKey o ho
      obtain ⟨r1, h1, hk1⟩ := setStatus_key' s.table u (c.visit r).status true r0 h0
      exact ⟨r1, h1, hk1.trans hk⟩
    · intro x hx
      obtain ⟨x0, h0, hk⟩ := setStatus_key _ _ _ _ x hx
      rcases hi.prov x0 h0 with hp | ⟨o, ho, k, hkk, hk'⟩
      · left; exact ⟨hk.1 ▸ hp.1, hk.2.1 ▸ hp.2.1, hk.2.2 ▸ hp.2.2⟩
      · right; exact ⟨o, ho, k, hkk, hk.trans hk'⟩
  | crash =>
    obtain ⟨_, rfl⟩ := step_crash h
    exact ⟨hi.outKey, hi.prov⟩
  | restart =>
    obtain ⟨_, rfl⟩ := step_restart h
    refine ⟨?_, ?_⟩
    · intro o ho
      obtain ⟨r0, h0, hk⟩ := hi.outKey o ho
      obtain ⟨r1, h1, hk1⟩ := release_key' s.table r0 h0
      exact ⟨r1, addMany_old _ _ r1 h1, hk1.trans hk⟩
    · intro x hx
      rcases addMany_mem _ _ x hx with hx | hx
      · obtain ⟨x0, h0, hk⟩ := release_key _ x hx
        rcases hi.prov x0 h0 with hp | ⟨o, ho, k, hkk, hk'⟩
        · left; exact ⟨hk.1 ▸ hp.1, hk.2.1 ▸ hp.2.1, hk.2.2 ▸ hp.2.2⟩
        · right; exact ⟨o, ho, k, hkk, hk.trans hk'⟩
      · obtain ⟨w, hw', e⟩ := List.mem_map.mp hx.1
        subst e; left; exact ⟨hw', rfl, rfl⟩

theorem reach_invC (hw : c.WF) {k : Bool} (h : Reach c conc starts k s) : InvC c starts s := by
  induction h with
  | init => exact invC_init c starts
  | step hr _ hs ih => exact invC_step (reach_invB hw hr) ih hs

end Wpull.Crawl
