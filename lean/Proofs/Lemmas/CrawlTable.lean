/-
Lemmas about the table operations of `Wpull.Crawl` (insert-or-ignore, status
writes, release).  Helper file: no property statements here.
-/
import Wpull.Crawl
namespace Wpull.Crawl

def urls (t : List Row) : List Url := t.map (·.url)

@[simp] theorem urls_nil : urls [] = [] := rfl
@[simp] theorem urls_append (a b : List Row) : urls (a ++ b) = urls a ++ urls b := by simp [urls]
@[simp] theorem urls_cons (r : Row) (t : List Row) : urls (r :: t) = r.url :: urls t := rfl

theorem mem_urls {t : List Row} {u : Url} : u ∈ urls t ↔ ∃ r ∈ t, r.url = u := by
  simp [urls]

theorem hasUrl_iff (t : List Row) (u : Url) : hasUrl t u = true ↔ u ∈ urls t := by
  simp [hasUrl, urls]

theorem hasUrl_false_iff (t : List Row) (u : Url) : hasUrl t u = false ↔ u ∉ urls t := by
  rw [← hasUrl_iff]; simp

/-! ### addMany -/

/-- `addMany` only appends; what it appends are batch rows whose URLs were absent;
the result has every batch URL; no duplicates are introduced. -/
theorem addMany_spec (t b : List Row) :
    ∃ l, (addMany t b).1 = t ++ l ∧ (∀ r ∈ l, r ∈ b ∧ r.url ∉ urls t) ∧
      (∀ r ∈ b, r.url ∈ urls (t ++ l)) ∧ ((urls t).Nodup → (urls (t ++ l)).Nodup) ∧
      (addMany t b).2 = urls l := by
  induction b generalizing t with
  | nil => exact ⟨[], by simp [addMany], by simp, by simp, by simp, by simp [addMany]⟩
  | cons r rest ih =>
    unfold addMany
    by_cases h : hasUrl t r.url = true
    · simp only [h, if_true]
      obtain ⟨l, h1, h2, h3, h4, h5⟩ := ih t
      refine ⟨l, h1, ?_, ?_, h4, h5⟩
      · intro x hx; exact ⟨List.mem_cons_of_mem _ (h2 x hx).1, (h2 x hx).2⟩
      · intro x hx
        rcases List.mem_cons.mp hx with rfl | hx
        · have := (hasUrl_iff t x.url).mp h
          simp only [urls_append, List.mem_append]; exact Or.inl this
        · exact h3 x hx
    · have hf : hasUrl t r.url = false := by simpa using h
      simp only [hf]
      obtain ⟨l, h1, h2, h3, h4, h5⟩ := ih (t ++ [r])
      have hr : r.url ∉ urls t := (hasUrl_false_iff t r.url).mp hf
      refine ⟨r :: l, by simp [h1], ?_, ?_, ?_, by simp [h5]⟩
      · intro x hx
        rcases List.mem_cons.mp hx with rfl | hx
        · exact ⟨List.mem_cons_self, hr⟩
        · have := h2 x hx
          refine ⟨List.mem_cons_of_mem _ this.1, ?_⟩
          intro hc; apply this.2; simp only [urls_append, List.mem_append]; exact Or.inl hc
      · intro x hx
        rcases List.mem_cons.mp hx with rfl | hx
        · simp [urls]
        · have := h3 x hx
          simpa [List.append_assoc] using this
      · intro hn
        have : (urls (t ++ [r])).Nodup := by
          simp only [urls_append, urls_cons, urls_nil]
          rw [List.nodup_append]
          refine ⟨hn, by simp, ?_⟩
          intro a ha b hb
          simp at hb; subst hb
          intro e; subst e; exact hr ha
        simpa [List.append_assoc] using h4 this

theorem addMany_mem (t b : List Row) (r : Row) (h : r ∈ (addMany t b).1) : r ∈ t ∨ (r ∈ b ∧ r.url ∉ urls t) := by
  obtain ⟨l, h1, h2, _, _, _⟩ := addMany_spec t b
  rw [h1] at h
  rcases List.mem_append.mp h with h | h
  · exact Or.inl h
  · exact Or.inr (h2 r h)

theorem addMany_old (t b : List Row) (r : Row) (h : r ∈ t) : r ∈ (addMany t b).1 := by
  obtain ⟨l, h1, _, _, _, _⟩ := addMany_spec t b
  rw [h1]; exact List.mem_append_left _ h

theorem addMany_urls_old (t b : List Row) (u : Url) (h : u ∈ urls t) : u ∈ urls (addMany t b).1 := by
  obtain ⟨r, hr, e⟩ := mem_urls.mp h
  exact mem_urls.mpr ⟨r, addMany_old t b r hr, e⟩

theorem addMany_has (t b : List Row) (r : Row) (h : r ∈ b) : r.url ∈ urls (addMany t b).1 := by
  obtain ⟨l, h1, _, h3, _, _⟩ := addMany_spec t b
  rw [h1]; exact h3 r h

theorem addMany_nodup (t b : List Row) (h : (urls t).Nodup) : (urls (addMany t b).1).Nodup := by
  obtain ⟨l, h1, _, _, h4, _⟩ := addMany_spec t b
  rw [h1]; exact h4 h

/-! ### setStatus / release -/

@[simp] theorem setStatus_urls (t : List Row) (u : Url) (s : Status) (i : Bool) :
    urls (setStatus t u s i) = urls t := by
  simp only [setStatus, urls, List.map_map]
  apply List.map_congr_left
  intro r _; simp only [Function.comp]; split <;> rfl

theorem setStatus_mem (t : List Row) (u : Url) (s : Status) (i : Bool) (r : Row)
    (h : r ∈ setStatus t u s i) :
    (r ∈ t ∧ r.url ≠ u) ∨ (∃ r0 ∈ t, r0.url = u ∧ r = { r0 with status := s, tries := if i then r0.tries + 1 else r0.tries }) := by
  simp only [setStatus, List.mem_map] at h
  obtain ⟨r0, h0, e⟩ := h
  by_cases hu : r0.url = u
  · right; refine ⟨r0, h0, hu, ?_⟩
    have hb : (r0.url == u) = true := by simpa using hu
    simp only [hb, if_true] at e; exact e.symm
  · left; have : (r0.url == u) = false := by simpa using hu
    simp [this] at e; subst e; exact ⟨h0, hu⟩

theorem setStatus_mem_other (t : List Row) (u : Url) (s : Status) (i : Bool) (r : Row)
    (h : r ∈ t) (hu : r.url ≠ u) : r ∈ setStatus t u s i := by
  simp only [setStatus, List.mem_map]
  refine ⟨r, h, ?_⟩
  have : (r.url == u) = false := by simpa using hu
  simp [this]

theorem setStatus_mem_self (t : List Row) (u : Url) (s : Status) (i : Bool) (r : Row)
    (h : r ∈ t) (hu : r.url = u) :
    { r with status := s, tries := if i then r.tries + 1 else r.tries } ∈ setStatus t u s i := by
  simp only [setStatus, List.mem_map]
  exact ⟨r, h, by simp [hu]⟩

@[simp] theorem release_urls (t : List Row) : urls (release t) = urls t := by
  simp only [release, urls, List.map_map]
  apply List.map_congr_left
  intro r _; simp only [Function.comp]; split <;> rfl

theorem release_mem (t : List Row) (r : Row) (h : r ∈ release t) :
    (r ∈ t ∧ r.status ≠ .inProgress) ∨ (∃ r0 ∈ t, r0.status = .inProgress ∧ r = { r0 with status := .todo }) := by
  simp only [release, List.mem_map] at h
  obtain ⟨r0, h0, e⟩ := h
  by_cases hs : r0.status = .inProgress
  · right; exact ⟨r0, h0, hs, by simp [hs] at e; exact e.symm⟩
  · left; have : (r0.status == Status.inProgress) = false := by simpa using hs
    simp [this] at e; subst e; exact ⟨h0, hs⟩

theorem release_no_inProgress (t : List Row) (r : Row) (h : r ∈ release t) : r.status ≠ .inProgress := by
  rcases release_mem t r h with h | ⟨r0, _, _, e⟩
  · exact h.2
  · subst e; simp

/-! ### nextRow -/

theorem firstWith_some {t : List Row} {s : Status} {r : Row} (h : firstWith t s = some r) :
    r ∈ t ∧ r.status = s := by
  unfold firstWith at h
  have := List.find?_some h
  exact ⟨List.mem_of_find?_eq_some h, by simpa using this⟩

theorem firstWith_none {t : List Row} {s : Status} (h : firstWith t s = none) :
    ∀ r ∈ t, r.status ≠ s := by
  unfold firstWith at h
  intro r hr
  have := List.find?_eq_none.mp h r hr
  simpa using this

theorem nextRow_some {t : List Row} {r : Row} (h : nextRow t = some r) :
    r ∈ t ∧ (r.status = .todo ∨ r.status = .error) := by
  unfold nextRow at h
  split at h
  · rename_i r' hr'; cases h; have := firstWith_some hr'; exact ⟨this.1, Or.inl this.2⟩
  · have := firstWith_some h; exact ⟨this.1, Or.inr this.2⟩

theorem nextRow_none {t : List Row} (h : nextRow t = none) :
    ∀ r ∈ t, r.status ≠ .todo ∧ r.status ≠ .error := by
  unfold nextRow at h
  split at h
  · cases h
  · rename_i hn
    intro r hr; exact ⟨firstWith_none hn r hr, firstWith_none h r hr⟩

end Wpull.Crawl
