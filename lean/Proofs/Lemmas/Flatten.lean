import Wpull.Url
namespace Wpull.Url
open Wpull

/-! ### `splitC` -/

theorem splitC_ne_nil (c : Nat) (s : Str) : splitC c s ≠ [] := by
  cases s with
  | nil => simp [splitC]
  | cons x t =>
    unfold splitC
    split
    · simp
    · split <;> simp

theorem splitC_free (c : Nat) (s : Str) : ∀ a ∈ splitC c s, c ∉ a := by
  induction s with
  | nil => simp [splitC]
  | cons x t ih =>
    intro a ha
    unfold splitC at ha
    split at ha
    · rcases List.mem_cons.1 ha with h | h
      · simp [h]
      · exact ih a h
    · rename_i hx
      split at ha
      · rename_i h r heq
        rw [heq] at ih
        rcases List.mem_cons.1 ha with h' | h'
        · subst h'
          have := ih h (by simp)
          simp at hx
          simp [this]
          exact fun e => hx e.symm
        · exact ih a (by simp [h'])
      · simp at ha
        subst ha
        simp at hx
        simp
        exact fun e => hx e.symm

theorem splitC_of_free (c : Nat) (a : Str) (h : c ∉ a) : splitC c a = [a] := by
  induction a with
  | nil => simp [splitC]
  | cons x t ih =>
    simp at h
    have hx : (x == c) = false := by simp; exact fun e => h.1 e.symm
    simp [splitC, hx, ih h.2]

theorem splitC_append (c : Nat) (a rest : Str) (h : c ∉ a) :
    splitC c (a ++ c :: rest) = a :: splitC c rest := by
  induction a with
  | nil => simp [splitC]
  | cons x t ih =>
    simp at h
    have hx : (x == c) = false := by simp; exact fun e => h.1 e.symm
    simp [splitC, hx, ih h.2]

theorem joinWith_cons_cons (sep a b : Str) (r : List Str) :
    joinWith sep (a :: b :: r) = a ++ sep ++ joinWith sep (b :: r) := by
  simp [joinWith]

theorem splitC_join (c : Nat) (segs : List Str) (hne : segs ≠ []) (hf : ∀ s ∈ segs, c ∉ s) :
    splitC c (joinWith [c] segs) = segs := by
  induction segs with
  | nil => exact absurd rfl hne
  | cons a rest ih =>
    cases rest with
    | nil => simpa [joinWith] using splitC_of_free c a (hf a (by simp))
    | cons b r =>
      rw [joinWith_cons_cons]
      have : a ++ [c] ++ joinWith [c] (b :: r) = a ++ c :: joinWith [c] (b :: r) := by simp
      rw [this, splitC_append c a _ (hf a (by simp))]
      rw [ih (by simp) (fun s hs => hf s (by simp [hs]))]

/-! ### `flattenParts` -/

/-- a segment that survives the loop -/
def GoodSeg (s : Str) : Prop := 47 ∉ s ∧ s ≠ [] ∧ s ≠ [46] ∧ s ≠ [46, 46]

theorem flattenParts_good (parts acc : List Str)
    (hacc : ∀ s ∈ acc, GoodSeg s) (hp : ∀ s ∈ parts, 47 ∉ s) :
    ∀ s ∈ flattenParts true parts acc, GoodSeg s := by
  induction parts generalizing acc with
  | nil => simpa [flattenParts] using hacc
  | cons p ps ih =>
    have hps : ∀ s ∈ ps, 47 ∉ s := fun s hs => hp s (by simp [hs])
    unfold flattenParts
    split
    · exact ih acc hacc hps
    · rename_i h1
      split
      · rename_i h2
        apply ih _ _ hps
        intro s hs
        rcases List.mem_cons.1 hs with h | h
        · subst h
          simp at h1 h2
          exact ⟨hp s (by simp), h1.2, h1.1, h2⟩
        · exact hacc s h
      · apply ih _ _ hps
        intro s hs
        exact hacc s (List.mem_of_mem_tail hs)

theorem flattenParts_nodot (parts acc : List Str)
    (hp : ∀ s ∈ parts, s ≠ [46] ∧ s ≠ [46, 46]) :
    flattenParts true parts acc = acc.reverse ++ parts.filter (fun s => !s.isEmpty) := by
  induction parts generalizing acc with
  | nil => simp [flattenParts]
  | cons p ps ih =>
    have hps : ∀ s ∈ ps, s ≠ [46] ∧ s ≠ [46, 46] := fun s hs => hp s (by simp [hs])
    have h1 := (hp p (by simp)).1
    have h2 := (hp p (by simp)).2
    unfold flattenParts
    cases he : p.isEmpty
    · simp [h1, h2, ih _ hps, he]
    · simp [ih _ hps, he]

/-! ### `endsWith` -/

theorem endsWith_single (s : Str) (c : Nat) : endsWith s [c] = (s.getLast? == some c) := by
  unfold endsWith
  rw [← List.head?_reverse]
  cases s.reverse with
  | nil => simp [startsWith]
  | cons a t => simp [startsWith]

/-! ### clean segment lists -/

/-- a clean segment list: what flatten_path(…, flatten_slashes=True) leaves -/
def CleanSegs (segs : List Str) : Prop :=
  segs ≠ [] ∧ (∀ s ∈ segs, 47 ∉ s ∧ s ≠ [46] ∧ s ≠ [46, 46]) ∧ (∀ s ∈ segs.dropLast, s ≠ [])

theorem cleanSegs_append_nil (np : List Str) (h : ∀ s ∈ np, GoodSeg s) : CleanSegs (np ++ [[]]) := by
  refine ⟨by simp, ?_, ?_⟩
  · intro s hs
    rcases List.mem_append.1 hs with h' | h'
    · exact ⟨(h s h').1, (h s h').2.2⟩
    · simp at h'
      subst h'
      simp
  · intro s hs
    rw [List.dropLast_concat] at hs
    exact (h s hs).2.1

theorem cleanSegs_of_good (np : List Str) (hne : np ≠ []) (h : ∀ s ∈ np, GoodSeg s) :
    CleanSegs np := by
  refine ⟨hne, ?_, ?_⟩
  · intro s hs
    exact ⟨(h s hs).1, (h s hs).2.2⟩
  · intro s hs
    exact (h s (List.dropLast_subset _ hs)).2.1

theorem joinWith_nil_cons (segs : List Str) (hne : segs ≠ []) :
    joinWith [47] ([] :: segs) = 47 :: joinWith [47] segs := by
  cases segs with
  | nil => exact absurd rfl hne
  | cons a r => simp [joinWith]

/-- `path[1:] if path.startswith('/') else path` -/
def stripSlash (p : Str) : Str := if p.head? == some 47 then p.tail else p

theorem flattenPath_eq (p : Str) :
    flattenPath true p =
      if p.isEmpty || p == [47] then [47]
      else joinWith [47] ([] ::
        (if endsWith (stripSlash p) [47] || (flattenParts true (splitC 47 (stripSlash p)) []).isEmpty
         then flattenParts true (splitC 47 (stripSlash p)) [] ++ [[]]
         else flattenParts true (splitC 47 (stripSlash p)) [])) := by
  simp [flattenPath, stripSlash]

/-- the output of flatten_path is '/' + '/'.join(segs) with segs clean:
absolute, no '.' or '..' segment, no empty segment except possibly the last -/
theorem flattenPath_clean (p : Str) :
    ∃ segs, CleanSegs segs ∧ flattenPath true p = 47 :: joinWith [47] segs := by
  rw [flattenPath_eq]
  split
  · refine ⟨[[]], ⟨by simp, by simp, by simp⟩, by simp [joinWith]⟩
  · generalize stripSlash p = q
    have hg : ∀ s ∈ flattenParts true (splitC 47 q) [], GoodSeg s :=
      flattenParts_good _ _ (by simp) (splitC_free 47 q)
    generalize flattenParts true (splitC 47 q) [] = np at hg
    split
    · exact ⟨np ++ [[]], cleanSegs_append_nil np hg, joinWith_nil_cons _ (by simp)⟩
    · rename_i h
      have hne : np ≠ [] := by
        intro e
        simp [e] at h
      exact ⟨np, cleanSegs_of_good np hne hg, joinWith_nil_cons _ hne⟩

/-! ### idempotence -/

theorem joinWith_concat (init : List Str) (l : Str) :
    joinWith [47] (init ++ [l]) = init.flatMap (· ++ [47]) ++ l := by
  induction init with
  | nil => simp [joinWith]
  | cons a r ih =>
    cases r with
    | nil => simp [joinWith]
    | cons b r =>
      have : (a :: b :: r) ++ [l] = a :: b :: (r ++ [l]) := by simp
      rw [this, joinWith_cons_cons]
      have : b :: (r ++ [l]) = (b :: r) ++ [l] := by simp
      rw [this, ih]
      simp

theorem getLast?_append_ne_nil (a l : List Nat) (h : l ≠ []) :
    (a ++ l).getLast? = l.getLast? := by
  rw [List.getLast?_append]
  cases h' : l.getLast? with
  | none => simp at h'; exact absurd h' h
  | some x => simp

theorem getLast?_flatMap_slash (init : List Str) (hne : init ≠ []) :
    (init.flatMap (· ++ [47])).getLast? = some 47 := by
  rcases List.eq_nil_or_concat init with h | ⟨i, x, h⟩
  · exact absurd h hne
  · subst h
    simp

theorem flattenPath_of_clean (segs : List Str) (hc : CleanSegs segs) :
    flattenPath true (47 :: joinWith [47] segs) = 47 :: joinWith [47] segs := by
  obtain ⟨hne, hall, hdl⟩ := hc
  rw [flattenPath_eq]
  by_cases hj : joinWith [47] segs = []
  · simp [hj]
  · have hcond : (List.isEmpty (47 :: joinWith [47] segs) || (47 :: joinWith [47] segs) == [47]) = false := by
      simp [hj]
    rw [hcond]
    have hs : stripSlash (47 :: joinWith [47] segs) = joinWith [47] segs := by simp [stripSlash]
    simp only [hs, Bool.false_eq_true, if_false]
    rw [splitC_join 47 segs hne (fun s h => (hall s h).1)]
    rw [flattenParts_nodot segs [] (fun s h => (hall s h).2)]
    simp only [List.reverse_nil, List.nil_append]
    -- decompose segs
    have hdec := List.dropLast_concat_getLast hne
    generalize segs.dropLast = init at hdec hdl
    generalize segs.getLast hne = l at hdec
    subst hdec
    have hfi : init.filter (fun s => !s.isEmpty) = init := by
      rw [List.filter_eq_self]
      intro s h
      have := hdl s h
      cases s <;> simp_all
    rw [List.filter_append, hfi, endsWith_single, joinWith_concat] at *
    by_cases hl : l = []
    · subst hl
      have hine : init ≠ [] := by
        intro e
        subst e
        simp at hj
      simp only [List.append_nil] at *
      rw [getLast?_flatMap_slash init hine]
      simp [joinWith_nil_cons, joinWith_concat]
    · have hlast : (List.flatMap (fun x => x ++ [47]) init ++ l).getLast? ≠ some 47 := by
        rw [getLast?_append_ne_nil _ _ hl]
        intro e
        have hm := List.mem_of_getLast? e
        exact (hall l (by simp)).1 hm
      have hfl : List.filter (fun s => !s.isEmpty) [l] = [l] := by
        cases l <;> simp_all
      rw [hfl]
      have : ((List.flatMap (fun x => x ++ [47]) init ++ l).getLast? == some 47) = false := by
        simpa using hlast
      rw [this]
      simp [joinWith_nil_cons, joinWith_concat]

/-- flatten_path is idempotent -/
theorem flattenPath_idem (p : Str) : flattenPath true (flattenPath true p) = flattenPath true p := by
  obtain ⟨segs, hc, he⟩ := flattenPath_clean p
  rw [he]
  exact flattenPath_of_clean segs hc

end Wpull.Url
