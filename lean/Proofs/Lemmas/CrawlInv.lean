/-
The structural invariant of the crawl transition system and its preservation by
every event, including `crash` and `restart`.  Helper file.
-/
import Proofs.Lemmas.CrawlStep
namespace Wpull.Crawl

/-- the statuses the code ever writes at check-in -/
def Cfg.WF (c : Cfg) : Prop :=
  ∀ r, (c.visit r).status = .done ∨ (c.visit r).status = .skipped ∨ (c.visit r).status = .error

structure InvA (s : St) : Prop where
  nodup : (urls s.table).Nodup
  itemRow : ∀ it ∈ s.inflight, it.row ∈ s.table ∧ it.row.status = .inProgress
  itemsNodup : (iurls s.inflight).Nodup
  progress : s.down = false → ∀ r ∈ s.table, r.status = .inProgress → r.url ∈ iurls s.inflight
  downEmpty : s.down = true → s.inflight = []

variable {c : Cfg} {conc : Nat} {starts : List Url} {s s' : St}

/-- in a table without duplicate URLs a row is determined by its URL -/
theorem row_unique {t : List Row} (hn : (urls t).Nodup) {a b : Row} (ha : a ∈ t) (hb : b ∈ t)
    (e : a.url = b.url) : a = b := by
  induction t with
  | nil => cases ha
  | cons x t ih =>
    simp only [urls_cons, List.nodup_cons] at hn
    rcases List.mem_cons.mp ha with rfl | ha' <;> rcases List.mem_cons.mp hb with rfl | hb'
    · rfl
    · exact absurd (mem_urls.mpr ⟨b, hb', e.symm⟩) hn.1
    · exact absurd (mem_urls.mpr ⟨a, ha', e⟩) hn.1
    · exact ih hn.2 ha' hb'

theorem startRows_todo (starts : List Url) (r : Row) (h : r ∈ starts.map startRow) : r.status = .todo := by
  simp only [List.mem_map] at h
  obtain ⟨u, _, e⟩ := h; subst e; rfl

theorem childRows_todo (p : Row) (kids : List Child) (r : Row) (h : r ∈ kids.map (childRow p)) :
    r.status = .todo := by
  simp only [List.mem_map] at h
  obtain ⟨u, _, e⟩ := h; subst e; rfl

theorem invA_init (starts : List Url) : InvA (init starts) where
  nodup := addMany_nodup [] _ (by simp)
  itemRow := by intro it h; cases h
  itemsNodup := by simp [init, iurls]
  progress := by
    intro _ r hr hs
    rcases addMany_mem [] _ r hr with h | h
    · cases h
    · have := startRows_todo starts r h.1; rw [this] at hs; cases hs
  downEmpty := by intro h; cases h

theorem invA_step (hw : c.WF) (hi : InvA s) {e : Ev} (h : step c conc starts s e = some s') : InvA s' := by
  cases e with
  | checkOut =>
    obtain ⟨r, hd, _, hr, rfl⟩ := step_checkOut h
    have hrm := nextRow_some hr
    have hnot : r.url ∉ iurls s.inflight := by
      intro hc
      obtain ⟨it, hit, e⟩ := mem_iurls.mp hc
      have h1 := hi.itemRow it hit
      have h2 : it.row = r := row_unique hi.nodup h1.1 hrm.1 e
      have h3 : r.status = .inProgress := h2 ▸ h1.2
      rcases hrm.2 with h | h <;> rw [h] at h3 <;> cases h3
    refine ⟨by simpa using hi.nodup, ?_, ?_, ?_, ?_⟩
    · intro it hit
      rcases List.mem_append.mp hit with hit | hit
      · have := hi.itemRow it hit
        refine ⟨setStatus_mem_other _ _ _ _ _ this.1 ?_, this.2⟩
        intro e; exact hnot (mem_iurls.mpr ⟨it, hit, e⟩)
      · simp only [List.mem_singleton] at hit; subst hit
        refine ⟨?_, rfl⟩
        have := setStatus_mem_self s.table r.url .inProgress false r hrm.1 rfl
        simpa using this
    · simp only [iurls, List.map_append, List.map_cons, List.map_nil]
      rw [List.nodup_append]
      refine ⟨hi.itemsNodup, by simp, ?_⟩
      intro a ha b hb; simp at hb; subst hb
      intro e; subst e; exact hnot ha
    · intro _ x hx hs
      rcases setStatus_mem _ _ _ _ _ hx with ⟨hx, hne⟩ | ⟨r0, _, hu, e⟩
      · have := hi.progress hd x hx hs
        simp only [iurls, List.map_append, List.mem_append]; exact Or.inl this
      · subst e; simp only [iurls, List.map_append, List.mem_append, List.map_cons, List.map_nil, List.mem_singleton]
        right; exact hu
    · intro h; simp [hd] at h
  | request u =>
    obtain ⟨r, v, rest, hd, hf, rfl⟩ := step_request h
    have hf' := findItem_some hf
    refine ⟨hi.nodup, ?_, by simpa using hi.itemsNodup, ?_, ?_⟩
    · intro it hit
      rcases mem_putItem hit with rfl | ⟨hit, _⟩
      · have h1 := hi.itemRow _ hf'.1; exact ⟨h1.1, h1.2⟩
      · exact hi.itemRow it hit
    · intro _ x hx hs; simpa using hi.progress hd x hx hs
    · intro h; simp [hd] at h
  | flush u =>
    obtain ⟨r, hd, hf, rfl⟩ := step_flush h
    have hf' := findItem_some hf
    refine ⟨addMany_nodup _ _ hi.nodup, ?_, by simpa using hi.itemsNodup, ?_, ?_⟩
    · intro it hit
      rcases mem_putItem hit with rfl | ⟨hit, _⟩
      · have := hi.itemRow _ hf'.1; exact ⟨addMany_old _ _ _ this.1, this.2⟩
      · have := hi.itemRow it hit; exact ⟨addMany_old _ _ _ this.1, this.2⟩
    · intro _ x hx hs
      rcases addMany_mem _ _ x hx with hx | hx
      · simpa using hi.progress hd x hx hs
      · have := childRows_todo r _ x hx.1; rw [this] at hs; cases hs
    · intro h; simp [hd] at h
  | checkIn u =>
    obtain ⟨r, hd, hf, rfl⟩ := step_checkIn h
    have hf' := findItem_some hf
    refine ⟨by simpa using hi.nodup, ?_, ?_, ?_, ?_⟩
    · intro it hit
      have hit' := mem_dropItem.mp hit
      have := hi.itemRow it hit'.1
      exact ⟨setStatus_mem_other _ _ _ _ _ this.1 hit'.2, this.2⟩
    · exact hi.itemsNodup.sublist (iurls_dropItem_sublist _ _)
    · intro _ x hx hs
      rcases setStatus_mem _ _ _ _ _ hx with ⟨hx, hne⟩ | ⟨r0, _, _, e⟩
      · obtain ⟨it, hit, e⟩ := mem_iurls.mp (hi.progress hd x hx hs)
        exact mem_iurls.mpr ⟨it, mem_dropItem.mpr ⟨hit, by rw [e]; exact hne⟩, e⟩
      · subst e; simp only at hs
        rcases hw r with h | h | h <;> rw [h] at hs <;> cases hs
    · intro h; simp [hd] at h
  | crash =>
    obtain ⟨_, rfl⟩ := step_crash h
    exact ⟨hi.nodup, (by intro it h; cases h), (by simp [iurls]), (by intro h; cases h), (by intro _; rfl)⟩
  | restart =>
    obtain ⟨hd, rfl⟩ := step_restart h
    have he := hi.downEmpty hd
    refine ⟨addMany_nodup _ _ (by simpa using hi.nodup), (by simp [he]), (by simp [he, iurls]), ?_, (by intro h; cases h)⟩
    intro _ x hx hs
    rcases addMany_mem _ _ x hx with hx | hx
    · exact absurd hs (release_no_inProgress _ _ hx)
    · have := startRows_todo starts x hx.1; rw [this] at hs; cases hs

/-- runs: sequences of events from a state -/
inductive Reach (c : Cfg) (conc : Nat) (starts : List Url) (crashOk : Bool) : St → Prop
  | init : Reach c conc starts crashOk (init starts)
  | step {s s' : St} {e : Ev} : Reach c conc starts crashOk s →
      (crashOk = false → e ≠ .crash ∧ e ≠ .restart) →
      step c conc starts s e = some s' → Reach c conc starts crashOk s'

theorem Reach.weaken {k : Bool} (h : Reach c conc starts false s) : Reach c conc starts k s := by
  induction h with
  | init => exact .init
  | step _ hk hs ih =>
    refine .step ih ?_ hs
    intro _; exact hk rfl

theorem reach_invA (hw : c.WF) {k : Bool} (h : Reach c conc starts k s) : InvA s := by
  induction h with
  | init => exact invA_init starts
  | step _ _ hs ih => exact invA_step hw ih hs

/-- a crash-free run is never down -/
theorem reach_up (h : Reach c conc starts false s) : s.down = false := by
  induction h with
  | init => rfl
  | @step s s' e _ hk hs ih =>
    have := hk rfl
    cases e with
    | checkOut => obtain ⟨_, _, _, _, rfl⟩ := step_checkOut hs; exact ih
    | request u => obtain ⟨_, _, _, _, _, rfl⟩ := step_request hs; exact ih
    | flush u => obtain ⟨_, _, _, rfl⟩ := step_flush hs; exact ih
    | checkIn u => obtain ⟨_, _, _, rfl⟩ := step_checkIn hs; exact ih
    | crash => exact absurd rfl this.1
    | restart => exact absurd rfl this.2

end Wpull.Crawl
