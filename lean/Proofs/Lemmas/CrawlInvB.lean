/-
Second invariant of the crawl system: what the check-out history (`outs`) says
about the table, and the "children are stored before the parent is final"
invariant that survives crashes.  Helper file.
-/
import Proofs.Lemmas.CrawlInv
namespace Wpull.Crawl

structure InvB (c : Cfg) (starts : List Url) (s : St) : Prop where
  startsIn : ∀ u ∈ starts, u ∈ urls s.table
  outsIn : ∀ o ∈ s.outs, o.url ∈ urls s.table ∧ o.status = .inProgress
  notTodoOut : ∀ r ∈ s.table, r.status ≠ .todo → ∃ o ∈ s.outs, o.url = r.url
  itemOut : ∀ it ∈ s.inflight, it.row ∈ s.outs
  flushed : ∀ it ∈ s.inflight, it.phase = .flushed → ∀ k ∈ (c.visit it.row).children, k.url ∈ urls s.table
  /-- every request of an item in flight is either already sent or still pending -/
  pendLog : ∀ it ∈ s.inflight, ∀ v ∈ (c.visit it.row).requests, v ∈ s.log ∨ v ∈ pend it
  /-- every row ever handed out: either its children are in the table, or the row
  is still open (in progress, or returned to to-do by a restart) with unchanged fields -/
  kids : ∀ o ∈ s.outs, ((∀ k ∈ (c.visit o).children, k.url ∈ urls s.table) ∧
        (∀ v ∈ (c.visit o).requests, v ∈ s.log)) ∨
      (∃ r ∈ s.table, r.url = o.url ∧ r.level = o.level ∧ r.inline = o.inline ∧ r.tries = o.tries ∧
        (r.status = .inProgress ∨ r.status = .todo))

variable {c : Cfg} {conc : Nat} {starts : List Url} {s s' : St}

theorem mem_release_of (t : List Row) (x : Row) (h : x ∈ t) :
    (if x.status = .inProgress then { x with status := .todo } else x) ∈ release t := by
  simp only [release, List.mem_map]
  refine ⟨x, h, ?_⟩
  by_cases hs : x.status = .inProgress
  · simp [hs]
  · have : (x.status == Status.inProgress) = false := by simpa using hs
    simp [this, hs]

theorem invB_init (c : Cfg) (starts : List Url) : InvB c starts (init starts) where
  startsIn := by
    intro u hu
    have := addMany_has [] (starts.map startRow) (startRow u) (List.mem_map.mpr ⟨u, hu, rfl⟩)
    simpa [init, startRow] using this
  outsIn := by intro o h; cases h
  notTodoOut := by
    intro r hr hs
    rcases addMany_mem [] _ r hr with h | h
    · cases h
    · exact absurd (startRows_todo starts r h.1) hs
  itemOut := by intro it h; cases h
  flushed := by intro it h; cases h
  pendLog := by intro it h; cases h
  kids := by intro o h; cases h

theorem invB_step (hw : c.WF) (ha : InvA s) (hi : InvB c starts s) {e : Ev}
    (h : step c conc starts s e = some s') : InvB c starts s' := by
  cases e with
  | checkOut =>
    obtain ⟨r, hd, _, hr, rfl⟩ := step_checkOut h
    have hrm := nextRow_some hr
    refine ⟨by simpa using hi.startsIn, ?_, ?_, ?_, ?_, ?_, ?_⟩
    · intro o ho
      rcases List.mem_append.mp ho with ho | ho
      · simpa using hi.outsIn o ho
      · simp only [List.mem_singleton] at ho; subst ho
        exact ⟨by simpa using mem_urls.mpr ⟨r, hrm.1, rfl⟩, rfl⟩
    · intro x hx hs
      rcases setStatus_mem _ _ _ _ _ hx with ⟨hx, _⟩ | ⟨r0, _, hu, e⟩
      · obtain ⟨o, ho, e⟩ := hi.notTodoOut x hx hs
        exact ⟨o, List.mem_append_left _ ho, e⟩
      · subst e; exact ⟨_, List.mem_append_right _ (List.mem_singleton.mpr rfl), hu.symm⟩
    · intro it hit
      rcases List.mem_append.mp hit with hit | hit
      · exact List.mem_append_left _ (hi.itemOut it hit)
      · simp only [List.mem_singleton] at hit; subst hit
        exact List.mem_append_right _ (List.mem_singleton.mpr rfl)
    · intro it hit hp
      rcases List.mem_append.mp hit with hit | hit
      · simpa using hi.flushed it hit hp
      · simp only [List.mem_singleton] at hit; subst hit; cases hp
    · intro it hit v hv
      rcases List.mem_append.mp hit with hit | hit
      · exact hi.pendLog it hit v hv
      · simp only [List.mem_singleton] at hit; subst hit
        right; exact hv
    · intro o ho
      rcases List.mem_append.mp ho with ho | ho
      · rcases hi.kids o ho with hk | ⟨x, hx, h1, h2, h3, h4, h5⟩
        · left; simpa using hk
        · right
          by_cases hu : x.url = r.url
          · have : x = r := row_unique ha.nodup hx hrm.1 hu
            subst this
            refine ⟨_, setStatus_mem_self s.table x.url .inProgress false x hx rfl, h1, h2, h3, ?_, Or.inl rfl⟩
            simpa using h4
          · exact ⟨x, setStatus_mem_other _ _ _ _ _ hx hu, h1, h2, h3, h4, h5⟩
      · simp only [List.mem_singleton] at ho; subst ho
        right
        refine ⟨_, setStatus_mem_self s.table r.url .inProgress false r hrm.1 rfl, rfl, rfl, rfl, ?_, Or.inl rfl⟩
        simp
  | request u =>
    obtain ⟨r, v, rest, hd, hf, rfl⟩ := step_request h
    have hf' := findItem_some hf
    refine ⟨hi.startsIn, hi.outsIn, hi.notTodoOut, ?_, ?_, ?_, ?_⟩
    · intro it hit
      rcases mem_putItem hit with rfl | ⟨hit, _⟩
      · have h1 := hi.itemOut _ hf'.1; exact h1
      · exact hi.itemOut it hit
    · intro it hit hp
      rcases mem_putItem hit with rfl | ⟨hit, _⟩
      · cases hp
      · exact hi.flushed it hit hp
    · intro it hit w hw'
      rcases mem_putItem hit with rfl | ⟨hit, _⟩
      · rcases hi.pendLog _ hf'.1 w hw' with h | h
        · left; exact List.mem_append_left _ h
        · simp only [pend_running, List.mem_cons] at h
          rcases h with rfl | h
          · left; simp
          · right; exact h
      · rcases hi.pendLog it hit w hw' with h | h
        · left; exact List.mem_append_left _ h
        · right; exact h
    · intro o ho
      rcases hi.kids o ho with hk | hk
      · left; exact ⟨hk.1, fun w hw' => List.mem_append_left _ (hk.2 w hw')⟩
      · right; exact hk
  | flush u =>
    obtain ⟨r, hd, hf, rfl⟩ := step_flush h
    have hf' := findItem_some hf
    refine ⟨?_, ?_, ?_, ?_, ?_, ?_, ?_⟩
    · intro x hx; exact addMany_urls_old _ _ _ (hi.startsIn x hx)
    · intro o ho; exact ⟨addMany_urls_old _ _ _ (hi.outsIn o ho).1, (hi.outsIn o ho).2⟩
    · intro x hx hs
      rcases addMany_mem _ _ x hx with hx | hx
      · exact hi.notTodoOut x hx hs
      · exact absurd (childRows_todo r _ x hx.1) hs
    · intro it hit
      rcases mem_putItem hit with rfl | ⟨hit, _⟩
      · have h1 := hi.itemOut _ hf'.1; exact h1
      · exact hi.itemOut it hit
    · intro it hit hp k hk
      rcases mem_putItem hit with rfl | ⟨hit, _⟩
      · have := addMany_has s.table ((c.visit r).children.map (childRow r)) (childRow r k)
          (List.mem_map.mpr ⟨k, hk, rfl⟩)
        simpa [childRow] using this
      · exact addMany_urls_old _ _ _ (hi.flushed it hit hp k hk)
    · intro it hit w hw'
      rcases mem_putItem hit with rfl | ⟨hit, _⟩
      · rcases hi.pendLog _ hf'.1 w hw' with h | h
        · left; exact h
        · simp [pend_running] at h
      · exact hi.pendLog it hit w hw'
    · intro o ho
      rcases hi.kids o ho with hk | ⟨x, hx, hrest⟩
      · left; exact ⟨fun k hk' => addMany_urls_old _ _ _ (hk.1 k hk'), hk.2⟩
      · right; exact ⟨x, addMany_old _ _ _ hx, hrest⟩
  | checkIn u =>
    obtain ⟨r, hd, hf, rfl⟩ := step_checkIn h
    have hf' := findItem_some hf
    have hru : r.url = u := hf'.2
    refine ⟨by simpa using hi.startsIn, by simpa using hi.outsIn, ?_, ?_, ?_, ?_, ?_⟩
    · intro x hx hs
      rcases setStatus_mem _ _ _ _ _ hx with ⟨hx, _⟩ | ⟨r0, _, hu, e⟩
      · exact hi.notTodoOut x hx hs
      · subst e; exact ⟨r, hi.itemOut _ hf'.1, by simp [hru, hu]⟩
    · intro it hit; exact hi.itemOut it (mem_dropItem.mp hit).1
    · intro it hit hp; simpa using hi.flushed it (mem_dropItem.mp hit).1 hp
    · intro it hit; exact hi.pendLog it (mem_dropItem.mp hit).1
    · intro o ho
      rcases hi.kids o ho with hk | ⟨x, hx, h1, h2, h3, h4, h5⟩
      · left; simpa using hk
      · by_cases hu : x.url = u
        · left
          have hrow := ha.itemRow _ hf'.1
          have hxr : x = r := row_unique ha.nodup hx hrow.1 (by rw [hu, hru])
          subst hxr
          have ho' := hi.outsIn o ho
          have : o = x := by
            cases o; cases x
            simp only [Row.mk.injEq]
            simp only at h1 h2 h3 h4 ho' hrow
            exact ⟨h1.symm, by rw [ho'.2, hrow.2], h2.symm, h3.symm, h4.symm⟩
          subst this
          refine ⟨by simpa using hi.flushed _ hf'.1 rfl, ?_⟩
          intro w hw'
          rcases hi.pendLog _ hf'.1 w hw' with h | h
          · exact h
          · simp [pend_flushed] at h
        · right; exact ⟨x, setStatus_mem_other _ _ _ _ _ hx hu, h1, h2, h3, h4, h5⟩
  | crash =>
    obtain ⟨_, rfl⟩ := step_crash h
    exact ⟨hi.startsIn, hi.outsIn, hi.notTodoOut, (by intro it h; cases h), (by intro it h; cases h),
      (by intro it h; cases h), hi.kids⟩
  | restart =>
    obtain ⟨hd, rfl⟩ := step_restart h
    have he := ha.downEmpty hd
    refine ⟨?_, ?_, ?_, (by simp [he]), (by simp [he]), (by simp [he]), ?_⟩
    · intro u hu
      have := addMany_has (release s.table) (starts.map startRow) (startRow u) (List.mem_map.mpr ⟨u, hu, rfl⟩)
      simpa [startRow] using this
    · intro o ho
      exact ⟨addMany_urls_old _ _ _ (by simpa using (hi.outsIn o ho).1), (hi.outsIn o ho).2⟩
    · intro x hx hs
      rcases addMany_mem _ _ x hx with hx | hx
      · rcases release_mem _ _ hx with ⟨hx, _⟩ | ⟨r0, _, _, e⟩
        · exact hi.notTodoOut x hx hs
        · subst e; exact absurd rfl hs
      · exact absurd (startRows_todo starts x hx.1) hs
    · intro o ho
      rcases hi.kids o ho with hk | ⟨x, hx, h1, h2, h3, h4, h5⟩
      · left; exact ⟨fun k hk' => addMany_urls_old _ _ _ (by simpa using hk.1 k hk'), hk.2⟩
      · right
        have hm := mem_release_of s.table x hx
        by_cases hs : x.status = .inProgress
        · simp only [hs, if_true] at hm
          exact ⟨_, addMany_old _ _ _ hm, h1, h2, h3, h4, Or.inr rfl⟩
        · simp only [hs, if_false] at hm
          exact ⟨x, addMany_old _ _ _ hm, h1, h2, h3, h4, h5⟩

theorem reach_invB (hw : c.WF) {k : Bool} (h : Reach c conc starts k s) : InvB c starts s := by
  induction h with
  | init => exact invB_init c starts
  | step hr _ hs ih => exact invB_step hw (reach_invA hw hr) ih hs

end Wpull.Crawl
