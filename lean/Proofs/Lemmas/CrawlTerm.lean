/-
Termination of crash-free, failure-free crawls: a step count bound.
Helper file for `Proofs/C01.lean` (`terminates`).
-/
import Proofs.Lemmas.CrawlAcct
namespace Wpull.Crawl

variable {c : Cfg} {conc : Nat} {starts : List Url} {s s' : St}

/-- crash-free runs with their number of steps -/
inductive ReachN (c : Cfg) (conc : Nat) (starts : List Url) : St → Nat → Prop
  | init : ReachN c conc starts (init starts) 0
  | step {s s' : St} {e : Ev} {n : Nat} : ReachN c conc starts s n → e ≠ .crash → e ≠ .restart →
      step c conc starts s e = some s' → ReachN c conc starts s' (n + 1)

theorem ReachN.reach {n : Nat} (h : ReachN c conc starts s n) : Reach c conc starts false s := by
  induction h with
  | init => exact .init
  | step _ h1 h2 hs ih => exact .step ih (fun _ => ⟨h1, h2⟩) hs

def isRunning : Item → Nat
  | ⟨_, .running _⟩ => 1
  | ⟨_, .flushed⟩ => 0

theorem length_putItem (l : List Item) (it : Item) : (putItem l it).length = l.length := by simp [putItem]

theorem length_dropItem (l : List Item) (old : Item) (u : Url) (hn : (iurls l).Nodup) (ho : old ∈ l)
    (hu : old.row.url = u) : (dropItem l u).length + 1 = l.length := by
  have := sumOver_dropItem (fun _ => 1) l old u hn ho hu
  have h1 : ∀ m : List Item, sumOver (fun _ => 1) m = m.length := by
    intro m; induction m with
    | nil => rfl
    | cons x t ih => simp [ih]; omega
  rw [h1, h1] at this; exact this

/-- steps taken + work still visible in the state = 3 · hand-outs + requests seen -/
theorem steps_account (hw : c.WF) {n : Nat} (h : ReachN c conc starts s n) :
    n + sumOver isRunning s.inflight + s.inflight.length = 3 * s.outs.length + s.log.length := by
  induction h with
  | init => simp [init]
  | @step s s' e n hr h1 h2 hs ih =>
    have ha := reach_invA hw hr.reach
    cases e with
    | checkOut =>
      obtain ⟨r, _, _, _, rfl⟩ := step_checkOut hs
      simp only [sumOver_append, sumOver_cons, sumOver_nil, isRunning, List.length_append, List.length_cons,
        List.length_nil]
      omega
    | request u =>
      obtain ⟨r, v, rest, _, hf, rfl⟩ := step_request hs
      have hf' := findItem_some hf
      have := sumOver_putItem isRunning s.inflight _ ⟨r, .running rest⟩ ha.itemsNodup hf'.1 rfl
      simp only [isRunning] at this
      simp only [length_putItem, List.length_append, List.length_cons, List.length_nil]
      omega
    | flush u =>
      obtain ⟨r, _, hf, rfl⟩ := step_flush hs
      have hf' := findItem_some hf
      have := sumOver_putItem isRunning s.inflight _ ⟨r, .flushed⟩ ha.itemsNodup hf'.1 rfl
      simp only [isRunning] at this
      simp only [length_putItem]
      omega
    | checkIn u =>
      obtain ⟨r, _, hf, rfl⟩ := step_checkIn hs
      have hf' := findItem_some hf
      have h3 := sumOver_dropItem isRunning s.inflight _ u ha.itemsNodup hf'.1 hf'.2
      have h4 := length_dropItem s.inflight _ u ha.itemsNodup hf'.1 hf'.2
      simp only [isRunning] at h3
      simp only
      omega
    | crash => exact absurd rfl h1
    | restart => exact absurd rfl h2

/-- requests seen + requests pending = total requests of the visits handed out (lengths) -/
theorem log_length (hw : c.WF) (h : Reach c conc starts false s) :
    s.log.length + sumOver (fun it => (pend it).length) s.inflight
      = sumOver (fun o => (c.visit o).requests.length) s.outs := by
  induction h with
  | init => simp [init]
  | @step s s' e hr hk hs ih =>
    have ha := reach_invA hw hr
    have hk' := hk rfl
    cases e with
    | checkOut =>
      obtain ⟨r, _, _, _, rfl⟩ := step_checkOut hs
      simp only [sumOver_append, sumOver_cons, sumOver_nil, pend_running]
      omega
    | request u =>
      obtain ⟨r, w, rest, _, hf, rfl⟩ := step_request hs
      have hf' := findItem_some hf
      have := sumOver_putItem (fun it => (pend it).length) s.inflight _ ⟨r, .running rest⟩ ha.itemsNodup hf'.1 rfl
      simp only [pend_running, List.length_cons] at this
      simp only [List.length_append, List.length_cons, List.length_nil]
      omega
    | flush u =>
      obtain ⟨r, _, hf, rfl⟩ := step_flush hs
      have hf' := findItem_some hf
      have := sumOver_putItem (fun it => (pend it).length) s.inflight _ ⟨r, .flushed⟩ ha.itemsNodup hf'.1 rfl
      simp only [pend_running, pend_flushed, List.length_nil] at this
      simp only
      omega
    | checkIn u =>
      obtain ⟨r, _, hf, rfl⟩ := step_checkIn hs
      have hf' := findItem_some hf
      have := sumOver_dropItem (fun it => (pend it).length) s.inflight _ u ha.itemsNodup hf'.1 hf'.2
      simp only [pend_flushed, List.length_nil] at this
      simp only
      omega
    | crash => exact absurd rfl hk'.1
    | restart => exact absurd rfl hk'.2

theorem sumOver_le {α : Type} (f : α → Nat) (R : Nat) (l : List α) (h : ∀ x ∈ l, f x ≤ R) :
    sumOver f l ≤ R * l.length := by
  induction l with
  | nil => simp
  | cons x t ih =>
    simp only [sumOver_cons, List.length_cons]
    have h1 := h x List.mem_cons_self
    have h2 := ih (fun y hy => h y (List.mem_cons_of_mem _ hy))
    rw [Nat.mul_succ]; omega

/-- a duplicate-free list inside another list is no longer than it -/
theorem nodup_length_le : ∀ (l m : List Url), l.Nodup → (∀ x ∈ l, x ∈ m) → l.length ≤ m.length
  | [], _, _, _ => Nat.zero_le _
  | a :: l, m, hn, hs => by
    simp only [List.nodup_cons] at hn
    have ha : a ∈ m := hs a List.mem_cons_self
    have hsub : ∀ x ∈ l, x ∈ m.erase a := by
      intro x hx
      have hne : x ≠ a := fun e => hn.1 (e ▸ hx)
      exact (List.mem_erase_of_ne hne).mpr (hs x (List.mem_cons_of_mem _ hx))
    have := nodup_length_le l (m.erase a) hn.2 hsub
    have hl := List.length_erase_of_mem ha
    simp only [List.length_cons]
    have : 0 < m.length := List.length_pos_of_mem ha
    omega

/-- every stored URL lies in a universe closed under the offered links -/
theorem table_sub_universe (U : List Url) (hS : ∀ u ∈ starts, u ∈ U)
    (hK : ∀ r k, k ∈ (c.visit r).children → k.url ∈ U) (h : Reach c conc starts false s) :
    ∀ u ∈ urls s.table, u ∈ U := by
  induction h with
  | init =>
    intro u hu
    obtain ⟨r, hr, e⟩ := mem_urls.mp hu
    rcases addMany_mem [] _ r hr with h | h
    · cases h
    · obtain ⟨w, hw', e'⟩ := List.mem_map.mp h.1
      subst e; subst e'; exact hS _ hw'
  | @step s s' e hr hk hst ih =>
    have hk' := hk rfl
    cases e with
    | checkOut => obtain ⟨_, _, _, _, rfl⟩ := step_checkOut hst; simpa using ih
    | request u => obtain ⟨_, _, _, _, _, rfl⟩ := step_request hst; exact ih
    | flush u =>
      obtain ⟨r, _, _, rfl⟩ := step_flush hst
      intro u hu
      obtain ⟨x, hx, e⟩ := mem_urls.mp hu
      rcases addMany_mem _ _ x hx with hx | hx
      · exact ih u (mem_urls.mpr ⟨x, hx, e⟩)
      · obtain ⟨kd, hkd, e'⟩ := List.mem_map.mp hx.1
        subst e; subst e'; exact hK r kd hkd
    | checkIn u => obtain ⟨_, _, _, rfl⟩ := step_checkIn hst; simpa using ih
    | crash => exact absurd rfl hk'.1
    | restart => exact absurd rfl hk'.2

theorem reachN_of_run (es : List Ev) (hes : ∀ e ∈ es, e ≠ .crash ∧ e ≠ .restart) :
    ∀ {s s' : St} {n : Nat}, ReachN c conc starts s n → run c conc starts s es = some s' →
      ReachN c conc starts s' (n + es.length) := by
  induction es with
  | nil => intro s s' n h hr; simp [run] at hr; subst hr; simpa using h
  | cons e es ih =>
    intro s s' n h hr
    simp only [run] at hr
    split at hr
    · cases hr
    · rename_i s1 hs1
      have he := hes e List.mem_cons_self
      have := ih (fun e' he' => hes e' (List.mem_cons_of_mem _ he')) (.step h he.1 he.2 hs1) hr
      simpa [Nat.add_assoc, Nat.add_comm 1] using this

end Wpull.Crawl
