/-
C13 helper lemmas: reachability, the control/numeric invariant `InvN` of the pipeline model and the
proof tactics used to show that every step preserves it.
-/
import Wpull.Pipeline
namespace Wpull.Pipeline

/-! ## reachability -/

inductive Reach (c : Cfg) (conc0 : Nat) : St → Prop
  | init : Reach c conc0 (initSt conc0)
  | step {s s' : St} (a : Act) : Reach c conc0 s → step c s a = some s' → Reach c conc0 s'

def countRun : List Ph → Nat
  | [] => 0
  | p :: l => (if isRun p then 1 else 0) + countRun l

theorem countRun_set {l : List Ph} {i : Nat} {p q : Ph} (h : l[i]? = some p) :
    countRun (l.set i q) + (if isRun p then 1 else 0) = countRun l + (if isRun q then 1 else 0) := by
  induction l generalizing i with
  | nil => simp at h
  | cons a l ih =>
    cases i with
    | zero => simp at h; subst h; simp [countRun]; omega
    | succ i => simp at h; have := ih h; simp [countRun]; omega

theorem countRun_append (l : List Ph) (p : Ph) :
    countRun (l ++ [p]) = countRun l + (if isRun p then 1 else 0) := by
  induction l with
  | nil => simp [countRun]
  | cons a l ih => simp [countRun, ih]; omega

theorem countRun_pos {l : List Ph} {i k : Nat} (h : l[i]? = some (.run k)) : 0 < countRun l := by
  induction l generalizing i with
  | nil => simp at h
  | cons a l ih =>
    cases i with
    | zero => simp at h; subst h; simp [countRun, isRun]; omega
    | succ i => simp at h; have := ih h; simp [countRun]; omega

/-! ## the numeric / control invariant -/

structure InvN (s : St) : Prop where
  hbusy : s.busy = countRun s.items
  hunf : s.unfinished = s.qi + s.busy + s.failedItems
  hget : s.idleWait = 0 ∨ s.qsize ≤ s.idleReady
  hpill : s.pstate = .stopping → s.live ≤ s.pills
  hput : s.prod = .putWait false → 0 < s.qsize
  hww : s.prod = .waitWorker false → 0 < s.unfinished
  hpd : (s.prod = .finished ∨ s.prod = .failed ∨ s.prod = .cancelReq ∨ s.prod = .cancelled) → s.pstate ≠ .running
  hany : s.main = .waitAny false → s.exited = 0 ∧ s.failedW = 0 ∧ 0 < s.live
  hunp : ∀ w, s.main = .waitUnpaused w → s.wt = 0
  hunp' : s.main = .waitUnpaused false → s.pstate = .running ∧ s.unpaused = false
  hshw : s.main = .shutWorkers false → 0 < s.live
  hshut : ∀ w, (s.main = .shutWorkers w ∨ s.main = .waitProd w) → s.pstate = .stopping
  hwp : s.main = .waitProd false → s.prod = .cancelReq
  hwp' : s.main = .waitProd true → (s.prod = .finished ∨ s.prod = .failed ∨ s.prod = .cancelled)
  hfail : 0 < s.failedItems → 0 < s.failedW ∨ s.main = .raised
  hpause : s.pstate = .running → (s.unpaused = true ↔ 0 < s.conc)
  hinit : s.main = .init → s.items = [] ∧ s.prod = .none ∧ s.pills = 0 ∧ s.qitem = none ∧ s.unfinished = 0 ∧
    s.idleReady = 0 ∧ s.idleWait = 0 ∧ s.busy = 0 ∧ s.exited = 0 ∧ s.failedW = 0 ∧ s.pstate = .stopped ∧
    s.failedItems = 0
  hstopped : s.main = .init ∨ s.main = .returned ∨ s.pstate = .running ∨ s.pstate = .stopping
  hspin : s.main ≠ .spin
  hnone : s.prod = .none → s.main = .init
  hq : ∀ i, s.qitem = some i → s.items[i]? = some .queued
  hheld : ∀ b, s.prod = .putWait b → s.items[s.items.length - 1]? = some .held

theorem invN_init (n : Nat) : InvN (initSt n) := by
  constructor <;> simp [initSt, St.qi, St.qsize, St.live, St.wt, countRun]

theorem notifyPC_cases (p : PPC) :
    (notifyPC p = p ∧ p ≠ .putWait false ∧ p ≠ .waitWorker false) ∨ (p = .putWait false ∧ notifyPC p = .putWait true) ∨
    (p = .waitWorker false ∧ notifyPC p = .waitWorker true) := by
  cases p <;> simp [notifyPC] <;> rename_i b <;> cases b <;> simp

theorem goneMC_cases (m : MPC) (l : Nat) :
    (goneMC m l = m ∧ m ≠ .waitAny false ∧ (m ≠ .shutWorkers false ∨ l ≠ 0)) ∨ (m = .waitAny false ∧ goneMC m l = .waitAny true) ∨
    (m = .shutWorkers false ∧ l = 0 ∧ goneMC m l = .shutWorkers true) := by
  cases m <;> simp [goneMC] <;> rename_i b <;> cases b <;> simp <;> omega

theorem pgoneMC_cases (m : MPC) :
    (pgoneMC m = m ∧ m ≠ .waitProd false) ∨ (m = .waitProd false ∧ pgoneMC m = .waitProd true) := by
  cases m <;> simp [pgoneMC] <;> rename_i b <;> cases b <;> simp

theorem unpauseMC_cases (m : MPC) :
    (unpauseMC m = m ∧ m ≠ .waitUnpaused false) ∨ (m = .waitUnpaused false ∧ unpauseMC m = .waitUnpaused true) := by
  cases m <;> simp [unpauseMC] <;> rename_i b <;> cases b <;> simp

theorem set_last (l : List Ph) (p q : Ph) : (l ++ [p]).set l.length q = l ++ [q] := by simp

macro "inv_fields" : tactic =>
  `(tactic| (constructor <;> (try simp only [St.qi, St.qsize, St.live, St.wt, set_last, countRun_append, isRun]) <;>
      grind [notifyPC_cases, goneMC_cases, pgoneMC_cases, unpauseMC_cases]))

set_option hygiene false in
macro "destruct_st" s:ident : tactic =>
  `(tactic| obtain ⟨items, prod, prodRunning, pills, qitem, unfinished, idleReady, idleWait, busy, exited, failedW,
    main, pstate, conc, unpaused, log, stopReq, srcCalls, callsAtStop, failedItems, srcFailed⟩ := $s)


set_option hygiene false in
macro "obtain_inv" h:ident : tactic =>
  `(tactic| obtain ⟨h1,h2,h3,h4,h5,h6,h7,h8,h9,h10,h11,h12,h13,h14,h15,h16,h17,h18,h19,h20,h21,h22⟩ := $h)

end Wpull.Pipeline
