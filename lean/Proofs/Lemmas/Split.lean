import Wpull.Url
import Proofs.Lemmas.Port
namespace Wpull.Url
open Wpull

/-! ### `find`, `partition`, `rpartition` for one character -/

theorem findChar_none {c : Nat} {s : List Nat} (h : c ∉ s) : findChar c s = none := by
  induction s with
  | nil => rfl
  | cons x t ih =>
    have hx : x ≠ c := by intro e; apply h; simp [e]
    have ht : c ∉ t := by intro e; apply h; simp [e]
    simp [findChar, hx, ih ht]

theorem findChar_append {c : Nat} {a b : List Nat} (h : c ∉ a) :
    findChar c (a ++ c :: b) = some a.length := by
  induction a with
  | nil => simp [findChar]
  | cons x t ih =>
    have hx : x ≠ c := by intro e; apply h; simp [e]
    have ht : c ∉ t := by intro e; apply h; simp [e]
    simp [findChar, hx, ih ht]

theorem partition1_none {c : Nat} {s : List Nat} (h : c ∉ s) : partition1 c s = (s, false, []) := by
  induction s with
  | nil => rfl
  | cons x t ih =>
    have hx : x ≠ c := by intro e; apply h; simp [e]
    have ht : c ∉ t := by intro e; apply h; simp [e]
    simp [partition1, hx, ih ht]

theorem rpartition1_none {c : Nat} {s : List Nat} (h : c ∉ s) : rpartition1 c s = ([], false, s) := by
  have hr : c ∉ s.reverse := by simpa using h
  unfold rpartition1
  simp [partition1_none hr]

theorem partition1_found {c : Nat} {s : List Nat} (h : (partition1 c s).2.1 = true) :
    s = (partition1 c s).1 ++ c :: (partition1 c s).2.2 := by
  induction s with
  | nil => simp [partition1] at h
  | cons x t ih =>
    by_cases hx : x = c
    · simp [partition1, hx]
    · simp only [partition1, beq_iff_eq, hx, if_false] at h ⊢
      have := ih h
      simp only [List.cons_append]
      exact congrArg (x :: ·) this

/-- when found, the three pieces reassemble the text -/
theorem rpartition1_found {c : Nat} {s : List Nat} (h : (rpartition1 c s).2.1 = true) :
    s = (rpartition1 c s).1 ++ c :: (rpartition1 c s).2.2 := by
  unfold rpartition1 at h ⊢
  by_cases hf : (partition1 c s.reverse).2.1 = true
  · have e := partition1_found hf
    simp only [hf, if_true]
    have e2 := congrArg List.reverse e
    rw [List.reverse_reverse] at e2
    exact e2.trans (by simp)
  · simp [hf] at h

/-! ### `strip` -/

theorem split_dropWhile_id (p : Nat → Bool) (s : List Nat) (h : ∀ x ∈ s, p x = false) :
    s.dropWhile p = s := by
  cases s with
  | nil => rfl
  | cons x t => simp [h x (by simp)]

/-- str.strip() does nothing when no character is white space -/
theorem strip_id {s : Str} (h : ∀ x ∈ s, isPySpace x = false) : strip s = s := by
  have hr : ∀ x ∈ s.reverse, isPySpace x = false := fun x hx => h x (by simpa using hx)
  unfold strip lstrip rstrip
  rw [split_dropWhile_id isPySpace s h, split_dropWhile_id isPySpace s.reverse hr,
    List.reverse_reverse]

/-! ### `splitRem` -/

theorem split_take_len (a b : List Nat) : (a ++ b).take a.length = a := by
  induction a with
  | nil => simp
  | cons x t ih => simp [ih]

theorem split_drop_len (a b : List Nat) : (a ++ b).drop a.length = b := by
  induction a with
  | nil => simp
  | cons x t ih => simp [ih]

theorem split_drop_len1 (a b : List Nat) (x : Nat) : (a ++ x :: b).drop (a.length + 1) = b := by
  induction a with
  | nil => simp
  | cons y t ih => simp [ih]

theorem split_drop_ge (s : List Nat) (n : Nat) (h : s.length ≤ n) : s.drop n = [] := by
  exact List.drop_eq_nil_of_le h

theorem split_take_all (s : List Nat) : s.take s.length = s := by
  induction s with
  | nil => rfl
  | cons y t ih => simp [ih]

/-- the index arithmetic of URLInfo.parse on `authority + '/' + path-tail` (no query) -/
theorem splitRem_noquery (A P : Str) (hA : 47 ∉ A ∧ 63 ∉ A ∧ 35 ∉ A) (hP : 63 ∉ P ∧ 35 ∉ P) :
    splitRem (A ++ 47 :: P) =
      { authority := A, resource := 47 :: P, path := if P.isEmpty then [47] else P, query := [], fragment := [] } := by
  obtain ⟨hA1, hA2, hA3⟩ := hA
  obtain ⟨hP2, hP3⟩ := hP
  have h47 : findChar 47 (A ++ 47 :: P) = some A.length := findChar_append hA1
  have h63 : findChar 63 (A ++ 47 :: P) = none := by
    apply findChar_none
    simp [hA2, hP2]
  have h35 : findChar 35 (A ++ 47 :: P) = none := by
    apply findChar_none
    simp [hA3, hP3]
  have hai : minIdx [some A.length, none, none] (A ++ 47 :: P).length = A.length := by
    simp [minIdx, List.filterMap, List.foldl]
  have hpi : minIdx [none, none] (A ++ 47 :: P).length = (A ++ 47 :: P).length := by
    simp [minIdx, List.filterMap]
  unfold splitRem
  simp only [h47, h63, h35, hai, hpi, Option.getD_none, pySlice]
  rw [split_take_all, split_take_len, split_drop_len, split_drop_len1,
    split_drop_ge _ _ (Nat.le_succ _)]

/-- … and on `authority + '/' + path-tail + '?' + query` -/
theorem splitRem_query (A P Q : Str) (hA : 47 ∉ A ∧ 63 ∉ A ∧ 35 ∉ A) (hP : 63 ∉ P ∧ 35 ∉ P) (hQ : 35 ∉ Q) :
    splitRem (A ++ 47 :: (P ++ 63 :: Q)) =
      { authority := A, resource := 47 :: (P ++ 63 :: Q), path := if P.isEmpty then [47] else P, query := Q, fragment := [] } := by
  obtain ⟨hA1, hA2, hA3⟩ := hA
  obtain ⟨hP2, hP3⟩ := hP
  have h47 : findChar 47 (A ++ 47 :: (P ++ 63 :: Q)) = some A.length := findChar_append hA1
  have e : A ++ 47 :: (P ++ 63 :: Q) = (A ++ 47 :: P) ++ 63 :: Q := by simp
  have h63 : findChar 63 (A ++ 47 :: (P ++ 63 :: Q)) = some (A.length + 1 + P.length) := by
    rw [e]
    have hn : 63 ∉ A ++ 47 :: P := by simp [hA2, hP2]
    rw [findChar_append hn]
    simp
    omega
  have h35 : findChar 35 (A ++ 47 :: (P ++ 63 :: Q)) = none := by
    apply findChar_none
    simp [hA3, hP3, hQ]
  have hai : minIdx [some A.length, some (A.length + 1 + P.length), none]
      (A ++ 47 :: (P ++ 63 :: Q)).length = A.length := by
    simp [minIdx, List.filterMap, List.foldl]
    omega
  have hpi : minIdx [some (A.length + 1 + P.length), none]
      (A ++ 47 :: (P ++ 63 :: Q)).length = A.length + 1 + P.length := by
    simp [minIdx, List.filterMap, List.foldl]
  have hlen : A.length + 1 + P.length = (A ++ 47 :: P).length := by simp; omega
  have hpath : ((A ++ 47 :: (P ++ 63 :: Q)).take (A.length + 1 + P.length)).drop (A.length + 1) = P := by
    rw [e, hlen, split_take_len, split_drop_len1]
  have hq : ((A ++ 47 :: (P ++ 63 :: Q)).take (A ++ 47 :: (P ++ 63 :: Q)).length).drop
      (A.length + 1 + P.length + 1) = Q := by
    rw [split_take_all, e, hlen, split_drop_len1]
  unfold splitRem
  simp only [h47, h63, h35, hai, hpi, Option.getD_none, pySlice]
  rw [hpath, hq, split_take_len, split_drop_len, split_drop_ge _ _ (Nat.le_succ _)]

end Wpull.Url
