/-
C08, truncation: a message that the framing rules delimit completely (without needing the
peer's EOF) has no strict prefix that, followed by EOF, is accepted as a complete message.
First for the specification `rfc` (each framing layer is prefix-free), then for the reader
via `decode_agrees`.
-/
import Proofs.C08
import Proofs.C17
namespace Wpull.HttpWire
open Wpull Wpull.Ftp

variable {D : Type} {dc : Decoder D}

/-! ## helper lemmas -/

theorem mem_of_getLast {l : Bytes} (h : l.getLast? = some 10) : 10 ∈ l := by
  exact List.mem_of_getLast? h

/-- a line that ended with LF is read identically whatever follows it -/
theorem readlineFlat_ext {p : Bytes} {eof : Bool} {l r : Bytes} (h : readlineFlat p eof = .line l r)
    (hl : l.getLast? = some 10) (x : Bytes) (eof' : Bool) :
    readlineFlat (p ++ x) eof' = .line l (r ++ x) := by
  unfold readlineFlat at h ⊢
  cases hf : findLF p with
  | none =>
    simp only [hf] at h
    split at h
    · cases h
    · split at h
      · cases h
        exact absurd (mem_of_getLast hl) (findLF_none hf)
      · cases h
  | some i =>
    simp only [hf] at h
    have hb := findLF_some hf
    rw [findLF_append_some hf]
    simp only
    split at h
    · cases h
    · rename_i hlim
      cases h
      simp only [hlim, if_false]
      have hle : i + 1 ≤ p.length := by omega
      rw [List.take_append_of_le_length hle, List.drop_append_of_le_length hle]

theorem specHead_ext : ∀ (fuel : Nat) (p : Bytes) (ls : List Bytes) (n : Nat) (b nt r : Bytes),
    specHead fuel p true ls n = .ok b nt r →
    ∀ (fuel' : Nat), fuel ≤ fuel' → ∀ (x : Bytes) (eof' : Bool),
      specHead fuel' (p ++ x) eof' ls n = .ok b nt (r ++ x) := by
  intro fuel
  induction fuel with
  | zero => intro p ls n b nt r h; simp [specHead] at h
  | succ fuel ih =>
    intro p ls n b nt r h fuel' hf x eof'
    obtain ⟨f2, rfl⟩ : ∃ f2, fuel' = f2 + 1 := ⟨fuel' - 1, by omega⟩
    unfold specHead at h ⊢
    cases hrl : readlineFlat p true with
    | tooLong => simp [hrl] at h
    | stall => simp [hrl] at h
    | line l r1 =>
      simp only [hrl] at h
      by_cases hlast : (l.getLast? != some 10) = true
      · simp [hlast] at h
      · have hl : l.getLast? = some 10 := by simpa using hlast
        rw [readlineFlat_ext hrl hl x eof']
        have hlf : (l.getLast? != some 10) = false := by simp [hl]
        simp only [hlf, Bool.false_eq_true, if_false] at h ⊢
        split at h
        · rename_i hb
          simp only [hb, if_true]
          split at h
          · cases h
          · rename_i hne
            cases h
            simp [hne]
        · rename_i hb
          simp only [hb, if_false]
          split at h
          · cases h
          · rename_i hsz
            simp only [hsz, if_false]
            exact ih _ _ _ _ _ _ h f2 (by omega) x eof'

theorem specTrailer_ext : ∀ (fuel : Nat) (p acc t r : Bytes),
    specTrailer fuel p true acc = .ok t r →
    ∀ (fuel' : Nat), fuel ≤ fuel' → ∀ (x : Bytes) (eof' : Bool),
      specTrailer fuel' (p ++ x) eof' acc = .ok t (r ++ x) := by
  intro fuel
  induction fuel with
  | zero => intro p acc t r h; simp [specTrailer] at h
  | succ fuel ih =>
    intro p acc t r h fuel' hf x eof'
    obtain ⟨f2, rfl⟩ : ∃ f2, fuel' = f2 + 1 := ⟨fuel' - 1, by omega⟩
    unfold specTrailer at h ⊢
    cases hrl : readlineFlat p true with
    | tooLong => simp [hrl] at h
    | stall => simp [hrl] at h
    | line l r1 =>
      simp only [hrl] at h
      by_cases hlast : (l.getLast? != some 10) = true
      · simp [hlast] at h
      · have hl : l.getLast? = some 10 := by simpa using hlast
        rw [readlineFlat_ext hrl hl x eof']
        have hlf : (l.getLast? != some 10) = false := by simp [hl]
        simp only [hlf, Bool.false_eq_true, if_false] at h ⊢
        split at h
        · rename_i hb
          cases h
          simp [hb]
        · rename_i hb
          simp only [hb, if_false]
          exact ih _ _ _ _ h f2 (by omega) x eof'

theorem specLength_ext {n : Nat} {p : Bytes} {a a' : Acc D} {r : Bytes}
    (h : specLength dc n p true a = .ok a' r) (x : Bytes) (eof' : Bool) :
    specLength dc n (p ++ x) eof' a = .ok a' (r ++ x) := by
  unfold specLength feedThen at h ⊢
  by_cases hle : n ≤ p.length
  · have hle' : n ≤ (p ++ x).length := by simp; omega
    simp only [hle, hle', if_true] at h ⊢
    rw [List.take_append_of_le_length hle, List.drop_append_of_le_length hle]
    cases hd : a.data dc (p.take n) with
    | error e => simp [hd] at h
    | ok a2 => simp only [hd] at h ⊢; cases h; rfl
  · simp only [hle, if_false] at h
    cases hd : a.data dc p with
    | error e => simp [hd] at h
    | ok a2 => simp [hd] at h

theorem specChunked_eof_nil (fuel0 fuel : Nat) (a a' : Acc D) (t r : Bytes) :
    specChunked dc fuel0 fuel [] true a ≠ .ok a' t r := by
  cases fuel with
  | zero => simp [specChunked]
  | succ f => rw [specChunked_nil]; simp

theorem specChunked_ext (fuel0 : Nat) : ∀ (fuel : Nat) (p : Bytes) (a a' : Acc D) (t r : Bytes),
    specChunked dc fuel0 fuel p true a = .ok a' t r →
    ∀ (fuel0' fuel' : Nat), fuel0 ≤ fuel0' → fuel ≤ fuel' → ∀ (x : Bytes) (eof' : Bool),
      specChunked dc fuel0' fuel' (p ++ x) eof' a = .ok a' t (r ++ x) := by
  intro fuel
  induction fuel with
  | zero => intro p a a' t r h; simp [specChunked] at h
  | succ fuel ih =>
    intro p a a' t r h fuel0' fuel' hf0 hf x eof'
    obtain ⟨f2, rfl⟩ : ∃ f2, fuel' = f2 + 1 := ⟨fuel' - 1, by omega⟩
    unfold specChunked at h ⊢
    cases hrl : readlineFlat p true with
    | tooLong => simp [hrl] at h
    | stall => simp [hrl] at h
    | line l r1 =>
      simp only [hrl] at h
      by_cases hlast : (l.getLast? != some 10) = true
      · simp [hlast] at h
      · have hl : l.getLast? = some 10 := by simpa using hlast
        rw [readlineFlat_ext hrl hl x eof']
        have hlf : (l.getLast? != some 10) = false := by simp [hl]
        simp only [hlf, Bool.false_eq_true, if_false] at h ⊢
        cases hcs : chunkSize? l with
        | none => simp [hcs] at h
        | some size =>
          simp only [hcs] at h ⊢
          by_cases hz : size = 0
          · simp only [hz, if_true] at h ⊢
            cases hfl : (a.note l).flush dc with
            | error e => simp [hfl] at h
            | ok a2 =>
              simp only [hfl] at h ⊢
              cases htr : specTrailer fuel0 r1 true [] with
              | exc e => simp [htr] at h
              | stall => simp [htr] at h
              | ok t2 r2 =>
                simp only [htr] at h
                cases h
                rw [specTrailer_ext _ _ _ _ _ htr fuel0' hf0 x eof']
          · simp only [hz, if_false] at h ⊢
            by_cases hle : size ≤ r1.length
            · have hle' : size ≤ (r1 ++ x).length := by simp; omega
              simp only [hle, hle', if_true] at h ⊢
              rw [List.take_append_of_le_length hle, List.drop_append_of_le_length hle]
              cases hd : (a.note l).data dc (r1.take size) with
              | error e => simp [hd] at h
              | ok a2 =>
                simp only [hd] at h ⊢
                cases hrl2 : readlineFlat (r1.drop size) true with
                | tooLong => simp [hrl2] at h
                | stall => simp [hrl2] at h
                | line nl r3 =>
                  simp only [hrl2] at h
                  by_cases hnl : nl.getLast? = some 10
                  · rw [readlineFlat_ext hrl2 hnl x eof']
                    simp only
                    split at h
                    · cases h
                    · rename_i hlen
                      simp only [hlen, if_false]
                      exact ih _ _ _ _ _ h fuel0' f2 hf0 (by omega) x eof'
                  · -- the line end after the chunk data was cut by EOF: nothing is left, the
                    -- next chunk-size line cannot be read
                    exfalso
                    have hr3 : r3 = [] := by
                      unfold readlineFlat at hrl2
                      cases hf2 : findLF (r1.drop size) with
                      | some i =>
                        simp only [hf2] at hrl2
                        split at hrl2
                        · cases hrl2
                        · cases hrl2
                          have hb := findLF_some hf2
                          exfalso
                          apply hnl
                          rw [List.getLast?_eq_getElem?]
                          simp only [List.length_take]
                          have : min (i + 1) (r1.drop size).length = i + 1 := by omega
                          rw [this]
                          simp only [Nat.add_sub_cancel]
                          rw [List.getElem?_take_of_lt (by omega)]
                          exact hb.2.1
                      | none =>
                        simp only [hf2] at hrl2
                        split at hrl2
                        · cases hrl2
                        · simp only [if_true] at hrl2
                          cases hrl2; rfl
                    subst hr3
                    split at h
                    · cases h
                    · exact specChunked_eof_nil fuel0 fuel _ _ _ _ h
            · simp only [hle, if_false] at h
              cases hd : (a.note l).data dc r1 with
              | error e => simp [hd] at h
              | ok a2 => simp [hd] at h

def Outcome.isOk : Outcome → Bool
  | .ok _ _ _ => true
  | _ => false

theorem specClose_open_not_ok (r : Bytes) (a : Acc D) (w : Wire) (st : Status) (f : Fields) (sc : Bool) :
    (finishSpec dc w st f sc (specClose dc r false a)).outcome.isOk = false := by
  unfold specClose feedThen
  cases a.data dc r <;> simp [finishSpec, specOf, Outcome.isOk]

/-- the specification is prefix-free on self-delimiting messages: if the bytes `p` followed
by EOF are a complete message, then `p` followed by more bytes is never a complete message
that ends exactly at the end of the stream -/
theorem spec_prefix_free (cfg : StreamCfg) (req : ReqInfo) (p x : Bytes) (hx : x ≠ [])
    (hp : (rfc dc cfg req ⟨p, true⟩).outcome.isOk = true) :
    ¬ ((rfc dc cfg req ⟨p ++ x, false⟩).outcome.isOk = true ∧ (rfc dc cfg req ⟨p ++ x, false⟩).rest = []) := by
  have hxa : ∀ r : Bytes, r ++ x ≠ [] := by
    intro r hr
    exact hx (List.append_eq_nil_iff.mp hr).2
  unfold rfc at hp ⊢
  simp only at hp ⊢
  cases hh : specHead (p.length + 2) p true [] 0 with
  | exc e => simp [hh, specOf, Outcome.isOk] at hp
  | stall => simp [hh, specOf, Outcome.isOk] at hp
  | ok block nt r =>
    have hext := specHead_ext _ _ _ _ _ _ _ hh ((p ++ x).length + 2) (by simp) x false
    simp only [hh] at hp
    simp only [hext]
    cases hpr : parseResponse block with
    | error e => simp [hpr, specOf, Outcome.isOk] at hp
    | ok q =>
      obtain ⟨st, f⟩ := q
      simp only [hpr] at hp ⊢
      by_cases hnb : isNoBody req st = true
      · simp only [hnb, if_true, specOf]
        intro ⟨_, hr⟩
        exact hxa r hr
      · simp only [hnb, Bool.false_eq_true, if_false] at hp ⊢
        unfold specBody at hp ⊢
        simp only at hp ⊢
        cases hs : bodyStrategy cfg f with
        | chunked =>
          simp only [hs] at hp ⊢
          cases hc : specChunked dc (p.length + 2) (p.length + 2) r true
              { notified := nt, body := [], dec := (decKind f).map dc.init } with
          | exc e => simp [hc, finishChunkedSpec, specOf, Outcome.isOk] at hp
          | stall => simp [hc, finishChunkedSpec, specOf, Outcome.isOk] at hp
          | ok a t r' =>
            have hext2 := specChunked_ext _ _ _ _ _ _ _ hc ((p ++ x).length + 2) ((p ++ x).length + 2)
              (by simp) (by simp) x false
            simp only [hc, finishChunkedSpec] at hp
            simp only [hext2, finishChunkedSpec]
            cases hpf : parseFields false f t with
            | none => simp [hpf, specOf, Outcome.isOk] at hp
            | some f2 =>
              simp only [specOf]
              intro ⟨_, hr⟩
              exact hxa r' hr
        | close =>
          simp only [hs]
          intro ⟨hok, _⟩
          rw [specClose_open_not_ok] at hok
          cases hok
        | length =>
          simp only [hs] at hp ⊢
          cases hcl : contentLength? ((f.get? sContentLength).getD []) with
          | none =>
            simp only
            intro ⟨hok, _⟩
            rw [specClose_open_not_ok] at hok
            cases hok
          | some n =>
            simp only [hcl] at hp ⊢
            cases hc : specLength dc n r true { notified := nt, body := [], dec := (decKind f).map dc.init } with
            | exc e => simp [hc, finishSpec, specOf, Outcome.isOk] at hp
            | stall => simp [hc, finishSpec, specOf, Outcome.isOk] at hp
            | ok a r' =>
              have hext2 := specLength_ext hc x false
              simp only [hc, finishSpec] at hp
              simp only [hext2, finishSpec]
              cases hfl : a.flush dc with
              | error e => simp [hfl, specOf, Outcome.isOk] at hp
              | ok a' =>
                simp only [specOf]
                intro ⟨_, hr⟩
                exact hxa r' hr

/-! ## Property theorem -/

/-- **C08 `truncation_is_error`.**  Let `p ++ x` be a complete message by the framing rules
that needs no EOF to be delimited (Content-Length or chunked framing, or a status that
forbids a body) and ends exactly where the stream ends.  If the peer cuts it short — sends
only the strict prefix `p` and closes, wherever the cut falls: in the header block, in a
chunk-size line, inside chunk data or a length-delimited body, between CR and LF, in the
trailer section — then for every schedule the reader does **not** report a successful
download.  (Read-until-close framing is excluded by the hypothesis: there the peer's close
*is* the delimiter.) -/
theorem truncation_is_error (h : dc.Hom) (cfg : StreamCfg) (req : ReqInfo) (σ : List Nat) (p x : Bytes)
    (hx : x ≠ [])
    (hfull : (rfc dc cfg req ⟨p ++ x, false⟩).outcome.isOk = true)
    (hexact : (rfc dc cfg req ⟨p ++ x, false⟩).rest = []) :
    (decode dc cfg req σ ⟨p, true⟩).outcome.isOk = false := by
  have a := decode_agrees h cfg req σ ⟨p, true⟩
  rw [a.outcome]
  cases hb : (rfc dc cfg req ⟨p, true⟩).outcome.isOk with
  | false => rfl
  | true => exact absurd ⟨hfull, hexact⟩ (spec_prefix_free cfg req p x hx hb)

/-- non-vacuity: the chunked example message is such a complete message, and its prefixes
cut in the trailer / in the chunk data are refused -/
example : (rfc idDecoder {} {} ⟨exChunked.bytes, false⟩).outcome.isOk = true ∧
    (rfc idDecoder {} {} ⟨exChunked.bytes, false⟩).rest = [] := by decide
example : (decode idDecoder {} {} [] ⟨exChunked.bytes.take 62, true⟩).outcome = .exc .NetworkError := by decide
example : (decode idDecoder {} {} [] ⟨exChunked.bytes.take 52, true⟩).outcome = .exc .NetworkError := by decide

/-! ## a reset is never an end of message -/

/-- **C08 `reset_is_never_complete`.**  If the peer ends what it sends with a reset (RST) instead
of an orderly close, the reader reports success only when the message was already complete by
its own framing with the connection still open — for every byte string and schedule.  A reset
never plays the part of the close that delimits a message. -/
theorem reset_is_never_complete (h : dc.Hom) (cfg : StreamCfg) (req : ReqInfo) (σ : List Nat) (b : Bytes)
    (hok : (decodeE dc cfg req σ b .reset).outcome.isOk = true) :
    (rfc dc cfg req ⟨b, false⟩).outcome.isOk = true ∧
    (decodeE dc cfg req σ b .reset) = decode dc cfg req σ ⟨b, false⟩ := by
  have a := decode_agrees h cfg req σ ⟨b, false⟩
  unfold decodeE at hok ⊢
  simp only at hok ⊢
  by_cases hst : ((decode dc cfg req σ ⟨b, false⟩).outcome == Outcome.stalled) = true
  · simp [hst, Outcome.isOk] at hok
  · simp only [hst, Bool.false_eq_true, if_false] at hok ⊢
    exact ⟨a.outcome ▸ hok, trivial⟩

/-- **C08 `close_delimited_needs_close`.**  A response delimited by the end of the connection
(no usable Content-Length, not chunked, or `--ignore-length`) is complete only if the peer
CLOSED: followed by a reset — or by nothing — it is never a successful download, wherever the
stream stops. -/
theorem close_delimited_needs_close (h : dc.Hom) (cfg : StreamCfg) (req : ReqInfo) (σ : List Nat) (b : Bytes)
    (block nt r : Bytes) (st : Status) (f : Fields)
    (hhead : specHead (b.length + 2) b false [] 0 = .ok block nt r)
    (hparse : parseResponse block = .ok (st, f))
    (hnb : isNoBody req st = false)
    (hclose : bodyStrategy cfg f = .close ∨
      (bodyStrategy cfg f = .length ∧ contentLength? ((f.get? sContentLength).getD []) = none)) :
    (decodeE dc cfg req σ b .reset).outcome.isOk = false ∧
    (decodeE dc cfg req σ b .stillOpen).outcome.isOk = false := by
  have hspec : (rfc dc cfg req ⟨b, false⟩).outcome.isOk = false := by
    unfold rfc
    simp only [hhead, hparse, hnb, Bool.false_eq_true, if_false]
    unfold specBody
    simp only
    rcases hclose with hc | ⟨hl, hn⟩
    · simp only [hc]; exact specClose_open_not_ok _ _ _ _ _ _
    · simp only [hl, hn]; exact specClose_open_not_ok _ _ _ _ _ _
  constructor
  · cases hb : (decodeE dc cfg req σ b .reset).outcome.isOk with
    | false => rfl
    | true => have := (reset_is_never_complete h cfg req σ b hb).1; rw [hspec] at this; cases this
  · have a := decode_agrees h cfg req σ ⟨b, false⟩
    show (decode dc cfg req σ ⟨b, false⟩).outcome.isOk = false
    rw [a.outcome]; exact hspec

example : (decodeE idDecoder {} {} [] (lit "HTTP/1.0 200 OK\r\n\r\npart of the bo") .reset).outcome = .exc .NetworkError ∧
    (decodeE idDecoder {} {} [] (lit "HTTP/1.0 200 OK\r\n\r\npart of the bo") .closed).outcome.isOk = true ∧
    (decodeE idDecoder {} {} [] exMsg.bytes .reset).outcome.isOk = true := by decide

/-! ## bridge: what the real `StreamReader` does is a schedule -/

/-- `StreamReader.read(n)` returns `min n |buffer|` bytes of a non-empty buffer (model
`SR.step`, tied to asyncio by the `sr` stream); the buffer is a prefix of the outstanding
bytes, so that size is one of the sizes the schedule abstraction allows: the theorems, which
hold for every schedule, cover every segmentation of the peer's bytes. -/
theorem segments_are_schedules (buf later : Bytes) (n : Nat) (hn : 0 < n) (hb : buf ≠ []) (t : List Nat) :
    ∃ s, readSize (s :: t) n (buf ++ later).length = (buf.take n).length := by
  have hpos : 0 < buf.length := List.length_pos_iff.mpr hb
  refine ⟨(buf.take n).length - 1, readSize_surjective n _ _ ?_ ?_ t⟩
  · simp only [List.length_take]; omega
  · simp only [List.length_take, List.length_append]; omega

end Wpull.HttpWire
