/-
C08 — HTTP/1.1 responses are delimited per RFC 7230 whatever the segmentation.
Property theorems over the model `Wpull.HttpWire` against the read-free specification
`Wpull.HttpWire.rfc` (`Wpull/HttpWireSpec.lean`).  Helper lemmas first; the property
statements are in the section "Property theorems".
-/
import Wpull.HttpWireSpec
namespace Wpull.HttpWire
open Wpull Wpull.Ftp

/-! ## helper lemmas: transport -/

theorem readSize_bounds (σ : List Nat) (n avail : Nat) (hn : 0 < n) (ha : 0 < avail) :
    1 ≤ readSize σ n avail ∧ readSize σ n avail ≤ min n avail := by
  unfold readSize
  cases σ with
  | nil => simp only; omega
  | cons s t =>
    simp only
    have h : 0 < min n avail := by omega
    have := Nat.mod_lt s h
    omega

/-- every legal size is chosen by some schedule -/
theorem readSize_surjective (n avail k : Nat) (h1 : 1 ≤ k) (h2 : k ≤ min n avail) (t : List Nat) :
    readSize ((k - 1) :: t) n avail = k := by
  unfold readSize
  simp only
  rw [Nat.mod_eq_of_lt (by omega)]
  omega

/-- what a `read` can do, independent of the schedule's content -/
theorem read_cases (c : Conn) (n : Nat) (hn : 0 < n) :
    (c.rest = [] ∧ c.eof = true ∧ ∃ c', c.read n = .data [] c' ∧ c'.rest = [] ∧ c'.eof = c.eof) ∨
    (c.rest = [] ∧ c.eof = false ∧ c.read n = .stall) ∨
    (c.rest ≠ [] ∧ ∃ k c', 1 ≤ k ∧ k ≤ n ∧ k ≤ c.rest.length ∧
      c.read n = .data (c.rest.take k) c' ∧ c'.rest = c.rest.drop k ∧ c'.eof = c.eof) := by
  unfold Conn.read
  by_cases hr : c.rest = []
  · simp only [hr, List.isEmpty_nil, if_true]
    cases he : c.eof
    · right; left; simp
    · left; simp
  · right; right
    have hlen : 0 < c.rest.length := List.length_pos_iff.mpr hr
    have hb := readSize_bounds c.sched n c.rest.length hn hlen
    refine ⟨hr, readSize c.sched n c.rest.length,
      { c with rest := c.rest.drop (readSize c.sched n c.rest.length), sched := c.sched.drop 1,
               log := c.log ++ [.read n (c.rest.take (readSize c.sched n c.rest.length))] },
      hb.1, by omega, by omega, ?_, rfl, rfl⟩
    simp [List.isEmpty_iff, hr]

/-! ## helper lemmas: decoder and accumulator -/

/-- The content decoder is *streaming*: feeding a stream in two pieces is feeding it in one
(outputs concatenated, failures alike).  This is property C19's statement about
`wpull/decompression.py`; here it is the hypothesis under which the decoded body is
independent of the segmentation. -/
structure Decoder.Hom {D : Type} (dc : Decoder D) : Prop where
  nil : ∀ s, dc.feed s [] = .ok (s, [])
  app : ∀ s x y, dc.feed s (x ++ y) =
    match dc.feed s x with
    | .ok (s', o₁) =>
      (match dc.feed s' y with
       | .ok (s'', o₂) => .ok (s'', o₁ ++ o₂)
       | .error e => .error e)
    | .error e => .error e

theorem idDecoder_hom : idDecoder.Hom := ⟨fun _ => rfl, fun _ _ _ => rfl⟩

variable {D : Type} {dc : Decoder D}

theorem Acc.data_nil (h : dc.Hom) (a : Acc D) : a.data dc [] = .ok a := by
  cases a with
  | mk nt body dec =>
    cases dec with
    | none => simp [Acc.data]
    | some st => simp [Acc.data, h.nil]

theorem Acc.data_append (h : dc.Hom) (a : Acc D) (x y : Bytes) :
    a.data dc (x ++ y) = match a.data dc x with
      | .ok a' => a'.data dc y
      | .error e => .error e := by
  cases a with
  | mk nt body dec =>
    cases dec with
    | none => simp [Acc.data]
    | some st =>
      simp only [Acc.data, h.app]
      cases h1 : dc.feed st x with
      | error e => simp
      | ok p =>
        obtain ⟨s', o₁⟩ := p
        simp only
        cases h2 : dc.feed s' y with
        | error e => simp
        | ok q =>
          obtain ⟨s'', o₂⟩ := q
          simp

/-! ## helper lemmas: the three read loops against the read-free slices -/

/-- observation of a loop result: accumulated state and unread rest -/
def Res.obs : Res D → BodyS D
  | .ok a c _ => .ok a c.rest
  | .exc e _ _ => .exc e
  | .stall _ _ => .stall

theorem take_split (r : Bytes) (k n : Nat) (h : k ≤ n) :
    r.take n = r.take k ++ (r.drop k).take (n - k) := by
  have : n = k + (n - k) := by omega
  conv => lhs; rw [this]
  rw [List.take_add]

theorem closeLoop_spec (h : dc.Hom) : ∀ (fuel : Nat) (c : Conn) (a : Acc D), c.rest.length < fuel →
    (closeLoop dc fuel c a).obs = specClose dc c.rest c.eof a := by
  intro fuel
  induction fuel with
  | zero => intro c a hf; omega
  | succ fuel ih =>
    intro c a hf
    unfold closeLoop
    rcases read_cases c 4096 (by omega) with
      ⟨hr, he, c', hrd, hr', _⟩ | ⟨hr, he, hrd⟩ | ⟨hr, k, c', hk1, _, hk3, hrd, hr', he'⟩
    · simp [hrd, Res.obs, hr', specClose, feedThen, hr, Acc.data_nil h, he]
    · simp [hrd, Res.obs, specClose, feedThen, hr, Acc.data_nil h, he]
    · have hne : (c.rest.take k).isEmpty = false := by
        cases hc : c.rest with
        | nil => exact absurd hc hr
        | cons x t => cases k with
          | zero => omega
          | succ k => simp
      have hsplit : c.rest = c.rest.take k ++ c.rest.drop k := (List.take_append_drop k c.rest).symm
      simp only [hrd, hne, Bool.false_eq_true, if_false]
      have hspec : specClose dc c.rest c.eof a =
          match a.data dc (c.rest.take k) with
          | .ok a' => specClose dc (c.rest.drop k) c.eof a'
          | .error e => .exc e := by
        conv => lhs; rw [hsplit]
        simp only [specClose, feedThen, Acc.data_append h]
        cases a.data dc (c.rest.take k) <;> simp
      rw [hspec]
      cases hd : a.data dc (c.rest.take k) with
      | error e => simp [Res.obs]
      | ok a' =>
        simp only
        have := ih c' a' (by rw [hr', List.length_drop]; omega)
        rw [this, hr', he']

theorem take_nonempty (r : Bytes) (k : Nat) (hr : r ≠ []) (hk : 1 ≤ k) : (r.take k).isEmpty = false := by
  cases r with
  | nil => exact absurd rfl hr
  | cons x t => cases k with
    | zero => omega
    | succ k => simp

/-- observation of `chunkDataLoop` -/
inductive CDObs (D : Type) where
  | done (a : Acc D) (rest : Bytes) (eof : Bool)
  | eofInside (a : Acc D) (rest : Bytes) (eof : Bool)
  | exc (e : PyExc)
  | stall

def Res.cdObs : Res D → CDObs D
  | .ok a c false => .done a c.rest c.eof
  | .ok a c true => .eofInside a c.rest c.eof
  | .exc e _ _ => .exc e
  | .stall _ _ => .stall

/-- the chunk data as a slice of the flat stream -/
def specChunkData (dc : Decoder D) (left : Nat) (r : Bytes) (eof : Bool) (a : Acc D) : CDObs D :=
  if left ≤ r.length then
    match a.data dc (r.take left) with
    | .ok a' => .done a' (r.drop left) eof
    | .error e => .exc e
  else
    match a.data dc r with
    | .ok a' => if eof then .eofInside a' [] true else .stall
    | .error e => .exc e

theorem specChunkData_step (h : dc.Hom) (left k : Nat) (r : Bytes) (eof : Bool) (a : Acc D)
    (hk : k ≤ left) (hk3 : k ≤ r.length) :
    specChunkData dc left r eof a =
      match a.data dc (r.take k) with
      | .ok a' => specChunkData dc (left - k) (r.drop k) eof a'
      | .error e => .exc e := by
  unfold specChunkData
  have hlen : (r.drop k).length = r.length - k := List.length_drop
  by_cases hle : left ≤ r.length
  · have hle' : left - k ≤ (r.drop k).length := by omega
    simp only [hle, hle', if_true]
    rw [take_split r k left hk, Acc.data_append h]
    cases a.data dc (r.take k) with
    | error e => simp
    | ok a' =>
      simp only
      have : List.drop (left - k) (List.drop k r) = List.drop left r := by
        rw [List.drop_drop]; congr 1; omega
      rw [this]
  · have hle' : ¬ (left - k ≤ (r.drop k).length) := by omega
    simp only [hle, hle', if_false]
    conv => lhs; rw [← List.take_append_drop k r, Acc.data_append h]
    cases a.data dc (r.take k) <;> simp

theorem chunkDataLoop_spec (h : dc.Hom) : ∀ (fuel left : Nat) (c : Conn) (a : Acc D), c.rest.length < fuel →
    (chunkDataLoop dc fuel left c a).cdObs = specChunkData dc left c.rest c.eof a := by
  intro fuel
  induction fuel with
  | zero => intro left c a hf; omega
  | succ fuel ih =>
    intro left c a hf
    unfold chunkDataLoop
    by_cases hl : left = 0
    · subst hl
      simp [Res.cdObs, specChunkData, Acc.data_nil h]
    · simp only [hl, if_false]
      rcases read_cases c (min left 4096) (by omega) with
        ⟨hr, he, c', hrd, hr', he'⟩ | ⟨hr, he, hrd⟩ | ⟨hr, k, c', hk1, hk2, hk3, hrd, hr', he'⟩
      · have : ¬ left ≤ 0 := by omega
        simp [hrd, Res.cdObs, hr', he', specChunkData, hr, Acc.data_nil h, he, this]
      · have : ¬ left ≤ 0 := by omega
        simp [hrd, Res.cdObs, specChunkData, hr, Acc.data_nil h, he, this]
      · simp only [hrd, take_nonempty c.rest k hr hk1, Bool.false_eq_true, if_false]
        rw [specChunkData_step h left k c.rest c.eof a (by omega) hk3]
        cases hd : a.data dc (c.rest.take k) with
        | error e => simp [Res.cdObs]
        | ok a' =>
          simp only
          have hlen : (c.rest.take k).length = k := by simp; omega
          rw [hlen]
          have := ih (left - k) c' a' (by rw [hr', List.length_drop]; omega)
          rw [this, hr', he']

theorem specLength_step (h : dc.Hom) (left k : Nat) (r : Bytes) (eof : Bool) (a : Acc D)
    (hk : k ≤ left) (hk3 : k ≤ r.length) :
    specLength dc left r eof a =
      match a.data dc (r.take k) with
      | .ok a' => specLength dc (left - k) (r.drop k) eof a'
      | .error e => .exc e := by
  unfold specLength feedThen
  have hlen : (r.drop k).length = r.length - k := List.length_drop
  by_cases hle : left ≤ r.length
  · have hle' : left - k ≤ (r.drop k).length := by omega
    simp only [hle, hle', if_true]
    rw [take_split r k left hk, Acc.data_append h]
    cases a.data dc (r.take k) with
    | error e => simp
    | ok a' =>
      simp only
      have : List.drop (left - k) (List.drop k r) = List.drop left r := by
        rw [List.drop_drop]; congr 1; omega
      rw [this]
  · have hle' : ¬ (left - k ≤ (r.drop k).length) := by omega
    simp only [hle, hle', if_false]
    conv => lhs; rw [← List.take_append_drop k r, Acc.data_append h]
    cases a.data dc (r.take k) <;> simp

/-- `_read_body_by_length` agrees with the slice `take n` of the flat stream for every
schedule — except that, when the peer sent more than `n` bytes, a read may have swallowed
part of the surplus: then the surplus is thrown away and the connection closed
(`overrun = true`), the delivered bytes being the same. -/
theorem lengthLoop_spec (h : dc.Hom) : ∀ (fuel left : Nat) (c : Conn) (a : Acc D), c.rest.length < fuel →
    (lengthLoop dc fuel left c a).obs = specLength dc left c.rest c.eof a ∨
    (∃ a' c', lengthLoop dc fuel left c a = .ok a' c' true ∧ left < c.rest.length ∧
      c'.rest.length < c.rest.length - left ∧
      specLength dc left c.rest c.eof a = .ok a' (c.rest.drop left)) := by
  intro fuel
  induction fuel with
  | zero => intro left c a hf; omega
  | succ fuel ih =>
    intro left c a hf
    unfold lengthLoop
    by_cases hl : left = 0
    · subst hl
      left
      simp [Res.obs, specLength, feedThen, Acc.data_nil h]
    · simp only [hl, if_false]
      rcases read_cases c 4096 (by omega) with
        ⟨hr, he, c', hrd, hr', he'⟩ | ⟨hr, he, hrd⟩ | ⟨hr, k, c', hk1, hk2, hk3, hrd, hr', he'⟩
      · left
        have : ¬ left ≤ 0 := by omega
        simp [hrd, Res.obs, specLength, feedThen, hr, Acc.data_nil h, he, this]
      · left
        have : ¬ left ≤ 0 := by omega
        simp [hrd, Res.obs, specLength, feedThen, hr, Acc.data_nil h, he, this]
      · have hlen : (c.rest.take k).length = k := by simp; omega
        simp only [hrd, take_nonempty c.rest k hr hk1, Bool.false_eq_true, if_false, hlen]
        by_cases hov : k > left
        · simp only [hov, if_true]
          have htt : (c.rest.take k).take left = c.rest.take left := by
            rw [List.take_take]; congr 1; omega
          rw [htt]
          have hle : left ≤ c.rest.length := by omega
          cases hd : a.data dc (c.rest.take left) with
          | error e =>
            left
            simp [Res.obs, specLength, feedThen, hle, hd]
          | ok a' =>
            right
            refine ⟨a', c', rfl, by omega, by rw [hr', List.length_drop]; omega, ?_⟩
            simp [specLength, feedThen, hle, hd]
        · simp only [hov, if_false]
          rw [specLength_step h left k c.rest c.eof a (by omega) hk3]
          cases hd : a.data dc (c.rest.take k) with
          | error e => left; simp [Res.obs]
          | ok a' =>
            simp only
            have hc' : c'.rest.length < fuel := by rw [hr', List.length_drop]; omega
            rcases ih (left - k) c' a' hc' with hih | ⟨a'', c'', hloop, hlt, hlen', hspec⟩
            · left; rw [hih, hr', he']
            · right
              rw [hr', he'] at hspec
              rw [hr', List.length_drop] at hlt hlen'
              refine ⟨a'', c'', hloop, by omega, by omega, ?_⟩
              rw [hspec, List.drop_drop]
              congr 2; omega

end Wpull.HttpWire
