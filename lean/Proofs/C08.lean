/-
C08 — HTTP/1.1 responses are delimited per RFC 7230 whatever the segmentation.
Property theorems over the model `Wpull.HttpWire` against the read-free specification
`Wpull.HttpWire.rfc` (`Wpull/HttpWireSpec.lean`).  Helper lemmas first; the property
statements are in the section "Property theorems".
-/
import Wpull.HttpWireSpec
namespace Wpull.HttpWire
open Wpull Wpull.Ftp

/-! ## helper lemmas: transport -/

theorem readSize_bounds (σ : List Nat) (n avail : Nat) (hn : 0 < n) (ha : 0 < avail) :
    1 ≤ readSize σ n avail ∧ readSize σ n avail ≤ min n avail := by
  unfold readSize
  cases σ with
  | nil => simp only; omega
  | cons s t =>
    simp only
    have h : 0 < min n avail := by omega
    have := Nat.mod_lt s h
    omega

/-- every legal size is chosen by some schedule -/
theorem readSize_surjective (n avail k : Nat) (h1 : 1 ≤ k) (h2 : k ≤ min n avail) (t : List Nat) :
    readSize ((k - 1) :: t) n avail = k := by
  unfold readSize
  simp only
  rw [Nat.mod_eq_of_lt (by omega)]
  omega

/-- what a `read` can do, independent of the schedule's content -/
theorem read_cases (c : Conn) (n : Nat) (hn : 0 < n) :
    (c.rest = [] ∧ c.eof = true ∧ ∃ c', c.read n = .data [] c' ∧ c'.rest = [] ∧ c'.eof = c.eof) ∨
    (c.rest = [] ∧ c.eof = false ∧ c.read n = .stall) ∨
    (c.rest ≠ [] ∧ ∃ k c', 1 ≤ k ∧ k ≤ n ∧ k ≤ c.rest.length ∧
      c.read n = .data (c.rest.take k) c' ∧ c'.rest = c.rest.drop k ∧ c'.eof = c.eof) := by
  unfold Conn.read
  by_cases hr : c.rest = []
  · simp only [hr, List.isEmpty_nil, if_true]
    cases he : c.eof
    · right; left; simp
    · left; simp
  · right; right
    have hlen : 0 < c.rest.length := List.length_pos_iff.mpr hr
    have hb := readSize_bounds c.sched n c.rest.length hn hlen
    refine ⟨hr, readSize c.sched n c.rest.length,
      { c with rest := c.rest.drop (readSize c.sched n c.rest.length), sched := c.sched.drop 1,
               log := c.log ++ [.read n (c.rest.take (readSize c.sched n c.rest.length))] },
      hb.1, by omega, by omega, ?_, rfl, rfl⟩
    simp [List.isEmpty_iff, hr]

/-! ## helper lemmas: decoder and accumulator -/

/-- The content decoder is *streaming*: feeding a stream in two pieces is feeding it in one
(outputs concatenated, failures alike).  This is property C19's statement about
`wpull/decompression.py`; here it is the hypothesis under which the decoded body is
independent of the segmentation. -/
structure Decoder.Hom {D : Type} (dc : Decoder D) : Prop where
  nil : ∀ s, dc.feed s [] = .ok (s, [])
  app : ∀ s x y, dc.feed s (x ++ y) =
    match dc.feed s x with
    | .ok (s', o₁) =>
      (match dc.feed s' y with
       | .ok (s'', o₂) => .ok (s'', o₁ ++ o₂)
       | .error e => .error e)
    | .error e => .error e

theorem idDecoder_hom : idDecoder.Hom := ⟨fun _ => rfl, fun _ _ _ => rfl⟩

variable {D : Type} {dc : Decoder D}

theorem Acc.data_nil (h : dc.Hom) (a : Acc D) : a.data dc [] = .ok a := by
  cases a with
  | mk nt body dec =>
    cases dec with
    | none => simp [Acc.data]
    | some st => simp [Acc.data, h.nil]

theorem Acc.data_append (h : dc.Hom) (a : Acc D) (x y : Bytes) :
    a.data dc (x ++ y) = match a.data dc x with
      | .ok a' => a'.data dc y
      | .error e => .error e := by
  cases a with
  | mk nt body dec =>
    cases dec with
    | none => simp [Acc.data]
    | some st =>
      simp only [Acc.data, h.app]
      cases h1 : dc.feed st x with
      | error e => simp
      | ok p =>
        obtain ⟨s', o₁⟩ := p
        simp only
        cases h2 : dc.feed s' y with
        | error e => simp
        | ok q =>
          obtain ⟨s'', o₂⟩ := q
          simp

/-! ## helper lemmas: the three read loops against the read-free slices -/

/-- observation of a loop result: accumulated state and unread rest -/
def Res.obs : Res D → BodyS D × Bool
  | .ok a c ovr => (.ok a c.rest, ovr)
  | .exc e _ _ => (.exc e, false)
  | .stall _ _ => (.stall, false)

theorem take_split (r : Bytes) (k n : Nat) (h : k ≤ n) :
    r.take n = r.take k ++ (r.drop k).take (n - k) := by
  have : n = k + (n - k) := by omega
  conv => lhs; rw [this]
  rw [List.take_add]

theorem closeLoop_spec (h : dc.Hom) : ∀ (fuel : Nat) (c : Conn) (a : Acc D), c.rest.length < fuel →
    (closeLoop dc fuel c a).obs = (specClose dc c.rest c.eof a, false) := by
  intro fuel
  induction fuel with
  | zero => intro c a hf; omega
  | succ fuel ih =>
    intro c a hf
    unfold closeLoop
    rcases read_cases c 4096 (by omega) with
      ⟨hr, he, c', hrd, hr', _⟩ | ⟨hr, he, hrd⟩ | ⟨hr, k, c', hk1, _, hk3, hrd, hr', he'⟩
    · simp [hrd, Res.obs, hr', specClose, feedThen, hr, Acc.data_nil h, he]
    · simp [hrd, Res.obs, specClose, feedThen, hr, Acc.data_nil h, he]
    · have hne : (c.rest.take k).isEmpty = false := by
        cases hc : c.rest with
        | nil => exact absurd hc hr
        | cons x t => cases k with
          | zero => omega
          | succ k => simp
      have hsplit : c.rest = c.rest.take k ++ c.rest.drop k := (List.take_append_drop k c.rest).symm
      simp only [hrd, hne, Bool.false_eq_true, if_false]
      have hspec : specClose dc c.rest c.eof a =
          match a.data dc (c.rest.take k) with
          | .ok a' => specClose dc (c.rest.drop k) c.eof a'
          | .error e => .exc e := by
        conv => lhs; rw [hsplit]
        simp only [specClose, feedThen, Acc.data_append h]
        cases a.data dc (c.rest.take k) <;> simp
      rw [hspec]
      cases hd : a.data dc (c.rest.take k) with
      | error e => simp [Res.obs]
      | ok a' =>
        simp only
        have := ih c' a' (by rw [hr', List.length_drop]; omega)
        rw [this, hr', he']

theorem take_nonempty (r : Bytes) (k : Nat) (hr : r ≠ []) (hk : 1 ≤ k) : (r.take k).isEmpty = false := by
  cases r with
  | nil => exact absurd rfl hr
  | cons x t => cases k with
    | zero => omega
    | succ k => simp

/-- observation of `chunkDataLoop` -/
inductive CDObs (D : Type) where
  | done (a : Acc D) (rest : Bytes) (eof : Bool)
  | eofInside (a : Acc D) (rest : Bytes) (eof : Bool)
  | exc (e : PyExc)
  | stall

def Res.cdObs : Res D → CDObs D
  | .ok a c false => .done a c.rest c.eof
  | .ok a c true => .eofInside a c.rest c.eof
  | .exc e _ _ => .exc e
  | .stall _ _ => .stall

/-- the chunk data as a slice of the flat stream -/
def specChunkData (dc : Decoder D) (left : Nat) (r : Bytes) (eof : Bool) (a : Acc D) : CDObs D :=
  if left ≤ r.length then
    match a.data dc (r.take left) with
    | .ok a' => .done a' (r.drop left) eof
    | .error e => .exc e
  else
    match a.data dc r with
    | .ok a' => if eof then .eofInside a' [] true else .stall
    | .error e => .exc e

theorem specChunkData_step (h : dc.Hom) (left k : Nat) (r : Bytes) (eof : Bool) (a : Acc D)
    (hk : k ≤ left) (hk3 : k ≤ r.length) :
    specChunkData dc left r eof a =
      match a.data dc (r.take k) with
      | .ok a' => specChunkData dc (left - k) (r.drop k) eof a'
      | .error e => .exc e := by
  unfold specChunkData
  have hlen : (r.drop k).length = r.length - k := List.length_drop
  by_cases hle : left ≤ r.length
  · have hle' : left - k ≤ (r.drop k).length := by omega
    simp only [hle, hle', if_true]
    rw [take_split r k left hk, Acc.data_append h]
    cases a.data dc (r.take k) with
    | error e => simp
    | ok a' =>
      simp only
      have : List.drop (left - k) (List.drop k r) = List.drop left r := by
        rw [List.drop_drop]; congr 1; omega
      rw [this]
  · have hle' : ¬ (left - k ≤ (r.drop k).length) := by omega
    simp only [hle, hle', if_false]
    conv => lhs; rw [← List.take_append_drop k r, Acc.data_append h]
    cases a.data dc (r.take k) <;> simp

theorem chunkDataLoop_spec (h : dc.Hom) : ∀ (fuel left : Nat) (c : Conn) (a : Acc D), c.rest.length < fuel →
    (chunkDataLoop dc fuel left c a).cdObs = specChunkData dc left c.rest c.eof a := by
  intro fuel
  induction fuel with
  | zero => intro left c a hf; omega
  | succ fuel ih =>
    intro left c a hf
    unfold chunkDataLoop
    by_cases hl : left = 0
    · subst hl
      simp [Res.cdObs, specChunkData, Acc.data_nil h]
    · simp only [hl, if_false]
      rcases read_cases c (min left 4096) (by omega) with
        ⟨hr, he, c', hrd, hr', he'⟩ | ⟨hr, he, hrd⟩ | ⟨hr, k, c', hk1, hk2, hk3, hrd, hr', he'⟩
      · have : ¬ left ≤ 0 := by omega
        simp [hrd, Res.cdObs, hr', he', specChunkData, hr, Acc.data_nil h, he, this]
      · have : ¬ left ≤ 0 := by omega
        simp [hrd, Res.cdObs, specChunkData, hr, Acc.data_nil h, he, this]
      · simp only [hrd, take_nonempty c.rest k hr hk1, Bool.false_eq_true, if_false]
        rw [specChunkData_step h left k c.rest c.eof a (by omega) hk3]
        cases hd : a.data dc (c.rest.take k) with
        | error e => simp [Res.cdObs]
        | ok a' =>
          simp only
          have hlen : (c.rest.take k).length = k := by simp; omega
          rw [hlen]
          have := ih (left - k) c' a' (by rw [hr', List.length_drop]; omega)
          rw [this, hr', he']

theorem specLength_step (h : dc.Hom) (left k : Nat) (r : Bytes) (eof : Bool) (a : Acc D)
    (hk : k ≤ left) (hk3 : k ≤ r.length) :
    specLength dc left r eof a =
      match a.data dc (r.take k) with
      | .ok a' => specLength dc (left - k) (r.drop k) eof a'
      | .error e => .exc e := by
  unfold specLength feedThen
  have hlen : (r.drop k).length = r.length - k := List.length_drop
  by_cases hle : left ≤ r.length
  · have hle' : left - k ≤ (r.drop k).length := by omega
    simp only [hle, hle', if_true]
    rw [take_split r k left hk, Acc.data_append h]
    cases a.data dc (r.take k) with
    | error e => simp
    | ok a' =>
      simp only
      have : List.drop (left - k) (List.drop k r) = List.drop left r := by
        rw [List.drop_drop]; congr 1; omega
      rw [this]
  · have hle' : ¬ (left - k ≤ (r.drop k).length) := by omega
    simp only [hle, hle', if_false]
    conv => lhs; rw [← List.take_append_drop k r, Acc.data_append h]
    cases a.data dc (r.take k) <;> simp

/-- `_read_body_by_length` agrees with the slice `take n` of the flat stream for every
schedule — except that, when the peer sent more than `n` bytes, a read may have swallowed
part of the surplus: then the surplus is thrown away and the connection closed
(`overrun = true`), the delivered bytes being the same. -/
theorem lengthLoop_spec (h : dc.Hom) : ∀ (fuel left : Nat) (c : Conn) (a : Acc D), c.rest.length < fuel →
    (lengthLoop dc fuel left c a).obs = (specLength dc left c.rest c.eof a, false) ∨
    (∃ a' c', lengthLoop dc fuel left c a = .ok a' c' true ∧ left < c.rest.length ∧
      c'.rest.length < c.rest.length - left ∧
      specLength dc left c.rest c.eof a = .ok a' (c.rest.drop left)) := by
  intro fuel
  induction fuel with
  | zero => intro left c a hf; omega
  | succ fuel ih =>
    intro left c a hf
    unfold lengthLoop
    by_cases hl : left = 0
    · subst hl
      left
      simp [Res.obs, specLength, feedThen, Acc.data_nil h]
    · simp only [hl, if_false]
      rcases read_cases c 4096 (by omega) with
        ⟨hr, he, c', hrd, hr', he'⟩ | ⟨hr, he, hrd⟩ | ⟨hr, k, c', hk1, hk2, hk3, hrd, hr', he'⟩
      · left
        have : ¬ left ≤ 0 := by omega
        simp [hrd, Res.obs, specLength, feedThen, hr, Acc.data_nil h, he, this]
      · left
        have : ¬ left ≤ 0 := by omega
        simp [hrd, Res.obs, specLength, feedThen, hr, Acc.data_nil h, he, this]
      · have hlen : (c.rest.take k).length = k := by simp; omega
        simp only [hrd, take_nonempty c.rest k hr hk1, Bool.false_eq_true, if_false, hlen]
        by_cases hov : k > left
        · simp only [hov, if_true]
          have htt : (c.rest.take k).take left = c.rest.take left := by
            rw [List.take_take]; congr 1; omega
          rw [htt]
          have hle : left ≤ c.rest.length := by omega
          cases hd : a.data dc (c.rest.take left) with
          | error e =>
            left
            simp [Res.obs, specLength, feedThen, hle, hd]
          | ok a' =>
            right
            refine ⟨a', c', rfl, by omega, by rw [hr', List.length_drop]; omega, ?_⟩
            simp [specLength, feedThen, hle, hd]
        · simp only [hov, if_false]
          rw [specLength_step h left k c.rest c.eof a (by omega) hk3]
          cases hd : a.data dc (c.rest.take k) with
          | error e => left; simp [Res.obs]
          | ok a' =>
            simp only
            have hc' : c'.rest.length < fuel := by rw [hr', List.length_drop]; omega
            rcases ih (left - k) c' a' hc' with hih | ⟨a'', c'', hloop, hlt, hlen', hspec⟩
            · left; rw [hih, hr', he']
            · right
              rw [hr', he'] at hspec
              rw [hr', List.length_drop] at hlt hlen'
              refine ⟨a'', c'', hloop, by omega, by omega, ?_⟩
              rw [hspec, List.drop_drop]
              congr 2; omega

/-! ## helper lemmas: the line-oriented parts never look at the schedule -/

theorem readlineFlat_line {r : Bytes} {eof : Bool} {l r' : Bytes} (h : readlineFlat r eof = .line l r') :
    r = l ++ r' := by
  unfold readlineFlat at h
  split at h
  · split at h
    · cases h
    · cases h; exact (List.take_append_drop _ _).symm
  · split at h
    · cases h
    · split at h
      · cases h; simp
      · cases h

def Head.obs : Head → HeadS
  | .ok block nt c => .ok block nt c.rest
  | .exc e _ _ => .exc e
  | .stall _ _ => .stall

theorem readHead_spec : ∀ (fuel : Nat) (c : Conn) (ls : List Bytes) (n : Nat),
    (readHead fuel c ls n).obs = specHead fuel c.rest c.eof ls n := by
  intro fuel
  induction fuel with
  | zero => intro c ls n; simp [readHead, specHead, Head.obs]
  | succ fuel ih =>
    intro c ls n
    unfold readHead specHead Conn.readline
    cases hrl : readlineFlat c.rest c.eof with
    | tooLong => simp [Head.obs]
    | stall => simp [Head.obs]
    | line l r =>
      simp only
      split
      · simp [Head.obs]
      · split
        · split <;> simp [Head.obs]
        · split
          · simp [Head.obs]
          · rw [ih]

theorem readHead_eof : ∀ (fuel : Nat) (c : Conn) (ls : List Bytes) (n : Nat) (b nt : Bytes) (c' : Conn),
    readHead fuel c ls n = .ok b nt c' → c'.eof = c.eof := by
  intro fuel
  induction fuel with
  | zero => intro c ls n b nt c' h; simp [readHead] at h
  | succ fuel ih =>
    intro c ls n b nt c' h
    unfold readHead Conn.readline at h
    cases hrl : readlineFlat c.rest c.eof with
    | tooLong => simp [hrl] at h
    | stall => simp [hrl] at h
    | line l r =>
      simp only [hrl] at h
      split at h
      · cases h
      · split at h
        · split at h
          · cases h
          · cases h; rfl
        · split at h
          · cases h
          · exact ih { c with rest := r, log := c.log ++ [Call.readline l] } _ _ _ _ _ h

def Trailer.obs : Trailer → TrailerS
  | .ok t c => .ok t c.rest
  | .exc e _ => .exc e
  | .stall _ => .stall

theorem trailerLoop_spec : ∀ (fuel : Nat) (c : Conn) (acc : Bytes),
    (trailerLoop fuel c acc).obs = specTrailer fuel c.rest c.eof acc := by
  intro fuel
  induction fuel with
  | zero => intro c acc; simp [trailerLoop, specTrailer, Trailer.obs]
  | succ fuel ih =>
    intro c acc
    unfold trailerLoop specTrailer Conn.readline
    cases hrl : readlineFlat c.rest c.eof with
    | tooLong => simp [Trailer.obs]
    | stall => simp [Trailer.obs]
    | line l r =>
      simp only
      split
      · simp [Trailer.obs]
      · split
        · simp [Trailer.obs]
        · rw [ih]

theorem cdObs_done {r : Res D} {a : Acc D} {rest : Bytes} {eof : Bool} (h : r.cdObs = .done a rest eof) :
    ∃ c, r = .ok a c false ∧ c.rest = rest ∧ c.eof = eof := by
  cases r with
  | ok a' c b => cases b <;> simp [Res.cdObs] at h; exact ⟨c, by simp [h.1], h.2.1, h.2.2⟩
  | exc e a' c => simp [Res.cdObs] at h
  | stall a' c => simp [Res.cdObs] at h

theorem cdObs_eofInside {r : Res D} {a : Acc D} {rest : Bytes} {eof : Bool} (h : r.cdObs = .eofInside a rest eof) :
    ∃ c, r = .ok a c true ∧ c.rest = rest ∧ c.eof = eof := by
  cases r with
  | ok a' c b => cases b <;> simp [Res.cdObs] at h; exact ⟨c, by simp [h.1], h.2.1, h.2.2⟩
  | exc e a' c => simp [Res.cdObs] at h
  | stall a' c => simp [Res.cdObs] at h

theorem cdObs_exc {r : Res D} {e : PyExc} (h : r.cdObs = .exc e) : ∃ a c, r = .exc e a c := by
  cases r with
  | ok a' c b => cases b <;> simp [Res.cdObs] at h
  | exc e' a' c => simp [Res.cdObs] at h; exact ⟨a', c, by rw [h]⟩
  | stall a' c => simp [Res.cdObs] at h

theorem cdObs_stall {r : Res D} (h : r.cdObs = .stall) : ∃ a c, r = .stall a c := by
  cases r with
  | ok a' c b => cases b <;> simp [Res.cdObs] at h
  | exc e' a' c => simp [Res.cdObs] at h
  | stall a' c => exact ⟨a', c, rfl⟩

def Chunks.obs : Chunks D → ChunksS D
  | .ok a t c => .ok a t c.rest
  | .exc e _ _ => .exc e
  | .stall _ _ => .stall

theorem specChunked_nil (fuel0 fuel : Nat) (a : Acc D) :
    specChunked dc fuel0 (fuel + 1) [] true a = .exc .NetworkError := by
  simp [specChunked, readlineFlat, findLF, lineLimit]

theorem getLast_ne_nil {l : Bytes} (h : ¬ (l.getLast? != some 10) = true) : 1 ≤ l.length := by
  cases l with
  | nil => simp at h
  | cons x t => simp

theorem chunkedLoop_spec (h : dc.Hom) (fuel0 : Nat) : ∀ (fuel : Nat) (c : Conn) (a : Acc D),
    c.rest.length < fuel → c.rest.length < fuel0 →
    (chunkedLoop dc fuel0 fuel c a).obs = specChunked dc fuel0 fuel c.rest c.eof a := by
  intro fuel
  induction fuel with
  | zero => intro c a hf; omega
  | succ fuel ih =>
    intro c a hf hf0
    unfold chunkedLoop specChunked Conn.readline
    cases hrl : readlineFlat c.rest c.eof with
    | tooLong => simp [Chunks.obs]
    | stall => simp [Chunks.obs]
    | line l r1 =>
      have hsplit := readlineFlat_line hrl
      have hlen : c.rest.length = l.length + r1.length := by rw [hsplit]; simp
      simp only
      split
      · simp [Chunks.obs]
      · rename_i hlast
        have hl1 := getLast_ne_nil hlast
        cases hcs : chunkSize? l with
        | none => simp [Chunks.obs]
        | some size =>
          simp only
          by_cases hz : size = 0
          · simp only [hz, if_true]
            cases hfl : (a.note l).flush dc with
            | error e => simp [Chunks.obs]
            | ok a2 =>
              simp only
              have ht := trailerLoop_spec fuel0
                { c with rest := r1, log := c.log ++ [Call.readline l] } []
              simp only at ht
              cases htl : trailerLoop fuel0 { c with rest := r1, log := c.log ++ [Call.readline l] } [] with
              | exc e c2 => rw [htl] at ht; simp [Trailer.obs] at ht; simp [← ht, Chunks.obs]
              | stall c2 => rw [htl] at ht; simp [Trailer.obs] at ht; simp [← ht, Chunks.obs]
              | ok t c2 => rw [htl] at ht; simp [Trailer.obs] at ht; simp [← ht, Chunks.obs]
          · simp only [hz, if_false]
            have hcd := chunkDataLoop_spec h fuel0 size
              { c with rest := r1, log := c.log ++ [Call.readline l] } (a.note l) (by simp; omega)
            simp only [specChunkData] at hcd
            by_cases hle : size ≤ r1.length
            · simp only [hle, if_true] at hcd ⊢
              cases hd : (a.note l).data dc (r1.take size) with
              | error e =>
                rw [hd] at hcd
                obtain ⟨a2, c2, hres⟩ := cdObs_exc hcd
                simp [hres, Chunks.obs]
              | ok a2 =>
                rw [hd] at hcd
                obtain ⟨c2, hres, hr2, he2⟩ := cdObs_done hcd
                simp only [hres, Conn.readline, hr2, he2]
                cases hrl2 : readlineFlat (r1.drop size) c.eof with
                | tooLong => simp [Chunks.obs]
                | stall => simp [Chunks.obs]
                | line nl r3 =>
                  simp only
                  have hs2 := readlineFlat_line hrl2
                  have hlen2 : (r1.drop size).length = nl.length + r3.length := by rw [hs2]; simp
                  have hd2 : (r1.drop size).length ≤ r1.length := by simp
                  split
                  · simp [Chunks.obs]
                  · have hih := ih { c2 with rest := r3, log := c2.log ++ [Call.readline nl] } (a2.note nl)
                      (by simp; omega) (by simp; omega)
                    simp only [he2] at hih
                    exact hih
            · simp only [hle, if_false] at hcd ⊢
              cases hd : (a.note l).data dc r1 with
              | error e =>
                rw [hd] at hcd
                obtain ⟨a2, c2, hres⟩ := cdObs_exc hcd
                simp [hres, Chunks.obs]
              | ok a2 =>
                rw [hd] at hcd
                cases he : c.eof with
                | false =>
                  simp only [he, Bool.false_eq_true, if_false] at hcd ⊢
                  obtain ⟨a3, c3, hres⟩ := cdObs_stall hcd
                  simp [hres, Chunks.obs]
                | true =>
                  simp only [he, if_true] at hcd ⊢
                  obtain ⟨c2, hres, hr2, he2⟩ := cdObs_eofInside hcd
                  simp only [hres]
                  have hfuel : 1 ≤ fuel := by omega
                  obtain ⟨f', hf'⟩ : ∃ f', fuel = f' + 1 := ⟨fuel - 1, by omega⟩
                  have := ih c2 a2 (by rw [hr2]; simp; omega) (by rw [hr2]; simp; omega)
                  rw [this, hr2, he2, hf', specChunked_nil]

/-! ## helper lemmas: gluing the parts -/

/-- The reader's result `r` agrees with what the specification `s` says about the same
bytes: same outcome (status, fields, body — or the same error class, or both wait for
more bytes); on success the listeners saw exactly the message's bytes; and either the
reader consumed exactly the message and closes exactly when the message says so, or — the
peer having sent more than Content-Length — it swallowed part of the surplus and closes
the connection. -/
structure Agrees (r : Result) (s : Spec) : Prop where
  outcome : r.outcome = s.outcome
  notified : (∃ st f b, s.outcome = .ok st f b) → r.notified = s.notified
  framing : (∃ st f b, s.outcome = .ok st f b) →
    (r.rest = s.rest ∧ r.consumed = s.length ∧ r.closed = s.close) ∨
    (r.closed = true ∧ s.length < r.consumed ∧ s.rest ≠ [])

theorem agrees_exc (w : Wire) (e : PyExc) (nt : Bytes) (c : Conn) :
    Agrees (mkResult w (.exc e) true nt c) (specOf w (.exc e) [] [] true) :=
  ⟨rfl, fun ⟨_, _, _, h⟩ => by simp [specOf] at h, fun ⟨_, _, _, h⟩ => by simp [specOf] at h⟩

theorem agrees_stall (w : Wire) (nt : Bytes) (c : Conn) :
    Agrees (mkResult w .stalled false nt c) (specOf w .stalled [] [] false) :=
  ⟨rfl, fun ⟨_, _, _, h⟩ => by simp [specOf] at h, fun ⟨_, _, _, h⟩ => by simp [specOf] at h⟩

theorem agrees_ok (w : Wire) (o : Outcome) (nt : Bytes) (c : Conn) (cl : Bool) :
    Agrees (mkResult w o cl nt c) (specOf w o nt c.rest cl) :=
  ⟨rfl, fun _ => rfl, fun _ => Or.inl ⟨rfl, rfl, rfl⟩⟩

theorem finishBody_agrees_exact (w : Wire) (st : Status) (f : Fields) (sc : Bool) (r : Res D) (b : BodyS D)
    (h : r.obs = (b, false)) : Agrees (finishBody dc w st f sc r) (finishSpec dc w st f sc b) := by
  cases r with
  | exc e a c => simp [Res.obs] at h; subst h; exact agrees_exc w e _ c
  | stall a c => simp [Res.obs] at h; subst h; exact agrees_stall w _ c
  | ok a c ovr =>
    simp [Res.obs] at h
    obtain ⟨hb, hovr⟩ := h
    subst hb hovr
    simp only [finishBody, finishSpec]
    cases a.flush dc with
    | error e => exact agrees_exc w e _ c
    | ok a' => simpa using agrees_ok w (.ok st f a'.body) a'.notified c sc

theorem finishBody_agrees_overrun (w : Wire) (st : Status) (f : Fields) (sc : Bool) (a : Acc D) (c : Conn)
    (rest : Bytes) (h1 : c.rest.length < rest.length) (h2 : rest.length ≤ w.bytes.length) :
    Agrees (finishBody dc w st f sc (.ok a c true)) (finishSpec dc w st f sc (.ok a rest)) := by
  simp only [finishBody, finishSpec]
  cases a.flush dc with
  | error e => exact agrees_exc w e _ c
  | ok a' =>
    refine ⟨rfl, fun _ => rfl, fun _ => Or.inr ⟨by simp [mkResult], ?_, ?_⟩⟩
    · simp only [mkResult, specOf]; omega
    · simp only [specOf]; intro hnil; rw [hnil] at h1; simp at h1

theorem finishChunked_agrees (w : Wire) (st : Status) (f : Fields) (sc : Bool) (r : Chunks D) :
    Agrees (finishChunked w st f sc r) (finishChunkedSpec w st f sc r.obs) := by
  cases r with
  | exc e a c => exact agrees_exc w e _ c
  | stall a c => exact agrees_stall w _ c
  | ok a t c =>
    simp only [finishChunked, finishChunkedSpec, Chunks.obs]
    cases parseFields false f t with
    | none => exact agrees_exc w .ValueError _ c
    | some f' => exact agrees_ok w (.ok st f' a.body) a.notified c sc

theorem readBody_agrees (h : dc.Hom) (cfg : StreamCfg) (req : ReqInfo) (fuel : Nat) (st : Status) (f : Fields)
    (c : Conn) (nt : Bytes) (w : Wire) (hf : c.rest.length < fuel) (he : c.eof = w.eof)
    (hw : c.rest.length ≤ w.bytes.length) :
    Agrees (readBody dc cfg req fuel st f c nt w) (specBody dc cfg req fuel st f c.rest nt w) := by
  unfold readBody specBody
  simp only
  cases bodyStrategy cfg f with
  | chunked =>
    simp only
    rw [← he, ← chunkedLoop_spec h fuel fuel c _ hf hf]
    exact finishChunked_agrees w st f _ _
  | close =>
    simp only
    rw [← he]
    exact finishBody_agrees_exact w st f _ _ _ (closeLoop_spec h fuel c _ hf)
  | length =>
    simp only
    cases contentLength? ((f.get? sContentLength).getD []) with
    | none =>
      simp only
      rw [← he]
      exact finishBody_agrees_exact w st f _ _ _ (closeLoop_spec h fuel c _ hf)
    | some n =>
      simp only
      rw [← he]
      rcases lengthLoop_spec h fuel n c { notified := nt, body := [], dec := (decKind f).map dc.init } hf with
        hex | ⟨a', c', hloop, hlt, hlen, hspec⟩
      · exact finishBody_agrees_exact w st f _ _ _ hex
      · rw [hloop, hspec]
        exact finishBody_agrees_overrun w st f _ a' c' _ (by rw [List.length_drop]; omega)
          (by rw [List.length_drop]; omega)

theorem specHead_rest_le : ∀ (fuel : Nat) (r : Bytes) (eof : Bool) (ls : List Bytes) (n : Nat) (b nt r' : Bytes),
    specHead fuel r eof ls n = .ok b nt r' → r'.length ≤ r.length := by
  intro fuel
  induction fuel with
  | zero => intro r eof ls n b nt r' h; simp [specHead] at h
  | succ fuel ih =>
    intro r eof ls n b nt r' h
    unfold specHead at h
    cases hrl : readlineFlat r eof with
    | tooLong => simp [hrl] at h
    | stall => simp [hrl] at h
    | line l r1 =>
      have hs := readlineFlat_line hrl
      have hlen : r.length = l.length + r1.length := by rw [hs]; simp
      simp only [hrl] at h
      split at h
      · cases h
      · split at h
        · split at h
          · cases h
          · cases h; omega
        · split at h
          · cases h
          · have := ih _ _ _ _ _ _ _ h; omega

/-- **the reader computes the specification, for every schedule** (the workhorse behind the
property theorems) -/
theorem decode_agrees (h : dc.Hom) (cfg : StreamCfg) (req : ReqInfo) (σ : List Nat) (w : Wire) :
    Agrees (decode dc cfg req σ w) (rfc dc cfg req w) := by
  unfold decode rfc
  simp only
  have hh := readHead_spec (w.bytes.length + 2) { rest := w.bytes, eof := w.eof, sched := σ } [] 0
  simp only at hh
  cases hrd : readHead (w.bytes.length + 2) { rest := w.bytes, eof := w.eof, sched := σ } [] 0 with
  | exc e nt c =>
    rw [hrd] at hh; simp only [Head.obs] at hh; rw [← hh]
    exact agrees_exc w e nt c
  | stall nt c =>
    rw [hrd] at hh; simp only [Head.obs] at hh; rw [← hh]
    exact agrees_stall w nt c
  | ok block nt c =>
    rw [hrd] at hh; simp only [Head.obs] at hh; rw [← hh]
    simp only
    have hle := specHead_rest_le _ _ _ _ _ _ _ _ hh.symm
    have heof := readHead_eof _ _ _ _ _ _ _ hrd
    simp only at heof
    cases parseResponse block with
    | error e => exact agrees_exc w e nt c
    | ok p =>
      obtain ⟨st, f⟩ := p
      simp only
      split
      · exact agrees_ok w (.ok st f []) nt c false
      · exact readBody_agrees h cfg req _ st f c nt w (by omega) heof hle

/-! ## Property theorems -/

/-- **C08 `agrees_with_spec`.**  For every byte string the peer may send, every
segmentation of it into reads (schedule `σ`), every request and stream configuration:
the status, fields and body handed to the caller (or the error class, or the fact that the
reader still waits) are those the framing rules of `rfc` give for the flat byte string —
chunked before Content-Length before read-until-close, no body for HEAD/1xx/204/304 —
with the content coding removed by the (streaming) decoder. -/
theorem agrees_with_spec (h : dc.Hom) (cfg : StreamCfg) (req : ReqInfo) (σ : List Nat) (w : Wire) :
    Agrees (decode dc cfg req σ w) (rfc dc cfg req w) :=
  decode_agrees h cfg req σ w

/-- **C08 `segmentation_independent`.**  Two arbitrary segmentations of the same byte
stream give the same outcome (status, fields, decoded body / error class / waiting); on
success the same bytes are reported to the listeners; and when nothing follows the message in the
stream (no early surplus) also the same number of consumed bytes, the same unread rest and
the same keep/close decision. -/
theorem segmentation_independent (h : dc.Hom) (cfg : StreamCfg) (req : ReqInfo) (σ₁ σ₂ : List Nat) (w : Wire) :
    (decode dc cfg req σ₁ w).outcome = (decode dc cfg req σ₂ w).outcome ∧
    ((∃ st f b, (decode dc cfg req σ₁ w).outcome = .ok st f b) →
      (decode dc cfg req σ₁ w).notified = (decode dc cfg req σ₂ w).notified ∧
      ((rfc dc cfg req w).rest = [] →
        (decode dc cfg req σ₁ w).consumed = (decode dc cfg req σ₂ w).consumed ∧
        (decode dc cfg req σ₁ w).closed = (decode dc cfg req σ₂ w).closed ∧
        (decode dc cfg req σ₁ w).rest = (decode dc cfg req σ₂ w).rest)) := by
  have a₁ := decode_agrees h cfg req σ₁ w
  have a₂ := decode_agrees h cfg req σ₂ w
  refine ⟨a₁.outcome.trans a₂.outcome.symm, ?_⟩
  intro ⟨st, f, b, hok⟩
  have hs : ∃ st f b, (rfc dc cfg req w).outcome = .ok st f b := ⟨st, f, b, a₁.outcome ▸ hok⟩
  refine ⟨(a₁.notified hs).trans (a₂.notified hs).symm, ?_⟩
  intro hrest
  rcases a₁.framing hs with ⟨r1, c1, k1⟩ | ⟨_, _, hne⟩
  · rcases a₂.framing hs with ⟨r2, c2, k2⟩ | ⟨_, _, hne⟩
    · exact ⟨c1.trans c2.symm, k1.trans k2.symm, r1.trans r2.symm⟩
    · exact absurd hrest hne
  · exact absurd hrest hne

/-- **C08 `consumed_exact`.**  A response that completed and left the connection open has
consumed exactly the message: nothing of what follows was touched, so the next response
is parsed from its first byte. -/
theorem consumed_exact (h : dc.Hom) (cfg : StreamCfg) (req : ReqInfo) (σ : List Nat) (w : Wire)
    (st : Status) (f : Fields) (b : Bytes)
    (hok : (decode dc cfg req σ w).outcome = .ok st f b) (hopen : (decode dc cfg req σ w).closed = false) :
    (decode dc cfg req σ w).consumed = (rfc dc cfg req w).length ∧
    (decode dc cfg req σ w).rest = (rfc dc cfg req w).rest := by
  have a := decode_agrees h cfg req σ w
  rcases a.framing ⟨st, f, b, a.outcome ▸ hok⟩ with ⟨r, c, _⟩ | ⟨hc, _, _⟩
  · exact ⟨c, r⟩
  · rw [hc] at hopen; cases hopen

/-- **C08 `overrun_closes`.**  If a completed response consumed anything beyond the message
(the peer sent more than Content-Length and a read swallowed part of it), the surplus was
not handed to anybody and the connection is closed. -/
theorem overrun_closes (h : dc.Hom) (cfg : StreamCfg) (req : ReqInfo) (σ : List Nat) (w : Wire)
    (st : Status) (f : Fields) (b : Bytes)
    (hok : (decode dc cfg req σ w).outcome = .ok st f b)
    (hover : (decode dc cfg req σ w).consumed ≠ (rfc dc cfg req w).length) :
    (decode dc cfg req σ w).closed = true ∧ (rfc dc cfg req w).length < (decode dc cfg req σ w).consumed ∧
    (decode dc cfg req σ w).notified = (rfc dc cfg req w).notified := by
  have a := decode_agrees h cfg req σ w
  have hs : ∃ st f b, (rfc dc cfg req w).outcome = .ok st f b := ⟨st, f, b, a.outcome ▸ hok⟩
  rcases a.framing hs with ⟨_, c, _⟩ | ⟨hc, hl, _⟩
  · exact absurd c hover
  · exact ⟨hc, hl, a.notified hs⟩

/-- surplus that no read swallowed stays in the buffer; `Stream.reconnect` then refuses to
reuse the connection: **surplus bytes are discarded with the connection** -/
theorem surplus_discarded (l : Link) (hne : l.leftover ≠ []) : l.reuse = false := by
  unfold Link.reuse
  cases hl : l.leftover with
  | nil => exact absurd hl hne
  | cons x t => simp

/-- **C08 `lockstep_sequence`.**  On a connection used in lock-step (the peer sends its
bytes for exchange k only after request k), whatever each exchange left behind — surplus
bytes, a closed or half-closed connection — every response is decoded from the first byte
the peer sent for it: the results are those of decoding each exchange's bytes alone. -/
theorem lockstep_sequence (cfg : StreamCfg) : ∀ (xs : List (ReqInfo × List Nat × Wire)) (l : Link),
    (session dc cfg l xs).map (·.2) = xs.map (fun x => decode dc cfg x.1 x.2.1 x.2.2) := by
  intro xs
  induction xs with
  | nil => intro l; simp [session]
  | cons x t ih =>
    intro l
    obtain ⟨req, σ, w⟩ := x
    have hpre : (if l.reuse then l.leftover else []) = [] := by
      by_cases hr : l.reuse = true
      · simp only [hr, if_true]
        unfold Link.reuse at hr
        simp only [Bool.and_eq_true, List.isEmpty_iff] at hr
        exact hr.1.2
      · simp [hr]
    simp only [session, hpre, List.nil_append, List.map_cons, ih]

/-- **C08 `abandoned_connection_not_reused`.**  A session that does not complete — only the
header was read, an exception left the block, `abort()` was called — never hands its
connection back for reuse: the response body still in flight cannot become the beginning of
the next response. -/
theorem abandoned_connection_not_reused (idx : Nat) (lv : Leave) (r : Result) (w : Wire)
    (h : lv ≠ .downloaded) : (linkAfter idx lv r w).reuse = false := by
  cases lv <;> simp [linkAfter, Link.reuse] at h ⊢

/-- **C08 `lockstep_sequence_leaves`.**  `lockstep_sequence` for sessions left in any way: every
response (or, for a header-only session, every header block) is decoded from the first byte the
peer sent for that request. -/
theorem lockstep_sequence_leaves (cfg : StreamCfg) : ∀ (xs : List (ReqInfo × List Nat × Wire × Leave)) (l : Link),
    (sessionL dc cfg l xs).map (·.2) = xs.map (fun x =>
      match x.2.2.2 with
      | .downloaded => decode dc cfg x.1 x.2.1 x.2.2.1
      | _ => decodeHead x.2.1 x.2.2.1) := by
  intro xs
  induction xs with
  | nil => intro l; simp [sessionL]
  | cons x t ih =>
    intro l
    obtain ⟨req, σ, w, lv⟩ := x
    have hpre : (if l.reuse then l.leftover else []) = [] := by
      by_cases hr : l.reuse = true
      · simp only [hr, if_true]
        unfold Link.reuse at hr
        simp only [Bool.and_eq_true, List.isEmpty_iff] at hr
        exact hr.1.2
      · simp [hr]
    simp only [sessionL, hpre, List.nil_append, List.map_cons, ih]
    cases lv <;> rfl

/-- **C08 `download_leaves_payload_at_position`.**  "The body handed to the caller is exactly the
payload": the caller reads the document from the position the download leaves the file at.
For a file positioned at its end — empty, or already holding earlier documents / a saved
header block / the part fetched before `--continue` —: afterwards the position is what it was,
what is read from it is exactly this response's body, and what the file held before is
untouched. -/
theorem download_leaves_payload_at_position (f : FileSt) (body : Bytes) (hend : f.pos = f.data.length) :
    (downloadInto f body).pos = f.pos ∧ (downloadInto f body).content = body ∧
    (downloadInto f body).data.take f.pos = f.data := by
  simp [downloadInto, FileSt.write, FileSt.content, hend]

theorem downloadInto_data_end (f : FileSt) (body : Bytes) (hend : f.pos = f.data.length) :
    (downloadInto f body).data = f.data ++ body := by
  simp [downloadInto, FileSt.write, hend]

/-- ... and so for downloads into one growing file (`-O`): the second caller reads exactly the
second body, and the file is the concatenation -/
theorem downloads_into_one_file (f : FileSt) (b₁ b₂ : Bytes) (hend : f.pos = f.data.length) :
    (downloadInto { (downloadInto f b₁) with pos := (downloadInto f b₁).data.length } b₂).content = b₂ ∧
    (downloadInto { (downloadInto f b₁) with pos := (downloadInto f b₁).data.length } b₂).data = f.data ++ b₁ ++ b₂ := by
  have h1 := downloadInto_data_end f b₁ hend
  constructor
  · exact (download_leaves_payload_at_position
      { (downloadInto f b₁) with pos := (downloadInto f b₁).data.length } b₂ rfl).2.1
  · rw [downloadInto_data_end _ b₂ rfl]
    simp only [h1]

example : (downloadInto { data := lit "PREFIX", pos := 6 } (lit "abc")).content = lit "abc" ∧
    (downloadInto { data := lit "PREFIX", pos := 6 } (lit "abc")).data = lit "PREFIXabc" := by decide

/-- ... and a conforming exchange (complete, nothing after it, no `Connection: close`, peer
keeps the connection open) does keep the connection: persistence is not given up -/
theorem keepalive_kept (h : dc.Hom) (cfg : StreamCfg) (req : ReqInfo) (σ : List Nat) (w : Wire) (idx : Nat)
    (st : Status) (f : Fields) (b : Bytes)
    (hok : (rfc dc cfg req w).outcome = .ok st f b) (hrest : (rfc dc cfg req w).rest = [])
    (hkeep : (rfc dc cfg req w).close = false) (heof : w.eof = false) :
    (Link.mk idx (!(decode dc cfg req σ w).closed && (decode dc cfg req σ w).outcome != .stalled)
      (decode dc cfg req σ w).rest w.eof).reuse = true := by
  have a := decode_agrees h cfg req σ w
  rcases a.framing ⟨st, f, b, hok⟩ with ⟨r, _, c⟩ | ⟨_, _, hne⟩
  · simp [Link.reuse, r, hrest, c, hkeep, heof, a.outcome, hok]
  · exact absurd hrest hne

/-- the no-body set is exactly {1xx, 204, 304} ... -/
theorem noContentCode_iff (c : Nat) :
    noContentCode c = true ↔ (100 ≤ c ∧ c < 200) ∨ c = 204 ∨ c = 304 := by
  simp [noContentCode, or_assoc]

/-- ... plus responses to HEAD requests -/
theorem isNoBody_iff (req : ReqInfo) (st : Status) :
    isNoBody req st = true ↔
      ((100 ≤ st.code ∧ st.code < 200) ∨ st.code = 204 ∨ st.code = 304) ∨ req.method.map asciiUpper = lit "HEAD" := by
  simp [isNoBody, noContentCode, or_assoc]

/-- **C08 `body_read_unless_forbidden`.**  "No body where the protocol forbids one" — and
only there: when the header block is complete and its status is none of 1xx / 204 / 304 and
the request was not a HEAD (every other status: 200, 201, 205, 206, 3xx, 4xx, 5xx, …), the
reader agrees, for every schedule, with the *framed-body* specification `specBody`: the
bytes it consumes are the header block plus exactly the framed length (chunked, else
Content-Length, else until close), so nothing of the body is left on the connection. -/
theorem body_read_unless_forbidden (h : dc.Hom) (cfg : StreamCfg) (req : ReqInfo) (σ : List Nat) (w : Wire)
    (block nt r : Bytes) (st : Status) (f : Fields)
    (hhead : specHead (w.bytes.length + 2) w.bytes w.eof [] 0 = .ok block nt r)
    (hparse : parseResponse block = .ok (st, f))
    (hcode : ¬ ((100 ≤ st.code ∧ st.code < 200) ∨ st.code = 204 ∨ st.code = 304))
    (hmeth : req.method.map asciiUpper ≠ lit "HEAD") :
    Agrees (decode dc cfg req σ w) (specBody dc cfg req (w.bytes.length + 2) st f r nt w) := by
  have a := decode_agrees h cfg req σ w
  have hnb : isNoBody req st = false := by
    cases hb : isNoBody req st with
    | false => rfl
    | true => rcases (isNoBody_iff req st).mp hb with hc | hm
              · exact absurd hc hcode
              · exact absurd hm hmeth
  have hr : rfc dc cfg req w = specBody dc cfg req (w.bytes.length + 2) st f r nt w := by
    unfold rfc
    simp only [hhead, hparse, hnb, Bool.false_eq_true, if_false]
  rw [hr] at a
  exact a

/-- ... and where the protocol does forbid a body nothing after the header block is consumed -/
theorem no_body_when_forbidden (h : dc.Hom) (cfg : StreamCfg) (req : ReqInfo) (σ : List Nat) (w : Wire)
    (block nt r : Bytes) (st : Status) (f : Fields)
    (hhead : specHead (w.bytes.length + 2) w.bytes w.eof [] 0 = .ok block nt r)
    (hparse : parseResponse block = .ok (st, f))
    (hnb : isNoBody req st = true) :
    (decode dc cfg req σ w).outcome = .ok st f [] ∧ (decode dc cfg req σ w).rest = r ∧
    (decode dc cfg req σ w).notified = nt := by
  have a := decode_agrees h cfg req σ w
  have hr : rfc dc cfg req w = specOf w (.ok st f []) nt r false := by
    unfold rfc
    simp only [hhead, hparse, hnb, if_true]
  rw [hr] at a
  have hs : ∃ st' f' b', (specOf w (.ok st f []) nt r false).outcome = .ok st' f' b' := ⟨st, f, [], rfl⟩
  refine ⟨a.outcome, ?_, a.notified hs⟩
  rcases a.framing hs with ⟨hrest, _, _⟩ | ⟨hc, _, _⟩
  · exact hrest
  · -- a no-body response is never closed by the reader
    exfalso
    unfold decode at hc
    have hh := readHead_spec (w.bytes.length + 2) { rest := w.bytes, eof := w.eof, sched := σ } [] 0
    simp only at hh hc
    cases hrd : readHead (w.bytes.length + 2) { rest := w.bytes, eof := w.eof, sched := σ } [] 0 with
    | exc e nt' c => rw [hrd] at hh; simp [Head.obs, hhead] at hh
    | stall nt' c => rw [hrd] at hh; simp [Head.obs, hhead] at hh
    | ok block' nt' c =>
      rw [hrd] at hh
      simp only [Head.obs, hhead, HeadS.ok.injEq] at hh
      obtain ⟨hb, _, _⟩ := hh
      subst hb
      simp [hrd, hparse, hnb, mkResult] at hc

/-! ## Non-vacuity -/

/-- a 205 is framed like any other response: the chunked empty body is consumed -/
example : (decode idDecoder {} {} [] { bytes := lit "HTTP/1.1 205 Reset\r\nTransfer-Encoding: chunked\r\n\r\n0\r\n\r\n", eof := false }).consumed = 55 ∧
    (rfc idDecoder {} {} { bytes := lit "HTTP/1.1 205 Reset\r\nTransfer-Encoding: chunked\r\n\r\n0\r\n\r\n", eof := false }).rest = [] := by decide
example : noContentCode 205 = false ∧ noContentCode 204 = true ∧ noContentCode 199 = true ∧ noContentCode 200 = false := by decide


def exMsg : Wire := { bytes := lit "HTTP/1.1 200 OK\r\nContent-Length: 2\r\n\r\nabX", eof := false }

/-- the overrun is noticed only when a read swallows surplus: `closed` does depend on the
schedule when the peer sends surplus early (DESIGN.md section 7 #20); what the caller gets
does not -/
theorem overrun_counterexample :
    (decode idDecoder {} {} [] exMsg).closed = true ∧ (decode idDecoder {} {} [1] exMsg).closed = false ∧
    (decode idDecoder {} {} [] exMsg).outcome = (decode idDecoder {} {} [1] exMsg).outcome := by
  decide

example : (rfc idDecoder {} {} exMsg).length = 40 ∧ (rfc idDecoder {} {} exMsg).rest = lit "X" := by decide
def Outcome.body? : Outcome → Option Bytes
  | .ok _ _ b => some b
  | _ => none

example : (decode idDecoder {} {} [0, 0] exMsg).outcome.body? = some (lit "ab") ∧
    (decode idDecoder {} {} [0, 0] exMsg).consumed = 40 ∧ (decode idDecoder {} {} [0, 0] exMsg).closed = false := by decide

def exChunked : Wire :=
  { bytes := lit "HTTP/1.1 200 OK\r\nTransfer-Encoding: Chunked\r\n\r\n2;x\r\nab\r\n0\r\nT: 1\r\n\r\n", eof := false }
example : (decode idDecoder {} {} [0] exChunked).outcome.body? = some (lit "ab") ∧
    (rfc idDecoder {} {} exChunked).rest = [] ∧ (rfc idDecoder {} {} exChunked).close = false := by decide
/-- a 304 with Content-Length has no body (and does not wait for one) -/
example : (decode idDecoder {} {} [] { bytes := lit "HTTP/1.1 304 NM\r\nContent-Length: 5\r\n\r\n", eof := false }).outcome.body?
    = some [] := by decide

end Wpull.HttpWire
