/-
C07 — Each CDX line addresses exactly the record it describes.
Property theorems over the model `Wpull.Warc` (helper lemmas are in
`Proofs/Lemmas/Warc.lean` and `Proofs/Lemmas/WarcHistory.lean`; the statements that
render the property are the theorems of the section "Property theorems" below).
-/
import Proofs.Lemmas.WarcHistory
namespace Wpull.Warc
open Wpull

/-! ## helper lemmas -/

theorem startsWith_append (p s : List Nat) : startsWith (p ++ s) p = true := by
  induction p with
  | nil => cases s <;> simp [startsWith]
  | cons a t ih => simp [startsWith, ih]

/-- the record `write_record` logs is the record it was given, stamped with the Warcinfo-ID -/
theorem cdx_entry_fields (r : Record) (w : Str) :
    (r.set kWarcinfoId w).get? kUri = r.get? kUri ∧ (r.set kWarcinfoId w).get? kId = r.get? kId ∧
    (r.set kWarcinfoId w).get? kPayloadDigest = r.get? kPayloadDigest ∧ (r.set kWarcinfoId w).block = r.block :=
  ⟨Record.get_set_other _ _ _ _ (by decide), Record.get_set_other _ _ _ _ (by decide),
   Record.get_set_other _ _ _ _ (by decide), rfl⟩

/-! ## Property theorems -/

/-- **cdx_range_is_record** — for every configuration (gzip or not, rollover, appending to
pre-existing files of any content), every history of session events and the final `close()`:
every logged write (file, offset, size) addresses exactly the bytes written for that record —
the gzip member `e.member idx (serialize record)` when compressing, `serialize record`
otherwise — inside the file as it stands at the end; and the CDX lines are precisely the
lines of the logged response records, built from those (file, offset, size). -/
theorem cdx_range_is_record (c : Cfg) (e : Env) (existing : List (FName × Bytes)) (ops : List Op) (lb : Option Bytes) :
    let s := life c e existing ops lb
    (∀ en ∈ s.log, en.offset + en.size ≤ (content s en.file).length ∧
      ((content s en.file).drop en.offset).take en.size =
        (if c.compress then e.member en.record.idx (serialize en.record) else serialize en.record)) ∧
    (c.cdx = true → s.cdxLines = (s.log.filter (fun en => wantsCdx en.record)).map
        (fun en => cdxLine c e en.file en.record en.size en.offset)) := by
  have h := life_final c e existing ops lb
  refine ⟨fun en hen => h.slice en hen, fun hc => ?_⟩
  have := h.cdx
  unfold CdxOk at this
  rw [this, if_pos hc]; rfl

/-- **offset_is_sum_of_earlier_sizes** — the offsets are what the property says they are: a
file consists of its pre-existing bytes (when appending) followed by the records written in
order, so the range of the i-th record of a file starts at the pre-existing size plus the
sizes of the earlier ones (see also `file_is_record_concat` in C05). -/
theorem offset_is_sum_of_earlier_sizes (c : Cfg) (e : Env) (existing : List (FName × Bytes)) (ops : List Op)
    (lb : Option Bytes) (f : FName)
    (hf : (∃ en ∈ (life c e existing ops lb).log, en.file = f) ∨ c.appending = true) :
    content (life c e existing ops lb) f =
      preOf c existing f ++ flatOf c e (life c e existing ops lb).log f :=
  (life_final c e existing ops lb).concat f (by
    rcases hf with h | h
    · exact Or.inl h
    · exact Or.inr (Or.inl h))

/-- **one_line_per_response** — with CDX on, the number of CDX lines equals the number of
logged response records (type `response`, content type `application/http; msgtype=response`);
revisit, request, warcinfo, metadata and resource records get none. -/
theorem one_line_per_response (c : Cfg) (e : Env) (existing : List (FName × Bytes)) (ops : List Op) (lb : Option Bytes)
    (hc : c.cdx = true) :
    (life c e existing ops lb).cdxLines.length =
      ((life c e existing ops lb).log.filter (fun en => wantsCdx en.record)).length := by
  rw [(cdx_range_is_record c e existing ops lb).2 hc]; simp

/-- **write_record_appends_pair** — `write_record` puts the record into the archive and its CDX
line into the index in the same step: there is no state of the recorder in which a response
record is in the archive while its line is still pending. -/
theorem write_record_appends_pair (c : Cfg) (e : Env) (s : St) (r : Record) :
    (writeRecord c e s r).log = s.log ++ [newEntry c e s r] ∧
    (writeRecord c e s r).cdxLines = s.cdxLines ++
      (if c.cdx && wantsCdx (newEntry c e s r).record then [lineOf c e (newEntry c e s r)] else []) := by
  refine ⟨writeRecord_log c e s r, ?_⟩
  have hl : (writeRecord c e s r).cdxLines =
      if c.cdx && wantsCdx (newEntry c e s r).record then s.cdxLines ++ [lineOf c e (newEntry c e s r)] else s.cdxLines := by
    simp [writeRecord, newEntry, lineOf, fsSize_eq, fsGet_fsSet_same, content]
  rw [hl]; split <;> simp

/-- **cdx_complete_at_every_step** — not only after `close()`: after ANY number `k` of session
events of any history (i.e. at every point at which the process may die or the files may be
read), the index holds exactly one line per response record written so far, in order, and every
logged range addresses exactly its record in the files as they stand at that moment. -/
theorem cdx_complete_at_every_step (c : Cfg) (e : Env) (existing : List (FName × Bytes)) (ops : List Op) (k : Nat)
    (hc : c.cdx = true) :
    let s := run c e (initSt c e existing) (ops.take k)
    s.cdxLines = (s.log.filter (fun en => wantsCdx en.record)).map
        (fun en => cdxLine c e en.file en.record en.size en.offset) ∧
    (∀ en ∈ s.log, en.offset + en.size ≤ (content s en.file).length ∧
      ((content s en.file).drop en.offset).take en.size =
        (if c.compress then e.member en.record.idx (serialize en.record) else serialize en.record)) := by
  have h := run_inv c e existing (ops.take k) _ (initSt_inv c e existing)
  refine ⟨?_, fun en hen => h.slice en hen⟩
  have := h.cdx
  unfold CdxOk at this
  rw [this, if_pos hc]; rfl

/-- **cdx_file_started_over** — a life WITHOUT `appending` on a prefix that was used before:
whatever `PREFIX.cdx` held (`old`), afterwards it is the header line followed by exactly the
lines of the response records this life logged — no line of the earlier life survives the
archive being started over.  (With `appending` the old lines are kept in front, and the header
is written only if there was no file.) -/
theorem cdx_file_started_over (c : Cfg) (e : Env) (existing : List (FName × Bytes)) (ops : List Op) (lb : Option Bytes)
    (old : Option (List Str)) (hc : c.cdx = true) (ha : c.appending = false) :
    cdxFile c old (life c e existing ops lb) =
      cdxHeader :: ((life c e existing ops lb).log.filter (fun en => wantsCdx en.record)).map
        (fun en => cdxLine c e en.file en.record en.size en.offset) := by
  unfold cdxFile cdxHeaderWritten
  rw [(cdx_range_is_record c e existing ops lb).2 hc]
  simp [hc, ha]

theorem cdx_file_appended (c : Cfg) (e : Env) (existing : List (FName × Bytes)) (ops : List Op) (lb : Option Bytes)
    (old : List Str) (hc : c.cdx = true) (ha : c.appending = true) :
    cdxFile c (some old) (life c e existing ops lb) =
      old ++ ((life c e existing ops lb).log.filter (fun en => wantsCdx en.record)).map
        (fun en => cdxLine c e en.file en.record en.size en.offset) := by
  unfold cdxFile cdxHeaderWritten
  rw [(cdx_range_is_record c e existing ops lb).2 hc]
  simp [hc, ha]

/-- **fields_match_record** — the columns of a CDX line are the record's own fields: URL,
timestamp of its WARC-Date, MIME and status read from its block, its payload digest without
the `sha1:` label, the size and offset of the write, the current file's name, its record id. -/
theorem fields_match_record (c : Cfg) (e : Env) (f : FName) (r : Record) (size off : Nat) (uri date d id : Str)
    (h1 : r.get? kUri = some uri) (h2 : r.get? kDate = some date)
    (h3 : r.get? kPayloadDigest = some (sha1Prefix ++ d)) (h4 : r.get? kId = some id) :
    cdxLine c e f r size off = joinWith [32] [uri, e.ts date, (cdxMimeStatus r.block).1, (cdxMimeStatus r.block).2, d,
      decimal size, decimal off, render c f, id] := by
  unfold cdxLine
  simp [h1, h2, h3, h4, startsWith_append]

/-- without a payload digest the checksum column is `-` -/
theorem fields_match_record_nodigest (c : Cfg) (e : Env) (f : FName) (r : Record) (size off : Nat)
    (h3 : r.get? kPayloadDigest = none) :
    cdxLine c e f r size off = joinWith [32] [(r.get? kUri).getD [], e.ts ((r.get? kDate).getD []),
      (cdxMimeStatus r.block).1, (cdxMimeStatus r.block).2, [45], decimal size, decimal off, render c f,
      (r.get? kId).getD []] := by
  unfold cdxLine
  have : startsWith ([] : List Nat) sha1Prefix = false := by decide
  simp [h3, this]

/-- **status_mime_match_response (header part)** — for every header block `hdr` that
`Stream.read_response` accepts (any size: no 4 KiB cap; any line ends, folding) and any body,
`get_http_header` parses exactly `hdr`: the status and MIME columns are a function of the
wire header block alone, never of the body. -/
theorem status_mime_from_wire_header (hdr body : Bytes) (h : WireHeader hdr) :
    httpHeaderBytes (hdr ++ body) = some hdr ∧ cdxMimeStatus (hdr ++ body) = cdxMimeStatus (hdr ++ []) := by
  have h1 := httpHeaderBytes_wire hdr body h
  have h2 := httpHeaderBytes_wire hdr [] h
  refine ⟨h1, ?_⟩
  unfold cdxMimeStatus getHttpHeader
  rw [h1, h2]

-- concrete responses: multi-line header, LF-only, folded parameter, `+`/`.` subtype, a body
-- that itself looks like a header
set_option maxRecDepth 100000 in
example : cdxMimeStatus (lit "HTTP/1.1 404 Not Found\r\nServer: x\r\ncontent-type: application/xhtml+xml; charset=utf-8\r\n\r\nHTTP/1.1 200 OK\r\nContent-Type: a/b\r\n\r\n")
    = (lit "application/xhtml+xml", lit "404") := by decide
example : cdxMimeStatus (lit "HTTP/1.0  200\nX: 1\nContent-Type:application/vnd.ms-excel;\n\tq=1\n\nbody")
    = (lit "application/vnd.ms-excel", lit "200") := by decide
example : cdxMimeStatus (lit "HTTP/1.1 200 OK\r\nContent-Type: garbage\r\n\r\n") = (lit "-", lit "200") := by decide
example : cdxMimeStatus (lit "no header here") = (lit "-", lit "-") := by decide


/-! ### the status/MIME parse: full statement, and the region where the code violates it -/

/-- the Content-Type value of a header block read the way it is on the wire: lines end at LF
only (what `Stream.read_response` delivers), the first line whose name is `Content-Type` -/
def wireContentType (hdr : Bytes) : Str :=
  match ((splitOn1 hdr 10).drop 1).filterMap (fun line =>
      match findSub line [58] with
      | none => none
      | some i => if asciiTitle (strip (line.take i)) == contentTypeName then some (strip (line.drop (i + 1))) else none) with
  | v :: _ => v
  | [] => []

/-- the full statement: the MIME column is the MIME type of the wire header -/
def status_mime_full : Prop :=
  ∀ hdr body, WireHeader hdr → (cdxMimeStatus (hdr ++ body)).1 = mimeOf (wireContentType hdr)

def linesepWitness : Bytes := lit "HTTP/1.1 200 OK\nX-Note: a\u0085Content-Type: evil/x\nContent-Type: text/html\n\n"

theorem linesepWitness_wire : WireHeader linesepWitness :=
  ⟨[lit "HTTP/1.1 200 OK\n", lit "X-Note: a\u0085Content-Type: evil/x\n", lit "Content-Type: text/html\n"], [10],
   by decide, by decide,
   by intro l hl
      simp only [List.mem_cons, List.not_mem_nil, or_false] at hl
      rcases hl with rfl | rfl | rfl
      · exact ⟨⟨lit "HTTP/1.1 200 OK", by decide, by decide⟩, by unfold IsBlank; decide⟩
      · exact ⟨⟨lit "X-Note: a\u0085Content-Type: evil/x", by decide, by decide⟩, by unfold IsBlank; decide⟩
      · exact ⟨⟨lit "Content-Type: text/html", by decide, by decide⟩, by unfold IsBlank; decide⟩,
   Or.inl rfl⟩

set_option maxRecDepth 100000 in
/-- **status_mime_full_counterexample** — the known finding `cdx-mime-linesep`: a NEL inside a
field value (one header line on the wire) is taken for a line break by `str.splitlines()`;
the CDX line then says `evil/x` where the response's Content-Type is `text/html`. -/
theorem status_mime_full_counterexample : ¬ status_mime_full := by
  intro h
  have := h linesepWitness [] linesepWitness_wire
  revert this
  decide

-- non-vacuity of the history theorems: one exchange, appending to a 3-byte file, CDX on
set_option maxRecDepth 100000 in
example :
    let c : Cfg := { compress := true, digests := true, cdx := true, appending := true, maxSize := some 0,
                     revisit := false, pfx := lit "o", software := lit "s", extra := [], wrapBuiltin := [[], [], []] }
    let e : Env := { H := fun b => decimal b.length, member := fun i b => i :: b, uuid := decimal, date := fun _ => lit "d",
                     ts := fun _ => lit "0" }
    let s := life c e [(.numbered 0, [1, 2, 3])] [.beginRequest 0 (lit "u") (lit "i"),
      .endRequest 0 (lit "GET / HTTP/1.1\r\n\r\n") 18, .beginResponse 0,
      .endResponse 0 (lit "HTTP/1.1 200 OK\r\nContent-Type: a/b\r\n\r\nhi") none, .closeSession] none
    (s.log.map (fun en => (en.file, en.offset))).head? = some (.numbered 0, 3) ∧
    (s.log.map (·.file)) = [.numbered 0, .numbered 0, .numbered 0, .numbered 1] ∧ s.cdxLines.length = 1 := by
  decide

end Wpull.Warc
