/-
C10 — URL normalisation yields a stable canonical form.
Theorems over the model `Wpull.Url` (lean/Wpull/Url.lean).  Helper lemmas first
(more in Proofs/Lemmas/Flatten.lean and Proofs/Lemmas/Ipv4.lean); the property
statements are in the sections "Property theorems".
-/
import Wpull.Url
import Proofs.Lemmas.Ipv4
import Proofs.Lemmas.Flatten
import Proofs.Lemmas.Port
namespace Wpull.Url
open Wpull

/-- a configuration for the examples: UTF-8, parameters that refuse everything -/
def cfgT : Cfg :=
  { defaultScheme := some sHttp, encode := utf8Enc, lowerNA := id,
    idnaNA := fun _ => .error .UnicodeError, ipv6 := fun _ => .error .AddressValueError, unquote := id }

/-! ## helper lemmas: `uppercase_percent_encoding` -/

theorem isHexDigit_asciiUpper (a : Nat) : isHexDigit (asciiUpper a) = isHexDigit a := by
  unfold asciiUpper isAsciiLower
  split
  · rename_i h
    simp only [Bool.and_eq_true, decide_eq_true_eq] at h
    rw [Bool.eq_iff_iff]
    unfold isHexDigit isAsciiDigit
    simp only [Bool.or_eq_true, Bool.and_eq_true, decide_eq_true_eq]
    omega
  · rfl

theorem asciiUpper_not_lower (a : Nat) : isAsciiLower (asciiUpper a) = false := by
  unfold asciiUpper
  split
  · rename_i h
    unfold isAsciiLower at h ⊢
    simp only [Bool.and_eq_true, decide_eq_true_eq] at h
    simp only [Bool.and_eq_false_iff, decide_eq_false_iff_not]
    omega
  · rename_i h; simpa using h

theorem asciiUpper_idem (a : Nat) : asciiUpper (asciiUpper a) = asciiUpper a := by
  have key : ∀ x, isAsciiLower x = false → asciiUpper x = x := by
    intro x h; simp [asciiUpper, h]
  exact key _ (asciiUpper_not_lower a)

theorem isHexDigit_ne_37 {a : Nat} (h : isHexDigit a = true) : (a == 37) = false := by
  unfold isHexDigit isAsciiDigit at h
  simp only [Bool.or_eq_true, Bool.and_eq_true, decide_eq_true_eq] at h
  simp only [beq_eq_false_iff_ne, ne_eq]
  omega

/-- `upperPct` never changes the first character -/
theorem upperPct_head (c : Nat) (t : Str) : ∃ r, upperPct (c :: t) = c :: r := by
  match t with
  | [] => exact ⟨[], by simp [upperPct]⟩
  | [a] => exact ⟨[a], by simp [upperPct]⟩
  | a :: b :: t =>
    unfold upperPct
    split
    · exact ⟨_, rfl⟩
    · exact ⟨_, rfl⟩

/-- first two characters of `upperPct (a :: b :: t)`: `a`, then a character that is a hex digit iff `b` is -/
theorem upperPct_two (a b : Nat) (t : Str) :
    ∃ x r, upperPct (a :: b :: t) = a :: x :: r ∧ isHexDigit x = isHexDigit b := by
  match t with
  | [] => exact ⟨b, [], by simp [upperPct], rfl⟩
  | d :: t =>
    unfold upperPct
    split
    · exact ⟨_, _, rfl, isHexDigit_asciiUpper b⟩
    · obtain ⟨r, hr⟩ := upperPct_head b (d :: t)
      exact ⟨b, r, by rw [hr], rfl⟩

/-- `upperPct (c :: X)` when no escape starts at `c` -/
theorem upperPct_skip (c x y : Nat) (r : Str)
    (h : (c == 37 && isHexDigit x && isHexDigit y) = false) :
    upperPct (c :: x :: y :: r) = c :: upperPct (x :: y :: r) := by
  rw [upperPct]
  simp [h]

/-- every `%xy` with hex digits `x`, `y` has no lower-case letter -/
def escUpper : Str → Bool
  | c :: a :: b :: t =>
    (!(c == 37 && isHexDigit a && isHexDigit b) || (!isAsciiLower a && !isAsciiLower b)) &&
      escUpper (a :: b :: t)
  | _ => true

/-! ## Property theorems: percent escapes -/

/-- **C10, escapes (idempotence).** `uppercase_percent_encoding` applied to its own output changes nothing. -/
theorem upperPct_idem (s : Str) : upperPct (upperPct s) = upperPct s := by
  fun_induction upperPct s with
  | case1 c a b t h ih =>
    simp only [Bool.and_eq_true] at h
    rw [upperPct]
    have h1 : (c == 37 && isHexDigit (asciiUpper a) && isHexDigit (asciiUpper b)) = true := by
      simp [isHexDigit_asciiUpper, h.1.1, h.1.2, h.2]
    simp only [h1, if_true, asciiUpper_idem, ih]
  | case2 c a b t h ih =>
    obtain ⟨x, r, hx, hhex⟩ := upperPct_two a b t
    have hc : (c == 37 && isHexDigit a && isHexDigit b) = false := by simpa using h
    -- the second hex test looks at `x`, which is a hex digit iff `b` is
    rw [hx] at ih ⊢
    have hc' : (c == 37 && isHexDigit a && isHexDigit x) = false := by rw [hhex]; exact hc
    rw [upperPct_skip c a x r hc', ih]
  | case3 c a => simp [upperPct]
  | case4 c => simp [upperPct]
  | case5 => simp [upperPct]

/-- **C10, escapes (upper case).**  In the output of `uppercase_percent_encoding`
every `%` followed by two hex digits has upper-case hex digits. -/
theorem upperPct_escUpper (s : Str) : escUpper (upperPct s) = true := by
  fun_induction upperPct s with
  | case1 c a b t h ih =>
    simp only [Bool.and_eq_true] at h
    have ha := isHexDigit_ne_37 (by rw [isHexDigit_asciiUpper]; exact h.1.2 : isHexDigit (asciiUpper a) = true)
    have hb := isHexDigit_ne_37 (by rw [isHexDigit_asciiUpper]; exact h.2 : isHexDigit (asciiUpper b) = true)
    cases hu : upperPct t with
    | nil => simp [escUpper, asciiUpper_not_lower]
    | cons x r =>
      cases r with
      | nil => simp [escUpper, asciiUpper_not_lower, ha]
      | cons y r =>
        rw [hu] at ih
        simp [escUpper, asciiUpper_not_lower, ha, hb]
        simpa [escUpper] using ih
  | case2 c a b t h ih =>
    obtain ⟨x, r, hx, hhex⟩ := upperPct_two a b t
    have hc : (c == 37 && isHexDigit a && isHexDigit b) = false := by simpa using h
    rw [hx] at ih ⊢
    have hc' : (c == 37 && isHexDigit a && isHexDigit x) = false := by rw [hhex]; exact hc
    rw [escUpper, hc', ih]; rfl
  | case3 c a => simp [escUpper]
  | case4 c => simp [escUpper]
  | case5 => simp [escUpper]

example : upperPct [37, 97, 70, 37, 37, 97, 102, 37, 103, 48] = [37, 65, 70, 37, 37, 65, 70, 37, 103, 48] := by decide
example : escUpper [37, 97, 70] = false := by decide

/-! ## helper lemmas: percent-encoding -/

theorem pctBytes_append (set : List Nat) (x y : Bytes) :
    pctBytes set (x ++ y) = pctBytes set x ++ pctBytes set y := by
  induction x with
  | nil => simp [pctBytes]
  | cons a t ih => simp [pctBytes, ih]

/-- the encode set leaves `%` and the sixteen upper-case hex digits alone -/
def SetClosed (set : List Nat) : Prop :=
  set.contains 37 = false ∧ ∀ n, n < 16 → set.contains (hexChar n) = false

instance (set : List Nat) : Decidable (SetClosed set) := by unfold SetClosed; exact inferInstance

/-- a character that `percent_encode` with this set passes through unchanged -/
def Stable (set : List Nat) (c : Nat) : Prop := 0x20 ≤ c ∧ c ≤ 0x7E ∧ set.contains c = false

theorem pctByte_stable {set : List Nat} {c : Nat} (h : Stable set c) : pctByte set c = [c] := by
  obtain ⟨h1, h2, h3⟩ := h
  unfold pctByte
  split
  · rename_i h
    simp only [Bool.or_eq_true, decide_eq_true_eq] at h
    rcases h with (h | h) | h
    · omega
    · omega
    · rw [h3] at h; cases h
  · rfl

theorem pctBytes_stable {set : List Nat} : ∀ {s : Str}, (∀ c ∈ s, Stable set c) → pctBytes set s = s
  | [], _ => rfl
  | c :: t, h => by
    rw [pctBytes, pctByte_stable (h c (by simp)), pctBytes_stable (fun x hx => h x (by simp [hx]))]
    rfl

theorem hexChar_range {n : Nat} (h : n < 16) : 48 ≤ hexChar n ∧ hexChar n ≤ 70 := by
  unfold hexChar; split <;> omega

theorem stable_hexChar {set : List Nat} (hs : SetClosed set) {n : Nat} (h : n < 16) : Stable set (hexChar n) :=
  ⟨by have := hexChar_range h; omega, by have := hexChar_range h; omega, hs.2 n h⟩

theorem stable_pct {set : List Nat} (hs : SetClosed set) : Stable set 37 := ⟨by omega, by omega, hs.1⟩

/-- every character that `percent_encode` emits is passed through by a second run -/
theorem pctByte_out_stable {set : List Nat} (hs : SetClosed set) {b : Nat} (hb : b < 256) :
    ∀ c ∈ pctByte set b, Stable set c := by
  unfold pctByte
  split
  · intro c hc
    simp only [List.mem_cons, List.not_mem_nil, or_false] at hc
    rcases hc with rfl | rfl | rfl
    · exact stable_pct hs
    · exact stable_hexChar hs (by omega)
    · exact stable_hexChar hs (by omega)
  · rename_i h
    simp only [Bool.or_eq_true, decide_eq_true_eq, not_or, Bool.not_eq_true] at h
    intro c hc
    simp only [List.mem_cons, List.not_mem_nil, or_false] at hc
    subst hc
    exact ⟨by omega, by omega, h.2⟩

theorem pctBytes_out_stable {set : List Nat} (hs : SetClosed set) :
    ∀ {bs : Bytes}, (∀ b ∈ bs, b < 256) → ∀ c ∈ pctBytes set bs, Stable set c
  | [], _ => by intro c hc; simp [pctBytes] at hc
  | b :: t, h => by
    intro c hc
    rw [pctBytes, List.mem_append] at hc
    rcases hc with hc | hc
    · exact pctByte_out_stable hs (h b (by simp)) c hc
    · exact pctBytes_out_stable hs (fun x hx => h x (by simp [hx])) c hc

theorem utf8Enc_ascii : ∀ {s : Str}, (∀ c ∈ s, c < 128) → utf8Enc s = .ok s
  | [], _ => rfl
  | c :: t, h => by
    have hc : c < 128 := h c (by simp)
    have ht := utf8Enc_ascii (s := t) (fun x hx => h x (by simp [hx]))
    unfold utf8Enc at ht ⊢
    unfold encodeBy
    have : utf8Enc1 c = .ok [c] := by unfold utf8Enc1; simp [hc]
    simp [this, ht]

/-- `upperPct` keeps characters stable (it only turns a–f into A–F) -/
theorem upperPct_stable {set : List Nat} (hs : SetClosed set) (s : Str) (h : ∀ c ∈ s, Stable set c) :
    ∀ c ∈ upperPct s, Stable set c := by
  fun_induction upperPct s with
  | case1 c a b t hm ih =>
    simp only [Bool.and_eq_true] at hm
    have up : ∀ x, isHexDigit x = true → Stable set x → Stable set (asciiUpper x) := by
      intro x hx hst
      unfold asciiUpper
      split
      · rename_i hl
        unfold isAsciiLower at hl
        unfold isHexDigit isAsciiDigit at hx
        simp only [Bool.and_eq_true, decide_eq_true_eq] at hl
        simp only [Bool.or_eq_true, Bool.and_eq_true, decide_eq_true_eq] at hx
        have : x - 32 = hexChar (x - 87) := by unfold hexChar; split <;> omega
        rw [this]
        exact stable_hexChar hs (by omega)
      · exact hst
    intro x hx
    simp only [List.mem_cons] at hx
    rcases hx with rfl | rfl | rfl | hx
    · exact h _ (by simp)
    · exact up a hm.1.2 (h a (by simp))
    · exact up b hm.2 (h b (by simp))
    · exact ih (fun y hy => h y (by simp [hy])) x hx
  | case2 c a b t hm ih =>
    intro x hx
    simp only [List.mem_cons] at hx
    rcases hx with rfl | hx
    · exact h _ (by simp)
    · exact ih (fun y hy => h y (List.mem_cons_of_mem _ hy)) x hx
  | case3 c a => exact h
  | case4 c => exact h
  | case5 => exact h

theorem defaultSet_closed : SetClosed defaultSet := by decide
theorem querySet_closed : SetClosed querySet := by decide
theorem fragmentSet_closed : SetClosed fragmentSet := by decide

/-! ## Property theorems: percent-encoding is the identity on its own output -/

/-- **C10, percent-encoding (bytes).**  For each of the five encode sets (any set
that does not hold `%` or an upper-case hex digit), encoding the encoder's own
output changes nothing. -/
theorem pctBytes_idem {set : List Nat} (hs : SetClosed set) {bs : Bytes} (hb : ∀ b ∈ bs, b < 256) :
    pctBytes set (pctBytes set bs) = pctBytes set bs :=
  pctBytes_stable (pctBytes_out_stable hs hb)

/-- **C10, percent-encoding (text).**  `percent_encode` (UTF-8) of an output of
`percent_encode` followed by `uppercase_percent_encoding` returns it unchanged — the
normal form of a query / fragment / user name / password component is a fixed point. -/
theorem percentEncode_fixed {set : List Nat} (hs : SetClosed set) {bs : Bytes} (hb : ∀ b ∈ bs, b < 256) :
    percentEncode utf8Enc set (upperPct (pctBytes set bs)) = .ok (upperPct (pctBytes set bs)) := by
  have hst := upperPct_stable hs _ (pctBytes_out_stable hs hb)
  unfold percentEncode
  rw [utf8Enc_ascii (fun c hc => by have := hst c hc; unfold Stable at this; omega)]
  simp only
  rw [pctBytes_stable hst]

/-- **C10, character class of a component.**  With an encode set that holds the
space (path, fragment, user name, password), every character of the normalised
component is in `0x21..0x7e`. -/
theorem component_ascii {set : List Nat} (hs : SetClosed set) (h32 : set.contains 32 = true)
    {bs : Bytes} (hb : ∀ b ∈ bs, b < 256) :
    ∀ c ∈ upperPct (pctBytes set bs), 0x21 ≤ c ∧ c ≤ 0x7E := by
  intro c hc
  obtain ⟨h1, h2, h3⟩ := upperPct_stable hs _ (pctBytes_out_stable hs hb) c hc
  refine ⟨?_, h2⟩
  by_cases h : c = 32
  · subst h; rw [h32] at h3; cases h3
  · omega

example : pctBytes defaultSet [32, 0xC3, 0xA9, 37, 97] = [37, 50, 48, 37, 67, 51, 37, 65, 57, 37, 97] := by decide

/-! ## helper lemmas: host -/

theorem tryIpv4_ok {h r : Str} (hh : tryIpv4 h = .ok r) :
    (normalizeIpv4 h = .ok r) ∨ (r = h ∧ ∃ e, normalizeIpv4 h = .error e) := by
  unfold tryIpv4 at hh
  split at hh
  · rename_i x hx; cases hh; exact Or.inl hx
  · rename_i e he
    split at hh
    · cases hh; exact Or.inr ⟨rfl, e, he⟩
    · cases hh

theorem asciiLower_idem (a : Nat) : asciiLower (asciiLower a) = asciiLower a := by
  have key : ∀ x, isAsciiUpper x = false → asciiLower x = x := by
    intro x h; simp [asciiLower, h]
  apply key
  unfold asciiLower
  split
  · rename_i h
    unfold isAsciiUpper at h ⊢
    simp only [Bool.and_eq_true, decide_eq_true_eq] at h
    simp only [Bool.and_eq_false_iff, decide_eq_false_iff_not]
    omega
  · rename_i h; simpa using h

theorem map_eq_self {f : Nat → Nat} : ∀ {l : List Nat}, (∀ x ∈ l, f x = x) → l.map f = l
  | [], _ => rfl
  | a :: t, h => by
    simp [h a (by simp), map_eq_self (l := t) (fun x hx => h x (by simp [hx]))]

theorem asciiLower_props (a : Nat) (h : a < 128) :
    asciiLower a < 128 ∧ isAsciiUpper (asciiLower a) = false := by
  unfold asciiLower
  split
  · rename_i hu
    unfold isAsciiUpper at hu ⊢
    simp only [Bool.and_eq_true, decide_eq_true_eq] at hu
    refine ⟨by omega, ?_⟩
    simp only [Bool.and_eq_false_iff, decide_eq_false_iff_not]; omega
  · rename_i hu; exact ⟨h, by simpa using hu⟩

theorem isAscii_iff {s : List Nat} : isAscii s = true ↔ ∀ c ∈ s, c < 128 := by
  unfold isAscii; simp [List.all_eq_true]

/-- the ASCII fast path of the `idna` codec does not depend on the parameters -/
theorem idnaEncode_ascii (c c' : Cfg) {h : Str} {b : Bytes} (ha : isAscii h = true)
    (hh : idnaEncode c h = .ok b) : b = h ∧ idnaEncode c' h = .ok h := by
  unfold idnaEncode at hh ⊢
  by_cases he : h.isEmpty = true
  · simp only [he, ↓reduceIte] at hh ⊢
    cases hh
    have : h = [] := by simpa using he
    subst this; exact ⟨rfl, rfl⟩
  · simp only [he, ha, ↓reduceIte] at hh ⊢
    cases hl : idnaLabelsOk (splitC 46 h) with
    | true => rw [hl] at hh; simp only [↓reduceIte] at hh; cases hh; simp
    | false => rw [hl] at hh; simp at hh

/-- what `normalize_hostname` returns: ASCII, lower-case, accepted unchanged by the codec's fast path -/
theorem normalizeHostname_ok {c : Cfg} {h n : Str} (hh : normalizeHostname c h = .ok n) :
    isAscii n = true ∧ n.map asciiLower = n ∧ (∀ x ∈ n, isAsciiUpper x = false) ∧
    ∀ c' : Cfg, idnaEncode c' n = .ok n := by
  unfold normalizeHostname at hh
  split at hh
  · split at hh <;> cases hh
  · rename_i b hb
    split at hh
    · cases hh
    · rename_i hasc
      have hasc' : isAscii b = true := by simpa using hasc
      have hall : ∀ x ∈ b, x < 128 := isAscii_iff.mp hasc'
      have hn_ascii : isAscii (b.map asciiLower) = true := by
        apply isAscii_iff.mpr
        intro x hx
        obtain ⟨y, hy, rfl⟩ := List.mem_map.mp hx
        exact (asciiLower_props y (hall y hy)).1
      have hn_lower : (b.map asciiLower).map asciiLower = b.map asciiLower := by
        simp [List.map_map, Function.comp_def, asciiLower_idem]
      have hn_noupper : ∀ x ∈ b.map asciiLower, isAsciiUpper x = false := by
        intro x hx
        obtain ⟨y, hy, rfl⟩ := List.mem_map.mp hx
        exact (asciiLower_props y (hall y hy)).2
      simp only at hh
      split at hh
      · split at hh
        · cases hh
        · rename_i b' hb'
          cases hh
          exact ⟨hn_ascii, hn_lower, hn_noupper, fun c' => (idnaEncode_ascii c c' hn_ascii hb').2⟩
      · rename_i heq
        cases hh
        have heq' : h = b.map asciiLower := by simpa using heq
        refine ⟨hn_ascii, hn_lower, hn_noupper, fun c' => ?_⟩
        have := idnaEncode_ascii c c' (heq' ▸ hn_ascii) hb
        rw [← heq']; exact this.2

/-- a text with these three properties is a fixed point of `normalize_hostname`, whatever the parameters -/
theorem normalizeHostname_fixed (c : Cfg) {n : Str} (ha : isAscii n = true)
    (hl : n.map asciiLower = n) (hi : idnaEncode c n = .ok n) : normalizeHostname c n = .ok n := by
  unfold normalizeHostname
  rw [hi]
  simp [ha, hl]

theorem ipv4Compressed_fixed (c : Cfg) (n : Nat) :
    normalizeHostname c (ipv4Compressed n) = .ok (ipv4Compressed n) := by
  have hch := ipv4Compressed_chars n
  have ha : isAscii (ipv4Compressed n) = true :=
    isAscii_iff.mpr (fun x hx => by rcases hch x hx with h | h <;> omega)
  have hl : (ipv4Compressed n).map asciiLower = ipv4Compressed n := by
    apply map_eq_self
    intro x hx
    unfold asciiLower isAsciiUpper
    have : (decide (65 ≤ x) && decide (x ≤ 90)) = false := by
      simp only [Bool.and_eq_false_iff, decide_eq_false_iff_not]
      rcases hch x hx with h | h <;> omega
    simp [this]
  apply normalizeHostname_fixed c ha hl
  unfold idnaEncode
  split
  · rename_i he; have : ipv4Compressed n = [] := by simpa using he
    rw [this]
  · simp [ha, ipv4Compressed_labels n]

/-! ## Property theorems: host -/

/-- **C10, host (character class and case).**  A host name returned by
`parse_hostname` for a non-bracketed host is ASCII, has no upper-case letter and none
of the forbidden characters `#%/:?@[\]` or space. -/
theorem hostname_lower_ascii (c : Cfg) {h hn : Str} (hb : startsWith h [91] = false)
    (hh : parseHostname c h = .ok hn) :
    ∀ x ∈ hn, x < 128 ∧ isAsciiUpper x = false ∧ forbiddenHost.contains x = false := by
  unfold parseHostname at hh
  rw [hb] at hh
  simp only [Bool.false_eq_true, if_false] at hh
  split at hh
  · cases hh
  · split at hh
    · cases hh
    · rename_i h2 hh2
      split at hh
      · cases hh
      · rename_i h3 hh3
        split at hh
        · cases hh
        · rename_i hforb
          cases hh
          intro x hx
          have hf : forbiddenHost.contains x = false := by
            cases hf : forbiddenHost.contains x with
            | false => rfl
            | true => exfalso; apply hforb; exact List.any_eq_true.mpr ⟨x, hx, hf⟩
          obtain ⟨hasc, _, hnu, _⟩ := normalizeHostname_ok hh2
          rcases tryIpv4_ok hh3 with h4 | ⟨rfl, _⟩
          · obtain ⟨n, _, rfl⟩ := normalizeIpv4_ok h4
            have := ipv4Compressed_chars n x hx
            refine ⟨by rcases this with h | h <;> omega, ?_, hf⟩
            unfold isAsciiUpper
            simp only [Bool.and_eq_false_iff, decide_eq_false_iff_not]
            rcases this with h | h <;> omega
          · exact ⟨isAscii_iff.mp hasc x hx, hnu x hx, hf⟩

/-- **C10, host (idempotence / re-parse).**  The host name that `parse_hostname`
returns for a non-bracketed host is returned unchanged when parsed again — under
any parameters (no IDNA or Unicode table is consulted the second time).  This is
the statement that failed before the repair (`0X7f000001 → 0x7f000001 → 127.0.0.1`). -/
theorem hostname_idem (c c' : Cfg) {h hn : Str} (hb : startsWith h [91] = false)
    (hh : parseHostname c h = .ok hn) : parseHostname c' hn = .ok hn := by
  have hchars := hostname_lower_ascii c hb hh
  have hnb : startsWith hn [91] = false := by
    cases hn with
    | nil => rfl
    | cons a t =>
      have := (hchars a (by simp)).2.2
      simp only [startsWith, Bool.and_true, beq_eq_false_iff_ne, ne_eq]
      intro h91; subst h91; simp [forbiddenHost] at this
  have hforb : hn.any forbiddenHost.contains = false := by
    cases hf : hn.any forbiddenHost.contains with
    | false => rfl
    | true =>
      obtain ⟨x, hx, hc⟩ := List.any_eq_true.mp hf
      rw [(hchars x hx).2.2] at hc; cases hc
  unfold parseHostname at hh
  rw [hb] at hh
  simp only [Bool.false_eq_true, if_false] at hh
  split at hh
  · cases hh
  · split at hh
    · cases hh
    · rename_i h2 hh2
      split at hh
      · cases hh
      · rename_i h3 hh3
        split at hh
        · cases hh
        · cases hh
          obtain ⟨hasc, hlow, _, hidna⟩ := normalizeHostname_ok hh2
          unfold parseHostname
          rw [hnb]
          simp only [Bool.false_eq_true, if_false]
          rcases tryIpv4_ok hh3 with h4 | ⟨rfl, e, he⟩
          · obtain ⟨n, hn, rfl⟩ := normalizeIpv4_ok h4
            have ht : tryIpv4 (ipv4Compressed n) = .ok (ipv4Compressed n) := by
              unfold tryIpv4; rw [ipv4_canonical_reparse n hn]
            rw [ht]
            simp only
            rw [ipv4Compressed_fixed c' n]
            simp only
            rw [ht]
            simp [hforb]
          · rw [hh3]
            simp only
            rw [normalizeHostname_fixed c' hasc hlow (hidna c')]
            simp only
            rw [hh3]
            simp [hforb]

-- the repaired defect, on the model: `0X7f000001` is normalised in one step
example : parseHostname cfgT [48, 88, 55, 102, 48, 48, 48, 48, 48, 49] = .ok [49, 50, 55, 46, 48, 46, 48, 46, 49] := by
  decide

/-! ## Property theorems: path -/

/-- **C10, path (flat and absolute).**  The output of `flatten_path(…, flatten_slashes=True)`
is `/` followed by `/`-joined segments none of which is `.` or `..`, and none of which
is empty except possibly the last. -/
theorem flatten_clean (p : Str) :
    ∃ segs, CleanSegs segs ∧ flattenPath true p = 47 :: joinWith [47] segs :=
  flattenPath_clean p

/-- **C10, path (idempotence).** -/
theorem flatten_idem (p : Str) : flattenPath true (flattenPath true p) = flattenPath true p :=
  flattenPath_idem p

example : flattenPath true [47, 97, 47, 47, 46, 47, 98, 47, 46, 46, 47, 99, 47] = [47, 97, 47, 99, 47] := by decide

/-! ## Property theorems: IPv4 -/

/-- **C10, IPv4.**  Every spelling that `normalize_ipv4_address` accepts is mapped to a
dotted-decimal form that the function maps to itself (decimal / octal / hex / dword
spellings of one address meet in one fixed point). -/
theorem ipv4_normal_form_fixed {a r : Str} (h : normalizeIpv4 a = .ok r) : normalizeIpv4 r = .ok r := by
  obtain ⟨n, hn, rfl⟩ := normalizeIpv4_ok h
  exact ipv4_canonical_reparse n hn

-- 0x7f.1.0x0.01 (hex, decimal, hex, octal) and the dword 2130771969 are the same address
example : normalizeIpv4 [48, 120, 55, 102, 46, 49, 46, 48, 120, 48, 46, 48, 49] = .ok [49, 50, 55, 46, 49, 46, 48, 46, 49] := by decide
example : normalizeIpv4 [50, 49, 51, 48, 55, 55, 49, 57, 54, 57] = .ok [49, 50, 55, 46, 49, 46, 48, 46, 49] := by decide

/-! ## Property theorems: scheme and port -/

theorem lookup_mem {k : Str} {v : Nat} : ∀ {l : List (Str × Nat)}, l.lookup k = some v → (k, v) ∈ l
  | [], h => by simp [List.lookup] at h
  | (k', v') :: t, h => by
    unfold List.lookup at h
    split at h
    · rename_i heq
      cases h
      have : k = k' := by simpa using heq
      subst this; simp
    · exact List.mem_cons_of_mem _ (lookup_mem h)

/-- **C10, scheme.**  A network scheme of a parse result is one of the six constants:
lower-case ASCII letters only. -/
theorem scheme_lower {s : Option Str} {sch : Str} {dp : Nat} (h : netScheme? s = some (sch, dp)) :
    ∀ x ∈ sch, isAsciiLower x = true := by
  unfold netScheme? at h
  split at h
  · cases h
  · split at h
    · cases h
    · rename_i x d hd
      cases h
      have hm := lookup_mem (l := schemePorts) hd
      simp only [schemePorts, List.mem_cons, Prod.mk.injEq, List.not_mem_nil, or_false] at hm
      rcases hm with ⟨rfl, _⟩ | ⟨rfl, _⟩ | ⟨rfl, _⟩ | ⟨rfl, _⟩ | ⟨rfl, _⟩ | ⟨rfl, _⟩ <;> decide

/-- **C10, default port.**  When the port of a result is the scheme's default port, the
reassembled URL goes from the host straight to the path: no `:port` is written. -/
theorem default_port_elided (i : URLInfo) (sch : Str) (dp : Nat)
    (hs : netScheme? i.scheme = some (sch, dp)) (hp : i.port = some dp) (u : Str) (hu : i.url = .ok u) :
    ∃ ui, u = sch ++ [58, 47, 47] ++ ui ++
      (if i.isIPv6 == some true then [91] ++ i.hostname.getD [] ++ [93] else i.hostname.getD []) ++
      i.path.getD [] ++
      (match i.query with
       | some q => if q.isEmpty then [] else 63 :: q
       | none => []) := by
  unfold URLInfo.url at hu
  rw [hs] at hu
  simp only at hu
  split at hu
  · cases hu
  · split at hu
    · cases hu
    · rename_i x1 a ha x2 b hb
      cases hu
      refine ⟨a ++ (if (i.password.getD []).isEmpty then [] else 58 :: b) ++
        (if (i.username.getD []).isEmpty && (i.password.getD []).isEmpty then [] else [64]), ?_⟩
      simp only [hp, bne_self_eq_false, Bool.false_eq_true, if_false, List.append_nil, List.append_assoc]
      rfl

/-- **C10, port kept.**  Converse of `default_port_elided`: a port that is not the default
of the URL's *own* scheme (in particular the default port of another scheme: `https://h:80/`)
is written, in decimal, between host and path. -/
theorem nondefault_port_kept (i : URLInfo) (sch : Str) (dp p : Nat)
    (hs : netScheme? i.scheme = some (sch, dp)) (hp : i.port = some p) (hne : p ≠ dp)
    (u : Str) (hu : i.url = .ok u) :
    ∃ ui, u = sch ++ [58, 47, 47] ++ ui ++
      (if i.isIPv6 == some true then [91] ++ i.hostname.getD [] ++ [93] else i.hostname.getD []) ++
      (58 :: natDec p) ++ i.path.getD [] ++
      (match i.query with
       | some q => if q.isEmpty then [] else 63 :: q
       | none => []) := by
  unfold URLInfo.url at hu
  rw [hs] at hu
  simp only at hu
  split at hu
  · cases hu
  · split at hu
    · cases hu
    · rename_i x1 a ha x2 b hb
      cases hu
      refine ⟨a ++ (if (i.password.getD []).isEmpty then [] else 58 :: b) ++
        (if (i.username.getD []).isEmpty && (i.password.getD []).isEmpty then [] else [64]), ?_⟩
      have hne' : (some dp != some p) = true := by
        simp only [bne_iff_ne, ne_eq, Option.some.injEq]; exact fun h => hne h.symm
      simp only [hp, hne', if_true, Option.getD_some, List.append_assoc]
      rfl

-- https on port 80 (the default of another scheme) keeps its port
example : (parse cfgT [104, 116, 116, 112, 115, 58, 47, 47, 104, 58, 56, 48, 47]).bind URLInfo.url
    = .ok [104, 116, 116, 112, 115, 58, 47, 47, 104, 58, 56, 48, 47] := by decide

/-- **C10, port re-parse.**  The `host:port` part of a normal form gives back the same host
name and the same port: for a (non-bracketed) host name `hn` returned by `parse_hostname` and
any port `p` ≤ 65535 written in decimal, `parse_host(hn + ':' + str(p)) = (hn, p)`, under any
parameters.  With `nondefault_port_kept` / `default_port_elided`: a kept port is read back
as itself, so two URLs of one scheme that differ in the port differ in the normal form. -/
theorem hostport_reparse (c c' : Cfg) {h hn : Str} (hb : startsWith h [91] = false)
    (hh : parseHostname c h = .ok hn) (p : Nat) (hp : p < 65536) :
    parseHost c' (hn ++ 58 :: natDec p) = .ok (hn, some p) := by
  have hdig := natDec_digits p
  have hno : 58 ∉ natDec p := by
    intro hm; have := hdig.2 58 hm; omega
  unfold parseHost
  rw [endsWith_bracket_natDec hn p]
  simp only [Bool.false_eq_true, if_false, rpartition1_append hn (natDec p) hno, if_true]
  rw [pyInt_natDec p hp]
  simp only
  have h1 : ¬ (Int.ofNat p < 0) := by
    show ¬ ((p : Int) < 0); omega
  have h2 : ¬ (Int.ofNat p > 65535) := by
    show ¬ ((p : Int) > 65535); omega
  have hrange : (decide (Int.ofNat p < 0) || decide (Int.ofNat p > 65535)) = false :=
    Bool.or_eq_false_iff.mpr ⟨decide_eq_false h1, decide_eq_false h2⟩
  rw [hrange]
  simp only [Bool.false_eq_true, if_false]
  rw [hostname_idem c c' hb hh]
  rfl

/-- a port different from the default is written in decimal after the host -/
example : (parse cfgT [104, 116, 116, 112, 58, 47, 47, 104, 58, 56, 49]).bind URLInfo.url
    = .ok [104, 116, 116, 112, 58, 47, 47, 104, 58, 56, 49, 47] := by decide
example : (parse cfgT [104, 116, 116, 112, 58, 47, 47, 104, 58, 48, 56, 48]).bind URLInfo.url
    = .ok [104, 116, 116, 112, 58, 47, 47, 104, 47] := by decide

/-! The composed statements (`norm_idem`, `norm_reparse`, `norm_ascii`, `C10_full_holds`) are in Proofs/C10Norm.lean. -/

end Wpull.Url
