/-
C02 — No request is ever made for a URL outside the configured scope.
Property theorems over the model `Wpull.Filter` (helper lemmas first; the
property statements are the `theorem`s in the section "Property theorems").
All theorems hold for every `Oracles` value, i.e. for every behaviour of the
`re` engine and of `fnmatch`.
-/
import Wpull.Filter
namespace Wpull.Filter
open Wpull

/-! ## helper lemmas -/

theorem filter_not_length_zero_iff_all {α} (p : α → Bool) (l : List α) :
    ((l.filter (fun x => !p x)).length == 0) = l.all p := by
  induction l with
  | nil => rfl
  | cons a t ih =>
    cases h : p a <;> simp [List.filter, h] at ih ⊢
    exact ih

theorem mem_failed_iff (o : Oracles) (fs : List Filter) (u : Info) (r : Rec) (f : Filter) :
    f ∈ (testInfo o fs u r).failed ↔ f ∈ fs ∧ f.test o u r = false := by
  simp [testInfo, List.mem_filter]

theorem mem_passed_iff (o : Oracles) (fs : List Filter) (u : Info) (r : Rec) (f : Filter) :
    f ∈ (testInfo o fs u r).passed ↔ f ∈ fs ∧ f.test o u r = true := by
  simp [testInfo, List.mem_filter]

/-- a key found in the dict was assigned by some element of the list -/
theorem dictGet_some_mem (l : List (String × Bool)) (k : String) (v : Bool)
    (h : dictGet l k = some v) : (k, v) ∈ l := by
  unfold dictGet at h
  cases hf : l.reverse.find? (fun e => e.1 == k) with
  | none => simp [hf] at h
  | some e =>
    simp [hf] at h
    have hm := List.mem_of_find?_eq_some hf
    have hp := List.find?_some hf
    simp at hp hm
    obtain ⟨a, b⟩ := e
    simp at hp h
    subst hp; subst h
    exact hm

theorem name_spanHosts (f : Filter) (h : f.name = "SpanHostsFilter") : f.isSpanHosts = true := by
  cases f <;> simp [Filter.name] at h <;> rfl

/-- what `is_only_span_hosts_failed` establishes -/
theorem onlySpanHosts_sound (o : Oracles) (fs : List Filter) (u : Info) (r : Rec)
    (h : isOnlySpanHostsFailed (testInfo o fs u r) = true) :
    ∃ f, (testInfo o fs u r).failed = [f] ∧ f.isSpanHosts = true := by
  unfold isOnlySpanHostsFailed at h
  simp only [Bool.and_eq_true, beq_iff_eq] at h
  obtain ⟨hlen, hget⟩ := h
  have hmem := dictGet_some_mem _ _ _ hget
  simp only [testInfo, List.mem_map] at hmem
  obtain ⟨f, hf, hpair⟩ := hmem
  simp only [Prod.mk.injEq] at hpair
  have hfailed : f ∈ (testInfo o fs u r).failed := (mem_failed_iff o fs u r f).2 ⟨hf, hpair.2⟩
  match hl : (testInfo o fs u r).failed, hlen, hfailed with
  | [g], _, hm =>
    simp at hm
    exact ⟨g, rfl, hm ▸ name_spanHosts f hpair.1⟩

theorem ite_append_self {α} (c : Prop) [Decidable c] (l m : List α) :
    (if c then l ++ m else l) = l ++ (if c then m else []) := by
  split <;> simp

theorem addIf_eq (c : Bool) (f : Filter) (l : List Filter) :
    addIf c f l = l ++ (if c then [f] else []) := by
  unfold addIf; split <;> simp

/-! ## Property theorems -/

/-- **verdict is "no filter failed" = conjunction.**  `DemuxURLFilter.test_info`'s
verdict is exactly the conjunction of the single filters' (truthiness) results,
for every filter list, URL and record. -/
theorem verdict_is_conjunction (o : Oracles) (fs : List Filter) (u : Info) (r : Rec) :
    (testInfo o fs u r).verdict = fs.all (fun f => f.test o u r) := by
  simp only [testInfo]
  exact filter_not_length_zero_iff_all _ fs

/-- `passed` / `failed` partition the list by the filter results. -/
theorem failed_exact (o : Oracles) (fs : List Filter) (u : Info) (r : Rec) :
    (∀ f, f ∈ (testInfo o fs u r).failed ↔ f ∈ fs ∧ f.test o u r = false) ∧
    (∀ f, f ∈ (testInfo o fs u r).passed ↔ f ∈ fs ∧ f.test o u r = true) :=
  ⟨mem_failed_iff o fs u r, mem_passed_iff o fs u r⟩

/-- **the redirect waiver is limited to the span-hosts rule.**  Whenever
`consult_filters` says "fetch", either every filter passed, or the caller said
"this is a redirect" and exactly one filter failed and that filter is a
`SpanHostsFilter` (so every other configured rule passed). -/
theorem waiver_only_span_hosts (o : Oracles) (fs : List Filter) (u : Info) (r : Rec) (isRedirect : Bool)
    (h : (consult o fs u r isRedirect).verdict = true) :
    (testInfo o fs u r).verdict = true ∨
    (isRedirect = true ∧ ∃ f, (testInfo o fs u r).failed = [f] ∧ f.isSpanHosts = true) := by
  unfold consult at h
  by_cases hv : (testInfo o fs u r).verdict = true
  · exact Or.inl hv
  · right
    simp only [hv] at h
    by_cases hw : (isRedirect && isOnlySpanHostsFailed (testInfo o fs u r)) = true
    · simp only [Bool.and_eq_true] at hw
      exact ⟨hw.1, onlySpanHosts_sound o fs u r hw.2⟩
    · simp [hw] at h

/-- In the waiver case every rule other than the one span-hosts filter passed. -/
theorem waiver_others_pass (o : Oracles) (fs : List Filter) (u : Info) (r : Rec) (isRedirect : Bool)
    (h : (consult o fs u r isRedirect).verdict = true) :
    ∀ g ∈ fs, g.test o u r = false → (isRedirect = true ∧ g.isSpanHosts = true) := by
  intro g hg hfalse
  have hgf : g ∈ (testInfo o fs u r).failed := (mem_failed_iff o fs u r g).2 ⟨hg, hfalse⟩
  rcases waiver_only_span_hosts o fs u r isRedirect h with hv | ⟨hr, f, hf, hs⟩
  · rw [verdict_is_conjunction, List.all_eq_true] at hv
    have := hv g hg
    simp [hfalse] at this
  · rw [hf] at hgf
    simp at hgf
    exact ⟨hr, hgf ▸ hs⟩

/-- Without the redirect flag there is no waiver at all. -/
theorem no_waiver_without_redirect (o : Oracles) (fs : List Filter) (u : Info) (r : Rec) :
    (consult o fs u r false).verdict = (fs.all (fun f => f.test o u r)) := by
  rw [← verdict_is_conjunction]
  by_cases h : (testInfo o fs u r).verdict = true <;> simp [consult, h]

/-- The filter list an option set must give: one line per option, written
independently of `buildFilters` (which mirrors the code statement by statement). -/
def reference (a : Options) : List Filter :=
  [if a.httpsOnly then .httpsOnly else .scheme [lit "http", lit "https", lit "ftp"]]        -- scheme
  ++ [.recursive a.recursive a.pageRequisites]                                             -- recursion
  ++ [.followFtp a.followFtp]                                                              -- ftp links from web pages
  ++ (if a.noParent then [.parent] else [])                                                -- no-parent
  ++ (if a.domains ≠ [] ∨ a.excludeDomains ≠ [] then [.backwardDomain a.domains a.excludeDomains] else [])
  ++ (if a.hostnames ≠ [] ∨ a.excludeHostnames ≠ [] then [.hostname a.hostnames a.excludeHostnames] else [])
  ++ (if a.tries ≠ 0 then [.tries a.tries] else [])                                        -- retry limit
  ++ (if (a.level ≠ 0 ∧ a.recursive = true) ∨ a.pageRequisitesLevel ≠ 0
        then [.level a.level a.pageRequisitesLevel] else [])                               -- depth limits
  ++ (if a.acceptRegex ≠ [] ∨ a.rejectRegex ≠ [] then [.regex a.acceptRegex a.rejectRegex] else [])
  ++ (if a.includeDirectories ≠ [] ∨ a.excludeDirectories ≠ []
        then [.directory a.includeDirectories a.excludeDirectories] else [])
  ++ (if a.accept ≠ [] ∨ a.reject ≠ [] then [.backwardFilename a.accept a.reject] else [])
  ++ [.spanHosts a.tableHostnames a.spanHosts a.spanAllowPageRequisites a.spanAllowLinkedPages]

/-- **option → filter construction.**  The code's construction yields exactly
the reference list: every option contributes its filter with its parameters,
nothing is dropped, nothing is added, for every option set. -/
theorem build_sound (a : Options) : buildFilters a = reference a := by
  simp [buildFilters, reference, addIf_eq, defaultSchemes, sHttp, sHttps, sFtp]

/-- For the filter list built from an option set, the verdict is the conjunction
of the rules the options stand for (`reference`): no configured rule is skipped. -/
theorem built_verdict_is_conjunction_of_option_rules (o : Oracles) (a : Options) (u : Info) (r : Rec) :
    (testInfo o (buildFilters a) u r).verdict = (reference a).all (fun f => f.test o u r) := by
  rw [verdict_is_conjunction, build_sound]

/-- What a guarded event is: a robots.txt fetch only with a checker configured and only
for the origin of a URL that `consult_filters` accepted at that moment (the item URL or
a redirect target: "an origin being visited"); a request only for a URL that
`consult_filters` accepted at that moment with the flag shown. -/
def Guarded (o : Oracles) (c : Cfg) (r : Rec) : Ev → Prop
  | .robotsTxt u => c.robots = true ∧ ∃ red, consultOk o c.fs u r red = true
  | .request u red => consultOk o c.fs u r red = true
  | .skip => True

theorem mem_robotsGate {u : Info} {rob : RobotsOutcome} {rest : List Ev} {ev : Ev}
    (h : ev ∈ robotsGate u rob rest) : ev = .robotsTxt u ∨ ev = .skip ∨ ev ∈ rest := by
  unfold robotsGate at h
  cases rob with
  | cached a => cases a <;> simp at h <;> simp [h]
  | fetched a =>
    cases a
    · simp at h; rcases h with h | h <;> simp [h]
    · simp at h; rcases h with h | h <;> simp [h]
  | error => simp at h; simp [h]

theorem mem_webLoop_tail (o : Oracles) (c : Cfg) (r : Rec) (next : Info) (fl : Bool) (resps : List Resp) (e : Ev)
    (he : e ∈ (Ev.request next fl ::
        match resps with
        | [] => []
        | .redirect t rb :: rest => webLoop o c r t true rb rest
        | .retrySame :: rest => webLoop o c r next false (.cached true) rest
        | .finish :: _ => [])) :
    e = .request next fl ∨
    (∃ t rb rest, resps = .redirect t rb :: rest ∧ e ∈ webLoop o c r t true rb rest) ∨
    (∃ rest, resps = .retrySame :: rest ∧ e ∈ webLoop o c r next false (.cached true) rest) := by
  simp only [List.mem_cons] at he
  rcases he with he | he
  · exact Or.inl he
  · cases resps with
    | nil => simp at he
    | cons x rest =>
      cases x with
      | redirect t rb => exact Or.inr (Or.inl ⟨t, rb, rest, rfl, he⟩)
      | retrySame => exact Or.inr (Or.inr ⟨rest, rfl, he⟩)
      | finish => simp at he

/-- the events after the consultation of one loop iteration -/
theorem mem_webLoop_cases (o : Oracles) (c : Cfg) (hv : c.virtual = false) (r : Rec) (next : Info) (redir : Bool)
    (rob : RobotsOutcome) (resps : List Resp) (ev : Ev)
    (hev : ev ∈ webLoop o c r next redir rob resps) :
    (consultOk o c.fs next r (c.strongRedirects && redir) = false ∧ ev = .skip) ∨
    (consultOk o c.fs next r (c.strongRedirects && redir) = true ∧
      ((ev = .robotsTxt next ∧ redir = true ∧ c.robots = true) ∨ ev = .skip ∨
       ev = .request next (c.strongRedirects && redir) ∨
       (∃ t rb rest, resps = .redirect t rb :: rest ∧ ev ∈ webLoop o c r t true rb rest) ∨
       (∃ rest, resps = .retrySame :: rest ∧ ev ∈ webLoop o c r next false (.cached true) rest))) := by
  unfold webLoop at hev
  simp only [checkSubsequent, hv, Bool.false_eq_true, ↓reduceIte] at hev
  by_cases hc : consultOk o c.fs next r (c.strongRedirects && redir) = true
  · right
    refine ⟨hc, ?_⟩
    simp only [hc, Bool.not_true, Bool.false_eq_true, ↓reduceIte] at hev
    have tail := fun {e : Ev} => mem_webLoop_tail o c r next (c.strongRedirects && redir) resps e
    by_cases hg : (redir && c.robots) = true
    · simp only [hg, ↓reduceIte] at hev
      simp only [Bool.and_eq_true] at hg
      rcases mem_robotsGate hev with h | h | h
      · exact Or.inl ⟨h, hg.1, hg.2⟩
      · exact Or.inr (Or.inl h)
      · exact Or.inr (Or.inr (tail h))
    · simp only [hg, Bool.false_eq_true, ↓reduceIte] at hev
      exact Or.inr (Or.inr (tail hev))
  · left
    simp only [Bool.not_eq_true] at hc
    simp [hc] at hev
    exact ⟨hc, hev⟩

theorem webLoop_guarded (o : Oracles) (c : Cfg) (hv : c.virtual = false) (r : Rec) (resps : List Resp) :
    ∀ (next : Info) (redir : Bool) (rob : RobotsOutcome),
      ∀ ev ∈ webLoop o c r next redir rob resps, Guarded o c r ev := by
  induction resps with
  | nil =>
    intro next redir rob ev hev
    rcases mem_webLoop_cases o c hv r next redir rob [] ev hev with ⟨_, rfl⟩ | ⟨hc, h⟩
    · trivial
    · rcases h with ⟨rfl, _, hr⟩ | rfl | rfl | ⟨_, _, _, h, _⟩ | ⟨_, h, _⟩
      · exact ⟨hr, _, hc⟩
      · trivial
      · exact hc
      · simp at h
      · simp at h
  | cons x rest ih =>
    intro next redir rob ev hev
    rcases mem_webLoop_cases o c hv r next redir rob (x :: rest) ev hev with ⟨_, rfl⟩ | ⟨hc, h⟩
    · trivial
    · rcases h with ⟨rfl, _, hr⟩ | rfl | rfl | ⟨t, rb, rest', h, hm⟩ | ⟨rest', h, hm⟩
      · exact ⟨hr, _, hc⟩
      · trivial
      · exact hc
      · simp only [List.cons.injEq] at h
        obtain ⟨_, rfl⟩ := h
        exact ih t true rb ev hm
      · simp only [List.cons.injEq] at h
        obtain ⟨_, rfl⟩ := h
        exact ih next false _ ev hm

/-- membership in a whole session trace: the initial gate, or the loop -/
theorem mem_webProcess_cases (o : Oracles) (c : Cfg) (hv : c.virtual = false) (r : Rec) (u0 : Info) (rob : RobotsOutcome)
    (resps : List Resp) (ev : Ev) (hev : ev ∈ webProcess o c r u0 rob resps) :
    ev = .skip ∨
    (ev = .robotsTxt u0 ∧ c.robots = true ∧ consultOk o c.fs u0 r false = true) ∨
    ev ∈ webLoop o c r u0 false (.cached true) resps := by
  unfold webProcess at hev
  by_cases hv : consultOk o c.fs u0 r false = true <;> by_cases hr : c.robots = true
  · simp only [hv, hr, Bool.and_self, ↓reduceIte] at hev
    rcases mem_robotsGate hev with h | h | h
    · exact Or.inr (Or.inl ⟨h, hr, hv⟩)
    · exact Or.inl h
    · exact Or.inr (Or.inr h)
  · simp [hv, hr] at hev
    exact Or.inr (Or.inr hev)
  · simp [hv] at hev; exact Or.inl hev
  · simp [hv] at hev; exact Or.inl hev

/-- **every request of a web session is guarded** — for every filter list,
record, start URL, robots outcomes and every sequence of server answers
(redirect targets chosen by the adversary): each event the session emits is
a robots.txt fetch for the origin of a URL that `consult_filters` accepted at
that moment, or a request for a URL that `consult_filters` accepted at that moment. -/
theorem web_requests_guarded (o : Oracles) (c : Cfg) (hv : c.virtual = false) (r : Rec) (u0 : Info) (rob : RobotsOutcome)
    (resps : List Resp) :
    ∀ ev ∈ webProcess o c r u0 rob resps, Guarded o c r ev := by
  intro ev hev
  rcases mem_webProcess_cases o c hv r u0 rob resps ev hev with rfl | ⟨rfl, hr, hv⟩ | h
  · trivial
  · exact ⟨hr, false, hv⟩
  · exact webLoop_guarded o c hv r resps u0 false _ ev h

/-- The waiver flag is only ever raised for the target of a redirect the server
sent in this session, and only with strong redirects enabled; the item URL
itself is always consulted without it. -/
theorem webLoop_flag_only_for_redirect_targets (o : Oracles) (c : Cfg) (hv : c.virtual = false) (r : Rec) (resps : List Resp) :
    ∀ (next : Info) (redir : Bool) (rob : RobotsOutcome) (u : Info),
      Ev.request u true ∈ webLoop o c r next redir rob resps →
      c.strongRedirects = true ∧ ((redir = true ∧ u = next) ∨ ∃ rb, Resp.redirect u rb ∈ resps) := by
  induction resps with
  | nil =>
    intro next redir rob u hev
    rcases mem_webLoop_cases o c hv r next redir rob [] _ hev with ⟨_, h⟩ | ⟨_, h⟩
    · simp at h
    · rcases h with ⟨h, _⟩ | h | h | ⟨_, _, _, h, _⟩ | ⟨_, h, _⟩
      · simp at h
      · simp at h
      · simp only [Ev.request.injEq] at h
        obtain ⟨rfl, hflag⟩ := h
        have := hflag.symm
        simp only [Bool.and_eq_true] at this
        exact ⟨this.1, Or.inl ⟨this.2, rfl⟩⟩
      · simp at h
      · simp at h
  | cons x rest ih =>
    intro next redir rob u hev
    rcases mem_webLoop_cases o c hv r next redir rob (x :: rest) _ hev with ⟨_, h⟩ | ⟨_, h⟩
    · simp at h
    · rcases h with ⟨h, _⟩ | h | h | ⟨t, rb, rest', h, hm⟩ | ⟨rest', h, hm⟩
      · simp at h
      · simp at h
      · simp only [Ev.request.injEq] at h
        obtain ⟨rfl, hflag⟩ := h
        have := hflag.symm
        simp only [Bool.and_eq_true] at this
        exact ⟨this.1, Or.inl ⟨this.2, rfl⟩⟩
      · simp only [List.cons.injEq] at h
        obtain ⟨rfl, rfl⟩ := h
        obtain ⟨hs, h⟩ := ih t true rb u hm
        refine ⟨hs, Or.inr ?_⟩
        rcases h with ⟨_, rfl⟩ | ⟨rb', h⟩
        · exact ⟨rb, by simp⟩
        · exact ⟨rb', by simp [h]⟩
      · simp only [List.cons.injEq] at h
        obtain ⟨rfl, rfl⟩ := h
        obtain ⟨hs, h⟩ := ih next false _ u hm
        refine ⟨hs, Or.inr ?_⟩
        rcases h with ⟨hf, _⟩ | ⟨rb', h⟩
        · simp at hf
        · exact ⟨rb', by simp [h]⟩

/-- **robots.txt is fetched only for an origin being visited**: inside the loop only
for the target of a redirect the server sent (and that target passed the consultation,
`web_requests_guarded`); for the whole session additionally for the item URL. -/
theorem webLoop_robots_only_for_redirect_targets (o : Oracles) (c : Cfg) (hv : c.virtual = false) (r : Rec) (resps : List Resp) :
    ∀ (next : Info) (redir : Bool) (rob : RobotsOutcome) (u : Info),
      Ev.robotsTxt u ∈ webLoop o c r next redir rob resps →
      (redir = true ∧ u = next) ∨ ∃ rb, Resp.redirect u rb ∈ resps := by
  induction resps with
  | nil =>
    intro next redir rob u hev
    rcases mem_webLoop_cases o c hv r next redir rob [] _ hev with ⟨_, h⟩ | ⟨_, h⟩
    · simp at h
    · rcases h with ⟨h, hr, _⟩ | h | h | ⟨_, _, _, h, _⟩ | ⟨_, h, _⟩
      · simp only [Ev.robotsTxt.injEq] at h
        exact Or.inl ⟨hr, h⟩
      · simp at h
      · simp at h
      · simp at h
      · simp at h
  | cons x rest ih =>
    intro next redir rob u hev
    rcases mem_webLoop_cases o c hv r next redir rob (x :: rest) _ hev with ⟨_, h⟩ | ⟨_, h⟩
    · simp at h
    · rcases h with ⟨h, hr, _⟩ | h | h | ⟨t, rb, rest', h, hm⟩ | ⟨rest', h, hm⟩
      · simp only [Ev.robotsTxt.injEq] at h
        exact Or.inl ⟨hr, h⟩
      · simp at h
      · simp at h
      · simp only [List.cons.injEq] at h
        obtain ⟨rfl, rfl⟩ := h
        right
        rcases ih t true rb u hm with ⟨_, rfl⟩ | ⟨rb', h⟩
        · exact ⟨rb, by simp⟩
        · exact ⟨rb', by simp [h]⟩
      · simp only [List.cons.injEq] at h
        obtain ⟨rfl, rfl⟩ := h
        right
        rcases ih next false _ u hm with ⟨hf, _⟩ | ⟨rb', h⟩
        · simp at hf
        · exact ⟨rb', by simp [h]⟩

theorem web_robots_only_for_visited_origins (o : Oracles) (c : Cfg) (hv : c.virtual = false) (r : Rec) (u0 : Info)
    (rob : RobotsOutcome) (resps : List Resp) (u : Info)
    (h : Ev.robotsTxt u ∈ webProcess o c r u0 rob resps) :
    c.robots = true ∧ (∃ red, consultOk o c.fs u r red = true) ∧
      (u = u0 ∨ ∃ rb, Resp.redirect u rb ∈ resps) := by
  have hg := web_requests_guarded o c hv r u0 rob resps _ h
  refine ⟨hg.1, hg.2, ?_⟩
  rcases mem_webProcess_cases o c hv r u0 rob resps _ h with h | ⟨h, _, _⟩ | h
  · simp at h
  · simp only [Ev.robotsTxt.injEq] at h; exact Or.inl h
  · rcases webLoop_robots_only_for_redirect_targets o c hv r resps u0 false _ u h with ⟨hf, _⟩ | h
    · simp at hf
    · exact Or.inr h

/-- **C02 for the web session, in the property's words.**  Every URL a web
session requests passes every configured filter — except that the target of a
redirect sent by the server may, with strong redirects enabled, fail exactly
one filter, which is then a span-hosts filter.  (robots.txt fetches are the
other documented exception, see `web_robots_only_for_visited_origins`.) -/
theorem web_requests_in_scope (o : Oracles) (c : Cfg) (hv : c.virtual = false) (r : Rec) (u0 : Info) (rob : RobotsOutcome)
    (resps : List Resp) (u : Info) (red : Bool)
    (h : Ev.request u red ∈ webProcess o c r u0 rob resps) :
    (c.fs.all (fun f => f.test o u r) = true) ∨
    (red = true ∧ c.strongRedirects = true ∧ (∃ rb, Resp.redirect u rb ∈ resps) ∧
      ∃ f, (testInfo o c.fs u r).failed = [f] ∧ f.isSpanHosts = true) := by
  have hg : consultOk o c.fs u r red = true := web_requests_guarded o c hv r u0 rob resps _ h
  rcases waiver_only_span_hosts o c.fs u r red hg with hv | ⟨hr, hf⟩
  · left; rw [← verdict_is_conjunction]; exact hv
  · right
    subst hr
    have hloop : Ev.request u true ∈ webLoop o c r u0 false (.cached true) resps := by
      rcases mem_webProcess_cases o c hv r u0 rob resps _ h with h | ⟨h, _⟩ | h
      · simp at h
      · simp at h
      · exact h
    obtain ⟨hs, ht⟩ := webLoop_flag_only_for_redirect_targets o c hv r resps u0 false _ u hloop
    rcases ht with ⟨hfalse, _⟩ | ht
    · simp at hfalse
    · exact ⟨rfl, hs, ht, hf⟩

/-- **every request of an FTP session is guarded, and FTP knows no waiver**:
every request (item URL, parent-directory probe, glob directory, slash-suffixed
directory, permission probe) is for a URL that passes every configured filter. -/
theorem ftp_requests_in_scope (o : Oracles) (fs : List Filter) (r : Rec) (u0 : Info) (shape : FtpShape)
    (perm : Option Info) (u : Info) (red : Bool)
    (h : Ev.request u red ∈ ftpProcess o fs r u0 shape perm) :
    red = false ∧ fs.all (fun f => f.test o u r) = true := by
  have key : red = false ∧ consultOk o fs u r false = true := by
    unfold ftpProcess at h
    by_cases h0 : consultOk o fs u0 r false = true
    · simp only [h0, Bool.not_true, Bool.false_eq_true, ↓reduceIte] at h
      cases shape with
      | glob dir =>
        by_cases h1 : consultOk o fs dir r false = true
        · cases perm with
          | none => simp [h1] at h; exact ⟨h.2, h.1 ▸ h1⟩
          | some d =>
            by_cases h2 : consultOk o fs d r false = true
            · simp [h1, h2] at h
              rcases h with ⟨rfl, rfl⟩ | ⟨rfl, rfl⟩
              · exact ⟨rfl, h1⟩
              · exact ⟨rfl, h2⟩
            · simp [h1, h2] at h; exact ⟨h.2, h.1 ▸ h1⟩
        · simp [h1] at h
      | known =>
        cases perm with
        | none => simp [h0] at h; exact ⟨h.2, h.1 ▸ h0⟩
        | some d =>
          by_cases h2 : consultOk o fs d r false = true
          · simp [h0, h2] at h
            rcases h with ⟨rfl, rfl⟩ | ⟨rfl, rfl⟩
            · exact ⟨rfl, h0⟩
            · exact ⟨rfl, h2⟩
          · simp [h0, h2] at h; exact ⟨h.2, h.1 ▸ h0⟩
      | probeCached s =>
        by_cases h1 : consultOk o fs (s.getD u0) r false = true
        · cases perm with
          | none => simp [h1] at h; exact ⟨h.2, h.1 ▸ h1⟩
          | some d =>
            by_cases h2 : consultOk o fs d r false = true
            · simp [h1, h2] at h
              rcases h with ⟨rfl, rfl⟩ | ⟨rfl, rfl⟩
              · exact ⟨rfl, h1⟩
              · exact ⟨rfl, h2⟩
            · simp [h1, h2] at h; exact ⟨h.2, h.1 ▸ h1⟩
        · simp [h1] at h
      | probe dir s =>
        by_cases hd : consultOk o fs dir r false = true
        · by_cases h1 : consultOk o fs (s.getD u0) r false = true
          · cases perm with
            | none =>
              simp [hd, h1] at h
              rcases h with ⟨rfl, rfl⟩ | ⟨rfl, rfl⟩
              · exact ⟨rfl, hd⟩
              · exact ⟨rfl, h1⟩
            | some d =>
              by_cases h2 : consultOk o fs d r false = true
              · simp [hd, h1, h2] at h
                rcases h with ⟨rfl, rfl⟩ | ⟨rfl, rfl⟩ | ⟨rfl, rfl⟩
                · exact ⟨rfl, hd⟩
                · exact ⟨rfl, h1⟩
                · exact ⟨rfl, h2⟩
              · simp [hd, h1, h2] at h
                rcases h with ⟨rfl, rfl⟩ | ⟨rfl, rfl⟩
                · exact ⟨rfl, hd⟩
                · exact ⟨rfl, h1⟩
          · simp [hd, h1] at h
            exact ⟨h.2, h.1 ▸ hd⟩
        · cases perm with
          | none => simp [hd, h0] at h; exact ⟨h.2, h.1 ▸ h0⟩
          | some d =>
            by_cases h2 : consultOk o fs d r false = true
            · simp [hd, h0, h2] at h
              rcases h with ⟨rfl, rfl⟩ | ⟨rfl, rfl⟩
              · exact ⟨rfl, h0⟩
              · exact ⟨rfl, h2⟩
            · simp [hd, h0, h2] at h; exact ⟨h.2, h.1 ▸ h0⟩
    · simp [h0] at h
  refine ⟨key.1, ?_⟩
  have := key.2
  unfold consultOk at this
  rw [no_waiver_without_redirect] at this
  exact this

/-! ### listing links: the record depth is the true link distance -/

/-- The depth the property implies for a listing link: the files a glob pattern matches are what
the user named (they stay at the depth of the glob item); a matched directory, and every entry of a
plain listing, is one link further. -/
def linkDistance (s : ListingStep) (parentDepth : Nat) : Nat :=
  if s.parentGlob && !s.isDir then parentDepth else parentDepth + 1

def distanceAlong : Nat → List ListingStep → Nat
  | d, [] => d
  | d, s :: rest => distanceAlong (linkDistance s d) rest

theorem listingChildLevel_eq_linkDistance (s : ListingStep) (l : Nat) :
    listingChildLevel s.parentGlob s.isDir l = linkDistance s l := by
  unfold listingChildLevel linkDistance
  cases s.parentGlob <;> cases s.isDir <;> simp

/-- **the record depth is the true link distance**: along every chain of FTP listing links
(glob or plain parents, directory or file entries) the `level` the code records equals the
link distance from the start item. -/
theorem ftp_record_level_is_link_distance (r : Rec) (u : Info) (path : List ListingStep) :
    (recordAlong r u path).1.level = distanceAlong r.level path := by
  induction path generalizing r u with
  | nil => rfl
  | cons s rest ih =>
    simp only [recordAlong, distanceAlong]
    rw [ih]
    simp [childRecord, listingChildLevel_eq_linkDistance]

/-- **every request of an FTP crawl is in scope at its true depth**: for the item reached along any
chain of listing links, every request its session makes passes every configured filter under a
record whose `level` is the true link distance (so neither the recursion switch nor the depth
limit can be outrun through a glob or a listing). -/
theorem ftp_crawl_requests_in_scope (o : Oracles) (fs : List Filter) (r : Rec) (u : Info)
    (path : List ListingStep) (shape : FtpShape) (perm : Option Info) (v : Info) (red : Bool)
    (h : Ev.request v red ∈ ftpProcess o fs (recordAlong r u path).1 (recordAlong r u path).2 shape perm) :
    red = false ∧ (recordAlong r u path).1.level = distanceAlong r.level path ∧
      fs.all (fun f => f.test o v (recordAlong r u path).1) = true :=
  ⟨(ftp_requests_in_scope o fs _ _ shape perm v red h).1, ftp_record_level_is_link_distance r u path,
   (ftp_requests_in_scope o fs _ _ shape perm v red h).2⟩

/-! ### scraped links: the stored record is the link-kind record -/

/-- the number of consecutive embedding steps at the end of a chain of links -/
def trailingInline (path : List LinkStep) : Nat := (path.reverse.takeWhile (fun s => s.inline)).length

theorem trailingInline_append (path : List LinkStep) (s : LinkStep) :
    trailingInline (path ++ [s]) = if s.inline then trailingInline path + 1 else 0 := by
  unfold trailingInline
  cases h : s.inline <;> simp [List.takeWhile, h]

theorem httpRecordAlong_append (r : Rec) (u : Info) (path : List LinkStep) (s : LinkStep) :
    httpRecordAlong r u (path ++ [s]) =
      (httpChildRecord (httpRecordAlong r u path).1 (httpRecordAlong r u path).2 s, s.child) := by
  simp [httpRecordAlong, List.foldl_append]

/-- **the stored record is the link-kind record**: from a command-line URL (not inline), along every
chain of scraped links, the stored `level` is the number of links and the stored `inline_level` is the
number of consecutive embedding steps the chain ends with — `None` as soon as the last step is a plain
hyperlink, however deeply embedded the document it was found in. -/
theorem http_record_is_link_kind_record (r : Rec) (u : Info) (path : List LinkStep)
    (h0 : r.inlineLevel = none) :
    (httpRecordAlong r u path).1.level = r.level + path.length ∧
    (httpRecordAlong r u path).1.inlineLevel =
      (if trailingInline path = 0 then none else some (trailingInline path)) := by
  suffices aux : ∀ l : List LinkStep,
      (httpRecordAlong r u l.reverse).1.level = r.level + l.reverse.length ∧
      (httpRecordAlong r u l.reverse).1.inlineLevel =
        (if trailingInline l.reverse = 0 then none else some (trailingInline l.reverse)) by
    simpa using aux path.reverse
  intro l
  induction l with
  | nil => simp [httpRecordAlong, trailingInline, h0]
  | cons s t ih =>
    rw [List.reverse_cons, httpRecordAlong_append, trailingInline_append]
    obtain ⟨hl, hi⟩ := ih
    constructor
    · simp [httpChildRecord, hl]; omega
    · cases hs : s.inline
      · simp [httpChildRecord, hs]
      · simp only [httpChildRecord, hs, ↓reduceIte, hi]
        by_cases ht : trailingInline t.reverse = 0 <;> simp [ht]

/-- A plain hyperlink is never stored as a page requisite, so none of the rules relaxed for
requisites (no-parent, span-hosts-allow page-requisites, the +2 depth allowance) applies to it. -/
theorem plain_link_is_not_inline (r : Rec) (u : Info) (path : List LinkStep) (s : LinkStep)
    (hs : s.inline = false) : truthy (httpRecordAlong r u (path ++ [s])).1.inlineLevel = false := by
  rw [httpRecordAlong_append]
  simp [httpChildRecord, hs, truthy]

/-! ### `--sitemaps`: the site files are links of the start page -/

/-- **the URLs `--sitemaps` derives carry the link record of the page they were derived from**: one link
below the item, the item as parent, the item's root (or the item) as root, not a requisite. -/
theorem extra_urls_are_children (sitemaps : Bool) (r : Rec) (item rb sm : Info) :
    ∀ p ∈ addExtraUrls sitemaps r item rb sm,
      p.1.level = r.level + 1 ∧ p.1.parent = some item ∧ p.1.inlineLevel = none ∧
      p.1.root = (match r.root with | some t => some t | none => some item) ∧ (p.2 = rb ∨ p.2 = sm) := by
  intro p hp
  unfold addExtraUrls at hp
  split at hp
  · simp at hp
    rcases hp with rfl | rfl <;> simp [httpChildRecord] <;> cases r.root <;> rfl
  · simp at hp

/-- ... so without `--recursive` they are never requested (whatever the other options; not even as a
redirect target), and `--no-parent` measures them against the start URL, not against themselves. -/
theorem extra_urls_need_recursion (o : Oracles) (fs : List Filter) (pq : Bool) (sitemaps : Bool)
    (r : Rec) (item rb sm : Info) (hrec : Filter.recursive false pq ∈ fs) :
    ∀ p ∈ addExtraUrls sitemaps r item rb sm, ∀ v red, consultOk o fs v p.1 red = false := by
  intro p hp v red
  obtain ⟨hl, _, hi, _, _⟩ := extra_urls_are_children sitemaps r item rb sm p hp
  cases hc : consultOk o fs v p.1 red with
  | false => rfl
  | true =>
    have hfail : (Filter.recursive false pq).test o v p.1 = false := by
      simp [Filter.test, hl, hi, truthy]
    have := (waiver_others_pass o fs v p.1 red hc _ hrec hfail).2
    simp [Filter.isSpanHosts] at this

/-! ### is_virtual and the try counter -/

/-- With a truthy `is_virtual` every in-loop check says "fetch": the guard theorems above are about
ordinary crawl items (`c.virtual = false`, monitored on the real `ItemSession` on every run). -/
theorem virtual_item_waives_everything (o : Oracles) (c : Cfg) (hv : c.virtual = true) (u : Info) (r : Rec) (red : Bool) :
    checkSubsequent o c u r red = true := by simp [checkSubsequent, hv]

theorem tryCountAfter_eq (n : Nat) : tryCountAfter n = n := by
  induction n with
  | zero => rfl
  | succ n ih => simp [tryCountAfter, checkInTryCount, ih]

/-- **the retry limit counts visits**: after `n` counted visits of a URL the stored try count is `n`, so
`TriesFilter(m)` (m > 0) accepts the next visit exactly when fewer than `m` visits were made. -/
theorem tries_filter_counts_visits (o : Oracles) (m n : Nat) (u : Info) (r : Rec) (hm : m ≠ 0) :
    (Filter.tries m).test o u { r with tryCount := tryCountAfter n } = decide (n < m) := by
  simp [Filter.test, tryCountAfter_eq, hm]

/-! ### comma separated option values -/

theorem head_dropWhile_not {α} (p : α → Bool) (l : List α) (a : α)
    (h : (l.dropWhile p).head? = some a) : p a = false := by
  induction l with
  | nil => simp at h
  | cons b t ih =>
    simp only [List.dropWhile] at h
    cases hb : p b
    · simp [hb] at h; exact h ▸ hb
    · simp only [hb] at h; exact ih h

theorem mem_dropWhile {α} (p : α → Bool) (l : List α) (a : α) (h : a ∈ l.dropWhile p) : a ∈ l := by
  induction l with
  | nil => simp at h
  | cons b t ih =>
    simp only [List.dropWhile] at h
    cases hb : p b
    · simp [hb] at h; simpa using h
    · simp only [hb] at h; exact List.mem_cons_of_mem _ (ih h)

theorem mem_splitOn1_go_no_sep (sep : Nat) : ∀ (s acc : List Nat), sep ∉ acc →
    ∀ e ∈ splitOn1.go sep s acc, sep ∉ e := by
  intro s
  induction s with
  | nil => intro acc hacc e he; simp [splitOn1.go] at he; subst he; simpa using hacc
  | cons c t ih =>
    intro acc hacc e he
    simp only [splitOn1.go] at he
    by_cases hc : (c == sep) = true
    · simp only [hc, ↓reduceIte, List.mem_cons] at he
      rcases he with rfl | he
      · simpa using hacc
      · exact ih [] (by simp) e he
    · simp only [hc, Bool.false_eq_true, ↓reduceIte] at he
      refine ih (c :: acc) ?_ e he
      simp only [List.mem_cons, not_or]
      exact ⟨fun h => hc (by simp [h]), hacc⟩

/-- **what `comma_list` hands to the filters**: no entry is empty, none begins or ends with a
blank, none contains a comma — so `-D 'a.test, b.test,'` means exactly `a.test` and `b.test`. -/
theorem commaList_entries_clean (s : Str) :
    ∀ e ∈ commaList s, e ≠ [] ∧ (∀ a, e.head? = some a → isPySpace a = false) ∧
      (∀ a, e.getLast? = some a → isPySpace a = false) ∧ 44 ∉ e := by
  intro e he
  simp only [commaList, List.mem_filter, List.mem_map] at he
  obtain ⟨⟨x, hx, rfl⟩, hne⟩ := he
  refine ⟨by simpa using hne, ?_, ?_, ?_⟩
  · -- first character: the reverse of a dropWhile over the reversed, itself a suffix of a dropWhile
    intro a ha
    unfold pyStrip at ha
    -- the head of the stripped string is an element of `x.dropWhile isPySpace` ... and it is its head
    have hmem : a ∈ ((x.dropWhile isPySpace).reverse.dropWhile isPySpace).reverse := List.mem_of_mem_head? ha
    -- write x.dropWhile = y; stripped = y minus trailing blanks = a prefix of y
    generalize hy : x.dropWhile isPySpace = y at ha hmem
    have hpre : ((y.reverse.dropWhile isPySpace).reverse) <+: y := by
      have := List.dropWhile_suffix (l := y.reverse) isPySpace
      have := List.reverse_prefix.2 this
      simpa using this
    obtain ⟨t, ht⟩ := hpre
    have hy0 : y.head? = some a := by
      rw [← ht]
      cases hz : (y.reverse.dropWhile isPySpace).reverse with
      | nil => rw [hz] at ha; simp at ha
      | cons b z => rw [hz] at ha; simp at ha; simp [ha]
    rw [← hy] at hy0
    exact head_dropWhile_not _ _ _ hy0
  · intro a ha
    unfold pyStrip at ha
    rw [List.getLast?_reverse] at ha
    exact head_dropWhile_not _ _ _ ha
  · intro hmem
    have hno := mem_splitOn1_go_no_sep 44 s [] (by simp) x (by simpa [splitOn1] using hx)
    apply hno
    unfold pyStrip at hmem
    have h1 : (44 : Nat) ∈ (x.dropWhile isPySpace).reverse.dropWhile isPySpace := by simpa using hmem
    have h2 := mem_dropWhile _ _ _ h1
    exact mem_dropWhile _ _ _ (by simpa using h2)

/-! ## non-vacuity: the theorems talk about traces that exist -/

/-- no regex / fnmatch pattern ever matches -/
def o0 : Oracles := ⟨fun _ _ => false, fun _ _ => false, fun _ _ => false⟩
/-- `re.search('/$', s)` for the two strings used below, nothing else matches -/
def oSlash : Oracles :=
  ⟨fun p s => p == lit "/$" && (s == lit "ftp://a/pub/" || s == lit "ftp://a/pub/sub/"), fun _ _ => false, fun _ _ => false⟩
def uA : Info := ⟨lit "http", some (lit "a"), some 80, lit "/x", lit "http://a/x"⟩
def uB : Info := ⟨lit "http", some (lit "b"), some 80, lit "/y", lit "http://b/y"⟩
def fFile : Info := ⟨lit "ftp", some (lit "a"), some 21, lit "/pub/file.txt", lit "ftp://a/pub/file.txt"⟩
def fDir : Info := ⟨lit "ftp", some (lit "a"), some 21, lit "/pub/", lit "ftp://a/pub/"⟩
def r0 : Rec := ⟨none, none, 0, none, 0⟩
/-- default command line, start URL on host `a` -/
def fs0 : List Filter := buildFilters { tableHostnames := [lit "a"] }
/-- `-t 1` -/
def fs1 : List Filter := buildFilters { tableHostnames := [lit "a"], tries := 1 }
/-- `--reject-regex '/$'` -/
def fs2 : List Filter := buildFilters { tableHostnames := [lit "a"], rejectRegex := lit "/$" }

example : (fs0.map Filter.name) = ["SchemeFilter", "RecursiveFilter", "FollowFTPFilter", "TriesFilter", "LevelFilter",
    "SpanHostsFilter"] := by decide
example : (testInfo o0 fs0 uA r0).verdict = true := by decide
example : (testInfo o0 fs0 uB r0).verdict = false ∧ ((testInfo o0 fs0 uB r0).failed.map Filter.name) = ["SpanHostsFilter"] := by
  decide
-- the waiver: redirect + span-hosts alone
example : (consult o0 fs0 uB r0 true).verdict = true ∧ (consult o0 fs0 uB r0 true).reason = "redirect" := by decide
example : (consult o0 fs0 uB r0 false).verdict = false := by decide
-- a second failing rule (retry limit reached): no waiver
example : (consult o0 fs1 uB { r0 with tryCount := 1 } true).verdict = false := by decide
-- web sessions: strong redirects on / off
example : webProcess o0 ⟨fs0, true, false, false⟩ r0 uA (.cached true) [.redirect uB (.fetched true), .finish]
    = [.request uA false, .request uB true] := by decide
example : webProcess o0 ⟨fs0, false, false, false⟩ r0 uA (.cached true) [.redirect uB (.fetched true), .finish]
    = [.request uA false, .skip] := by decide
-- robots.txt of the redirect target's origin is consulted after the filters accepted the target
example : webProcess o0 ⟨fs0, true, true, false⟩ r0 uA (.fetched true) [.redirect uB (.fetched true), .finish]
    = [.robotsTxt uA, .request uA false, .robotsTxt uB, .request uB true] := by decide
example : webProcess o0 ⟨fs0, true, true, false⟩ r0 uA (.cached true) [.redirect uB (.fetched false), .finish]
    = [.request uA false, .robotsTxt uB, .skip] := by decide
-- ... and never for a target the filters refused
example : webProcess o0 ⟨fs0, false, true, false⟩ r0 uA (.cached true) [.redirect uB (.fetched true), .finish]
    = [.request uA false, .skip] := by decide
example : webProcess o0 ⟨fs0, true, true, false⟩ r0 uA (.fetched true) [.finish]
    = [.robotsTxt uA, .request uA false] := by decide
example : webProcess o0 ⟨fs0, true, true, false⟩ r0 uB (.fetched true) [.finish] = [.skip] := by decide
-- a truthy is_virtual (a bound method instead of a property, say) lets a refused redirect target through
example : webProcess o0 ⟨fs0, false, false, true⟩ r0 uA (.cached true) [.redirect uB (.fetched true), .finish]
    = [.request uA false, .request uB false] := by decide
-- ftp sessions: the parent probe is made when in scope, dropped when the directory URL is rejected
example : ftpProcess o0 fs0 r0 fFile (.probe fDir none) none = [.request fDir false, .request fFile false] := by decide
example : ftpProcess oSlash fs2 r0 fFile (.probe fDir none) none = [.request fFile false] := by decide
example : ftpProcess oSlash fs2 r0 fFile (.glob fDir) none = [.skip] := by decide
-- listing links: a glob-matched directory is one level down, a glob-matched file is not
example : listingChildLevel true true 0 = 1 ∧ listingChildLevel true false 0 = 0 ∧
    listingChildLevel false true 0 = 1 ∧ listingChildLevel false false 0 = 1 := by decide
-- without -r the directory a command-line glob matched is not listed (its record is at level 1)
example : ftpProcess o0 fs0 (recordAlong r0 fFile [⟨true, true, fDir⟩]).1 fDir .known none = [.skip] := by decide
example : ftpProcess o0 fs0 (recordAlong r0 fDir [⟨true, false, fFile⟩]).1 fFile .known none = [.request fFile false] := by decide
-- a plain link found inside an embedded document is not a requisite; an image inside it is requisite depth 2
example : (httpRecordAlong r0 uA [⟨true, uB⟩, ⟨false, uA⟩]).1.inlineLevel = none ∧
    (httpRecordAlong r0 uA [⟨true, uB⟩, ⟨true, uA⟩]).1.inlineLevel = some 2 ∧
    (httpRecordAlong r0 uA [⟨true, uB⟩, ⟨false, uA⟩]).1.level = 2 := by decide
-- comma lists: blanks around commas, empty entries, trailing comma
example : commaList (lit " a.test , b.test,, ") = [lit "a.test", lit "b.test"] := by decide
example : commaList (lit "") = [] := by decide
-- a listed directory covers its tree (the fnmatch oracle sees the pattern with `*` appended)
example : isSubdir ⟨fun _ _ => false, fun n p => n == lit "/private/sub/x/" && p == lit "/private/*", fun _ _ => false⟩
    (lit "/private") (lit "/private/sub/x") false true = true := by decide
-- --sitemaps without -r: the two site files are queued one link below the start page and then refused
example : (addExtraUrls true r0 uA uB uA).map (fun p => (p.1.level, consultOk o0 fs0 p.2 p.1 false)) = [(1, false), (1, false)] := by
  decide

end Wpull.Filter
