/-
C16 — Every HTTP request on the wire matches the URL being fetched.
Property theorems over the model `Wpull.Request` (helper lemmas first; the
property statements are in the sections "Property theorems").
-/
import Wpull.Request
namespace Wpull.Request
open Wpull

/-! ## helper lemmas -/

/-- no line break -/
def NoBreak (s : List Nat) : Prop := 13 ∉ s ∧ 10 ∉ s

/-- no CR, LF, SP and latin-1 encodable: what canonical URL components are made of
(C10 proves the stronger 0x21..0x7e / ASCII-without-whitespace facts) -/
def Clean (s : List Nat) : Prop := ∀ c ∈ s, c ≠ 13 ∧ c ≠ 10 ∧ c ≠ 32 ∧ c < 256

instance (s : List Nat) : Decidable (Clean s) := inferInstanceAs (Decidable (∀ c ∈ s, c ≠ 13 ∧ c ≠ 10 ∧ c ≠ 32 ∧ c < 256))
instance (s : List Nat) : Decidable (NoBreak s) := inferInstanceAs (Decidable (13 ∉ s ∧ 10 ∉ s))

theorem Clean.append {a b : List Nat} (ha : Clean a) (hb : Clean b) : Clean (a ++ b) := by
  intro c hc; rcases List.mem_append.mp hc with h | h
  · exact ha c h
  · exact hb c h

theorem Clean.nil : Clean [] := by intro c hc; cases hc

theorem Clean.noBreak {s : List Nat} (h : Clean s) : NoBreak s :=
  ⟨fun m => (h 13 m).1 rfl, fun m => (h 10 m).2.1 rfl⟩

theorem Clean.count32 {s : List Nat} (h : Clean s) : s.count 32 = 0 :=
  List.count_eq_zero.mpr (fun m => (h 32 m).2.2.1 rfl)

theorem Clean.latin1 {s : List Nat} (h : Clean s) : latin1Strict s = .ok s := by
  unfold latin1Strict
  have : s.all (· < 256) = true := by simp; intro c hc; exact (h c hc).2.2.2
  simp [this]

theorem clean_ite {p : Prop} [Decidable p] {a b : List Nat} (ha : Clean a) (hb : Clean b) :
    Clean (if p then a else b) := by split <;> assumption

theorem decGo_clean : ∀ (f n : Nat) (acc : Str), Clean acc → Clean (decGo f n acc)
  | 0, _, acc, h => h
  | f + 1, n, acc, h => by
    unfold decGo
    have h' : Clean ((48 + n % 10) :: acc) := by
      intro c hc
      rcases List.mem_cons.mp hc with e | e
      · subst e; omega
      · exact h c e
    simp only []
    split
    · exact h'
    · exact decGo_clean f (n / 10) _ h'

theorem natToDec_clean (n : Nat) : Clean (natToDec n) := decGo_clean _ _ _ Clean.nil

/-- the parsed URL is canonical: every component is free of CR, LF, SP (hypothesis; C10) -/
structure CanonUrl (u : UrlC) : Prop where
  scheme : Clean u.scheme
  hostname : Clean u.hostname
  path : Clean u.path
  pathNonempty : u.path ≠ []
  query : Clean u.query
  normUser : Clean u.normUser
  normPass : Clean u.normPass

theorem hostBracket_clean {u : UrlC} (h : CanonUrl u) : Clean (hostBracket u) := by
  unfold hostBracket
  split
  · exact (Clean.append (Clean.append (by decide) h.hostname) (by decide))
  · exact h.hostname

theorem hostnameWithPort_clean {u : UrlC} (h : CanonUrl u) : Clean (hostnameWithPort u) := by
  unfold hostnameWithPort
  split
  · exact Clean.nil
  · split
    · exact Clean.append (Clean.append (hostBracket_clean h) (by decide)) (natToDec_clean _)
    · exact hostBracket_clean h

theorem urlStr_clean {u : UrlC} (h : CanonUrl u) : Clean (urlStr u) := by
  unfold urlStr
  have p1 : Clean (if u.username ≠ [] then u.normUser else []) := clean_ite h.normUser Clean.nil
  have p2 : Clean (if u.password ≠ [] then [58] ++ u.normPass else []) :=
    clean_ite (Clean.append (by decide) h.normPass) Clean.nil
  have p3 : Clean (if u.username ≠ [] ∨ u.password ≠ [] then [64] else []) := clean_ite (by decide) Clean.nil
  have p4 : Clean (if defaultPort u.scheme ≠ some u.port then [58] ++ natToDec u.port else []) :=
    clean_ite (Clean.append (by decide) (natToDec_clean _)) Clean.nil
  have p5 : Clean (if u.query ≠ [] then [63] ++ u.query else []) := clean_ite (Clean.append (by decide) h.query) Clean.nil
  have p0 : Clean (lit "://") := by decide
  exact ((((((((h.scheme.append p0).append p1).append p2).append p3).append (hostBracket_clean h)).append p4).append h.path).append p5)

theorem target_clean {u : UrlC} (h : CanonUrl u) (full : Bool) : Clean (target u full) := by
  unfold target
  split
  · exact urlStr_clean h
  · split
    · exact Clean.append (Clean.append h.path (by decide)) h.query
    · exact h.path

theorem target_nonempty {u : UrlC} (h : CanonUrl u) (full : Bool) : target u full ≠ [] := by
  unfold target
  have hp := h.pathNonempty
  split
  · intro e
    have : (urlStr u).length = 0 := by rw [e]; rfl
    unfold urlStr at this
    simp [lit] at this
  · split
    · intro e; simp at e
    · exact hp

/-! ### fields -/

/-- every stored name and value is free of line breaks -/
def FieldsOk (f : Fields) : Prop := ∀ p ∈ getAll f, NoBreak p.1 ∧ NoBreak p.2 ∧ p.1 ≠ []

theorem getAll_cons (e : Str × List Str) (t : Fields) :
    getAll (e :: t) = e.2.map (fun v => (e.1, v)) ++ getAll t := by
  simp [getAll]

theorem mem_getAll_setRaw {f : Fields} {n v : Str} {p : Str × Str} (h : p ∈ getAll (setRaw f n v)) :
    p ∈ getAll f ∨ p = (n, v) := by
  induction f with
  | nil => simp [setRaw, getAll] at h; exact Or.inr h
  | cons e t ih =>
    unfold setRaw at h
    split at h
    · rw [getAll_cons] at h ⊢
      simp only [List.map_cons, List.map_nil, List.mem_append, List.mem_singleton, List.mem_cons, List.not_mem_nil, or_false] at h
      rcases h with h | h
      · exact Or.inr h
      · exact Or.inl (List.mem_append.mpr (Or.inr h))
    · rw [getAll_cons] at h ⊢
      rcases List.mem_append.mp h with h | h
      · exact Or.inl (List.mem_append.mpr (Or.inl h))
      · rcases ih h with h | h
        · exact Or.inl (List.mem_append.mpr (Or.inr h))
        · exact Or.inr h

theorem latin1Replace_noBreak {s : Str} (h : NoBreak s) : NoBreak (latin1Replace s) := by
  unfold latin1Replace NoBreak
  constructor <;>
  · intro m
    obtain ⟨c, hc, e⟩ := List.mem_map.mp m
    split at e
    · subst e; first | exact h.1 hc | exact h.2 hc
    · omega

theorem pairStr_noBreak {n v : Str} (hn : NoBreak n) (hv : NoBreak v) : NoBreak (pairStr n v) := by
  unfold pairStr NoBreak
  split <;> simp [hn.1, hn.2, hv.1, hv.2]

theorem pairStr_nonempty (n v : Str) (hn : n ≠ []) : pairStr n v ≠ [] := by
  unfold pairStr; split <;> simp [hn]

theorem latin1Replace_fieldsToStr (f : Fields) :
    latin1Replace (fieldsToStr f)
      = ((getAll f).map (fun p => latin1Replace (pairStr p.1 p.2))).flatMap (· ++ [13, 10]) := by
  unfold fieldsToStr latin1Replace
  rw [List.flatMap_map, List.map_flatMap]
  congr 1
  funext p
  simp

/-! ## Property theorems (C16), part 1: the serialised request -/

/-- `request_shape`.  For every request whose URL components are canonical and whose method,
version and field names/values hold no line break: the bytes written are
`request-line CRLF (field-line CRLF)* CRLF`; the request line is `method SP target SP version`
and holds exactly two spaces; neither it nor any field line holds a CR or LF, and no field
line is empty (so the first empty line is the end of the head).  Holds for the origin form
and for the absolute form used with a proxy. -/
theorem request_shape (r : Req) (full : Bool) (b : Bytes)
    (hm : Clean r.method) (hm0 : r.method ≠ []) (hv : Clean r.version) (hv0 : r.version ≠ [])
    (hu : CanonUrl r.url) (hf : FieldsOk r.fields)
    (h : toBytes (prepareForSend r full) = .ok b) :
    ∃ (line : Bytes) (lines : List Bytes),
      b = line ++ [13, 10] ++ lines.flatMap (· ++ [13, 10]) ++ [13, 10] ∧
      line = r.method ++ [32] ++ target r.url full ++ [32] ++ r.version ∧
      line.count 32 = 2 ∧ 13 ∉ line ∧ 10 ∉ line ∧
      ∀ l ∈ lines, 13 ∉ l ∧ 10 ∉ l ∧ l ≠ [] := by
  have htc := target_clean hu full
  -- the fields after prepare_for_send
  have hf' : FieldsOk (prepareForSend r full).fields := by
    unfold prepareForSend
    simp only []
    split
    · exact hf
    · intro p hp
      rcases mem_getAll_setRaw hp with hp | hp
      · exact hf p hp
      · subst hp
        refine ⟨?_, (hostnameWithPort_clean hu).noBreak, ?_⟩
        · show NoBreak (title (lit "Host")); decide
        · show title (lit "Host") ≠ []; decide
  unfold toBytes at h
  have e1 : (prepareForSend r full).method = r.method := rfl
  have e2 : (prepareForSend r full).version = r.version := rfl
  have e3 : (prepareForSend r full).resourcePath = target r.url full := rfl
  rw [e1, e2, e3] at h
  have hne : ¬ (r.method = [] ∨ target r.url full = [] ∨ r.version = []) := by
    intro hh; rcases hh with hh | hh | hh
    · exact hm0 hh
    · exact target_nonempty hu full hh
    · exact hv0 hh
  rw [if_neg hne] at h
  have hrl : requestLine (prepareForSend r full) = r.method ++ [32] ++ target r.url full ++ [32] ++ r.version := rfl
  have hnb : ∀ x, x ∈ r.method ++ [32] ++ target r.url full ++ [32] ++ r.version → x ≠ 13 ∧ x ≠ 10 ∧ x < 256 := by
    intro x hx
    simp only [List.mem_append, List.mem_singleton] at hx
    rcases hx with (((hx | hx) | hx) | hx) | hx
    · exact ⟨(hm x hx).1, (hm x hx).2.1, (hm x hx).2.2.2⟩
    · subst hx; omega
    · exact ⟨(htc x hx).1, (htc x hx).2.1, (htc x hx).2.2.2⟩
    · subst hx; omega
    · exact ⟨(hv x hx).1, (hv x hx).2.1, (hv x hx).2.2.2⟩
  have hstrict : latin1Strict (requestLine (prepareForSend r full)) = .ok (requestLine (prepareForSend r full)) := by
    unfold latin1Strict
    have : (requestLine (prepareForSend r full)).all (· < 256) = true := by
      rw [hrl]; simp only [List.all_eq_true, decide_eq_true_eq]; intro x hx; exact (hnb x hx).2.2
    simp [this]
  rw [hstrict] at h
  simp only [Except.ok.injEq] at h
  refine ⟨requestLine (prepareForSend r full),
          (getAll (prepareForSend r full).fields).map (fun p => latin1Replace (pairStr p.1 p.2)), ?_, hrl, ?_, ?_, ?_, ?_⟩
  · rw [← h, latin1Replace_fieldsToStr]
  · rw [hrl]; simp [List.count_append, hm.count32, htc.count32, hv.count32]
  · rw [hrl]; intro m; exact (hnb 13 m).1 rfl
  · rw [hrl]; intro m; exact (hnb 10 m).2.1 rfl
  · intro l hl
    obtain ⟨p, hp, rfl⟩ := List.mem_map.mp hl
    obtain ⟨h1, h2, h3⟩ := hf' p hp
    have := latin1Replace_noBreak (pairStr_noBreak h1 h2)
    refine ⟨this.1, this.2, ?_⟩
    intro e
    have : pairStr p.1 p.2 = [] := by
      unfold latin1Replace at e; simpa using e
    exact pairStr_nonempty _ _ h3 this

/-- `target_is_path_query`: without a proxy the request target is the URL's normalised path,
followed by `?` and the query when there is one; with a proxy it is the absolute URL. -/
theorem target_is_path_query (r : Req) :
    (prepareForSend r false).resourcePath = (if r.url.query ≠ [] then r.url.path ++ [63] ++ r.url.query else r.url.path) ∧
    (prepareForSend r true).resourcePath = urlStr r.url := by
  constructor <;> simp [prepareForSend, target]

def exUrl : UrlC :=
  { scheme := lit "http", hostname := lit "h", port := 8080, ipv6 := false, path := lit "/a%20b", query := lit "c+d",
    username := [], password := [], normUser := [], normPass := [] }

def exReq : Req :=
  { method := lit "GET", resourcePath := [], version := lit "HTTP/1.1", fields := [(lit "User-Agent", [lit "x"])],
    url := exUrl, username := [], password := [] }

/-- non-vacuity: a concrete canonical request serialises to the expected bytes -/
example : toBytes (prepareForSend exReq false)
    = .ok (lit "GET /a%20b?c+d HTTP/1.1\r\nUser-Agent: x\r\nHost: h:8080\r\n\r\n") := by decide

/-! ## helper lemmas for the hop construction -/

/-- values stored under the normalised name `m` -/
def vals (f : Fields) (m : Str) : List Str := (lookup f m).getD []

theorem getList_eq (f : Fields) (name : Str) : getList f name = vals f (title name) := rfl

theorem lookup_setRaw (f : Fields) (n v m : Str) :
    lookup (setRaw f n v) m = if m = n then some [v] else lookup f m := by
  induction f with
  | nil => unfold setRaw lookup; by_cases h : n = m <;> simp [h, lookup, eq_comm]
  | cons e t ih =>
    unfold setRaw
    by_cases he : e.1 = n
    · simp only [he, if_true]
      unfold lookup
      by_cases hm : m = n
      · simp [hm]
      · have : ¬ n = m := fun x => hm x.symm
        simp [hm, this, he]
    · simp only [he, if_false]
      unfold lookup
      by_cases hem : e.1 = m
      · have : ¬ m = n := fun x => he (hem.trans x)
        simp [hem, this]
      · simp [hem, ih]

theorem lookup_addRaw (f : Fields) (n v m : Str) :
    lookup (addRaw f n v) m = if m = n then some ((lookup f n).getD [] ++ [v]) else lookup f m := by
  induction f with
  | nil => unfold addRaw lookup; by_cases h : n = m <;> simp [h, lookup, eq_comm]
  | cons e t ih =>
    unfold addRaw
    by_cases he : e.1 = n
    · simp only [he, if_true]
      unfold lookup
      by_cases hm : m = n
      · simp [hm, he]
      · have : ¬ n = m := fun x => hm x.symm
        simp [hm, this, he]
    · simp only [he, if_false]
      unfold lookup
      by_cases hem : e.1 = m
      · have : ¬ m = n := fun x => he (hem.trans x)
        simp [hem, this]
      · have hne : ¬ e.1 = n := he
        by_cases hm : m = n
        · subst hm; simp [he, ih]
        · simp [hem, ih, hm]

theorem lookup_filter (f : Fields) (n m : Str) :
    lookup (f.filter (fun e => e.1 ≠ n)) m = if m = n then none else lookup f m := by
  induction f with
  | nil => simp [lookup]
  | cons e t ih =>
    by_cases he : e.1 = n
    · have : List.filter (fun e => decide (e.1 ≠ n)) (e :: t) = List.filter (fun e => decide (e.1 ≠ n)) t := by
        simp [List.filter_cons, he]
      rw [this, ih]
      by_cases hm : m = n
      · simp [hm]
      · have : ¬ e.1 = m := fun x => hm (x.symm.trans he)
        simp [hm, lookup, this]
    · have : List.filter (fun e => decide (e.1 ≠ n)) (e :: t) = e :: List.filter (fun e => decide (e.1 ≠ n)) t := by
        simp [List.filter_cons, he]
      rw [this]
      unfold lookup
      by_cases hem : e.1 = m
      · have : ¬ m = n := fun x => he (hem.trans x)
        simp [hem, this]
      · simp only [hem, if_false]; exact ih

theorem vals_setField (f : Fields) (name v m : Str) :
    vals (setField f name v) m = if m = title name then [v] else vals f m := by
  unfold vals setField; rw [lookup_setRaw]; split <;> simp

theorem vals_addField (f : Fields) (name v m : Str) :
    vals (addField f name v) m = if m = title name then vals f m ++ [v] else vals f m := by
  unfold vals addField; rw [lookup_addRaw]; split
  · rename_i h; subst h; simp
  · simp

theorem vals_popField (f : Fields) (name m : Str) :
    vals (popField f name) m = if m = title name then [] else vals f m := by
  unfold popField
  split
  · unfold vals; rw [lookup_filter]; split <;> simp
  · rename_i h
    split
    · rename_i hm; subst hm
      unfold hasField getField at h
      unfold vals
      split at h
      · simp at h
      · rename_i hx
        cases hl : lookup f (title name) with
        | none => rfl
        | some l => cases l with
          | nil => rfl
          | cons v t => exact absurd hl (hx v t)
    · rfl

theorem vals_foldl_add (name : Str) (vs : List Str) : ∀ (f : Fields) (m : Str),
    vals (vs.foldl (fun g v => addField g name v) f) m = if m = title name then vals f m ++ vs else vals f m := by
  induction vs with
  | nil => intro f m; simp
  | cons v t ih =>
    intro f m
    simp only [List.foldl_cons]
    rw [ih, vals_addField]
    split <;> simp

/-- one round of `_reset_url_bound_fields` for one name -/
theorem vals_reset_one (cfg : Cfg) (f : Fields) (name m : Str) :
    vals ((getList cfg.factoryFields name).foldl (fun g v => addField g name v) (popField f name)) m
      = if m = title name then getList cfg.factoryFields name else vals f m := by
  rw [vals_foldl_add, vals_popField]; split <;> simp

theorem vals_resetUrlBound (cfg : Cfg) (r : Req) (m : Str) :
    vals (resetUrlBound cfg r).fields m =
      if m = title (lit "Cookie2") then getList cfg.factoryFields (lit "Cookie2")
      else if m = title (lit "Cookie") then getList cfg.factoryFields (lit "Cookie")
      else if m = title (lit "Authorization") then getList cfg.factoryFields (lit "Authorization")
      else if m = title (lit "Host") then getList cfg.factoryFields (lit "Host")
      else vals r.fields m := by
  unfold resetUrlBound urlBoundFields
  simp only [List.foldl_cons, List.foldl_nil]
  rw [vals_reset_one, vals_reset_one, vals_reset_one, vals_reset_one]

theorem hasField_iff (f : Fields) (name : Str) : hasField f name = true ↔ vals f (title name) ≠ [] := by
  unfold hasField getField vals
  cases hl : lookup f (title name) with
  | none => simp
  | some l => cases l <;> simp

theorem vals_prepareForSend (r : Req) (full : Bool) (m : Str) :
    vals (prepareForSend r full).fields m =
      if m = title (lit "Host") ∧ vals r.fields (title (lit "Host")) = [] then [hostnameWithPort r.url]
      else vals r.fields m := by
  unfold prepareForSend
  simp only []
  by_cases hh : hasField r.fields (lit "Host") = true
  · rw [if_pos hh]
    have := (hasField_iff _ _).mp hh
    simp [this]
  · rw [if_neg hh]
    have : vals r.fields (title (lit "Host")) = [] := by
      by_cases hv : vals r.fields (title (lit "Host")) = []
      · exact hv
      · exact absurd ((hasField_iff _ _).mpr hv) hh
    rw [vals_setField]
    by_cases hm : m = title (lit "Host")
    · simp [hm, this]
    · simp [hm]

/-! ## Property theorems (C16), part 2: every hop of every redirect chain

The next-hop request is characterised for an ARBITRARY session state — whatever earlier
hops, hosts, credentials and cookies the session has seen — so the statements hold for
every hop of every chain, over all five redirect codes, same host or other host. -/

/-- `fresh_hop_fields`: the request that `_process_redirect` builds for the next URL `u`
(new request for 301/302/303, replayed copy of the original for 307/308) carries, under the
names Host / Authorization / Cookie / Cookie2, nothing of any earlier hop: exactly what
the request factory configures for every request, and — when no Host is configured — the one
Host value `hostname_with_port(u)`. -/
theorem fresh_hop_fields (cfg : Cfg) (s s' : Sess) (st : Nat) (hasLoc : Bool) (u : UrlC)
    (h : processRedirect cfg s st hasLoc (.url u) = .ok s') :
    ∃ req, s'.cur = some req ∧ req.url = u ∧
      getList req.fields (lit "Authorization") = getList cfg.factoryFields (lit "Authorization") ∧
      getList req.fields (lit "Cookie") = getList cfg.factoryFields (lit "Cookie") ∧
      getList req.fields (lit "Cookie2") = getList cfg.factoryFields (lit "Cookie2") ∧
      (getList cfg.factoryFields (lit "Host") = [] → getList req.fields (lit "Host") = [hostnameWithPort u]) := by
  unfold processRedirect at h
  split at h
  · cases h
  · split at h
    · cases h
    · simp only [] at h
      cases h
      refine ⟨_, rfl, ?_⟩
      by_cases hrep : isRepeatCode st = true
      · simp only [hrep, if_true]
        refine ⟨by simp [prepareForSend, resetUrlBound], ?_, ?_, ?_, ?_⟩
        all_goals (intros; simp only [getList_eq, vals_prepareForSend, vals_resetUrlBound] at *)
        · have e : ¬ title (lit "Authorization") = title (lit "Host") := by decide
          have e2 : ¬ title (lit "Authorization") = title (lit "Cookie2") := by decide
          have e3 : ¬ title (lit "Authorization") = title (lit "Cookie") := by decide
          simp [e, e2, e3]
        · have e : ¬ title (lit "Cookie") = title (lit "Host") := by decide
          have e2 : ¬ title (lit "Cookie") = title (lit "Cookie2") := by decide
          simp [e, e2]
        · have e : ¬ title (lit "Cookie2") = title (lit "Host") := by decide
          simp [e]
        · rename_i hH
          have e1 : ¬ title (lit "Host") = title (lit "Cookie2") := by decide
          have e2 : ¬ title (lit "Host") = title (lit "Cookie") := by decide
          have e3 : ¬ title (lit "Host") = title (lit "Authorization") := by decide
          simp [e1, e2, e3, hH, resetUrlBound]
      · simp only [hrep]
        refine ⟨by simp [prepareForSend, freshReq], ?_, ?_, ?_, ?_⟩
        all_goals (intros; simp only [getList_eq, vals_prepareForSend] at *)
        · have e : ¬ title (lit "Authorization") = title (lit "Host") := by decide
          simp [e, freshReq]
        · have e : ¬ title (lit "Cookie") = title (lit "Host") := by decide
          simp [e, freshReq]
        · have e : ¬ title (lit "Cookie2") = title (lit "Host") := by decide
          simp [e, freshReq]
        · rename_i hH
          simp [freshReq, hH]

/-! ### induction over the chain (sessions without a cookie jar) -/

def userOf (r : Req) : Str := if r.url.username ≠ [] then r.url.username else r.username
def passOf (r : Req) : Str := if r.url.password ≠ [] then r.url.password else r.password

/-- the Authorization values of a request are the configured ones, or the basic-auth text
made from THIS request's own URL user-info / login -/
def AuthOk (cfg : Cfg) (r : Req) : Prop :=
  getList r.fields (lit "Authorization") = getList cfg.factoryFields (lit "Authorization") ∨
  getList r.fields (lit "Authorization") = [cfg.auth (userOf r) (passOf r)]

/-- what holds of every request on the wire -/
def HopOk (cfg : Cfg) (r : Req) : Prop :=
  getList r.fields (lit "Host") = [hostnameWithPort r.url] ∧ AuthOk cfg r

/-- what holds of the pending request between hops -/
def Pending (cfg : Cfg) (r : Req) : Prop :=
  (getList r.fields (lit "Host") = [] ∨ getList r.fields (lit "Host") = [hostnameWithPort r.url]) ∧ AuthOk cfg r

theorem addBasicAuth_eq (cfg : Cfg) (r : Req) :
    addBasicAuth cfg r =
      if userOf r ≠ [] ∧ passOf r ≠ [] then
        { r with fields := setField r.fields (lit "Authorization") (cfg.auth (userOf r) (passOf r)) }
      else r := rfl

theorem addBasicAuth_pending (cfg : Cfg) (r : Req) (h : Pending cfg r) : Pending cfg (addBasicAuth cfg r) := by
  rw [addBasicAuth_eq]
  by_cases hc : userOf r ≠ [] ∧ passOf r ≠ []
  · rw [if_pos hc]
    refine ⟨?_, Or.inr ?_⟩
    · have e : ¬ title (lit "Host") = title (lit "Authorization") := by decide
      have h1 := h.1
      simp only [getList_eq, vals_setField, e, if_false] at h1 ⊢
      exact h1
    · show getList (setField r.fields (lit "Authorization") (cfg.auth (userOf r) (passOf r))) (lit "Authorization")
        = [cfg.auth (userOf r) (passOf r)]
      simp [getList_eq, vals_setField]
  · rw [if_neg hc]; exact h

theorem prepare_hopOk (cfg : Cfg) (r : Req) (full : Bool) (h : Pending cfg r) : HopOk cfg (prepareForSend r full) := by
  obtain ⟨hh, ha⟩ := h
  have hu : (prepareForSend r full).url = r.url := rfl
  have e : ¬ title (lit "Authorization") = title (lit "Host") := by decide
  refine ⟨?_, ?_⟩
  · rw [hu]
    simp only [getList_eq, vals_prepareForSend] at hh ⊢
    rcases hh with hh | hh <;> simp [hh]
  · unfold AuthOk at ha ⊢
    have e1 : userOf (prepareForSend r full) = userOf r := rfl
    have e2 : passOf (prepareForSend r full) = passOf r := rfl
    rw [e1, e2]
    simpa [getList_eq, vals_prepareForSend, e] using ha

theorem sendPrep_hopOk (cfg : Cfg) (s : Sess) (r : Req) (h : Pending cfg r) : HopOk cfg (sendPrep cfg s r) := by
  unfold sendPrep
  simp only []
  split
  · exact prepare_hopOk cfg _ _ (addBasicAuth_pending cfg r h)
  · exact prepare_hopOk cfg _ _ h

theorem HopOk.pending {cfg : Cfg} {r : Req} (h : HopOk cfg r) : Pending cfg r := ⟨Or.inr h.1, h.2⟩

theorem processRedirect_nonurl {cfg : Cfg} {s s' : Sess} {st : Nat} {hasLoc : Bool} {tgt : Target}
    (h : processRedirect cfg s st hasLoc tgt = .ok s') (hne : ∀ u, tgt ≠ .url u) : s'.cur = none := by
  unfold processRedirect at h
  by_cases h1 : s.numRedirects > cfg.maxRedirects
  · simp [h1] at h
  · by_cases h2 : (!hasLoc) = true
    · simp [h1, h2] at h
    · cases tgt with
      | invalid => simp [h1, h2] at h
      | other => simp [h1, h2] at h
      | url u => exact absurd rfl (hne u)

theorem processResponse_pending (cfg : Cfg) (hj : cfg.useJar = false)
    (hH : getList cfg.factoryFields (lit "Host") = [])
    (s s2 : Sess) (r : Req) (st : Nat) (hasLoc : Bool) (tgt : Target) (hr : HopOk cfg r)
    (h : processResponse cfg s r st hasLoc tgt = .ok s2) :
    ∀ q, s2.cur = some q → Pending cfg q := by
  unfold processResponse at h
  simp only [hj] at h
  split at h
  · cases h
  · rename_i s' hmain
    simp at h
    subst h
    split at hmain
    · -- redirect
      cases tgt with
      | url u =>
        obtain ⟨req, hc, hu, ha, _, _, hh⟩ := fresh_hop_fields cfg _ _ _ _ u hmain
        intro q hq
        rw [hc] at hq; cases hq
        exact ⟨Or.inr (by rw [hu]; exact hh hH), Or.inl ha⟩
      | invalid =>
        intro q hq
        rw [processRedirect_nonurl hmain (by intro u; simp)] at hq; cases hq
      | other =>
        intro q hq
        rw [processRedirect_nonurl hmain (by intro u; simp)] at hq; cases hq
    · split at hmain
      · split at hmain
        · cases hmain; intro q hq; simp at hq
        · cases hmain
          intro q hq
          simp [Sess.setCur] at hq
          subst hq
          exact addBasicAuth_pending cfg r hr.pending
      · cases hmain; intro q hq; simp at hq

theorem run_hops (cfg : Cfg) (hj : cfg.useJar = false) (hH : getList cfg.factoryFields (lit "Host") = [])
    (adv : List Req → Reply) :
    ∀ (n : Nat) (s : Sess) (sent : List Req) (last fu ar : Nat),
      (∀ q, s.cur = some q → Pending cfg q) → (∀ h ∈ sent, HopOk cfg h) →
      ∀ h ∈ (run cfg adv n s sent last fu ar).sent, HopOk cfg h := by
  intro n
  induction n with
  | zero => intro s sent _ _ _ _ hs; unfold run; exact hs
  | succ n ih =>
    intro s sent last fu ar hp hs
    unfold run
    split
    · exact hs
    · rename_i r hcur
      have hok := sendPrep_hopOk cfg s r (hp r hcur)
      have hs' : ∀ h ∈ sent ++ [sendPrep cfg s r], HopOk cfg h := by
        intro h hh
        rcases List.mem_append.mp hh with hh | hh
        · exact hs h hh
        · simp at hh; subst hh; exact hok
      split
      · exact hs
      · exact hs
      simp only []
      split
      · exact hs
      · split
        · exact hs'
        · exact hs
        · split
          · exact hs'
          · rename_i s2 hpr
            have hp2 := processResponse_pending cfg hj hH _ s2 _ _ _ _ hok hpr
            split
            · split
              · exact ih s2 _ _ _ _ hp2 hs'
              · exact ih s2 _ _ _ _ hp2 hs'
            · exact ih s2 _ _ _ _ hp2 hs'

/-- `exactly_one_host` ∧ `no_cross_host_credentials`, by induction over the chain, for sessions
without a cookie jar: on EVERY hop of EVERY redirect chain (all five codes, same or other
host, any server strategy, any limits) the values stored under `Host` are exactly
`[hostname_with_port(hop URL)]`, and the values under `Authorization` are the configured ones
or the basic-auth text of THIS hop's own URL user-info / login — never those of another hop.
Hypotheses: no Host field is configured (factory or first request) and the first request's
Authorization values are the configured ones. -/
theorem every_hop_host_and_credentials (cfg : Cfg) (hj : cfg.useJar = false)
    (hH : getList cfg.factoryFields (lit "Host") = []) (adv : List Req → Reply) (r : Req)
    (hr : getList r.fields (lit "Host") = [])
    (ha : getList r.fields (lit "Authorization") = getList cfg.factoryFields (lit "Authorization")) :
    ∀ h ∈ (session cfg adv r).sent,
      getList h.fields (lit "Host") = [hostnameWithPort h.url] ∧ AuthOk cfg h := by
  unfold session
  apply run_hops cfg hj hH
  · intro q hq
    simp [initSess, hj] at hq
    subst hq
    exact ⟨Or.inl hr, Or.inl ha⟩
  · intro h hh; cases hh

/-! ### the basic-authentication text never holds a line break -/

theorem b64Char_ok (n : Nat) : b64Char n ≠ 13 ∧ b64Char n ≠ 10 := by
  unfold b64Char
  simp only []
  split
  · omega
  · split
    · omega
    · split
      · omega
      · split <;> omega

theorem b64_noBreak : ∀ (b : Bytes), NoBreak (b64 b)
  | [] => by unfold b64 NoBreak; simp
  | [a] => by
    unfold b64 NoBreak
    have h1 := b64Char_ok (a / 4); have h2 := b64Char_ok (a % 4 * 16)
    simp only [List.mem_cons, List.not_mem_nil, or_false, not_or]
    exact ⟨⟨h1.1.symm, h2.1.symm, by omega, by omega⟩, ⟨h1.2.symm, h2.2.symm, by omega, by omega⟩⟩
  | [a, b] => by
    unfold b64 NoBreak
    have h1 := b64Char_ok (a / 4); have h2 := b64Char_ok (a % 4 * 16 + b / 16); have h3 := b64Char_ok (b % 16 * 4)
    simp only [List.mem_cons, List.not_mem_nil, or_false, not_or]
    exact ⟨⟨h1.1.symm, h2.1.symm, h3.1.symm, by omega⟩, ⟨h1.2.symm, h2.2.symm, h3.2.symm, by omega⟩⟩
  | a :: b :: c :: t => by
    have ih := b64_noBreak t
    unfold b64
    have h1 := b64Char_ok (a / 4); have h2 := b64Char_ok (a % 4 * 16 + b / 16)
    have h3 := b64Char_ok (b % 16 * 4 + c / 64); have h4 := b64Char_ok (c % 64)
    unfold NoBreak at ih ⊢
    simp only [List.mem_append, List.mem_cons, List.not_mem_nil, or_false, not_or]
    exact ⟨⟨⟨h1.1.symm, h2.1.symm, h3.1.symm, h4.1.symm⟩, ih.1⟩, ⟨⟨h1.2.symm, h2.2.symm, h3.2.symm, h4.2.symm⟩, ih.2⟩⟩

/-- `basic_auth_single_line`: for EVERY user name and password (any length, any characters) the
Authorization text `Basic <base64>` holds no CR and no LF — the hypothesis on field values that
`request_shape` needs is met by the credentials field. -/
theorem basic_auth_single_line (user pass : Str) : NoBreak (basicAuth user pass) := by
  unfold basicAuth
  have h := b64_noBreak (utf8Replace (user ++ [58] ++ pass))
  have h0 : NoBreak (lit "Basic ") := by decide
  unfold NoBreak at *
  simp only [List.mem_append, not_or]
  exact ⟨⟨h0.1, h.1⟩, ⟨h0.2, h.2⟩⟩

/-- non-vacuity: 60 bytes of credentials (where a line-wrapping encoder would break the line) -/
example : (basicAuth (List.replicate 40 117) (List.replicate 19 112)).length = 6 + 80 := by decide

/-! ### the request target of every hop, with and without a proxy -/

theorem hasField_setField_host (f : Fields) (v : Str) : hasField (setField f (lit "Host") v) (lit "Host") = true := by
  rw [hasField_iff, vals_setField]; simp

/-- `prepare_for_send` may be called several times on one request (`_process_redirect` calls it in
origin form, `Stream.write_request` again with the connection's flag): the LAST call decides the
form of the target, and nothing else differs from a single call with that flag. -/
theorem prepareForSend_last_wins (r : Req) (a b : Bool) :
    prepareForSend (prepareForSend r a) b = prepareForSend r b := by
  unfold prepareForSend
  by_cases hh : hasField r.fields (lit "Host") = true
  · simp [hh]
  · simp [hh, hasField_setField_host]

theorem addBasicAuth_url (cfg : Cfg) (r : Req) : (addBasicAuth cfg r).url = r.url := by
  rw [addBasicAuth_eq]; split <;> rfl

/-- the form the target must have on a connection: absolute for http through a proxy, else origin -/
def wantFull (cfg : Cfg) (u : UrlC) : Bool := cfg.proxy && u.scheme = lit "http"

theorem sendPrep_target (cfg : Cfg) (s : Sess) (r : Req) :
    (sendPrep cfg s r).url = r.url ∧
    (sendPrep cfg s r).resourcePath = target r.url (wantFull cfg r.url) := by
  unfold sendPrep wantFull
  simp only []
  split
  · exact ⟨by simp [prepareForSend, addBasicAuth_url], by simp [prepareForSend, addBasicAuth_url]⟩
  · exact ⟨rfl, rfl⟩

theorem run_targets (cfg : Cfg) (adv : List Req → Reply) :
    ∀ (n : Nat) (s : Sess) (sent : List Req) (last fu ar : Nat),
      (∀ h ∈ sent, h.resourcePath = target h.url (wantFull cfg h.url)) →
      ∀ h ∈ (run cfg adv n s sent last fu ar).sent, h.resourcePath = target h.url (wantFull cfg h.url) := by
  intro n
  induction n with
  | zero => intro s sent _ _ _ hs; unfold run; exact hs
  | succ n ih =>
    intro s sent last fu ar hs
    unfold run
    split
    · exact hs
    · rename_i r hcur
      have hs' : ∀ h ∈ sent ++ [sendPrep cfg s r], h.resourcePath = target h.url (wantFull cfg h.url) := by
        intro h hh
        rcases List.mem_append.mp hh with hh | hh
        · exact hs h hh
        · simp at hh; subst hh
          have := sendPrep_target cfg s r
          rw [this.1]; exact this.2
      split
      · exact hs
      · exact hs
      simp only []
      split
      · exact hs
      · split
        · exact hs'
        · exact hs
        · split
          · exact hs'
          · split
            · split
              · exact ih _ _ _ _ _ hs'
              · exact ih _ _ _ _ _ hs'
            · exact ih _ _ _ _ _ hs'

/-- `every_hop_target`: on EVERY hop of EVERY chain — first request, 301/302/303 follow-ups,
307/308 replays, authentication retries, with or without cookie jar, against every server — the
request target is the hop URL's path (+ ?query) in origin form, and the absolute URL whenever the
hop goes through a (non-tunnelled) proxy; an earlier `prepare_for_send()` in origin form by
`_process_redirect` does not stick. -/
theorem every_hop_target (cfg : Cfg) (adv : List Req → Reply) (r : Req) :
    ∀ h ∈ (session cfg adv r).sent,
      h.resourcePath = (if cfg.proxy && h.url.scheme = lit "http" then urlStr h.url
                        else if h.url.query ≠ [] then h.url.path ++ [63] ++ h.url.query else h.url.path) := by
  intro h hh
  have := run_targets cfg adv (enoughFuel cfg) (initSess cfg r) [] 0 0 0 (by intro h hh; cases hh) h hh
  rw [this]; unfold target wantFull
  split <;> simp_all

/-! ### the login attributes of every hop are the configured login (never credentials taken from a URL) -/

/-- `q` carries the login attributes of the first request `r`, or none -/
def LoginOk (r q : Req) : Prop :=
  (q.username = r.username ∧ q.password = r.password) ∨ (q.username = [] ∧ q.password = [])

theorem addBasicAuth_login (cfg : Cfg) (q : Req) :
    (addBasicAuth cfg q).username = q.username ∧ (addBasicAuth cfg q).password = q.password := by
  rw [addBasicAuth_eq]; split <;> exact ⟨rfl, rfl⟩

theorem sendPrep_login (cfg : Cfg) (s : Sess) (q : Req) :
    (sendPrep cfg s q).username = q.username ∧ (sendPrep cfg s q).password = q.password := by
  unfold sendPrep
  simp only []
  split
  · exact ⟨(addBasicAuth_login cfg q).1, (addBasicAuth_login cfg q).2⟩
  · exact ⟨rfl, rfl⟩

theorem LoginOk.of_eq {r q q' : Req} (h : LoginOk r q) (hu : q'.username = q.username) (hp : q'.password = q.password) :
    LoginOk r q' := by
  unfold LoginOk at *; rw [hu, hp]; exact h

/-- invariant of the session state -/
def LoginInv (r : Req) (s : Sess) : Prop := LoginOk r s.orig ∧ ∀ q, s.cur = some q → LoginOk r q

theorem setCur_loginInv {r : Req} {s : Sess} {q : Req} (h : LoginInv r s) (hq : LoginOk r q) : LoginInv r (s.setCur q) := by
  unfold Sess.setCur LoginInv
  refine ⟨?_, ?_⟩
  · simp only []; split
    · exact hq
    · exact h.1
  · intro q' hq'; simp at hq'; subst hq'; exact hq

theorem processRedirect_loginInv (cfg : Cfg) (r : Req) (s s' : Sess) (st : Nat) (hasLoc : Bool) (tgt : Target)
    (hi : LoginInv r s) (h : processRedirect cfg s st hasLoc tgt = .ok s') : LoginInv r s' := by
  unfold processRedirect at h
  by_cases h1 : s.numRedirects > cfg.maxRedirects
  · simp [h1] at h
  · by_cases h2 : (!hasLoc) = true
    · simp [h1, h2] at h
    · cases tgt with
      | invalid => simp [h1, h2] at h
      | other => simp [h1, h2] at h
      | url u =>
        simp only [h1, h2, if_false] at h
        cases h
        refine ⟨hi.1, ?_⟩
        intro q hq
        simp only [Option.some.injEq] at hq
        subst hq
        by_cases hr : isRepeatCode st = true
        · simp only [hr, if_true]
          exact LoginOk.of_eq hi.1 (by simp [prepareForSend, resetUrlBound]) (by simp [prepareForSend, resetUrlBound])
        · simp only [hr]
          exact Or.inr ⟨by simp [prepareForSend, freshReq], by simp [prepareForSend, freshReq]⟩

theorem processResponse_loginInv (cfg : Cfg) (r : Req) (s s2 : Sess) (q : Req) (st : Nat) (hasLoc : Bool) (tgt : Target)
    (hi : LoginInv r s) (hq : LoginOk r q)
    (h : processResponse cfg s q st hasLoc tgt = .ok s2) : LoginInv r s2 := by
  unfold processResponse at h
  simp only [] at h
  split at h
  · cases h
  · rename_i s' hmain
    have hs' : LoginInv r s' := by
      split at hmain
      · exact processRedirect_loginInv cfg r
          { s with numRedirects := if hasLoc = true then s.numRedirects + 1 else s.numRedirects } s' st hasLoc tgt ⟨hi.1, hi.2⟩ hmain
      · split at hmain
        · split at hmain
          · cases hmain; exact ⟨hi.1, by intro q' hq'; simp at hq'⟩
          · cases hmain
            exact setCur_loginInv (s := { s with numRedirects := _, loopType := _, hostsWithAuth := _ }) ⟨hi.1, hi.2⟩
              (LoginOk.of_eq hq (addBasicAuth_login cfg q).1 (addBasicAuth_login cfg q).2)
        · cases hmain; exact ⟨hi.1, by intro q' hq'; simp at hq'⟩
    split at h
    · split at h
      · rename_i nr hnr
        cases h
        exact setCur_loginInv (s := { s' with jarCalls := _ }) ⟨hs'.1, hs'.2⟩
          (LoginOk.of_eq (hs'.2 nr hnr) (by simp [addCookies]) (by simp [addCookies]))
      · cases h; exact hs'
    · cases h; exact hs'

theorem run_login (cfg : Cfg) (adv : List Req → Reply) (r : Req) :
    ∀ (n : Nat) (s : Sess) (sent : List Req) (last fu ar : Nat),
      LoginInv r s → (∀ h ∈ sent, LoginOk r h) →
      ∀ h ∈ (run cfg adv n s sent last fu ar).sent, LoginOk r h := by
  intro n
  induction n with
  | zero => intro s sent _ _ _ _ hs; unfold run; exact hs
  | succ n ih =>
    intro s sent last fu ar hi hs
    unfold run
    split
    · exact hs
    · rename_i q hcur
      have hq2 : LoginOk r (sendPrep cfg s q) :=
        LoginOk.of_eq (hi.2 q hcur) (sendPrep_login cfg s q).1 (sendPrep_login cfg s q).2
      have hs' : ∀ h ∈ sent ++ [sendPrep cfg s q], LoginOk r h := by
        intro h hh
        rcases List.mem_append.mp hh with hh | hh
        · exact hs h hh
        · simp at hh; subst hh; exact hq2
      split
      · exact hs
      · exact hs
      simp only []
      split
      · exact hs
      · split
        · exact hs'
        · exact hs
        · split
          · exact hs'
          · rename_i s2 hpr
            have hi2 := processResponse_loginInv cfg r _ s2 _ _ _ _ (setCur_loginInv hi hq2) hq2 hpr
            split
            · split
              · exact ih _ _ _ _ _ hi2 hs'
              · exact ih _ _ _ _ _ hi2 hs'
            · exact ih _ _ _ _ _ hi2 hs'

/-- `every_hop_login_is_configured`: on every hop of every chain (with or without cookie jar, every
server) the request's login attributes — the only credentials `_process_authentication` answers a 401
challenge with besides the hop URL's own user-info — are those of the FIRST request (the configured
`--http-user and --http-password`, see `populateLogin`) or empty; they are never taken from the URL of an
earlier hop.  With `every_hop_host_and_credentials` / `addBasicAuth`: an Authorization value is made
from the hop's own URL and the configured login only. -/
theorem every_hop_login_is_configured (cfg : Cfg) (adv : List Req → Reply) (r : Req) :
    ∀ h ∈ (session cfg adv r).sent,
      (h.username = r.username ∧ h.password = r.password) ∨ (h.username = [] ∧ h.password = []) := by
  unfold session
  apply run_login cfg adv r
  · unfold initSess LoginInv
    simp only []
    split
    · exact ⟨Or.inl ⟨by simp [addCookies], by simp [addCookies]⟩,
             by intro q hq; simp at hq; subst hq; exact Or.inl ⟨by simp [addCookies], by simp [addCookies]⟩⟩
    · exact ⟨Or.inl ⟨rfl, rfl⟩, by intro q hq; simp at hq; subst hq; exact Or.inl ⟨rfl, rfl⟩⟩
  · intro h hh; cases hh

/-- the processor never derives the login attributes from the URL -/
theorem populateLogin_ignores_url (r : Req) (u : UrlC) (l : Option (Str × Str)) :
    (populateLogin { r with url := u } l).username = (populateLogin r l).username ∧
    (populateLogin { r with url := u } l).password = (populateLogin r l).password := by
  unfold populateLogin; cases l with
  | none => exact ⟨rfl, rfl⟩
  | some p => exact ⟨rfl, rfl⟩

/-! ### what sending a request writes into the request object -/

/-- `send_writes_only_host_and_authorization`: preparing and sending a request (`start()`: basic auth when due,
`prepare_for_send`) writes into the request OBJECT under the names Host and Authorization only — in particular
never a `Proxy-Authorization`: the proxy's credentials belong to the proxy hop (CONNECT / the connection pool),
not to the request, so a 307/308 replay (a deep copy of that object) has nothing of the proxy to carry to an
origin.  (That the pool keeps them out of tunnels and direct connections is checked on the wire: oracle only.) -/
theorem send_writes_only_host_and_authorization (cfg : Cfg) (s : Sess) (r : Req) (m : Str)
    (h1 : m ≠ title (lit "Host")) (h2 : m ≠ title (lit "Authorization")) :
    vals (sendPrep cfg s r).fields m = vals r.fields m := by
  have hauth : vals (addBasicAuth cfg r).fields m = vals r.fields m := by
    rw [addBasicAuth_eq]
    split
    · show vals (setField r.fields (lit "Authorization") _) m = _
      rw [vals_setField]; simp [h2]
    · rfl
  unfold sendPrep
  simp only []
  split
  · rw [vals_prepareForSend]; simp [h1, hauth]
  · rw [vals_prepareForSend]; simp [h1]

example : title (lit "Proxy-Authorization") ≠ title (lit "Host") ∧
    title (lit "Proxy-Authorization") ≠ title (lit "Authorization") := by decide

/-! ### the referrer's authority after `_strip_userinfo` -/

theorem afterLastAt_go_no_at : ∀ (l best : Str), (64 ∉ l → 64 ∉ best) → 64 ∉ afterLastAt.go l best
  | [], best, h => by unfold afterLastAt.go; exact h (by simp)
  | c :: t, best, h => by
    unfold afterLastAt.go
    split
    · exact afterLastAt_go_no_at t t (fun x => x)
    · rename_i hc
      exact afterLastAt_go_no_at t best (fun ht => h (by simp [ht]; exact fun e => hc e.symm))

/-- `stripped_authority_has_no_at`: what `_strip_userinfo` puts in place of the authority of the referring URL
holds no `@` — whatever the shape of the user-info (`user:pw@`, `user@`, `:token@` with an EMPTY user name, `:@`,
`@`, several `@`): nothing in front of the last `@` survives, so no byte of the user-info reaches the Referer. -/
theorem stripped_authority_has_no_at (authority : Str) : 64 ∉ afterLastAt authority := by
  unfold afterLastAt
  exact afterLastAt_go_no_at authority authority (fun x => x)

/-- non-vacuity: a token-style login with an empty user name is stripped -/
example : stripUserinfo (lit "http://:token@a.example/dir/?q=a@b") = lit "http://a.example/dir/?q=a@b" := by decide

/-- `no_preemptive_login_for_unchallenged_host`: sending a request adds NO Authorization of its own unless the hop URL
carries a password or the hop's `hostname_with_port` is EXACTLY one of the hosts that answered a 401 in this session
(`_hostnames_with_auth`, filled only by `_process_authentication`) — a host whose name merely ends with such a name
(sub-domain, look-alike) gets nothing. -/
theorem no_preemptive_login_for_unchallenged_host (cfg : Cfg) (s : Sess) (r : Req)
    (hp : r.url.password = []) (hh : hostnameWithPort r.url ∉ s.hostsWithAuth) :
    vals (sendPrep cfg s r).fields (title (lit "Authorization")) = vals r.fields (title (lit "Authorization")) := by
  unfold sendPrep
  simp only []
  have hc : ¬ (r.url.password ≠ [] ∨ hostnameWithPort r.url ∈ s.hostsWithAuth) := by
    intro h; rcases h with h | h
    · exact h hp
    · exact hh h
  rw [if_neg hc, vals_prepareForSend]
  have e : ¬ title (lit "Authorization") = title (lit "Host") := by decide
  simp [e]

def exUrlB : UrlC :=
  { scheme := lit "https", hostname := lit "b.example", port := 443, ipv6 := false, path := lit "/y", query := [],
    username := [], password := [], normUser := [], normPass := [] }

def exUrlA : UrlC :=
  { scheme := lit "http", hostname := lit "a.example", port := 80, ipv6 := false, path := lit "/x", query := [],
    username := lit "u", password := lit "p", normUser := lit "u", normPass := lit "p" }

def exCfg : Cfg :=
  { maxRedirects := 5, proxy := false, factoryFields := [(lit "User-Agent", [lit "ua"])], useJar := false,
    auth := basicAuth, jar := fun _ _ => none }

/-- non-vacuity: through a proxy the 307 replay to an http URL carries the absolute URL -/
example :
    ((session { exCfg with proxy := true } (scriptAdv [.resp 307 true (.url { exUrlB with scheme := lit "http", port := 80 })])
        { exReq with url := exUrlA }).sent.map (·.resourcePath))
    = [lit "http://u:p@a.example/x", lit "http://b.example/y"] := by decide

/-- non-vacuity: a 307 from `http://u:p@a.example/x` to `https://b.example/y`: the replayed
request names b.example and carries no credentials -/
example :
    ((session exCfg (scriptAdv [.resp 307 true (.url exUrlB)]) { exReq with url := exUrlA }).sent.map
      (fun h => (getList h.fields (lit "Host"), getList h.fields (lit "Authorization"))))
    = [([lit "a.example"], [lit "Basic dTpw"]), ([lit "b.example"], [])] := by decide

end Wpull.Request
