/-
C14 — the URL table behaves as a keyed set with a status state machine.

`Wpull.Table.step` is the model of the code (rows referring to interned strings by id, UNIQUE
on the string id, "new = id > max(id)", updates through the string-id subquery, ORM object
mutation in `check_out`); `Wpull.Table.sstep` the reference keyed by URL.  This file proves
that the first refines the second for every history (section "REFINEMENT") and derives the
clauses of the property (section "PROPERTY THEOREMS").
-/
import Wpull.Table
namespace Wpull.Table
open Wpull

/-! ## url_strings -/

theorem idOf_some_get {ss : List Str} {s : Str} {i : Nat} (h : idOf ss s = some i) :
    ss[i]? = some s := by
  induction ss generalizing i with
  | nil => simp [idOf] at h
  | cons a t ih =>
    simp only [idOf] at h
    split at h
    · have : i = 0 := by simpa using h.symm
      subst this
      simp_all
    · cases hj : idOf t s with
      | none => simp [hj] at h
      | some j =>
        simp [hj] at h
        subst h
        simpa using ih hj

theorem idOf_some_lt {ss : List Str} {s : Str} {i : Nat} (h : idOf ss s = some i) :
    i < ss.length := by
  have := idOf_some_get h
  exact (List.getElem?_eq_some_iff.mp this).1

theorem idOf_none_iff {ss : List Str} {s : Str} : idOf ss s = none ↔ s ∉ ss := by
  induction ss with
  | nil => simp [idOf]
  | cons a t ih =>
    simp only [idOf]
    split
    · simp_all
    · rename_i hne
      have hne' : ¬ s = a := fun e => hne e.symm
      cases hj : idOf t s with
      | none => simp [hne', ih.mp hj]
      | some j =>
        have : s ∈ t := by
          apply Classical.byContradiction
          intro hn
          rw [ih.mpr hn] at hj
          cases hj
        simp [this]

theorem idOf_of_mem {ss : List Str} {s : Str} (h : s ∈ ss) : ∃ i, idOf ss s = some i := by
  cases hi : idOf ss s with
  | none => exact absurd h (idOf_none_iff.mp hi)
  | some i => exact ⟨i, rfl⟩

theorem idOf_of_get {ss : List Str} {s : Str} {i : Nat} (nd : ss.Nodup)
    (h : ss[i]? = some s) : idOf ss s = some i := by
  have hm : s ∈ ss := List.mem_of_getElem? h
  obtain ⟨j, hj⟩ := idOf_of_mem hm
  have hj' := idOf_some_get hj
  have hlt := idOf_some_lt hj
  have : j = i := (List.getElem?_inj hlt nd).mp (hj'.trans h.symm)
  rw [hj, this]

theorem intern_eq (ss : List Str) (s : Str) : ∃ m, intern ss s = ss ++ m := by
  unfold intern
  split
  · exact ⟨[], by simp⟩
  · exact ⟨[s], rfl⟩

theorem intern_nodup {ss : List Str} (s : Str) (nd : ss.Nodup) : (intern ss s).Nodup := by
  unfold intern
  split
  · exact nd
  · rename_i h
    rw [List.nodup_append]
    refine ⟨nd, by simp, ?_⟩
    intro a ha b hb
    simp at hb
    subst hb
    intro hab
    exact h (hab ▸ ha)

theorem mem_intern {ss : List Str} {s x : Str} : x ∈ intern ss s ↔ x ∈ ss ∨ x = s := by
  unfold intern
  split
  · rename_i h
    constructor
    · exact Or.inl
    · rintro (h' | h')
      · exact h'
      · exact h' ▸ h
  · simp

theorem internAll_eq (ss l : List Str) : ∃ m, internAll ss l = ss ++ m := by
  induction l generalizing ss with
  | nil => exact ⟨[], by simp [internAll]⟩
  | cons a t ih =>
    obtain ⟨m1, h1⟩ := intern_eq ss a
    obtain ⟨m2, h2⟩ := ih (intern ss a)
    refine ⟨m1 ++ m2, ?_⟩
    simp only [internAll, List.foldl_cons] at h2 ⊢
    rw [h2, h1, List.append_assoc]

theorem internAll_nodup {ss : List Str} (l : List Str) (nd : ss.Nodup) :
    (internAll ss l).Nodup := by
  induction l generalizing ss with
  | nil => simpa [internAll] using nd
  | cons a t ih =>
    simp only [internAll, List.foldl_cons]
    exact ih (intern_nodup a nd)

theorem mem_internAll {ss l : List Str} {x : Str} : x ∈ internAll ss l ↔ x ∈ ss ∨ x ∈ l := by
  induction l generalizing ss with
  | nil => simp [internAll]
  | cons a t ih =>
    simp only [internAll, List.foldl_cons] at ih ⊢
    rw [ih, mem_intern]
    simp only [List.mem_cons]
    constructor
    · rintro ((h | h) | h)
      · exact Or.inl h
      · exact Or.inr (Or.inl h)
      · exact Or.inr (Or.inr h)
    · rintro (h | h | h)
      · exact Or.inl (Or.inl h)
      · exact Or.inl (Or.inr h)
      · exact Or.inr h

/-! ## the invariant of the concrete table -/

/-- the part of a row that no status operation touches -/
structure Key where
  id : Nat
  urlId : Nat
  parentId : Option Nat
  rootId : Option Nat

def Row.key (r : Row) : Key := ⟨r.id, r.urlId, r.parentId, r.rootId⟩

/-- foreign keys point into `url_strings` -/
def KeyOk (ss : List Str) (k : Key) : Prop :=
  k.urlId < ss.length ∧ (∀ i, k.parentId = some i → i < ss.length) ∧
    (∀ i, k.rootId = some i → i < ss.length)

structure KInv (ss : List Str) (ks : List Key) : Prop where
  /-- UNIQUE(url_strings.url) -/
  nodup : ss.Nodup
  ok : ∀ k ∈ ks, KeyOk ss k
  /-- UNIQUE(queued_urls.url_string_id) -/
  uniq : ks.Pairwise (fun a b => a.urlId ≠ b.urlId)
  /-- rows are kept in id order, ids are distinct -/
  ids : ks.Pairwise (fun a b => a.id < b.id)

def Inv (t : Table) : Prop := KInv t.strings (t.rows.map Row.key)

theorem inv_empty : Inv Table.empty := by
  refine ⟨?_, ?_, ?_, ?_⟩ <;> simp [Table.empty]

theorem KInv.rowOk {ss : List Str} {rows : List Row} (h : KInv ss (rows.map Row.key))
    {r : Row} (hr : r ∈ rows) : KeyOk ss r.key :=
  h.ok _ (List.mem_map_of_mem hr)

theorem res_url {ss : List Str} {r : Row} (h : KeyOk ss r.key) :
    ss[r.urlId]? = some (res ss r).url := by
  have : r.urlId < ss.length := h.1
  simp [res, strOf, this]

/-- the central fact: selecting by string id = selecting by URL string -/
theorem match_url {ss : List Str} (nd : ss.Nodup) {r : Row} (h : KeyOk ss r.key) (u : Str) :
    some r.urlId = idOf ss u ↔ (res ss r).url = u := by
  constructor
  · intro e
    have := idOf_some_get e.symm
    rw [res_url h] at this
    exact Option.some.inj this
  · intro e
    have := res_url h
    rw [e] at this
    exact (idOf_of_get nd this).symm

theorem res_append {ss : List Str} {r : Row} (h : KeyOk ss r.key) (m : List Str) :
    res (ss ++ m) r = res ss r := by
  obtain ⟨h1, h2, h3⟩ := h
  have e1 : strOf (ss ++ m) r.urlId = strOf ss r.urlId := by
    simp only [strOf]; exact List.getElem?_append_left h1
  have e2 : r.parentId.bind (strOf (ss ++ m)) = r.parentId.bind (strOf ss) := by
    cases hp : r.parentId with
    | none => rfl
    | some i =>
      simp only [Option.bind_some, strOf]
      exact List.getElem?_append_left (h2 i hp)
  have e3 : r.rootId.bind (strOf (ss ++ m)) = r.rootId.bind (strOf ss) := by
    cases hp : r.rootId with
    | none => rfl
    | some i =>
      simp only [Option.bind_some, strOf]
      exact List.getElem?_append_left (h3 i hp)
  simp only [res, e1, e2, e3]

theorem KeyOk.append {ss : List Str} {k : Key} (h : KeyOk ss k) (m : List Str) :
    KeyOk (ss ++ m) k := by
  obtain ⟨h1, h2, h3⟩ := h
  refine ⟨?_, ?_, ?_⟩
  · simp; omega
  · intro i hi; have := h2 i hi; simp; omega
  · intro i hi; have := h3 i hi; simp; omega

/-- the URLs shown by `get_all()` are pairwise different -/
theorem KInv.urls_distinct {ss : List Str} {rows : List Row} (h : KInv ss (rows.map Row.key)) :
    (rows.map (res ss)).Pairwise (fun a b => a.url ≠ b.url) := by
  rw [List.pairwise_map]
  have hu := List.pairwise_map.mp h.uniq
  refine hu.imp_of_mem ?_
  intro a b ha hb hab e
  have ka := h.rowOk ha
  have kb := h.rowOk hb
  have e1 := res_url ka
  have e2 := res_url kb
  rw [e] at e1
  exact hab ((List.getElem?_inj ka.1 h.nodup).mp (e1.trans e2.symm))

/-! ## refinement, operation by operation -/

theorem inv_of_keys {t t' : Table} (hs : t'.strings = t.strings)
    (hk : t'.rows.map Row.key = t.rows.map Row.key) (h : Inv t) : Inv t' := by
  unfold Inv; rw [hs, hk]; exact h

theorem map_keys {rows : List Row} {g : Row → Row} (hg : ∀ r, (g r).key = r.key) :
    (rows.map g).map Row.key = rows.map Row.key := by
  rw [List.map_map]; exact List.map_congr_left (fun r _ => hg r)

theorem KInv.sublist {ss : List Str} {ks ks' : List Key} (h : KInv ss ks)
    (hs : ks'.Sublist ks) : KInv ss ks' :=
  ⟨h.nodup, fun k hk => h.ok k (hs.subset hk), h.uniq.sublist hs, h.ids.sublist hs⟩

/-- `UPDATE … WHERE url_string_id = (SELECT id …)` is an update keyed by the URL -/
theorem updateWhere_abs {t : Table} (h : Inv t) (u : Str) (f : Cols → Cols) :
    abs (updateWhere t u f) = sUpdateWhere (abs t) u f := by
  simp only [abs, updateWhere, sUpdateWhere, List.map_map]
  congr 1
  apply List.map_congr_left
  intro r hr
  have hm := match_url h.nodup (KInv.rowOk h hr) u
  simp only [Function.comp]
  by_cases c : some r.urlId = idOf t.strings u
  · rw [if_pos c, if_pos (hm.mp c)]; rfl
  · have : ¬ (res t.strings r).url = u := fun e => c (hm.mpr e)
    rw [if_neg c, if_neg this]

theorem updateWhere_inv {t : Table} (h : Inv t) (u : Str) (f : Cols → Cols) :
    Inv (updateWhere t u f) := by
  refine inv_of_keys (t := t) rfl ?_ h
  simp only [updateWhere]
  apply map_keys
  intro r
  split <;> rfl

theorem release_abs (t : Table) :
    (t.rows.map (fun r => { r with cols := r.cols.release })).map (res t.strings)
      = (t.rows.map (res t.strings)).map (fun r => { r with cols := r.cols.release }) := by
  simp [List.map_map, Function.comp_def, res]

theorem removeOne_abs {ss : List Str} {rows : List Row} (h : KInv ss (rows.map Row.key))
    (u : Str) : (removeOne ss rows u).map (res ss) = sRemoveOne (rows.map (res ss)) u := by
  simp only [removeOne, sRemoveOne, List.filter_map]
  congr 1
  apply List.filter_congr
  intro r hr
  have hm := match_url h.nodup (h.rowOk hr) u
  simp only [Function.comp]
  congr 1
  exact decide_eq_decide.mpr hm

theorem removeOne_inv {ss : List Str} {rows : List Row} (h : KInv ss (rows.map Row.key))
    (u : Str) : KInv ss ((removeOne ss rows u).map Row.key) :=
  h.sublist (List.Sublist.map _ List.filter_sublist)

theorem removeMany_abs {ss : List Str} (us : List Str) :
    ∀ rows : List Row, KInv ss (rows.map Row.key) →
      (us.foldl (removeOne ss) rows).map (res ss) = us.foldl sRemoveOne (rows.map (res ss))
        ∧ KInv ss ((us.foldl (removeOne ss) rows).map Row.key) := by
  induction us with
  | nil => intro rows h; exact ⟨rfl, h⟩
  | cons u t ih =>
    intro rows h
    simp only [List.foldl_cons]
    rw [← removeOne_abs h u]
    exact ih _ (removeOne_inv h u)

theorem checkOutRows_none {ss : List Str} {p : Cols → Bool} {rows : List Row}
    (h : checkOutRows p rows = none) :
    (rows.map (res ss)).find? (fun x => p x.cols) = none := by
  induction rows with
  | nil => rfl
  | cons r rest ih =>
    simp only [checkOutRows] at h
    split at h
    · cases h
    · rename_i hp
      have : checkOutRows p rest = none := by
        cases hc : checkOutRows p rest with
        | none => rfl
        | some x => simp [hc] at h
      simp only [List.map_cons, List.find?_cons]
      have hp' : p (res ss r).cols = false := by simpa [res] using hp
      rw [hp']
      exact ih this

/-- mutating the first matching ORM object = setting the status of *its URL* -/
theorem checkOutRows_some {ss : List Str} {p : Cols → Bool} {rows : List Row}
    (hd : (rows.map (res ss)).Pairwise (fun a b => a.url ≠ b.url))
    {r' : Row} {rows' : List Row} (h : checkOutRows p rows = some (r', rows')) :
    ∃ r, (rows.map (res ss)).find? (fun x => p x.cols) = some (res ss r)
      ∧ res ss r' = { res ss r with cols := (res ss r).cols.setStatus .in_progress }
      ∧ rows'.map (res ss) = (rows.map (res ss)).map (fun x =>
          if x.url = (res ss r).url then { x with cols := x.cols.setStatus .in_progress } else x)
      ∧ rows'.map Row.key = rows.map Row.key := by
  induction rows generalizing r' rows' with
  | nil => simp [checkOutRows] at h
  | cons r rest ih =>
    simp only [checkOutRows] at h
    rw [List.map_cons, List.pairwise_cons] at hd
    split at h
    · rename_i hp
      have hp' : p (res ss r).cols = true := by simpa [res] using hp
      simp only [Option.some.injEq, Prod.mk.injEq] at h
      obtain ⟨h1, h2⟩ := h
      subst h1; subst h2
      refine ⟨r, ?_, rfl, ?_, ?_⟩
      · simp [hp']
      · rw [List.map_cons, List.map_cons, List.map_cons, if_pos rfl]
        congr 1
        symm
        have hid : ∀ x ∈ rest.map (res ss), (fun x : Rec =>
            if x.url = (res ss r).url then { x with cols := x.cols.setStatus .in_progress } else x) x
              = id x := by
          intro x hx
          have := hd.1 x hx
          have hne : ¬ x.url = (res ss r).url := fun e => this e.symm
          simp only [if_neg hne, id]
        rw [List.map_congr_left hid, List.map_id]
      · simp [Row.key]
    · rename_i hp
      have hp' : p (res ss r).cols = false := by simpa [res] using hp
      cases hc : checkOutRows p rest with
      | none => simp [hc] at h
      | some x =>
        obtain ⟨x1, x2⟩ := x
        simp only [hc, Option.map_some, Option.some.injEq, Prod.mk.injEq] at h
        obtain ⟨h1, h2⟩ := h
        subst h1; subst h2
        obtain ⟨r0, f0, e0, m0, k0⟩ := ih hd.2 hc
        refine ⟨r0, ?_, e0, ?_, ?_⟩
        · simp [hp', f0]
        · simp only [List.map_cons]
          have hmem : res ss r0 ∈ rest.map (res ss) := List.mem_of_find?_eq_some f0
          have hne : ¬ (res ss r).url = (res ss r0).url := hd.1 _ hmem
          rw [if_neg hne, m0]
        · simp [k0]

/-! ### add_many -/

theorem le_maxId {rows : List Row} {r : Row} (h : r ∈ rows) : r.id ≤ maxId rows := by
  induction rows with
  | nil => cases h
  | cons a t ih =>
    simp only [maxId]
    rcases List.mem_cons.mp h with e | e
    · subst e; omega
    · have := ih e; omega

theorem maxId_append (a b : List Row) : maxId (a ++ b) = max (maxId a) (maxId b) := by
  induction a with
  | nil => simp [maxId]
  | cons x t ih => simp only [List.cons_append, maxId, ih]; omega

/-- every string an entry refers to was interned, except possibly an empty parent / root -/
def EntryOk (ss : List Str) (e : Entry) : Prop :=
  e.url ∈ ss ∧ (∀ p, e.parentParam = some p → p ≠ [] → p ∈ ss) ∧
    (∀ p, e.rootParam = some p → p ≠ [] → p ∈ ss)

theorem resolve_known {ss : List Str} {p : Option Str}
    (h : ∀ q, p = some q → q ≠ [] → q ∈ ss) :
    (p.bind (idOf ss)).bind (strOf ss) = p.bind (known (decide ([] ∈ ss))) := by
  cases p with
  | none => rfl
  | some q =>
    simp only [Option.bind_some]
    by_cases hq : q ∈ ss
    · obtain ⟨i, hi⟩ := idOf_of_mem hq
      rw [hi]
      simp only [Option.bind_some, strOf, idOf_some_get hi, known]
      by_cases e : q = []
      · subst e; simp [hq]
      · simp [e]
    · have e : q = [] := Classical.byContradiction (fun ne => hq (h q rfl ne))
      subst e
      rw [idOf_none_iff.mpr hq]
      simp [known, hq]

theorem insertRow_spec {ss : List Str} {rows : List Row} (h : KInv ss (rows.map Row.key))
    {e : Entry} (he : EntryOk ss e) :
    (insertRow ss rows e).map (res ss) = sInsert (decide ([] ∈ ss)) (rows.map (res ss)) e
      ∧ KInv ss ((insertRow ss rows e).map Row.key)
      ∧ ∃ new, insertRow ss rows e = rows ++ new ∧ ∀ r ∈ new, maxId rows < r.id := by
  obtain ⟨sid, hsid⟩ := idOf_of_mem he.1
  have hany : rows.any (fun r => r.urlId == sid)
      = (rows.map (res ss)).any (fun r => r.url == e.url) := by
    rw [Bool.eq_iff_iff]
    simp only [List.any_eq_true, List.mem_map, beq_iff_eq]
    constructor
    · rintro ⟨r, hr, e1⟩
      refine ⟨res ss r, ⟨r, hr, rfl⟩, ?_⟩
      exact (match_url h.nodup (h.rowOk hr) e.url).mp (by rw [hsid, e1])
    · rintro ⟨x, ⟨r, hr, rfl⟩, e1⟩
      refine ⟨r, hr, ?_⟩
      have := (match_url h.nodup (h.rowOk hr) e.url).mpr e1
      rw [hsid] at this
      exact Option.some.inj this
  unfold insertRow sInsert
  rw [hsid]
  simp only
  rw [← hany]
  cases hc : rows.any (fun r => r.urlId == sid) with
  | true =>
    simp only [if_true]
    exact ⟨by trivial, h, [], by simp, by simp⟩
  | false =>
    simp only [Bool.false_eq_true, if_false]
    have hnone : ∀ r ∈ rows, r.urlId ≠ sid := by
      intro r hr e1
      have : rows.any (fun r => r.urlId == sid) = true :=
        List.any_eq_true.mpr ⟨r, hr, by simp [e1]⟩
      rw [hc] at this
      cases this
    have hget := idOf_some_get hsid
    refine ⟨?_, ?_, _, rfl, ?_⟩
    · rw [List.map_append, List.map_cons, List.map_nil]
      congr 2
      simp only [res, strOf, hget, Option.getD_some]
      rw [resolve_known he.2.1, resolve_known he.2.2]
    · rw [List.map_append, List.map_cons, List.map_nil]
      refine ⟨h.nodup, ?_, ?_, ?_⟩
      · intro k hk
        rcases List.mem_append.mp hk with hk | hk
        · exact h.ok k hk
        · simp only [List.mem_singleton] at hk
          subst hk
          refine ⟨idOf_some_lt hsid, ?_, ?_⟩
          · intro i hi
            simp only [Row.key] at hi
            cases hp : e.parentParam with
            | none => simp [hp] at hi
            | some q => simp [hp] at hi; exact idOf_some_lt hi
          · intro i hi
            simp only [Row.key] at hi
            cases hp : e.rootParam with
            | none => simp [hp] at hi
            | some q => simp [hp] at hi; exact idOf_some_lt hi
      · rw [List.pairwise_append]
        refine ⟨h.uniq, by simp, ?_⟩
        intro a ha b hb
        simp only [List.mem_singleton] at hb
        subst hb
        obtain ⟨r, hr, rfl⟩ := List.mem_map.mp ha
        exact hnone r hr
      · rw [List.pairwise_append]
        refine ⟨h.ids, by simp, ?_⟩
        intro a ha b hb
        simp only [List.mem_singleton] at hb
        subst hb
        obtain ⟨r, hr, rfl⟩ := List.mem_map.mp ha
        have := le_maxId hr
        simp only [Row.key]
        omega
    · intro r hr
      simp only [List.mem_singleton] at hr
      subst hr
      simp

theorem insertAll_spec {ss : List Str} (batch : List Entry) (hb : ∀ e ∈ batch, EntryOk ss e) :
    ∀ rows : List Row, KInv ss (rows.map Row.key) →
      (batch.foldl (insertRow ss) rows).map (res ss)
          = batch.foldl (sInsert (decide ([] ∈ ss))) (rows.map (res ss))
        ∧ KInv ss ((batch.foldl (insertRow ss) rows).map Row.key)
        ∧ ∃ new, batch.foldl (insertRow ss) rows = rows ++ new ∧ ∀ r ∈ new, maxId rows < r.id := by
  induction batch with
  | nil => intro rows h; exact ⟨rfl, h, [], by simp, by simp⟩
  | cons e t ih =>
    intro rows h
    obtain ⟨a1, k1, new1, e1, n1⟩ := insertRow_spec h (hb e (List.mem_cons_self ..))
    obtain ⟨a2, k2, new2, e2, n2⟩ :=
      ih (fun x hx => hb x (List.mem_cons_of_mem _ hx)) (insertRow ss rows e) k1
    simp only [List.foldl_cons]
    refine ⟨?_, k2, new1 ++ new2, ?_, ?_⟩
    · rw [a2, a1]
    · rw [e2, e1, List.append_assoc]
    · intro r hr
      rcases List.mem_append.mp hr with hr | hr
      · exact n1 r hr
      · have := n2 r hr
        rw [e1, maxId_append] at this
        omega

theorem filterMap_eq_map {α β : Type} (f : α → Option β) (g : α → β) (l : List α)
    (h : ∀ x ∈ l, f x = some (g x)) : l.filterMap f = l.map g := by
  induction l with
  | nil => rfl
  | cons a t ih =>
    rw [List.filterMap_cons, h a (List.mem_cons_self ..), List.map_cons,
      ih (fun x hx => h x (List.mem_cons_of_mem _ hx))]

theorem entryOk_internAll (ss : List Str) (batch : List Entry) :
    ∀ e ∈ batch, EntryOk (internAll ss (batch.flatMap Entry.urlStrings)) e := by
  intro e he
  have sub : ∀ x ∈ e.urlStrings, x ∈ internAll ss (batch.flatMap Entry.urlStrings) := by
    intro x hx
    exact mem_internAll.mpr (Or.inr (List.mem_flatMap.mpr ⟨e, he, hx⟩))
  refine ⟨sub _ (by simp [Entry.urlStrings]), ?_, ?_⟩
  · intro p hp hne
    apply sub
    unfold Entry.parentParam at hp
    unfold Entry.urlStrings
    cases hpr : e.props with
    | none => simp [hpr] at hp; simp [hp]
    | some pr => simp [hpr] at hp; simp [hp, optL, hne]
  · intro p hp hne
    apply sub
    unfold Entry.rootParam at hp
    unfold Entry.urlStrings
    cases hpr : e.props with
    | none => simp [hpr] at hp; simp [hp]
    | some pr => simp [hpr] at hp; simp [hp, optL, hne]

theorem empty_mem_urlStrings (batch : List Entry) :
    [] ∈ batch.flatMap Entry.urlStrings ↔ ∃ e ∈ batch, e.url = [] := by
  simp only [List.mem_flatMap]
  constructor
  · rintro ⟨e, he, h⟩
    refine ⟨e, he, ?_⟩
    unfold Entry.urlStrings at h
    cases hpr : e.props with
    | none => simpa [hpr, eq_comm] using h
    | some pr =>
      simp only [hpr, List.mem_cons, List.mem_append, List.mem_filter] at h
      rcases h with h | h | h
      · exact h.symm
      · simp at h
      · simp at h
  · rintro ⟨e, he, h⟩
    exact ⟨e, he, by simp [Entry.urlStrings, h]⟩

/-- `add_many` = keyed insert-if-absent, and reports exactly the inserted URLs -/
theorem addMany_abs {t : Table} (h : Inv t) (batch : List Entry) :
    abs (addMany t batch).1 = (sAddMany (abs t) batch).1
      ∧ (addMany t batch).2 = (sAddMany (abs t) batch).2 ∧ Inv (addMany t batch).1 := by
  unfold addMany sAddMany
  by_cases h0 : batch.isEmpty = true
  · simp only [h0, if_true]; exact ⟨by trivial, by trivial, h⟩
  by_cases h1 : missingBind batch = true
  · simp only [h0, h1, if_true, Bool.false_eq_true, if_false]; exact ⟨by trivial, by trivial, h⟩
  simp only [h0, h1, Bool.false_eq_true, if_false]
  obtain ⟨m, hm⟩ := internAll_eq t.strings (batch.flatMap Entry.urlStrings)
  have hk : KInv (internAll t.strings (batch.flatMap Entry.urlStrings)) (t.rows.map Row.key) := by
    refine ⟨internAll_nodup _ h.nodup, ?_, h.uniq, h.ids⟩
    intro k hk'
    rw [hm]
    exact (h.ok k hk').append m
  have hrows : t.rows.map (res (internAll t.strings (batch.flatMap Entry.urlStrings)))
      = (abs t).rows := by
    simp only [abs]
    apply List.map_congr_left
    intro r hr
    rw [hm]
    exact res_append (KInv.rowOk h hr) m
  have hek : decide ([] ∈ internAll t.strings (batch.flatMap Entry.urlStrings))
      = ((abs t).emptyKnown || batch.any (fun e => e.url == [])) := by
    rw [Bool.eq_iff_iff]
    simp only [abs, decide_eq_true_eq, Bool.or_eq_true, List.any_eq_true, beq_iff_eq,
      mem_internAll, empty_mem_urlStrings]
  obtain ⟨a1, k1, new, e1, n1⟩ :=
    insertAll_spec batch (entryOk_internAll t.strings batch) t.rows hk
  rw [hrows, hek] at a1
  have hadded : ((batch.foldl (insertRow (internAll t.strings (batch.flatMap Entry.urlStrings)))
        t.rows).filter (fun r => maxId t.rows < r.id)).filterMap
        (fun r => strOf (internAll t.strings (batch.flatMap Entry.urlStrings)) r.urlId)
      = ((batch.foldl (sInsert ((abs t).emptyKnown || batch.any (fun e => e.url == [])))
          (abs t).rows).drop (abs t).rows.length).map (·.url) := by
    rw [← a1, e1, List.filter_append]
    have f1 : t.rows.filter (fun r => decide (maxId t.rows < r.id)) = [] := by
      rw [List.filter_eq_nil_iff]
      intro r hr
      have := le_maxId hr
      simp; omega
    have f2 : new.filter (fun r => decide (maxId t.rows < r.id)) = new := by
      rw [List.filter_eq_self]
      intro r hr
      simpa using n1 r hr
    rw [f1, f2, List.nil_append, List.map_append]
    have hl : (abs t).rows.length
        = (t.rows.map (res (internAll t.strings (batch.flatMap Entry.urlStrings)))).length := by
      simp [abs]
    rw [hl, List.drop_left, List.map_map]
    apply filterMap_eq_map
    intro r hr
    have hr' : r ∈ batch.foldl (insertRow (internAll t.strings (batch.flatMap Entry.urlStrings)))
        t.rows := by rw [e1]; exact List.mem_append_right _ hr
    simpa [strOf] using res_url (k1.rowOk hr')
  rw [hadded]
  cases hp : (((batch.foldl (sInsert ((abs t).emptyKnown || batch.any (fun e => e.url == [])))
      (abs t).rows).drop (abs t).rows.length).map (·.url)).mapM (parseOf batch) with
  | none => exact ⟨rfl, rfl, h⟩
  | some hs =>
    refine ⟨?_, rfl, k1⟩
    simp only [abs, a1, hek]

/-! ### check_out, get_one and the whole step -/

theorem checkOut_abs {t : Table} (h : Inv t) (st : Status) (lv : Option Nat) :
    abs (checkOut t st lv).1 = (sCheckOut (abs t) st lv).1
      ∧ (checkOut t st lv).2 = (sCheckOut (abs t) st lv).2 ∧ Inv (checkOut t st lv).1 := by
  unfold checkOut sCheckOut
  cases hc : checkOutRows (wanted st lv) t.rows with
  | none =>
    have hn := checkOutRows_none (ss := t.strings) hc
    simp only [abs]
    rw [hn]
    exact ⟨rfl, rfl, h⟩
  | some x =>
    obtain ⟨r', rows'⟩ := x
    obtain ⟨r, f0, e0, m0, k0⟩ := checkOutRows_some (KInv.urls_distinct h) hc
    simp only [abs]
    rw [f0]
    refine ⟨?_, ?_, inv_of_keys (t := t) rfl k0 h⟩
    · simp only [m0]
    · simp only [e0]

theorem find?_congr' {α : Type} {p q : α → Bool} {l : List α} (h : ∀ x ∈ l, p x = q x) :
    l.find? p = l.find? q := by
  induction l with
  | nil => rfl
  | cons a t ih =>
    simp only [List.find?_cons, h a (List.mem_cons_self ..)]
    rw [ih (fun x hx => h x (List.mem_cons_of_mem _ hx))]

theorem getOne_find {t : Table} (h : Inv t) (u : Str) :
    (t.rows.find? (fun r => strOf t.strings r.urlId == some u)).map (res t.strings)
      = (abs t).rows.find? (fun r => r.url == u) := by
  simp only [abs, List.find?_map]
  congr 1
  apply find?_congr'
  intro r hr
  have := res_url (KInv.rowOk h hr)
  simp only [strOf, this, Function.comp]
  rw [Bool.eq_iff_iff]
  simp

/-- REFINEMENT, one call: the concrete table and the reference make the same step -/
theorem step_refines (disk : Bool) {t : Table} (h : Inv t) (op : Op) :
    abs (step disk t op).1 = (sstep disk (abs t) op).1
      ∧ (step disk t op).2 = (sstep disk (abs t) op).2 ∧ Inv (step disk t op).1 := by
  unfold step sstep
  cases hb : bindErr op with
  | some e => exact ⟨rfl, rfl, h⟩
  | none =>
    simp only
    cases op with
    | addMany b => exact addMany_abs h b
    | checkOut st lv => exact checkOut_abs h st lv
    | checkIn u st inc r => exact ⟨updateWhere_abs h u _, rfl, updateWhere_inv h u _⟩
    | updateOne u kw => exact ⟨updateWhere_abs h u _, rfl, updateWhere_inv h u _⟩
    | release =>
      refine ⟨?_, rfl, ?_⟩
      · simp only [abs, release_abs]
      · refine inv_of_keys (t := t) rfl ?_ h
        exact map_keys (fun r => rfl)
    | removeMany us =>
      obtain ⟨a, k⟩ := removeMany_abs us t.rows h
      refine ⟨?_, rfl, k⟩
      simp only [abs, a]
    | addVisits vs => exact ⟨rfl, rfl, h⟩
    | getRevisitId u d => exact ⟨rfl, rfl, h⟩
    | count => exact ⟨rfl, by simp [abs], h⟩
    | getAll => exact ⟨rfl, rfl, h⟩
    | getOne u =>
      have hf := getOne_find h u
      dsimp only
      cases hc : t.rows.find? (fun r => strOf t.strings r.urlId == some u) with
      | none => rw [hc] at hf; simp only [Option.map_none] at hf; rw [← hf]; exact ⟨rfl, rfl, h⟩
      | some r => rw [hc] at hf; simp only [Option.map_some] at hf; rw [← hf]; exact ⟨rfl, rfl, h⟩
    | contains u =>
      have hf := getOne_find h u
      refine ⟨rfl, ?_, h⟩
      dsimp only
      rw [← hf]
      simp
    | getHostnames => exact ⟨rfl, rfl, h⟩
    | reopen =>
      cases disk with
      | true => exact ⟨rfl, rfl, h⟩
      | false => exact ⟨rfl, rfl, inv_empty⟩

/-- the tables a history can produce -/
def Reachable (disk : Bool) (t : Table) : Prop := ∃ ops, t = (run disk Table.empty ops).1

theorem run_refines (disk : Bool) (ops : List Op) : ∀ {t : Table}, Inv t →
    abs (run disk t ops).1 = (srun disk (abs t) ops).1
      ∧ (run disk t ops).2 = (srun disk (abs t) ops).2 ∧ Inv (run disk t ops).1 := by
  induction ops with
  | nil => intro t h; exact ⟨rfl, rfl, h⟩
  | cons op rest ih =>
    intro t h
    obtain ⟨a, o, k⟩ := step_refines disk h op
    obtain ⟨a2, o2, k2⟩ := ih k
    simp only [run, srun]
    rw [← a, ← o]
    exact ⟨a2, by rw [o2], k2⟩

theorem abs_empty : abs Table.empty = Spec.empty := rfl

theorem Reachable.inv {disk : Bool} {t : Table} (h : Reachable disk t) : Inv t := by
  obtain ⟨ops, rfl⟩ := h
  exact (run_refines disk ops inv_empty).2.2

theorem Reachable.next {disk : Bool} {t : Table} (h : Reachable disk t) (op : Op) :
    Reachable disk (step disk t op).1 := by
  obtain ⟨ops, rfl⟩ := h
  refine ⟨ops ++ [op], ?_⟩
  have key : ∀ (ops : List Op) (t : Table),
      (run disk t (ops ++ [op])).1 = (step disk (run disk t ops).1 op).1 := by
    intro ops
    induction ops with
    | nil => intro t; simp [run]
    | cons a rest ih => intro t; simp only [List.cons_append, run]; exact ih _
  exact (key ops _).symm

/-! ## reference-level facts used by the property theorems -/

/-- what `get_all()` shows -/
def view (t : Table) : List Rec := t.rows.map (res t.strings)

/-- what `get_one(u)` shows -/
def lookup (recs : List Rec) (u : Str) : Option Rec := recs.find? (fun r => r.url == u)

theorem view_step (disk : Bool) {t : Table} (h : Inv t) (op : Op) :
    view (step disk t op).1 = (sstep disk (abs t) op).1.rows := by
  have := (step_refines disk h op).1
  rw [← this]; rfl

theorem lookup_url {recs : List Rec} {u : Str} {r : Rec} (h : lookup recs u = some r) :
    r.url = u := by
  have := List.find?_some h
  simpa using this

theorem lookup_mem {recs : List Rec} {u : Str} {r : Rec} (h : lookup recs u = some r) :
    r ∈ recs := List.mem_of_find?_eq_some h

theorem lookup_map {recs : List Rec} (g : Rec → Rec) (hg : ∀ r, (g r).url = r.url) (u : Str) :
    lookup (recs.map g) u = (lookup recs u).map g := by
  unfold lookup
  rw [List.find?_map]
  congr 1
  apply find?_congr'
  intro r _
  simp [Function.comp, hg]

theorem lookup_of_mem {recs : List Rec} (hd : recs.Pairwise (fun a b => a.url ≠ b.url))
    {r : Rec} (hr : r ∈ recs) : lookup recs r.url = some r := by
  induction recs with
  | nil => cases hr
  | cons a t ih =>
    rw [List.pairwise_cons] at hd
    unfold lookup
    rw [List.find?_cons]
    rcases List.mem_cons.mp hr with e | e
    · subst e; simp
    · have : (a.url == r.url) = false := by
        rw [beq_eq_false_iff_ne]; exact hd.1 r e
      rw [this]
      exact ih hd.2 e

theorem map_url_map {recs : List Rec} (g : Rec → Rec) (hg : ∀ r, (g r).url = r.url) :
    (recs.map g).map (·.url) = recs.map (·.url) := by
  rw [List.map_map]
  exact List.map_congr_left (fun r _ => hg r)

theorem sInsert_cases (ek : Bool) (recs : List Rec) (e : Entry) :
    sInsert ek recs e = recs
      ∨ ∃ x, sInsert ek recs e = recs ++ [x] ∧ ∀ y ∈ recs, x.url ≠ y.url := by
  unfold sInsert
  cases hc : recs.any (fun r => r.url == e.url) with
  | true => exact Or.inl (by simp)
  | false =>
    refine Or.inr ⟨{ url := e.url, parent := e.parentParam.bind (known ek)
                     root := e.rootParam.bind (known ek), cols := e.cols },
      by simp only [Bool.false_eq_true, if_false], ?_⟩
    intro y hy e2
    have : recs.any (fun r => r.url == e.url) = true :=
      List.any_eq_true.mpr ⟨y, hy, by simp only at e2; simp [e2]⟩
    rw [hc] at this; cases this

theorem sInsertAll_append (ek : Bool) (batch : List Entry) : ∀ recs : List Rec,
    ∃ new, batch.foldl (sInsert ek) recs = recs ++ new
      ∧ ∀ x ∈ new, ∀ y ∈ recs, x.url ≠ y.url := by
  induction batch with
  | nil => intro recs; exact ⟨[], by simp, by simp⟩
  | cons e t ih =>
    intro recs
    simp only [List.foldl_cons]
    rcases sInsert_cases ek recs e with h | ⟨x, h, hx⟩
    · rw [h]; exact ih recs
    · rw [h]
      obtain ⟨new, e1, d1⟩ := ih (recs ++ [x])
      refine ⟨x :: new, by rw [e1]; simp, ?_⟩
      intro z hz y hy
      rcases List.mem_cons.mp hz with hz | hz
      · subst hz; exact hx y hy
      · exact d1 z hz y (List.mem_append_left _ hy)

theorem sAddMany_shape (s : Spec) (batch : List Entry) :
    ∃ new, (sAddMany s batch).1.rows = s.rows ++ new
      ∧ (∀ x ∈ new, ∀ y ∈ s.rows, x.url ≠ y.url)
      ∧ ((sAddMany s batch).2 = .urls (new.map (·.url))
          ∨ ∃ e, (sAddMany s batch).2 = .exc e ∧ new = []) := by
  unfold sAddMany
  by_cases h0 : batch.isEmpty = true
  · simp only [h0, if_true]; exact ⟨[], by simp, by simp, Or.inl rfl⟩
  by_cases h1 : missingBind batch = true
  · simp only [h0, h1, if_true, Bool.false_eq_true, if_false]
    exact ⟨[], by simp, by simp, Or.inr ⟨_, rfl, rfl⟩⟩
  simp only [h0, h1, Bool.false_eq_true, if_false]
  obtain ⟨new, e1, d1⟩ := sInsertAll_append
    (s.emptyKnown || batch.any (fun e => e.url == [])) batch s.rows
  rw [e1, List.drop_left]
  cases (new.map (·.url)).mapM (parseOf batch) with
  | none => exact ⟨[], by simp, by simp, Or.inr ⟨_, rfl, rfl⟩⟩
  | some hs => exact ⟨new, rfl, d1, Or.inl rfl⟩

theorem sRemoveAll_filter (us : List Str) : ∀ recs : List Rec,
    us.foldl sRemoveOne recs = recs.filter (fun r => decide (r.url ∉ us)) := by
  induction us with
  | nil => intro recs; exact (List.filter_eq_self.mpr (by simp)).symm
  | cons u t ih =>
    intro recs
    simp only [List.foldl_cons]
    rw [ih, sRemoveOne, List.filter_filter]
    apply List.filter_congr
    intro r _
    by_cases e : r.url = u <;> simp [e]

/-- a refused call (any exception) leaves the table exactly as it was -/
theorem exc_unchanged (disk : Bool) (t : Table) (op : Op) (e : Exc)
    (h : (step disk t op).2 = .exc e) : (step disk t op).1 = t := by
  unfold step at h ⊢
  cases hb : bindErr op with
  | some e' => rfl
  | none =>
    rw [hb] at h
    dsimp only at h ⊢
    cases op with
    | addMany b =>
      dsimp only at h ⊢
      unfold addMany at h ⊢
      by_cases h0 : b.isEmpty = true
      · simp [h0]
      by_cases h1 : missingBind b = true
      · simp [h0, h1]
      simp only [h0, h1, Bool.false_eq_true, if_false] at h ⊢
      split at h
      · rfl
      · cases h
    | checkOut st lv =>
      dsimp only at h ⊢
      unfold checkOut at h ⊢
      cases hc : checkOutRows (wanted st lv) t.rows with
      | none => rfl
      | some x => rw [hc] at h; cases h
    | getOne u =>
      dsimp only at h ⊢
      split <;> rfl
    | checkIn u st inc r => cases h
    | updateOne u kw => cases h
    | release => cases h
    | removeMany us => cases h
    | addVisits vs => cases h
    | getRevisitId u d => rfl
    | count => rfl
    | getAll => rfl
    | contains u => rfl
    | getHostnames => rfl
    | reopen => cases h

/-! ## PROPERTY THEOREMS (C14)

`view t` is what `get_all()` returns, `lookup (view t) u` what `get_one(u)` returns; `Reachable`
tables are the ones some history of calls (with reopen steps, `disk` = on-disk variant)
produces from the empty table.  Every theorem is for all histories, all URL strings and
property values. -/

/-- REFINEMENT (all histories): the table and the keyed reference give the same outputs, call by
call, and `get_all()` of the table is the reference's content — for the in-memory and the
on-disk variant, reopen steps included. -/
theorem refinement (disk : Bool) (ops : List Op) :
    (run disk Table.empty ops).2 = (srun disk Spec.empty ops).2
      ∧ abs (run disk Table.empty ops).1 = (srun disk Spec.empty ops).1 := by
  obtain ⟨a, o, _⟩ := run_refines disk ops inv_empty
  exact ⟨o, a⟩

/-- "a URL is stored once": in every reachable table no two rows carry the same URL. -/
theorem url_stored_once {disk : Bool} {t : Table} (hr : Reachable disk t) :
    (view t).Pairwise (fun a b => a.url ≠ b.url) :=
  KInv.urls_distinct hr.inv

/-- `add_many` only appends: the old rows stay as they are and in place, the appended rows carry
URLs that were not stored, and the returned list is exactly the appended URLs. -/
theorem add_extends {disk : Bool} {t : Table} (hr : Reachable disk t) (batch : List Entry) :
    ∃ new, view (step disk t (.addMany batch)).1 = view t ++ new
      ∧ (∀ x ∈ new, ∀ y ∈ view t, x.url ≠ y.url)
      ∧ ∀ l, (step disk t (.addMany batch)).2 = .urls l → l = new.map (·.url) := by
  have hi := hr.inv
  rw [view_step disk hi, (step_refines disk hi _).2.1]
  unfold sstep
  cases hb : bindErr (.addMany batch) with
  | some e => exact ⟨[], by simp [view, abs], by simp, by intro l h; cases h⟩
  | none =>
    dsimp only
    obtain ⟨new, e1, d1, o1⟩ := sAddMany_shape (abs t) batch
    refine ⟨new, e1, d1, ?_⟩
    intro l hl
    rcases o1 with o | ⟨e, o, _⟩
    · rw [o] at hl; injection hl with hl; exact hl.symm
    · rw [o] at hl; cases hl

/-- "adding it again changes neither its status, its try count nor its depth and is not reported
as new": the whole record of a stored URL is unchanged by any `add_many` (batches with internal
duplicates and arbitrary properties included), and the URL is not in the returned list. -/
theorem add_existing_noop {disk : Bool} {t : Table} (hr : Reachable disk t) (batch : List Entry)
    (u : Str) (r : Rec) (hu : lookup (view t) u = some r) :
    lookup (view (step disk t (.addMany batch)).1) u = some r
      ∧ (∀ l, (step disk t (.addMany batch)).2 = .urls l → u ∉ l)
      ∧ view t <+: view (step disk t (.addMany batch)).1 := by
  obtain ⟨new, e1, d1, o1⟩ := add_extends hr batch
  refine ⟨?_, ?_, ?_⟩
  · rw [e1]; unfold lookup at hu ⊢; rw [List.find?_append, hu]; rfl
  · intro l hl hmem
    rw [o1 l hl] at hmem
    obtain ⟨x, hx, ex⟩ := List.mem_map.mp hmem
    exact d1 x hx r (lookup_mem hu) (by rw [ex, lookup_url hu])
  · rw [e1]; exact List.prefix_append _ _

theorem wanted_iff (st : Status) (lv : Option Nat) (c : Cols) :
    wanted st lv c = true ↔ c.status = st ∧ ∀ l, lv = some l → c.level < l := by
  unfold wanted
  cases lv with
  | none => simp
  | some l => simp

/-- "check-out returns a URL with the requested status (and depth bound) and marks it in
progress": the returned record is the first stored row with that status (and level below the
bound), returned with status in_progress; afterwards exactly that URL's row is in_progress and
every other row is unchanged. -/
theorem checkout_marks_in_progress {disk : Bool} {t : Table} (hr : Reachable disk t)
    (st : Status) (lv : Option Nat) (t' : Table) (r : Rec)
    (h : step disk t (.checkOut st lv) = (t', .record r)) :
    ∃ r0, (view t).find? (fun x => wanted st lv x.cols) = some r0
      ∧ r0.cols.status = st ∧ (∀ l, lv = some l → r0.cols.level < l)
      ∧ r = { r0 with cols := r0.cols.setStatus .in_progress }
      ∧ r.cols.status = .in_progress
      ∧ view t' = (view t).map (fun x =>
          if x.url = r0.url then { x with cols := x.cols.setStatus .in_progress } else x)
      ∧ lookup (view t') r0.url = some r := by
  have hi := hr.inv
  have hv := view_step disk hi (.checkOut st lv)
  have ho := (step_refines disk hi (.checkOut st lv)).2.1
  rw [h] at hv ho
  dsimp only at hv ho
  unfold sstep at hv ho
  cases hb : bindErr (.checkOut st lv) with
  | some e => rw [hb] at ho; cases ho
  | none =>
    rw [hb] at hv ho
    dsimp only at hv ho
    unfold sCheckOut at hv ho
    cases hf : (abs t).rows.find? (fun x => wanted st lv x.cols) with
    | none => rw [hf] at ho; cases ho
    | some r0 =>
      rw [hf] at hv ho
      dsimp only at hv ho
      injection ho with ho
      have hws : wanted st lv r0.cols = true :=
        List.find?_some (p := fun x : Rec => wanted st lv x.cols) hf
      have hw := (wanted_iff st lv r0.cols).mp hws
      have hmem : r0 ∈ view t := List.mem_of_find?_eq_some hf
      refine ⟨r0, hf, hw.1, hw.2, ho, by rw [ho]; rfl, hv, ?_⟩
      have hview : (abs t).rows = view t := rfl
      rw [hview] at hv
      rw [hv, lookup_map _ (by intro x; split <;> rfl), lookup_of_mem (url_stored_once hr) hmem, ho]
      simp

/-- "or reports not found exactly when there is none" (and then nothing changes) -/
theorem checkout_notfound_iff {disk : Bool} {t : Table} (hr : Reachable disk t)
    (st : Status) (lv : Option Nat) (hlv : ∀ l, lv = some l → l < 2 ^ 63) :
    ((step disk t (.checkOut st lv)).2 = .exc .NotFound
        ↔ ∀ x ∈ view t, ¬ (x.cols.status = st ∧ ∀ l, lv = some l → x.cols.level < l))
      ∧ ((step disk t (.checkOut st lv)).2 = .exc .NotFound → (step disk t (.checkOut st lv)).1 = t) := by
  refine ⟨?_, exc_unchanged disk t _ _⟩
  have hi := hr.inv
  rw [(step_refines disk hi (.checkOut st lv)).2.1]
  have hb : bindErr (.checkOut st lv) = none := by
    unfold bindErr
    cases lv with
    | none => simp [Op.strs, Op.nats, optL]
    | some l =>
      have := hlv l rfl
      simp [Op.strs, Op.nats, optL, tooBig]
      omega
  unfold sstep
  rw [hb]
  dsimp only
  unfold sCheckOut
  cases hf : (abs t).rows.find? (fun x => wanted st lv x.cols) with
  | none =>
    simp only [true_iff]
    intro x hx hw
    have := List.find?_eq_none.mp hf x hx
    exact this ((wanted_iff st lv x.cols).mpr hw)
  | some r0 =>
    simp only [reduceCtorEq, false_iff]
    intro hall
    have hws : wanted st lv r0.cols = true :=
        List.find?_some (p := fun x : Rec => wanted st lv x.cols) hf
    exact hall r0 (List.mem_of_find?_eq_some hf) ((wanted_iff st lv r0.cols).mp hws)

/-- "check-in sets the given status and raises the try count by exactly one when asked": for a
stored URL the new record has the given status, try count + 1 if and only if the flag is set
(unchanged otherwise), the same level / URL / parent / root; every other URL's record is
unchanged. -/
theorem checkin_try_count_plus_one_iff_flag {disk : Bool} {t : Table} (hr : Reachable disk t)
    (u : Str) (st : Status) (inc : Bool) (rs : Option Result)
    (hb : bindErr (.checkIn u st inc rs) = none) (r : Rec) (hu : lookup (view t) u = some r) :
    ∃ r', lookup (view (step disk t (.checkIn u st inc rs)).1) u = some r'
      ∧ r'.cols.status = st
      ∧ r'.cols.tryCount = r.cols.tryCount + (if inc then 1 else 0)
      ∧ (r'.cols.tryCount = r.cols.tryCount + 1 ↔ inc = true)
      ∧ r'.cols.level = r.cols.level ∧ r'.url = r.url ∧ r'.parent = r.parent ∧ r'.root = r.root
      ∧ ∀ v, v ≠ u → lookup (view (step disk t (.checkIn u st inc rs)).1) v = lookup (view t) v := by
  have hi := hr.inv
  rw [view_step disk hi]
  unfold sstep
  rw [hb]
  dsimp only [sUpdateWhere]
  have hg : ∀ x : Rec, (if x.url = u then { x with cols := x.cols.checkIn st inc rs } else x).url
      = x.url := by intro x; split <;> rfl
  have hview : (abs t).rows = view t := rfl
  rw [hview]
  refine ⟨{ r with cols := r.cols.checkIn st inc rs }, ?_, rfl, ?_, ?_, rfl, rfl, rfl, rfl, ?_⟩
  · rw [lookup_map _ hg, hu]
    simp [lookup_url hu]
  · cases inc <;> simp [Cols.checkIn]
  · cases inc <;> simp [Cols.checkIn]
  · intro v hv
    rw [lookup_map _ hg]
    cases hl : lookup (view t) v with
    | none => rfl
    | some x =>
      have : ¬ x.url = u := by rw [lookup_url hl]; exact hv
      simp [this]

/-- "release turns every in-progress URL, and nothing else, back to to-do" -/
theorem release_only_in_progress {disk : Bool} {t : Table} (hr : Reachable disk t) :
    view (step disk t .release).1 = (view t).map (fun x => { x with cols := x.cols.release })
      ∧ (∀ c : Cols, c.status = .in_progress → c.release = { c with status := .todo })
      ∧ (∀ c : Cols, c.status ≠ .in_progress → c.release = c) := by
  refine ⟨?_, ?_, ?_⟩
  · rw [view_step disk hr.inv]; rfl
  · intro c hc; simp [Cols.release, hc]
  · intro c hc; simp [Cols.release, hc]

/-- "only removal deletes": after any call other than `remove_many` (and other than closing an
in-memory table) every stored URL is still stored, in the same position. -/
theorem only_remove_deletes {disk : Bool} {t : Table} (hr : Reachable disk t) (op : Op)
    (h1 : ∀ us, op ≠ .removeMany us) (h2 : op = .reopen → disk = true) :
    (view t).map (·.url) <+: (view (step disk t op).1).map (·.url) := by
  have hi := hr.inv
  rw [view_step disk hi]
  have hview : (abs t).rows = view t := rfl
  unfold sstep
  cases hb : bindErr op with
  | some e => exact List.prefix_rfl
  | none =>
    dsimp only
    cases op with
    | addMany b =>
      obtain ⟨new, e1, _, _⟩ := sAddMany_shape (abs t) b
      dsimp only
      rw [e1, List.map_append]
      exact List.prefix_append _ _
    | checkOut st lv =>
      dsimp only
      unfold sCheckOut
      split
      · exact List.prefix_rfl
      · dsimp only
        rw [map_url_map _ (by intro r; split <;> rfl)]
        exact List.prefix_rfl
    | checkIn u st inc r =>
      dsimp only [sUpdateWhere]
      rw [map_url_map _ (by intro r; split <;> rfl)]
      exact List.prefix_rfl
    | updateOne u kw =>
      dsimp only [sUpdateWhere]
      rw [map_url_map _ (by intro r; split <;> rfl)]
      exact List.prefix_rfl
    | release =>
      dsimp only
      rw [map_url_map _ (by intro r; rfl)]
      exact List.prefix_rfl
    | removeMany us => exact absurd rfl (h1 us)
    | addVisits vs => exact List.prefix_rfl
    | getRevisitId u d => exact List.prefix_rfl
    | count => exact List.prefix_rfl
    | getAll => exact List.prefix_rfl
    | getOne u => dsimp only; split <;> exact List.prefix_rfl
    | contains u => exact List.prefix_rfl
    | getHostnames => exact List.prefix_rfl
    | reopen =>
      have := h2 rfl
      subst this
      exact List.prefix_rfl

/-- `remove_many` deletes exactly the rows of the given URLs -/
theorem remove_deletes_exactly {disk : Bool} {t : Table} (hr : Reachable disk t) (us : List Str)
    (hb : bindErr (.removeMany us) = none) :
    view (step disk t (.removeMany us)).1 = (view t).filter (fun r => decide (r.url ∉ us)) := by
  rw [view_step disk hr.inv]
  unfold sstep
  rw [hb]
  dsimp only
  exact sRemoveAll_filter us _

theorem run_append (disk : Bool) (a b : List Op) : ∀ t : Table,
    run disk t (a ++ b)
      = ((run disk (run disk t a).1 b).1, (run disk t a).2 ++ (run disk (run disk t a).1 b).2) := by
  induction a with
  | nil => intro t; simp [run]
  | cons op rest ih => intro t; simp only [List.cons_append, run, ih]

/-- "the same holds across closing and reopening an on-disk table": close + reopen is the
identity on an on-disk table (an in-memory table starts empty again) … -/
theorem reopen_identity (t : Table) :
    step true t .reopen = (t, .none) ∧ step false t .reopen = (Table.empty, .none) :=
  ⟨rfl, rfl⟩

/-- … so a reopen step anywhere in a history of an on-disk table changes no later output and
not the final table. -/
theorem reopen_identity_history (t : Table) (ops1 ops2 : List Op) :
    (run true t (ops1 ++ .reopen :: ops2)).1 = (run true t (ops1 ++ ops2)).1
      ∧ (run true t (ops1 ++ .reopen :: ops2)).2
          = (run true t ops1).2 ++ .none :: (run true (run true t ops1).1 ops2).2
      ∧ (run true t (ops1 ++ ops2)).2
          = (run true t ops1).2 ++ (run true (run true t ops1).1 ops2).2 := by
  rw [run_append, run_append]
  have : ∀ t, run true t (.reopen :: ops2) = ((run true t ops2).1, .none :: (run true t ops2).2) := by
    intro t
    simp only [run]
    rw [(reopen_identity t).1]
  rw [this]
  exact ⟨rfl, rfl, rfl⟩

/-- every exception leaves the table unchanged (one call = one transaction) -/
theorem refused_call_changes_nothing (disk : Bool) (t : Table) (op : Op) (e : Exc)
    (h : (step disk t op).2 = .exc e) : (step disk t op).1 = t :=
  exc_unchanged disk t op e h

/-! ### several live tables (frame property) -/

/-- a call on one table leaves every other live table exactly as it was -/
theorem step_left_preserves_right (d1 d2 : Bool) (p : Table × Table) (op : Op) :
    (step2 d1 d2 p .left op).1.2 = p.2 ∧ (step2 d1 d2 p .right op).1.1 = p.1
      ∧ (step2 d1 d2 p .left op).1.1 = (step d1 p.1 op).1 ∧ (step2 d1 d2 p .left op).2 = (step d1 p.1 op).2
      ∧ (step2 d1 d2 p .right op).1.2 = (step d2 p.2 op).1
      ∧ (step2 d1 d2 p .right op).2 = (step d2 p.2 op).2 :=
  ⟨rfl, rfl, rfl, rfl, rfl, rfl⟩

/-- an interleaved history over two live tables is, for each table, exactly the history of its own
calls: same final table, same outputs (what the multi-table correspondence stream compares). -/
theorem interleaving_projects (d1 d2 : Bool) (h : List (Side × Op)) : ∀ p : Table × Table,
    (run2 d1 d2 p h).1.1 = (run d1 p.1 (proj .left h)).1
      ∧ (run2 d1 d2 p h).1.2 = (run d2 p.2 (proj .right h)).1
      ∧ proj .left (run2 d1 d2 p h).2 = (run d1 p.1 (proj .left h)).2
      ∧ proj .right (run2 d1 d2 p h).2 = (run d2 p.2 (proj .right h)).2 := by
  induction h with
  | nil => intro p; exact ⟨rfl, rfl, rfl, rfl⟩
  | cons x rest ih =>
    intro p
    obtain ⟨s, op⟩ := x
    cases s with
    | left =>
      obtain ⟨a, b, c, d⟩ := ih (step2 d1 d2 p .left op).1
      simp only [run2, proj, List.filterMap_cons, if_true, run, reduceCtorEq, if_false] at a b c d ⊢
      exact ⟨a, b, by rw [c]; rfl, d⟩
    | right =>
      obtain ⟨a, b, c, d⟩ := ih (step2 d1 d2 p .right op).1
      simp only [run2, proj, List.filterMap_cons, if_true, run, reduceCtorEq, if_false] at a b c d ⊢
      exact ⟨a, b, c, by rw [d]; rfl⟩

example : (run2 true false (Table.empty, Table.empty)
    [(.left, .addMany [⟨[1], none, none, some (some [104])⟩]), (.right, .count),
     (.right, .addMany [⟨[2], none, none, some (some [104])⟩]), (.left, .count),
     (.right, .reopen), (.left, .count), (.right, .count)]).2.map (·.2)
    = [.urls [[1]], .nat 0, .urls [[2]], .nat 1, .none, .nat 1, .nat 0] := by decide

/-! ### non-vacuity: the theorems talk about histories that do something -/

/-- a plain entry `AddURLInfo(u, None, None)` whose URL parses (hostname `[104]`) -/
def plain (u : Str) : Entry := ⟨u, none, none, some (some [104])⟩

def exHistory : List Op :=
  [.addMany [plain [1], plain [2], plain [1]], .checkOut .todo none, .checkIn [1] .done true none,
   .addMany [plain [1], plain [3]], .checkOut .error none, .checkOut .todo (some 0), .release,
   .reopen, .removeMany [[2]], .count]

example : (run true Table.empty exHistory).2
    = [.urls [[1], [2]], .record ⟨[1], some [1], some [1], ⟨.in_progress, 0, 0, none, none, 0, none, none, none⟩⟩,
       .none, .urls [[3]], .exc .NotFound, .exc .NotFound, .none, .none, .none, .nat 2] := by decide

example : (view (run true Table.empty exHistory).1).map (fun r => (r.url, r.cols.status, r.cols.tryCount))
    = [([1], .done, 1), ([3], .todo, 0)] := by decide

example : (run false Table.empty exHistory).2.getLast? = some (.nat 0) := by decide

example : Reachable true (run true Table.empty exHistory).1 := ⟨exHistory, rfl⟩

/-- re-adding a done URL with other properties: nothing changes, not reported -/
example :
    let s := step true (run true Table.empty exHistory).1
      (.addMany [⟨[1], some ⟨some [9], some [9], some .todo, some 0, some 7, none, none, none⟩, none,
        some none⟩])
    view s.1 = view (run true Table.empty exHistory).1 ∧ s.2 = .urls [] := by decide

/-- a lone surrogate is refused and nothing is stored -/
example : step true Table.empty (.addMany [plain [1], plain [0xDC80]])
    = (Table.empty, .exc .UnicodeEncodeError) := by decide

/-- an unparseable new URL rolls the whole batch back -/
example : step true Table.empty (.addMany [plain [1], ⟨[2], none, none, none⟩])
    = (Table.empty, .exc .ValueError) := by decide

end Wpull.Table
