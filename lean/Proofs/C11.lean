/-
C11 — URL parsing and joining are total: any text gives a result or a ValueError.
Theorems over the model `Wpull.Url` (lean/Wpull/Url.lean).  Helper lemmas first;
the property statements are in the section "Property theorems".

Termination ("never fails to terminate") is Lean's own totality check of
`Wpull.Url.parse` and of every accessor: all are structural recursions (plus the
digit fuel of `natDec`); there is no `partial def`.
-/
import Wpull.Url
namespace Wpull.Url
open Wpull

/-- every exception a computation can raise is a `ValueError` (or a subclass) -/
def OnlyVE {α : Type} (x : Except PyExc α) : Prop := ∀ e, x = .error e → e.isa .ValueError = true

/-- what is assumed about the parameters (stdlib functions that are not modelled):
each raises nothing but `ValueError` subclasses (`UnicodeError`, `AddressValueError`);
monitored by the harness on every sampled call -/
structure ParamsVE (c : Cfg) : Prop where
  encode : ∀ x, OnlyVE (c.encode x)
  idna : ∀ x, OnlyVE (c.idnaNA x)
  ipv6 : ∀ x, OnlyVE (c.ipv6 x)

/-! ## helper lemmas -/

theorem onlyVE_ok {α : Type} (a : α) : OnlyVE (Except.ok a : Except PyExc α) := by
  intro e h; cases h

theorem onlyVE_err {α : Type} {e : PyExc} (h : e.isa .ValueError = true) :
    OnlyVE (Except.error e : Except PyExc α) := by
  intro e' h'; cases h'; exact h

theorem pyInt_onlyVE (b : Nat) (s : Str) : OnlyVE (pyInt b s) := by
  intro e h
  unfold pyInt at h
  simp only at h
  repeat' split at h
  all_goals first | (cases h; rfl) | cases h

theorem encodeBy_onlyVE (f : Nat → Except PyExc Bytes) (hf : ∀ c, OnlyVE (f c)) :
    ∀ s, OnlyVE (encodeBy f s)
  | [] => by intro e h; simp [encodeBy] at h
  | c :: t => by
    intro e h
    unfold encodeBy at h
    split at h
    · rename_i e' he; cases h; exact hf c _ he
    · split at h
      · rename_i e' he; cases h; exact encodeBy_onlyVE f hf t _ he
      · cases h

theorem utf8Enc1_onlyVE (c : Nat) : OnlyVE (utf8Enc1 c) := by
  intro e h
  unfold utf8Enc1 at h
  repeat' split at h
  all_goals first | (cases h; rfl) | cases h

theorem utf8Enc_onlyVE (s : Str) : OnlyVE (utf8Enc s) := encodeBy_onlyVE _ utf8Enc1_onlyVE s

theorem latin1Enc_onlyVE (s : Str) : OnlyVE (latin1Enc s) := by
  apply encodeBy_onlyVE
  intro c e h
  split at h
  · cases h
  · cases h; rfl

theorem asciiEnc_onlyVE (s : Str) : OnlyVE (asciiEnc s) := by
  apply encodeBy_onlyVE
  intro c e h
  split at h
  · cases h
  · cases h; rfl

theorem percentEncode_onlyVE (enc : Str → Except PyExc Bytes) (henc : ∀ x, OnlyVE (enc x))
    (set : List Nat) (t : Str) : OnlyVE (percentEncode enc set t) := by
  intro e h
  unfold percentEncode at h
  split at h
  · rename_i e' he; cases h; exact henc _ _ he
  · cases h

theorem percentEncodePlus_onlyVE (enc : Str → Except PyExc Bytes) (henc : ∀ x, OnlyVE (enc x))
    (set : List Nat) (t : Str) : OnlyVE (percentEncodePlus enc set t) := by
  intro e h
  unfold percentEncodePlus at h
  split at h
  · rename_i e' he; cases h; exact percentEncode_onlyVE enc henc _ _ _ he
  · cases h

theorem normalizePath_onlyVE (c : Cfg) (hc : ParamsVE c) (p : Str) : OnlyVE (normalizePath c p) := by
  intro e h
  unfold normalizePath at h
  simp only at h
  split at h
  · rename_i e' he; cases h; exact percentEncode_onlyVE _ hc.encode _ _ _ he
  · cases h

theorem normalizeQuery_onlyVE (c : Cfg) (hc : ParamsVE c) (p : Str) : OnlyVE (normalizeQuery c p) := by
  intro e h
  unfold normalizeQuery at h
  split at h
  · rename_i e' he; cases h; exact percentEncodePlus_onlyVE _ hc.encode _ _ _ he
  · cases h

theorem normalizeFragment_onlyVE (c : Cfg) (hc : ParamsVE c) (p : Str) : OnlyVE (normalizeFragment c p) := by
  intro e h
  unfold normalizeFragment at h
  split at h
  · rename_i e' he; cases h; exact percentEncode_onlyVE _ hc.encode _ _ _ he
  · cases h

theorem normalizeUsername_onlyVE (p : Str) : OnlyVE (normalizeUsername p) := by
  intro e h
  unfold normalizeUsername at h
  split at h
  · rename_i e' he; cases h; exact percentEncode_onlyVE _ utf8Enc_onlyVE _ _ _ he
  · cases h

theorem normalizePassword_onlyVE (p : Str) : OnlyVE (normalizePassword p) := by
  intro e h
  unfold normalizePassword at h
  split at h
  · rename_i e' he; cases h; exact percentEncode_onlyVE _ utf8Enc_onlyVE _ _ _ he
  · cases h

theorem tryIpv4_onlyVE (h : Str) : OnlyVE (tryIpv4 h) := by
  intro e he
  unfold tryIpv4 at he
  split at he
  · cases he
  · split at he
    · cases he
    · -- the model keeps the (impossible) re-raise of a non-ValueError; show it cannot happen
      rename_i e' hn hno
      cases he
      exfalso
      apply hno
      -- every raise of normalizeIpv4 is a ValueError subclass
      have : ∀ e, normalizeIpv4 h = .error e → e.isa .ValueError = true := by
        intro e h1
        unfold normalizeIpv4 at h1
        simp only at h1
        have hp : ∀ t e, parseIpv4Int t = .error e → e.isa .ValueError = true :=
          fun t e h => pyInt_onlyVE _ _ _ h
        have ho : ∀ v e, ipv4OfInt v = .error e → e.isa .ValueError = true := by
          intro v e h; unfold ipv4OfInt at h; split at h
          · cases h; rfl
          · cases h
        have hs : ∀ l i e, ipv4Sum l i = .error e → e.isa .ValueError = true := by
          intro l
          induction l with
          | nil => intro i e h; simp [ipv4Sum] at h
          | cons p ps ih =>
            intro i e h
            unfold ipv4Sum at h
            split at h
            · rename_i e' he; cases h; exact hp _ _ he
            · split at h
              · rename_i e' he; cases h; exact ih _ _ he
              · cases h
        split at h1
        · split at h1
          · rename_i e' he; cases h1; exact hp _ _ he
          · exact ho _ _ h1
        · split at h1
          · split at h1
            · rename_i e' he; cases h1; exact hs _ _ _ he
            · exact ho _ _ h1
          · cases h1; rfl
      exact this _ hn

theorem idnaEncode_onlyVE (c : Cfg) (hc : ParamsVE c) (h : Str) : OnlyVE (idnaEncode c h) := by
  intro e he
  unfold idnaEncode at he
  split at he
  · cases he
  · split at he
    · split at he
      · cases he
      · cases he; rfl
    · exact hc.idna _ _ he

theorem normalizeHostname_onlyVE (c : Cfg) (hc : ParamsVE c) (h : Str) : OnlyVE (normalizeHostname c h) := by
  intro e he
  unfold normalizeHostname at he
  split at he
  · rename_i e' he'
    split at he
    · cases he; rfl
    · cases he; exact idnaEncode_onlyVE c hc _ _ he'
  · split at he
    · cases he; rfl
    · simp only at he
      split at he
      · split at he
        · rename_i e' he'; cases he; exact idnaEncode_onlyVE c hc _ _ he'
        · cases he
      · cases he

theorem parseIpv6Hostname_onlyVE (c : Cfg) (hc : ParamsVE c) (h : Str) : OnlyVE (parseIpv6Hostname c h) := by
  intro e he
  unfold parseIpv6Hostname at he
  split at he
  · cases he; rfl
  · split at he
    · cases he; rfl
    · exact hc.ipv6 _ _ he

theorem parseHostname_onlyVE (c : Cfg) (hc : ParamsVE c) (h : Str) : OnlyVE (parseHostname c h) := by
  intro e he
  unfold parseHostname at he
  split at he
  · exact parseIpv6Hostname_onlyVE c hc _ _ he
  · split at he
    · rename_i e' h'; cases he; exact tryIpv4_onlyVE _ _ h'
    · split at he
      · rename_i e' h'; cases he; exact normalizeHostname_onlyVE c hc _ _ h'
      · split at he
        · rename_i e' h'; cases he; exact tryIpv4_onlyVE _ _ h'
        · split at he
          · cases he; rfl
          · cases he

theorem parseHost_onlyVE (c : Cfg) (hc : ParamsVE c) (h : Str) : OnlyVE (parseHost c h) := by
  intro e he
  unfold parseHost at he
  split at he
  · split at he
    · rename_i e' h'; cases he; exact parseHostname_onlyVE c hc _ _ h'
    · cases he
  · simp only at he
    split at he
    · split at he
      · rename_i e' h'; cases he; exact pyInt_onlyVE _ _ _ h'
      · split at he
        · cases he; rfl
        · split at he
          · rename_i e' h'; cases he; exact parseHostname_onlyVE c hc _ _ h'
          · cases he
    · split at he
      · rename_i e' h'; cases he; exact parseHostname_onlyVE c hc _ _ h'
      · cases he

theorem parseNet_onlyVE (c : Cfg) (hc : ParamsVE c) (url scheme rem : Str) (dp : Nat) :
    OnlyVE (parseNet c url scheme rem dp) := by
  intro e he
  unfold parseNet at he
  simp only at he
  split at he
  · rename_i e' h'; cases he; exact parseHost_onlyVE c hc _ _ h'
  · split at he
    · cases he; rfl
    · split at he
      · rename_i e' h'; cases he; exact normalizePath_onlyVE c hc _ _ h'
      · split at he
        · rename_i e' h'; cases he; exact normalizeQuery_onlyVE c hc _ _ h'
        · split at he
          · rename_i e' h'; cases he; exact normalizeFragment_onlyVE c hc _ _ h'
          · split at he
            · rename_i e' h'; cases he; exact normalizeUsername_onlyVE _ _ h'
            · split at he
              · rename_i e' h'; cases he; exact normalizePassword_onlyVE _ _ h'
              · cases he

/-- what `parseNet` guarantees about a result it returns -/
theorem parseNet_ok {c : Cfg} {url scheme rem : Str} {dp : Nat} {i : URLInfo}
    (h : parseNet c url scheme rem dp = .ok i) :
    i.scheme = some scheme ∧
    (∃ un pw a b, i.username = some un ∧ i.password = some pw ∧
        normalizeUsername un = .ok a ∧ normalizePassword pw = .ok b) ∧
    (∃ hn host port, i.hostname = some hn ∧ i.host = some host ∧ parseHost c host = .ok (hn, port) ∧
        hn.isEmpty = false) ∧
    (∃ p q f, i.path = some p ∧ i.query = some q ∧ i.fragment = some f) ∧
    (∃ p, i.port = some p) := by
  unfold parseNet at h
  simp only at h
  split at h
  · cases h
  · rename_i hostname port hph
    split at h
    · cases h
    · rename_i hne
      split at h
      · cases h
      · split at h
        · cases h
        · split at h
          · cases h
          · split at h
            · cases h
            · rename_i a ha
              split at h
              · cases h
              · rename_i b hb
                cases h
                refine ⟨rfl, ⟨_, _, a, b, rfl, rfl, ha, hb⟩, ⟨hostname, _, port, rfl, rfl, hph, ?_⟩,
                  ⟨_, _, _, rfl, rfl, rfl⟩, ⟨_, rfl⟩⟩
                simpa using hne

/-- a host name that `parse_hostname` returns holds no bracket, provided the IPv6 parameter returns none -/
theorem parseHostname_no_bracket {c : Cfg}
    (hv6 : ∀ x y, c.ipv6 x = .ok y → y.contains 91 = false ∧ y.contains 93 = false)
    {h hn : Str} (hh : parseHostname c h = .ok hn) : hn.contains 91 = false ∧ hn.contains 93 = false := by
  unfold parseHostname at hh
  split at hh
  · unfold parseIpv6Hostname at hh
    split at hh
    · cases hh
    · split at hh
      · cases hh
      · exact hv6 _ _ hh
  · split at hh
    · cases hh
    · split at hh
      · cases hh
      · split at hh
        · cases hh
        · split at hh
          · cases hh
          · rename_i h3 _ hforb
            cases hh
            have hall : ∀ x ∈ hn, forbiddenHost.contains x = false := by
              intro x hx
              cases hf : forbiddenHost.contains x with
              | false => rfl
              | true =>
                exfalso; apply hforb
                exact List.any_eq_true.mpr ⟨x, hx, hf⟩
            constructor
            · cases hc : hn.contains 91 with
              | false => rfl
              | true =>
                have := hall 91 (by simpa using hc)
                simp [forbiddenHost] at this
            · cases hc : hn.contains 93 with
              | false => rfl
              | true =>
                have := hall 93 (by simpa using hc)
                simp [forbiddenHost] at this

theorem parseHost_no_bracket {c : Cfg}
    (hv6 : ∀ x y, c.ipv6 x = .ok y → y.contains 91 = false ∧ y.contains 93 = false)
    {h hn : Str} {port : Option Nat} (hh : parseHost c h = .ok (hn, port)) :
    hn.contains 91 = false ∧ hn.contains 93 = false := by
  unfold parseHost at hh
  split at hh
  · split at hh
    · cases hh
    · rename_i x hx; cases hh; exact parseHostname_no_bracket hv6 hx
  · simp only at hh
    split at hh
    · split at hh
      · cases hh
      · split at hh
        · cases hh
        · split at hh
          · cases hh
          · rename_i x hx; cases hh; exact parseHostname_no_bracket hv6 hx
    · split at hh
      · cases hh
      · rename_i x hx; cases hh; exact parseHostname_no_bracket hv6 hx

theorem netScheme_some {s : Option Str} {sch : Str} {dp : Nat} (h : netScheme? s = some (sch, dp)) :
    s = some sch ∧ defaultPort? sch = some dp := by
  unfold netScheme? at h
  split at h
  · cases h
  · split at h
    · cases h
    · rename_i x d hd; cases h; exact ⟨rfl, hd⟩

theorem netScheme_of {sch : Str} {dp : Nat} (h : defaultPort? sch = some dp) :
    netScheme? (some sch) = some (sch, dp) := by
  simp [netScheme?, h]

/-! ## Property theorems -/

/-- **C11, parse.**  For every configuration whose parameters raise only
`ValueError`s and for every input string, `URLInfo.parse` returns a result or
raises a `ValueError` (subclass) — never anything else.  (Termination: `parse` is
a total Lean function.) -/
theorem parse_total (c : Cfg) (hc : ParamsVE c) (s : Str) : OnlyVE (parse c s) := by
  intro e he
  unfold parse at he
  simp only at he
  split at he
  · cases he; rfl
  · split at he
    · rename_i e' h'
      cases he
      unfold schemeSplit at h'
      simp only at h'
      repeat' split at h'
      all_goals first | (cases h'; rfl) | cases h'
    · split at he
      · split at he
        · rename_i e' h'; cases he; exact utf8Enc_onlyVE _ _ h'
        · cases he
      · exact parseNet_onlyVE c hc _ _ _ _ _ he

/-- the instantiation used most: UTF-8 documents -/
theorem parse_total_utf8 (c : Cfg) (henc : c.encode = utf8Enc)
    (hidna : ∀ x, OnlyVE (c.idnaNA x)) (hv6 : ∀ x, OnlyVE (c.ipv6 x)) (s : Str) :
    OnlyVE (parse c s) :=
  parse_total c ⟨by intro x; rw [henc]; exact utf8Enc_onlyVE x, hidna, hv6⟩ s

/-- **C11, the logging variant.**  `parse_url_or_log` never raises. -/
theorem parse_or_log_never_raises (c : Cfg) (hc : ParamsVE c) (s : Str) :
    ∃ r, parseOrLog c s = .ok r := by
  unfold parseOrLog
  split
  · exact ⟨_, rfl⟩
  · rename_i e he
    have := parse_total c hc s e he
    simp [this]

/-- **C11, `--escaped-fragment` rewriting.**  `URLRewriter.rewrite` (hash-fragment part) applied to any URL
whose normal form is readable never raises — whatever the URL holds (`{id}`, `{}`, lone braces, `%s`): the URL
is concatenated, not used as a format string. -/
theorem rewrite_never_raises (c : Cfg) (hc : ParamsVE c) (i : URLInfo) (hu : ∃ u, i.url = .ok u) :
    ∃ j, rewriteEscaped c i = .ok j := by
  obtain ⟨u, hu⟩ := hu
  unfold rewriteEscaped
  split
  · split
    · rw [hu]
      simp only
      rename_i rest _
      obtain ⟨r, hr⟩ := parse_or_log_never_raises c hc
        (u ++ [if (i.query.getD []).isEmpty then 63 else 38] ++ sEscFrag ++ rest)
      rw [hr]
      cases r with
      | none => exact ⟨_, rfl⟩
      | some j => exact ⟨_, rfl⟩
    · exact ⟨_, rfl⟩
  · exact ⟨_, rfl⟩

theorem hexChar_isHex : ∀ n, n < 16 → isHexDigit (hexChar n) = true := by decide

/-- **C11, the percent-encode table is total.**  For every byte value 0..255 and every encode set the
encoder yields either the byte itself (a printable ASCII byte outside the set) or `%XY` with two hex
digits — there is no byte without an entry (`PercentEncoderMap.__missing__` covers all 256). -/
theorem percent_table_total (set : List Nat) (b : Nat) (hb : b < 256) :
    (pctByte set b = [b] ∧ 0x20 ≤ b ∧ b ≤ 0x7E) ∨
    (∃ x y, pctByte set b = [37, x, y] ∧ isHexDigit x = true ∧ isHexDigit y = true) := by
  unfold pctByte
  split
  · right
    exact ⟨_, _, rfl, hexChar_isHex _ (by omega), hexChar_isHex _ (by omega)⟩
  · rename_i h
    simp only [Bool.or_eq_true, decide_eq_true_eq, not_or, Bool.not_eq_true] at h
    left
    exact ⟨rfl, by omega, by omega⟩

-- byte 0xFF (U+00FF under latin-1, U+044F under cp1251 …) is written %FF
example : pctByte defaultSet 255 = [37, 70, 70] := by decide

/-- **C11, the consumer of the logging variant.**  The link loop of
`ProcessingRule._process_scrape_info` never raises on any list of scraped links: unparseable
links are skipped, the others kept (at most one result per link). -/
theorem scrape_parse_never_raises (c : Cfg) (hc : ParamsVE c) :
    ∀ links : List Str, ∃ r, scrapeParse c links = .ok r ∧ r.length ≤ links.length
  | [] => ⟨[], rfl, Nat.le_refl _⟩
  | l :: ls => by
    obtain ⟨r, hr, hlen⟩ := scrape_parse_never_raises c hc ls
    obtain ⟨o, ho⟩ := parse_or_log_never_raises c hc l
    unfold scrapeParse
    rw [ho]
    cases o with
    | none => exact ⟨r, by simpa using hr, by simp; omega⟩
    | some i => exact ⟨i :: r, by simp [hr], by simp; omega⟩

/-- **C11, joining.**  Relative to the stdlib join raising only `ValueError`:
`wpull.url.urljoin` raises only `ValueError`, and `urljoin_safe` never raises
(for both values of `allow_fragments`). -/
theorem urljoin_only_valueerror (stdJoin : Bool → Str → Str → Except PyExc Str)
    (hj : ∀ af b u, OnlyVE (stdJoin af b u)) (af : Bool) (base url : Str) :
    OnlyVE (urljoin stdJoin af base url) := by
  intro e he
  unfold urljoin at he
  split at he
  · cases he
  · split at he
    · simp only at he
      split at he
      · exact hj _ _ _ _ he
      · exact hj _ _ _ _ he
    · exact hj _ _ _ _ he

theorem urljoin_safe_only_valueerror (stdJoin : Bool → Str → Str → Except PyExc Str)
    (hj : ∀ af b u, OnlyVE (stdJoin af b u)) (af : Bool) (base url : Str) :
    ∃ r, urljoinSafe stdJoin af base url = .ok r := by
  unfold urljoinSafe
  split
  · exact ⟨_, rfl⟩
  · rename_i e he
    have := urljoin_only_valueerror stdJoin hj af base url e he
    simp [this]

/-- a fragment-only reference joined without fragment parsing stays in the base document -/
theorem urljoin_fragment_only (stdJoin : Bool → Str → Str → Except PyExc Str) (base frag : Str) :
    urljoin stdJoin false base (35 :: frag) = .ok ((partition1 35 base).1 ++ 35 :: frag) := by
  unfold urljoin
  simp [startsWith]

theorem pyOr_some (x : Option Str) (d : Str) : (pyOr x (some d)).isSome = true := by
  unfold pyOr
  cases x with
  | none => rfl
  | some r => by_cases h : r.isEmpty = true <;> simp [h]

/-- **C11, HTML scraper glue (base selection).**  The base that `HTMLScraper._process_elements` hands
to `urljoin_safe` for an element's links is never `None`: the document base or, when it is missing or
its join failed, the page URL; for `<object>/<applet codebase=…>` the joined code base or, when that
join failed, the page URL. -/
theorem elementBase_some (stdJoin : Bool → Str → Str → Except PyExc Str) (page : Str) (doc : Option Str)
    (codebase : Option Str) (b : Option Str) (h : elementBase stdJoin page doc codebase = .ok b) :
    b.isSome = true := by
  unfold elementBase at h
  simp only at h
  split at h
  · cases h; exact pyOr_some _ _
  · split at h
    · cases h; exact pyOr_some _ _
    · split at h
      · cases h
      · cases h; exact pyOr_some _ _

/-- **C11, joining a scraped link against its page.**  Relative to the stdlib join raising only
`ValueError`: base selection plus join of one scraped link never raises, for every page URL, document
base, `codebase` and link text (scheme-relative, fragment-only, empty, unparseable …). -/
theorem scrapeLink_never_raises (stdJoin : Bool → Str → Str → Except PyExc Str)
    (hj : ∀ af b u, OnlyVE (stdJoin af b u)) (page : Str) (doc codebase : Option Str) (link : Str) :
    ∃ r, scrapeLink stdJoin page doc codebase link = .ok r := by
  unfold scrapeLink
  have hb : ∃ b, elementBase stdJoin page doc codebase = .ok b := by
    unfold elementBase
    simp only
    split
    · exact ⟨_, rfl⟩
    · split
      · exact ⟨_, rfl⟩
      · rename_i cb _
        obtain ⟨r, hr⟩ := urljoin_safe_only_valueerror stdJoin hj true page cb
        rw [hr]; exact ⟨_, rfl⟩
  obtain ⟨b, hb⟩ := hb
  rw [hb]
  have hsome := elementBase_some stdJoin page doc codebase b hb
  cases b with
  | none => cases hsome
  | some base =>
    simp only [joinOnBase]
    exact urljoin_safe_only_valueerror stdJoin hj false base link

theorem docBase_never_raises (stdJoin : Bool → Str → Str → Except PyExc Str)
    (hj : ∀ af b u, OnlyVE (stdJoin af b u)) (page : Str) :
    ∀ (hrefs : List Str) (cur : Option Str), ∃ r, docBase stdJoin page hrefs cur = .ok r
  | [], cur => ⟨cur, rfl⟩
  | href :: rest, cur => by
    unfold docBase
    split
    · exact docBase_never_raises stdJoin hj page rest cur
    · obtain ⟨r, hr⟩ := urljoin_safe_only_valueerror stdJoin hj true page href
      rw [hr]
      exact docBase_never_raises stdJoin hj page rest r

/-- **C11, accessors.**  Every documented attribute of a returned result can be
read: `url`, `query_map`, `hostname_with_port` and `split_path` return (the
remaining attributes, `is_ipv6()`, `is_port_default()` and `to_dict()` are plain
values of the model / the attributes plus `url`).  The only hypothesis is that the
IPv6 parameter returns no bracket (what `hostname_with_port` asserts). -/
theorem accessors_total (c : Cfg)
    (hv6 : ∀ x y, c.ipv6 x = .ok y → y.contains 91 = false ∧ y.contains 93 = false)
    (s : Str) (i : URLInfo) (h : parse c s = .ok i) :
    (∃ u, i.url = .ok u) ∧ (∃ m, i.queryMap = .ok m) ∧
    (∃ x, i.hostnameWithPort = .ok x) ∧ (∃ p, i.splitPath = .ok p) := by
  unfold parse at h
  simp only at h
  split at h
  · cases h
  · split at h
    · cases h
    · split at h
      · -- not a network scheme: raw / scheme / path only
        rename_i hb
        split at h
        · cases h
        cases h
        refine ⟨⟨strip s, ?_⟩, ⟨_, rfl⟩, ⟨[], ?_⟩, ⟨_, rfl⟩⟩
        · unfold URLInfo.url; simp only [hb]
        · unfold URLInfo.hostnameWithPort; simp only [hb]
      · rename_i sch dp hb
        obtain ⟨hs, ⟨un, pw, a, b, hun, hpw, ha, hb'⟩, ⟨hn, host, port, hhn, hhost, hph, _⟩, ⟨p, q, f, hp, _, _⟩, _⟩ :=
          parseNet_ok h
        have hdp : defaultPort? sch = some dp := (netScheme_some hb).2
        have hns := netScheme_of hdp
        refine ⟨?_, ⟨_, rfl⟩, ?_, ⟨_, by unfold URLInfo.splitPath; rw [hp]⟩⟩
        · unfold URLInfo.url
          simp only [hs, hns, hun, hpw, Option.getD_some]
          split
          · rename_i e he
            split at he
            · cases he
            · rw [ha] at he; cases he
          · split
            · rename_i e he
              split at he
              · cases he
              · rw [hb'] at he; cases he
            · exact ⟨_, rfl⟩
        · have hnb := parseHost_no_bracket hv6 hph
          unfold URLInfo.hostnameWithPort
          simp only [hs, hns, hhn, Option.getD_some, hnb.1, hnb.2, Bool.or_self,
            Bool.false_eq_true, if_false]
          split <;> exact ⟨_, rfl⟩

/-! ## non-vacuity: concrete runs of the model -/

/-- a configuration: UTF-8, no non-ASCII host support, no IPv6 -/
def cfg0 : Cfg :=
  { defaultScheme := some sHttp, encode := utf8Enc, lowerNA := id,
    idnaNA := fun _ => .error .UnicodeError, ipv6 := fun _ => .error .AddressValueError, unquote := id }

theorem cfg0_paramsVE : ParamsVE cfg0 :=
  ⟨utf8Enc_onlyVE, fun _ => onlyVE_err rfl, fun _ => onlyVE_err rfl⟩

-- `HTTP://h:80/a/../b?q` parses and normalises to `http://h/b?q`
example : (parse cfg0 [72, 84, 84, 80, 58, 47, 47, 104, 58, 56, 48, 47, 97, 47, 46, 46, 47, 98, 63, 113]).bind URLInfo.url
    = .ok [104, 116, 116, 112, 58, 47, 47, 104, 47, 98, 63, 113] := by decide
-- `http://h:x/` is rejected with ValueError (the port)
example : parse cfg0 [104, 116, 116, 112, 58, 47, 47, 104, 58, 120, 47] = .error .ValueError := by decide
-- `http://[::1]/` reaches the IPv6 parameter; its AddressValueError is a ValueError
example : parse cfg0 [104, 116, 116, 112, 58, 47, 47, 91, 58, 58, 49, 93, 47] = .error .AddressValueError := by decide
-- a lone surrogate in the user info is rejected by `parse` itself (was: lazily by `.url`)
example : parse cfg0 [104, 116, 116, 112, 58, 47, 47, 0xdc80, 64, 104, 47] = .error .UnicodeEncodeError := by decide
-- `mailto:x` (no network scheme): every accessor returns
example : ((parse cfg0 [109, 97, 105, 108, 116, 111, 58, 120]).bind URLInfo.queryMap) = .ok [([], [[]])] := by decide
example : parseOrLog cfg0 [58] = .ok none := by decide
-- `http://h/{id}#!x` is rewritten to `http://h/{id}?_escaped_fragment_=x`
example : ((parse cfg0 [104, 116, 116, 112, 58, 47, 47, 104, 47, 123, 105, 100, 125, 35, 33, 120]).bind (rewriteEscaped cfg0)).bind URLInfo.url
    = .ok ([104, 116, 116, 112, 58, 47, 47, 104, 47, 123, 105, 100, 125, 63] ++ sEscFrag ++ [120]) := by decide
-- a junk link between two good ones is skipped: `["h.x", ":", "mailto:x"]` keeps two results
example : (scrapeParse cfg0 [[104, 46, 120], [58], [109, 97, 105, 108, 116, 111, 58, 120]]).map List.length = .ok 2 := by decide
example : urljoinSafe (fun _ _ _ => .error .ValueError) true [104] [47, 47, 120] = .ok none := by decide
-- the seeded defect on the model: a `None` base and a scheme-relative link raise AttributeError …
example : joinOnBase (fun _ _ _ => .error .ValueError) none [47, 47, 104, 47] = .error .AttributeError := by decide
-- … which base selection rules out: an unjoinable codebase falls back to the page URL `h:`
example : elementBase (fun _ _ _ => .error .ValueError) [104, 58] none (some [91]) = .ok (some [104, 58]) := by decide

end Wpull.Url
