/-
C04 — WARC records hold exactly the bytes exchanged on the wire.
Property theorems over the model `Wpull.HttpWire`: what the read listeners (hence the
WARC recorder session, which appends every event's data to the record block) receive
for a response is exactly the message's bytes on the wire.  Helper lemmas first.
-/
import Proofs.C08
import Proofs.C17
namespace Wpull.HttpWire
open Wpull Wpull.Ftp

variable {D : Type} {dc : Decoder D}

/-! ## helper lemmas: the specification accounts for every byte -/

theorem Acc.data_notified {a a' : Acc D} {d : Bytes} (h : a.data dc d = .ok a') :
    a'.notified = a.notified ++ d := by
  unfold Acc.data at h
  split at h
  · cases h; rfl
  · split at h
    · cases h; rfl
    · cases h

theorem Acc.flush_notified {a a' : Acc D} (h : a.flush dc = .ok a') : a'.notified = a.notified := by
  unfold Acc.flush at h
  split at h
  · cases h; rfl
  · split at h
    · cases h; rfl
    · cases h

theorem flatRev_cons (l : Bytes) (ls : List Bytes) : flatRev (l :: ls) = flatRev ls ++ l := by
  simp [flatRev]

theorem specHead_inv : ∀ (fuel : Nat) (r : Bytes) (eof : Bool) (ls : List Bytes) (n : Nat) (b nt r' : Bytes),
    specHead fuel r eof ls n = .ok b nt r' → nt ++ r' = flatRev ls ++ r := by
  intro fuel
  induction fuel with
  | zero => intro r eof ls n b nt r' h; simp [specHead] at h
  | succ fuel ih =>
    intro r eof ls n b nt r' h
    unfold specHead at h
    cases hrl : readlineFlat r eof with
    | tooLong => simp [hrl] at h
    | stall => simp [hrl] at h
    | line l r1 =>
      have hs := readlineFlat_line hrl
      simp only [hrl] at h
      split at h
      · cases h
      · split at h
        · split at h
          · cases h
          · cases h; rw [flatRev_cons, hs]; simp
        · split at h
          · cases h
          · have := ih _ _ _ _ _ _ _ h
            rw [this, flatRev_cons, hs]; simp

theorem specTrailer_inv : ∀ (fuel : Nat) (r : Bytes) (eof : Bool) (acc t r' : Bytes),
    specTrailer fuel r eof acc = .ok t r' → t ++ r' = acc ++ r := by
  intro fuel
  induction fuel with
  | zero => intro r eof acc t r' h; simp [specTrailer] at h
  | succ fuel ih =>
    intro r eof acc t r' h
    unfold specTrailer at h
    cases hrl : readlineFlat r eof with
    | tooLong => simp [hrl] at h
    | stall => simp [hrl] at h
    | line l r1 =>
      have hs := readlineFlat_line hrl
      simp only [hrl] at h
      split at h
      · cases h
      · split at h
        · cases h; rw [hs]; simp
        · have := ih _ _ _ _ _ h
          rw [this, hs]; simp

theorem specLength_inv {n : Nat} {r : Bytes} {eof : Bool} {a a' : Acc D} {r' : Bytes}
    (h : specLength dc n r eof a = .ok a' r') : a'.notified ++ r' = a.notified ++ r := by
  unfold specLength feedThen at h
  split at h
  · cases hd : a.data dc (r.take n) with
    | error e => simp [hd] at h
    | ok a2 =>
      simp only [hd] at h
      cases h
      rw [Acc.data_notified hd]; simp
  · cases hd : a.data dc r with
    | error e => simp [hd] at h
    | ok a2 => simp only [hd] at h; split at h <;> cases h

theorem specClose_inv {r : Bytes} {eof : Bool} {a a' : Acc D} {r' : Bytes}
    (h : specClose dc r eof a = .ok a' r') : a'.notified ++ r' = a.notified ++ r := by
  unfold specClose feedThen at h
  cases hd : a.data dc r with
  | error e => simp [hd] at h
  | ok a2 =>
    simp only [hd] at h
    split at h
    · cases h; rw [Acc.data_notified hd]; simp
    · cases h

theorem specChunked_inv (fuel0 : Nat) : ∀ (fuel : Nat) (r : Bytes) (eof : Bool) (a a' : Acc D) (t r' : Bytes),
    specChunked dc fuel0 fuel r eof a = .ok a' t r' → a'.notified ++ r' = a.notified ++ r := by
  intro fuel
  induction fuel with
  | zero => intro r eof a a' t r' h; simp [specChunked] at h
  | succ fuel ih =>
    intro r eof a a' t r' h
    unfold specChunked at h
    cases hrl : readlineFlat r eof with
    | tooLong => simp [hrl] at h
    | stall => simp [hrl] at h
    | line l r1 =>
      have hs := readlineFlat_line hrl
      simp only [hrl] at h
      split at h
      · cases h
      · cases hcs : chunkSize? l with
        | none => simp [hcs] at h
        | some size =>
          simp only [hcs] at h
          split at h
          · cases hfl : (a.note l).flush dc with
            | error e => simp [hfl] at h
            | ok a2 =>
              simp only [hfl] at h
              cases htr : specTrailer fuel0 r1 eof [] with
              | exc e => simp [htr] at h
              | stall => simp [htr] at h
              | ok t2 r2 =>
                simp only [htr] at h
                cases h
                have h1 := specTrailer_inv _ _ _ _ _ _ htr
                have h2 := Acc.flush_notified hfl
                simp only [Acc.note, h2, List.nil_append] at h1 ⊢
                rw [hs, List.append_assoc, List.append_assoc, h1]
          · split at h
            · cases hd : (a.note l).data dc (r1.take size) with
              | error e => simp [hd] at h
              | ok a2 =>
                simp only [hd] at h
                cases hrl2 : readlineFlat (r1.drop size) eof with
                | tooLong => simp [hrl2] at h
                | stall => simp [hrl2] at h
                | line nl r3 =>
                  have hs2 := readlineFlat_line hrl2
                  simp only [hrl2] at h
                  split at h
                  · cases h
                  · have := ih _ _ _ _ _ _ h
                    rw [this]
                    simp only [Acc.note, Acc.data_notified hd]
                    rw [hs]
                    conv => rhs; rw [← List.take_append_drop size r1, hs2]
                    simp
            · cases hd : (a.note l).data dc r1 with
              | error e => simp [hd] at h
              | ok a2 => simp only [hd] at h; split at h <;> cases h

/-- the specification accounts for every byte: message bytes ++ what follows = the stream -/
theorem rfc_accounts (cfg : StreamCfg) (req : ReqInfo) (w : Wire) (st : Status) (f : Fields) (b : Bytes)
    (h : (rfc dc cfg req w).outcome = .ok st f b) :
    (rfc dc cfg req w).notified ++ (rfc dc cfg req w).rest = w.bytes := by
  unfold rfc at h ⊢
  simp only at h ⊢
  cases hh : specHead (w.bytes.length + 2) w.bytes w.eof [] 0 with
  | exc e => simp [hh, specOf] at h
  | stall => simp [hh, specOf] at h
  | ok block nt r =>
    have hinv := specHead_inv _ _ _ _ _ _ _ _ hh
    simp only [flatRev, List.reverse_nil, List.flatten_nil, List.nil_append] at hinv
    simp only [hh] at h ⊢
    cases hp : parseResponse block with
    | error e => simp [hp, specOf] at h
    | ok p =>
      obtain ⟨st', f'⟩ := p
      simp only [hp] at h ⊢
      split at h
      · rename_i hnb
        simp only [hnb, if_true, specOf]
        exact hinv
      · rename_i hnb
        simp only [hnb, Bool.false_eq_true, if_false]
        unfold specBody at h ⊢
        simp only at h ⊢
        cases hs : bodyStrategy cfg f' with
        | chunked =>
          simp only [hs] at h ⊢
          cases hc : specChunked dc (w.bytes.length + 2) (w.bytes.length + 2) r w.eof
              { notified := nt, body := [], dec := (decKind f').map dc.init } with
          | exc e => simp [hc, finishChunkedSpec, specOf] at h
          | stall => simp [hc, finishChunkedSpec, specOf] at h
          | ok a t r' =>
            have := specChunked_inv _ _ _ _ _ _ _ _ hc
            simp only [hc, finishChunkedSpec] at h ⊢
            cases hpf : parseFields false f' t with
            | none => simp [hpf, specOf] at h
            | some f2 => simp only [specOf]; rw [this]; exact hinv
        | close =>
          simp only [hs] at h ⊢
          cases hc : specClose dc r w.eof { notified := nt, body := [], dec := (decKind f').map dc.init } with
          | exc e => simp [hc, finishSpec, specOf] at h
          | stall => simp [hc, finishSpec, specOf] at h
          | ok a r' =>
            have := specClose_inv hc
            simp only [hc, finishSpec] at h ⊢
            cases hfl : a.flush dc with
            | error e => simp [hfl, specOf] at h
            | ok a' => simp only [specOf]; rw [Acc.flush_notified hfl, this]; exact hinv
        | length =>
          simp only [hs] at h ⊢
          cases hcl : contentLength? ((f'.get? sContentLength).getD []) with
          | none =>
            simp only [hcl] at h ⊢
            cases hc : specClose dc r w.eof { notified := nt, body := [], dec := (decKind f').map dc.init } with
            | exc e => simp [hc, finishSpec, specOf] at h
            | stall => simp [hc, finishSpec, specOf] at h
            | ok a r' =>
              have := specClose_inv hc
              simp only [hc, finishSpec] at h ⊢
              cases hfl : a.flush dc with
              | error e => simp [hfl, specOf] at h
              | ok a' => simp only [specOf]; rw [Acc.flush_notified hfl, this]; exact hinv
          | some n =>
            simp only [hcl] at h ⊢
            cases hc : specLength dc n r w.eof { notified := nt, body := [], dec := (decKind f').map dc.init } with
            | exc e => simp [hc, finishSpec, specOf] at h
            | stall => simp [hc, finishSpec, specOf] at h
            | ok a r' =>
              have := specLength_inv hc
              simp only [hc, finishSpec] at h ⊢
              cases hfl : a.flush dc with
              | error e => simp [hfl, specOf] at h
              | ok a' => simp only [specOf]; rw [Acc.flush_notified hfl, this]; exact hinv

theorem rfc_length (cfg : StreamCfg) (req : ReqInfo) (w : Wire) :
    (rfc dc cfg req w).length = w.bytes.length - (rfc dc cfg req w).rest.length := by
  unfold rfc
  simp only
  split
  · rfl
  · rfl
  · split
    · rfl
    · split
      · rfl
      · unfold specBody
        simp only
        split
        · unfold finishChunkedSpec; split <;> try rfl
          split <;> rfl
        · split
          · unfold finishSpec; split <;> try rfl
            split <;> rfl
          · unfold finishSpec; split <;> try rfl
            split <;> rfl
        · unfold finishSpec; split <;> try rfl
          split <;> rfl

/-! ## Property theorems -/

/-- **C04 `reported_equals_consumed`.**  For every byte stream, schedule, request and
configuration: when a response completes, the bytes handed to the read listeners — which
the WARC recorder session appends verbatim to the response record block — are exactly
the first `message length` bytes the server sent for it: status line and header block as
formatted by the server, body still in its transfer and content coding, chunk framing and
trailers; nothing is missing, nothing is added, and surplus after a length-delimited body
(overrun) is cut off exactly at Content-Length. -/
theorem reported_equals_consumed (h : dc.Hom) (cfg : StreamCfg) (req : ReqInfo) (σ : List Nat) (w : Wire)
    (st : Status) (f : Fields) (b : Bytes) (hok : (decode dc cfg req σ w).outcome = .ok st f b) :
    (decode dc cfg req σ w).notified = w.bytes.take (rfc dc cfg req w).length ∧
    (rfc dc cfg req w).length ≤ (decode dc cfg req σ w).consumed := by
  have a := decode_agrees h cfg req σ w
  have hs : (rfc dc cfg req w).outcome = .ok st f b := a.outcome ▸ hok
  have hacc := rfc_accounts (dc := dc) cfg req w st f b hs
  have hlen := rfc_length (dc := dc) cfg req w
  have hn := a.notified ⟨st, f, b, hs⟩
  constructor
  · rw [hn]
    have hl : (rfc dc cfg req w).length = (rfc dc cfg req w).notified.length := by
      rw [hlen]; conv => lhs; rw [← hacc]
      simp
    rw [hl]
    conv => rhs; rw [← hacc]
    simp
  · rcases a.framing ⟨st, f, b, hs⟩ with ⟨_, c, _⟩ | ⟨_, hl, _⟩
    · omega
    · omega

/-- **C04 `request_block_is_bytes_written`.**  The request record block is the
concatenation of everything `write_request` / `write_body` handed to the connection for
that request. -/
theorem request_block_is_bytes_written (reqData : List Bytes) (r : Result) (hn : Bytes) :
    (record (exchangeEvents reqData r hn)).request = [reqData.flatten] := by
  have key : ∀ (ds : List Bytes) (b : Blocks), (ds.map Ev.requestData).foldl recordStep b
      = { b with curReq := b.curReq ++ ds.flatten } := by
    intro ds
    induction ds with
    | nil => intro b; simp
    | cons d t ih => intro b; simp [recordStep, ih]
  unfold record exchangeEvents
  cases r.outcome <;> simp [List.foldl_append, key, recordStep]

/-- **C04 `one_request_one_response_per_exchange`.**  Each exchange yields exactly one
request record; a completed exchange yields exactly one response record whose block is
the reported response bytes; an exchange that failed yields no response record. -/
theorem one_request_one_response_per_exchange (reqData : List Bytes) (r : Result) (k : Nat) :
    (record (exchangeEvents reqData r (r.notified.take k))).request.length = 1 ∧
    (match r.outcome with
     | .ok _ _ _ => (record (exchangeEvents reqData r (r.notified.take k))).response = [r.notified]
     | _ => (record (exchangeEvents reqData r (r.notified.take k))).response = []) := by
  have key : ∀ (ds : List Bytes) (b : Blocks), (ds.map Ev.requestData).foldl recordStep b
      = { b with curReq := b.curReq ++ ds.flatten } := by
    intro ds
    induction ds with
    | nil => intro b; simp
    | cons d t ih => intro b; simp [recordStep, ih]
  refine ⟨by rw [request_block_is_bytes_written]; rfl, ?_⟩
  unfold record exchangeEvents
  cases r.outcome <;> simp [List.foldl_append, key, recordStep]
  by_cases hk : k ≤ r.notified.length
  · rw [Nat.min_eq_left hk]; exact List.take_append_drop k _
  · have hle : r.notified.length ≤ k := by omega
    rw [Nat.min_eq_right hle, List.take_of_length_le hle]; simp

/-- **C04 `revisit_block_is_wire_prefix`.**  When the de-duplication table reports the payload
as seen, the record becomes a revisit record whose block is the recorded response cut at
`_find_payload_offset`: a prefix of the reported bytes, hence — for every byte stream and
schedule — a prefix of what the server sent for that response, and nothing else. -/
theorem revisit_block_is_wire_prefix (h : dc.Hom) (cfg : StreamCfg) (req : ReqInfo) (σ : List Nat) (w : Wire)
    (st : Status) (f : Fields) (b : Bytes) (hok : (decode dc cfg req σ w).outcome = .ok st f b) :
    revisitBlock (decode dc cfg req σ w).notified <+: w.bytes := by
  have hr := (reported_equals_consumed h cfg req σ w st f b hok).1
  unfold revisitBlock
  rw [hr, List.take_take]
  exact List.take_prefix _ _

/-- **C04 `revisit_needs_payload_identity`.**  A capture of a URL listed in the `--warc-dedup`
index becomes a revisit record (block cut down to the header) only if BOTH runs computed
payload digests and the two digests are the same string — never when the index was written,
or the current run is made, with digests off.  (Digests are base32 SHA-1 strings: not empty,
not the CDX placeholder.) -/
theorem revisit_needs_payload_identity (old new : Option Str)
    (hold : ∀ s, old = some s → s ≠ []) (hnew : ∀ s, new = some s → s ≠ lit "-")
    (hit : revisitHit old new = true) : ∃ s, old = some s ∧ new = some s := by
  unfold revisitHit cdxDigest lookupDigest at hit
  cases old with
  | none =>
    cases new with
    | none => simp [lit] at hit
    | some n => simp at hit; exact absurd hit.symm (hnew n rfl)
  | some o =>
    cases new with
    | none => simp at hit; exact absurd hit (hold o rfl)
    | some n => simp at hit; exact ⟨o, rfl, by rw [hit]⟩

example : revisitHit none none = false ∧ revisitHit (some (lit "ABC")) none = false ∧
    revisitHit none (some (lit "ABC")) = false ∧ revisitHit (some (lit "ABC")) (some (lit "ABC")) = true := by decide

/-! ### `_find_payload_offset`: the header block ends at the first *empty* line -/

/-- a line as `readline` returns it: no LF but the final one -/
def IsLine (l : Bytes) : Prop := ∃ b, l = b ++ [10] ∧ 10 ∉ b

theorem findLF_of_not_mem : ∀ (b : Bytes), 10 ∉ b → findLF b = none
  | [], _ => rfl
  | c :: t, h => by
    have hc : c ≠ 10 := fun e => h (by simp [e])
    have ht : 10 ∉ t := fun e => h (by simp [e])
    simp [findLF, hc, findLF_of_not_mem t ht]

theorem splitLF_line {l : Bytes} (hl : IsLine l) (rest : Bytes) : splitLF (l ++ rest) = (l, rest) := by
  obtain ⟨b, rfl, hb⟩ := hl
  have hf : findLF (b ++ [10] ++ rest) = some b.length := by
    rw [List.append_assoc, findLF_append_none (findLF_of_not_mem b hb)]
    simp [findLF]
  unfold splitLF
  rw [hf]
  simp only
  have h1 : (b ++ [10] ++ rest).take (b.length + 1) = b ++ [10] := by
    rw [List.take_append_of_le_length (by simp)]
    exact List.take_of_length_le (by simp)
  have h2 : (b ++ [10] ++ rest).drop (b.length + 1) = rest := by
    rw [List.drop_append_of_le_length (by simp)]
    simp
  rw [h1, h2]

/-- the end-of-header test of the recorder: only `\r\n` and `\n` are empty lines; a
whitespace-only line (` \r\n`, `\t\n`, `\r\r\n`, …) is not -/
def IsEmptyLine (l : Bytes) : Prop := l = [13, 10] ∨ l = [10]

theorem payloadOffset_go_lines : ∀ (ls : List Bytes) (fuel off : Nat) (e rest : Bytes),
    (∀ l ∈ ls, IsLine l ∧ ¬ IsEmptyLine l) → IsEmptyLine e →
    (ls.flatten ++ e ++ rest).length < fuel →
    payloadOffset.go fuel (ls.flatten ++ e ++ rest) off = off + ls.flatten.length + e.length := by
  intro ls
  induction ls with
  | nil =>
    intro fuel off e rest _ he hf
    obtain ⟨f, rfl⟩ : ∃ f, fuel = f + 1 := ⟨fuel - 1, by omega⟩
    have hle : IsLine e := by
      rcases he with rfl | rfl
      · exact ⟨[13], rfl, by simp⟩
      · exact ⟨[], rfl, by simp⟩
    have hne : (e ++ rest).isEmpty = false := by
      rcases he with rfl | rfl <;> simp
    simp only [List.flatten_nil, List.nil_append, payloadOffset.go, hne, Bool.false_eq_true, if_false,
      splitLF_line hle rest, List.length_nil, Nat.add_zero]
    rcases he with rfl | rfl <;> simp
  | cons l t ih =>
    intro fuel off e rest hls he hf
    obtain ⟨f, rfl⟩ : ∃ f, fuel = f + 1 := ⟨fuel - 1, by omega⟩
    have hl := hls l (by simp)
    have hl1 : 1 ≤ l.length := by
      obtain ⟨b, rfl, _⟩ := hl.1; simp
    have hne : (l ++ (t.flatten ++ e ++ rest)).isEmpty = false := by
      cases l with
      | nil => simp at hl1
      | cons x xs => simp
    have hnot : (l == [13, 10] || l == [10]) = false := by
      have := hl.2
      unfold IsEmptyLine at this
      simp only [not_or] at this
      simp [this.1, this.2]
    have hassoc : (l :: t).flatten ++ e ++ rest = l ++ (t.flatten ++ e ++ rest) := by simp
    rw [hassoc]
    simp only [payloadOffset.go, hne, Bool.false_eq_true, if_false, splitLF_line hl.1, hnot]
    rw [ih f (off + l.length) e rest (fun l' hl' => hls l' (by simp [hl'])) he
      (by rw [hassoc] at hf; simp at hf ⊢; omega)]
    simp only [List.flatten_cons, List.length_append]
    omega

/-- **C04 `payloadOffset_first_empty_line`.**  For a recorded block that consists of lines
`ls` none of which is empty — whitespace-only lines such as `b' \r\n'` included —, then an
empty line `e` (`\r\n` or `\n`), then anything: `_find_payload_offset` is the position
right after that first empty line, so a revisit block is the header block through its
terminating empty line. -/
theorem payloadOffset_first_empty_line (ls : List Bytes) (e rest : Bytes)
    (hls : ∀ l ∈ ls, IsLine l ∧ ¬ IsEmptyLine l) (he : IsEmptyLine e) :
    payloadOffset (ls.flatten ++ e ++ rest) = (ls.flatten ++ e).length ∧
    revisitBlock (ls.flatten ++ e ++ rest) = ls.flatten ++ e := by
  have h := payloadOffset_go_lines ls ((ls.flatten ++ e ++ rest).length + 1) 0 e rest hls he (by omega)
  have hp : payloadOffset (ls.flatten ++ e ++ rest) = (ls.flatten ++ e).length := by
    unfold payloadOffset
    rw [h]; simp
  refine ⟨hp, ?_⟩
  unfold revisitBlock
  rw [hp]
  exact List.take_left' rfl

/-! ## Non-vacuity -/

/-- a whitespace-only line does not end the header block -/
example : revisitBlock (lit "HTTP/1.1 200 OK\r\nX-A: 1\r\n \r\nContent-Length: 4\r\n\r\nbody") =
    lit "HTTP/1.1 200 OK\r\nX-A: 1\r\n \r\nContent-Length: 4\r\n\r\n" := by decide
example : IsLine (lit " \r\n") ∧ ¬ IsEmptyLine (lit " \r\n") := ⟨⟨lit " \r", rfl, by decide⟩, by unfold IsEmptyLine; decide⟩


example : revisitBlock (lit "HTTP/1.1 200 OK\nX: a\n b\n\nbody\n\nmore") = lit "HTTP/1.1 200 OK\nX: a\n b\n\n" := by decide
example : revisitBlock (decode idDecoder {} {} [] exMsg).notified = exMsg.bytes.take 38 := by decide

example : (decode idDecoder {} {} [0] exChunked).notified = exChunked.bytes := by decide
example : (decode idDecoder {} {} [] exMsg).notified = exMsg.bytes.take 40 ∧
    (decode idDecoder {} {} [] exMsg).consumed = 41 := by decide
example : (record (exchangeEvents [lit "GET / HTTP/1.1\r\n\r\n"] (decode idDecoder {} {} [] exMsg) (lit "HTTP"))).request
    = [lit "GET / HTTP/1.1\r\n\r\n"] := by decide

end Wpull.HttpWire
