/-
C20 — With robots enabled, disallowed URLs are never requested.

Property theorems over the gate machine `Wpull.Robots` (any number of items
working concurrently on any number of origins, any interleaving of their
`begin` / robots answer / page request steps, any robots.txt answers) and the
matcher `isAllowed`.  Helper lemmas first.
-/
import Wpull.Robots
import Proofs.Lemmas.Glob
namespace Wpull.Robots
open Wpull

/-! ## helper lemmas -/

theorem poolGet_put_self (p : List (Origin × List RuleSet)) (o : Origin) (rs : List RuleSet) :
    poolGet (poolPut p o rs) o = some rs := by
  simp [poolGet, poolPut]

theorem poolGet_put_other (p : List (Origin × List RuleSet)) (o o' : Origin) (rs : List RuleSet) (h : o' ≠ o) :
    poolGet (poolPut p o rs) o' = poolGet p o' := by
  have h1 : (o == o') = false := by simpa using fun e => h e.symm
  simp only [poolGet, poolPut, List.find?_cons, h1]
  congr 1
  induction p with
  | nil => rfl
  | cons x t ih =>
    by_cases hx : x.1 = o
    · have : (x.1 != o) = false := by simp [hx]
      have h2 : (x.1 == o') = false := by rw [hx]; exact h1
      simp only [List.filter_cons, this, List.find?_cons, h2]
      exact ih
    · have : (x.1 != o) = true := by simp [hx]
      simp only [List.filter_cons, this, if_true, List.find?_cons]
      cases (x.1 == o') <;> simp [ih]

theorem getItem_some {l : List Item} {i : ItemId} {it : Item} (h : getItem l i = some it) : it ∈ l ∧ it.id = i := by
  unfold getItem at h
  exact ⟨List.mem_of_find?_eq_some h, by simpa using List.find?_some h⟩

theorem mem_setPC {l : List Item} {i : ItemId} {pc : PC} {d : Option (List RuleSet)} {x : Item}
    (h : x ∈ setPC l i pc d) :
    (∃ y ∈ l, y.id = i ∧ x = { y with pc := pc, decided := if d.isSome then d else y.decided }) ∨ (x ∈ l ∧ x.id ≠ i) := by
  simp only [setPC, List.mem_map] at h
  obtain ⟨y, hy, e⟩ := h
  by_cases hi : y.id = i
  · left; have : (y.id == i) = true := by simpa using hi
    simp only [this, if_true] at e; exact ⟨y, hy, hi, e.symm⟩
  · right; have : (y.id == i) = false := by simpa using hi
    simp [this] at e; subst e; exact ⟨hy, hi⟩

theorem setPC_mem_self {l : List Item} {i : ItemId} {pc : PC} {d : Option (List RuleSet)} {y : Item}
    (hy : y ∈ l) (hi : y.id = i) :
    { y with pc := pc, decided := if d.isSome then d else y.decided } ∈ setPC l i pc d := by
  simp only [setPC, List.mem_map]
  exact ⟨y, hy, by simp [hi]⟩

theorem setPC_mem_other {l : List Item} {i : ItemId} {pc : PC} {d : Option (List RuleSet)} {y : Item}
    (hy : y ∈ l) (hi : y.id ≠ i) : y ∈ setPC l i pc d := by
  simp only [setPC, List.mem_map]
  refine ⟨y, hy, ?_⟩
  have : (y.id == i) = false := by simpa using hi
  simp [this]

theorem setPC_ids (l : List Item) (i : ItemId) (pc : PC) (d : Option (List RuleSet)) :
    (setPC l i pc d).map (·.id) = l.map (·.id) := by
  simp only [setPC, List.map_map]
  apply List.map_congr_left
  intro x _; simp only [Function.comp]; split <;> rfl

theorem item_unique {l : List Item} (hn : (l.map (·.id)).Nodup) {a b : Item} (ha : a ∈ l) (hb : b ∈ l)
    (e : a.id = b.id) : a = b := by
  induction l with
  | nil => cases ha
  | cons x t ih =>
    simp only [List.map_cons, List.nodup_cons] at hn
    rcases List.mem_cons.mp ha with rfl | ha' <;> rcases List.mem_cons.mp hb with rfl | hb'
    · rfl
    · exact absurd (List.mem_map.mpr ⟨b, hb', e.symm⟩) hn.1
    · exact absurd (List.mem_map.mpr ⟨a, ha', e⟩) hn.1
    · exact ih hn.2 ha' hb'

/-- origins whose robots.txt the pool obtained, according to the log -/
def loadedOf : List Req → List Origin
  | [] => []
  | .loaded o :: t => o :: loadedOf t
  | _ :: t => loadedOf t

theorem loadedOf_append (a b : List Req) : loadedOf (a ++ b) = loadedOf a ++ loadedOf b := by
  induction a with
  | nil => rfl
  | cons x t ih => cases x <;> simp [loadedOf, ih]

/-- The order discipline of a request log, given the origins already obtained:
a page of origin `o` only after `o` was obtained; a robots.txt request for `o` only while `o`
is not yet obtained. -/
def ordered : List Origin → List Req → Bool
  | _, [] => true
  | ld, .robots o _ :: t => !ld.contains o && ordered ld t
  | ld, .loaded o :: t => ordered (o :: ld) t
  | ld, .page _ o :: t => ld.contains o && ordered ld t

theorem ordered_append (ld : List Origin) (l : List Req) (e : Req) :
    ordered ld (l ++ [e]) = (ordered ld l && ordered (loadedOf l ++ ld) [e]) := by
  induction l generalizing ld with
  | nil => simp [ordered, loadedOf]
  | cons x t ih =>
    cases x with
    | robots o i => simp [ordered, loadedOf, ih, Bool.and_assoc]
    | page i o => simp [ordered, loadedOf, ih, Bool.and_assoc]
    | loaded o =>
      simp only [List.cons_append, ordered, loadedOf, ih]
      have : loadedOf t ++ o :: ld = (o :: loadedOf t) ++ ld ∨ True := Or.inr trivial
      congr 1
      cases e with
      | robots o' i => simp [ordered, List.contains_iff_mem, List.mem_append, List.mem_cons]; grind
      | page i o' => simp [ordered, List.contains_iff_mem, List.mem_append, List.mem_cons]; grind
      | loaded o' => simp [ordered]

structure Inv (ua : Str) (s : St) : Prop where
  ids : (s.items.map (·.id)).Nodup
  decided : ∀ it ∈ s.items, (it.pc = .allowed ∨ it.pc = .requested) →
      ∃ rs, it.decided = some rs ∧ isAllowed rs ua it.target = true ∧ (poolGet s.pool it.origin).isSome = true
  pageLog : ∀ i o, Req.page i o ∈ s.log → ∃ it ∈ s.items, it.id = i ∧ it.origin = o ∧ it.pc = .requested
  ord : ordered [] s.log = true
  loadedPool : ∀ o, (poolGet s.pool o).isSome = true ↔ o ∈ loadedOf s.log

def initSt (items : List Item) : St := ⟨[], items, []⟩

inductive Reach (ua : Str) (items : List Item) : St → Prop
  | init : Reach ua items (initSt items)
  | step {s s' : St} {e : Ev} : Reach ua items s → step ua s e = some s' → Reach ua items s'

theorem inv_init (ua : Str) (items : List Item) (hn : (items.map (·.id)).Nodup)
    (hidle : ∀ it ∈ items, it.pc = .idle) : Inv ua (initSt items) where
  ids := hn
  decided := by intro it hit h; have := hidle it hit; rcases h with h | h <;> rw [this] at h <;> cases h
  pageLog := by intro i o h; cases h
  ord := rfl
  loadedPool := by intro o; simp [initSt, poolGet, loadedOf]

theorem verdictPC_allowed {rs : List RuleSet} {ua t : Str} (h : verdictPC rs ua t = .allowed ∨ verdictPC rs ua t = .requested) :
    isAllowed rs ua t = true := by
  unfold verdictPC at h
  split at h
  · assumption
  · rcases h with h | h <;> cases h

theorem inv_step {ua : Str} {s s' : St} {e : Ev} (hi : Inv ua s) (h : step ua s e = some s') : Inv ua s' := by
  cases e with
  | begin i =>
    simp only [step] at h
    split at h
    · rename_i it hg
      have hg' := getItem_some hg
      split at h
      · cases h
      · rename_i hpc
        have hidle : it.pc = .idle := by simpa using hpc
        split at h
        · -- pool hit
          rename_i rs hp
          cases h
          refine ⟨by simpa [setPC_ids] using hi.ids, ?_, ?_, hi.ord, hi.loadedPool⟩
          · intro x hx hxp
            rcases mem_setPC hx with ⟨y, hy, hyi, e⟩ | ⟨hx', _⟩
            · have : y = it := item_unique hi.ids hy hg'.1 (by rw [hyi, hg'.2])
              subst this; subst e
              simp only at hxp ⊢
              exact ⟨rs, by simp, verdictPC_allowed hxp, by simp [hp]⟩
            · exact hi.decided x hx' hxp
          · intro j o hj
            obtain ⟨y, hy, h1, h2, h3⟩ := hi.pageLog j o hj
            have : y.id ≠ i := by
              intro e'
              have : y = it := item_unique hi.ids hy hg'.1 (by rw [e', hg'.2])
              rw [this, hidle] at h3; cases h3
            exact ⟨y, setPC_mem_other hy this, h1, h2, h3⟩
        · -- pool miss: robots.txt requested
          rename_i hp
          cases h
          refine ⟨by simpa [setPC_ids] using hi.ids, ?_, ?_, ?_, ?_⟩
          · intro x hx hxp
            rcases mem_setPC hx with ⟨y, hy, hyi, e⟩ | ⟨hx', _⟩
            · subst e; simp at hxp
            · exact hi.decided x hx' hxp
          · intro j o hj
            simp only [List.mem_append, List.mem_singleton] at hj
            rcases hj with hj | hj
            · obtain ⟨y, hy, h1, h2, h3⟩ := hi.pageLog j o hj
              have : y.id ≠ i := by
                intro e'
                have : y = it := item_unique hi.ids hy hg'.1 (by rw [e', hg'.2])
                rw [this, hidle] at h3; cases h3
              exact ⟨y, setPC_mem_other hy this, h1, h2, h3⟩
            · cases hj
          · rw [ordered_append, hi.ord]
            simp only [Bool.true_and, ordered, Bool.and_true, List.append_nil, Bool.not_eq_eq_eq_not, Bool.not_true]
            have hnl : it.origin ∉ loadedOf s.log := by
              intro hc
              have := (hi.loadedPool it.origin).mpr hc
              simp [hp] at this
            simpa [List.contains_iff_mem] using hnl
          · intro o; rw [loadedOf_append]; simpa [loadedOf] using hi.loadedPool o
    · cases h
  | answer i a =>
    simp only [step] at h
    split at h
    · rename_i it hg
      have hg' := getItem_some hg
      split at h
      · cases h
      · rename_i hpc
        have hwait : it.pc = .waiting := by simpa using hpc
        have hother : ∀ y ∈ s.items, y.pc = .requested → y.id ≠ i := by
          intro y hy h3 e'
          have : y = it := item_unique hi.ids hy hg'.1 (by rw [e', hg'.2])
          rw [this, hwait] at h3; cases h3
        -- the two loading answers share their proof
        have load : ∀ (rs : List RuleSet) (pc : PC),
            (pc = .allowed ∨ pc = .requested → isAllowed rs ua it.target = true) →
            Inv ua { s with pool := poolPut s.pool it.origin rs, items := setPC s.items i pc (some rs),
                            log := s.log ++ [.loaded it.origin] } := by
          intro rs pc hpcv
          refine ⟨by simpa [setPC_ids] using hi.ids, ?_, ?_, ?_, ?_⟩
          · intro x hx hxp
            rcases mem_setPC hx with ⟨y, hy, hyi, e⟩ | ⟨hx', _⟩
            · have : y = it := item_unique hi.ids hy hg'.1 (by rw [hyi, hg'.2])
              subst this; subst e
              exact ⟨rs, by simp, hpcv hxp, by simp [poolGet_put_self]⟩
            · obtain ⟨rs', h1, h2, h3⟩ := hi.decided x hx' hxp
              refine ⟨rs', h1, h2, ?_⟩
              by_cases ho : x.origin = it.origin
              · simp [ho, poolGet_put_self]
              · simpa [poolGet_put_other _ _ _ _ ho] using h3
          · intro j o hj
            simp only [List.mem_append, List.mem_singleton] at hj
            rcases hj with hj | hj
            · obtain ⟨y, hy, h1, h2, h3⟩ := hi.pageLog j o hj
              exact ⟨y, setPC_mem_other hy (hother y hy h3), h1, h2, h3⟩
            · cases hj
          · rw [ordered_append, hi.ord]; simp [ordered]
          · intro o
            rw [loadedOf_append]
            simp only [loadedOf, List.mem_append, List.mem_singleton]
            by_cases ho : o = it.origin
            · subst ho; simp [poolGet_put_self]
            · rw [poolGet_put_other _ _ _ _ ho, hi.loadedPool o]; simp [ho]
        have fail : Inv ua { s with items := setPC s.items i .postponed } := by
          refine ⟨by simpa [setPC_ids] using hi.ids, ?_, ?_, hi.ord, hi.loadedPool⟩
          · intro x hx hxp
            rcases mem_setPC hx with ⟨y, hy, hyi, e⟩ | ⟨hx', _⟩
            · subst e; simp at hxp
            · exact hi.decided x hx' hxp
          · intro j o hj
            obtain ⟨y, hy, h1, h2, h3⟩ := hi.pageLog j o hj
            exact ⟨y, setPC_mem_other hy (hother y hy h3), h1, h2, h3⟩
        cases a with
        | rules rs => cases h; exact load rs _ verdictPC_allowed
        | blank => cases h; exact load [] .allowed (fun _ => rfl)
        | serverError => cases h; exact fail
        | netError => cases h; exact fail
    · cases h
  | request i =>
    simp only [step] at h
    split at h
    · rename_i it hg
      have hg' := getItem_some hg
      split at h
      · cases h
      · rename_i hpc
        have hal : it.pc = .allowed := by simpa using hpc
        cases h
        obtain ⟨rs, hd1, hd2, hd3⟩ := hi.decided it hg'.1 (Or.inl hal)
        refine ⟨by simpa [setPC_ids] using hi.ids, ?_, ?_, ?_, ?_⟩
        · intro x hx hxp
          rcases mem_setPC hx with ⟨y, hy, hyi, e⟩ | ⟨hx', _⟩
          · have : y = it := item_unique hi.ids hy hg'.1 (by rw [hyi, hg'.2])
            subst this; subst e
            exact ⟨rs, by simpa using hd1, hd2, hd3⟩
          · exact hi.decided x hx' hxp
        · intro j o hj
          simp only [List.mem_append, List.mem_singleton] at hj
          rcases hj with hj | hj
          · obtain ⟨y, hy, h1, h2, h3⟩ := hi.pageLog j o hj
            have : y.id ≠ i := by
              intro e'
              have : y = it := item_unique hi.ids hy hg'.1 (by rw [e', hg'.2])
              rw [this, hal] at h3; cases h3
            exact ⟨y, setPC_mem_other hy this, h1, h2, h3⟩
          · cases hj
            exact ⟨_, setPC_mem_self hg'.1 hg'.2, hg'.2, rfl, rfl⟩
        · rw [ordered_append, hi.ord]
          simp only [Bool.true_and, ordered, Bool.and_true, List.append_nil]
          have := (hi.loadedPool it.origin).mp hd3
          simpa [List.contains_iff_mem] using this
        · intro o; rw [loadedOf_append]; simpa [loadedOf] using hi.loadedPool o
    · cases h

theorem reach_inv {ua : Str} {items : List Item} {s : St} (hn : (items.map (·.id)).Nodup)
    (hidle : ∀ it ∈ items, it.pc = .idle) (h : Reach ua items s) : Inv ua s := by
  induction h with
  | init => exact inv_init ua items hn hidle
  | step _ hs ih => exact inv_step ih hs

/-! ## Property theorems -/

variable {ua : Str} {items : List Item} {s : St}

/-- **C20 (the gate)** In every reachable state of every interleaving: a page
request in the log belongs to an item whose verdict was computed from a
robots.txt rule set (`decided`) that allows its URL for the crawler's agent, and
the pool holds the robots.txt of its origin.  No disallowed URL is requested. -/
theorem gate (hn : (items.map (·.id)).Nodup) (hidle : ∀ it ∈ items, it.pc = .idle) (h : Reach ua items s)
    (i : ItemId) (o : Origin) (hp : Req.page i o ∈ s.log) :
    ∃ it ∈ s.items, it.id = i ∧ it.origin = o ∧
      ∃ rs, it.decided = some rs ∧ isAllowed rs ua it.target = true ∧ (poolGet s.pool o).isSome = true := by
  have hi := reach_inv hn hidle h
  obtain ⟨it, hit, h1, h2, h3⟩ := hi.pageLog i o hp
  obtain ⟨rs, hd⟩ := hi.decided it hit (Or.inr h3)
  exact ⟨it, hit, h1, h2, rs, hd.1, hd.2.1, h2 ▸ hd.2.2⟩

/-- **C20 (order)** The request log of every run obeys the discipline `ordered`:
a page of an origin is requested only after that origin's robots.txt was
obtained, and robots.txt of an origin is never requested again once obtained. -/
theorem robots_first_and_never_again (hn : (items.map (·.id)).Nodup) (hidle : ∀ it ∈ items, it.pc = .idle)
    (h : Reach ua items s) : ordered [] s.log = true :=
  (reach_inv hn hidle h).ord

/-- what `ordered` says, spelled out for one log position: a page request of origin `o` has a
`loaded o` before it; a robots.txt request for `o` has no `loaded o` before it -/
theorem ordered_split (ld : List Origin) (l1 l2 : List Req) (e : Req) (h : ordered ld (l1 ++ e :: l2) = true) :
    (∀ i o, e = .page i o → o ∈ loadedOf l1 ++ ld) ∧ (∀ o i, e = .robots o i → o ∉ loadedOf l1 ++ ld) := by
  induction l1 generalizing ld with
  | nil =>
    constructor
    · intro i o he; subst he
      simp only [List.nil_append, ordered, Bool.and_eq_true, List.contains_iff_mem] at h
      simpa [loadedOf] using h.1
    · intro o i he; subst he
      simp only [List.nil_append, ordered, Bool.and_eq_true, Bool.not_eq_eq_eq_not, Bool.not_true] at h
      have := h.1
      simpa [loadedOf, List.contains_iff_mem] using this
  | cons x t ih =>
    cases x with
    | robots o' i' =>
      simp only [List.cons_append, ordered, Bool.and_eq_true] at h
      simpa [loadedOf] using ih ld h.2
    | page i' o' =>
      simp only [List.cons_append, ordered, Bool.and_eq_true] at h
      simpa [loadedOf] using ih ld h.2
    | loaded o' =>
      simp only [List.cons_append, ordered] at h
      have := ih (o' :: ld) h
      constructor
      · intro i o he
        have := this.1 i o he
        simp only [loadedOf, List.mem_append, List.mem_cons] at this ⊢
        rcases this with h1 | h1 | h1
        · exact Or.inl (Or.inr h1)
        · exact Or.inl (Or.inl h1)
        · exact Or.inr h1
      · intro o i he
        have := this.2 o i he
        simp only [loadedOf, List.mem_append, List.mem_cons, not_or] at this ⊢
        exact ⟨⟨this.2.1, this.1⟩, this.2.2⟩

/-- **C20 (a server error postpones)** An item whose robots.txt fetch ended in a
server or network error is never requested. -/
theorem server_error_postpones (hn : (items.map (·.id)).Nodup) (hidle : ∀ it ∈ items, it.pc = .idle)
    (h : Reach ua items s) (it : Item) (hit : it ∈ s.items) (hp : it.pc = .postponed) (o : Origin) :
    Req.page it.id o ∉ s.log := by
  have hi := reach_inv hn hidle h
  intro hc
  obtain ⟨y, hy, h1, _, h3⟩ := hi.pageLog it.id o hc
  have : y = it := item_unique hi.ids hy hit h1
  rw [this, hp] at h3; cases h3

/-- **C20 (denied is final)** An item with a negative robots verdict is never requested. -/
theorem denied_never_requested (hn : (items.map (·.id)).Nodup) (hidle : ∀ it ∈ items, it.pc = .idle)
    (h : Reach ua items s) (it : Item) (hit : it ∈ s.items) (hp : it.pc = .denied) (o : Origin) :
    Req.page it.id o ∉ s.log := by
  have hi := reach_inv hn hidle h
  intro hc
  obtain ⟨y, hy, h1, _, h3⟩ := hi.pageLog it.id o hc
  have : y = it := item_unique hi.ids hy hit h1
  rw [this, hp] at h3; cases h3

/-- **C20 (missing allows)** A robots.txt that is missing (any non-5xx, non-200 answer, or an
unparsable one) lets the waiting item through and records an empty rule set. -/
theorem missing_allows {s' : St} {i : ItemId} (h : step ua s (.answer i .blank) = some s') :
    ∃ it, getItem s.items i = some it ∧ poolGet s'.pool it.origin = some [] ∧
      ∀ x ∈ s'.items, x.id = i → x.pc = .allowed := by
  simp only [step] at h
  split at h
  · rename_i it hg
    split at h
    · cases h
    · cases h
      refine ⟨it, hg, poolGet_put_self _ _ _, ?_⟩
      intro x hx hxi
      rcases mem_setPC hx with ⟨y, _, _, e⟩ | ⟨_, hne⟩
      · subst e; rfl
      · exact absurd hxi hne
  · cases h

/-- the empty rule set allows everything; a matching agent group with a matching Disallow forbids -/
theorem blank_allows_all (ua t : Str) : isAllowed [] ua t = true := rfl

/-- **C20 (what a wildcard rule means)** A rule whose path contains `*` or ends in `$` applies to
a target exactly when the target is  part₀ ++ gap ++ part₁ ++ … ++ partₙ  for the parts of the
path between the `*`s — followed by anything unless the rule ends in `$` (GYM2008).  So the
executable matcher used by the gate is the documented wildcard semantics, for every rule and target. -/
theorem wildcard_rule_applies (r : Rule) (t : Str)
    (hw : (r.path.contains 42 || r.path.getLast? == some 36) = true) :
    (ruleVerdict r t = some r.allow ↔
      GlobSpec (r.path.getLast? == some 36)
        (splitOn1 (if (r.path.getLast? == some 36) = true then r.path.dropLast else r.path) 42) t) ∧
    (ruleVerdict r t = some r.allow ∨ ruleVerdict r t = none) := by
  unfold ruleVerdict
  simp only [hw, if_true]
  constructor
  · rw [← globMatch_iff]
    split <;> simp_all
  · split <;> split <;> simp

/-- a rule without wildcard applies exactly to the targets it is a prefix of; the blank path applies to
everything and negates its verdict ("Disallow:" allows all) -/
theorem plain_rule_applies (r : Rule) (t : Str)
    (hw : (r.path.contains 42 || r.path.getLast? == some 36) = false) :
    (ruleVerdict r t).isSome = true ↔ ∃ rest, t = r.path ++ rest := by
  unfold ruleVerdict
  simp only [hw, Bool.false_eq_true, if_false]
  rw [← startsWith_iff]
  split <;> simp_all

/-! ## Non-vacuity -/

def demoRules : List RuleSet := [⟨[lit "wpull"], [⟨true, lit "/private/x"⟩, ⟨false, lit "/private"⟩]⟩,
                                  ⟨[[42]], [⟨false, lit "/*.png$"⟩]⟩]
example : isAllowed demoRules (lit "wpull/2.0") (lit "/private/x") = true := by decide
example : isAllowed demoRules (lit "wpull/2.0") (lit "/private/y") = false := by decide
example : isAllowed demoRules (lit "other") (lit "/a/b.png") = false := by decide
example : isAllowed demoRules (lit "other") (lit "/a/b.png?x") = true := by decide

/-- two items of one origin racing for robots.txt, one of them disallowed -/
example : (run (lit "wpull") (initSt [⟨1, 0, lit "/a", .idle, none⟩, ⟨2, 0, lit "/private/y", .idle, none⟩])
    [.begin 1, .begin 2, .answer 1 (.rules demoRules), .request 1, .answer 2 (.rules demoRules)]).map
      (fun s => (s.log, s.items.map (·.pc))) =
    some ([.robots 0 1, .robots 0 2, .loaded 0, .page 1 0, .loaded 0], [.requested, .denied]) := by decide

/-! ### nofollow -/

theorem processElements_fst (robots : Bool) (es : List Elem) :
    (processElements robots es).1 = allLinks es := by
  induction es with
  | nil => rfl
  | cons e es ih => simp [processElements, allLinks, List.flatMap_cons] at *; simpa [allLinks] using ih

theorem processElements_snd (robots : Bool) (es : List Elem) :
    (processElements robots es).2 = (robots && es.any (·.nofollow)) := by
  induction es with
  | nil => simp [processElements]
  | cons e es ih =>
    simp only [processElements, List.any_cons, ih]
    cases robots <;> simp

theorem scrapeLinks_eq (robots : Bool) (es : List Elem) :
    scrapeLinks robots es =
      if robots && es.any (·.nofollow) then (allLinks es).filter (fun c => !c.linked) else allLinks es := by
  unfold scrapeLinks
  rw [← processElements_fst robots es, ← processElements_snd robots es]

/-- **C20 (nofollow)** With robots checking on, a page that declares `nofollow` ANYWHERE in the document
(before or after the links, once or several times) yields no context that would be followed as a link. -/
theorem nofollow_drops_every_link (es : List Elem) (h : ∃ e ∈ es, e.nofollow = true) :
    ∀ c ∈ scrapeLinks true es, c.linked = false := by
  intro c hc
  have hany : es.any (·.nofollow) = true := by
    obtain ⟨e, he, hn⟩ := h
    exact List.any_eq_true.mpr ⟨e, he, hn⟩
  rw [scrapeLinks_eq] at hc
  simp only [Bool.true_and, hany, if_true, List.mem_filter] at hc
  simpa using hc.2

/-- ... and its page requisites are all kept, in document order -/
theorem nofollow_keeps_requisites (robots : Bool) (es : List Elem) :
    (scrapeLinks robots es).filter (fun c => !c.linked) = (allLinks es).filter (fun c => !c.linked) := by
  rw [scrapeLinks_eq]
  split
  · simp [List.filter_filter]
  · rfl

/-- without the directive, or with robots checking off, nothing is dropped -/
theorem no_directive_keeps_all (robots : Bool) (es : List Elem)
    (h : robots = false ∨ ∀ e ∈ es, e.nofollow = false) : scrapeLinks robots es = allLinks es := by
  rw [scrapeLinks_eq]
  have : (robots && es.any (·.nofollow)) = false := by
    rcases h with h | h
    · simp [h]
    · have : es.any (·.nofollow) = false := by
        rw [List.any_eq_false]
        intro e he; simp [h e he]
      simp [this]
  simp [this]

/-- the position of the directive is irrelevant -/
theorem nofollow_position_irrelevant (robots : Bool) (a b : List Elem) (m : Elem) (hm : m.links = []) :
    scrapeLinks robots (a ++ m :: b) = scrapeLinks robots (m :: a ++ b) := by
  simp only [scrapeLinks_eq, allLinks, List.flatMap_append, List.flatMap_cons, hm, List.nil_append,
    List.any_append, List.any_cons, List.cons_append]
  cases robots <;> cases m.nofollow <;> simp [Bool.or_comm]

example : scrapeLinks true [⟨false, [⟨1, false, true⟩, ⟨2, true, false⟩]⟩, ⟨true, []⟩] = [⟨2, true, false⟩] := by decide
example : scrapeLinks false [⟨false, [⟨1, false, true⟩]⟩, ⟨true, []⟩] = [⟨1, false, true⟩] := by decide

end Wpull.Robots
