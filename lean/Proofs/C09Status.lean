/-
C09 — a status code is a number below 1000.

`Response.parse_status_line` (model: `Wpull.HttpWire.parseStatusLine`, tied by the `py status` stream of the
HTTP wire engine) reads at most three decimal digits for the code, whatever the server sends.  The rest of the
crawler relies on it: the code goes into an integer column of the URL table, into `%d`-style log lines and into
the WARC / CDX writers.  A parser that read `\d+` would hand the table a number it cannot store (seeded C09-21).
-/
import Wpull.HttpWirePy
namespace Wpull.HttpWire
open Wpull

theorem takeDigits_digits (l : List Nat) : ∀ c ∈ (takeDigits l).1, isAsciiDigit c = true := by
  induction l with
  | nil => intro c hc; simp [takeDigits] at hc
  | cons a t ih =>
    intro c hc
    unfold takeDigits at hc
    split at hc
    · rename_i ha
      simp only [List.mem_cons] at hc
      rcases hc with e | m
      · subst e; exact ha
      · exact ih c m
    · simp at hc

theorem digitsVal_go_lt (d : List Nat) (hd : ∀ c ∈ d, isAsciiDigit c = true) (a : Nat) :
    d.foldl (fun a c => a * 10 + (c - 48)) a < (a + 1) * 10 ^ d.length := by
  induction d generalizing a with
  | nil => simp
  | cons c t ih =>
    have hc : c - 48 ≤ 9 := by
      have := hd c (by simp)
      simp only [isAsciiDigit, Bool.and_eq_true, decide_eq_true_eq] at this
      omega
    have := ih (fun x hx => hd x (List.mem_cons_of_mem _ hx)) (a * 10 + (c - 48))
    simp only [List.foldl_cons, List.length_cons]
    calc _ < (a * 10 + (c - 48) + 1) * 10 ^ t.length := this
      _ ≤ ((a + 1) * 10) * 10 ^ t.length := Nat.mul_le_mul_right _ (by omega)
      _ = (a + 1) * 10 ^ (t.length + 1) := by rw [Nat.pow_succ, Nat.mul_assoc, Nat.mul_comm 10]

theorem digitsVal_lt (d : List Nat) (hd : ∀ c ∈ d, isAsciiDigit c = true) : digitsVal d < 10 ^ d.length := by
  simpa [digitsVal] using digitsVal_go_lt d hd 0

/-- Whatever the server writes as its status line: if the line is accepted at all, the code is below 1000. -/
theorem status_code_below_1000 (line : Bytes) (st : Status) (h : parseStatusLine line = some st) :
    st.code < 1000 := by
  have key : ∀ dc : List Nat, (∀ c ∈ dc, isAsciiDigit c = true) → digitsVal (dc.take 3) < 1000 := by
    intro dc hdc
    have hdig : ∀ c ∈ dc.take 3, isAsciiDigit c = true := fun c hc => hdc c (List.mem_of_mem_take hc)
    have hlen : (dc.take 3).length ≤ 3 := by simp; omega
    calc digitsVal (dc.take 3) < 10 ^ (dc.take 3).length := digitsVal_lt _ hdig
      _ ≤ 10 ^ 3 := Nat.pow_le_pow_right (by decide) hlen
  unfold parseStatusLine at h
  simp only [] at h
  repeat' split at h
  all_goals first
    | (cases h; exact key _ (takeDigits_digits _))
    | cases h

/-- the bound is reached, and a long run of digits is cut, not refused -/
example : (parseStatusLine (lit "HTTP/1.1 999 x")).map (·.code) = some 999 := by decide +kernel
example : (parseStatusLine (lit "HTTP/1.1 9223372036854775808 OK")).map (·.code) = some 922 := by decide +kernel

end Wpull.HttpWire
