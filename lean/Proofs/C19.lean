/-
C19 — Streaming content decoding equals one-shot decoding for every split.
Theorems over the model `Wpull.Decomp`.  zlib is an abstract `Inflater`; the
only thing assumed about it is `ChunkInvariant` (stated below, monitored on the
real zlib by the harness).  Helper lemmas first; the property statements are
the `theorem`s in the section "Property theorems".
-/
import Wpull.Decomp
namespace Wpull.Decomp
open Wpull

/-! ## the hypothesis about the inflater, and the specification -/

/-- **Chunking invariance** of an inflater: feeding a fresh object one input in
any two sequences of pieces gives the same total output, the same `eof` flag
after the final flush, or in both cases an exception (the same one).  This is
the whole trusted interface to zlib. -/
def ChunkInvariant (I : Inflater) : Prop :=
  ∀ (m : Mode) (ps qs : List Bytes), ps.flatten = qs.flatten → runAll I m ps = runAll I m qs

/-- What the wrappers make of a complete inflater run: the output when the end
of the compressed stream was reached, `zlib.error` when it was not. -/
def finish : Except PyExc (Bytes × Bool) → Except PyExc Bytes
  | .error e => .error e
  | .ok (out, true) => .ok out
  | .ok (_, false) => .error .ZlibError

/-- The inflater a body is handed to, as a function of the coding and of the
*whole* body: gzip iff the body starts with 0x1f; deflate: nothing for the empty
body, raw for a one-byte body, otherwise by the two-byte zlib header. -/
def selectedMode : Coding → Bytes → Option Mode
  | .identity, _ => none
  | .gzip, body => if body.take 1 == [0x1f] then some .gzip else none
  | .deflate, body =>
    if body.isEmpty then none else if body.length < 2 then some .raw else some (sniffMode body)

/-- One-shot decoding: the whole body given to the selected inflater at once,
flushed, `eof` tested; a zlib error becomes ProtocolError; no inflater = the
bytes unchanged. -/
def spec (I : Inflater) (c : Coding) (body : Bytes) : Except PyExc Bytes :=
  match selectedMode c body with
  | none => .ok body
  | some m => toProtocol (finish (runAll I m [body]))

variable (I : Inflater)

/-! ## helper lemmas -/

theorem map_nil_append (r : Except PyExc Bytes) : Except.map (fun x => [] ++ x) r = r := by
  cases r <;> simp [Except.map]

theorem toProtocol_map (f : Bytes → Bytes) (r : Except PyExc Bytes) :
    toProtocol (Except.map f r) = Except.map f (toProtocol r) := by
  cases r <;> simp [Except.map, toProtocol]

theorem finish_map (out : Bytes) (r : Except PyExc (Bytes × Bool)) :
    finish (Except.map (fun x => (out ++ x.1, x.2)) r) = Except.map (fun x => out ++ x) (finish r) := by
  rcases r with e | ⟨o, b⟩
  · simp [Except.map, finish]
  · cases b <;> simp [Except.map, finish]

/-- unfolding `runFrom` over a first piece -/
theorem runFrom_cons (s : I.σ) (p : Bytes) (ps : List Bytes) :
    runFrom I s (p :: ps) =
      match I.feed s p with
      | (_, .error e) => .error e
      | (s', .ok out) => Except.map (fun x => (out ++ x.1, x.2)) (runFrom I s' ps) := by
  unfold runFrom
  simp only [feedAll]
  rcases I.feed s p with ⟨s', e | out⟩
  · simp
  · simp only
    rcases feedAll I s' ps with ⟨s'', e | out'⟩
    · simp [Except.map]
    · simp only
      rcases I.flush s'' with ⟨s3, e | out''⟩
      · simp [Except.map]
      · simp [Except.map, List.append_assoc]

/-- `SimpleGzipDecompressor.flush` is the end of a run -/
theorem simpleFlush_eq (s : I.σ) : (simpleFlush I s).2 = finish (runFrom I s []) := by
  unfold simpleFlush runFrom
  simp only [feedAll]
  rcases I.flush s with ⟨s', e | out⟩
  · simp [finish]
  · cases h : I.eof s' <;> simp [finish, h]

/-- a `GzipDecompressor` that found the magic behaves as its zlib object -/
theorem gzip_committed (s : I.σ) (ps : List Bytes) :
    gzipRunFrom I ⟨s, true, true⟩ ps = finish (runFrom I s ps) := by
  induction ps generalizing s with
  | nil => simp [gzipRunFrom, gzipFlush, simpleFlush_eq]
  | cons p ps ih =>
    rw [runFrom_cons]
    simp only [gzipRunFrom, gzipDecompress]
    rcases I.feed s p with ⟨s', e | out⟩
    · simp [finish]
    · simp [ih, finish_map]

/-- a `GzipDecompressor` that did not find the magic is the identity -/
theorem gzip_passthrough (s : I.σ) (ps : List Bytes) :
    gzipRunFrom I ⟨s, true, false⟩ ps = .ok ps.flatten := by
  induction ps with
  | nil => simp [gzipRunFrom, gzipFlush]
  | cons p ps ih => simp [gzipRunFrom, gzipDecompress, ih, Except.map]

/-- a `DeflateDecompressor` that has chosen its format behaves as its zlib object -/
theorem defl_committed (s : I.σ) (pend : Bytes) (ps : List Bytes) :
    deflRunFrom I ⟨some s, pend⟩ ps = finish (runFrom I s ps) := by
  induction ps generalizing s with
  | nil => simp [deflRunFrom, deflFlush, simpleFlush_eq]
  | cons p ps ih =>
    rw [runFrom_cons]
    simp only [deflRunFrom, deflDecompress]
    rcases I.feed s p with ⟨s', e | out⟩
    · simp [finish]
    · simp [ih, finish_map]

theorem isZlibHeader_append (v w : Bytes) (h : 2 ≤ v.length) :
    isZlibHeader (v ++ w) = isZlibHeader v := by
  match v, h with
  | a :: b :: t, _ => simp [isZlibHeader]

theorem sniffMode_append (v w : Bytes) (h : 2 ≤ v.length) : sniffMode (v ++ w) = sniffMode v := by
  simp [sniffMode, isZlibHeader_append v w h]

/-- the wrappers driven directly, in terms of the inflater run over the same pieces -/
theorem gzip_wrapper_run (p : Bytes) (ps : List Bytes) (hp : p ≠ []) :
    gzipRunFrom I (GzipSt.new I) (p :: ps) =
      if (p :: ps).flatten.take 1 == [0x1f] then finish (runAll I .gzip (p :: ps))
      else .ok (p :: ps).flatten := by
  have htake : (p :: ps).flatten.take 1 = p.take 1 := by
    cases p with
    | nil => exact absurd rfl hp
    | cons a t => simp
  rw [htake]
  unfold runAll
  rw [runFrom_cons]
  simp only [gzipRunFrom, gzipDecompress, GzipSt.new]
  by_cases h : p.take 1 == [0x1f]
  · simp only [h, if_true]
    rcases I.feed (I.init .gzip) p with ⟨s', e | out⟩
    · simp [finish]
    · simp [gzip_committed, finish_map]
  · simp [h, gzip_passthrough, Except.map]

/-- the deflate wrapper before its format is decided: everything depends on
`pending ++ the rest of the body` only -/
theorem defl_undecided (hI : ChunkInvariant I) (pend : Bytes) (ps : List Bytes) (hpend : pend.length < 2) :
    deflRunFrom I ⟨none, pend⟩ ps =
      let body := pend ++ ps.flatten
      if body.isEmpty then .ok []
      else if body.length < 2 then finish (runAll I .raw [body])
      else finish (runAll I (sniffMode body) [body]) := by
  induction ps generalizing pend with
  | nil =>
    match pend, hpend with
    | [], _ => simp [deflRunFrom, deflFlush]
    | [x], _ =>
      simp only [deflRunFrom, deflFlush, runAll, List.flatten_nil, List.append_nil]
      rw [runFrom_cons]
      rcases I.feed (I.init .raw) [x] with ⟨s', e | out⟩
      · simp [finish]
      · dsimp only
        rw [finish_map, ← simpleFlush_eq]
        rcases simpleFlush I s' with ⟨s'', e | o2⟩ <;> simp [Except.map]
  | cons p ps ih =>
    simp only [deflRunFrom, deflDecompress]
    by_cases hv : (pend ++ p).length < 2
    · simp only [hv, if_true]
      rw [ih (pend ++ p) hv, map_nil_append]
      simp [List.append_assoc]
    · simp only [hv, if_false]
      have hv2 : 2 ≤ (pend ++ p).length := by omega
      have hbody : pend ++ (p :: ps).flatten = (pend ++ p) ++ ps.flatten := by simp [List.append_assoc]
      have hlen : ¬ (pend ++ (p :: ps).flatten).length < 2 := by
        rw [hbody, List.length_append]; omega
      have hne : (pend ++ (p :: ps).flatten).isEmpty = false := by
        cases hb : pend ++ (p :: ps).flatten with
        | nil => rw [hb] at hlen; simp at hlen
        | cons a t => rfl
      simp only [hne, hlen, if_false, Bool.false_eq_true]
      have hmode : sniffMode (pend ++ (p :: ps).flatten) = sniffMode (pend ++ p) := by
        rw [hbody]; exact sniffMode_append _ _ hv2
      rw [hmode]
      have hinv : runAll I (sniffMode (pend ++ p)) [pend ++ (p :: ps).flatten]
          = runAll I (sniffMode (pend ++ p)) ((pend ++ p) :: ps) := by
        apply hI; simp [List.append_assoc]
      rw [hinv]
      unfold runAll
      rw [runFrom_cons]
      rcases I.feed (I.init (sniffMode (pend ++ p))) (pend ++ p) with ⟨s', e | out⟩
      · simp [finish]
      · simp [defl_committed, finish_map]

/-- the stream-level functions = the wrapper + conversion of zlib.error -/
theorem stream_gzip (g : GzipSt I) (ps : List Bytes) :
    (readBodyFrom I (.gzip g) ps).result = toProtocol (gzipRunFrom I g ps) := by
  induction ps generalizing g with
  | nil =>
    simp only [readBodyFrom, flushDecompressor, gzipRunFrom]
    rcases (gzipFlush I g) with ⟨g', e | out⟩ <;> simp [toProtocol, Outcome.result]
  | cons p ps ih =>
    simp only [readBodyFrom, decompressData, gzipRunFrom]
    rcases (gzipDecompress I g p) with ⟨g', e | out⟩
    · simp [toProtocol, Outcome.result]
    · have h1 : toProtocol (Except.ok out : Except PyExc Bytes) = Except.ok out := rfl
      rw [h1, toProtocol_map, ← ih g']
      dsimp only
      rcases readBodyFrom I (.gzip g') ps with ⟨outs, err, fin⟩
      cases err <;> simp [Outcome.result, Except.map]

theorem stream_deflate (d : DeflSt I) (ps : List Bytes) :
    (readBodyFrom I (.deflate d) ps).result = toProtocol (deflRunFrom I d ps) := by
  induction ps generalizing d with
  | nil =>
    simp only [readBodyFrom, flushDecompressor, deflRunFrom]
    rcases (deflFlush I d) with ⟨g', e | out⟩ <;> simp [toProtocol, Outcome.result]
  | cons p ps ih =>
    simp only [readBodyFrom, decompressData, deflRunFrom]
    rcases (deflDecompress I d p) with ⟨d', e | out⟩
    · simp [toProtocol, Outcome.result]
    · have h1 : toProtocol (Except.ok out : Except PyExc Bytes) = Except.ok out := rfl
      rw [h1, toProtocol_map, ← ih d']
      dsimp only
      rcases readBodyFrom I (.deflate d') ps with ⟨outs, err, fin⟩
      cases err <;> simp [Outcome.result, Except.map]

theorem stream_identity (ps : List Bytes) :
    (readBodyFrom I .none ps).result = .ok ps.flatten := by
  induction ps with
  | nil => simp [readBodyFrom, flushDecompressor, Outcome.result]
  | cons p ps ih =>
    simp only [readBodyFrom, decompressData]
    rcases h : readBodyFrom I .none ps with ⟨outs, err, fin⟩
    rw [h] at ih
    cases err <;> simp_all [Outcome.result]

/-- one-shot decoding by a wrapper used on its own (zlib.error not converted) -/
def wrapperSpec (I : Inflater) (c : Coding) (body : Bytes) : Except PyExc Bytes :=
  match selectedMode c body with
  | none => .ok body
  | some m => finish (runAll I m [body])

theorem spec_eq (c : Coding) (body : Bytes) : spec I c body = toProtocol (wrapperSpec I c body) := by
  unfold spec wrapperSpec
  cases selectedMode c body <;> simp [toProtocol]

theorem gzip_wrapper_spec (hI : ChunkInvariant I) (ps : List Bytes) (hne : ∀ p ∈ ps, p ≠ []) :
    gzipRunFrom I (GzipSt.new I) ps = wrapperSpec I .gzip ps.flatten := by
  cases ps with
  | nil => simp [gzipRunFrom, gzipFlush, GzipSt.new, wrapperSpec, selectedMode]
  | cons p ps =>
    rw [gzip_wrapper_run I p ps (hne p (by simp))]
    have hinv : runAll I .gzip (p :: ps) = runAll I .gzip [(p :: ps).flatten] := by
      apply hI; simp
    unfold wrapperSpec selectedMode
    by_cases h : (p :: ps).flatten.take 1 == [0x1f]
    · simp only [h, if_true, hinv]
    · simp only [h]; rfl

theorem deflate_wrapper_spec (hI : ChunkInvariant I) (ps : List Bytes) :
    deflRunFrom I (DeflSt.new I) ps = wrapperSpec I .deflate ps.flatten := by
  have := defl_undecided I hI [] ps (by simp)
  simp only [List.nil_append] at this
  unfold DeflSt.new
  rw [this]
  unfold wrapperSpec selectedMode
  generalize ps.flatten = body
  by_cases h1 : body.isEmpty
  · have : body = [] := by simpa using h1
    subst this
    simp
  · by_cases h2 : body.length < 2 <;> simp [h1, h2]

/-! ## a concrete inflater satisfying the hypothesis (non-vacuity)

A buffering toy inflater: `gzip` streams start `1f 8b`, `zlib` streams with a
two-byte header accepted by `isZlibHeader`, `raw` streams have no header; then
`01 x` is the literal byte `x`, `00` ends the stream, anything else is corrupt.
It keeps all input and produces its output at `flush`. -/

def toyBody : Bytes → Except PyExc (Bytes × Bool)
  | [] => .ok ([], false)
  | c :: rest =>
    if c = 0 then .ok ([], true)
    else if c = 1 then
      match rest with
      | [] => .ok ([], false)
      | x :: rest' => (toyBody rest').map (fun r => (x :: r.1, r.2))
    else .error .ZlibError

def toyDecode : Mode → Bytes → Except PyExc (Bytes × Bool)
  | .raw, acc => toyBody acc
  | .gzip, acc =>
    match acc with
    | [] => .ok ([], false)
    | [a] => if a = 0x1f then .ok ([], false) else .error .ZlibError
    | a :: b :: rest => if a = 0x1f ∧ b = 0x8b then toyBody rest else .error .ZlibError
  | .zlib, acc =>
    match acc with
    | [] => .ok ([], false)
    | [_] => .ok ([], false)
    | a :: b :: rest => if isZlibHeader [a, b] then toyBody rest else .error .ZlibError

def toy : Inflater where
  σ := Mode × Bytes
  init m := (m, [])
  feed s d := ((s.1, s.2 ++ d), .ok [])
  flush s := (s, match toyDecode s.1 s.2 with
                 | .ok r => .ok r.1
                 | .error e => .error e)
  eof s := match toyDecode s.1 s.2 with
           | .ok r => r.2
           | .error _ => false

theorem toy_feedAll (s : toy.σ) (ps : List Bytes) :
    feedAll toy s ps = ((s.1, s.2 ++ ps.flatten), .ok []) := by
  induction ps generalizing s with
  | nil => obtain ⟨m, acc⟩ := s; simp only [feedAll, List.flatten_nil, List.append_nil]; rfl
  | cons p ps ih =>
    obtain ⟨m, acc⟩ := s
    have hf : toy.feed (m, acc) p = ((m, acc ++ p), .ok []) := rfl
    have h2 := ih (m, acc ++ p)
    simp only [feedAll, hf, h2, List.flatten_cons, List.append_assoc, List.nil_append]
    rfl

theorem toy_chunkInvariant : ChunkInvariant toy := by
  intro m ps qs h
  simp only [runAll, runFrom, toy_feedAll, h]

/-! ## Property theorems

`readBody I c pieces` is what the HTTP stream writes to the file (or the
exception it raises) when a body with content coding `c` arrives in `pieces`;
`spec I c body` is one-shot decoding of the whole body by zlib (the abstract
inflater `I`) with the same format selection.  Every theorem holds for EVERY
inflater satisfying `ChunkInvariant` and every list of non-empty pieces. -/

/-- **C19, first sentence.**  Streaming decoding in any sequence of non-empty
pieces yields, after the final flush, exactly what decoding the whole body at
once yields (content or error class) — for gzip, zlib-wrapped deflate, raw
deflate and identity bodies alike. -/
theorem stream_equals_one_shot (hI : ChunkInvariant I) (c : Coding) (ps : List Bytes)
    (hne : ∀ p ∈ ps, p ≠ []) :
    readBody I c ps = spec I c ps.flatten := by
  rw [spec_eq]
  cases c with
  | gzip =>
    unfold readBody setup
    rw [stream_gzip, gzip_wrapper_spec I hI ps hne]
  | deflate =>
    unfold readBody setup
    rw [stream_deflate, deflate_wrapper_spec I hI ps]
  | identity =>
    unfold readBody setup
    rw [stream_identity]
    simp [wrapperSpec, selectedMode, toProtocol]

/-- Two ways of cutting one body into non-empty pieces give the same result. -/
theorem stream_split_invariant (hI : ChunkInvariant I) (c : Coding) (ps qs : List Bytes)
    (hps : ∀ p ∈ ps, p ≠ []) (hqs : ∀ q ∈ qs, q ≠ []) (h : ps.flatten = qs.flatten) :
    readBody I c ps = readBody I c qs := by
  rw [stream_equals_one_shot I hI c ps hps, stream_equals_one_shot I hI c qs hqs, h]

/-- `GzipDecompressor` used on its own: the magic is sniffed on the first
piece, yet every split into non-empty pieces gives the same result. -/
theorem gzip_wrapper_split_invariant (hI : ChunkInvariant I) (ps qs : List Bytes)
    (hps : ∀ p ∈ ps, p ≠ []) (hqs : ∀ q ∈ qs, q ≠ []) (h : ps.flatten = qs.flatten) :
    gzipRunFrom I (GzipSt.new I) ps = gzipRunFrom I (GzipSt.new I) qs := by
  rw [gzip_wrapper_spec I hI ps hps, gzip_wrapper_spec I hI qs hqs, h]

/-- `DeflateDecompressor` used on its own (after the repair): the zlib / raw
deflate decision no longer depends on the first piece — every split gives the
same result, empty pieces and one-byte first pieces included. -/
theorem deflate_wrapper_split_invariant (hI : ChunkInvariant I) (ps qs : List Bytes)
    (h : ps.flatten = qs.flatten) :
    deflRunFrom I (DeflSt.new I) ps = deflRunFrom I (DeflSt.new I) qs := by
  rw [deflate_wrapper_spec I hI ps, deflate_wrapper_spec I hI qs, h]

/-- Identity bodies pass through unchanged under every split (no hypothesis). -/
theorem identity_split_invariant (ps : List Bytes) : readBody I .identity ps = .ok ps.flatten := by
  unfold readBody setup
  exact stream_identity I ps

/-- **C19, second sentence (truncated).**  If the inflater selected for the
body, given the whole body, has not reached the end of the compressed stream
after the final flush (`eof = false`: data cut short), the stream raises
ProtocolError — under every split. -/
theorem truncated_is_protocol_error (hI : ChunkInvariant I) (c : Coding) (ps : List Bytes)
    (hne : ∀ p ∈ ps, p ≠ []) (m : Mode) (out : Bytes)
    (hm : selectedMode c ps.flatten = some m)
    (htr : runAll I m [ps.flatten] = .ok (out, false)) :
    readBody I c ps = .error .ProtocolError := by
  rw [stream_equals_one_shot I hI c ps hne]
  unfold spec
  rw [hm]
  simp only [htr, finish, toProtocol]
  rfl

/-- **C19, second sentence (corrupt).**  If the selected inflater rejects the
whole body (`zlib.error`), the stream raises ProtocolError — under every split. -/
theorem corrupt_is_protocol_error (hI : ChunkInvariant I) (c : Coding) (ps : List Bytes)
    (hne : ∀ p ∈ ps, p ≠ []) (m : Mode)
    (hm : selectedMode c ps.flatten = some m)
    (hc : runAll I m [ps.flatten] = .error .ZlibError) :
    readBody I c ps = .error .ProtocolError := by
  rw [stream_equals_one_shot I hI c ps hne]
  unfold spec
  rw [hm]
  simp only [hc, finish, toProtocol]
  rfl

/-- **Never partial content.**  Whatever the stream returns as content is either
the unchanged body (no inflater selected) or the *complete* output of the
selected inflater over the whole body, end of stream reached. -/
theorem content_only_if_complete (hI : ChunkInvariant I) (c : Coding) (ps : List Bytes)
    (hne : ∀ p ∈ ps, p ≠ []) (content : Bytes) (h : readBody I c ps = .ok content) :
    (selectedMode c ps.flatten = none ∧ content = ps.flatten) ∨
    ∃ m, selectedMode c ps.flatten = some m ∧ runAll I m [ps.flatten] = .ok (content, true) := by
  rw [stream_equals_one_shot I hI c ps hne] at h
  unfold spec at h
  cases hm : selectedMode c ps.flatten with
  | none =>
    rw [hm] at h
    dsimp only at h
    left
    simp only [Except.ok.injEq] at h
    exact ⟨rfl, h.symm⟩
  | some m =>
    rw [hm] at h
    dsimp only at h
    right
    refine ⟨m, rfl, ?_⟩
    rcases hr : runAll I m [ps.flatten] with e | ⟨o, b⟩
    · rw [hr] at h; simp [finish, toProtocol] at h
    · rw [hr] at h
      cases b
      · simp [finish, toProtocol] at h
      · simp only [finish, toProtocol, Except.ok.injEq] at h
        rw [h]

/-- **The verdict does not depend on whether the caller keeps the body.**
With `file=None` (`observed false`) the result is an exception exactly when it
is one with a file, and it is the same exception: the final flush — where a
truncated stream is detected — runs unconditionally. -/
theorem discarded_body_same_verdict (c : Coding) (ps : List Bytes) (e : PyExc) :
    Outcome.observed I (readBodyFrom I (setup I c) ps) false = .error e ↔ readBody I c ps = .error e := by
  unfold Outcome.observed readBody
  cases (readBodyFrom I (setup I c) ps).result <;> simp [Except.map]

/-- truncated / corrupt data is a ProtocolError also when the body is discarded -/
theorem truncated_is_protocol_error_without_file (hI : ChunkInvariant I) (c : Coding) (ps : List Bytes)
    (hne : ∀ p ∈ ps, p ≠ []) (m : Mode) (out : Bytes)
    (hm : selectedMode c ps.flatten = some m)
    (htr : runAll I m [ps.flatten] = .ok (out, false)) :
    Outcome.observed I (readBodyFrom I (setup I c) ps) false = .error .ProtocolError :=
  (discarded_body_same_verdict I c ps _).2 (truncated_is_protocol_error I hI c ps hne m out hm htr)

example : Outcome.observed toy (readBodyFrom toy (setup toy .gzip) [[0x1f, 0x8b], [1, 65]]) false = .error .ProtocolError := by decide
example : Outcome.observed toy (readBodyFrom toy (setup toy .gzip) [[0x1f, 0x8b], [1, 65, 0]]) false = .ok [] := by decide

/-- **Decoder state is per response.**  When one Stream object reads a sequence
of responses, every body is decoded exactly as if it were the only response
ever read through a fresh Stream — whatever decoder state `d` the object starts
with and whatever came before (a finished gzip stream, a failed one, …). -/
theorem sequence_is_per_response (d : Dec I) (rs : List (Option Str × List Bytes)) :
    readSeqFrom I d rs = rs.map (fun r => readBody I (codingOf (r.1.getD [])) r.2) := by
  induction rs generalizing d with
  | nil => rfl
  | cons r rs ih =>
    obtain ⟨enc, ps⟩ := r
    simp only [readSeqFrom, List.map_cons, ih]
    rfl

/-- the k-th body after any prefix of earlier responses -/
theorem kth_body_independent_of_prefix (d : Dec I) (pre post : List (Option Str × List Bytes))
    (enc : Option Str) (ps : List Bytes) :
    (readSeqFrom I d (pre ++ (enc, ps) :: post))[pre.length]? =
      some (readBody I (codingOf (enc.getD [])) ps) := by
  rw [sequence_is_per_response]
  simp

/-- an identity body after a gzip body on the same Stream (the input of seeded change C19-3) -/
example : readSeqFrom toy .none [(some (lit "gzip"), [[0x1f, 0x8b, 1, 65, 0]]), (none, [[104, 105]])]
    = [.ok [65], .ok [104, 105]] := by decide

/-- `--ignore-length` never changes how a chunked body is read: the chunk-size
lines and CRLFs are consumed by the chunk reader, not handed to the decoder. -/
theorem ignore_length_keeps_chunked (ignoreLength lengthParses : Bool) :
    effectiveFraming ignoreLength lengthParses .chunked = .chunked := rfl

/-- the only framing `ignore_length` / an unparseable length can change is `length`, and only to `close` -/
theorem effective_framing_cases (il lp : Bool) (f : Framing) :
    effectiveFraming il lp f = f ∨ (f = .length ∧ (il = true ∨ lp = false) ∧ effectiveFraming il lp f = .close) := by
  cases f <;> cases il <;> cases lp <;> simp [effectiveFraming]

/-- Content-Length framing hands the decoder exactly the first `n` bytes of what
the connection delivered, in non-empty pieces — for EVERY way the network cut
the stream into reads (an over-sending server's surplus never reaches the decoder). -/
theorem length_pieces_take (n : Nat) (reads : List Bytes) (hne : ∀ r ∈ reads, r ≠ []) :
    (lengthPieces n reads).flatten = reads.flatten.take n ∧ ∀ p ∈ lengthPieces n reads, p ≠ [] := by
  induction reads generalizing n with
  | nil => simp [lengthPieces]
  | cons r rs ih =>
    have hr : r ≠ [] := hne r (by simp)
    have hrs : ∀ x ∈ rs, x ≠ [] := fun x hx => hne x (by simp [hx])
    unfold lengthPieces
    by_cases h0 : n = 0
    · subst h0; simp
    · simp only [h0, hr, or_self, if_false]
      by_cases hle : r.length ≤ n
      · simp only [hle, if_true]
        obtain ⟨ih1, ih2⟩ := ih (n - r.length) hrs
        refine ⟨?_, ?_⟩
        · simp only [List.flatten_cons, ih1]
          rw [List.take_append]
          simp [List.take_of_length_le hle]
        · intro p hp
          simp only [List.mem_cons] at hp
          rcases hp with rfl | hp
          · exact hr
          · exact ih2 p hp
      · simp only [hle, if_false]
        have hlt : n < r.length := by omega
        refine ⟨?_, ?_⟩
        · simp only [List.flatten_cons, List.flatten_nil, List.append_nil]
          rw [List.take_append]
          have : n - r.length = 0 := by omega
          simp [this]
        · intro p hp
          simp only [List.mem_singleton] at hp
          subst hp
          intro hnil
          have hlen : (r.take n).length = n := by
            rw [List.length_take]; omega
          rw [hnil] at hlen
          exact h0 hlen.symm

/-- **Length-framed body = one-shot decoding of exactly the first `n` bytes**, for
every segmentation of the connection's byte stream into reads and whatever the
server sends beyond the declared length. -/
theorem length_framed_body_is_take_n (hI : ChunkInvariant I) (c : Coding) (n : Nat)
    (reads : List Bytes) (hne : ∀ r ∈ reads, r ≠ []) :
    readBody I c (lengthPieces n reads) = spec I c (reads.flatten.take n) := by
  obtain ⟨h1, h2⟩ := length_pieces_take n reads hne
  rw [stream_equals_one_shot I hI c _ h2, h1]

/-- an over-sending server, body delivered in two reads, surplus in the second (seeded change C19-11) -/
example : lengthPieces 5 [[1, 2, 3], [4, 5, 6, 7]] = [[1, 2, 3], [4, 5]] := by decide
example : readBody toy .identity (lengthPieces 5 [[1, 2, 3], [4, 5, 6, 7]]) = .ok [1, 2, 3, 4, 5] := by decide

/-- **The decoding decision depends on Content-Encoding alone**: Content-Type
(`application/gzip`, …), Content-Disposition and the URL (`….gz`) are irrelevant. -/
theorem decoding_depends_on_content_encoding_only (d₁ d₂ : Dec I) (r₁ r₂ : ResponseInfo)
    (h : r₁.contentEncoding = r₂.contentEncoding) :
    setupFromResponse I d₁ r₁ = setupFromResponse I d₂ r₂ := by
  simp [setupFromResponse, setupDecompressor, h]

/-- **Frame property of decoder objects.**  With any number of decoder objects
alive at once and any interleaving of calls (objects abandoned after 0, 1, 2
bytes, mid-stream, after an error, without flush, …), the results object `i`
produces are exactly those it produces on its own over the calls *it*
received: what other decoder objects were fed or left behind cannot matter. -/
theorem frame_property (step : Dec I → HOp → Dec I × Except PyExc Bytes)
    (pool : List (Dec I)) (sched : List (Nat × HOp)) (i : Nat) (d : Dec I) (hd : pool[i]? = some d) :
    ((runSchedule I step pool sched).filter (fun x => x.1 == i)).map (·.2) =
      (runAlone I step d ((sched.filter (fun x => x.1 == i)).map (·.2))).2 := by
  induction sched generalizing pool d with
  | nil => simp [runSchedule, runAlone]
  | cons e rest ih =>
    obtain ⟨j, op⟩ := e
    unfold runSchedule
    cases hj : pool[j]? with
    | none =>
      have hne : j ≠ i := by
        intro h; subst h; rw [hd] at hj; cases hj
      have hb : (j == i) = false := by simpa using hne
      simp only [List.filter_cons, hb]
      exact ih pool d hd
    | some dj =>
      by_cases hji : j = i
      · subst hji
        have : dj = d := by rw [hd] at hj; cases hj; rfl
        subst this
        have hlt : j < pool.length := by
          rcases Nat.lt_or_ge j pool.length with h | h
          · exact h
          · rw [List.getElem?_eq_none h] at hd; cases hd
        have hset : (pool.set j (step dj op).1)[j]? = some (step dj op).1 := by
          simp [hlt]
        simp only [List.filter_cons, beq_self_eq_true, if_true, List.map_cons, runAlone]
        rw [ih _ _ hset]
      · have hb : (j == i) = false := by simpa using hji
        have hset : (pool.set j (step dj op).1)[i]? = some d := by
          rw [List.getElem?_set_ne hji]; exact hd
        simp only [List.filter_cons, hb]
        exact ih _ _ hset

/-- two deflate decoders alive at once; the first is abandoned holding one byte (seeded change C19-15) -/
example : runSchedule toy (Dec.step toy) [setup toy .deflate, setup toy .deflate]
    [(0, .feed [0x78]), (1, .feed [0x78, 0x9c, 1, 65, 0]), (1, .flush)]
    = [(0, .ok []), (1, .ok []), (1, .ok [65])] := by decide

/-- **The web layer never requests raw mode**, whatever timeout is configured. -/
theorem web_never_raw (keepFile : Bool) (timeout : Option Nat) :
    (webDownloadArgs keepFile timeout).raw = false := rfl

/-- Fetching through `WebSession.download` with a file decodes exactly as the
Stream does, for every configured timeout: all stream-level theorems above
(split invariance, truncated / corrupt ⇒ ProtocolError) apply to the crawler's fetch. -/
theorem web_download_decodes (timeout : Option Nat) (enc : Option Str) (ps : List Bytes) :
    webDownload I true timeout enc ps = readBody I (codingOf (enc.getD [])) ps := by
  simp [webDownload, sessionDownload, sessionDownloadOutcome, webDownloadArgs, Outcome.observed,
    readBody, setupDecompressor]

/-- … and with the body discarded the exception is the same. -/
theorem web_download_verdict (keepFile : Bool) (timeout : Option Nat) (enc : Option Str)
    (ps : List Bytes) (e : PyExc) :
    webDownload I keepFile timeout enc ps = .error e ↔
      readBody I (codingOf (enc.getD [])) ps = .error e := by
  cases keepFile
  · exact discarded_body_same_verdict I (codingOf (enc.getD [])) ps e
  · rw [web_download_decodes]

/-- a truncated gzip body fetched with a session timeout of 5 s (the input of seeded change C19-7) -/
example : webDownload toy true (some 5000) (some (lit "gzip")) [[0x1f, 0x8b], [1, 65]] = .error .ProtocolError := by decide
example : webDownload toy true (some 5000) (some (lit "gzip")) [[0x1f, 0x8b], [1, 65, 0]] = .ok [65] := by decide
/-- what raw mode would do instead (not reachable from the web layer) -/
example : sessionDownload toy ⟨true, true, true, none⟩ (some (lit "gzip")) [[0x1f, 0x8b], [1, 65]] = .ok [0x1f, 0x8b, 1, 65] := by decide

/-! ### non-vacuity: the hypothesis is satisfiable and the conclusions are not trivial -/

/-- gzip stream "AB" in three pieces, the first one a single byte -/
example : readBody toy .gzip [[0x1f], [0x8b, 1], [65, 1, 66, 0]] = .ok [65, 66] := by decide
example : readBody toy .gzip [[0x1f, 0x8b, 1, 65, 1, 66, 0]] = .ok [65, 66] := by decide
/-- raw deflate, first piece one byte (the input of defect #3) -/
example : readBody toy .deflate [[1], [65], [0]] = .ok [65] := by decide
/-- zlib-wrapped deflate, header split over two pieces -/
example : readBody toy .deflate [[0x78], [0x9c, 1, 65, 0]] = .ok [65] := by decide
/-- no magic: passthrough -/
example : readBody toy .gzip [[60], [0x1f, 0x8b]] = .ok [60, 0x1f, 0x8b] := by decide
/-- truncated gzip (defect #21): hypotheses of `truncated_is_protocol_error` hold, conclusion by the theorem -/
example : readBody toy .gzip [[0x1f, 0x8b], [1, 65]] = .error .ProtocolError :=
  truncated_is_protocol_error toy toy_chunkInvariant .gzip _ (by decide) .gzip [65] (by decide) (by decide)
example : readBody toy .deflate [[1]] = .error .ProtocolError := by decide
/-- corrupt -/
example : readBody toy .gzip [[0x1f], [0x8b, 7]] = .error .ProtocolError :=
  corrupt_is_protocol_error toy toy_chunkInvariant .gzip _ (by decide) .gzip (by decide) (by decide)
example : isZlibHeader [0x78, 0x9c] = true ∧ isZlibHeader [0x78, 0xbb] = false ∧ isZlibHeader [0x4b, 0xcb] = false := by decide

/-- The non-emptiness of the pieces cannot be dropped for gzip: an empty first
piece is taken for "no magic" (`b''[:1] != b'\x1f'`).  The stream never hands
the decoder an empty piece (an empty read ends each body loop). -/
theorem gzip_empty_first_piece_counterexample :
    readBody toy .gzip [[], [0x1f, 0x8b, 0]] ≠ readBody toy .gzip [[0x1f, 0x8b, 0]] := by decide

end Wpull.Decomp
