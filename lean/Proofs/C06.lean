/-
C06 — A failed or interrupted WARC append never damages earlier records.
Property theorems over the model `Wpull.WarcWrite` (helper lemmas first; the
property statements are in the section "Property theorems").
-/
import Wpull.WarcWrite
namespace Wpull.WarcWrite
open Wpull

/-! ## helper lemmas -/

def Out.isFail : Out → Bool
  | .fail _ => true
  | _ => false

/-- every raw write of the append went through and the record source delivered everything -/
def Complete (s : Sched) : Prop := (∀ p ∈ s.awrites, p.2 = Out.ok) ∧ s.srcFail = false

/-- the bytes the buffering / gzip layer emits for the record -/
def full (s : Sched) : Bytes := (s.awrites.map Prod.fst).flatten

theorem writes_prefix (a : Bytes) (ws : List (Bytes × Out)) : ∃ x, (writes a ws).1 = a ++ x := by
  induction ws generalizing a with
  | nil => exact ⟨[], by simp [writes]⟩
  | cons p r ih =>
    obtain ⟨d, o⟩ := p
    cases o with
    | ok => obtain ⟨x, hx⟩ := ih (a ++ d); exact ⟨d ++ x, by simp [writes, hx]⟩
    | fail k => obtain ⟨x, hx⟩ := ih (a ++ d.take k); exact ⟨d.take k ++ x, by simp [writes, hx]⟩
    | die k => exact ⟨d.take k, by simp [writes]⟩

theorem writes_clean (a : Bytes) (ws : List (Bytes × Out))
    (h1 : (writes a ws).2.1 = false) (h2 : (writes a ws).2.2 = false) :
    (∀ p ∈ ws, p.2 = Out.ok) ∧ (writes a ws).1 = a ++ (ws.map Prod.fst).flatten := by
  induction ws generalizing a with
  | nil => simp [writes]
  | cons p r ih =>
    obtain ⟨d, o⟩ := p
    cases o with
    | ok =>
      simp only [writes] at h1 h2 ⊢
      obtain ⟨h, e⟩ := ih (a ++ d) h1 h2
      exact ⟨by simpa using h, by simp [e]⟩
    | fail k => simp [writes] at h1
    | die k => simp [writes] at h2

theorem closeStep_fs (fs : FS) (tr : Trace) (p : Prim) (o : Out) (b : Bool) :
    (closeStep fs tr p o b).fs = fs := by
  unfold closeStep; split <;> rfl

theorem closeStep_none {fs : FS} {tr : Trace} {p : Prim} {o : Out} {b : Bool}
    (h : (closeStep fs tr p o b).st = none) : o = .ok ∧ b = false := by
  unfold closeStep at h; split at h <;> simp_all

theorem closeStep_died {fs : FS} {tr : Trace} {p : Prim} {o : Out} {b : Bool}
    (h : (closeStep fs tr p o b).st = some .died) : ∃ k, o = .die k := by
  unfold closeStep at h; split at h
  · split at h <;> simp_all
  · simp_all
  · exact ⟨_, rfl⟩

/-! ### journal phase -/

theorem journalCreate_archive (fs : FS) (n : Nat) (s : Sched) :
    (journalCreate fs n s).fs.archive = fs.archive := by
  unfold journalCreate
  split
  · rfl
  · rfl
  · split
    · simp [closeStep_fs]
    · rfl
    · split <;> simp [closeStep_fs]

theorem journalCreate_none {fs : FS} {n : Nat} {s : Sched}
    (h : (journalCreate fs n s).st = none) :
    (journalCreate fs n s).fs.journal = some (journalText n) := by
  unfold journalCreate at h ⊢
  cases h1 : s.jopen with
  | fail k => simp [h1] at h
  | die k => simp [h1] at h
  | ok =>
    simp only [h1] at h ⊢
    cases h2 : s.jwrite with
    | ok => simp [closeStep_fs]
    | die k => simp [h2] at h
    | fail k =>
      simp only [h2] at h ⊢
      cases h3 : s.jretry with
      | ok => simp only [h3] at h; have := closeStep_none h; simp at this
      | fail k2 => simp only [h3] at h; have := closeStep_none h; simp at this
      | die k2 => simp [h3] at h

theorem journalCreate_jopen_notok {fs : FS} {n : Nat} {s : Sched} (h : s.jopen ≠ .ok) :
    (journalCreate fs n s).fs = fs := by
  unfold journalCreate
  split <;> simp_all

theorem journalPhase_archive (fs : FS) (n : Nat) (s : Sched) :
    (journalPhase fs n s).fs.archive = fs.archive := by
  have h := journalCreate_archive fs n s
  unfold journalPhase
  simp only
  split
  · split
    · exact h
    · split <;> simp [h]
  · exact h

theorem journalPhase_none {fs : FS} {n : Nat} {s : Sched}
    (h : (journalPhase fs n s).st = none) :
    (journalPhase fs n s).fs.journal = some (journalText n) := by
  unfold journalPhase at h ⊢
  simp only at h ⊢
  split
  · rename_i hr
    simp only [hr] at h
    split at h
    · simp_all
    · split at h <;> simp_all
  · rename_i hr
    split at h
    · simp_all
    · exact journalCreate_none h

/-- the journal creation failed with OSError: the journal is gone again unless its removal failed -/
theorem journalPhase_raised {fs : FS} {n : Nat} {s : Sched} (hj : fs.journal = none)
    (h : (journalPhase fs n s).st = some .raised) (hu : s.junlink.isFail = false) :
    (journalPhase fs n s).fs.journal = none := by
  unfold journalPhase at h ⊢
  simp only at h ⊢
  split
  · split
    · assumption
    · split
      · rfl
      · simp_all [Out.isFail]
      · simp_all
  · rename_i hr
    split at h
    · simp_all
    · simp_all

/-! ### append phase -/

theorem appendPhase_journal (fs : FS) (s : Sched) : (appendPhase fs s).fs.journal = fs.journal := by
  unfold appendPhase
  split
  · rfl
  · rfl
  · simp only; split
    · rfl
    · simp [closeStep_fs]

theorem appendPhase_prefix (fs : FS) (s : Sched) : ∃ x, (appendPhase fs s).fs.bytes = fs.bytes ++ x := by
  unfold appendPhase
  split
  · exact ⟨[], by simp⟩
  · exact ⟨[], by simp⟩
  · obtain ⟨x, hx⟩ := writes_prefix fs.bytes s.awrites
    refine ⟨x, ?_⟩
    simp only; split
    · simpa [FS.bytes] using hx
    · simpa [closeStep_fs, FS.bytes] using hx

theorem appendPhase_none {fs : FS} {s : Sched} (h : (appendPhase fs s).st = none) :
    Complete s ∧ (appendPhase fs s).fs.bytes = fs.bytes ++ full s := by
  unfold appendPhase at h ⊢
  split
  · simp_all
  · simp_all
  · rename_i ho
    simp only [ho] at h
    simp only
    split
    · rename_i hd; simp [hd] at h
    · rename_i hd
      simp only [hd] at h
      have hc := closeStep_none h
      simp only [Bool.or_eq_false_iff] at hc
      have hw := writes_clean fs.bytes s.awrites hc.2.1 (by simpa using hd)
      have hw2 := hw.2
      exact ⟨⟨hw.1, hc.2.2⟩, by simpa [closeStep_fs, FS.bytes, full] using hw2⟩

/-! ### roll-back and removal -/

theorem truncateTo_prefix (a x : Bytes) : truncateTo (a ++ x) a.length = a := by
  simp [truncateTo]

theorem rollbackPhase_journal (fs : FS) (n : Nat) (s : Sched) :
    (rollbackPhase fs n s).fs.journal = fs.journal := by
  unfold rollbackPhase
  split
  · rfl
  · rfl
  · split
    · rfl
    · split <;> simp [closeStep_fs]

/-- whatever happens in the roll-back, the old bytes stay in front -/
theorem rollbackPhase_prefix (fs : FS) (a₀ x : Bytes) (s : Sched) (h : fs.bytes = a₀ ++ x) :
    ∃ y, (rollbackPhase fs a₀.length s).fs.bytes = a₀ ++ y := by
  unfold rollbackPhase
  split
  · exact ⟨x, h⟩
  · exact ⟨x, h⟩
  · split
    · exact ⟨x, h⟩
    · rename_i a ha
      have hb : a = a₀ ++ x := by simpa [FS.bytes, ha] using h
      split
      · exact ⟨x, h⟩
      · exact ⟨x, by simpa [closeStep_fs] using h⟩
      · exact ⟨[], by simp [closeStep_fs, FS.bytes, hb, truncateTo_prefix]⟩

/-- the roll-back did not die, and neither its open nor its truncate failed: old bytes exactly -/
theorem rollbackPhase_restores (fs : FS) (a₀ x : Bytes) (s : Sched) (h : fs.bytes = a₀ ++ x)
    (ho : s.ropen.isFail = false) (ht : s.rtrunc.isFail = false)
    (hd : (rollbackPhase fs a₀.length s).st ≠ some .died) :
    (rollbackPhase fs a₀.length s).fs.bytes = a₀ := by
  unfold rollbackPhase at hd ⊢
  split
  · simp_all [Out.isFail]
  · simp_all
  · split
    · rename_i ha
      have : a₀ ++ x = [] := by simpa [FS.bytes, ha] using h.symm
      simp_all [FS.bytes]
    · rename_i a ha
      have hb : a = a₀ ++ x := by simpa [FS.bytes, ha] using h
      split
      · simp_all
      · simp_all [Out.isFail]
      · simp [closeStep_fs, FS.bytes, hb, truncateTo_prefix]

theorem unlinkStep_bytes (fs : FS) (tr : Trace) (s : Sched) (st : Status) :
    (unlinkStep fs tr s st).fs.bytes = fs.bytes := by
  unfold unlinkStep
  split
  · rfl
  · split <;> rfl

theorem unlinkStep_journal (fs : FS) (tr : Trace) (s : Sched) (st : Status)
    (h : (unlinkStep fs tr s st).st ≠ some .died) (hu : s.unlink.isFail = false) :
    (unlinkStep fs tr s st).fs.journal = none := by
  unfold unlinkStep at h ⊢
  split
  · assumption
  · split
    · rfl
    · simp_all [Out.isFail]
    · simp_all

theorem unlinkStep_journal_cases (fs : FS) (tr : Trace) (s : Sched) (st : Status) :
    (unlinkStep fs tr s st).fs.journal = none ∨ (unlinkStep fs tr s st).fs.journal = fs.journal := by
  unfold unlinkStep
  split
  · left; assumption
  · split
    · left; rfl
    · right; rfl
    · right; rfl

theorem unlinkStep_done {fs : FS} {tr : Trace} {s : Sched} {st : Status}
    (h : (unlinkStep fs tr s st).st = some .done) :
    st = .done ∧ (unlinkStep fs tr s st).fs.journal = none := by
  unfold unlinkStep at h ⊢
  split
  · simp_all
  · split <;> simp_all

theorem closeStep_not_done (fs : FS) (tr : Trace) (p : Prim) (o : Out) (b : Bool) :
    (closeStep fs tr p o b).st ≠ some .done := by
  unfold closeStep; split
  · split <;> simp
  · simp
  · simp

theorem appendPhase_not_done (fs : FS) (s : Sched) : (appendPhase fs s).st ≠ some .done := by
  unfold appendPhase
  split
  · simp
  · simp
  · simp only; split
    · simp
    · exact closeStep_not_done _ _ _ _ _

/-- the state a recovery procedure can work with: the archive is the old one, or the old one
plus the complete record, or the journal names the old length and the old bytes are in front -/
def Recoverable (a₀ : Bytes) (s : Sched) (fs : FS) : Prop :=
  fs.bytes = a₀ ∨ (Complete s ∧ fs.bytes = a₀ ++ full s) ∨
  (fs.journal = some (journalText a₀.length) ∧ fs.bytes.take a₀.length = a₀)

/-- everything after the journal exists (`jfs`: the journal holds the text, the archive its old bytes) -/
theorem appendAndFinish_spec (jfs : FS) (a₀ : Bytes) (s : Sched)
    (hb : jfs.bytes = a₀) (hj : jfs.journal = some (journalText a₀.length)) :
    let f := appendAndFinish jfs a₀.length s
    (∃ y, f.fs.bytes = a₀ ++ y) ∧
    (f.st = some .done → Complete s ∧ f.fs.bytes = a₀ ++ full s ∧ f.fs.journal = none) ∧
    (s.ropen.isFail = false → s.rtrunc.isFail = false → Recoverable a₀ s f.fs) ∧
    (f.st = some .raised → s.ropen.isFail = false → s.rtrunc.isFail = false → s.unlink.isFail = false →
      f.fs.bytes = a₀ ∧ f.fs.journal = none) ∧
    f.st ≠ none := by
  intro f
  obtain ⟨x, hx⟩ := appendPhase_prefix jfs s
  rw [hb] at hx
  have haj := appendPhase_journal jfs s
  have hnd := appendPhase_not_done jfs s
  show _ ∧ _ ∧ _ ∧ _ ∧ _
  cases hst : (appendPhase jfs s).st with
  | none =>
    obtain ⟨hc, hfull⟩ := appendPhase_none hst
    rw [hb] at hfull
    have hf : f = unlinkStep (appendPhase jfs s).fs (appendPhase jfs s).tr s .done := by
      simp only [f, appendAndFinish, hst]
    rw [hf]
    refine ⟨⟨full s, by rw [unlinkStep_bytes]; exact hfull⟩, ?_, ?_, ?_, ?_⟩
    · intro hd
      exact ⟨hc, by rw [unlinkStep_bytes]; exact hfull, (unlinkStep_done hd).2⟩
    · intro _ _
      exact Or.inr (Or.inl ⟨hc, by rw [unlinkStep_bytes]; exact hfull⟩)
    · intro hr _ _ hu
      exfalso
      unfold unlinkStep at hr
      rw [haj, hj] at hr
      simp only at hr
      split at hr <;> simp_all [Out.isFail]
    · unfold unlinkStep; split
      · simp
      · split <;> simp
  | some st =>
    cases st with
    | done => exact absurd hst hnd
    | died =>
      have hf : f = appendPhase jfs s := by simp only [f, appendAndFinish, hst]
      rw [hf]
      refine ⟨⟨x, hx⟩, ?_, ?_, ?_, ?_⟩
      · intro hd; rw [hst] at hd; simp at hd
      · intro _ _
        exact Or.inr (Or.inr ⟨by rw [haj, hj], by rw [hx]; simp⟩)
      · intro hr; rw [hst] at hr; simp at hr
      · rw [hst]; simp
    | raised =>
      obtain ⟨y, hy⟩ := rollbackPhase_prefix (appendPhase jfs s).fs a₀ x s hx
      have hrj := rollbackPhase_journal (appendPhase jfs s).fs a₀.length s
      by_cases hdied : (rollbackPhase (appendPhase jfs s).fs a₀.length s).st = some .died
      · have hf : f = ⟨(rollbackPhase (appendPhase jfs s).fs a₀.length s).fs,
            (appendPhase jfs s).tr ++ (rollbackPhase (appendPhase jfs s).fs a₀.length s).tr, some .died⟩ := by
          simp only [f, appendAndFinish, hst, hdied]
        rw [hf]
        refine ⟨⟨y, hy⟩, ?_, ?_, ?_, ?_⟩
        · intro hd; simp at hd
        · intro _ _
          exact Or.inr (Or.inr ⟨by simp only; rw [hrj, haj, hj], by simp only; rw [hy]; simp⟩)
        · intro hr; simp at hr
        · simp
      · have hf : f = unlinkStep (rollbackPhase (appendPhase jfs s).fs a₀.length s).fs
            ((appendPhase jfs s).tr ++ (rollbackPhase (appendPhase jfs s).fs a₀.length s).tr) s .raised := by
          simp only [f, appendAndFinish, hst]
        rw [hf]
        refine ⟨⟨y, by rw [unlinkStep_bytes]; exact hy⟩, ?_, ?_, ?_, ?_⟩
        · intro hd; have := (unlinkStep_done hd).1; simp at this
        · intro ho ht
          exact Or.inl (by rw [unlinkStep_bytes]; exact rollbackPhase_restores _ a₀ x s hx ho ht hdied)
        · intro hr ho ht hu
          refine ⟨by rw [unlinkStep_bytes]; exact rollbackPhase_restores _ a₀ x s hx ho ht hdied, ?_⟩
          exact unlinkStep_journal _ _ _ _ (by rw [hr]; simp) hu
        · unfold unlinkStep; split
          · simp
          · split <;> simp

/-- how `writeRecord` decomposes -/
theorem writeRecord_shape (fs : FS) (s : Sched) :
    ((writeRecord fs s).fs = fs ∧ ((writeRecord fs s).st = some .raised ∨ (writeRecord fs s).st = some .died)) ∨
    (∃ st, (journalPhase fs fs.bytes.length s).st = some st ∧
      (writeRecord fs s).fs = (journalPhase fs fs.bytes.length s).fs ∧ (writeRecord fs s).st = some st) ∨
    ((journalPhase fs fs.bytes.length s).st = none ∧
      (writeRecord fs s).fs = (appendAndFinish (journalPhase fs fs.bytes.length s).fs fs.bytes.length s).fs ∧
      (writeRecord fs s).st = (appendAndFinish (journalPhase fs fs.bytes.length s).fs fs.bytes.length s).st) := by
  have rest : ∀ tr : Trace, ∀ r : Ph,
      r = (match (journalPhase fs fs.bytes.length s).st with
          | some st => (⟨(journalPhase fs fs.bytes.length s).fs, tr ++ (journalPhase fs fs.bytes.length s).tr, some st⟩ : Ph)
          | none => ⟨(appendAndFinish (journalPhase fs fs.bytes.length s).fs fs.bytes.length s).fs,
              tr ++ (journalPhase fs fs.bytes.length s).tr ++
                (appendAndFinish (journalPhase fs fs.bytes.length s).fs fs.bytes.length s).tr,
              (appendAndFinish (journalPhase fs fs.bytes.length s).fs fs.bytes.length s).st⟩) →
      (∃ st, (journalPhase fs fs.bytes.length s).st = some st ∧
        r.fs = (journalPhase fs fs.bytes.length s).fs ∧ r.st = some st) ∨
      ((journalPhase fs fs.bytes.length s).st = none ∧
        r.fs = (appendAndFinish (journalPhase fs fs.bytes.length s).fs fs.bytes.length s).fs ∧
        r.st = (appendAndFinish (journalPhase fs fs.bytes.length s).fs fs.bytes.length s).st) := by
    intro tr r hr
    cases hj : (journalPhase fs fs.bytes.length s).st with
    | none => right; rw [hj] at hr; simp [hr]
    | some st => left; rw [hj] at hr; exact ⟨st, rfl, by simp [hr]⟩
  unfold writeRecord
  simp only
  cases ha : fs.archive with
  | none => right; exact rest [] _ rfl
  | some a =>
    simp only
    cases hg : s.getsize with
    | ok => right; exact rest [(.getsize, .ok)] _ rfl
    | fail k => left; simp
    | die k => left; simp

/-! ### the journal names the length -/

def ofDigitsLE : List Nat → Nat
  | [] => 0
  | d :: r => ofDigitsLE r * 10 + d

theorem ofDigitsLE_digitsLE : ∀ (fuel n : Nat), n < fuel → ofDigitsLE (digitsLE fuel n) = n
  | 0, n, h => by omega
  | fuel + 1, n, h => by
    unfold digitsLE
    split
    · simp [ofDigitsLE]
    · simp only [ofDigitsLE]
      rw [ofDigitsLE_digitsLE fuel (n / 10) (by omega)]
      omega

theorem digitsLE_lt : ∀ (fuel n : Nat), ∀ d ∈ digitsLE fuel n, d < 10
  | 0, _, d, h => by simp [digitsLE] at h
  | fuel + 1, n, d, h => by
    unfold digitsLE at h
    split at h
    · simp at h; omega
    · simp only [List.mem_cons] at h
      rcases h with h | h
      · omega
      · exact digitsLE_lt fuel (n / 10) d h

theorem digitsLE_ne_nil (fuel n : Nat) : digitsLE (fuel + 1) n ≠ [] := by
  unfold digitsLE; split <;> simp

theorem parseDecimal_reverse (ds : List Nat) :
    parseDecimal ((ds.map (· + 48)).reverse) = ofDigitsLE ds := by
  unfold parseDecimal
  rw [List.foldl_reverse]
  induction ds with
  | nil => rfl
  | cons d r ih => simp [ofDigitsLE, ih]

theorem parseDecimal_decimal (n : Nat) : parseDecimal (decimal n) = n := by
  unfold decimal
  rw [parseDecimal_reverse, ofDigitsLE_digitsLE _ _ (by omega)]

theorem decimal_digits (n : Nat) : ∀ c ∈ decimal n, isAsciiDigit c = true := by
  intro c hc
  unfold decimal at hc
  simp only [List.mem_reverse, List.mem_map] at hc
  obtain ⟨d, hd, rfl⟩ := hc
  have := digitsLE_lt _ _ d hd
  simp [isAsciiDigit]; omega

theorem decimal_ne_nil (n : Nat) : decimal n ≠ [] := by
  unfold decimal
  simp [digitsLE_ne_nil]

theorem startsWith_append (p x : List Nat) : startsWith (p ++ x) p = true := by
  induction p with
  | nil => cases x <;> simp [startsWith]
  | cons a p ih => simp [startsWith, ih]

theorem takeWhile_append_stop (p : Nat → Bool) (l r : List Nat) (x : Nat)
    (hl : ∀ c ∈ l, p c = true) (hx : p x = false) : (l ++ x :: r).takeWhile p = l := by
  induction l with
  | nil => simp [hx]
  | cons a l ih =>
    have ha := hl a (by simp)
    simp only [List.cons_append, List.takeWhile, ha]
    rw [ih (fun c hc => hl c (by simp [hc]))]


/-! ### more on the phases: where a killed process leaves the journal -/

theorem unlinkStep_died {fs : FS} {tr : Trace} {s : Sched} {st : Status} (hst : st ≠ .died)
    (h : (unlinkStep fs tr s st).st = some .died) : (unlinkStep fs tr s st).fs = fs := by
  unfold unlinkStep at h ⊢
  split
  · rfl
  · split <;> simp_all

theorem appendAndFinish_died (jfs : FS) (n : Nat) (s : Sched)
    (h : (appendAndFinish jfs n s).st = some .died) :
    (appendAndFinish jfs n s).fs.journal = jfs.journal := by
  have haj := appendPhase_journal jfs s
  have hnd := appendPhase_not_done jfs s
  cases hst : (appendPhase jfs s).st with
  | none =>
    have hf : appendAndFinish jfs n s = unlinkStep (appendPhase jfs s).fs (appendPhase jfs s).tr s .done := by
      simp only [appendAndFinish, hst]
    rw [hf] at h ⊢
    rw [unlinkStep_died (by simp) h, haj]
  | some st =>
    cases st with
    | done => exact absurd hst hnd
    | died =>
      have hf : appendAndFinish jfs n s = appendPhase jfs s := by simp only [appendAndFinish, hst]
      rw [hf, haj]
    | raised =>
      have hrj := rollbackPhase_journal (appendPhase jfs s).fs n s
      by_cases hdied : (rollbackPhase (appendPhase jfs s).fs n s).st = some .died
      · have hf : appendAndFinish jfs n s = ⟨(rollbackPhase (appendPhase jfs s).fs n s).fs,
            (appendPhase jfs s).tr ++ (rollbackPhase (appendPhase jfs s).fs n s).tr, some .died⟩ := by
          simp only [appendAndFinish, hst, hdied]
        rw [hf]; simp only; rw [hrj, haj]
      · have hf : appendAndFinish jfs n s = unlinkStep (rollbackPhase (appendPhase jfs s).fs n s).fs
            ((appendPhase jfs s).tr ++ (rollbackPhase (appendPhase jfs s).fs n s).tr) s .raised := by
          simp only [appendAndFinish, hst]
        rw [hf] at h ⊢
        rw [unlinkStep_died (by simp) h, hrj, haj]

theorem endsWith_append (x suf : List Nat) : endsWith (x ++ suf) suf = true := by
  unfold endsWith
  rw [List.reverse_append]
  exact startsWith_append _ _

/-! ## Property theorems

`fs` is the file system before `write_record`, `s` ANY fault schedule (every raw
primitive may succeed, fail with OSError -- writes after any prefix -- or be the
point where the process is killed; the raw writes of the buffering / gzip layer are
an arbitrary list), `writeRecord fs s` the state afterwards (for a killed process:
the state frozen at the kill). -/

/-- **Earlier bytes are never touched.**  For every schedule whatsoever -- any number
of faults anywhere, including inside the roll-back, and a kill at any instant -- the
bytes the archive held before the attempt are still its first bytes. -/
theorem earlier_bytes_intact (fs : FS) (s : Sched) :
    ((writeRecord fs s).fs.bytes).take fs.bytes.length = fs.bytes := by
  rcases writeRecord_shape fs s with ⟨h, _⟩ | ⟨st, _, h, _⟩ | ⟨hn, h, _⟩
  · rw [h]; simp
  · rw [h]; simp [FS.bytes, journalPhase_archive]
  · rw [h]
    have hb : (journalPhase fs fs.bytes.length s).fs.bytes = fs.bytes := by
      simp [FS.bytes, journalPhase_archive]
    obtain ⟨⟨y, hy⟩, _⟩ := appendAndFinish_spec _ fs.bytes s hb (journalPhase_none hn)
    rw [hy]; simp

/-- **fault_restores** (first sentence of C06).  OSError comes out of `write_record`
after ANY number of faults in the stat, the journal creation, the open for append,
the raw writes (each after any prefix), the record source, the closes (also the close
of the roll-back); provided the three primitives that undo things did not fail
themselves (open + truncate of the roll-back, removal of the journal): then the archive
holds exactly the bytes it held before and no journal file remains. -/
theorem fault_restores (fs : FS) (s : Sched) (hj : fs.journal = none)
    (hraised : (writeRecord fs s).status = .raised)
    (ho : s.ropen.isFail = false) (ht : s.rtrunc.isFail = false)
    (hu : s.unlink.isFail = false) (hju : s.junlink.isFail = false) :
    (writeRecord fs s).fs.bytes = fs.bytes ∧ (writeRecord fs s).fs.journal = none := by
  rcases writeRecord_shape fs s with ⟨h, _⟩ | ⟨st, hst, h, hs⟩ | ⟨hn, h, hs⟩
  · rw [h]; exact ⟨rfl, hj⟩
  · rw [h]
    refine ⟨by simp [FS.bytes, journalPhase_archive], ?_⟩
    have : st = .raised := by simpa [Ph.status, hs] using hraised
    subst this
    exact journalPhase_raised hj hst hju
  · rw [h]
    have hb : (journalPhase fs fs.bytes.length s).fs.bytes = fs.bytes := by
      simp [FS.bytes, journalPhase_archive]
    obtain ⟨_, _, _, h4, h5⟩ := appendAndFinish_spec _ fs.bytes s hb (journalPhase_none hn)
    have : (appendAndFinish (journalPhase fs fs.bytes.length s).fs fs.bytes.length s).st = some .raised := by
      rw [← hs]
      cases hq : (writeRecord fs s).st with
      | none => rw [hs] at hq; exact absurd hq h5
      | some q => simp [Ph.status, hq] at hraised; rw [hraised]
    exact h4 this ho ht hu

/-- `write_record` returned normally: the archive is the old bytes plus everything the
append layer emitted, every raw write went through, and the journal is gone. -/
theorem success_appends (fs : FS) (s : Sched)
    (hdone : (writeRecord fs s).st = some .done) :
    Complete s ∧ (writeRecord fs s).fs.bytes = fs.bytes ++ full s ∧ (writeRecord fs s).fs.journal = none := by
  rcases writeRecord_shape fs s with ⟨_, h | h⟩ | ⟨st, hst, h, hs⟩ | ⟨hn, h, hs⟩
  · rw [h] at hdone; simp at hdone
  · rw [h] at hdone; simp at hdone
  · exfalso
    rw [hs] at hdone
    have : st = .done := by simpa using hdone
    subst this
    -- the journal phase never ends with `done`
    unfold journalPhase at hst
    simp only at hst
    split at hst
    · split at hst
      · simp_all
      · split at hst <;> simp at hst
    · rename_i hne
      unfold journalCreate at hst hne
      split at hst
      · simp at hst
      · simp at hst
      · split at hst
        · exact closeStep_not_done _ _ _ _ _ hst
        · simp at hst
        · split at hst
          · exact closeStep_not_done _ _ _ _ _ hst
          · exact closeStep_not_done _ _ _ _ _ hst
          · simp at hst
  · rw [h]
    have hb : (journalPhase fs fs.bytes.length s).fs.bytes = fs.bytes := by
      simp [FS.bytes, journalPhase_archive]
    obtain ⟨_, h2, _⟩ := appendAndFinish_spec _ fs.bytes s hb (journalPhase_none hn)
    exact h2 (by rw [← hs]; exact hdone)

/-- **crash_recoverable / always recoverable** (second sentence of C06, and more).
For every schedule in which the roll-back's own open and truncate do not fail -- any
faults elsewhere, and a kill at ANY instant (before / after every primitive, after any
prefix of any write) -- the state left behind is: the old archive, or the old archive
plus the complete record, or a journal holding exactly the journal text of the old
length while the old bytes are the first bytes of the archive (truncating to that
length restores them). -/
theorem always_recoverable (fs : FS) (s : Sched)
    (ho : s.ropen.isFail = false) (ht : s.rtrunc.isFail = false) :
    Recoverable fs.bytes s (writeRecord fs s).fs := by
  rcases writeRecord_shape fs s with ⟨h, _⟩ | ⟨st, _, h, _⟩ | ⟨hn, h, _⟩
  · rw [h]; exact Or.inl rfl
  · rw [h]; exact Or.inl (by simp [FS.bytes, journalPhase_archive])
  · rw [h]
    have hb : (journalPhase fs fs.bytes.length s).fs.bytes = fs.bytes := by
      simp [FS.bytes, journalPhase_archive]
    obtain ⟨_, _, h3, _⟩ := appendAndFinish_spec _ fs.bytes s hb (journalPhase_none hn)
    exact h3 ho ht

/-- **The journal names the pre-append length**: reading the journal text back gives the offset. -/
theorem journal_names_length (n : Nat) : journalOffset? (journalText n) = some n := by
  unfold journalOffset? journalText
  simp only [List.append_assoc, startsWith_append, if_true, List.drop_left']
  have htw : (decimal n ++ [10]).takeWhile isAsciiDigit = decimal n :=
    takeWhile_append_stop isAsciiDigit (decimal n) [] 10 (decimal_digits n) (by decide)
  rw [htw]
  simp [decimal_ne_nil, parseDecimal_decimal]


/-- **journal_before_archive_open**: no archive byte is written (the file is not even
created) while no complete journal exists.  At every instant of every execution -- the
process killed at any primitive of any schedule -- if the archive differs in any way from
what it was before, the journal file holds the complete journal text. -/
theorem journal_before_archive_open (fs : FS) (s : Sched)
    (hdied : (writeRecord fs s).st = some .died)
    (hchg : (writeRecord fs s).fs.archive ≠ fs.archive) :
    (writeRecord fs s).fs.journal = some (journalText fs.bytes.length) := by
  rcases writeRecord_shape fs s with ⟨h, _⟩ | ⟨st, _, h, _⟩ | ⟨hn, h, hs⟩
  · rw [h] at hchg; exact absurd rfl hchg
  · rw [h, journalPhase_archive] at hchg; exact absurd rfl hchg
  · rw [h, appendAndFinish_died _ _ _ (by rw [← hs]; exact hdied)]
    exact journalPhase_none hn

/-- **crash_recoverable** (second sentence of C06), for ALL schedules without exception:
any faults anywhere before the kill (also inside the roll-back), the kill at any
primitive, after any prefix of any write.  `V` is "is a valid record sequence": the
archive was valid before, and old bytes + the completely emitted record are valid.
Then the archive on disk is valid, or the journal on disk names the old length and the
archive cut to that length is valid (it is the old archive). -/
theorem crash_recoverable (V : Bytes → Prop) (fs : FS) (s : Sched)
    (hdied : (writeRecord fs s).st = some .died)
    (hV0 : V fs.bytes) :
    V (writeRecord fs s).fs.bytes ∨
    (∃ j, (writeRecord fs s).fs.journal = some j ∧ journalOffset? j = some fs.bytes.length ∧
      ((writeRecord fs s).fs.bytes).take fs.bytes.length = fs.bytes ∧
      V (((writeRecord fs s).fs.bytes).take fs.bytes.length)) := by
  by_cases hchg : (writeRecord fs s).fs.archive = fs.archive
  · left; simp only [FS.bytes, hchg]; exact hV0
  · right
    refine ⟨_, journal_before_archive_open fs s hdied hchg, journal_names_length _, ?_, ?_⟩
    · exact earlier_bytes_intact fs s
    · rw [earlier_bytes_intact fs s]; exact hV0

/-- The hypothesis of `fault_restores` / `always_recoverable` is needed, and this is exactly
the state it excludes: when the roll-back cannot open (or truncate) the archive, the tail of
the failed append stays behind the old bytes and `finally` still removes the journal. -/
theorem rollback_fault_counterexample :
    ∃ (fs : FS) (s : Sched), fs.journal = none ∧ (writeRecord fs s).status = .raised ∧
      (writeRecord fs s).fs = ⟨some [1, 2], none⟩ ∧ fs.bytes = [1] ∧
      ¬ Recoverable fs.bytes s (writeRecord fs s).fs :=
  ⟨⟨some [1], none⟩, { awrites := [([2, 3], .fail 1)], ropen := .fail 0 }, by decide, by decide, by decide,
    by decide, by
      intro h
      rcases h with h | ⟨⟨hc, _⟩, _⟩ | ⟨h, _⟩
      · revert h; decide
      · have := hc ([2, 3], .fail 1) (by simp); simp at this
      · revert h; decide⟩

/-- **startup_refuses**: while the journal of any archive of this prefix (plain, numbered
`-00000`, `-meta`; gzip or not) is in the directory, `_check_journals_and_maybe_raise` raises. -/
theorem startup_refuses (namePrefix seq : Str) (compress : Bool) (listing : List Str)
    (h : journalName namePrefix seq compress ∈ listing) : startupRefuses namePrefix listing = true := by
  unfold startupRefuses
  rw [List.any_eq_true]
  refine ⟨_, h, ?_⟩
  unfold isJournalName journalName warcName
  rw [Bool.and_eq_true]
  constructor
  · rw [List.append_assoc, List.append_assoc]; exact startsWith_append _ _
  · exact endsWith_append _ _

/-- and only then: without a file that carries the prefix and the journal suffix the run starts -/
theorem startup_starts (namePrefix : Str) (listing : List Str)
    (h : ∀ name ∈ listing, isJournalName namePrefix name = false) :
    startupRefuses namePrefix listing = false := by
  unfold startupRefuses
  rw [List.any_eq_false]
  intro x hx; simp [h x hx]

/-! ### non-vacuity: concrete schedules that meet the hypotheses -/

-- OSError after 1 byte of the first raw write, the layer re-issues the write while closing: rolled back
example : (writeRecord ⟨some [1, 2, 3], none⟩ { awrites := [([4, 5], .fail 1), ([4, 5], .ok)] }).status = .raised ∧
    (writeRecord ⟨some [1, 2, 3], none⟩ { awrites := [([4, 5], .fail 1), ([4, 5], .ok)] }).fs
      = ⟨some [1, 2, 3], none⟩ := by decide
-- three faults (write, close of the archive, close of the roll-back): still restored
example : (writeRecord ⟨some [1, 2, 3], none⟩
      { awrites := [([4, 5], .fail 2)], aclose := .fail 0, rclose := .fail 0 }).fs = ⟨some [1, 2, 3], none⟩ := by decide
-- journal write fails after 5 bytes, retry works: journal removed, archive untouched
example : (writeRecord ⟨some [1, 2, 3], none⟩ { jwrite := .fail 5 }).fs = ⟨some [1, 2, 3], none⟩ ∧
    (writeRecord ⟨some [1, 2, 3], none⟩ { jwrite := .fail 5 }).status = .raised := by decide
-- killed after 1 byte of the second write: journal names length 3, old bytes in front
example : (writeRecord ⟨some [1, 2, 3], none⟩ { awrites := [([4], .ok), ([5, 6], .die 1)] }).fs
      = ⟨some [1, 2, 3, 4, 5], some (journalText 3)⟩ ∧
    (writeRecord ⟨some [1, 2, 3], none⟩ { awrites := [([4], .ok), ([5, 6], .die 1)] }).st = some .died := by decide
-- killed between truncate and close of the roll-back
example : (writeRecord ⟨some [1, 2, 3], none⟩ { awrites := [([4], .fail 1)], rclose := .die 0 }).fs
      = ⟨some [1, 2, 3], some (journalText 3)⟩ := by decide
-- fault-free append
example : (writeRecord ⟨some [1, 2, 3], none⟩ { awrites := [([4], .ok), ([5, 6], .ok)] }).fs
      = ⟨some [1, 2, 3, 4, 5, 6], none⟩ ∧
    (writeRecord ⟨some [1, 2, 3], none⟩ { awrites := [([4], .ok), ([5, 6], .ok)] }).st = some .done := by decide
example : journalOffset? (journalText 1234567) = some 1234567 := by decide
example : journalText 468 = lit "wpull-journal-version:1\noffset:468\n" := by decide
example : startupRefuses (lit "site[1]") [lit "site[1]-00003.warc.gz-wpullinc"] = true := by decide
example : startupRefuses (lit "site") [lit "site.warc.gz", lit "other.warc-wpullinc"] = false := by decide



/-! ## The class of the exception does not matter -/

theorem appendAndFinishE_eq (e : IOErr) (fs : FS) (n : Nat) (s : Sched) :
    appendAndFinishE e fs n s = appendAndFinish fs n s := by
  unfold appendAndFinishE appendAndFinish
  simp [handlerCatches]

/-- every class of I/O error (ENOSPC, EIO, EACCES, EPERM, ENOENT, EINTR, EAGAIN, ETIMEDOUT, IOError) is
handled alike by both handlers of `write_record` -/
theorem writeRecordE_eq (e : IOErr) (h : e.isOSError = true) (fs : FS) (s : Sched) :
    writeRecordE e fs s = writeRecord fs s := by
  unfold writeRecordE writeRecord journalPhaseE
  simp [appendAndFinishE_eq, h]

/-- … so two runs that differ only in the class of the I/O errors end in the same state, trace and status -/
theorem error_class_irrelevant (e₁ e₂ : IOErr) (h₁ : e₁.isOSError = true) (h₂ : e₂.isOSError = true)
    (fs : FS) (s : Sched) : writeRecordE e₁ fs s = writeRecordE e₂ fs s := by
  rw [writeRecordE_eq e₁ h₁, writeRecordE_eq e₂ h₂]

/-- **fault_restores for every class of I/O error**: PermissionError / FileNotFoundError / … at ANY
primitive (open, any write after any prefix, flush, close) are rolled back exactly like ENOSPC. -/
theorem fault_restores_any_class (e : IOErr) (he : e.isOSError = true) (fs : FS) (s : Sched)
    (hj : fs.journal = none) (hraised : (writeRecordE e fs s).status = .raised)
    (ho : s.ropen.isFail = false) (ht : s.rtrunc.isFail = false)
    (hu : s.unlink.isFail = false) (hju : s.junlink.isFail = false) :
    (writeRecordE e fs s).fs.bytes = fs.bytes ∧ (writeRecordE e fs s).fs.journal = none := by
  rw [writeRecordE_eq e he] at hraised ⊢
  exact fault_restores fs s hj hraised ho ht hu hju

/-! ### exceptions that are not I/O errors (KeyboardInterrupt, CancelledError, SystemExit, MemoryError, …)

They differ from an I/O error in one place only: the `except (OSError, IOError)` around the journal
creation does not catch them, so a journal whose creation they interrupt stays (the archive is untouched
then).  As far as the file system and the status go, that is `write_record` under a schedule whose journal
removal "fails". -/

def Sched.noJunlink (s : Sched) : Sched := { s with junlink := .fail 0 }

theorem journalPhase_noJunlink (fs : FS) (n : Nat) (s : Sched) :
    (journalPhase fs n s.noJunlink).fs = (journalCreate fs n s).fs ∧
    (journalPhase fs n s.noJunlink).st = (journalCreate fs n s).st := by
  have hc : journalCreate fs n s.noJunlink = journalCreate fs n s := rfl
  have hu : s.noJunlink.junlink = .fail 0 := rfl
  unfold journalPhase
  simp only [hc, hu]
  cases hst : (journalCreate fs n s).st with
  | none => simp [hst]
  | some q =>
    cases q with
    | done => simp [hst]
    | died => simp [hst]
    | raised =>
      simp only
      cases hj : (journalCreate fs n s).fs.journal with
      | none => simp [hst]
      | some v => simp

/-- the transfer: for every exception class there is a schedule with the same archive writes, record
source, roll-back and final-removal outcomes under which plain `write_record` ends in the same file system
and status -/
theorem writeRecordE_transfer (e : IOErr) (fs : FS) (s : Sched) :
    ∃ s' : Sched, s'.awrites = s.awrites ∧ s'.srcFail = s.srcFail ∧ s'.ropen = s.ropen ∧
      s'.rtrunc = s.rtrunc ∧ s'.unlink = s.unlink ∧
      (writeRecordE e fs s).fs = (writeRecord fs s').fs ∧ (writeRecordE e fs s).st = (writeRecord fs s').st := by
  cases he : e.isOSError with
  | true => exact ⟨s, rfl, rfl, rfl, rfl, rfl, by rw [writeRecordE_eq e he], by rw [writeRecordE_eq e he]⟩
  | false =>
    refine ⟨s.noJunlink, rfl, rfl, rfl, rfl, rfl, ?_⟩
    obtain ⟨hf, hs⟩ := journalPhase_noJunlink fs fs.bytes.length s
    have hg : s.noJunlink.getsize = s.getsize := rfl
    have haf : ∀ x, appendAndFinish x fs.bytes.length s.noJunlink = appendAndFinish x fs.bytes.length s :=
      fun _ => rfl
    unfold writeRecordE writeRecord journalPhaseE
    simp only [he, hg, appendAndFinishE_eq, haf, Bool.false_eq_true, if_false]
    cases fs.archive with
    | none =>
      simp only
      cases hq : (journalCreate fs fs.bytes.length s).st with
      | some q => rw [hq] at hs; simp [hs, hf]
      | none => rw [hq] at hs; simp [hs, hf]
    | some a =>
      simp only
      cases s.getsize with
      | ok =>
        simp only
        cases hq : (journalCreate fs fs.bytes.length s).st with
        | some q => rw [hq] at hs; simp [hs, hf]
        | none => rw [hq] at hs; simp [hs, hf]
      | fail k => exact ⟨rfl, rfl⟩
      | die k => exact ⟨rfl, rfl⟩

/-- `fault_restores` for the bytes alone does not need the journal-creation clean-up to work -/
theorem fault_restores_bytes (fs : FS) (s : Sched)
    (hraised : (writeRecord fs s).st = some .raised)
    (ho : s.ropen.isFail = false) (ht : s.rtrunc.isFail = false) (hu : s.unlink.isFail = false) :
    (writeRecord fs s).fs.bytes = fs.bytes := by
  rcases writeRecord_shape fs s with ⟨h, _⟩ | ⟨st, _, h, _⟩ | ⟨hn, h, hs⟩
  · rw [h]
  · rw [h]; simp [FS.bytes, journalPhase_archive]
  · rw [h]
    have hb : (journalPhase fs fs.bytes.length s).fs.bytes = fs.bytes := by
      simp [FS.bytes, journalPhase_archive]
    obtain ⟨_, _, _, h4, _⟩ := appendAndFinish_spec _ fs.bytes s hb (journalPhase_none hn)
    exact (h4 (by rw [← hs]; exact hraised) ho ht hu).1

/-- **An interrupted append is rolled back, whatever interrupts it**: for EVERY exception class -- I/O
error or KeyboardInterrupt, CancelledError, SystemExit, MemoryError, an error of the record source -- and
every schedule whose undo primitives (roll-back open/truncate, final journal removal) do not fail: once the
exception has come out of `write_record`, the archive holds exactly the bytes it held before. -/
theorem interrupted_append_restores (e : IOErr) (fs : FS) (s : Sched)
    (hraised : (writeRecordE e fs s).st = some .raised)
    (ho : s.ropen.isFail = false) (ht : s.rtrunc.isFail = false) (hu : s.unlink.isFail = false) :
    (writeRecordE e fs s).fs.bytes = fs.bytes := by
  obtain ⟨s', _, _, h3, h4, h5, hf, hs⟩ := writeRecordE_transfer e fs s
  rw [hf]
  exact fault_restores_bytes fs s' (by rw [← hs]; exact hraised) (by rw [h3]; exact ho) (by rw [h4]; exact ht)
    (by rw [h5]; exact hu)

/-- … and in every case (returned, raised, killed; any exception class) the state is recoverable -/
theorem always_recoverable_any_exception (e : IOErr) (fs : FS) (s : Sched)
    (ho : s.ropen.isFail = false) (ht : s.rtrunc.isFail = false) :
    fs.bytes = (writeRecordE e fs s).fs.bytes ∨
    ((∀ p ∈ s.awrites, p.2 = Out.ok) ∧ s.srcFail = false ∧ (writeRecordE e fs s).fs.bytes = fs.bytes ++ full s) ∨
    ((writeRecordE e fs s).fs.journal = some (journalText fs.bytes.length) ∧
      ((writeRecordE e fs s).fs.bytes).take fs.bytes.length = fs.bytes) := by
  obtain ⟨s', h1, h2, h3, h4, _, hf, _⟩ := writeRecordE_transfer e fs s
  have := always_recoverable fs s' (by rw [h3]; exact ho) (by rw [h4]; exact ht)
  rw [hf]
  rcases this with h | ⟨⟨hc1, hc2⟩, h⟩ | h
  · exact Or.inl h.symm
  · exact Or.inr (Or.inl ⟨by rw [← h1]; exact hc1, by rw [← h2]; exact hc2, by simpa [full, h1] using h⟩)
  · exact Or.inr (Or.inr h)

/-- killed at any primitive under any exception class: `crash_recoverable` as it stands -/
theorem crash_recoverable_any_exception (V : Bytes → Prop) (e : IOErr) (fs : FS) (s : Sched)
    (hdied : (writeRecordE e fs s).st = some .died) (hV0 : V fs.bytes) :
    V (writeRecordE e fs s).fs.bytes ∨
    (∃ j, (writeRecordE e fs s).fs.journal = some j ∧ journalOffset? j = some fs.bytes.length ∧
      ((writeRecordE e fs s).fs.bytes).take fs.bytes.length = fs.bytes ∧
      V (((writeRecordE e fs s).fs.bytes).take fs.bytes.length)) := by
  obtain ⟨s', _, _, _, _, _, hf, hs⟩ := writeRecordE_transfer e fs s
  rw [hf]
  exact crash_recoverable V fs s' (by rw [← hs]; exact hdied) hV0

theorem journal_before_archive_open_any_exception (e : IOErr) (fs : FS) (s : Sched)
    (hdied : (writeRecordE e fs s).st = some .died)
    (hchg : (writeRecordE e fs s).fs.archive ≠ fs.archive) :
    (writeRecordE e fs s).fs.journal = some (journalText fs.bytes.length) := by
  obtain ⟨s', _, _, _, _, _, hf, hs⟩ := writeRecordE_transfer e fs s
  rw [hf] at hchg ⊢
  exact journal_before_archive_open fs s' (by rw [← hs]; exact hdied) hchg

-- non-vacuity: KeyboardInterrupt in a write after 1 byte: rolled back; in the journal write: journal stays, archive untouched
example : (writeRecordE .keyboardInterrupt ⟨some [1, 2, 3], none⟩ { awrites := [([4, 5], .fail 1)] }).fs
    = ⟨some [1, 2, 3], none⟩ := by decide
example : (writeRecordE .memoryError ⟨some [1, 2, 3], none⟩ { jwrite := .fail 2, jretry := .fail 0 }).fs
    = ⟨some [1, 2, 3], some ((journalText 3).take 2)⟩ := by decide
-- non-vacuity: EACCES from a write after 1 byte is on disk
example : (writeRecordE .eacces ⟨some [1, 2, 3], none⟩ { awrites := [([4, 5], .fail 1)] }).fs
    = ⟨some [1, 2, 3], none⟩ := by decide


/-! ## The restored state is the state at every LATER time

`write_record` keeps no file object of the archive open when it ends, whichever way it ends: the handle
opened for append is closed (its `close` primitive issued -- the `with` block) before the roll-back opens
the archive again and before the journal is removed.  So nothing is left that could write later, and what
the theorems say about the state "after `write_record`" holds at every later observation point as long as
no further operation is started.  (The correspondence observes exactly that: the files are read after the
exception object has been dropped and the collector has run.) -/

/-- the `with open_func(archive, 'ab')` block always issues the close of the handle it opened, unless the
process is killed inside it: on the success path and on every failure path -/
theorem append_handle_closed (fs : FS) (s : Sched) (hopen : s.aopen = .ok)
    (hd : (appendPhase fs s).st ≠ some .died) :
    ∃ t, (Prim.aclose, t) ∈ (appendPhase fs s).tr := by
  unfold appendPhase at hd ⊢
  simp only [hopen] at hd ⊢
  split
  · rename_i h; simp [h] at hd
  · unfold closeStep
    split
    · exact ⟨.ok, by simp⟩
    · rename_i k _; exact ⟨.fail k, by simp⟩
    · rename_i k _; exact ⟨.die k, by simp⟩

/-- time passing with no operation -/
def idle (fs : FS) : Nat → FS
  | 0 => fs
  | t + 1 => idle fs t

theorem idle_eq (fs : FS) (t : Nat) : idle fs t = fs := by
  induction t with
  | zero => rfl
  | succ t ih => simpa [idle] using ih

/-- **fault_restores, observed late**: at every later time `t` (no further operation), after errors of any
class `e`: the archive holds the bytes it held before the attempt and there is no journal. -/
theorem fault_restores_at_every_later_time (e : IOErr) (he : e.isOSError = true) (fs : FS) (s : Sched) (t : Nat)
    (hj : fs.journal = none)
    (hraised : (writeRecordE e fs s).status = .raised)
    (ho : s.ropen.isFail = false) (ht : s.rtrunc.isFail = false)
    (hu : s.unlink.isFail = false) (hju : s.junlink.isFail = false) :
    (idle (writeRecordE e fs s).fs t).bytes = fs.bytes ∧ (idle (writeRecordE e fs s).fs t).journal = none := by
  rw [idle_eq]
  exact fault_restores_any_class e he fs s hj hraised ho ht hu hju

example : ∃ t, (Prim.aclose, t) ∈ (appendPhase ⟨some [1], some []⟩ { awrites := [([2, 3], .fail 1)] }).tr :=
  ⟨.ok, by decide⟩

/-! ## A whole recorder life over a directory (constructor, roll-over, `close()` with the `-meta` archive)

Every append is `write_record` aimed at ONE archive of the directory and at the journal next to it:
the theorems above hold per archive, all other files are untouched. -/

theorem journalOf_ne (a : Str) : journalOf a ≠ a := by
  intro h
  have := congrArg List.length h
  simp [journalOf, journalSuffix, lit] at this

theorem appendTo_archive (m : Dir) (a : Str) (s : Sched) (e : IOErr) :
    (appendTo m a s e).dir a = (writeRecordE e ⟨m a, m (journalOf a)⟩ s).fs.archive := by
  have h : a ≠ journalOf a := fun h => journalOf_ne a h.symm
  simp [appendTo, Dir.set, h]

theorem appendTo_journal (m : Dir) (a : Str) (s : Sched) (e : IOErr) :
    (appendTo m a s e).dir (journalOf a) = (writeRecordE e ⟨m a, m (journalOf a)⟩ s).fs.journal := by
  simp [appendTo, Dir.set]

/-- an append leaves every file other than its archive and that archive's journal alone -/
theorem appendTo_frame (m : Dir) (a : Str) (s : Sched) (e : IOErr) (x : Str) (h1 : x ≠ a) (h2 : x ≠ journalOf a) :
    (appendTo m a s e).dir x = m x := by
  simp [appendTo, Dir.set, h1, h2]

def Prim.onJournal : Prim → Bool
  | .jopen | .jwrite _ | .jclose | .junlink | .unlink => true
  | _ => false

/-- **The journal sits next to the archive it guards**, for all three kinds of archive name
(`<prefix>.warc[.gz]`, `<prefix>-NNNNN.warc[.gz]`, `<prefix>-meta.warc[.gz]`: `seq` is arbitrary):
in an append to `warcName p seq c`, under every schedule, every journal primitive (create, write, close,
remove) acts on `warcName p seq c ++ "-wpullinc"` and every other primitive on the archive itself. -/
theorem journal_next_to_archive (m : Dir) (p seq : Str) (c : Bool) (s : Sched) (err : IOErr) :
    ∀ e ∈ (appendTo m (warcName p seq c) s err).tr,
      (e.2.1.onJournal = true → e.1 = journalName p seq c ∧ e.1 = warcName p seq c ++ lit "-wpullinc") ∧
      (e.2.1.onJournal = false → e.1 = warcName p seq c) := by
  intro e he
  simp only [appendTo, List.mem_map] at he
  obtain ⟨x, _, rfl⟩ := he
  cases hx : x.1 <;> simp [fileOf, Prim.onJournal, journalOf, journalName, journalSuffix]

/-- crash_recoverable per archive of a directory: killed inside an append aimed at `a` (any schedule),
`a` is valid as it is, or ITS OWN journal `a ++ "-wpullinc"` decodes to `a`'s pre-append length and `a`
cut there is the old `a`; every other file is what it was. -/
theorem life_append_crash_recoverable (V : Bytes → Prop) (m : Dir) (a : Str) (s : Sched) (e : IOErr)
    (hdied : (appendTo m a s e).st = .died) (hV0 : V ((m a).getD [])) :
    (V (((appendTo m a s e).dir a).getD []) ∨
      ∃ j, (appendTo m a s e).dir (journalOf a) = some j ∧ journalOffset? j = some ((m a).getD []).length ∧
        (((appendTo m a s e).dir a).getD []).take ((m a).getD []).length = (m a).getD [] ∧
        V ((((appendTo m a s e).dir a).getD []).take ((m a).getD []).length)) ∧
    ∀ x, x ≠ a → x ≠ journalOf a → (appendTo m a s e).dir x = m x := by
  refine ⟨?_, fun x h1 h2 => appendTo_frame m a s e x h1 h2⟩
  have hst : (writeRecordE e ⟨m a, m (journalOf a)⟩ s).st = some .died := by
    have : (writeRecordE e ⟨m a, m (journalOf a)⟩ s).status = .died := hdied
    unfold Ph.status at this
    cases hq : (writeRecordE e ⟨m a, m (journalOf a)⟩ s).st with
    | none => simp [hq] at this
    | some q => simp [hq] at this; rw [this]
  have := crash_recoverable_any_exception V e ⟨m a, m (journalOf a)⟩ s hst hV0
  rw [appendTo_archive, appendTo_journal]
  exact this

theorem truncateFile_frame (m : Dir) (a : Str) (o1 o2 : Out) (x : Str) (h : x ≠ a) :
    (truncateFile m a o1 o2).dir x = m x := by
  unfold truncateFile
  split
  · rfl
  · rfl
  · split <;> simp [Dir.set, h]

/-- **Non-appending start**: `_start_new_warc_file` of a run without `--warc-append` first empties
whatever an earlier run left under the name, THEN appends the warcinfo record.  Once the truncation went
through, the step IS an append to the EMPTY file: the "bytes before the attempt" of that first append are
the empty file, not the left-over contents. -/
theorem nonappending_start_is_append_to_empty (m : Dir) (st : Step) (hk : st.kind = .startTrunc)
    (h1 : st.topen = .ok) (h2 : st.tclose = .ok) :
    (runStep m st).dir = (appendTo (m.set st.target (some [])) st.target st.sched st.err).dir ∧
    (runStep m st).st = (appendTo (m.set st.target (some [])) st.target st.sched st.err).st ∧
    (runStep m st).tr = [(st.target, .topen, .ok), (st.target, .tclose, .ok)] ++
      (appendTo (m.set st.target (some [])) st.target st.sched st.err).tr := by
  simp [runStep, hk, truncateFile, h1, h2]

/-- … so after an OSError in that first append (roll-back primitives and removals not failing, no journal
of that archive before) the archive is EMPTY and has no journal, whatever was left over before … -/
theorem nonappending_start_fault_restores_empty (m : Dir) (st : Step) (hk : st.kind = .startTrunc)
    (h1 : st.topen = .ok) (h2 : st.tclose = .ok) (hj : m (journalOf st.target) = none)
    (he : st.err.isOSError = true) (hraised : (runStep m st).st = .raised)
    (ho : st.sched.ropen.isFail = false) (ht : st.sched.rtrunc.isFail = false)
    (hu : st.sched.unlink.isFail = false) (hju : st.sched.junlink.isFail = false) :
    ((runStep m st).dir st.target).getD [] = [] ∧ (runStep m st).dir (journalOf st.target) = none := by
  obtain ⟨hd, hs, _⟩ := nonappending_start_is_append_to_empty m st hk h1 h2
  rw [hd, appendTo_archive, appendTo_journal]
  rw [hs] at hraised
  have hne : journalOf st.target ≠ st.target := journalOf_ne _
  have hj' : (m.set st.target (some [])) (journalOf st.target) = none := by simp [Dir.set, hne, hj]
  have ha' : (m.set st.target (some [])) st.target = some [] := by simp [Dir.set]
  have := fault_restores_any_class st.err he
    ⟨(m.set st.target (some [])) st.target, (m.set st.target (some [])) (journalOf st.target)⟩
    st.sched hj' hraised ho ht hu hju
  simpa [FS.bytes, ha'] using this

/-- … and after a kill anywhere in a non-appending start (during the truncation or during the first
append, any schedule): the archive is still the left-over file, or it is empty, or its own journal holds
the journal text of length 0 (cutting to 0 gives the empty archive). -/
theorem nonappending_start_crash (m : Dir) (st : Step) (hk : st.kind = .startTrunc)
    (hdied : (runStep m st).st = .died) :
    (runStep m st).dir st.target = m st.target ∨ (runStep m st).dir st.target = some [] ∨
    (runStep m st).dir (journalOf st.target) = some (journalText 0) := by
  cases h1 : st.topen with
  | fail k => simp [runStep, hk, truncateFile, h1] at hdied
  | die k => left; simp [runStep, hk, truncateFile, h1]
  | ok =>
    cases h2 : st.tclose with
    | fail k => simp [runStep, hk, truncateFile, h1, h2] at hdied
    | die k => right; left; simp [runStep, hk, truncateFile, h1, h2, Dir.set]
    | ok =>
      obtain ⟨hd, hs, _⟩ := nonappending_start_is_append_to_empty m st hk h1 h2
      rw [hd, appendTo_archive, appendTo_journal]
      rw [hs] at hdied
      have ha' : (m.set st.target (some [])) st.target = some [] := by simp [Dir.set]
      have hst : (writeRecordE st.err ⟨(m.set st.target (some [])) st.target,
          (m.set st.target (some [])) (journalOf st.target)⟩ st.sched).st = some .died := by
        have : (writeRecordE st.err ⟨(m.set st.target (some [])) st.target,
          (m.set st.target (some [])) (journalOf st.target)⟩ st.sched).status = .died := hdied
        unfold Ph.status at this
        cases hq : (writeRecordE st.err ⟨(m.set st.target (some [])) st.target,
          (m.set st.target (some [])) (journalOf st.target)⟩ st.sched).st with
        | none => simp [hq] at this
        | some q => simp [hq] at this; rw [this]
      by_cases hchg : (writeRecordE st.err ⟨(m.set st.target (some [])) st.target,
          (m.set st.target (some [])) (journalOf st.target)⟩ st.sched).fs.archive = some []
      · right; left; exact hchg
      · right; right
        have := journal_before_archive_open_any_exception st.err _ st.sched hst (by rw [ha'] at *; exact hchg)
        simpa [FS.bytes, ha'] using this

theorem runStep_frame (m : Dir) (st : Step) (x : Str) (h1 : x ≠ st.target) (h2 : x ≠ journalOf st.target) :
    (runStep m st).dir x = m x := by
  unfold runStep
  cases st.kind with
  | startTrunc =>
    simp only
    split
    · simp only; rw [appendTo_frame _ _ _ _ _ h1 h2, truncateFile_frame _ _ _ _ _ h1]
    · exact truncateFile_frame _ _ _ _ _ h1
  | startKeep => exact appendTo_frame _ _ _ _ _ h1 h2
  | append => exact appendTo_frame _ _ _ _ _ h1 h2

/-- over a whole life (any steps, any schedules): a file that is neither the archive a step is aimed at
nor that archive's journal is never touched — in particular no append to one archive ever creates, alters
or removes the journal (or the bytes) of ANOTHER archive. -/
theorem life_frame (steps : List Step) (m : Dir) (x : Str)
    (h : ∀ st ∈ steps, x ≠ st.target ∧ x ≠ journalOf st.target) : (runLife m steps).dir x = m x := by
  induction steps generalizing m with
  | nil => rfl
  | cons st rest ih =>
    have hst := h st (by simp)
    unfold runLife
    simp only
    split
    · simp only
      rw [ih _ (fun s hs => h s (by simp [hs])), runStep_frame _ _ _ hst.1 hst.2]
    · exact runStep_frame _ _ _ hst.1 hst.2

/-- a life over a directory that holds the journal of ANY archive of the prefix (plain, numbered, -meta;
gzip or not) ends in `__init__` with OSError and touches nothing -/
theorem life_refuses_over_stale_journal (p seq : Str) (c : Bool) (names : List Str) (m : Dir) (steps : List Step)
    (hn : journalName p seq c ∈ names) (hm : (m (journalName p seq c)).isSome = true) :
    startLife p names m steps = ⟨m, .raised, []⟩ := by
  unfold startLife
  rw [if_pos]
  exact startup_refuses p seq c _ (by simp [List.mem_filter, hn, hm])


/-- **A refused start is the identity on the file system**: next to the journal of a killed append (of any
archive of the prefix) a new run -- appending or not, with or without max_size: whatever steps it would
have taken -- raises and leaves every file exactly as it was; in particular every archive still holds the
bytes its journal's recovery recipe needs, and the journal itself is still there. -/
theorem refused_start_is_identity (p seq : Str) (c : Bool) (names : List Str) (m : Dir) (steps : List Step)
    (hn : journalName p seq c ∈ names) (hm : (m (journalName p seq c)).isSome = true) :
    (startLife p names m steps).st = .raised ∧ (startLife p names m steps).tr = [] ∧
    ∀ x, (startLife p names m steps).dir x = m x := by
  rw [life_refuses_over_stale_journal p seq c names m steps hn hm]
  exact ⟨rfl, rfl, fun _ => rfl⟩

-- non-vacuity
example : (runStep (Dir.ofList [(lit "w.warc", some [7, 7, 7])])
      { kind := .startTrunc, target := lit "w.warc", sched := { awrites := [([1, 2], .fail 1)] } }).st = .raised ∧
    (runStep (Dir.ofList [(lit "w.warc", some [7, 7, 7])])
      { kind := .startTrunc, target := lit "w.warc", sched := { awrites := [([1, 2], .fail 1)] } }).dir (lit "w.warc")
      = some [] := by decide
example : (runStep (Dir.ofList [(lit "w-meta.warc", some [7])])
      { kind := .append, target := lit "w-meta.warc", sched := { awrites := [([1, 2], .die 1)] } }).dir
        (lit "w-meta.warc-wpullinc") = some (journalText 1) := by decide
example : journalOf (warcName (lit "w") (lit "-meta") true) = lit "w-meta.warc.gz-wpullinc" := by decide

end Wpull.WarcWrite
