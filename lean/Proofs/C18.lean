/-
C18 — Work per URL is bounded: redirect chains and retries always end.
Property theorems over the model `Wpull.Request` (helper lemmas first; the
property statements are in the section "Property theorems").
-/
import Wpull.Request
namespace Wpull.Request
open Wpull

/-! ## helper lemmas -/

@[simp] theorem setCur_loopType (s : Sess) (r : Req) : (s.setCur r).loopType = s.loopType := rfl
@[simp] theorem setCur_numRedirects (s : Sess) (r : Req) : (s.setCur r).numRedirects = s.numRedirects := rfl
@[simp] theorem setCur_cur (s : Sess) (r : Req) : (s.setCur r).cur = some r := rfl

/-- requests that a session in state `s` can still issue -/
def budget (cfg : Cfg) (s : Sess) : Nat :=
  (if s.loopType = .authentication then 1 else 2) + 2 * (cfg.maxRedirects - s.numRedirects)

theorem processRedirect_facts {cfg : Cfg} {s : Sess} {st : Nat} {hasLoc : Bool} {tgt : Target} {s2 : Sess}
    (h : processRedirect cfg s st hasLoc tgt = .ok s2) :
    s2.numRedirects = s.numRedirects ∧ s.numRedirects ≤ cfg.maxRedirects ∧ s2.loopType = .redirect ∧ hasLoc = true := by
  unfold processRedirect at h
  split at h
  · cases h
  · rename_i hle
    split at h
    · cases h
    · split at h
      · cases h
      · cases h
      · cases h; exact ⟨rfl, by omega, rfl, by simp_all⟩

theorem processResponse_facts {cfg : Cfg} {s : Sess} {r : Req} {st : Nat} {hasLoc : Bool} {tgt : Target} {s2 : Sess}
    (h : processResponse cfg s r st hasLoc tgt = .ok s2) (hc : s2.cur.isSome) :
    (isRedirectCode st = true →
      s.numRedirects < s2.numRedirects ∧ s2.numRedirects ≤ cfg.maxRedirects ∧ s2.loopType = .redirect) ∧
    (isRedirectCode st = false →
      s.loopType ≠ .authentication ∧ s2.loopType = .authentication ∧ s.numRedirects ≤ s2.numRedirects) := by
  unfold processResponse at h
  simp only [] at h
  split at h
  · cases h
  · rename_i s' hmain
    -- the cookie step changes neither the counter nor the loop type
    have hs2 : s2.numRedirects = s'.numRedirects ∧ s2.loopType = s'.loopType ∧ (s2.cur.isSome → s'.cur.isSome) := by
      split at h
      · split at h
        · cases h; simp [Sess.setCur]; simp_all
        · cases h; simp
      · cases h; simp
    obtain ⟨hn, hl, hcur⟩ := hs2
    have hc' := hcur hc
    split at hmain
    · -- redirect
      rename_i hred
      have := processRedirect_facts hmain
      simp only [] at this
      obtain ⟨h1, h2, h3, h4⟩ := this
      refine ⟨fun _ => ?_, fun hf => by simp [hred] at hf⟩
      subst h4
      simp at h1 h2
      exact ⟨by omega, by omega, by rw [hl, h3]⟩
    · rename_i hred
      split at hmain
      · split at hmain
        · cases hmain; simp at hc'
        · rename_i hne
          cases hmain
          refine ⟨fun ht => by simp [ht] at hred, fun _ => ?_⟩
          simp only [setCur_loopType, setCur_numRedirects] at hl hn
          refine ⟨by simpa using hne, hl, ?_⟩
          rw [hn]; split <;> omega
      · cases hmain; simp at hc'

theorem budget_pos (cfg : Cfg) (s : Sess) : 1 ≤ budget cfg s := by
  unfold budget; split <;> omega

/-- what `run` started in state `s` with the accumulators `sent, fu, ar` guarantees about its result -/
def Good (cfg : Cfg) (s : Sess) (sent : List Req) (fu ar : Nat) (t : Trace) : Prop :=
  t.out ≠ .fuel ∧ fu ≤ t.followUps ∧ ar ≤ t.authRetries ∧
  t.followUps ≤ fu + (cfg.maxRedirects - s.numRedirects) ∧
  t.authRetries + fu ≤ ar + t.followUps + (if s.loopType = .authentication then 0 else 1) ∧
  t.sent.length + fu + ar ≤ sent.length + t.followUps + t.authRetries + 1 ∧
  sent.length ≤ t.sent.length

theorem run_good (cfg : Cfg) (adv : List Req → Reply) :
    ∀ (n : Nat) (s : Sess) (sent : List Req) (last fu ar : Nat),
      budget cfg s + 1 ≤ n → Good cfg s sent fu ar (run cfg adv n s sent last fu ar) := by
  intro n
  induction n with
  | zero => intro s _ _ _ _ h; have := budget_pos cfg s; omega
  | succ n ih =>
    intro s sent last fu ar hn
    unfold run
    split
    · -- session done
      refine ⟨?_, Nat.le_refl _, Nat.le_refl _, by simp, by simp, by simp <;> omega, by simp⟩
      simp
    · rename_i r hcur
      split
      · exact ⟨by simp, Nat.le_refl _, Nat.le_refl _, by simp, by simp, by simp <;> omega, by simp⟩
      · exact ⟨by simp, Nat.le_refl _, Nat.le_refl _, by simp, by simp, by simp <;> omega, by simp⟩
      simp only []
      split
      · exact ⟨by simp, Nat.le_refl _, Nat.le_refl _, by simp, by simp, by simp <;> omega, by simp⟩
      · split
        · exact ⟨by simp, Nat.le_refl _, Nat.le_refl _, by simp, by simp, by simp <;> omega, by simp⟩
        · exact ⟨by simp, Nat.le_refl _, Nat.le_refl _, by simp, by simp, by simp <;> omega, by simp⟩
        · rename_i st hasLoc tgt _
          split
          · exact ⟨by simp, Nat.le_refl _, Nat.le_refl _, by simp, by simp, by simp <;> omega, by simp⟩
          · rename_i s2 hp
            split
            · rename_i hsome
              have hf := processResponse_facts hp hsome
              simp only [setCur_loopType, setCur_numRedirects] at hf
              split
              · rename_i hred
                obtain ⟨h1, h2, h3⟩ := hf.1 hred
                have hb : budget cfg s2 + 1 ≤ n := by
                  unfold budget at hn ⊢; rw [h3]; simp; split at hn <;> omega
                obtain ⟨g1, g2, g3, g4, g5, g6, g7⟩ := ih s2 (sent ++ [sendPrep cfg s r]) st (fu + 1) ar hb
                rw [h3] at g5; simp at g5 g6 g7
                exact ⟨g1, by omega, g3, by omega, by split <;> omega, by omega, by omega⟩
              · rename_i hred
                obtain ⟨h1, h2, h3⟩ := hf.2 (by simpa using hred)
                have hb : budget cfg s2 + 1 ≤ n := by
                  unfold budget at hn ⊢; rw [h2]; simp [h1] at hn ⊢; omega
                obtain ⟨g1, g2, g3, g4, g5, g6, g7⟩ := ih s2 (sent ++ [sendPrep cfg s r]) st fu (ar + 1) hb
                rw [h2] at g5; simp at g5 g6 g7
                exact ⟨g1, g2, by omega, by omega, by simp [h1]; omega, by omega, by omega⟩
            · rename_i hnone
              have hn1 : 1 ≤ n := by have := budget_pos cfg s; omega
              obtain ⟨m, rfl⟩ : ∃ m, n = m + 1 := ⟨n - 1, by omega⟩
              unfold run
              have : s2.cur = none := by simpa using hnone
              rw [this]
              refine ⟨?_, Nat.le_refl _, Nat.le_refl _, by simp, by simp, by simp <;> omega, by simp⟩
              simp

theorem initSess_facts (cfg : Cfg) (r : Req) :
    (initSess cfg r).numRedirects = 0 ∧ (initSess cfg r).loopType = .normal := by
  unfold initSess; exact ⟨rfl, rfl⟩

theorem session_good (cfg : Cfg) (adv : List Req → Reply) (r : Req) :
    Good cfg (initSess cfg r) [] 0 0 (session cfg adv r) := by
  unfold session
  apply run_good
  have := initSess_facts cfg r
  unfold budget enoughFuel; rw [this.1, this.2]; simp; omega

/-! ## Property theorems (C18)

`session cfg adv r` is one visit's fetch loop: the real `WebSession` driven by
`while not done(): start(); download()`, against ANY server strategy `adv` (a function of
everything sent so far: any status, any / no / unparsable `Location`, 401 for ever, failures),
for ANY configuration (`maxRedirects`, cookie jar, login) and ANY first request. -/

/-- Redirect follow-ups per visit never exceed the configured maximum, whatever the server does. -/
theorem followups_le_max (cfg : Cfg) (adv : List Req → Reply) (r : Req) :
    (session cfg adv r).followUps ≤ cfg.maxRedirects := by
  have := (session_good cfg adv r).2.2.2.1
  simpa [(initSess_facts cfg r).1] using this

/-- The exact authentication-retry bound of the code: the retry is re-armed by every redirect
hop, so a visit makes at most (follow-ups + 1) retries — NOT at most one (see
`literal_auth_bound_counterexample`). -/
theorem auth_retry_bound (cfg : Cfg) (adv : List Req → Reply) (r : Req) :
    (session cfg adv r).authRetries ≤ (session cfg adv r).followUps + 1 := by
  have := (session_good cfg adv r).2.2.2.2.1
  simp [(initSess_facts cfg r).2] at this
  omega

/-- Requests per visit: one first request, plus one per follow-up, plus one per
authentication retry; hence at most 2·(max_redirects + 1). -/
theorem requests_per_visit_bound (cfg : Cfg) (adv : List Req → Reply) (r : Req) :
    (session cfg adv r).sent.length ≤ (session cfg adv r).followUps + (session cfg adv r).authRetries + 1 ∧
    (session cfg adv r).sent.length ≤ 2 * (cfg.maxRedirects + 1) := by
  have h1 := followups_le_max cfg adv r
  have h2 := auth_retry_bound cfg adv r
  have h3 := (session_good cfg adv r).2.2.2.2.2.1
  simp at h3
  omega

/-- The loop always ends within the fuel the model gives it: every visit ends with
done / skipped / a (protocol or network) error. -/
theorem session_never_out_of_fuel (cfg : Cfg) (adv : List Req → Reply) (r : Req) :
    (session cfg adv r).out ≠ .fuel := (session_good cfg adv r).1

/-! ### the sentence read literally ("… plus ONE authentication retry") does not hold -/

/-- the literal reading of the property's first sentence -/
def C18_literal : Prop :=
  ∀ (cfg : Cfg) (adv : List Req → Reply) (r : Req), (session cfg adv r).authRetries ≤ 1

def witnessUrl (p : String) : UrlC :=
  { scheme := lit "http", hostname := lit "a.example", port := 80, ipv6 := false, path := lit p, query := [],
    username := [], password := [], normUser := [], normPass := [] }

def witnessCfg : Cfg :=
  { maxRedirects := 2, proxy := false, factoryFields := [], useJar := false, auth := basicAuth, jar := fun _ _ => none }

/-- a server that alternates 401 and 307 -/
def witnessScript : List Reply :=
  [.resp 401 false .invalid, .resp 307 true (.url (witnessUrl "/y")),
   .resp 401 false .invalid, .resp 307 true (.url (witnessUrl "/z")),
   .resp 401 false .invalid, .resp 307 true (.url (witnessUrl "/w")), .resp 401 false .invalid]

def witnessReq : Req :=
  { method := lit "GET", resourcePath := lit "/x", version := lit "HTTP/1.1", fields := [], url := witnessUrl "/x",
    username := lit "GU", password := lit "GP" }

theorem witness_counts :
    (session witnessCfg (scriptAdv witnessScript) witnessReq).authRetries = 3 ∧
    (session witnessCfg (scriptAdv witnessScript) witnessReq).followUps = 2 ∧
    (session witnessCfg (scriptAdv witnessScript) witnessReq).sent.length = 6 := by
  decide

/-- With max_redirects = 2 and a login configured, the alternating server obtains 3
authentication retries and 6 requests in one visit (replayed on the real code:
harness/corpus/C18/alternate_401_307.json). -/
theorem literal_auth_bound_counterexample : ¬ C18_literal := by
  intro h
  have := h witnessCfg (scriptAdv witnessScript) witnessReq
  rw [witness_counts.1] at this
  omega

/-! ### one visit by the web processor, and the retry limit -/

/-- the record after a visit -/
def afterVisit (tries : Nat) (accept : Bool) (cfg : Cfg) (adv : List Req → Reply) (r : Req) (rec : Rec) : Rec :=
  (visit tries accept cfg adv r rec).2.foldl applyCheckIn rec

/-- `every_error_checkin_increments`: whatever exception ends a visit — refused connection and DNS
failure included, with or without `--retry-connrefused` / `--retry-dns-error` — `handle_error` checks
the item in with the try count raised; in particular every error kind that leads to `Status.error`
(the item is offered again) costs a try. -/
theorem every_error_checkin_increments (cfg : Cfg) (e : PyExc) :
    (handleError cfg e).increment = true ∧
    ((handleError cfg e).status = .error → (handleError cfg e).increment = true) := by
  have h : (handleError cfg e).increment = true := by
    unfold handleError; split <;> (try split) <;> rfl
  exact ⟨h, fun _ => h⟩

theorem endOfVisit_increment (cfg : Cfg) (last : Nat) (out : Outcome) : (endOfVisit cfg last out).increment = true := by
  unfold endOfVisit
  split
  · split <;> (try split) <;> rfl
  · rfl
  · exact (every_error_checkin_increments cfg _).1
  · rfl

/-- Every visit makes exactly one check-in, and it raises the try count by exactly one
(`ItemSession.set_status` / `skip`; the real `assert not self._try_count_incremented`). -/
theorem try_count_increments_once_per_visit (tries : Nat) (accept : Bool) (cfg : Cfg)
    (adv : List Req → Reply) (r : Req) (rec : Rec) :
    (visit tries accept cfg adv r rec).2.length = 1 ∧
    (afterVisit tries accept cfg adv r rec).tryCount = rec.tryCount + 1 := by
  unfold afterVisit visit
  split
  · simp [applyCheckIn]
  · simp [applyCheckIn, endOfVisit_increment]

/-- A visit issues requests only while tries are left, and never more than 2·(max_redirects+1). -/
theorem visit_requests (tries : Nat) (accept : Bool) (cfg : Cfg) (adv : List Req → Reply) (r : Req) (rec : Rec) :
    ((visit tries accept cfg adv r rec).1 ≠ [] → (tries = 0 ∨ rec.tryCount < tries)) ∧
    (visit tries accept cfg adv r rec).1.length ≤ 2 * (cfg.maxRedirects + 1) := by
  unfold visit
  split
  · simp
  · rename_i h
    refine ⟨fun _ => ?_, (requests_per_visit_bound cfg adv r).2⟩
    simp [triesFilter] at h
    by_cases h0 : tries = 0
    · exact Or.inl h0
    · exact Or.inr (h.1 h0)

/-- the requests of successive visits of one URL, each visit against its own adversary and filter verdict -/
def visitsFrom (tries : Nat) (cfg : Cfg) (r : Req) : List (Bool × (List Req → Reply)) → Rec → List (List Req)
  | [], _ => []
  | (acc, adv) :: rest, rec =>
    (visit tries acc cfg adv r rec).1 :: visitsFrom tries cfg r rest (afterVisit tries acc cfg adv r rec)

/-- A URL that keeps failing is attempted (visited with at least one request) at most `tries`
times — for every sequence of visits and server behaviours, even if it were offered again
regardless of its status.  (`tries = 0` is the documented "unlimited" and excluded.) -/
theorem visits_with_request_le_tries (tries : Nat) (ht : 1 ≤ tries) (cfg : Cfg) (r : Req) :
    ∀ (vs : List (Bool × (List Req → Reply))) (rec : Rec),
      ((visitsFrom tries cfg r vs rec).filter (· ≠ [])).length ≤ tries - rec.tryCount := by
  intro vs
  induction vs with
  | nil => intro rec; simp [visitsFrom]
  | cons v rest ih =>
    intro rec
    obtain ⟨acc, adv⟩ := v
    unfold visitsFrom
    have hinc := (try_count_increments_once_per_visit tries acc cfg adv r rec).2
    have hreq := (visit_requests tries acc cfg adv r rec).1
    have := ih (afterVisit tries acc cfg adv r rec)
    rw [hinc] at this
    simp only [List.filter_cons]
    split
    · rename_i hne
      have : rec.tryCount < tries := by
        rcases hreq (by simpa using hne) with h | h
        · omega
        · exact h
      simp only [List.length_cons]; omega
    · omega

/-! ### visits with a robots.txt checker: the server also controls the robots.txt answers -/

/-- the record after a visit with robots.txt handling -/
def afterVisitR (tries : Nat) (accept : Bool) (cfg : Cfg) (adv advR : List Req → Reply) (d : Bool)
    (r : Req) (rec : Rec) (pool : Option Bool) : Rec :=
  (visitR tries accept cfg adv advR d r rec pool).checkIns.foldl applyCheckIn rec

/-- With robots.txt in play — whatever the robots.txt fetch meets (5xx for ever, resets, redirects,
garbage, a disallowing file) — a visit still makes exactly one check-in and raises try_count by one. -/
theorem visitR_one_checkin (tries : Nat) (accept : Bool) (cfg : Cfg) (adv advR : List Req → Reply) (d : Bool)
    (r : Req) (rec : Rec) (pool : Option Bool) :
    (visitR tries accept cfg adv advR d r rec pool).checkIns.length = 1 ∧
    (afterVisitR tries accept cfg adv advR d r rec pool).tryCount = rec.tryCount + 1 := by
  unfold afterVisitR visitR
  split
  · simp [applyCheckIn]
  · split
    · simp [applyCheckIn]
    · simp [applyCheckIn, endOfVisit_increment]
    · simp only []
      split <;> simp [applyCheckIn, endOfVisit_increment, (every_error_checkin_increments cfg _).1]

/-- The robots.txt consult sits behind the filter verdict: a visit sends ANY request — for the
page or for robots.txt — only while tries are left; a URL that TriesFilter refuses is checked in as
skipped without a single request.  Each kind of request is bounded by 2·(max_redirects+1). -/
theorem visitR_requests (tries : Nat) (accept : Bool) (cfg : Cfg) (adv advR : List Req → Reply) (d : Bool)
    (r : Req) (rec : Rec) (pool : Option Bool) :
    let v := visitR tries accept cfg adv advR d r rec pool
    ((v.sent ≠ [] ∨ v.robotsSent ≠ []) → (tries = 0 ∨ rec.tryCount < tries)) ∧
    (triesFilter tries rec = false → v.sent = [] ∧ v.robotsSent = [] ∧
      (afterVisitR tries accept cfg adv advR d r rec pool).status = .skipped) ∧
    v.sent.length ≤ 2 * (cfg.maxRedirects + 1) ∧ v.robotsSent.length ≤ 2 * (cfg.maxRedirects + 1) := by
  intro v
  by_cases hf : (!(triesFilter tries rec && accept)) = true
  · have hv : v = ⟨[], [], [⟨.skipped, true⟩], pool⟩ := by
      show visitR tries accept cfg adv advR d r rec pool = _
      unfold visitR; rw [if_pos hf]
    have ha : (afterVisitR tries accept cfg adv advR d r rec pool).status = .skipped := by
      unfold afterVisitR; rw [show visitR tries accept cfg adv advR d r rec pool = v from rfl, hv]; simp [applyCheckIn]
    rw [hv]; simp [ha]
  · have hpass : triesFilter tries rec = true := by
      cases h : triesFilter tries rec <;> simp [h] at hf ⊢
    have htl : tries = 0 ∨ rec.tryCount < tries := by
      simp [triesFilter] at hpass
      by_cases h0 : tries = 0
      · exact Or.inl h0
      · rcases hpass with h | h
        · exact absurd h h0
        · exact Or.inr h
    have hno : triesFilter tries rec = false → v.sent = [] ∧ v.robotsSent = [] ∧
        (afterVisitR tries accept cfg adv advR d r rec pool).status = .skipped := by
      intro h; rw [hpass] at h; cases h
    refine ⟨fun _ => htl, hno, ?_, ?_⟩
    · show (visitR tries accept cfg adv advR d r rec pool).sent.length ≤ _
      unfold visitR; rw [if_neg hf]
      split
      · simp
      · exact (requests_per_visit_bound cfg adv r).2
      · simp only []; split
        · simp
        · simp
        · exact (requests_per_visit_bound cfg adv r).2
    · show (visitR tries accept cfg adv advR d r rec pool).robotsSent.length ≤ _
      unfold visitR; rw [if_neg hf]
      split
      · simp
      · simp
      · simp only []
        have := (requests_per_visit_bound { cfg with gate := fun _ => .pass } advR (robotsReq r.url)).2
        split <;> exact this

/-- one visit's adversary: filter verdict, page server, robots.txt server, what a 200 robots body says -/
abbrev VisitAdv := Bool × (List Req → Reply) × (List Req → Reply) × Bool

/-- per visit: did it send any request (page or robots.txt)?  The pool is threaded through. -/
def visitsFromR (tries : Nat) (cfg : Cfg) (r : Req) : List VisitAdv → Rec → Option Bool → List Bool
  | [], _, _ => []
  | (acc, adv, advR, d) :: rest, rec, pool =>
    let v := visitR tries acc cfg adv advR d r rec pool
    (!(v.sent.isEmpty && v.robotsSent.isEmpty)) ::
      visitsFromR tries cfg r rest (afterVisitR tries acc cfg adv advR d r rec pool) v.pool

/-- `visits_with_request_le_tries` with robots.txt: for every sequence of visits against servers
that also control the robots.txt answers (perpetual 5xx / resets included), at most
`tries − try_count` visits send any request at all.  (tries ≥ 1.) -/
theorem visits_with_any_request_le_tries (tries : Nat) (ht : 1 ≤ tries) (cfg : Cfg) (r : Req) :
    ∀ (vs : List VisitAdv) (rec : Rec) (pool : Option Bool),
      ((visitsFromR tries cfg r vs rec pool).filter (· = true)).length ≤ tries - rec.tryCount := by
  intro vs
  induction vs with
  | nil => intro rec pool; simp [visitsFromR]
  | cons v rest ih =>
    intro rec pool
    obtain ⟨acc, adv, advR, d⟩ := v
    unfold visitsFromR
    have hinc := (visitR_one_checkin tries acc cfg adv advR d r rec pool).2
    have hreq := (visitR_requests tries acc cfg adv advR d r rec pool).1
    have := ih (afterVisitR tries acc cfg adv advR d r rec pool) (visitR tries acc cfg adv advR d r rec pool).pool
    rw [hinc] at this
    simp only [List.filter_cons]
    split
    · rename_i hne
      have : rec.tryCount < tries := by
        have hh : (visitR tries acc cfg adv advR d r rec pool).sent ≠ [] ∨
            (visitR tries acc cfg adv advR d r rec pool).robotsSent ≠ [] := by
          simpa using hne
        rcases hreq hh with h | h
        · omega
        · exact h
      simp only [List.length_cons]; omega
    · omega

/-! ### restarts: the process dies while an attempt is in flight, the next run continues on the same table -/

/-- what happens to one URL over a sequence of runs -/
inductive RunEvent
  /-- a visit that runs to its check-in -/
  | visit (a : VisitAdv)
  /-- the item is checked out (`in_progress`), the process dies before the check-in, and the next run's
  `release()` puts it back (`todo`); the robots pool of the dead process is gone -/
  | killedAndRestarted

theorem release_tryCount (rec : Rec) : (release rec).tryCount = rec.tryCount := by
  unfold release; split <;> rfl

/-- per event: was it a COMPLETED visit that sent a request (page or robots.txt)? -/
def eventsFrom (tries : Nat) (cfg : Cfg) (r : Req) : List RunEvent → Rec → Option Bool → List Bool
  | [], _, _ => []
  | .killedAndRestarted :: rest, rec, _ =>
    false :: eventsFrom tries cfg r rest (release { rec with status := .inProgress }) none
  | .visit (acc, adv, advR, d) :: rest, rec, pool =>
    let v := visitR tries acc cfg adv advR d r rec pool
    (!(v.sent.isEmpty && v.robotsSent.isEmpty)) ::
      eventsFrom tries cfg r rest (afterVisitR tries acc cfg adv advR d r rec pool) v.pool

/-- `attempts_over_restarts_le_tries`: over ANY sequence of runs — visits against arbitrary servers,
interleaved with any number of crashes in mid-attempt and restarts on the same table — the completed
attempts (visits that sent a request) of a URL number at most `tries − try_count`: a restart never hands
the tries budget back.  (Each crash adds at most its one interrupted, uncounted attempt.)  tries ≥ 1. -/
theorem attempts_over_restarts_le_tries (tries : Nat) (ht : 1 ≤ tries) (cfg : Cfg) (r : Req) :
    ∀ (evs : List RunEvent) (rec : Rec) (pool : Option Bool),
      ((eventsFrom tries cfg r evs rec pool).filter (· = true)).length ≤ tries - rec.tryCount := by
  intro evs
  induction evs with
  | nil => intro rec pool; simp [eventsFrom]
  | cons e rest ih =>
    intro rec pool
    cases e with
    | killedAndRestarted =>
      unfold eventsFrom
      have := ih (release { rec with status := .inProgress }) none
      rw [release_tryCount] at this
      simpa using this
    | visit a =>
      obtain ⟨acc, adv, advR, d⟩ := a
      unfold eventsFrom
      have hinc := (visitR_one_checkin tries acc cfg adv advR d r rec pool).2
      have hreq := (visitR_requests tries acc cfg adv advR d r rec pool).1
      have := ih (afterVisitR tries acc cfg adv advR d r rec pool) (visitR tries acc cfg adv advR d r rec pool).pool
      rw [hinc] at this
      simp only [List.filter_cons]
      split
      · rename_i hne
        have : rec.tryCount < tries := by
          have hh : (visitR tries acc cfg adv advR d r rec pool).sent ≠ [] ∨
              (visitR tries acc cfg adv advR d r rec pool).robotsSent ≠ [] := by
            simpa using hne
          rcases hreq hh with h | h
          · omega
          · exact h
        simp only [List.length_cons]; omega
      · omega

/-- non-vacuity: tries = 3, two failed attempts, a crash during the third, restart: exactly one more attempt -/
example :
    let adv := scriptAdv [.resp 500 false .invalid]
    let v : RunEvent := .visit (true, adv, adv, false)
    eventsFrom 3 witnessCfg witnessReq [v, v, .killedAndRestarted, v, v, v] ⟨.todo, 0⟩ (some true)
      = [true, true, false, true, false, false] := by decide

/-! ### the crawl of a finite URL set terminates -/

/-- one URL of the finite universe: not discovered yet, or its table record -/
abbrev Slot := Option Rec

def slotMeasure (tries : Nat) : Slot → Nat
  | none => tries + 2
  | some rec => if offered rec then (tries - rec.tryCount) + 1 else 0

def crawlMeasure (tries : Nat) (st : List Slot) : Nat := (st.map (slotMeasure tries)).sum

/-- A step of the crawl: a URL of the universe is discovered (added as `todo`), or an offered
URL (`todo` / `error`) is visited — against any page server, any robots.txt server, any pool
state and any filter verdict (`pool = some true` is a crawl without robots.txt checker). -/
inductive CrawlStep (tries : Nat) (cfg : Cfg) : List Slot → List Slot → Prop
  | discover (st : List Slot) (i : Nat) (h : st[i]? = some none) :
      CrawlStep tries cfg st (st.set i (some ⟨.todo, 0⟩))
  | visit (st : List Slot) (i : Nat) (rec : Rec) (h : st[i]? = some (some rec)) (ho : offered rec = true)
      (accept : Bool) (adv advR : List Req → Reply) (d : Bool) (r : Req) (pool : Option Bool) :
      CrawlStep tries cfg st (st.set i (some (afterVisitR tries accept cfg adv advR d r rec pool)))

theorem sum_set_nat : ∀ (l : List Nat) (i a b : Nat), l[i]? = some a → (l.set i b).sum + a = l.sum + b
  | [], i, a, b, h => by simp at h
  | x :: t, 0, a, b, h => by simp at h; subst h; simp; omega
  | x :: t, i + 1, a, b, h => by
    simp at h
    have := sum_set_nat t i a b h
    simp; omega

theorem sum_set (f : Slot → Nat) (l : List Slot) (i : Nat) (a b : Slot) (h : l[i]? = some a) :
    ((l.set i b).map f).sum + f a = (l.map f).sum + f b := by
  rw [List.map_set]
  exact sum_set_nat (l.map f) i (f a) (f b) (by simp [h])

theorem afterVisit_measure (tries : Nat) (ht : 1 ≤ tries) (accept : Bool) (cfg : Cfg) (adv advR : List Req → Reply)
    (d : Bool) (r : Req) (rec : Rec) (pool : Option Bool) (ho : offered rec = true) :
    slotMeasure tries (some (afterVisitR tries accept cfg adv advR d r rec pool)) < slotMeasure tries (some rec) := by
  have hinc := (visitR_one_checkin tries accept cfg adv advR d r rec pool).2
  simp only [slotMeasure, ho, if_true]
  split
  · -- still offered: then the visit was not refused by the tries filter, so a try was left
    rename_i ho'
    rw [hinc]
    have : rec.tryCount < tries := by
      by_cases hf : rec.tryCount < tries
      · exact hf
      · exfalso
        have hfil : triesFilter tries rec = false := by simp [triesFilter]; omega
        have := ((visitR_requests tries accept cfg adv advR d r rec pool).2.1 hfil).2.2
        simp [offered, this] at ho'
    omega
  · omega

/-- Every step of the crawl strictly decreases Σ (remaining tries + 1) over the URL universe … -/
theorem crawl_step_decreases (tries : Nat) (ht : 1 ≤ tries) (cfg : Cfg) (st st' : List Slot)
    (h : CrawlStep tries cfg st st') : crawlMeasure tries st' < crawlMeasure tries st := by
  cases h with
  | discover i hi =>
    have := sum_set (slotMeasure tries) st i none (some ⟨.todo, 0⟩) hi
    have e1 : slotMeasure tries none = tries + 2 := rfl
    have e2 : slotMeasure tries (some ⟨.todo, 0⟩) = tries + 1 := by simp [slotMeasure, offered]
    rw [e1, e2] at this
    unfold crawlMeasure; omega
  | visit i rec hi ho accept adv advR d r pool =>
    have := sum_set (slotMeasure tries) st i (some rec) (some (afterVisitR tries accept cfg adv advR d r rec pool)) hi
    have hlt := afterVisit_measure tries ht accept cfg adv advR d r rec pool ho
    unfold crawlMeasure; omega

/-- … therefore a crawl of a finite URL set terminates: there is no infinite sequence of
steps, whatever the servers answer (for every tries ≥ 1, every redirect limit). -/
theorem crawl_terminates (tries : Nat) (ht : 1 ≤ tries) (cfg : Cfg) (run : Nat → List Slot) :
    ¬ (∀ k, CrawlStep tries cfg (run k) (run (k + 1))) := by
  intro h
  have key : ∀ k, crawlMeasure tries (run k) + k ≤ crawlMeasure tries (run 0) := by
    intro k
    induction k with
    | zero => simp
    | succ k ih => have := crawl_step_decreases tries ht cfg _ _ (h k); omega
  have := key (crawlMeasure tries (run 0) + 1)
  omega

/-- non-vacuity: a step exists, and a failing URL with tries = 2 is requested in exactly two visits -/
example : CrawlStep 2 witnessCfg [none] [some ⟨.todo, 0⟩] := CrawlStep.discover [none] 0 rfl

example :
    let adv := scriptAdv [.resp 500 false .invalid]
    (visitsFrom 2 witnessCfg witnessReq [(true, adv), (true, adv), (true, adv), (true, adv)] ⟨.todo, 0⟩).map List.length
      = [1, 1, 0, 0] := by decide

example : (session witnessCfg (scriptAdv [.resp 302 true (.url (witnessUrl "/y")), .resp 302 true (.url (witnessUrl "/z")),
    .resp 302 true (.url (witnessUrl "/w"))]) witnessReq).out = .error .ProtocolError := by decide

end Wpull.Request
