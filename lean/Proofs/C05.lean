/-
C05 — Every WARC file is a valid record sequence with correct lengths and digests.
Property theorems over the model `Wpull.Warc` (helper lemmas are in
`Proofs/Lemmas/Warc.lean` and `Proofs/Lemmas/WarcHistory.lean`; the statements that
render the property are the theorems of the section "Property theorems" below).

Parameters (opaque): `e.H = base32 ∘ sha1`, `e.member` = the gzip member written for
a record, `e.uuid`, `e.date`.  `parseRecord` is an independent strict reader of one
WARC/1.0 record defined in `Proofs/Lemmas/Warc.lean` (a specification, it mirrors no wpull code).
-/
import Proofs.Lemmas.WarcHistory
namespace Wpull.Warc
open Wpull

/-! ## helper lemmas -/

theorem count_lf_pairs (ps : List (Bytes × Bytes)) (h : ∀ p ∈ ps, NameOk p.1 ∧ 13 ∉ p.2 ∧ 10 ∉ p.2) :
    (ps.flatMap (fun p => fieldLineB p ++ crlf)).count 10 = ps.length := by
  induction ps with
  | nil => simp
  | cons p t ih =>
    obtain ⟨h1, h2, h3⟩ := h p (by simp)
    have := (fieldLineB_no_crlf p h1 h2 h3).2.1
    have hz : (fieldLineB p).count 10 = 0 := List.count_eq_zero_of_not_mem this
    simp only [List.flatMap_cons, List.count_append, hz, ih (fun q hq => h q (by simp [hq])), List.length_cons]
    simp [crlf]; omega

theorem recordIdOf_injective (a b : Str) (h : recordIdOf a = recordIdOf b) : a = b := by
  unfold recordIdOf at h
  have h1 := List.append_cancel_left (List.append_assoc _ _ _ ▸ (List.append_assoc _ _ _ ▸ h))
  exact List.append_cancel_right h1

/-! ## Property theorems -/

/-- **serialize_parse** — "complete WARC/1.0 record": the strict reader recovers exactly the
named fields, the block and the bytes that follow from the serialisation of a record whose
field names and values are free of CR/LF (names also of `:` and leading blanks) and that
carries Content-Length (once) = the decimal block length.  This contains: the record starts
with `WARC/1.0` CRLF, every named field occupies one line, Content-Length equals the block
length, the block is followed by CRLF CRLF. -/
theorem serialize_parse (r : Record) (rest : Bytes) (h : FieldsOk r.fields.getAll)
    (hlen : (r.fields.getAll.map encPair).filter (fun p => p.1 = lenName) =
      [(lenName, utf8 (decimal r.block.length))]) :
    parseRecord (serialize r ++ rest) = some (r.fields.getAll.map encPair, r.block, rest) :=
  serializePairs_parse _ _ _ h hlen

example : parseRecord (serializePairs [(kType, lit "response"), (kLen, lit "3")] [1, 2, 3] ++ [7]) =
    some ([(utf8 kType, lit "response"), (utf8 kLen, lit "3")], [1, 2, 3], [7]) := by decide

/-- a folded or LF-only header line is *not* accepted by the strict reader (non-vacuity of "strict") -/
example : parseRecord (lit "WARC/1.0\r\nA: b\r\n c\r\nContent-Length: 0\r\n\r\n\r\n\r\n") = none := by decide

/-- **one_line_per_field** — given CR/LF-free names and values the header part of the
serialisation holds exactly one LF per field pair (each pair is one CRLF-terminated line). -/
theorem one_line_per_field (ps : List (Str × Str)) (h : FieldsOk ps) :
    (utf8 (pairsToStr ps)).count 10 = ps.length := by
  rw [utf8_pairsToStr, count_lf_pairs]
  · simp
  · intro p hp
    obtain ⟨q, hq, rfl⟩ := List.mem_map.mp hp
    obtain ⟨h1, h2, h3⟩ := h q hq
    exact ⟨NameOk_of_str _ h1, by simp only [encPair]; rw [utf8_mem_lt _ _ (by omega)]; exact h2,
      by simp only [encPair]; rw [utf8_mem_lt _ _ (by omega)]; exact h3⟩

example : (utf8 (pairsToStr [(kType, lit "a"), (kLen, [])])).count 10 = 2 := by decide
/-- a value containing LF breaks it (why the hypothesis is there) -/
example : (utf8 (pairsToStr [(kType, lit "a\nb")])).count 10 ≠ 1 := by decide

/-- value sources: decimal lengths, record ids and digest fields are CR/LF-free (given that
the uuid / base32 strings are) -/
theorem value_sources_one_line (n : Nat) (u d : Str) (hu : 13 ∉ u ∧ 10 ∉ u) (hd : 13 ∉ d ∧ 10 ∉ d) :
    (13 ∉ decimal n ∧ 10 ∉ decimal n) ∧ (13 ∉ recordIdOf u ∧ 10 ∉ recordIdOf u) ∧
    (13 ∉ sha1Prefix ++ d ∧ 10 ∉ sha1Prefix ++ d) := by
  refine ⟨decimal_no_crlf n, ?_, ?_⟩
  · have h1 : 13 ∉ lit "<urn:uuid:" ∧ 10 ∉ lit "<urn:uuid:" ∧ 13 ∉ lit ">" ∧ 10 ∉ lit ">" := by decide
    simp [recordIdOf, hu.1, hu.2, h1.1, h1.2.1, h1.2.2.1, h1.2.2.2]
  · have h1 : 13 ∉ sha1Prefix ∧ 10 ∉ sha1Prefix := by decide
    simp [hd.1, hd.2, h1.1, h1.2]

/-- **read_cdx_columns_one_line** — the value source of `WARC-Refers-To` (--warc-dedup: CDX index ->
`read_cdx` -> URL table -> `_record_revisit`): whatever terminates an index line (LF, CRLF, or nothing at
the end of the file), no column `read_cdx` returns for a line holds CR or LF, so a record id taken
from the index stays on one header line. -/
theorem read_cdx_columns_one_line (sep : Nat) (body term : Str) (hb : 13 ∉ body ∧ 10 ∉ body)
    (ht : term = [] ∨ term = [10] ∨ term = [13, 10]) :
    ∀ col ∈ readCdxLine sep (body ++ term), 13 ∉ col ∧ 10 ∉ col := by
  intro col hcol
  have hws : ∀ c ∈ term, isSpace c = true := by
    rcases ht with rfl | rfl | rfl <;> intro c hc <;> simp at hc
    · subst hc; decide
    · rcases hc with rfl | rfl <;> decide
  constructor
  · intro h
    exact hb.1 (mem_strip_append_ws body term 13 hws (mem_splitOn1 _ sep col 13 hcol h))
  · intro h
    exact hb.2 (mem_strip_append_ws body term 10 hws (mem_splitOn1 _ sep col 10 hcol h))

example : readCdxLine 32 (lit "http://a/ 1 t/s 200 D 5 0 f.warc <urn:uuid:1>\r\n") =
    [lit "http://a/", lit "1", lit "t/s", lit "200", lit "D", lit "5", lit "0", lit "f.warc", lit "<urn:uuid:1>"] := by decide

/-- **content_length_is_block_length** — after `set_length_and_maybe_checksums` (either
branch) the Content-Length field is the decimal length of the block, the block is untouched,
and the decimal string reads back as that number. -/
theorem content_length_is_block_length (d : Bool) (H : Bytes → Str) (r : Record) (off : Option Nat) :
    (setLenChk d H r off).get? kLen = some (decimal r.block.length) ∧
    (setLenChk d H r off).block = r.block ∧ parseDec? (decimal r.block.length) = some r.block.length :=
  ⟨setLenChk_length d H r off, setLenChk_block d H r off, parseDec_decimal _⟩

example : (setLenChk false (fun _ => []) { idx := 0, fields := [], block := List.replicate 12 0 } none).get? kLen
    = some (lit "12") := by decide

/-- **ends_with_two_crlf** — every serialised record is `WARC/1.0` CRLF … block CRLF CRLF. -/
theorem ends_with_two_crlf (r : Record) :
    ∃ head, serialize r = lit "WARC/1.0" ++ [13, 10] ++ head ++ r.block ++ [13, 10, 13, 10] :=
  ⟨utf8 (pairsToStr r.fields.getAll) ++ crlf, by simp [serialize, serializePairs, versionLine, crlf]⟩

/-- **block_digest / payload_digest** — for every wire header block `hdr` that
`Stream.read_response` accepts (any line ends, spacing, folding, size) and every body:
the response (or revisit) record `end_response` writes has
payload digest = `sha1:` H(exactly the bytes after the header block),
block digest = `sha1:` H(its block), Content-Length = its block length, and its block is
the full wire message — or, for a revisit, exactly the wire header block. -/
theorem response_digests (c : Cfg) (e : Env) (r : Record) (hdr body : Bytes) (rev : Option Str)
    (hw : WireHeader hdr) (hd : c.digests = true) :
    let out := finishResponse c e r (hdr ++ body) rev
    out.get? kPayloadDigest = some (sha1Prefix ++ e.H body) ∧
    out.get? kBlockDigest = some (sha1Prefix ++ e.H out.block) ∧
    out.get? kLen = some (decimal out.block.length) ∧
    (out.block = hdr ++ body ∨ (out.block = hdr ∧ out.get? kType = some (lit "revisit"))) :=
  finishResponse_spec c e r hdr body rev hw hd

/-- **payload_offset_is_wire_header_length** — the offset the recorder hashes from is the
length of the header block as received, whatever follows it. -/
theorem payload_offset_is_wire_header_length (hdr body : Bytes) (h : WireHeader hdr) :
    payloadOffset (hdr ++ body) = hdr.length := payloadOffset_wire hdr body h

/-- LF-only, double-space status line, folded field: offset = 44 = the wire header length
(a re-serialisation of the parsed header has 46 bytes) -/
example : payloadOffset (lit "HTTP/1.1  200 OK\nX: a\n b\nContent-Type: t/s\n\nBODY\n\nmore") = 44 := by decide
example : WireHeader (lit "HTTP/1.1 200 OK\nX: a\n\n") :=
  ⟨[lit "HTTP/1.1 200 OK\n", lit "X: a\n"], [10], by decide, by decide,
   by intro l hl; simp at hl; rcases hl with rfl | rfl
      · exact ⟨⟨lit "HTTP/1.1 200 OK", by decide, by decide⟩, by unfold IsBlank; decide⟩
      · exact ⟨⟨lit "X: a", by decide, by decide⟩, by unfold IsBlank; decide⟩,
   Or.inl rfl⟩

/-- request records and all other records: block digest over the block, payload digest from
the given offset -/
theorem checksum_fields (H : Bytes → Str) (r : Record) (o : Nat) :
    (computeChecksum H r (some o)).get? kBlockDigest = some (sha1Prefix ++ H r.block) ∧
    (computeChecksum H r (some o)).get? kPayloadDigest = some (sha1Prefix ++ H (r.block.drop o)) ∧
    (computeChecksum H r none).get? kBlockDigest = some (sha1Prefix ++ H r.block) :=
  ⟨computeChecksum_block_digest H r _, computeChecksum_payload_digest H r o, computeChecksum_block_digest H r none⟩

/-- **file_is_record_concat** — for every configuration, every set of pre-existing files,
every history of session events (any interleaving, rollover, aborted sessions) and the final
`close()`: each file this life wrote to (and, when appending, every file) consists of what it
held before (nothing when not appending) followed by exactly the bytes of the records logged
for it, in order — one `member` (gzip) or one plain serialisation per record, nothing else. -/
theorem file_is_record_concat (c : Cfg) (e : Env) (existing : List (FName × Bytes)) (ops : List Op)
    (lb : Option Bytes) (f : FName)
    (hf : (∃ en ∈ (life c e existing ops lb).log, en.file = f) ∨ c.appending = true) :
    content (life c e existing ops lb) f =
      preOf c existing f ++ ((((life c e existing ops lb).log.filter (fun en => en.file = f)).map
        (fun en => if c.compress then e.member en.record.idx (serialize en.record) else serialize en.record)).flatten) := by
  have := (life_final c e existing ops lb).concat f (by
    rcases hf with h | h
    · exact Or.inl h
    · exact Or.inr (Or.inl h))
  have he : encOf c e = fun en => if c.compress then e.member en.record.idx (serialize en.record) else serialize en.record := by
    funext en; rfl
  rw [← he]; exact this

/-- **warcinfo_id_points_to_file_head** — in every history, every record written carries as
WARC-Warcinfo-ID the WARC-Record-ID of the first record this life wrote to the same file, and
that first record is a warcinfo record. -/
theorem warcinfo_id_points_to_file_head (c : Cfg) (e : Env) (existing : List (FName × Bytes)) (ops : List Op)
    (lb : Option Bytes) :
    ∀ en ∈ (life c e existing ops lb).log, ∃ w,
      ((life c e existing ops lb).log.filter (fun x => x.file = en.file)).head? = some w ∧
      w.record.get? kType = some (lit "warcinfo") ∧
      en.record.get? kWarcinfoId = w.record.get? kId :=
  (life_final c e existing ops lb).w

/-- **ids_unique (creation level)** — record ids are an injective function of the uuid drawn
for the record, and neither length/digest computation nor Warcinfo-ID stamping touches the id. -/
theorem ids_unique (u v : Str) (r : Record) (d : Bool) (H : Bytes → Str) (off : Option Nat) (w : Str) :
    (recordIdOf u = recordIdOf v → u = v) ∧
    ((setLenChk d H r off).set kWarcinfoId w).get? kId = r.get? kId := by
  refine ⟨recordIdOf_injective u v, ?_⟩
  rw [Record.get_set_other _ _ _ _ (by decide)]
  unfold setLenChk computeChecksum setContentLength
  cases d <;> cases off <;> simp only [if_true, if_false, Bool.false_eq_true] <;>
    repeat rw [Record.get_set_other _ _ _ _ (by decide)]

-- non-vacuity of the history theorems: a one-exchange life with rollover writes 3 files
set_option maxRecDepth 100000 in
example :
    let c : Cfg := { compress := false, digests := true, cdx := true, appending := false, maxSize := some 0,
                     revisit := false, pfx := lit "o", software := lit "s", extra := [], wrapBuiltin := [[], [], []] }
    let e : Env := { H := fun b => decimal b.length, member := fun _ b => b, uuid := decimal, date := fun _ => lit "d",
                     ts := fun _ => lit "0" }
    let s := life c e [] [.beginRequest 0 (lit "u") (lit "i"), .endRequest 0 (lit "GET / HTTP/1.1\r\n\r\n") 18,
                          .beginResponse 0, .endResponse 0 (lit "HTTP/1.1 200 OK\r\n\r\nhi") none, .closeSession] (some [])
    (s.log.map (·.file) = [.numbered 0, .numbered 0, .numbered 0, .numbered 1, .metaF, .metaF]) ∧ s.cdxLines.length = 1 := by
  decide

end Wpull.Warc
